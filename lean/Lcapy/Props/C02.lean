/-
  C02 — time-domain responses satisfy the circuit ODEs, initial state and causality.

  Spec   `LawsT E tcs x`      (Spec/LawsT.lean): KCL at every non-ground node and every component law on formal signals,
                              i = C·D v, v = L·D i + Σ M·D i', D the distributional derivative seen from the state at 0⁻;
                              equality of signals = equality of their formal unilateral transforms at every point that is
                              not a pole of a circuit signal or of a source (`Regular`).
         `LawsTFormal tcs x`  (Model/TimeDomain.lean): every residual has the empty normal form; decided by the driver on
                              the real Lcapy's closed forms.
  C01    `Laws .ivp s cs X`   (Spec/Laws.lean): the s-domain laws with initial-condition sources C·v0, L·i0, M·i0'.
  C09    `lt_deriv`           `L{Dx}(s) = s·X(s) − x(0⁻)` (its lemma `L_signal_deriv`, Proofs/Laplace.lean, is used directly so that
                              this module does not depend on the generated C09 tables);   C10  `ilt_laplace`, `causal_zero_before`.

  Only property theorems live here; helper lemmas are in Proofs/TimeDomain.lean.
-/
import Lcapy.Proofs.TimeDomain
import Lcapy.Proofs.TimeDomainAnchor
import Lcapy.Props.C01
import Lcapy.Props.C10
import Mathlib.Tactic.NormNum
namespace Lcapy.C02
open Lcapy.MNA Lcapy.Laplace Lcapy.TD

section transform
variable {K : Type} [Field K] (E : K → K)

/-- **The ivp capacitor law IS the transform of `i = C·D v` with `v(0⁻) = v0`.**  The source term `C·v0` of
    `capCurrent .ivp` is the `x(0⁻)` of the derivative theorem `lt_deriv`. -/
theorem cap_law_is_transform (hE : IsExp E) (x : Ix → Signal K) (n1 n2 : Nat) (c v0 s : K)
    (hx : ∀ ix, NonPole (x ix).post s) :
    L E (capCurrentT x n1 n2 c (some v0)) s = capCurrent .ivp s c (some v0) (vd (transformOf E x s) n1 n2) := by
  simp only [capCurrentT, L_smul, L_stateDeriv E hE _ s _ (NonPole_vpost hx n1 n2), L_vpost, capCurrent, stateOf]
  ring

/-- … and the same statement through `C09.lt_deriv` itself: the whole-axis signal whose pre-history sits at `v0`. -/
theorem cap_law_via_lt_deriv [DecidableEq K] (hE : IsExp E) (c v0 s : K) (v : ExpPoly K) (hv : NonPole v s) :
    c * (Signal.deriv ⟨[(v0, 0, 0)], v⟩).L E s = capCurrent .ivp s c (some v0) (L E v s) := by
  rw [L_signal_deriv E hE s ⟨[(v0, 0, 0)], v⟩ hv]   -- the lemma quoted as `C09.lt_deriv`
  simp [capCurrent, pre0, Signal.L]; ring

/-- **The ivp inductor law, mutual terms included, IS the transform of `v = L·D i + Σ M·D i'`** with
    `i(0⁻) = i0` and, for every coupled inductor, `i'(0⁻) = i0'`: the s-domain relation contains
    `−L·i0 − Σ M·i0'`.  (A stamp without the `M·i0'` term is therefore NOT the transform of the coupled-inductor
    law when the partner carries an initial current: finding C02-K, fixed in /repo.) -/
theorem ind_law_is_transform (hE : IsExp E) (x : Ix → Signal K) (s : K) (hx : ∀ ix, NonPole (x ix).post s)
    (n1 n2 m : Nat) (l : K) (i0 : Option K) (coup : List (Nat × K × Option K)) (w : Signal K)
    (hr : RestC x (.Ind n1 n2 m l i0 coup, w)) :
    (lawsT x (.Ind n1 n2 m l i0 coup, w)).map (fun p => (p.1, L E p.2 s))
      = laws .ivp s (transformOf E x s) (.Ind n1 n2 m l i0 coup) :=
  laws_transform E hE x s hx (.Ind n1 n2 m l i0 coup, w) hr

/-- **laws_s_of_laws_t** (pointwise lemma at ONE regular point `s`).  READING (audit F3/F4): `LawsT E` is "the time-domain
    laws" only together with `FinitePoles` (otherwise the set of regular points may be empty) and, for DELAYED sources, only
    for an `E` whose delay factors are independent — `Real.exp` (`delayIndep_real`); over ℚ `IsExp E` forces `E = 1`, which
    forgets every delay.  The claimed statements are `C02.lawsTime_iff_formal`, `laws_time_of_laws_s`, `formal_lawsTime`
    (Props/C02Inj.lean), the `…_real` ones, and `lawsTW_iff_formal` (delays as indeterminates).
    Signals that satisfy the time-domain laws (from the initial state written in the netlist;
    at rest where none is written) have transforms that satisfy the ivp s-domain laws of C01 at every regular point,
    the sources being replaced by the transforms of their waveforms.  Any netlist, any size. -/
theorem laws_s_of_laws_t (hE : IsExp E) (tcs : List (TCpt K)) (x : Ix → Signal K)
    (hrest : RestWhereUnspecified tcs x) (h : LawsT E tcs x) (s : K) (hs : Regular tcs x s) :
    Laws .ivp s (tcs.map (atS E s)) (transformOf E x s) := by
  obtain ⟨hk, hl⟩ := h s hs
  refine ⟨?_, ?_⟩
  · intro k hk0
    have := hk k hk0
    rw [kclT, L_flatMap_lsum] at this
    rw [List.map_map, ← this]
    congr 1
    apply List.map_congr_left
    intro c hc
    exact (outflow_transform E hE x s hs.1 k c (restC_of_rest hrest hc)).symm
  · intro c' hc' p hp
    obtain ⟨c, hc, rfl⟩ := List.mem_map.mp hc'
    rw [← laws_transform E hE x s hs.1 c (restC_of_rest hrest hc)] at hp
    obtain ⟨q, hq, rfl⟩ := List.mem_map.mp hp
    exact hl c hc q hq

/-- **laws_t_of_laws_s** (transform level; meaningful with `FinitePoles`: see `C02.laws_time_of_laws_s`): conversely, if the transforms satisfy the ivp s-domain laws at every regular point then the
    signals satisfy the time-domain laws (equality of signals being equality of transforms at every regular point). -/
theorem laws_t_of_laws_s (hE : IsExp E) (tcs : List (TCpt K)) (x : Ix → Signal K)
    (hrest : RestWhereUnspecified tcs x)
    (h : ∀ s, Regular tcs x s → Laws .ivp s (tcs.map (atS E s)) (transformOf E x s)) :
    LawsT E tcs x := by
  intro s hs
  obtain ⟨hk, hl⟩ := h s hs
  refine ⟨?_, ?_⟩
  · intro k hk0
    have := hk k hk0
    rw [List.map_map] at this
    rw [kclT, L_flatMap_lsum, ← this]
    congr 1
    apply List.map_congr_left
    intro c hc
    exact outflow_transform E hE x s hs.1 k c (restC_of_rest hrest hc)
  · intro c hc q hq
    have hm : (q.1, L E q.2 s) ∈ laws .ivp s (transformOf E x s) (atS E s c) := by
      rw [← laws_transform E hE x s hs.1 c (restC_of_rest hrest hc)]
      exact List.mem_map.mpr ⟨q, hq, rfl⟩
    exact hl (atS E s c) (List.mem_map.mpr ⟨c, hc, rfl⟩) _ hm

/-- composition with C01: at every regular point the transforms of a time-domain solution solve the MNA system that
    the `_stamp` methods assemble in ivp analysis (so they ARE Lcapy's s-domain solution when that system is regular,
    `C01.mna_unique`). -/
theorem transforms_solve_mna (hE : IsExp E) (tcs : List (TCpt K)) (x : Ix → Signal K)
    (hrest : RestWhereUnspecified tcs x) (h : LawsT E tcs x) (s : K) (hs : Regular tcs x s)
    (hwf : C01.WF (tcs.map (atS E s))) :
    Solves .ivp s (tcs.map (atS E s)) (transformOf E x s) :=
  (C01.mna_iff_laws .ivp s _ _ hwf).mpr (laws_s_of_laws_t E hE tcs x hrest h s hs)

/-- **response_unique_at**: two time-domain solutions of one netlist (same sources, same initial state) have the same
    transform at every point that is regular for both and at which the MNA system is non-singular on the unknowns `U`
    (`C01.NonsingularOn`; for `U = C01.Unknown …` this is `C01.Nonsingular`) — i.e. the time
    response is THE inverse transform of the unique s-domain solution.  Equality of the signals themselves (as normal
    forms) follows by injectivity of `L`: `C02.response_unique` (Props/C02Inj.lean). -/
theorem response_unique_at (hE : IsExp E) (U : Ix → Prop) (tcs : List (TCpt K)) (x y : Ix → Signal K)
    (hrx : RestWhereUnspecified tcs x) (hry : RestWhereUnspecified tcs y)
    (hx : LawsT E tcs x) (hy : LawsT E tcs y) (s : K) (hsx : Regular tcs x s) (hsy : Regular tcs y s)
    (hwf : C01.WF (tcs.map (atS E s))) (hns : C01.NonsingularOn U .ivp s (tcs.map (atS E s))) :
    ∀ i, U i → L E (x i).post s = L E (y i).post s :=
  C01.laws_unique_on U .ivp s _ _ _ hwf hns (laws_s_of_laws_t E hE tcs x hrx hx s hsx) (laws_s_of_laws_t E hE tcs y hry hy s hsy)

/-- **response_is_ilt** (`TD.response` = the model's `ilt`, executed by Driver/C10, not by Driver/C02; transform-level
    conclusion, see `C02.response_is_ilt_time` for the form with `FinitePoles`): the time response obtained by inverting (`ilt`, the mirror of
    `InverseLaplaceTransformer.ratfun`) partial-fraction data of an s-domain solution satisfies the time-domain laws.
    `X ix s = Σ evalPF` is the s-domain solution written in partial fractions (one `PF` per delay factor);
    orders are numbered from 1 as `as_QRPO` does. -/
theorem response_is_ilt (hE : IsExp E) (tcs : List (TCpt K)) (pre : Ix → List (K × Nat × K)) (pfs : Ix → List (PF K))
    (hpos : ∀ ix, ∀ pf ∈ pfs ix, ∀ r ∈ pf.R, 0 < r.2.2)
    (hrest : RestWhereUnspecified tcs (fun ix => ⟨pre ix, response (pfs ix)⟩))
    (hS : ∀ s, Regular tcs (fun ix => ⟨pre ix, response (pfs ix)⟩) s →
      Laws .ivp s (tcs.map (atS E s)) (fun ix => lsum ((pfs ix).map (fun pf => evalPF E pf s)))) :
    LawsT E tcs (fun ix => ⟨pre ix, response (pfs ix)⟩) := by
  apply laws_t_of_laws_s E hE tcs _ hrest
  intro s hs
  have : transformOf E (fun ix => (⟨pre ix, response (pfs ix)⟩ : Signal K)) s
      = fun ix => lsum ((pfs ix).map (fun pf => evalPF E pf s)) := by
    funext ix
    simp only [transformOf, response, L_flatMap_lsum]
    congr 1
    apply List.map_congr_left
    intro pf hpf
    exact C10.ilt_laplace E pf s (hpos ix pf hpf)
  rw [this]
  exact hS s hs

end transform

/-! ### hand-over of the state at a switching instant -/

section handover
variable {K : Type} [Field K] [DecidableEq K]

/-- **handover**: `convert_IVP` / `initialize` write into the post-switch netlist the capacitor voltages and inductor
    currents (for couplings: the partner's current) of the pre-switch solution `X` at the switching instant — for a
    steady (dc) pre-switch circuit `X` is its C01 `Laws .dc` solution, which is what the harness computes with the Lean
    C01 model (`mna.solve dc`, checked by `residual`) and compares with what Lcapy wrote (oracle `state-handover`); for a
    pre-switch response that is still moving `X` is `evalAt` of that (law-checked) response at the switching instant.
    For signals whose pre-history ends in `X` this initial-value problem has EXACTLY the
    solutions of the post-switch netlist with no initial condition written, i.e. of the circuit continued from its own
    state at 0⁻: the initial conditions handed over are the values at t = 0⁻ of the pre-switch solution, nothing else.
    (A hand-over of any other value, e.g. the solution at a later instant, breaks this: seeded change C02-3.) -/
theorem handover (X : Ix → K) (cs : List (Cpt K × Signal K)) (x : Ix → Signal K) (h : StartsFrom X x) :
    LawsTFormal (cs.map (fun c => (initializeFrom X c.1, c.2))) x ↔ LawsTFormal (cs.map (fun c => (clearIC c.1, c.2))) x := by
  have hk : ∀ k, kclT x k (cs.map (fun c => (initializeFrom X c.1, c.2))) = kclT x k (cs.map (fun c => (clearIC c.1, c.2))) := by
    intro k
    simp only [kclT, List.flatMap_map]
    congr 1
    funext c
    exact outflowT_handover h k c.1 c.2
  constructor
  · rintro ⟨h1, h2⟩
    refine ⟨fun k hk0 => by rw [← hk]; exact h1 k hk0, ?_⟩
    intro c hc p hp
    obtain ⟨c0, hc0, rfl⟩ := List.mem_map.mp hc
    rw [← lawsT_handover h] at hp
    exact h2 _ (List.mem_map.mpr ⟨c0, hc0, rfl⟩) p hp
  · rintro ⟨h1, h2⟩
    refine ⟨fun k hk0 => by rw [hk]; exact h1 k hk0, ?_⟩
    intro c hc p hp
    obtain ⟨c0, hc0, rfl⟩ := List.mem_map.mp hc
    rw [lawsT_handover h] at hp
    exact h2 _ (List.mem_map.mpr ⟨c0, hc0, rfl⟩) p hp

/-- **handover_at_partial**: the same for a switch operated at an instant `T` of the pre-switch time axis (the `T > 0`
    and two-switch families of the harness).  The post-switch problem lives on the time axis `τ = t − T`; the state handed
    over is `evalAt E (xp ·).post T`, the pre-switch response `xp` AT `T` — what `initialize(before, T)` substitutes and what
    the oracle `state-handover-T` recomputes with the Lean `evalAt`.  PARTIAL: the identification of the value at `T⁻` with
    `evalAt … T` (which takes u(0) = 1) assumes that no term of `xp` switches exactly at `T` and no impulse sits there; the
    shift of the SOURCES to the new time axis is not modelled (Lcapy does not shift them either: only sources that are
    constant for t > 0 are generated). -/
theorem handover_at_partial [LinearOrder K] (E : K → K) (T : K) (xp : Ix → Signal K) (cs : List (Cpt K × Signal K))
    (x : Ix → Signal K) (h : StartsFrom (fun ix => evalAt E (xp ix).post T) x) :
    LawsTFormal (cs.map (fun c => (initializeFrom (fun ix => evalAt E (xp ix).post T) c.1, c.2))) x
      ↔ LawsTFormal (cs.map (fun c => (clearIC c.1, c.2))) x :=
  handover _ cs x h

/-- the constant continuation of `X` starts from `X` -/
example (X : Ix → ℚ) : StartsFrom X (constSignals X) := fun ix => by simp [constSignals, pre0]

end handover

/-! ### the decision procedure of the driver -/

section formal
variable {K : Type} [Field K] [DecidableEq K]

/-- **formal_lawsT**: what the driver decides implies the transform-level laws, for every `E` (with `FinitePoles`:
    `C02.formal_lawsTime`; the formal laws are the stronger statement, cf. `lawsTW_iff_formal`). -/
theorem formal_lawsT (E : K → K) (tcs : List (TCpt K)) (x : Ix → Signal K) (h : LawsTFormal tcs x) : LawsT E tcs x := by
  intro s _
  exact ⟨fun k hk => L_of_formalZero E (h.1 k hk) s, fun c hc p hp => L_of_formalZero E (h.2 c hc p hp) s⟩

/-- soundness of the verdict `ok` of `checkLawsT`: KCL at the nodes `1 … nNodes−1` and all component laws hold formally -/
theorem checkLawsT_ok (tcs : List (TCpt K)) (x : Ix → Signal K) (n : Nat) (h : checkLawsT tcs x n = .ok) :
    (∀ k, k ≠ 0 → k < n → FormalZero (kclT x k tcs)) ∧ (∀ c ∈ tcs, ∀ p ∈ lawsT x c, FormalZero p.2) := by
  unfold checkLawsT at h
  simp only at h
  split at h
  · rename_i heq
    subst h
    obtain ⟨a, _, ha⟩ := List.exists_of_findSome?_eq_some heq
    split_ifs at ha <;> simp at ha
  · rename_i hk
    split at h
    · rename_i heq
      subst h
      obtain ⟨a, _, ha⟩ := List.exists_of_findSome?_eq_some heq
      obtain ⟨q, _, hq⟩ := List.exists_of_findSome?_eq_some ha
      split_ifs at hq <;> simp at hq
    · rename_i hl
      constructor
      · intro k hk0 hkn
        have := (List.findSome?_eq_none_iff.mp hk) k (List.mem_range.mpr hkn)
        simp only [hk0, if_false] at this
        by_contra hne
        have hne' : (nf (kclT x k tcs)).isEmpty = false := by
          cases hnf : nf (kclT x k tcs) with
          | nil => exact absurd hnf hne
          | cons a b => rfl
        simp [hne'] at this
      · intro c hc p hp
        obtain ⟨i, hi⟩ := List.mem_iff_getElem.mp hc
        obtain ⟨hi1, hi2⟩ := hi
        have hmem : (c, i) ∈ tcs.zipIdx := by
          rw [List.mem_zipIdx_iff_getElem?]; simp [hi2, hi1]
        have := (List.findSome?_eq_none_iff.mp hl) (c, i) hmem
        simp only at this
        have := (List.findSome?_eq_none_iff.mp this) p hp
        by_contra hne
        have hne' : (nf p.2).isEmpty = false := by
          cases hnf : nf p.2 with
          | nil => exact absurd hnf hne
          | cons a b => rfl
        simp [hne'] at this

/-- **checkLawsT_sound**: the verdict `ok` on a netlist whose components sit on the nodes `0 … n−1` only IS `LawsTFormal`
    (KCL at a node no component touches is the empty residual). -/
theorem checkLawsT_sound (tcs : List (TCpt K)) (x : Ix → Signal K) (n : Nat) (h : checkLawsT tcs x n = .ok)
    (hn : nodesBelow n tcs = true) : LawsTFormal tcs x := by
  obtain ⟨hk, hl⟩ := checkLawsT_ok tcs x n h
  refine ⟨fun k hk0 => ?_, hl⟩
  by_cases hlt : k < n
  · exact hk k hk0 hlt
  · rw [kclT_nil x k hk0 tcs (not_mem_nodesOf_of_nodesBelow hn (Nat.le_of_not_lt hlt))]
    rfl

/-- **tdCheck_sound** — soundness of the oracle AS THE DRIVER RUNS IT (`td.laws full|smooth`): `tdCheck` applies the
    time-domain reading of a capacitor-controlled CCVS (`capControl`), in `smooth` mode the pre-history reading
    (`clearIC`, `smoothSignals`), refuses inconsistent coupling records and components outside the node range, and runs
    `checkLawsT`; the verdict `ok` implies `LawsTFormal` of exactly the problem `tdProblem` it was decided on.
    (Carrier: any field; the driver's carrier `GQ` is the Gaussian rationals with an error value — no verdict is
    issued on an error value since it never equals 0 — see the level note.) -/
theorem tdCheck_sound (smooth : Bool) (brs : List String) (nNodes : Nat) (tcs : List (String × TCpt K)) (x : Ix → Signal K)
    (h : tdCheck smooth brs nNodes tcs x = some .ok) :
    LawsTFormal ((tdProblem smooth brs nNodes tcs x).1.map (fun c => c.2)) (tdProblem smooth brs nNodes tcs x).2.1 := by
  unfold tdCheck at h
  simp only at h
  split_ifs at h with hc
  simp only [Bool.and_eq_true] at hc
  exact checkLawsT_sound _ _ _ (Option.some.inj h) hc.2

/-- **ic_start** (formal coefficient version; the statement about the VALUE at 0⁺ is `ic_start_value`, which adds `Causal`:
    `val0plus` is the value at 0⁺ only when no term has a negative delay).  If `i = C·D v` holds formally, the voltage is impulse-free and the current has no
    impulse at the origin, then the capacitor voltage at 0⁺ is its state at 0⁻ : the initial condition `v0` of the
    netlist when there is one, otherwise the value of its own pre-history (continuity across t = 0). -/
theorem ic_start (x : Ix → Signal K) (n1 n2 : Nat) (c : K) (v0 : Option K) (i : ExpPoly K) (hc : c ≠ 0)
    (hlaw : FormalZero (subP i (capCurrentT x n1 n2 c v0)))
    (hv : NoDelta (vpost x n1 n2)) (hi : impulse0 i = 0) :
    val0plus (vpost x n1 n2) = stateOf v0 (vpre0 x n1 n2) := by
  have h0 := coefOf_of_formalZero hlaw (.dl 0 0 0)
  rw [coefOf_subP, capCurrentT, coefOf_smul] at h0
  have h1 := impulse0_stateDeriv (stateOf v0 (vpre0 x n1 n2)) (vpost x n1 n2) hv
  simp only [impulse0] at h1 hi
  rw [h1, hi] at h0
  have : c * (val0plus (vpost x n1 n2) - stateOf v0 (vpre0 x n1 n2)) = 0 := by linear_combination -h0
  rcases mul_eq_zero.mp this with h | h
  · exact absurd h hc
  · exact sub_eq_zero.mp h

/-- … for an inductor that is not coupled: no impulse in its voltage ⇒ `i_L(0⁺)` is its state at 0⁻. -/
theorem ic_start_inductor (x : Ix → Signal K) (n1 n2 m : Nat) (l : K) (i0 : Option K) (w : Signal K) (hl : l ≠ 0)
    (hlaw : ∀ p ∈ lawsT x (.Ind n1 n2 m l i0 [], w), FormalZero p.2)
    (hi : NoDelta (x (.br m)).post) (hv : impulse0 (vpost x n1 n2) = 0) :
    val0plus (x (.br m)).post = stateOf i0 (pre0 (x (.br m)).pre) := by
  have hz := hlaw (m, subP (vpost x n1 n2)
      (smul l (stateDeriv (stateOf i0 (pre0 (x (.br m)).pre)) (x (.br m)).post) ++ mutualDropT x []))
    (List.mem_singleton.mpr rfl)
  simp only at hz
  have h0 := coefOf_of_formalZero hz (.dl 0 0 0)
  simp only [mutualDropT, List.flatMap_nil, List.append_nil] at h0
  rw [coefOf_subP, coefOf_smul] at h0
  have h1 := impulse0_stateDeriv (stateOf i0 (pre0 (x (.br m)).pre)) (x (.br m)).post hi
  simp only [impulse0] at h1 hv
  rw [h1, hv] at h0
  have : l * (val0plus (x (.br m)).post - stateOf i0 (pre0 (x (.br m)).pre)) = 0 := by linear_combination -h0
  rcases mul_eq_zero.mp this with h | h
  · exact absurd h hl
  · exact sub_eq_zero.mp h

/-- **ic_start_flux**: coupled inductors.  If `v = L·D i + Σ M·D i'` holds formally, the currents are impulse-free and
    the inductor's voltage has no impulse at the origin, then the flux linkage `L·i + Σ M·i'` at 0⁺ equals its value at
    0⁻ (computed from `i0` and the partners' `i0'`):  `L·(i(0⁺) − i0) + Σ M·(i'(0⁺) − i0') = 0`.
    (An individual coupled current may jump when a partner's voltage carries an impulse; the flux may not.) -/
theorem ic_start_flux (x : Ix → Signal K) (n1 n2 m : Nat) (l : K) (i0 : Option K) (coup : List (Nat × K × Option K))
    (w : Signal K)
    (hlaw : ∀ p ∈ lawsT x (.Ind n1 n2 m l i0 coup, w), FormalZero p.2)
    (hi : NoDelta (x (.br m)).post) (hc : ∀ p ∈ coup, NoDelta (x (.br p.1)).post)
    (hv : impulse0 (vpost x n1 n2) = 0) :
    l * (val0plus (x (.br m)).post - stateOf i0 (pre0 (x (.br m)).pre)) +
      lsum (coup.map (fun p => p.2.1 * (val0plus (x (.br p.1)).post - stateOf p.2.2 (pre0 (x (.br p.1)).pre)))) = 0 := by
  have hz := hlaw (m, subP (vpost x n1 n2)
      (smul l (stateDeriv (stateOf i0 (pre0 (x (.br m)).pre)) (x (.br m)).post) ++ mutualDropT x coup))
    (List.mem_singleton.mpr rfl)
  simp only at hz
  have h0 := coefOf_of_formalZero hz (.dl 0 0 0)
  rw [coefOf_subP, coefOf_append, coefOf_smul] at h0
  have h1 := impulse0_stateDeriv (stateOf i0 (pre0 (x (.br m)).pre)) (x (.br m)).post hi
  have h2 := impulse0_mutualDropT x coup hc
  simp only [impulse0] at h1 h2 hv
  rw [h1, h2, hv] at h0
  linear_combination -h0

end formal

section ordered
variable {K : Type} [Field K] [LinearOrder K] [IsStrictOrderedRing K] (E : K → K)

/-- **formal_pointwise**: what the driver decides also gives the laws pointwise: every residual vanishes at every
    instant `t` (`evalAt`; impulses do not contribute to pointwise values). -/
theorem formal_pointwise (tcs : List (TCpt K)) (x : Ix → Signal K) (h : LawsTFormal tcs x) (t : K) :
    (∀ k, k ≠ 0 → evalAt E (kclT x k tcs) t = 0) ∧ (∀ c ∈ tcs, ∀ p ∈ lawsT x c, evalAt E p.2 t = 0) :=
  ⟨fun k hk => evalAt_of_formalZero E (h.1 k hk) t, fun c hc p hp => evalAt_of_formalZero E (h.2 c hc p hp) t⟩

/-- e.g. for a capacitor whose current is the signal `i`: `i(t) = C · (D v)(t)` at every instant -/
theorem cap_pointwise (x : Ix → Signal K) (n1 n2 : Nat) (c : K) (v0 : Option K) (i : ExpPoly K)
    (hlaw : FormalZero (subP i (capCurrentT x n1 n2 c v0))) (t : K) :
    evalAt E i t = c * evalAt E (deriv (vpost x n1 n2)) t := by
  have := evalAt_of_formalZero E hlaw t
  rw [evalAt_subP, capCurrentT, evalAt_smul, evalAt_stateDeriv] at this
  exact sub_eq_zero.mp this

/-! #### initial state as a VALUE: `val0plus` is the value at 0⁺ only for causal signals (no negative delay; audit F5 —
    for `post = 3u(t) + 7u(t+1)` it is 3 while the signal is 10 at 0⁺), so the claimed statements carry `Causal` and
    conclude about `evalAt … 0` (u(0) = 1, i.e. the right-hand value). -/

/-- **ic_start_value**: `i = C·D v` formally, voltage impulse-free and CAUSAL, no current impulse at the origin ⇒ the
    capacitor voltage AT 0⁺ is its state at 0⁻ (the netlist's `v0`, else its own pre-history: continuity). -/
theorem ic_start_value (hE0 : E 0 = 1) (x : Ix → Signal K) (n1 n2 : Nat) (c : K) (v0 : Option K) (i : ExpPoly K) (hc : c ≠ 0)
    (hlaw : FormalZero (subP i (capCurrentT x n1 n2 c v0)))
    (hv : NoDelta (vpost x n1 n2)) (hi : impulse0 i = 0) (hcz : Causal (vpost x n1 n2)) :
    evalAt E (vpost x n1 n2) 0 = stateOf v0 (vpre0 x n1 n2) := by
  rw [evalAt_zero_of_causal E hE0 _ hcz]
  exact ic_start x n1 n2 c v0 i hc hlaw hv hi

/-- **ic_start_inductor_value**: an uncoupled inductor with impulse-free causal current and no voltage impulse at the
    origin: `i_L(0⁺)` is its state at 0⁻. -/
theorem ic_start_inductor_value (hE0 : E 0 = 1) (x : Ix → Signal K) (n1 n2 m : Nat) (l : K) (i0 : Option K) (w : Signal K)
    (hl : l ≠ 0) (hlaw : ∀ p ∈ lawsT x (.Ind n1 n2 m l i0 [], w), FormalZero p.2)
    (hi : NoDelta (x (.br m)).post) (hv : impulse0 (vpost x n1 n2) = 0) (hcz : Causal (x (.br m)).post) :
    evalAt E (x (.br m)).post 0 = stateOf i0 (pre0 (x (.br m)).pre) := by
  rw [evalAt_zero_of_causal E hE0 _ hcz]
  exact ic_start_inductor x n1 n2 m l i0 w hl hlaw hi hv

/-- **ic_start_flux_value**: coupled inductors with causal impulse-free currents: the flux linkage `L·i + Σ M·i'` AT 0⁺
    equals its value at 0⁻. -/
theorem ic_start_flux_value (hE0 : E 0 = 1) (x : Ix → Signal K) (n1 n2 m : Nat) (l : K) (i0 : Option K)
    (coup : List (Nat × K × Option K)) (w : Signal K)
    (hlaw : ∀ p ∈ lawsT x (.Ind n1 n2 m l i0 coup, w), FormalZero p.2)
    (hi : NoDelta (x (.br m)).post) (hc : ∀ p ∈ coup, NoDelta (x (.br p.1)).post)
    (hv : impulse0 (vpost x n1 n2) = 0) (hcz : Causal (x (.br m)).post) (hcc : ∀ p ∈ coup, Causal (x (.br p.1)).post) :
    l * (evalAt E (x (.br m)).post 0 - stateOf i0 (pre0 (x (.br m)).pre)) +
      lsum (coup.map (fun p => p.2.1 * (evalAt E (x (.br p.1)).post 0 - stateOf p.2.2 (pre0 (x (.br p.1)).pre)))) = 0 := by
  rw [evalAt_zero_of_causal E hE0 _ hcz]
  have : coup.map (fun p => p.2.1 * (evalAt E (x (.br p.1)).post 0 - stateOf p.2.2 (pre0 (x (.br p.1)).pre)))
      = coup.map (fun p => p.2.1 * (val0plus (x (.br p.1)).post - stateOf p.2.2 (pre0 (x (.br p.1)).pre))) := by
    apply List.map_congr_left
    intro p hp
    rw [evalAt_zero_of_causal E hE0 _ (hcc p hp)]
  rw [this]
  exact ic_start_flux x n1 n2 m l i0 coup w hlaw hi hc hv

/-- the inverse transform of data with non-negative delays is a causal signal.  PARTIAL (audit F6): `ilt` copies `pf.T` into
    the delay of every term, so the hypothesis is the conclusion for the data; that the partial-fraction data of a circuit
    with causal sources and zero state has `0 ≤ T` is NOT derived here — it is the oracle `td.causal` on Lcapy's output. -/
theorem ilt_causal_partial (pf : PF K) (hT : 0 ≤ pf.T) : Causal (ilt pf) := by
  intro t ht
  simp only [ilt, List.mem_append] at ht
  rcases ht with h | h
  · have : ∀ (n : Nat) (q : Poly K), ∀ t ∈ iltQ pf.T n q, t.delayOf = pf.T := by
      intro n q
      induction q generalizing n with
      | nil => intro t ht; simp [iltQ] at ht
      | cons a q ih =>
        intro t ht
        simp only [iltQ, List.mem_cons] at ht
        rcases ht with rfl | ht
        · rfl
        · exact ih (n + 1) t ht
    rw [this 0 pf.Q t h]; exact hT
  · simp only [iltR, List.mem_map] at h
    obtain ⟨r, _, rfl⟩ := h
    exact hT

/-- **causal_response_partial**: a response synthesised (`TD.response`, the model's `ilt`; run by Driver/C10, not by Driver/C02)
    from partial-fraction data whose delays are non-negative is causal, and vanishes before t = 0
    (`C10.causal_zero_before`).  PARTIAL: see `ilt_causal_partial`; the property clause "causal sources and zero state ⇒
    zero for t < 0" is checked on Lcapy's output by the oracle `td.causal`, not derived from circuit hypotheses. -/
theorem causal_response_partial (pfs : Ix → List (PF K)) (hT : ∀ ix, ∀ pf ∈ pfs ix, 0 ≤ pf.T) (ix : Ix) :
    Causal (response (pfs ix)) ∧ ∀ t, t < 0 → evalAt E (response (pfs ix)) t = 0 := by
  have hc : Causal (response (pfs ix)) := by
    intro t ht
    simp only [response, List.mem_flatMap] at ht
    obtain ⟨pf, hpf, ht⟩ := ht
    exact ilt_causal_partial pf (hT ix pf hpf) t ht
  exact ⟨hc, fun t ht => C10.causal_zero_before E _ hc t ht⟩

end ordered

/-! ### anchor: the formal derivative is the classical one -/

/-- **deriv_is_classical**: with the real exponential, at every instant that is not a switching instant of the signal
    (the delays of its terms), the pointwise value of the formal derivative is the derivative of the pointwise value. -/
theorem deriv_is_classical (f : ExpPoly ℝ) (t : ℝ) (h : ∀ y ∈ f, t ≠ y.delayOf) :
    HasDerivAt (fun τ => evalAt Real.exp f τ) (evalAt Real.exp (Laplace.deriv f) t) t := evalAt_hasDerivAt f t h

/-- **cap_ode_real**: consequently a capacitor whose law holds formally obeys the ODE `i(t) = C·dv/dt` in the classical
    sense at every instant t that is not a switching instant of its voltage (for an undelayed response: every t ≠ 0). -/
theorem cap_ode_real (x : Ix → Signal ℝ) (n1 n2 : Nat) (c : ℝ) (v0 : Option ℝ) (i : ExpPoly ℝ)
    (hlaw : FormalZero (subP i (capCurrentT x n1 n2 c v0))) (t : ℝ) (h : ∀ y ∈ vpost x n1 n2, t ≠ y.delayOf) :
    ∃ v' : ℝ, HasDerivAt (fun τ => evalAt Real.exp (vpost x n1 n2) τ) v' t ∧ evalAt Real.exp i t = c * v' :=
  ⟨_, deriv_is_classical _ t h, cap_pointwise Real.exp x n1 n2 c v0 i hlaw t⟩

/-! ### non-vacuity: a concrete circuit, its exact response, every hypothesis used above -/

section examples

/-- `V1 1 0 step 5 ; R1 1 2 2 ; C1 2 0 1/2 3` : v_C = 5 − 2e^{−t} from v_C(0⁻) = 3, i = e^{−t} -/
def exTcs : List (TCpt ℚ) :=
  [(.V 1 0 0 0, ⟨[], [.ep 5 0 0 0]⟩), (.R 1 2 2, ⟨[], []⟩), (.Cap 2 0 (1 / 2) (some 3), ⟨[], []⟩)]

def exX : Ix → Signal ℚ
  | .node 1 => ⟨[], [.ep 5 0 0 0]⟩
  | .node 2 => ⟨[], [.ep 5 0 0 0, .ep (-2) 0 (-1) 0]⟩
  | .br 0 => ⟨[], [.ep (-1) 0 (-1) 0]⟩
  | _ => ⟨[], []⟩

example : (checkLawsT exTcs exX 3).isOk = true := by decide +kernel

/-- the example circuit and its response satisfy the formal time-domain laws (all nodes, all components) … -/
theorem ex_lawsTFormal : LawsTFormal exTcs exX := by
  constructor
  · intro k hk
    match k, hk with
    | 0, h => exact absurd rfl h
    | 1, _ => decide +kernel
    | 2, _ => decide +kernel
    | (k + 3), _ => simp [kclT, exTcs, outflowT, twoTermT, subP, smul, FormalZero, nf, normalForm]
  · intro c hc p hp
    simp only [exTcs, List.mem_cons, List.not_mem_nil, or_false] at hc
    rcases hc with rfl | rfl | rfl
    · simp only [lawsT, List.mem_singleton] at hp; subst hp; decide +kernel
    · simp [lawsT] at hp
    · simp [lawsT] at hp

/-- … hence `LawsT`, and (by `laws_s_of_laws_t`) its transforms satisfy the ivp s-domain laws at every regular point -/
example : LawsT (fun _ : ℚ => (1 : ℚ)) exTcs exX := formal_lawsT _ _ _ ex_lawsTFormal
example : RestWhereUnspecified exTcs exX := by
  intro c hc
  simp only [exTcs, List.mem_cons, List.not_mem_nil, or_false] at hc
  rcases hc with rfl | rfl | rfl <;> trivial
example : IsExp (fun _ : ℚ => (1 : ℚ)) := ⟨fun _ _ => by simp, rfl⟩
/-- regular points exist: `s = 2` is not a pole of any signal of the example (poles 0 and −1) -/
example : Regular exTcs exX 2 := by
  constructor
  · intro ix t ht
    match ix with
    | .node 0 => simp [exX] at ht
    | .node 1 => simp [exX] at ht; subst ht; norm_num
    | .node 2 => simp [exX] at ht; rcases ht with rfl | rfl <;> norm_num
    | .node (k + 3) => simp [exX] at ht
    | .br 0 => simp [exX] at ht; subst ht; norm_num
    | .br (m + 1) => simp [exX] at ht
  · intro c hc t ht
    simp only [exTcs, List.mem_cons, List.not_mem_nil, or_false] at hc
    rcases hc with rfl | rfl | rfl <;> simp at ht
    subst ht; norm_num
-- the hypotheses of `ic_start` on the example: the capacitor current e^{−t} has no impulse, v_C(0⁺) = 3 = v0
example : impulse0 ([.ep 1 0 (-1) 0] : ExpPoly ℚ) = 0 := by decide +kernel
example : FormalZero (subP ([.ep 1 0 (-1) 0] : ExpPoly ℚ) (capCurrentT exX 2 0 (1 / 2) (some 3))) := by decide +kernel
example : val0plus (vpost exX 2 0) = 3 := by decide +kernel
example : NoDelta (vpost exX 2 0) := by
  intro t ht
  simp [vpost, subP, voltT, exX, smul, Signal.zero] at ht
  rcases ht with rfl | rfl <;> trivial

-- `ic_start_value` on the example: v_C is causal, and its value at 0⁺ is the initial condition 3
example : Causal (vpost exX 2 0) := by
  intro t ht
  simp [vpost, subP, voltT, exX, smul, Signal.zero] at ht
  rcases ht with rfl | rfl <;> simp [Term.delayOf]
example : evalAt (fun _ : ℚ => (1 : ℚ)) (vpost exX 2 0) 0 = 3 := by decide +kernel

/-- the oracle as the driver runs it returns `ok` on the example, hence (`tdCheck_sound`) the formal laws -/
def exNamed : List (String × TCpt ℚ) :=
  [("V1", (.V 1 0 0 0, ⟨[], [.ep 5 0 0 0]⟩)), ("R1", (.R 1 2 2, ⟨[], []⟩)), ("C1", (.Cap 2 0 (1 / 2) (some 3), ⟨[], []⟩))]
example : (tdCheck false ["V1"] 3 exNamed exX).map VerdictT.isOk = some true := by decide +kernel
example : nodesBelow 3 exTcs = true := by decide +kernel

end examples

end Lcapy.C02
