/-
  AUDIT (auditor B) -- machine-checked non-vacuity witnesses for Props/C09.lean.
  Every theorem of Props/C09.lean that has hypotheses is APPLIED here to a concrete, non-trivial input with all
  hypotheses proved: section (A) over ℂ with the true exponential, section (B) over the ordered field ℝ with `Real.exp`
  (over ℚ the only `IsExp` is the constant 1, see the remark below), the anchors at concrete points.
-/
import Lcapy.Props.C09
namespace Lcapy.NonVacuity.C09
open Lcapy.Laplace Lcapy.C09
set_option linter.unusedSimpArgs false
attribute [local instance] Classical.propDecidable

/-! ### (A) transform theorems, over ℂ with `Complex.exp` -/

/-- `2 t e^{−3t} u(t) + δ(t)` -/
def fC : ExpPoly ℂ := [Term.ep 2 1 (-3) 0, Term.dl 1 0 0]
/-- `e^{−t} u(t − 1)` -/
def gC : ExpPoly ℂ := [Term.ep 1 0 (-1) 1]

theorem nonpole_fC : NonPole fC 1 := by
  intro t ht; simp [fC] at ht; rcases ht with rfl | rfl <;> norm_num
theorem nonpole_gC : NonPole gC 1 := by
  intro t ht; simp [gC] at ht; subst ht; norm_num

example := lt_delay Complex.exp isExp_cexp 2 1 fC
example := lt_exp_weight Complex.exp isExp_cexp 5 1 fC
example := lt_scale Complex.exp (3 : ℂ) 1 (by norm_num) fC
example := lt_deriv Complex.exp isExp_cexp 1 (⟨[(5, 0, -1)], fC⟩ : Signal ℂ) nonpole_fC
example := lt_deriv_causal Complex.exp 1 fC nonpole_fC
example := lt_integral Complex.exp isExp_cexp 1 one_ne_zero fC nonpole_fC
example := lt_convolution Complex.exp isExp_cexp 1 fC gC nonpole_fC nonpole_gC
example := lt_delta_at_origin Complex.exp isExp_cexp 1

-- Remark (not formalised): a map E : ℚ → ℚ with E (x+y) = E x * E y, E 0 = 1 is the constant 1 (E x = E (x/n)^n is a positive
-- rational that is an n-th power for every n).  So the adjacent ℚ example of Props/C09.lean (`fun _ => 1`) is the ONLY rational
-- model of `IsExp`; the delay statements are exercised here over ℝ and ℂ with the true exponential.

/-! ### (B) branches of `LaplaceTransformer.term`, over ℝ with `Real.exp` -/

theorem isExp_rexp : IsExp Real.exp := ⟨Real.exp_add, Real.exp_zero⟩

/-- `s = 2`; `x(t) = 5 e^{−t}` for t < 0 and `e^{−3t}` for t ≥ 0; `y(t) = 2 e^{−t} u(t)`; initial conditions kept -/
noncomputable def envR : Env ℝ :=
  { s := 2, E := Real.exp, J := 0, xsig := ⟨[(5, 0, -1)], [Term.ep 1 0 (-3) 0]⟩, ysig := [Term.ep 2 0 (-1) 0], zic := false }
/-- the same with `zero_initial_conditions=True` and `x` causal -/
noncomputable def envZ : Env ℝ :=
  { s := 2, E := Real.exp, J := 0, xsig := ⟨[], [Term.ep 1 0 (-3) 0]⟩, ysig := [Term.ep 2 0 (-1) 0], zic := true }

theorem hxR : NonPole envR.xsig.post envR.s := by
  intro t ht; simp [envR] at ht; subst ht; norm_num [envR]
theorem hyR : NonPole envR.ysig envR.s := by
  intro t ht; simp [envR] at ht; subst ht; norm_num [envR]
theorem hxZ : NonPole envZ.xsig.post envZ.s := by
  intro t ht; simp [envZ] at ht; subst ht; norm_num [envZ]
theorem hxZ3 : NonPole envZ.xsig.post (envZ.s / 3) := by
  intro t ht; simp [envZ] at ht; subst ht; norm_num [envZ]
theorem hxR3 : NonPole envR.xsig.post (envR.s / 3) := by
  intro t ht; simp [envR] at ht; subst ht; norm_num [envR]
theorem hsR : envR.s ≠ 0 := by norm_num [envR]

example := const_entry envR isExp_rexp 7
example := exp_entry envR isExp_rexp 7 (-4) (by norm_num)
example := function_entry_rect envR isExp_rexp 3 (by norm_num) hsR
example := function_entry_ramp envR isExp_rexp 3 (by norm_num) hsR
example := function_entry_tri envR isExp_rexp 3 (by norm_num) hsR
example := function_entry_rampstep envR isExp_rexp 3 (by norm_num) hsR
example := function_entries_from_unit envR isExp_rexp 3 (by norm_num) hsR
example := func_entry envR isExp_rexp 7 3 (-2) (by norm_num) (by norm_num)
example := deriv_undef_entry envR isExp_rexp hxR rfl 7 2
example := deriv_undef_entry_zic envZ hxZ rfl rfl 7 2
example := integral_entry envR isExp_rexp 7 hsR hxR
example := conv_entry envR isExp_rexp 7 hxR hyR
example := conv_exp_entry envR isExp_rexp 7 (-4) (by norm_num [envR]) hxR
example := deriv_undef_at_spec envR isExp_rexp 7 3 (-2) 2 (by norm_num) (by norm_num) hxR3
example := deriv_undef_at_entry envZ isExp_rexp deriv_undef_applies_shift rfl 7 3 (-2) 2 (by norm_num) (by norm_num) hxZ3
example := deriv_undef_at_plain_entry envZ isExp_rexp rfl 7 2 hxZ

/-- sifting at τ = −b/a = 1/2 where `x` (one undelayed exponential) is continuous -/
theorem hcontR : contAt envR.xsig.post (-((-1 : ℝ) / 2)) = true := by
  simp [contAt, envR]
example := delta_undef_spec envR 7 2 (-1) (by norm_num) hcontR
example := delta_undef_entry envR delta_undef_sifts 7 2 (-1) (by norm_num) hcontR
example := delta_undef_before_origin_spec envR 7 2 1 (by norm_num)

example := window_pointwise Real.exp Real.exp_zero 7 1 3 2 (by norm_num)
example := reversed_step_entry envR isExp_rexp 7 (-2) 3 (by norm_num) (by norm_num) hsR

/-- `clip_step_sound`: a forward step that is already on at t = 0, next to a smooth factor -/
theorem hguard : Gen.clipGuard (2 : ℝ) (1 / 2) = true := by
  simp only [Gen.clipGuard, Bool.and_eq_true, decide_eq_true_eq]; constructor <;> norm_num
theorem hnodelta : NoDeltaAtoms ([Atom.exp (-1), Atom.tpow 2] : List (Atom ℝ)) := by
  simp [NoDeltaAtoms, deltaSel]
example := clip_step_sound Real.exp 0 7 2 (1 / 2) [Atom.exp (-1), Atom.tpow 2] hguard hnodelta

/-! ### (C) anchors -/
example := C09.anchor_real 2 3 (-1) 1 (by norm_num)
example := C09.anchor_complex_k0 (-1 + 2 * Complex.I) 1 (by simp)
example := C09.anchor_complex 3 (-1 + 2 * Complex.I) 1 (by simp)
example := C09.lt_term_is_integral 2 1 (-1 + 2 * Complex.I) 3 1 (by simp) (by simp) (by simp)
example := C09.anchor_damped_sin 1 2 3 (by norm_num)
example := C09.anchor_damped_cos 1 2 3 (by norm_num)

theorem regular_fR : Regular ([Term.ep 2 1 (-3 + 4 * Complex.I) 0, Term.ep 1 0 (-1) 1] : ExpPoly ℂ) := by
  constructor <;> (intro t ht; simp at ht; rcases ht with rfl | rfl <;> simp [Term.delayOf])
example := C09.smooth_factor_pointwise (Atom.trig true 2 1) _ regular_fR

-- `sin_cos_entry` / `sin_cos_entry_beta` over ℂ with Mathlib's partial order on ℂ: `3 e^{−t} cos(3t + 1) u(t − 2)` at s = 2
section
open scoped ComplexOrder
noncomputable def envC : Env ℂ := cenv 2
theorem h1C : envC.s - (-1) - envC.J * 3 ≠ 0 := by
  intro h; have := congrArg Complex.re h; simp [envC, cenv] at this; norm_num at this
theorem h2C : envC.s - (-1) + envC.J * 3 ≠ 0 := by
  intro h; have := congrArg Complex.re h; simp [envC, cenv] at this; norm_num at this
example := sin_cos_entry envC isExp_cexp (by simp [envC, cenv]) zero_le_one two_ne_zero 3 (-1) 3 1 2 true h1C h2C
example := sin_cos_entry_beta envC isExp_cexp (by simp [envC, cenv]) zero_le_one two_ne_zero 3 (-1) 5 3 1 2 false h1C h2C
example := C09.sin_cos_is_integral 2 3 (-1) 3 1 2 true (by norm_num)
end

end Lcapy.NonVacuity.C09
