/-
  PROPERTY C01, the glue of `MNA.__init__` and `MNA._solve` (lcapy/mna.py) around the stamps.

  (a) Allocation of the unknown branch currents.  `Netlist.alloc` (Model/Alloc.lean) mirrors the loop of
      `MNA.__init__` over a parsed netlist: `need_branch_current` (skipped when the name is already there as a
      controlling component), `need_extra_branch_current` (`name + 'X'`), `is_current_controlled` (the controlling
      component is appended unless present -- the fixed duplicate-append defect C01-F1b).
      `alloc_complete`: every needed name is allocated.  `alloc_nodup`: nothing is allocated twice (so the matrix has
      no empty row/column) whenever component names are distinct, no component is called `<gyrator>X`, and
      every controlling name is a component.  `alloc_wf` / `frontend_wf`: for EVERY netlist the front-end accepts,
      the hypothesis `WF` of `mna_iff_laws` holds -- it is discharged, not assumed; `mna_iff_laws_frontend_wf`.
  (b) Reconstruction of the currents that are not unknowns in `_solve`.  `reported_currents`: the current stored in
      `_Idict` for a two-terminal component (solved unknown, or `(V1 − V2 − V0)/Z` for R/C/Y, or `−Isc` for I) is the
      spec's through-current: the component's `outflow` is that current leaving the first node and entering the second.
  Only property theorems (and the definitions they are stated with) live here.
-/
import Lcapy.Props.C01
import Lcapy.Proofs.Alloc
import Lcapy.Model.Netlist
import Mathlib.Data.List.Nodup
namespace Lcapy.C01
open Lcapy.MNA Lcapy.Netlist Ix
variable {K : Type} [Field K]

/-! ### (a) unknown branch currents -/

/-- **alloc_complete**: the loop allocates a branch for every component that needs one, the extra branch of every
    component that needs two, and the controlling component of every current-controlled source. -/
theorem alloc_complete (cs : List PLine) (c : PLine) (hc : c ∈ cs) :
    (c.needsBranch = true → c.name ∈ alloc cs) ∧
    (c.needsExtra = true → c.name ++ "X" ∈ alloc cs) ∧
    (∀ cn, c.ctrl = some cn → cn ∈ alloc cs) :=
  alloc_complete_aux cs [] c hc

/-- **alloc_nodup**: with distinct component names, no component named like the extra branch of another one, and
    every controlling name a component (`MNA.__init__` raises otherwise), `unknown_branch_currents` has no duplicate:
    every unknown is allocated exactly once, whatever the order of the lines (a controlling component before or
    after the source it controls). -/
theorem alloc_nodup (cs : List PLine)
    (H1 : (cs.map (·.name)).Nodup)
    (H2 : ∀ c ∈ cs, c.needsExtra = true → ∀ d ∈ cs, d.name ≠ c.name ++ "X")
    (H3 : ∀ c ∈ cs, ∀ cn, c.ctrl = some cn → ∃ d ∈ cs, d.name = cn) : (alloc cs).Nodup :=
  Netlist.alloc_nodup cs H1 H2 H3

/-- non-vacuity, and the order that used to allocate `L1` twice: a CCVS before the inductor that controls it -/
example : alloc [⟨"H1", true, false, some "L1"⟩, ⟨"L1", true, false, none⟩, ⟨"GY1", true, true, none⟩] =
    ["H1", "L1", "GY1", "GY1X"] := by decide

/-- **alloc_wf**: when the front-end's acceptance test passes, no branch current is owned by two components. -/
theorem alloc_wf (raw : List RawCpt) (brs : List String) (cpts : List (String × Cpt GQ))
    (h : allocOk raw brs cpts = true) : WF (cpts.map (·.2)) := by
  simp only [allocOk, Bool.and_eq_true, decide_eq_true_eq, List.all_eq_true, List.contains_eq_mem, beq_iff_eq] at h
  obtain ⟨⟨hnd, hmem⟩, heq⟩ := h
  unfold WF
  rw [List.flatMap_map]
  rw [heq]
  apply List.Nodup.map_on _ hnd
  intro a ha b hb hab
  have ha' : a ∈ brs := hmem a ha
  have hb' : b ∈ brs := hmem b hb
  have h1 := List.getElem_idxOf (List.idxOf_lt_length_of_mem ha')
  have h2 := List.getElem_idxOf (List.idxOf_lt_length_of_mem hb')
  rw [← h1, ← h2]
  simp only [hab]

/-- **frontend_wf**: every netlist that the front-end accepts (in any analysis) is well-formed in the sense of
    `mna_iff_laws`. -/
theorem frontend_wf (an : Analysis) (lines : List String) (e : Elab) (h : elaborate an lines = .ok e) :
    WF (e.cpts.map (·.2)) := by
  unfold elaborate at h
  split at h
  · cases h
  · split_ifs at h with hok
    cases h
    exact alloc_wf _ _ _ (Bool.and_eq_true _ _ ▸ hok).1

/-- `WF` only looks at branch indices: it survives any reading of the values in a field -/
theorem wf_of_owned_eq {A B : Type} (cs : List (Cpt A)) (ds : List (Cpt B))
    (h : cs.map owned = ds.map owned) (hwf : WF cs) : WF ds := by
  unfold WF at *
  have e1 : cs.flatMap owned = (cs.map owned).flatten := by rw [List.flatMap_def]
  have e2 : ds.flatMap owned = (ds.map owned).flatten := by rw [List.flatMap_def]
  rw [e2, ← h, ← e1]; exact hwf

/-- **mna_iff_laws_frontend_wf**: for every accepted netlist, under any reading `ds` of its component values in a
    field that keeps the nodes and branches, the MNA system is solved exactly by the assignments obeying the laws --
    with no well-formedness hypothesis left. -/
theorem mna_iff_laws_frontend_wf (an : Analysis) (lines : List String) (e : Elab) (h : elaborate an lines = .ok e)
    (ds : List (Cpt K)) (hds : (e.cpts.map (·.2)).map owned = ds.map owned) (kind : Kind) (s : K) (x : Ix → K) :
    Solves kind s ds x ↔ Laws kind s ds x :=
  mna_iff_laws kind s ds x (wf_of_owned_eq _ ds hds (frontend_wf an lines e h))

/-! ### (b) currents that are not unknowns -/

/-- the two terminals between which a two-terminal component carries its current -/
def terminals : Cpt K → Option (Nat × Nat)
  | .R n1 n2 _ | .Y n1 n2 _ | .Cap n1 n2 _ _ | .Ind n1 n2 _ _ _ _ | .V n1 n2 _ _ | .I n1 n2 _ | .E n1 n2 _ _ _ _ _
  | .H n1 n2 _ _ _ | .HY n1 n2 _ _ _ _ _ _ _ | .AM n1 n2 _ => some (n1, n2)
  | _ => none

/-- the divisions that `_solve` performs are defined -/
def reportGuard (kind : Kind) (s : K) : Cpt K → Prop
  | .Y _ _ y => y ≠ 0
  | .Cap _ _ c _ => (kind = .lap ∨ kind = .ivp) → s ≠ 0 ∧ c ≠ 0
  | _ => True

theorem reported_currents (kind : Kind) (s : K) (x : Ix → K) (c : Cpt K) (n1 n2 : Nat) (i : K)
    (ht : terminals c = some (n1, n2)) (hg : reportGuard kind s c) (hi : reportedCurrent kind s x c = some i) :
    ∀ k, outflow kind s x k c = twoTerm n1 n2 k i := by
  intro k
  cases c <;> simp only [terminals, Option.some.injEq, Prod.mk.injEq, reduceCtorEq] at ht <;> obtain ⟨rfl, rfl⟩ := ht
  case R a b r =>
    simp only [reportedCurrent, solveZV0, Option.some.injEq] at hi; subst hi; simp [outflow, vd]
  case Y a b y =>
    simp only [reportedCurrent, solveZV0, Option.some.injEq] at hi; subst hi
    simp only [reportGuard] at hg
    simp only [outflow, vd]; congr 1; field_simp; try ring
  case Cap a b c v0 =>
    simp only [reportGuard] at hg
    cases kind
    · simp only [reportedCurrent, solveZV0, Option.some.injEq] at hi; subst hi; simp [outflow, capCurrent, twoTerm]
    · obtain ⟨hs, hc⟩ := hg (Or.inl rfl)
      simp only [reportedCurrent, solveZV0, Option.some.injEq] at hi; subst hi
      simp only [outflow, capCurrent, vd]; congr 1; field_simp; try ring
    · obtain ⟨hs, hc⟩ := hg (Or.inr rfl)
      cases v0 <;> simp only [reportedCurrent, solveZV0, Option.some.injEq] at hi <;> subst hi <;>
        simp only [outflow, capCurrent, vd] <;> congr 1 <;> field_simp <;> try ring
    · simp only [reportedCurrent, solveZV0, Option.some.injEq] at hi; subst hi; simp [outflow, capCurrent, twoTerm]
  all_goals (simp only [reportedCurrent, Option.some.injEq] at hi; subst hi; simp [outflow])

/-- non-vacuity: a charged capacitor in an initial-value problem; `_solve` reports `(V − v0/s)·sC = sC·V − C·v0` -/
example : reportedCurrent (K := ℚ) .ivp 2 (fun i => match i with | node 1 => 5 | _ => 0) (.Cap 1 0 3 (some 4)) = some 18 := by
  norm_num [reportedCurrent, solveZV0, volt]

end Lcapy.C01
