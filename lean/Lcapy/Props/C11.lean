/-
  PROPERTY C11 -- re-formatting a rational expression never changes its value.

  Objects: `R : RF K` is the decomposition `B/A · exp(−delay·var) · U(var)^nu` that `Ratfun.__init__`
  computes; `R.value env` is its SPEC value at the sample point `env` (`env.x` the variable, `env.E c` the
  value of `exp(c)`, `env.u` the value of the undefined function).  Every format builder of
  lcapy/ratfun.py (and the `Expr` wrappers that delegate to it) is a function into expression trees
  (`Lcapy/Model/Ratfun.lean`); the theorems say that the tree evaluates to `R.value env` at EVERY point
  where the denominator does not vanish, over EVERY field, for polynomials of EVERY degree.

  The sign with which a builder re-attaches the delay is read from the source text on every run
  (`Lcapy/Generated/RatfunSrc.lean`, harness/translate/tx_ratfun.py): a theorem `X_value` fails to build when
  the source says `exp(+var·delay)` (as it did before the fix of finding C11-F11a); the sign-generic lemmas
  `X_value_gen` (any sign, delay-free or sign −1) stay in Lcapy/Proofs/PolyRatfun.lean.

  SymPy root finding is not modelled: zeros, poles and residues are inputs and are CHECKED
  (`rootsCheck`, `pfCheck`, proved sound here).  Only property theorems live in this file; helper lemmas
  are in Lcapy/Proofs/Poly.lean, PolyRatfun.lean, PolyCF.lean.
-/
import Lcapy.Proofs.PolyRatfun
import Lcapy.Proofs.PolyCF
import Lcapy.Proofs.PolySynth
import Lcapy.Generated.RatfunSrc
import Mathlib.Tactic.NormNum
namespace Lcapy.C11
open Lcapy Lcapy.Poly Lcapy.Ratfun Lcapy.Gen.RatfunSrc
variable {K : Type} [Field K] [DecidableEq K]
set_option linter.unusedSimpArgs false
set_option linter.unusedVariables false
set_option linter.unusedSectionVars false

/-- `exp` at the sample point behaves like an exponential: `exp 0 = 1`, `exp (a+b) = exp a · exp b` -/
def IsExp (env : Env K) : Prop := env.E 0 = 1 ∧ ∀ a b, env.E (a + b) = env.E a * env.E b

/-- a concrete sample point over ℚ: `x = 2`, `exp ≡ 1` (a character), `U(x) = 5` -/
def envQ : Env ℚ := ⟨2, fun _ => 1, 5⟩
example : IsExp envQ := ⟨rfl, fun _ _ => by simp [envQ]⟩
/-- `(3x² + 5x + 1)/(2x² + 6x + 4) · exp(−3x) · U(x)` -/
def exQ : RF ℚ := ⟨[1, 5, 3], [4, 6, 2], 3, 1⟩
example : Poly.eval exQ.A envQ.x ≠ 0 := by norm_num [exQ, envQ, Poly.eval]

/-! ## 1. Polynomial long division (`sympy.div`, used by `as_QMA`, `standard`, `partfrac`) -/

/-- `A = Q·B + R` at every point and `deg R < deg B`, for every non-zero divisor. -/
theorem divmod_spec (A B : List K) (hB : lc B ≠ 0) :
    (∀ x, Poly.eval A x = Poly.eval (divmod A B).1 x * Poly.eval B x + Poly.eval (divmod A B).2 x) ∧
    (divmod A B).2.length < (trim B).length :=
  divmod_spec' A B hB
example : lc ([4, 6, 2] : List ℚ) ≠ 0 := by decide +kernel

/-- error branch: for the zero divisor there is no claim, and the executable model divides by zero
    (an error value in the driver; SymPy raises `ZeroDivisionError`). -/
theorem divmod_zero_divisor (A B : List K) (hB : lc B = 0) : trim B = [] := (lc_eq_zero_iff B).1 hB

/-- `as_QMA`: `B = Q·A + M`, `deg M < deg A`, third component is `A`. -/
theorem as_QMA_spec (R : RF K) (hA : lc R.A ≠ 0) :
    (∀ x, Poly.eval R.B x = Poly.eval (asQMA R).1 x * Poly.eval R.A x + Poly.eval (asQMA R).2.1 x) ∧
    (asQMA R).2.1.length < (trim R.A).length ∧ (asQMA R).2.2 = R.A :=
  asQMA_spec R hA

/-! ## 2. Decomposition into B, A, delay, undefined factor -/

/-- the source defines the delay by `delay -= c[0]`: expr = B/A · exp(−delay·var) · undef -/
theorem decompose_sign : decomposeSign = -1 := by decide

/-- `as_B_A_delay_undef`: the product of the factors equals the value of the decomposition. -/
theorem decompose_value (fs : List (Factor K)) (env : Env K) (hE : IsExp env) :
    (decompose fs).value env = factorsValue env fs :=
  Ratfun.decompose_value fs env hE.1 hE.2

/-! ## 3. Format builders: `fmt_value : eval (fmt R) = value R` -/

theorem canonical_fc_value (R : RF K) (env : Env K) (hE : IsExp env) (hA : Poly.eval R.A env.x ≠ 0) :
    (canonical (sgn canonicalFCSign) true R).eval env = R.value env :=
  canonical_value_gen true R env (Or.inl (by simp [sgn, canonicalFCSign])) hE.1 hA

theorem canonical_value (R : RF K) (env : Env K) (hE : IsExp env) (hA : Poly.eval R.A env.x ≠ 0) :
    (canonical (sgn canonicalSign) false R).eval env = R.value env :=
  canonical_value_gen false R env (Or.inl (by simp [sgn, canonicalSign])) hE.1 hA

theorem general_value (R : RF K) (env : Env K) (hE : IsExp env) (hA : Poly.eval R.A env.x ≠ 0) :
    (general (sgn generalSign) R).eval env = R.value env :=
  general_value_gen R env (Or.inl (by simp [sgn, generalSign])) hE.1 hA

/-- Every term of `expandcanonical` is divided by `A`, so the statement is made at non-pole points only
    (`hA`): at a pole both sides would merely agree through the totalised `x/0 = 0`. -/
theorem expandcanonical_value (R : RF K) (env : Env K) (hE : IsExp env) (hA : Poly.eval R.A env.x ≠ 0) :
    (expandcanonical (sgn expandcanonicalSign) R).eval env = R.value env :=
  expandcanonical_value_gen R env (Or.inl (by simp [sgn, expandcanonicalSign])) hE.1
example : Poly.eval exQ.A envQ.x ≠ 0 := by norm_num [exQ, envQ, Poly.eval]

theorem standard_value (R : RF K) (env : Env K) (hE : IsExp env) (hA : Poly.eval R.A env.x ≠ 0) :
    (standard (sgn standardSign) R).eval env = R.value env :=
  standard_value_gen R env (Or.inl (by simp [sgn, standardSign])) hE.1 hA

theorem timeconst_value (R : RF K) (env : Env K) (hA : Poly.eval R.A env.x ≠ 0) :
    (timeconst (sgn timeconstSign) R).eval env = R.value env :=
  timeconst_value_gen R env (Or.inl (by simp [sgn, timeconstSign])) hA

/-- `ZPK()` / `factored()` / `as_ZPK()`: with root tables that pass `rootsCheck`. -/
theorem zpk_value (R : RF K) (zeros poles : List (K × Nat)) (env : Env K) (hE : IsExp env)
    (hA : Poly.eval R.A env.x ≠ 0)
    (hz : rootsCheck R.B zeros = true) (hp : rootsCheck R.A poles = true) :
    (zpk (sgn asZPKSign) R zeros poles).eval env = R.value env :=
  zpk_value_gen R zeros poles env (Or.inl (by simp [sgn, asZPKSign])) hE.1 hA hz hp
example : rootsCheck ([4, 6, 2] : List ℚ) [(-1, 1), (-2, 1)] = true := by decide +kernel
/-- `exQ` cannot instantiate `zpk_value` over ℚ (its numerator `3x² + 5x + 1` has no rational root); a witness with
    rational zeros AND poles: `(x+1)(x+2)/((x+3)(x+4)) · exp(−3x) · U(x)`.  All hypotheses of `zpk_value`
    (and of `zpk_pairs_value`, pairing the two zeros) hold for it at `envQ`: -/
def exZ : RF ℚ := ⟨[2, 3, 1], [12, 7, 1], 3, 1⟩
example : Poly.eval exZ.A envQ.x ≠ 0 := by norm_num [exZ, envQ, Poly.eval]
example : rootsCheck exZ.B [(-1, 1), (-2, 1)] = true := by decide +kernel
example : rootsCheck exZ.A [(-3, 1), (-4, 1)] = true := by decide +kernel
example : rootsCheck exZ.B (pairsRoots [((-1, -2), 1)] ++ []) = true := by decide +kernel
example : rootsCheck exZ.A (pairsRoots [] ++ [(-3, 1), (-4, 1)]) = true := by decide +kernel
/- NOTE on the sample point: every map `E : ℚ → ℚ` with `E 0 = 1`, `E (a+b) = E a · E b` is constant 1 (ℚ is divisible, the
   multiplicative group of ℚ has no non-trivial divisible subgroup), so over ℚ a wrong sign of the re-attached delay cannot be
   made visible by an `IsExp` point.  The value theorems of this file are therefore ALSO applied over ℝ with
   `E = Real.exp` (x = 2, U = 5, delay 3) in Lcapy/Props/NonVacuityC11.lean, which is built and audited on every run. -/

/-- `ZPK(combine_conjugates=True)`: conjugate pairs as quadratic sections. -/
theorem zpk_pairs_value (R : RF K) (zpairs ppairs : List ((K × K) × Nat))
    (zsingles psingles : List (K × Nat)) (env : Env K) (hE : IsExp env) (hA : Poly.eval R.A env.x ≠ 0)
    (hz : rootsCheck R.B (pairsRoots zpairs ++ zsingles) = true)
    (hp : rootsCheck R.A (pairsRoots ppairs ++ psingles) = true) :
    (zpkPairs (sgn asZPKSign) R zpairs ppairs zsingles psingles).eval env = R.value env :=
  zpkPairs_value_gen R zpairs ppairs zsingles psingles env (Or.inl (by simp [sgn, asZPKSign])) hE.1 hA hz hp

/-- `partfrac()` / `as_QRF()` / `as_QRPO()`: with residues that pass `pfCheck`. -/
theorem partfrac_value (R : RF K) (Q : List K) (poles : List (K × Nat)) (terms : List (K × K × Nat))
    (env : Env K) (hE : IsExp env) (hA : Poly.eval R.A env.x ≠ 0)
    (hc : pfCheck R.B R.A Q poles terms = true) :
    (partfrac (sgn partfracSign) R Q terms).eval env = R.value env :=
  partfrac_value_gen R Q poles terms env (Or.inl (by simp [sgn, partfracSign])) hE.1 hA hc
example : pfCheck ([1, 5, 3] : List ℚ) [4, 6, 2] [3/2] [(-1, 1), (-2, 1)] [(-1/2, -1, 1), (-3/2, -2, 1)] = true := by
  decide +kernel

/-! ## 4. Poles, zeros, residues -/

/-- **roots_check_sound**: a table that passes the check factorises the polynomial completely,
    `A = LC(A) · Π (x − r)^n` at every point … -/
theorem roots_check_sound (A : List K) (roots : List (K × Nat)) (h : rootsCheck A roots = true) (x : K) :
    Poly.eval A x = lc A * (roots.map (fun rn => (x - rn.1) ^ rn.2)).prod :=
  rootsCheck_eval h x

/-- … every reported root is a root, … -/
theorem roots_check_root (A : List K) (roots : List (K × Nat)) (h : rootsCheck A roots = true)
    (r : K) (n : Nat) (hr : (r, n) ∈ roots) (hn : n ≠ 0) : Poly.eval A r = 0 :=
  rootsCheck_root h hr hn

/-- … and the multiplicities add up to the full degree. -/
theorem roots_check_degree (A : List K) (roots : List (K × Nat)) (h : rootsCheck A roots = true)
    (hA : lc A ≠ 0) : (roots.map (fun rn => rn.2)).sum = degree A :=
  rootsCheck_degree h hA

/-- **pf_check_sound** (`residues_reconstruct`): quotient, poles and residues that pass the check
    reconstruct `B/A` at every non-pole point. -/
theorem pf_check_sound (B A Q : List K) (poles : List (K × Nat)) (terms : List (K × K × Nat)) (x : K)
    (h : pfCheck B A Q poles terms = true) (hA : Poly.eval A x ≠ 0) :
    Poly.eval B x / Poly.eval A x = Poly.eval Q x + (terms.map (fun t => t.1 / (x - t.2.1) ^ t.2.2)).sum :=
  pfCheck_sound B A Q poles terms x h hA

/-! ## 5. N, D, multiplying top and bottom, `_zp2tf` -/

/-- `N/D` is the expression wherever `D = A` does not vanish (`hA`; at a pole both sides would only agree
    through the totalised `x/0 = 0`). -/
theorem N_over_D (R : RF K) (env : Env K) (hE : IsExp env) (hA : Poly.eval R.A env.x ≠ 0) :
    (exprN R).eval env / (exprD R).eval env = R.value env := Ratfun.N_over_D R env hE.1
example : Poly.eval exQ.A envQ.x ≠ 0 := by norm_num [exQ, envQ, Poly.eval]

theorem multiply_top_and_bottom_value (R : RF K) (f : List K) (env : Env K) (hE : IsExp env)
    (hf : Poly.eval f env.x ≠ 0) : (multiplyTopBottom R f).eval env = R.value env :=
  multiplyTopBottom_value R f env hE.1 hf

/-- `_zp2tf(zeros, poles, K)` for every mix of list / dictionary arguments: `K·Π(x−z)^n / Π(x−p)^m`
    (list entries have multiplicity 1). -/
theorem zp2tf_value (zIsList pIsList : Bool) (zeros poles : List (K × Nat)) (g : RExpr K) (env : Env K)
    (hpl : pIsList = true → ∀ rn ∈ poles, rn.2 = 1) :
    ∃ e, zp2tfMixed zp2tfPolesTestOnPoles zIsList pIsList zeros poles g = some e ∧
      e.eval env = g.eval env * (zeros.map (fun rn => (env.x - rn.1) ^ rn.2)).prod
                    / (poles.map (fun rn => (env.x - rn.1) ^ rn.2)).prod :=
  zp2tfMixed_value (by decide) zIsList pIsList zeros poles g env hpl

/-! ## 6. Continued fraction (`continued_fraction_coeffs`, `as_continued_fraction`; shared with C19) -/

/-- one Euclid step: `N = Q·D + N₂` with `Q = LT(N)/LT(D) = q x^k` (hence `N/D = Q + 1/(D/N₂)`) -/
theorem cf_step (N D : List K) (q : K) (k : Nat) (N2 : List K) (h : cfStep N D = some (q, k, N2))
    (hD : lc D ≠ 0) (x : K) :
    Poly.eval N x = q * x ^ k * Poly.eval D x + Poly.eval N2 x :=
  cfStep_eval h hD x

/-- termination measure: each step strictly shortens the dividend, so with fuel `|N| + |D|` (numbers of
    coefficients; `cfCoeffs` supplies one more) the recursion never runs out of fuel. -/
theorem cf_terminates (fuel : Nat) (N D : List K) (hD : lc D ≠ 0)
    (hf : (trim N).length + (trim D).length ≤ fuel) : cfRun fuel N D ≠ .fuelOut :=
  cfRun_fuel fuel N D hD hf

/-- **cf_value**: the continued fraction built from the coefficients equals `N/D` wherever the
    expression itself is defined (`cfDefined`: no intermediate remainder vanishes at `x`). -/
theorem cf_value (fuel : Nat) (N D : List K) (cs : List (K × Nat)) (env : Env K)
    (h : cfRun fuel N D = .ok cs) (hdef : cfDefined fuel N D env.x = true) :
    (cfExpr cs).eval env = Poly.eval N env.x / Poly.eval D env.x :=
  cfExpr_value fuel N D cs env h hdef
example : cfRun 5 ([1, 0, 1] : List ℚ) [0, 1] = .ok [(1, 1), (1, 1)] := by decide +kernel
example : cfDefined 5 ([1, 0, 1] : List ℚ) [0, 1] 2 = true := by decide +kernel

/-- **cf_inverse_value** (`continued_fraction_inverse_coeffs`, `as_continued_fraction_inverse`): the
    coefficients `q·x^(−k)` produced by the expansion in `1/var` reconstruct `N/D`. -/
theorem cf_inverse_value (N D : List K) (cs : List (K × Nat)) (x : K) (hx : x ≠ 0)
    (h : cfiCoeffs N D = .ok cs) (hD : D ≠ [])
    (hdef : Synth.cfDefinedSwap (2 * (max N.length D.length + max N.length D.length) + 3)
      (revPad N (max N.length D.length)) (revPad D (max N.length D.length)) (1 / x) = true) :
    Synth.cfVal true x cs = Poly.eval N x / Poly.eval D x := Synth.cfi_value' N D cs x hx h hD hdef
example : cfiCoeffs ([1] : List ℚ) [1, 1] = .ok [(1, 0), (-1, 1), (-1, 0)] := by decide +kernel
/-- the remaining hypotheses for `1/(1 + x)` at `x = 2`, in particular `hdef` -/
example : (2 : ℚ) ≠ 0 := by norm_num
example : ([1, 1] : List ℚ) ≠ [] := by simp
example : Synth.cfDefinedSwap (2 * (max ([1] : List ℚ).length ([1, 1] : List ℚ).length + max ([1] : List ℚ).length ([1, 1] : List ℚ).length) + 3)
    (revPad ([1] : List ℚ) (max ([1] : List ℚ).length ([1, 1] : List ℚ).length))
    (revPad ([1, 1] : List ℚ) (max ([1] : List ℚ).length ([1, 1] : List ℚ).length)) (1 / 2) = true := by decide +kernel

end Lcapy.C11
