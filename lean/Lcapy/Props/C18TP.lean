/-
  PROPERTY C18, part 2 -- "Every voltage, current, impedance, admittance and transfer function
  produced by circuit analysis carries the corresponding quantity and units": the derived
  attributes of the two-port classes and the transfer-type netlist methods.

  `derivedPorts`, `entryPorts`, `attrDerived`, `tpExpect` are REGENERATED on every run from the C08
  spec (Lcapy/Spec/TwoPort.lean) and from the statements proved in Lcapy/Props/C08.lean;
  `docPorts`, `tpWrap`, `netPorts`, `netWrap` from /repo/lcapy/twoport.py and netlistopsmixin.py.
  The dimension rule (`ratioQ`, `dimPV`) is in Lcapy/Spec/DimTP.lean, the SI dimensions in
  Lcapy/Spec/Dim.lean; neither depends on the code.
-/
import Lcapy.Generated.Quantities
import Lcapy.Generated.QuantitiesTP
import Lcapy.Proofs.QuantitiesBase
import Lcapy.Props.C18
namespace Lcapy.C18
open Lcapy.Dim Lcapy.DimTP Lcapy.QModel Lcapy.Gen.Q Lcapy.Gen.QTP Lcapy.QBase Lcapy.Spec

/-! ## 1. the expectation table is the C08 spec -/

/-- the generated (numerator, denominator, zeroed variable) of every derived quantity IS the
    clause of `Spec.Derived.holds` (definitional unfolding, for any coefficient type) -/
theorem derived_ports_match_spec {K : Type} [Add K] [Mul K] [Sub K] [OfNat K 0] (Z0 q : K)
    (p : Port K) :
    ∀ r ∈ derivedPorts,
      (r.1.holds q p ↔ (r.2.2.2.get Z0 p = 0 → r.2.1.get Z0 p = q * r.2.2.1.get Z0 p)) := by
  intro r hr
  simp only [derivedPorts, List.mem_cons, List.mem_nil_iff, or_false] at hr
  rcases hr with rfl | rfl | rfl | rfl | rfl | rfl | rfl | rfl | rfl | rfl | rfl | rfl <;> exact Iff.rfl

/-- every derived quantity of the spec has exactly one row -/
theorem derived_ports_complete (d : Derived) :
    (derivedPorts.filter (fun r => r.1 == d)).length = 1 := by
  cases d <;> decide

/-- the rule's case analysis is exhaustive on port variables: every ratio of two port variables
    has a quantity, it is a defined one, and it has the dimension numerator - denominator -/
theorem ratio_rule_sound (num den : PortVar) :
    ∃ q, expectedRatio num den = some q ∧ q.isDefined = true ∧
      dimQ q = subVA (dimPV num) (dimPV den) := by
  cases num <;> cases den <;> decide

/-- ... and the dimension determines it: a defined quantity with the dimension of the ratio that is
    itself a ratio quantity is the expected one (no second candidate) -/
theorem ratio_rule_unique (num den : PortVar) (q : Quantity)
    (hq : q = .transfer ∨ q = .impedance ∨ q = .admittance)
    (hd : dimQ q = subVA (dimPV num) (dimPV den)) : expectedRatio num den = some q := by
  rcases hq with rfl | rfl | rfl <;> cases num <;> cases den <;> first | rfl | (exfalso; revert hd; decide)

/-- THE EXPECTATION THEOREM: the expected quantity of each attribute of the table is defined and its
    dimension equals dim(numerator) - dim(denominator) under Spec/Dim.lean; it is what the rule
    yields -/
theorem tp_expected_dimension :
    ∀ r ∈ tpExpect, r.2.2.2.isDefined = true ∧
      dimQ r.2.2.2 = subVA (dimPV r.2.1) (dimPV r.2.2.1) ∧
      expectedRatio r.2.1 r.2.2.1 = some r.2.2.2 := by decide

/-- every attribute whose port definition C08 proves has a row, and the row's numerator and
    denominator are those of the spec clause of its derived quantity -/
theorem tp_expect_from_c08 :
    ∀ a ∈ attrDerived, ∃ r ∈ tpExpect, r.1 = a.1 ∧
      (a.2, r.2.1, r.2.2.1) ∈ derivedPorts.map (fun d => (d.1, d.2.1, d.2.2.1)) := by decide

theorem tp_expect_only_from_c08 :
    ∀ r ∈ tpExpect, ∃ a ∈ attrDerived, r.1 = a.1 := by decide

/-- matrix elements: the ratio of every (lhs_i, rhs_j) pair of every representation has a quantity
    under the rule (Z: impedances, Y: admittances, A/B/G/H: mixed, S/T: dimensionless) -/
theorem entry_ports_have_quantity :
    ∀ r ∈ entryPorts, (expectedRatio r.2.2.1 r.2.2.2).isSome = true := by decide

theorem entry_ports_Z_Y :
    (∀ r ∈ entryPorts, r.1 = "Z" → expectedRatio r.2.2.1 r.2.2.2 = some .impedance) ∧
    (∀ r ∈ entryPorts, r.1 = "Y" → expectedRatio r.2.2.1 r.2.2.2 = some .admittance) ∧
    (∀ r ∈ entryPorts, r.1 = "S" ∨ r.1 = "T" → expectedRatio r.2.2.1 r.2.2.2 = some .transfer) := by
  decide

/-! ## 2. the code wraps every attribute in the class of the expected quantity -/

def expectOf (attr : String) : Option Quantity :=
  (tpExpect.find? (fun r => r.1 == attr)).map (fun r => r.2.2.2)

/-- the code's own documentation (`Return A / B for ...`) names the ratio of the spec, for every
    documented attribute of the table -/
theorem tp_docstrings_agree :
    ∀ r ∈ docPorts, ∀ e ∈ tpExpect, e.1 = r.2.1 → (e.2.1, e.2.2.1) = (r.2.2.1, r.2.2.2) := by
  decide

/-- every (class, attribute) of the C08 table -- TwoPortMatrix, the eight parameter-matrix classes
    and the TwoPort networks, 180 pairs -- returns its value wrapped in a class of exactly the
    expected quantity, whichever chain of delegations the code takes -/
theorem tp_code_wrappers_expected :
    ∀ r ∈ tpWrap, ∀ q, expectOf r.2.1 = some q → r.2.2 = some q := by
  have h : tpWrap.all (fun r => match expectOf r.2.1 with
      | none => true
      | some q => r.2.2 == some q) = true := by decide +kernel
  intro r hr q hq
  have := List.all_eq_true.mp h r hr
  simpa [hq] using this

/-- the quantity the code's documentation implies for a documented attribute of a class -/
def docExpectOf (cls attr : String) : Option Quantity :=
  (docPorts.find? (fun r => r.1 == cls && r.2.1 == attr)).bind
    (fun r => expectedRatio r.2.2.1 r.2.2.2)

/-- attributes outside the C08 table that the code documents as a ratio (`Vtransfer`, `Itransfer`,
    `Ytrans12`, `Ytransfer`, `Ztransfer`): wrapped in the class of the documented ratio; a
    delegation to something that is not a property (a bound method: finding C18-F26, fixed) reads
    as `none` and breaks this theorem -/
theorem tp_code_wrappers_documented :
    ∀ r ∈ tpWrap, ∀ q, docExpectOf r.1 r.2.1 = some q → r.2.2 = some q := by
  have h : tpWrap.all (fun r => match docExpectOf r.1 r.2.1 with
      | none => true
      | some q => r.2.2 == some q) = true := by decide +kernel
  intro r hr q hq
  have := List.all_eq_true.mp h r hr
  simpa [hq] using this

/-- the five extra documented attributes are in the table (non-vacuity) -/
theorem tp_documented_attributes_present :
    ∀ a ∈ ["Vtransfer", "Itransfer", "Ytrans12", "Ytransfer", "Ztransfer"],
      tpWrap.any (fun r => r.1 == "TwoPort" && r.2.1 == a && (docExpectOf r.1 r.2.1).isSome) = true := by
  decide

/-! ## 3. the transfer-type netlist methods, on every internal route -/

def netExpectOf (m : String) : Option Quantity :=
  (netPorts.find? (fun r => r.1 == m)).bind (fun r => expectedRatio r.2.1 r.2.2)

/-- `transfer`, `voltage_gain`, `current_gain`, `transimpedance`, `transadmittance`: every `return`
    of the method -- the ladder shortcut (`ladder.<attribute>`, resolved through the two-port
    classes) and the test-source route -- yields the quantity of the ratio its documentation names -/
theorem net_methods_typed_on_every_route :
    ∀ r ∈ netWrap, ∀ q, netExpectOf r.1 = some q → r.2.2 = some q := by
  have h : netWrap.all (fun r => match netExpectOf r.1 with
      | none => true
      | some q => r.2.2 == some q) = true := by decide +kernel
  intro r hr q hq
  have := List.all_eq_true.mp h r hr
  simpa [hq] using this

/-- both routes are present for each of the five two-port methods (the theorem above is not
    vacuous), and the driving-point methods claim an impedance / admittance -/
theorem net_routes_present :
    (∀ m ∈ ["transfer", "voltage_gain", "current_gain", "transimpedance", "transadmittance"],
      (netWrap.any (fun r => r.1 == m && r.2.1 == "ladder") &&
       netWrap.any (fun r => r.1 == m && r.2.1 == "test-source") &&
       (netExpectOf m).isSome) = true) ∧
    ("impedance", "test-source", some Quantity.impedance) ∈ netWrap ∧
    ("admittance", "test-source", some Quantity.admittance) ∈ netWrap := by decide

/-! ## 4. using a typed result: Ohm's law on the model of `*`, refusal of `+` -/

/-- for every row of the expectation table the quantity table contains the product
    `denominator's quantity * attribute's quantity = numerator's quantity` (in either order):
    V1(s) * transadmittance is a current, I1(s) * transimpedance a voltage, V1(s) * voltage_gain a
    voltage, ... -/
theorem tp_times_denominator_in_table :
    ∀ r ∈ tpExpect, mulLookup tables (pvQuantity r.2.2.1) r.2.2.2 = some (pvQuantity r.2.1) ∧
      mulLookup tables r.2.2.2 (pvQuantity r.2.2.1) = some (pvQuantity r.2.1) := by decide

/-- for ALL operands: whenever the model of `__mul__` forms the product of an expression of the
    denominator's quantity with a result carrying the expected quantity of a row, the product has
    the (V, A) dimension of the numerator and its units are the product of the units -/
theorem tp_times_denominator (a x : Opd) (d : Domain) (q : Quantity) (u : U)
    (num den : PortVar) (hx : dimQ x.q = subVA (dimPV num) (dimPV den))
    (ha : dimQ a.q = dimPV den) (h : mulM tables a x = .ok d q u) (hg : genericPair a x = false) :
    dimQ q = dimPV num ∧ u = a.units + x.units := by
  have h2 := mul_quantity_dimension tables mul_dim a x d q u h hg
  rcases op_units_mul tables a x d q u h with ⟨h1, _⟩ | ⟨_, h3⟩
  · rw [hg] at h1; cases h1
  · refine ⟨?_, h3⟩
    rw [h2, ha, hx]
    simp only [addVA, subVA]
    ext <;> simp <;> omega

theorem witness_tp_times_denominator :
    mulM tables ⟨.laplace, .voltage, ⟨1, 0, 0, 0, 0, -1, 0, 0⟩, false, false, false⟩
      ⟨.laplace, .admittance, ⟨0, 0, 0, 1, 0, 0, 0, 0⟩, false, false, false⟩ =
      .ok .laplace .current ⟨1, 0, 0, 1, 0, -1, 0, 0⟩ := by decide

/-- a typed result can not be added to, and never compares equal with, an expression of another
    defined quantity (instance of `add_refuses_quantities_now` for the rows of the table) -/
theorem tp_not_addable_to_other_quantity (c : Cfg) (a x : Opd)
    (ha : a.q = .transfer ∨ a.q = .impedance ∨ a.q = .admittance)
    (hx : x.q.isDefined = true) (hne : a.q ≠ x.q) :
    (∃ e, compatAdd tables c a x = .error e) ∧ eqM tables c a x = none := by
  have had : a.q.isDefined = true := by rcases ha with h | h | h <;> rw [h] <;> rfl
  exact ⟨add_refuses_quantities_now c a x had hx hne, eq_false_when_quantities_differ c a x had hx hne⟩

/-- the spec predicate the oracle evaluates accepts exactly the expected quantity with Laplace-domain
    units of that quantity: (soundness of `ratioOk` w.r.t. the table) -/
theorem ratioOk_iff_expected (num den : PortVar) (q : Quantity) (u : U) :
    ratioOk num den .laplace q u = true ↔
      (expectedRatio num den = some q ∧ dimU u = ⟨(dimQ q).1, (dimQ q).2, 0⟩) := by
  constructor
  · intro h
    simp only [ratioOk, Bool.and_eq_true, beq_iff_eq, decide_eq_true_eq] at h
    obtain ⟨⟨⟨hdef, _⟩, he⟩, hf⟩ := h
    refine ⟨he, ?_⟩
    simp only [freshOk, hdef, Bool.not_true, Bool.false_or, decide_eq_true_eq] at hf
    rw [hf]
    have : timeExp .laplace q = 0 := by
      cases num <;> cases den <;> simp [expectedRatio, ratioQ, dimPV, subVA] at he <;> subst he <;> rfl
    simp [expectedDim, this]
  · rintro ⟨he, hu⟩
    have hq : q = .transfer ∨ q = .impedance ∨ q = .admittance := by
      cases num <;> cases den <;> simp [expectedRatio, ratioQ, dimPV, subVA] at he <;> subst he <;> simp
    obtain ⟨q', hq', hdef, hdim⟩ := ratio_rule_sound num den
    rw [he] at hq'
    cases hq'
    have ht : timeExp .laplace q = 0 := by rcases hq with rfl | rfl | rfl <;> rfl
    simp [ratioOk, hdef, hdim, he, freshOk, expectedDim, ht, hu]

end Lcapy.C18
