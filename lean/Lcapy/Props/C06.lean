/-
  C06 -- netlist text round-trips.  Property theorems only.
-/
import Lcapy.Model.Parser
import Lcapy.Spec.Netlist
namespace Lcapy.C06
open Lcapy.Parser

/-- every grammar line can be interpreted (all parameter names are declared) -/
theorem table_builds : theGrammar.ok = true := by decide +kernel

end Lcapy.C06
