import Lcapy.Proofs.ParserLemmas
import Lcapy.Spec.Netlist
namespace Lcapy.C06
open Lcapy.Parser Lcapy.Spec.Netlist

/-- **split_join.**  Joining atomic tokens with a delimiter and splitting again returns the tokens.
    `atomic` is the tokeniser's own notion of a token: non-empty, no delimiter outside `{}` / `""`,
    brackets closed, no unmatched `}` (lemmas `plain_atomic`, `braced_atomic` give syntactic
    sufficient conditions; `arg_format_roundtrip` shows the printer only emits atomic tokens). -/
theorem split_join (ds : List Char) (sep : Char) (hne : ds ≠ []) (hsep : ds.contains sep = true)
    (ts : List Str) (h : ∀ t ∈ ts, atomic ds t = true) :
    split ds (joinWith [sep] ts) = some ts := by
  have hlast : ds.contains (ds.headD ' ') = true := by
    cases ds with
    | nil => exact absurd rfl hne
    | cons a r => simp
  unfold split
  simp only [split_join_aux ds sep (ds.headD ' ') hsep hlast ts h []]
  simp

example : split Gen.Grammar.delimiters (joinWith [' '] ["R1".toList, "1".toList, "{a + (b, c)}".toList, "\"x y\"".toList])
    = some ["R1".toList, "1".toList, "{a + (b, c)}".toList, "\"x y\"".toList] := by decide

/-- a token without delimiters, braces or quotes is atomic -/
theorem plain_atomic (ds : List Char) (t : Str) (hne : t ≠ [])
    (h : ∀ c ∈ t, ds.contains c = false ∧ c ≠ '{' ∧ c ≠ '"' ∧ c ≠ '}') : atomic ds t = true := by
  have key : ∀ t : Str, (∀ c ∈ t, ds.contains c = false ∧ c ≠ '{' ∧ c ≠ '"' ∧ c ≠ '}') →
      scan ds t (none, []) = some (none, []) := by
    intro t
    induction t with
    | nil => intro _; rfl
    | cons c t ih =>
      intro h
      have hc := h c (by simp)
      have hnd : c ∉ ds := by simpa using hc.1
      have : scanStep ds (none, []) c = some (none, []) := by
        simp [scanStep, hnd, hc.2.1, hc.2.2.1, hc.2.2.2]
      simp only [scan, this]
      exact ih (fun d hd => h d (by simp [hd]))
  unfold atomic
  cases t with
  | nil => exact absurd rfl hne
  | cons a b => simp [key (a :: b) h]

/-- brace depth bookkeeping for quote-free text: `}` may not close more than was opened -/
def braceBal : Str → Nat → Option Nat
  | [], d => some d
  | c :: cs, d =>
    if c == '{' then braceBal cs (d + 1)
    else if c == '}' then (if d == 0 then none else braceBal cs (d - 1))
    else braceBal cs d

/-- the scanner state at relative depth `d` inside an outermost `{` -/
def inBrace (d : Nat) : BSt := (some '}', List.replicate d (some '}') ++ [none])

theorem scan_braceBal (ds : List Char) (body : Str) (hq : ∀ c ∈ body, c ≠ '"') :
    ∀ d d', braceBal body d = some d' → scan ds body (inBrace d) = some (inBrace d') := by
  induction body with
  | nil => intro d d' h; simp [braceBal] at h; subst h; rfl
  | cons c cs ih =>
    intro d d' h
    have hq' : ∀ c ∈ cs, c ≠ '"' := fun x hx => hq x (by simp [hx])
    have hcq : c ≠ '"' := hq c (by simp)
    simp only [braceBal] at h
    by_cases h1 : c = '{'
    · subst h1
      simp at h
      have : scanStep ds (inBrace d) '{' = some (inBrace (d + 1)) := by
        simp [scanStep, inBrace, List.replicate_succ]
      simp only [scan, this]
      exact ih hq' (d + 1) d' h
    · by_cases h2 : c = '}'
      · subst h2
        simp at h
        cases d with
        | zero => simp at h
        | succ k =>
          simp at h
          have : scanStep ds (inBrace (k + 1)) '}' = some (inBrace k) := by
            simp [scanStep, inBrace, List.replicate_succ]
          simp only [scan, this]
          exact ih hq' k d' h
      · simp [h1, h2] at h
        have : scanStep ds (inBrace d) c = some (inBrace d) := by
          simp [scanStep, inBrace, h1, h2, hcq]
        simp only [scan, this]
        exact ih hq' d d' h

/-- `{body}` with balanced braces and no quotes inside is atomic, whatever delimiters it contains -/
theorem braced_atomic (ds : List Char) (hb : ds.contains '{' = false) (body : Str)
    (hq : ∀ c ∈ body, c ≠ '"') (hbal : braceBal body 0 = some 0) :
    atomic ds ('{' :: (body ++ ['}'])) = true := by
  have hb' : '{' ∉ ds := by simpa using hb
  have h1 : scanStep ds (none, []) '{' = some (inBrace 0) := by simp [scanStep, hb', inBrace]
  have h2 := scan_braceBal ds body hq 0 0 hbal
  have h3 : scan ds ['}'] (inBrace 0) = some (none, []) := by simp [scan, scanStep, inBrace]
  have : scan ds ('{' :: (body ++ ['}'])) (none, []) = some (none, []) := by
    simp only [scan, h1]
    rw [scan_append, h2]
    simpa using h3
  unfold atomic
  simp [this]

example : atomic Gen.Grammar.delimiters "{f(x, {y}) + 1}".toList = true := by decide


/-! ### argument quoting -/

/-- **arg_format_roundtrip.**  For every value satisfying `okValue`, `Arg.assign` applied to what
    `_arg_format` printed gives the value back (the substantive half), and the printed text is a single
    token for `split` (this half re-reads the scanner clause of `okValue`; the syntactic sufficient
    condition is `C06Nested.okValue_of_nested`).
    Excluded by `okValue` (and covered by the oracle's hypothesis-boundary stream): values that
    start with `{` / `"` or are empty (known finding C06-e), unbalanced values, and `a=b`. -/
theorem arg_format_roundtrip (ds : List Char) (hb : ds.contains '{' = false) (v : Str)
    (hv : okValue ds v = true) :
    unquote (argFormat ds v) = v ∧ atomic ds (argFormat ds v) = true := by
  unfold okValue at hv
  simp only [Bool.and_eq_true, Bool.not_eq_true', bne_iff_ne, ne_eq] at hv
  obtain ⟨⟨⟨⟨hne, hh1⟩, hh2⟩, hscan⟩, _⟩ := hv
  cases v with
  | nil => simp at hne
  | cons c rest =>
    have hc1 : c ≠ '{' := by intro h; subst h; simp at hh1
    have hc2 : c ≠ '"' := by intro h; subst h; simp at hh2
    unfold argFormat
    simp only [List.head?_cons, Option.some.injEq, beq_iff_eq, hc1, ↓reduceIte]
    by_cases hd : (c :: rest).any ds.contains = true
    · simp only [hd, ↓reduceIte] at hscan ⊢
      have hscan' := of_decide_eq_true hscan
      constructor
      · simp only [unquote, beq_self_eq_true, Bool.true_or, ↓reduceIte]
        exact List.dropLast_concat
      · have hb' : '{' ∉ ds := by simpa using hb
        have h1 : scanStep ds (none, []) '{' = some (some '}', [none]) := by simp [scanStep, hb']
        have h3 : scan ds ['}'] (some '}', [none]) = some (none, []) := by simp [scan, scanStep]
        have : scan ds ('{' :: ((c :: rest) ++ ['}'])) (none, []) = some (none, []) := by
          simp only [scan, h1]
          rw [scan_append, hscan']
          simpa using h3
        simp only [List.cons_append] at this
        unfold atomic
        simp [this]
    · simp only [hd] at hscan ⊢
      have hscan' := of_decide_eq_true hscan
      constructor
      · simp [unquote, hc1, hc2]
      · unfold atomic
        simp [hscan']

example : okValue Gen.Grammar.delimiters "f(x, y) + {a b}".toList = true := by decide
example : okValue Gen.Grammar.delimiters "10k".toList = true := by decide
example : okValue Gen.Grammar.delimiters "a} {b".toList = false := by decide

/-! ### the grammar table -/

/-- well-formedness of a rule as the parser and printer rely on it: at most one keyword, only known
    kinds, every parameter before the keyword is a node, all name / value parameters come after all
    nodes and keywords, no required argument after an optional one, only arguments are optional,
    and `pos` points at the keyword. -/
def ruleWF (r : Rule) : Bool :=
  (r.params.filter (·.kind == .keyword)).length ≤ 1
  && r.params.all (·.kind != .other)
  && (match r.pos with
      | none => r.params.all (·.kind != .keyword)
      | some p => (r.params.take p).all (·.kind.isNode) && (r.params[p]?.map (·.kind)) == some .keyword)
  && (r.params.dropWhile (fun p => !p.kind.isArg)).all (·.kind.isArg)
  && ((r.params.filter (·.kind.isArg)).dropWhile (fun p => !p.optional)).all (·.optional)
  && r.params.all (fun p => !p.optional || p.kind.isArg)
  && !r.type.isEmpty

/-- **table_wf.**  Every line of the checked-out grammar is understood, every rule is well formed,
    class names are unique, and no delimiter is a bracket character. -/
theorem table_wf :
    theGrammar.ok = true ∧ theGrammar.rules.all ruleWF = true
    ∧ (theGrammar.rules.map (·.classname)).Nodup
    ∧ theGrammar.delimiters.contains '{' = false ∧ theGrammar.delimiters.contains '}' = false
    ∧ theGrammar.delimiters.contains '"' = false ∧ theGrammar.delimiters.contains '=' = false
    ∧ theGrammar.delimiters.contains ' ' = true ∧ theGrammar.delimiters ≠ [] := by
  refine ⟨by decide +kernel, by decide +kernel, by decide +kernel, by decide +kernel, by decide +kernel,
    by decide +kernel, by decide +kernel, by decide +kernel, by decide +kernel⟩

/-- generic selection lemma: the first rule whose keyword stands at its position is selected -/
theorem select_spec (fields : List Str) (pre post : List Rule) (r : Rule) (p : Nat) (prm : Param) (f : Str)
    (hpos : r.pos = some p) (hprm : r.params[p]? = some prm) (hf : fields[p]? = some f)
    (hkw : lower f = lower prm.name) (hpre : ∀ r' ∈ pre, noMatch fields r' = true) (last : Option Nat) :
    selectLoop fields (pre ++ r :: post) last = (some (r, prm.name), some p) := by
  induction pre generalizing last with
  | nil => simp [selectLoop, hpos, hprm, hf, hkw]
  | cons r' pre ih =>
    have h1 := hpre r' (by simp)
    have ih' := ih (fun x hx => hpre x (by simp [hx]))
    simp only [List.cons_append, selectLoop]
    unfold noMatch at h1
    cases hp' : r'.pos with
    | none => simpa using ih' none
    | some p' =>
      simp only [hp'] at h1 ⊢
      cases hf' : fields[p']? with
      | none => simpa using ih' (some p')
      | some f' =>
        cases hq' : r'.params[p']? with
        | none => simpa using ih' (some p')
        | some q' =>
          simp only [hf', hq', bne_iff_ne, ne_eq] at h1
          simp only [beq_iff_eq, h1, ↓reduceIte]
          exact ih' (some p')

/-- no rule reacts: the default (first) rule is used and the keyword is empty -/
theorem select_none (fields : List Str) (rs : List Rule) (h : ∀ r ∈ rs, noMatch fields r = true) (last : Option Nat) :
    (selectLoop fields rs last).1 = none := by
  induction rs generalizing last with
  | nil => simp [selectLoop]
  | cons r rs ih =>
    have h1 := h r (by simp)
    have ih' := ih (fun x hx => h x (by simp [hx]))
    simp only [selectLoop]
    unfold noMatch at h1
    cases hp : r.pos with
    | none => simpa using ih' none
    | some p =>
      simp only [hp] at h1 ⊢
      cases hf : fields[p]? with
      | none => simpa using ih' (some p)
      | some f =>
        cases hq : r.params[p]? with
        | none => simpa using ih' (some p)
        | some q =>
          simp only [hf, hq, bne_iff_ne, ne_eq] at h1
          simp only [beq_iff_eq, h1, ↓reduceIte]
          exact ih' (some p)

/-- **rule_select_det.**  In the checked-out table, for every component type, no two keyword rules
    have the same keyword (case-insensitively) at the same position, so by `select_spec` a keyword
    standing at its position (and no earlier rule's keyword standing at that rule's position)
    selects exactly one rule. -/
theorem rule_select_det :
    ((theGrammar.rules.map (·.type)).eraseDups.all (fun ty => kwDistinct (rulesOf theGrammar ty))) = true := by
  decide +kernel

/-! ### rejects -/

/-- too many fields -/
theorem rejects_too_many (r : Rule) (fields : List Str) (name ns dv : Str)
    (h : fields.length > r.params.length) : process r fields name ns dv = .error .tooMany := by
  simp [process, h]

theorem extractNodes_missing (name ns : Str) (ps : List Param) : ∀ (fs : List Str) (i : Nat) (p : Param),
    fs.length ≤ i → ps[i]? = some p → p.kind.isNode = true → extractNodes name ns ps fs = .error .missingNode := by
  induction ps with
  | nil => intro fs i p _ hp; simp at hp
  | cons q ps ih =>
    intro fs i p hlen hp hk
    cases i with
    | zero =>
      simp at hp; subst hp
      have : fs = [] := by cases fs with | nil => rfl | cons a b => simp at hlen
      subst this
      simp [extractNodes, hk]
    | succ j =>
      simp at hp
      unfold extractNodes
      by_cases hq : q.kind.isNode = true
      · simp only [hq, ↓reduceIte]
        cases fs with
        | nil => rfl
        | cons f fs' =>
          have := ih fs' j p (by simp at hlen; omega) hp hk
          simp [this]
      · simp only [hq]
        exact ih fs.tail j p (by simp; omega) hp hk

/-- too few nodes: some node / pin parameter of the selected rule has no field -/
theorem rejects_too_few_nodes (r : Rule) (fields : List Str) (name ns dv : Str) (i : Nat) (p : Param)
    (hi : fields.length ≤ i) (hp : r.params[i]? = some p) (hk : p.kind.isNode = true) :
    process r fields name ns dv = .error .missingNode := by
  have hlt : i < r.params.length := by
    rcases List.getElem?_eq_some_iff.mp hp with ⟨h, _⟩; exact h
  have : ¬ fields.length > r.params.length := by omega
  simp [process, this, extractNodes_missing name ns r.params fields i p hi hp hk]

theorem matchType_none (g : Grammar) (relname : Str) (h : ∀ r ∈ g.rules, r.type.isPrefixOf relname = false) :
    matchType g relname = none := by
  unfold matchType
  have : ∀ (tys : List Str), (∀ t ∈ tys, t.isPrefixOf relname = false) →
      tys.foldl (fun best ty =>
        if ty.isPrefixOf relname then
          match best with
          | none => some ty
          | some b => if b.length < ty.length then some ty else some b
        else best) none = none := by
    intro tys
    induction tys with
    | nil => intro _; rfl
    | cons t ts ih =>
      intro ht
      simp only [List.foldl_cons, ht t (by simp)]
      exact ih (fun x hx => ht x (by simp [hx]))
  apply this
  intro t ht
  simp only [List.mem_map] at ht
  obtain ⟨r, hr, rfl⟩ := ht
  exact h r hr

/-- unknown component type: the name starts with no type of the grammar -/
theorem rejects_unknown_type (g : Grammar) (used : List Str) (ns string name0 : Str) (fields : List Str)
    (hok : g.ok = true) (hd : isDirective g (strip string) = false)
    (hs : split g.delimiters (splitFirst ';' (strip string)).1 = some (name0 :: fields))
    (hm : ∀ r ∈ g.rules, r.type.isPrefixOf ((splitOn '.' name0).getLastD []) = false) :
    parse g used ns string = .error .unknownCpt := by
  have hm' := matchType_none g _ hm
  simp only [List.getLastD_eq_getLast?] at hm'
  unfold parse
  simp only [hok, hd]
  simp [hs, hm']

theorem argIndex_none (args : List Arg) (k : Str) (h : ∀ a ∈ args, lower a.name ≠ lower k) : argIndex args k = none := by
  unfold argIndex
  have : args.findIdx (fun a => lower a.name == lower k) = args.length := by
    apply List.findIdx_eq_length.mpr
    intro a ha
    simpa using h a ha
  simp [this]

/-- unknown named parameter -/
theorem rejects_unknown_named (args : List Arg) (f k v : Str) (rest fs : List Str)
    (hs : splitEq f = k :: v :: rest) (hk : ∀ a ∈ args, lower a.name ≠ lower k) :
    assignNamed args (f :: fs) = .error .unknownParam := by
  simp [assignNamed, hs, argIndex_none args k hk]

/-- a positional value after a named one -/
theorem rejects_value_after_named (args : List Arg) (f : Str) (fs : List Str)
    (hs : (splitEq f).length < 2) : assignNamed args (f :: fs) = .error .valueAfterNamed := by
  unfold assignNamed
  split
  · rename_i k v rest heq
    rw [heq] at hs
    simp only [List.length_cons] at hs
    omega
  · rfl

/-! unbalanced braces -/

/-- states of the scanner: `close_bracket` is never `{` -/
def closeOK (s : St) : Prop := s.close ≠ some '{' ∧ ∀ x ∈ s.stack, x ≠ some '{'

theorem closeOK_step (ds : List Char) (s : St) (c : Char) (h : closeOK s) : closeOK (step ds s c) := by
  obtain ⟨h1, h2⟩ := h
  unfold step
  split
  · split <;> exact ⟨h1, h2⟩
  · split
    · cases hst : s.stack with
      | nil => exact ⟨h1, by simp⟩
      | cons x r =>
        simp only
        rw [hst] at h2
        exact ⟨h2 x (by simp), fun y hy => h2 y (by simp [hy])⟩
    · split
      · exact ⟨by simp, fun y hy => by
          simp at hy
          rcases hy with rfl | hy
          · exact h1
          · exact h2 y hy⟩
      · split
        · exact ⟨by simp, fun y hy => by
            simp at hy
            rcases hy with rfl | hy
            · exact h1
            · exact h2 y hy⟩
        · split <;> exact ⟨h1, h2⟩

theorem closeOK_fold (ds : List Char) (a : Str) (s : St) (h : closeOK s) : closeOK (a.foldl (step ds) s) := by
  induction a generalizing s with
  | nil => exact h
  | cons c a ih => exact ih _ (closeOK_step ds s c h)

/-- inside an open `{`: stays there as long as no `}` or `"` is read -/
theorem open_brace_stays (ds : List Char) (b : Str) (hb : ∀ c ∈ b, c ≠ '}' ∧ c ≠ '"') (s : St)
    (hc : s.close = some '}') (hs : s.stack ≠ []) :
    (b.foldl (step ds) s).close = some '}' ∧ (b.foldl (step ds) s).stack ≠ [] := by
  induction b generalizing s with
  | nil => exact ⟨hc, hs⟩
  | cons c b ih =>
    have hcb := hb c (by simp)
    have hne : s.stack.isEmpty = false := by
      cases hst : s.stack with
      | nil => exact absurd hst hs
      | cons _ _ => rfl
    have hstep : (step ds s c).close = some '}' ∧ (step ds s c).stack ≠ [] := by
      unfold step
      simp only [hne, Bool.and_false, Bool.false_eq_true, ↓reduceIte, hc]
      have : (some c == some '}') = false := by simp [hcb.1]
      simp only [this, Bool.false_eq_true, ↓reduceIte]
      by_cases h1 : c = '{'
      · subst h1; simp
      · have : (c == '{') = false := by simp [h1]
        simp only [this, Bool.false_eq_true, ↓reduceIte]
        have : (c == '"') = false := by simp [hcb.2]
        simp only [this, Bool.false_eq_true, ↓reduceIte]
        simp [hs]
    exact ih (fun x hx => hb x (by simp [hx])) _ hstep.1 hstep.2

/-- unbalanced braces: a `{` that is never closed (no `}` and no `"` after it) makes `split` fail,
    whatever precedes it -/
theorem rejects_unclosed_brace (ds : List Char) (a b : Str) (hb : ∀ c ∈ b, c ≠ '}' ∧ c ≠ '"')
    (hd1 : ds.headD ' ' ≠ '}') (hd2 : ds.headD ' ' ≠ '"') (hd3 : ds.contains '{' = false) :
    split ds (a ++ '{' :: b) = none := by
  generalize hd : ds.headD ' ' = d at hd1 hd2
  have key : (((a ++ '{' :: b) ++ [d]).foldl (step ds) ⟨[], [], none, [], false⟩).close = some '}' := by
    simp only [List.append_assoc, List.cons_append, List.foldl_append, List.foldl_cons]
    generalize hs0 : a.foldl (step ds) ⟨[], [], none, [], false⟩ = s0
    have hok : closeOK s0 := by
      rw [← hs0]; exact closeOK_fold ds a _ ⟨by simp, by simp⟩
    have hb' : '{' ∉ ds := by simpa using hd3
    have h1 : (step ds s0 '{').close = some '}' ∧ (step ds s0 '{').stack ≠ [] := by
      unfold step
      have : (some '{' == s0.close) = false := by
        have := hok.1
        cases hcl : s0.close with
        | none => simp
        | some x => simp; intro h; subst h; exact this hcl
      simp [hb', this]
    have h2 := open_brace_stays ds (b ++ [d]) (by
        intro c hc
        simp only [List.mem_append, List.mem_singleton] at hc
        rcases hc with hc | hc
        · exact hb c hc
        · subst hc; exact ⟨hd1, hd2⟩) _ h1.1 h1.2
    simp only [List.foldl_append, List.foldl_cons, List.foldl_nil] at h2 ⊢
    exact h2.1
  unfold split
  simp only [hd, key, Option.isSome_some, Bool.true_or, ↓reduceIte]

example : split Gen.Grammar.delimiters "R1 1 2 {a + b".toList = none := by decide

/-- an unmatched `}` outside any bracket makes `split` fail (scanner level: the token is not atomic) -/
theorem stray_close_not_atomic (ds : List Char) (a b : Str) (ha : scan ds a (none, []) = some (none, [])) :
    atomic ds (a ++ '}' :: b) = false := by
  unfold atomic
  have : scan ds (a ++ '}' :: b) (none, []) = none := by
    rw [scan_append, ha]
    simp [scan, scanStep]
  simp [this]

/-! ### engineering suffixes -/

/-- the suffix table of the checked-out `value_parser` is the documented one -/
theorem suffix_table : Gen.Grammar.suffixSrc =
    [('f', -15), ('p', -12), ('n', -9), ('u', -6), ('m', -3), ('k', 3), ('M', 6), ('G', 9), ('T', 12)] := by
  decide

/-- **suffix_value.**  `<decimal><suffix>` denotes `decimal × 10^k` for every suffix of the table … -/
theorem suffix_value (suf : List (Char × Int)) (m : Str) (c : Char) (e : Int) (q : Rat)
    (hm : parseDecimal m = some q) (hne : m ≠ [])
    (hc : suf.find? (fun p => p.1 == c) = some (c, e)) (hK : c ≠ 'K') (hg : c ≠ 'g') :
    valueParser suf (m ++ [c]) = .num (q * pow10 e) := by
  have hlen : ¬ (m ++ [c]).length < 2 := by
    cases m with
    | nil => exact absurd rfl hne
    | cons a b => simp
  have h1 : endsWith (m ++ [c]) ['M','e','g'] = false := by
    simp [endsWith, List.isPrefixOf, hg.symm]
  have h2 : endsWith (m ++ [c]) ['K'] = false := by
    simp [endsWith, List.isPrefixOf, hK.symm]
  unfold valueParser
  simp only [hlen, ↓reduceIte, h1, h2, Bool.false_eq_true]
  simp [hm, hc]

/-- … `K` is an alias of `k` … -/
theorem suffix_value_K (suf : List (Char × Int)) (m : Str) (e : Int) (q : Rat)
    (hm : parseDecimal m = some q) (hne : m ≠ [])
    (hc : suf.find? (fun p => p.1 == 'k') = some ('k', e)) :
    valueParser suf (m ++ ['K']) = .num (q * pow10 e) := by
  have hlen : ¬ (m ++ ['K']).length < 2 := by
    cases m with
    | nil => exact absurd rfl hne
    | cons a b => simp
  have h1 : endsWith (m ++ ['K']) ['M','e','g'] = false := by
    simp [endsWith, List.isPrefixOf]
  have h2 : endsWith (m ++ ['K']) ['K'] = true := by
    simp [endsWith, List.isPrefixOf]
  unfold valueParser
  simp only [hlen, ↓reduceIte, h1, h2, Bool.false_eq_true]
  simp [hm, hc]

/-- … and `Meg` of `M` (this is the statement that failed before fix 40c4115: the code kept `MM`). -/
theorem suffix_value_Meg (suf : List (Char × Int)) (m : Str) (e : Int) (q : Rat)
    (hm : parseDecimal m = some q)
    (hc : suf.find? (fun p => p.1 == 'M') = some ('M', e)) :
    valueParser suf (m ++ ['M','e','g']) = .num (q * pow10 e) := by
  have hlen : ¬ (m ++ ['M','e','g']).length < 2 := by simp
  have h1 : endsWith (m ++ ['M','e','g']) ['M','e','g'] = true := by
    simp [endsWith, List.isPrefixOf]
  have h3 : (m ++ ['M','e','g']).take ((m ++ ['M','e','g']).length - 3) = m := by
    simp
  unfold valueParser
  simp only [hlen, ↓reduceIte, h1, h3]
  simp [hm, hc]

example : parseDecimal "4.7".toList = some (47 / 10 : Rat) := by decide +kernel

/-! ### printing is invariant under the spec's equivalence; idempotence -/

/-- the printer writes an absent non-final optional value as `0`: printing does not distinguish the
    two argument lists that the spec identifies -/
theorem fmtArgs_normArgs (ds : List Char) (a : List (Option Str)) : fmtArgs ds (normArgs a) = fmtArgs ds a := by
  induction a with
  | nil => rfl
  | cons x rest ih =>
    cases rest with
    | nil => cases x <;> rfl
    | cons y rest' =>
      cases x with
      | none =>
        simp only [normArgs]
        cases hn : normArgs (y :: rest') with
        | nil => cases y <;> cases rest' <;> simp [normArgs] at hn
        | cons z zs =>
          have : fmtArgs ds (some ['0'] :: z :: zs) = argFormat ds ['0'] :: fmtArgs ds (z :: zs) := by simp [fmtArgs]
          rw [this, ← hn, ih]
          simp [fmtArgs]
      | some v =>
        simp only [normArgs]
        cases hn : normArgs (y :: rest') with
        | nil => cases y <;> cases rest' <;> simp [normArgs] at hn
        | cons z zs =>
          have : fmtArgs ds (some v :: z :: zs) = argFormat ds v :: fmtArgs ds (z :: zs) := by simp [fmtArgs]
          rw [this, ← hn, ih]
          simp [fmtArgs]

/-- normalising twice is normalising once -/
theorem normArgs_idem (a : List (Option Str)) : normArgs (normArgs a) = normArgs a := by
  induction a with
  | nil => rfl
  | cons x rest ih =>
    cases rest with
    | nil => rfl
    | cons y rest' =>
      cases x with
      | none =>
        simp only [normArgs]
        cases hn : normArgs (y :: rest') with
        | nil => cases y <;> cases rest' <;> simp [normArgs] at hn
        | cons z zs => rw [hn] at ih; simp [normArgs, ih]
      | some v =>
        simp only [normArgs]
        cases hn : normArgs (y :: rest') with
        | nil => cases y <;> cases rest' <;> simp [normArgs] at hn
        | cons z zs => rw [hn] at ih; simp [normArgs, ih]

/-- HELPER (not the idempotence claim): the printer does not distinguish an argument list from its
    `normArgs` normal form -- `fmtArgs_normArgs` lifted to `printCpt`.  It does not mention the parser; the
    idempotence of print ∘ parse ∘ print is `C06Line.print_parse_print_idempotent_partial`. -/
theorem print_normArgs_invariant (g : Grammar) (c c' : Cpt)
    (hname : c'.name = c.name) (hty : c'.ctype = c.ctype) (hnodes : c'.nodes = c.nodes)
    (hargs : c'.args = normArgs c.args) (hkp : c'.kwpos = c.kwpos) (hkw : c'.kw = c.kw)
    (hopts : c'.opts = c.opts) (hstr : c'.string = c.string) :
    printCpt g c' = printCpt g c := by
  unfold printCpt netTokens
  simp only [hname, hty, hnodes, hargs, hkp, hkw, hopts, hstr, fmtArgs_normArgs]

/-! ### print → parse, argument level (generic in the rule) -/

theorem okValue_zero (ds : List Char) (h0 : ds.contains '0' = false) : okValue ds ['0'] = true := by
  have h0' : '0' ∉ ds := by simpa using h0
  simp [okValue, argFormat, h0', scan, scanStep, split, step]

theorem assign_fresh (ds : List Char) (hb : ds.contains '{' = false) (p : Param) (dv v : Str)
    (hv : okValue ds v = true) :
    (Arg.init p dv).assign (argFormat ds v) = .ok { name := p.name, value := some v, assigned := true } := by
  have := (arg_format_roundtrip ds hb v hv).1
  simp [Arg.assign, Arg.init, this]

theorem not_named (ds : List Char) (v : Str) (hv : okValue ds v = true) : ¬ (splitEq (argFormat ds v)).length > 1 := by
  unfold okValue at hv
  simp only [Bool.and_eq_true, decide_eq_true_eq] at hv
  simp [splitEq, hv.2]

/-- **print_parse (arguments).**  For any parameter list `aps` (the name / value parameters of a rule)
    and any values `vals` for them, all printable (`okValue`), a final absent value only where the
    parameter has no default: reading the printed arguments positionally returns `normArgs vals`,
    i.e. the same values with absent non-final ones read as 0, and consumes every field. -/
theorem print_parse_args (ds : List Char) (hb : ds.contains '{' = false) (h0 : ds.contains '0' = false) (dv : Str) :
    ∀ (aps : List Param) (vals : List (Option Str)), vals.length = aps.length →
      (∀ v, some v ∈ vals → okValue ds v = true) → trailingNoneOK aps vals = true →
      ∃ args, assignPos (aps.map (Arg.init · dv)) (fmtArgs ds vals) = .ok (args, [])
        ∧ args.map (·.value) = normArgs vals := by
  intro aps
  induction aps with
  | nil =>
    intro vals hlen _ _
    have : vals = [] := by cases vals with | nil => rfl | cons a b => simp at hlen
    subst this
    exact ⟨[], by simp [fmtArgs, assignPos], rfl⟩
  | cons p ps ih =>
    intro vals hlen hok htr
    cases vals with
    | nil => simp at hlen
    | cons x rest =>
      cases rest with
      | nil =>
        have hps : ps = [] := by
          cases ps with | nil => rfl | cons a b => simp at hlen
        subst hps
        cases x with
        | none =>
          simp [trailingNoneOK] at htr
          refine ⟨[Arg.init p dv], by simp [fmtArgs, assignPos], ?_⟩
          simp [normArgs, Arg.init, htr]
        | some v =>
          have hv := hok v (by simp)
          refine ⟨[{ name := p.name, value := some v, assigned := true }], ?_, by simp [normArgs]⟩
          have hn := not_named ds v hv
          simp only [fmtArgs, List.map_cons, List.map_nil, assignPos, hn, ↓reduceIte, assign_fresh ds hb p dv v hv]
      | cons y rest' =>
        have hlen' : (y :: rest').length = ps.length := by simpa using hlen
        cases ps with
        | nil => simp at hlen'
        | cons q ps' =>
          have htr' : trailingNoneOK (q :: ps') (y :: rest') = true := by simpa [trailingNoneOK] using htr
          obtain ⟨args, hassign, hvals⟩ := ih (y :: rest') hlen' (fun v hv => hok v (by simp [hv])) htr'
          have hnn : normArgs (y :: rest') ≠ [] := by
            cases y <;> cases rest' <;> simp [normArgs]
          cases x with
          | none =>
            have hz := okValue_zero ds h0
            refine ⟨{ name := p.name, value := some ['0'], assigned := true } :: args, ?_, ?_⟩
            · have hn := not_named ds ['0'] hz
              have hf : fmtArgs ds (none :: y :: rest') = argFormat ds ['0'] :: fmtArgs ds (y :: rest') := by simp [fmtArgs]
              rw [hf]
              simp only [List.map_cons, assignPos, hn, ↓reduceIte, assign_fresh ds hb p dv ['0'] hz]
              simp only [List.map_cons] at hassign
              rw [hassign]
            · simp only [List.map_cons, hvals]
              cases hn2 : normArgs (y :: rest') with
              | nil => exact absurd hn2 hnn
              | cons z zs => simp [normArgs, hn2]
          | some v =>
            have hv := hok v (by simp)
            refine ⟨{ name := p.name, value := some v, assigned := true } :: args, ?_, ?_⟩
            · have hn := not_named ds v hv
              have hf : fmtArgs ds (some v :: y :: rest') = argFormat ds v :: fmtArgs ds (y :: rest') := by simp [fmtArgs]
              rw [hf]
              simp only [List.map_cons, assignPos, hn, ↓reduceIte, assign_fresh ds hb p dv v hv]
              simp only [List.map_cons] at hassign
              rw [hassign]
            · simp only [List.map_cons, hvals]
              cases hn2 : normArgs (y :: rest') with
              | nil => exact absurd hn2 hnn
              | cons z zs => simp [normArgs, hn2]

example : trailingNoneOK [⟨['V'], .value, true, some ['n','a','m','e']⟩, ⟨['I','C'], .value, true, none⟩] [some ['3'], none] = true := by decide

/-- HELPER.  The elided default: when the sole printed argument was dropped because it equals the component
    name, the parser's default restores it **provided the parameter's default is `name`**
    (`SW`: default `0` -- known finding C06-b; covered by the oracle's `value-equals-name` stream) -/
theorem elided_default_restored (p : Param) (relname : Str) (hd : p.default = some ['n','a','m','e']) :
    (Arg.init p relname).value = some relname := by
  simp [Arg.init, hd]

/-- full-strength statement that does NOT hold for the current code (kept as documentation):
    `∀ p, (Arg.init p relname).value = some relname` -- false for `[Time=0]`. -/
theorem elided_default_partial_counterexample :
    (Arg.init ⟨['T','i','m','e'], .value, true, some ['0']⟩ ['S','W','1']).value ≠ some ['S','W','1'] := by
  decide

end Lcapy.C06
