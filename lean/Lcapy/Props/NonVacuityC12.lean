/-
  AUDIT (auditor B) -- machine-checked non-vacuity witnesses for Props/C12.lean and C12Trap.lean.
  Every theorem with hypotheses is APPLIED to a concrete non-trivial input with all hypotheses proved.
  `pairG_agrees_with_ftKind_*`: the premise `hpair` of `model_forward_refines` (which Props/C12.lean never discharges: its
  table theorem `ft_table_forward` compares the generated table with a SECOND spec table `pairG`, not with `ftKind`) holds
  for the generated rows used below.
-/
import Lcapy.Props.C12
import Lcapy.Props.C12Trap
namespace Lcapy.NonVacuity.C12
open Lcapy.Fourier Lcapy.C12
set_option linter.unusedSimpArgs false

/-- `(2+j)·e^{j2π/4}·e^{j2π·3t}·rect(2t − 1)  +  j·t e^{−3(−t)}u(−t)`-like term: a two-term signal with scale, shift, modulation -/
def xs : E := [⟨⟨2, 1⟩, 1 / 4, 3, .rect, 2, -1⟩, ⟨⟨0, 1⟩, 0, 0, .expu 1 ⟨3, 0⟩, -1, 0⟩]
theorem wf_xs : WF xs := by intro t ht; simp [xs] at ht; rcases ht with rfl | rfl <;> decide

example := ft_shift (22 / 7) 5 xs wf_xs
example := ft_modulate (22 / 7) 5 xs wf_xs
example := ft_scale (22 / 7) (-3) (by norm_num) xs wf_xs
example := ft_scale_shift (22 / 7) (-3) 2 (by norm_num) xs wf_xs
example := ift_shift (22 / 7) 5 xs wf_xs

/-- `ft_table_inverse_sound`: the row `sign(t) ↦ 1/(jπ·sf)` (odd atom written with `sf`) -/
example := ft_table_inverse_sound (22 / 7) ⟨0, -1, 1, -1, .inv1, true, 1, 1, 0⟩ (by decide)

/-! ### `model_forward_refines`: ALL premises, for the generated rows of rect, sign and |t| -/
def tRect : Term := ⟨⟨2, 1⟩, 1 / 4, 3, .rect, 2, -1⟩
def eRect : GEntry := ⟨.rect, "other.is_Function and other.func == rect and (other.args[0] ", [⟨1, 0, 1, 0, .sinc, false, 1, 1, 0⟩]⟩
theorem lookup_rect : Model.lookup .rect 0 = some eRect := by decide
theorem pairG_agrees_with_ftKind_rect (pi : Rat) :
    entryE pi false eRect.terms = (ftKind pi .rect).map fun p => ⟨p.q, 0, 0, p.k, p.s, 0⟩ := by
  simp [entryE, eRect, GTerm.toTerm, GTerm.coef, GTerm.scale, ftKind, zpow, CQ.smul]; rfl
example := model_forward_refines (22 / 7) tRect eRect (by decide) (by intro al; simp [tRect]) (by intro al; simp [tRect])
  (by simp [tRect]) (by simp [tRect]) (by simp [tRect]) (by simp [tRect]) (by intro al; simp [tRect]) lookup_rect
  (pairG_agrees_with_ftKind_rect _)

def tSgn : Term := ⟨⟨2, 1⟩, 1 / 4, 3, .sgn, -2, 5⟩
def eSgn : GEntry := ⟨.sgn, "other == sign(t)", [⟨0, -1, 1, -1, .inv1, true, 1, 1, 0⟩]⟩
theorem lookup_sgn : Model.lookup .sgn 0 = some eSgn := by decide
theorem pairG_agrees_with_ftKind_sgn (pi : Rat) :
    entryE pi false eSgn.terms = (ftKind pi .sgn).map fun p => ⟨p.q, 0, 0, p.k, p.s, 0⟩ := by
  simp [entryE, eSgn, GTerm.toTerm, GTerm.coef, GTerm.scale, ftKind, zpow, CQ.smul]
  ring
example := model_forward_refines (22 / 7) tSgn eSgn (by decide) (by intro al; simp [tSgn]) (by intro al; simp [tSgn])
  (by simp [tSgn]) (by simp [tSgn]) (by simp [tSgn]) (by simp [tSgn]) (by intro al; simp [tSgn]) lookup_sgn
  (pairG_agrees_with_ftKind_sgn _)

/-- trapezoid: `model_trap_refines` with the exponent the generated table carries, and its consequence -/
def tTrap : Term := ⟨1, 0, 2, .trap (1 / 2), 2, -1⟩
example := model_trap_is_alpha_times_spec (22 / 7) tTrap (1 / 2) (by decide) rfl
example : ∃ p, Gen.trapAlphaPow = some p ∧
    Model.modelTerm (22 / 7) false 0 tTrap = some ((ftTerm (22 / 7) tTrap).map (smulT (CQ.ofRat (zpow (1 / 2) p)))) := by
  rcases trap_entry_is_pair_partial with h | h
  · exact ⟨1, h, model_trap_refines _ tTrap (1 / 2) 1 (by decide) rfl h⟩
  · exact ⟨0, h, model_trap_refines _ tTrap (1 / 2) 0 (by decide) rfl h⟩

/-! ### frequency variables -/
example := f_omega (22 / 7) (3 / 2) ⟨.f, some .omega, -1, -1, 0, false⟩ (by decide) rfl
example := f_omega (22 / 7) (3 / 2) ⟨.omega, none, 1, 1, 0, false⟩ (by decide) rfl
example := delta_scaling (7 / 44) (by norm_num) 2 ⟨⟨2, 1⟩, 1 / 4, 3, .delta 2, -2, 1⟩ (by decide)
example := model_conv_refines (22 / 7) (3 / 2) (by norm_num) (by norm_num) .F .omega xs
example := conv_compose (22 / 7) (3 / 2) (by norm_num) (by norm_num) .F .omega .Omega xs
example := conv_cycle_identity (22 / 7) (3 / 2) (by norm_num) (by norm_num) xs
example := conv_chain_identity (22 / 7) (3 / 2) (by norm_num) (by norm_num) .omega [.F, .f, .Omega] xs
example := ft_dom_conv (22 / 7) (3 / 2) (by norm_num) (by norm_num) .F .omega xs xs

/-! ### Laplace on jω; inverse ∘ forward -/
-- (updated by the C12 engineer after the audit: the formal identity is now stated against C09's `L` without the decorative
--  hypothesis, and `fourier_is_laplace_on_jw` is the analytic statement that USES stability)
example := fourier_is_laplace_on_jw_formal (22 / 7) (1 / 3) [⟨⟨2, 0⟩, 1, ⟨3, 4⟩⟩, ⟨⟨0, 1⟩, 0, ⟨1, 0⟩⟩]
example := fourier_is_laplace_on_jw 2 (3 + 4 * Complex.I) (1 / 3) (by simp)
/-- the formal identity needs no stability: the same identity for an UNSTABLE term -/
example : ratValue (22 / 7) (1 / 3) (ft (22 / 7) ([⟨⟨2, 0⟩, 1, ⟨-3, 4⟩⟩].map EPTerm.toTerm))
    = laplaceAt ⟨0, 2 * (22 / 7) * (1 / 3)⟩ [⟨⟨2, 0⟩, 1, ⟨-3, 4⟩⟩] := Lcapy.Fourier.fourier_laplace_aux _ _ _

example := ft_ft_term (22 / 7) ⟨⟨0, 1⟩, 1 / 4, 3, .expu 1 ⟨3, 0⟩, -1, 2⟩ (by decide)
  (by intro p hp; simp [ftKind] at hp; subst hp; left; rfl)
example := pair_table_involutive_even (22 / 7) .tri (by simp)
example := inverse_forward_id_partial (22 / 7) tRect (by decide) (by simp [tRect])
example := inverse_forward_id_trap (22 / 7) tTrap (by decide) (Or.inl ⟨_, rfl⟩)
example := inverse_forward_id_generalised (22 / 7) (by norm_num) ⟨⟨2, 1⟩, 1 / 4, 3, .delta 2, -2, 1⟩ (by decide)
  (Or.inr (Or.inl ⟨2, rfl⟩))
example := inverse_forward_id_generalised (22 / 7) (by norm_num) tSgn (by decide) (Or.inr (Or.inr (Or.inl rfl)))
example := ft_generalised_partial (22 / 7) (by norm_num)

/-! ### anchors -/
example := anchor_one_sided_exponential (3 + 4 * Complex.I) 2 (by simp)
example := anchor_rect_sinc 2 (by norm_num)
example := anchor_tri_sinc2 2 (by norm_num)
example := anchor_two_sided_exponential 3 2 (by norm_num)
example := anchor_two_sided_exponential_closed 3 2 (by norm_num)

end Lcapy.NonVacuity.C12
