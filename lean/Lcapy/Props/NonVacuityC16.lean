/-
  AUDIT (reviewer, not the owner): machine-checked NON-VACUITY witnesses for the theorems of
  Props/C16*.lean that carry hypotheses.  The state-machine theorems are instantiated at the GENERATED
  configuration `Gen.Caches.config` (what the driver runs) on a realistic two-instance history with an
  override, queries through lru / cached_property / hasattr slots, a removal, a derived circuit and
  failing operations -- not at the small example configurations of the Props files.
-/
import Lcapy.Props.C16
import Lcapy.Props.C16Pure
import Lcapy.Props.C16Tables
import Lcapy.Props.C16Full
import Lcapy.Props.C16Atomic
import Lcapy.Props.C16Sym
import Lcapy.Props.C16SymCode
import Lcapy.Props.C16Env
set_option linter.defProp false
set_option linter.unusedVariables false
namespace Lcapy.NonVacuity.C16
open Lcapy.Cache Lcapy.Gen.Caches Lcapy.C16

/-! ## the history -/

def Vs : Elt := ⟨"V1", "V", ["1", "0"], "5"⟩
def Ra : Elt := ⟨"R1", "R", ["1", "2"], "1"⟩
def Cb : Elt := ⟨"C1", "C", ["2", "0"], "1"⟩
def Ra' : Elt := ⟨"R1", "R", ["1", "3"], "5"⟩
def Ea : Elt := ⟨"E1", "E", ["3", "0", "2", "0"], "10"⟩

/-- a public, exception-free history on the generated configuration: build, query the solver caches
    (`Vdict` reads the lru slot `_subcircuits_make` and a cached_property), mutate, override `R1`, add a
    four-terminal VCVS, remove it, copy, work on the copy, query both -/
def hist : List Op :=
  [.new, .addLines 0 [Vs, Ra], .query 0 "Vdict", .add 0 Cb, .query 0 "is_connected", .add 0 Ra', .add 0 Ea,
   .query 0 "sim", .remove 0 "E1", .derive 0 "copy" [Vs, Ra', Cb], .add 1 ⟨"L1", "L", ["3", "0"], "2"⟩,
   .query 1 "Vdict", .query 0 "node_list"]

theorem hist_public : ∀ op ∈ hist, op.isPublic := by
  intro op hop
  simp only [hist, List.mem_cons, List.mem_nil_iff, or_false] at hop
  rcases hop with h | h | h | h | h | h | h | h | h | h | h | h | h <;> subst h <;>
    simp [Op.isPublic, uniqueNames, Vs, Ra', Cb]

theorem hist_noraise : NoRaise config World.empty hist := by
  simp only [NoRaise, hist]; decide

theorem hist_runOK : RunOK config World.empty hist :=
  runOK_of_flags config add_invalidates add_multi_invalidates remove_invalidates override_detaches
    remove_detaches_all_nodes override_detaches_all_nodes _ _ hist_public hist_noraise

/-- both instances exist at the end, instance 0 holds three components (V1, the overriding R1, C1) -/
theorem hist_final : (run config World.empty hist).insts.length = 2 ∧
    (eltsOf (run config World.empty hist) 0).length = 3 ∧ (eltsOf (run config World.empty hist) 1).length = 4 := by
  decide

/-- memo entries ARE live at the end (the refinement is not about an empty memo layer) -/
theorem hist_memos_live : (run config World.empty hist).lru ≠ [] ∧
    ((run config World.empty hist).insts.map (fun x => x.memo.length)) ≠ [0, 0] := by decide

/-! ## Props/C16.lean -/

def nv_inv_run := inv_run config (fun _ => true) cfg_ok_current hist hist_runOK

/-- the step after the history: an overriding `add` (admissible because the code detaches) -/
def nv_inv_step :=
  inv_step config (fun _ => true) cfg_ok_current (run config World.empty hist) nv_inv_run (.add 0 Ra)
    ⟨add_invalidates, Or.inl ⟨override_detaches, override_detaches_all_nodes⟩⟩ (by decide)

def nv_inv_implies_fresh (inst : Inst) (hi : (run config World.empty hist).insts[0]? = some inst) :=
  inv_implies_fresh config (fun _ => true) cfg_ok_current _ nv_inv_run 0 inst hi

def nv_fresh_refinement_on (inst : Inst) (hi : (run config World.empty hist).insts[1]? = some inst) :=
  fresh_refinement_on config (fun _ => true) cfg_ok_current hist hist_runOK 1 inst hi

def nv_fresh_refinement (inst : Inst) (hi : (run config World.empty hist).insts[0]? = some inst) :=
  fresh_refinement config memoised_subset_cleared add_invalidates add_multi_invalidates remove_invalidates
    override_detaches remove_detaches_all_nodes override_detaches_all_nodes no_query_damages_cache hist hist_public
    hist_noraise 0 inst hi

/-- the `hi` hypotheses above are inhabited -/
theorem nv_hi : ((run config World.empty hist).insts[0]?).isSome = true ∧
    ((run config World.empty hist).insts[1]?).isSome = true := by decide

def nv_fresh_refinement_partial (inst : Inst) (hi : (run config World.empty hist).insts[0]? = some inst) :=
  fresh_refinement_partial config Gpartial partial_slots_ok add_invalidates remove_invalidates hist hist_runOK 0 inst hi
    "Vdict" (by decide)

def nv_copy_isolated :=
  copy_isolated config (run config World.empty hist) (.remove 1 "L1") 0 (by decide) (by decide)

def nv_derive_keeps_source :=
  Lcapy.C16.derive_keeps_source config (run config World.empty hist) 0 "copy" [Vs, Cb] (by decide)

def nv_remove_unknown_atomic (inst : Inst) (hi : (run config World.empty hist).insts[0]? = some inst)
    (hn : findElt inst.elts "R99" = none) :=
  remove_unknown_atomic config (run config World.empty hist) 0 "R99" inst hi hn

/-- ... and `hn` holds for the instance that is there -/
theorem nv_remove_unknown_atomic_hn : findElt (eltsOf (run config World.empty hist) 0) "R99" = none := by decide

def nv_remove_known_completes (inst : Inst) (hi : (run config World.empty hist).insts[0]? = some inst)
    (e : Elt) (he : findElt inst.elts "C1" = some e) :=
  remove_known_completes config node_delete_guarded (run config World.empty hist) 0 "C1" inst e hi he

theorem nv_remove_known_completes_he : (findElt (eltsOf (run config World.empty hist) 0) "C1").isSome = true := by
  decide

/-- a transformer memo keyed by (expression, causal flag): the key determines the result -/
def nv_memo_transparent :=
  memo_transparent (A := String × Bool × Nat) (K := String × Bool) (R := String)
    (fun a => (a.1, a.2.1)) (fun a => a.1 ++ toString a.2.1) (by intro a b h; simp only [Prod.mk.injEq] at h; simp [h.1, h.2])
    [.tr ("1/s", true, 0), .tr ("1/s", true, 1), .tr ("1/s", false, 2)]

/-- a key that forgets the flag -/
def nv_memo_needs_key :=
  memo_needs_key (A := String × Bool) (K := String) (R := Bool) (fun a => a.1) (fun a => a.2) ("1/s", true) ("1/s", false)
    rfl (by decide)

def nv_perm_invariant_partial :=
  perm_invariant_partial (g := [⟨"R1", "1", "2", 1⟩, ⟨"R2", "2", "0", 2⟩]) (h := [⟨"R2", "2", "0", 2⟩, ⟨"R1", "1", "2", 1⟩])
    (List.Perm.swap _ _ _)

/-! ## Props/C16Pure.lean -/

def nv_abstraction :=
  abstraction config (run config World.empty hist) (strip (run config World.empty hist)) (by decide) (.remove 0 "C1")

def nv_history_abstraction :=
  history_abstraction config (run config World.empty hist) (strip (run config World.empty hist)) (by decide)
    [.remove 0 "C1", .query 0 "Vdict"]

/-- `hist = pre ++ post` with a query inserted after the fourth operation -/
def nv_query_transparent :=
  query_transparent config (fun _ => true) cfg_ok_current (hist.take 4) (hist.drop 4) 0 "circuit_graph"
    (by simpa using hist_runOK) 0 "Vdict" (fun _ _ => rfl)

/-- failing operations on the generated configuration: unknown name, malformed second line of a two-line
    `add`, a component that cannot be registered (late failure), then queries -/
def histF : List Op :=
  hist ++ [.remove 0 "R99", .addFail 0 [⟨"R9", "R", ["2", "7"], "1"⟩] ⟨"R5", "R", ["2"], ""⟩ false,
    .addFail 1 [] ⟨"Isc", "I", ["2", "3"], "1"⟩ true, .query 0 "Vdict", .query 1 "node_list"]

theorem histF_runOKF : RunOKF config World.empty histF := by
  simp only [RunOKF, Op.admissible, histF, hist, List.cons_append, List.nil_append, uniqueNames]; decide

theorem histF_some_fail : (step config (run config World.empty hist) (.remove 0 "R99")).2 = false := by decide

def nv_fresh_refinement_with_failures (inst : Inst) (hi : (run config World.empty histF).insts[0]? = some inst) :=
  fresh_refinement_with_failures config (fun _ => true) cfg_ok_current node_delete_guarded histF histF_runOKF 0 inst hi

def nv_failed_op_atomic :=
  failed_op_atomic config node_delete_guarded (run config World.empty hist)
    (.addFail 1 [] ⟨"Isc", "I", ["2", "3"], "1"⟩ true) ⟨rfl, fun _ => failed_add_detaches⟩ (by decide)

/-! ## Props/C16Tables.lean, C16Full.lean, C16Atomic.lean -/

def nv_fresh_refinement_partial_current (inst : Inst) (hi : (run config World.empty hist).insts[1]? = some inst) :=
  fresh_refinement_partial_current hist hist_runOK 1 inst hi "get_Vd" (by decide)

def nv_fresh_refinement_current (inst : Inst) (hi : (run config World.empty hist).insts[0]? = some inst) :=
  fresh_refinement_current hist hist_public hist_noraise 0 inst hi "modified_nodal_analysis"

def nv_query_transparent_current :=
  query_transparent_current (hist.take 4) (hist.drop 4) 0 "mesh_analysis" (by simpa using hist_public)
    (by simpa using hist_noraise) 1 "Vdict"

def nv_fresh_refinement_with_failures_current (inst : Inst)
    (hi : (run config World.empty histF).insts[1]? = some inst) :=
  fresh_refinement_with_failures_current histF histF_runOKF 1 inst hi "Vdict"

theorem nv_hiF : ((run config World.empty histF).insts[0]?).isSome = true ∧
    ((run config World.empty histF).insts[1]?).isSome = true := by decide

def nv_failed_op_atomic_current :=
  failed_op_atomic_current (run config World.empty hist) (.remove 0 "R99") trivial histF_some_fail

/-! ## Props/C16Sym.lean -/
section Sym
open Lcapy.SymReg

def symHist : List SymReg.Op :=
  [.declare "Rx" "real", .add 1 ["Rx", "C"] true, .use "tau" "positive", .delete "Rx", .add 2 ["Rx"] false, .enter 3, .leave]

def nv_unmentioned_is_fresh :=
  unmentioned_is_fresh ⟨false, false⟩ symHist "omega0" "real" (by decide)

def nv_agreeing_is_fresh :=
  agreeing_is_fresh ⟨true, true⟩ symHist "C" "positive" (by
    intro op hop
    simp only [symHist, List.mem_cons, List.mem_nil_iff, or_false] at hop
    rcases hop with h | h | h | h | h | h | h <;> subst h <;> simp [Op.agrees])

/-- `tau` is registered by the prefix; the tail re-declares and deletes other names only -/
def nv_stable_tail :=
  stable_tail ⟨true, true⟩ (SymReg.run ⟨true, true⟩ St.init (symHist.take 3)) (symHist.drop 3) "tau" "positive"
    (by decide) (by decide)

def nv_delete_restores_fresh :=
  delete_restores_fresh ⟨deleteCleansKinds, addRestoresContextOnError⟩ delete_cleans_kinds
    (SymReg.run ⟨deleteCleansKinds, addRestoresContextOnError⟩ St.init (symHist.take 3)) "Rx"

def nv_delete_resets_history :=
  delete_resets_history ⟨deleteCleansKinds, addRestoresContextOnError⟩ delete_cleans_kinds (symHist.take 3)
    [.use "Rx" "complex"] "Rx" "positive"

/-- a failing `add` with the context restored in a `finally` (generated flag) -/
def nv_add_balanced :=
  add_balanced ⟨deleteCleansKinds, addRestoresContextOnError⟩ St.init 2 ["Rx"] false (Or.inr add_restores_context_on_error)

def nv_run_balanced :=
  run_balanced ⟨deleteCleansKinds, addRestoresContextOnError⟩ add_restores_context_on_error (symHist.take 5) St.init (by
    intro op hop
    simp only [symHist, List.take, List.mem_cons, List.mem_nil_iff, or_false] at hop
    rcases hop with h | h | h | h | h <;> subst h <;> simp [Op.noSwitch])

end Sym

/-! ## Props/C16Env.lean -/
section Env
open Lcapy.EnvMemo

/-- an analysis (here: the number of elements, signed by the sign convention) that reads
    `current_sign_convention` but not `loose_units` -/
def fA : Nat → Env → Int := fun e env => if env "current_sign_convention" = "active" then -(e : Int) else e

def envHist : List (EnvMemo.Op Nat) :=
  [.query, .set "loose_units" "False", .mutate 4, .query, .set "loose_units" "True", .query]

def nv_answer_is_function_of_elements_and_settings :=
  answer_is_function_of_elements_and_settings fA envHist ⟨3, fun _ => "passive", none⟩ rfl

def nv_insensitive_history_independent :=
  insensitive_history_independent fA envHist ⟨3, fun _ => "passive", none⟩ rfl (by
    intro e a b h
    have : a "current_sign_convention" = b "current_sign_convention" := h _ (by decide)
    simp [fA, this])

def nv_toggle_query_back_trace :=
  toggle_query_back_trace fA ⟨3, fun _ => "passive", none⟩ rfl "current_sign_convention" "active"

end Env

end Lcapy.NonVacuity.C16
