/-
  PROPERTY C15 (G4) -- the mesh formulation is COMPLETE: it is equivalent to the circuit laws.

  `mesh_eqs_hold` (Props/C15.lean) says: circuit laws ⇒ every mesh (KVL) equation `LoopAnalysis` writes holds.
  Here is the converse.  The loops come from an untrusted cycle search; when they pass the decidable checks
  `isSimpleCycle` (each loop) and `checkBasis` (together they span the cycle space of the circuit graph; the
  certificate -- a walk to every graph node and, for every graph edge, its closing cycle as a combination of
  the loops -- is an input like the loops and is CHECKED, never trusted), then mesh currents that satisfy ALL
  mesh equations determine node voltages and branch currents, given explicitly by `meshSolution`
  (Model/MeshComplete.lean), that satisfy `Laws`: KCL at every node and every component's defining relation.

  Spec side : `Laws` (Spec/Laws.lean).
  Model side: `meshEq true` (Model/Formulations.lean, the repaired code), `checkBasis`, `meshSolution`
              (Model/MeshComplete.lean).
  Only property theorems live here; helper lemmas are in Proofs/MeshComplete.lean (`kvl_complete`: certificate ⇒
  every edge voltage is a potential difference; `kcl_telescope`: loop currents leave a node as they enter it;
  `meshEq_rise`: a mesh equation is the loop sum of the edge voltages −(z·J + v0)).
-/
import Lcapy.Props.C15
import Lcapy.Proofs.MeshComplete
/- NOTE: every theorem of this file is stated for `meshEq true …`, the mesh model with the PROPOSED patch fix-C15-c
   (a component is identified by the graph edge that holds it).  That patch is not applied to /repo (finding C15-c,
   known); for netlists without parallel components the code as it is prints the same equations (checked by the
   correspondence of harness/c15.py on every run), with parallel components it does not.  The CLAIMED statement about
   the code in /repo is `mesh_eqs_hold_partial` in Props/C15.lean. -/
namespace Lcapy.C15
open Lcapy.MNA Lcapy.Formulations Lcapy.StateSpace Ix
variable {K : Type} [Field K] [DecidableEq K]

/-- **mesh_complete**: for every netlist of R, Y, C, L, V on which the mesh formulation is defined, in every
    analysis kind, at every point s, every list of loops that are simple cycles of the circuit graph and pass
    the cycle-basis check, and every assignment `im` of mesh currents: if `im` satisfies every mesh equation the
    (repaired) code writes, then the node voltages (potential along the certificate's walks, relative to node 0)
    and branch currents (signed sums of the mesh currents through the component's edge) of `meshSolution` satisfy
    Kirchhoff's current law at every node and every component's defining relation.
    (The mesh equations exist: `Formulations.meshEq_isSome`, so `heqs` is not vacuous.) -/
theorem mesh_complete (kind : Kind) (s : K) (cs : List (Cpt K)) (loops : List (List GNode)) (im : Nat → K)
    (cert : BasisCert K)
    (hdef : MeshDefined kind s cs)
    (hwf : (cs.flatMap owned).Nodup)
    (hcyc : ∀ loop ∈ loops, isSimpleCycle (buildGraph cs) loop = true)
    (hbasis : checkBasis cs loops cert = true)
    (heqs : ∀ loop ∈ loops, ∀ f, meshEq true kind s (buildGraph cs) loops loop = some f → f.eval im = 0) :
    Laws kind s cs (meshSolution kind s cs loops im cert) := by
  have hloops := loops_vanish kind s cs loops im hdef hcyc heqs
  constructor
  · intro k _
    exact meshSolution_kcl kind s cs loops im cert hdef hwf hcyc hbasis hloops k
  · intro c hc
    obtain ⟨idx, hidx⟩ := List.getElem?_of_mem hc
    exact (meshSolution_cpt kind s cs loops im cert hdef hwf hbasis hloops idx c hidx).2.1

/-- the mesh currents carry that solution (hypothesis `MeshConsistent` of `mesh_eqs_hold`): the current the code
    accumulates for a component is the component's current in `meshSolution` -/
theorem mesh_complete_consistent (kind : Kind) (s : K) (cs : List (Cpt K)) (loops : List (List GNode)) (im : Nat → K)
    (cert : BasisCert K)
    (hdef : MeshDefined kind s cs)
    (hwf : (cs.flatMap owned).Nodup)
    (hcyc : ∀ loop ∈ loops, isSimpleCycle (buildGraph cs) loop = true)
    (hbasis : checkBasis cs loops cert = true)
    (heqs : ∀ loop ∈ loops, ∀ f, meshEq true kind s (buildGraph cs) loops loop = some f → f.eval im = 0)
    (loop : List GNode) :
    MeshConsistent true kind s cs loops (meshSolution kind s cs loops im cert) im loop := by
  have hloops := loops_vanish kind s cs loops im hdef hcyc heqs
  intro ab _ idx c hcomp hV
  obtain ⟨hc, _⟩ := component_lt cs _ _ _ _ hcomp
  obtain ⟨_, n0, n1, hn, _⟩ := meshOk_nodes kind s c (hdef c (List.mem_of_getElem? hc))
  rw [meshCurrent_eq cs loops im hcyc idx c n0 n1 hc hn,
    (meshSolution_cpt kind s cs loops im cert hdef hwf hbasis hloops idx c hc).2.2 hV]

/-- **mesh_iff_laws**: with loops that form a checked cycle basis, mesh currents satisfy all mesh equations
    IF AND ONLY IF they carry a solution of the circuit laws -/
theorem mesh_iff_laws (kind : Kind) (s : K) (cs : List (Cpt K)) (loops : List (List GNode)) (im : Nat → K)
    (cert : BasisCert K)
    (hdef : MeshDefined kind s cs)
    (hwf : (cs.flatMap owned).Nodup)
    (hcyc : ∀ loop ∈ loops, isSimpleCycle (buildGraph cs) loop = true)
    (hbasis : checkBasis cs loops cert = true) :
    (∀ loop ∈ loops, ∀ f, meshEq true kind s (buildGraph cs) loops loop = some f → f.eval im = 0) ↔
    ∃ x, Laws kind s cs x ∧ ∀ loop ∈ loops, MeshConsistent true kind s cs loops x im loop := by
  constructor
  · intro heqs
    exact ⟨meshSolution kind s cs loops im cert,
      mesh_complete kind s cs loops im cert hdef hwf hcyc hbasis heqs,
      fun loop _ => mesh_complete_consistent kind s cs loops im cert hdef hwf hcyc hbasis heqs loop⟩
  · rintro ⟨x, hlaws, hcons⟩ loop hl f hf
    exact mesh_eqs_hold kind s cs x loops im hdef hlaws loop (hcyc loop hl) (hcons loop hl) f hf

/-! ## non-vacuity: every hypothesis of `mesh_complete` is satisfiable, and the conclusion is the circuit's solution -/

/-- V1 1 0 6; R1 1 2 3; R2 2 0 5, the loop 0-1-2 with mesh current 3/4 (certificate `exCert`: walks 0, 0-1, 0-1-2;
    the edge of R2 closes the loop) -/
example : Laws .dc 0 exCkt (meshSolution .dc 0 exCkt [exLoop] (fun _ => 3/4) exCert) :=
  mesh_complete .dc 0 exCkt [exLoop] (fun _ => 3/4) exCert
    (by intro c hc; simp [exCkt] at hc; rcases hc with rfl | rfl | rfl <;> simp [MeshOk])
    (by simp [exCkt, owned])
    (by intro l hl; simp only [List.mem_singleton] at hl; subst hl; exact exLoop_cycle)
    exCert_ok exMeshEq

/-- the solution recovered from the mesh current 3/4 is the circuit's: V1 = 6, V2 = 15/4, current of V1 = −3/4 -/
example : meshSolution .dc 0 exCkt [exLoop] (fun _ => 3/4) exCert (node 1) = 6 ∧
    meshSolution .dc 0 exCkt [exLoop] (fun _ => 3/4) exCert (node 2) = 15/4 ∧
    meshSolution .dc 0 exCkt [exLoop] (fun _ => 3/4) exCert (br 0) = -3/4 := by decide +kernel

/-- a circuit with a parallel component, hence a dummy node and its wire: V1 1 0 6; R1 1 2 3; R2 2 0 5; R3 2 0 7,
    meshes 0-1-2 and 0-2-*0 with mesh currents 72/71 and 30/71 -/
example : Laws .dc 0 parCkt (meshSolution .dc 0 parCkt parLoops parIm parCert) :=
  mesh_complete .dc 0 parCkt parLoops parIm parCert
    (by intro c hc; simp [parCkt] at hc; rcases hc with rfl | rfl | rfl | rfl <;> simp [MeshOk])
    (by simp [parCkt, owned])
    parLoops_cycles parCert_ok parMeshEq

example : meshSolution .dc 0 parCkt parLoops parIm parCert (node 1) = 6 ∧
    meshSolution .dc 0 parCkt parLoops parIm parCert (node 2) = 210/71 ∧
    meshSolution .dc 0 parCkt parLoops parIm parCert (br 0) = -72/71 := by decide +kernel

/-- the check is not trivially true: without the second mesh the loops do not span the cycle space of `parCkt`
    (with these walks no multiple of the one loop closes the wire of R3), and the certificate is refused -/
example : checkBasis parCkt [[.real 0, .real 1, .real 2]] ⟨parCert.paths, [[0], [0], [1], [0], [1]]⟩ = false := by
  decide +kernel

end Lcapy.C15
