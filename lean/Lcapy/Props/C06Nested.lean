/-
  C06, round 3 (G2): nested braces and quotes.  A syntactic description (`Bal`, `Tok`) of the texts the
  tokeniser keeps together, the proof that they are tokens (`nested_atomic`, `split_join_nested`), and
  that they satisfy the value hypothesis `okValue` of the argument / line-level round-trip theorems.
-/
import Lcapy.Props.C06
namespace Lcapy.C06
open Lcapy.Parser Lcapy.Spec.Netlist

/-! ### nested braces and quotes (round 3, G2)

  A syntactic description of what the tokeniser keeps together: `Bal cl t` -- the text `t` is balanced
  when read inside a bracket whose closing character is `cl` (`}` or `"`): any nesting of `{…}` groups,
  `"…"` groups inside braces, `{…}` groups inside quotes, delimiters anywhere; `Tok t` -- a token at
  depth 0: plain non-delimiter characters and such groups. -/

inductive Bal : Char → Str → Prop
  | nil (cl : Char) : Bal cl []
  | plain (cl c : Char) (t : Str) : c ≠ '{' → c ≠ '"' → c ≠ '}' → Bal cl t → Bal cl (c :: t)
  | rbraceInQuote (t : Str) : Bal '"' t → Bal '"' ('}' :: t)
  | brace (cl : Char) (a b : Str) : Bal '}' a → Bal cl b → Bal cl ('{' :: (a ++ '}' :: b))
  | quote (a b : Str) : Bal '"' a → Bal '}' b → Bal '}' ('"' :: (a ++ '"' :: b))

inductive Tok (ds : List Char) : Str → Prop
  | nil : Tok ds []
  | plain (c : Char) (t : Str) : ds.contains c = false → c ≠ '{' → c ≠ '"' → c ≠ '}' → Tok ds t → Tok ds (c :: t)
  | brace (a b : Str) : Bal '}' a → Tok ds b → Tok ds ('{' :: (a ++ '}' :: b))
  | quote (a b : Str) : Bal '"' a → Tok ds b → Tok ds ('"' :: (a ++ '"' :: b))

/-- inside a bracket (non-empty stack) with closing character `cl ∈ {'}', '"'}`, balanced text leaves the
    scanner where it was -/
theorem scan_bal (ds : List Char) {cl : Char} {t : Str} (h : Bal cl t) :
    (cl = '}' ∨ cl = '"') → ∀ (x : Option Char) (st : List (Option Char)),
      scan ds t (some cl, x :: st) = some (some cl, x :: st) := by
  induction h with
  | nil cl => intro _ x st; rfl
  | plain cl c t h1 h2 h3 _ ih =>
    intro hcl x st
    have hne : (some c == some cl) = false := by
      rcases hcl with rfl | rfl
      · simp [h3]
      · simp [h2]
    have : scanStep ds (some cl, x :: st) c = some (some cl, x :: st) := by
      simp [scanStep, hne, h1, h2]
    simp only [scan, this]
    exact ih hcl x st
  | rbraceInQuote t _ ih =>
    intro _ x st
    have : scanStep ds (some '"', x :: st) '}' = some (some '"', x :: st) := by simp [scanStep]
    simp only [scan, this]
    exact ih (Or.inr rfl) x st
  | brace cl a b _ _ iha ihb =>
    intro hcl x st
    have hne : (some '{' == some cl) = false := by rcases hcl with rfl | rfl <;> decide
    have h1 : scanStep ds (some cl, x :: st) '{' = some (some '}', some cl :: x :: st) := by
      simp [scanStep, hne]
    have h2 : scanStep ds (some '}', some cl :: x :: st) '}' = some (some cl, x :: st) := by simp [scanStep]
    simp only [scan, h1]
    rw [scan_append, iha (Or.inl rfl) (some cl) (x :: st)]
    simp only [Option.bind_some, scan, h2]
    exact ihb hcl x st
  | quote a b _ _ iha ihb =>
    intro _ x st
    have h1 : scanStep ds (some '}', x :: st) '"' = some (some '"', some '}' :: x :: st) := by simp [scanStep]
    have h2 : scanStep ds (some '"', some '}' :: x :: st) '"' = some (some '}', x :: st) := by simp [scanStep]
    simp only [scan, h1]
    rw [scan_append, iha (Or.inr rfl) (some '}') (x :: st)]
    simp only [Option.bind_some, scan, h2]
    exact ihb (Or.inl rfl) x st

theorem scan_tok (ds : List Char) (hb : ds.contains '{' = false) (hq : ds.contains '"' = false) {t : Str} (h : Tok ds t) :
    scan ds t (none, []) = some (none, []) := by
  have hb' : '{' ∉ ds := by simpa using hb
  have hq' : '"' ∉ ds := by simpa using hq
  induction h with
  | nil => rfl
  | plain c t h1 h2 h3 h4 _ ih =>
    have h1' : c ∉ ds := by simpa using h1
    have : scanStep ds (none, []) c = some (none, []) := by simp [scanStep, h1', h2, h3, h4]
    simp only [scan, this]; exact ih
  | brace a b ha _ ih =>
    have h1 : scanStep ds (none, []) '{' = some (some '}', [none]) := by simp [scanStep, hb']
    have h2 : scanStep ds (some '}', [none]) '}' = some (none, []) := by simp [scanStep]
    simp only [scan, h1]
    rw [scan_append, scan_bal ds ha (Or.inl rfl) none []]
    simp only [Option.bind_some, scan, h2]; exact ih
  | quote a b ha _ ih =>
    have h1 : scanStep ds (none, []) '"' = some (some '"', [none]) := by simp [scanStep, hq']
    have h2 : scanStep ds (some '"', [none]) '"' = some (none, []) := by simp [scanStep]
    simp only [scan, h1]
    rw [scan_append, scan_bal ds ha (Or.inr rfl) none []]
    simp only [Option.bind_some, scan, h2]; exact ih

/-- **nested_atomic.**  Every non-empty `Tok` -- plain characters and arbitrarily nested `{…}` / `"…"`
    groups with delimiters inside -- is one token for `split`; with `split_join`: a line of such tokens
    tokenises back to them. -/
theorem nested_atomic (ds : List Char) (hb : ds.contains '{' = false) (hq : ds.contains '"' = false) (t : Str)
    (hne : t ≠ []) (h : Tok ds t) : atomic ds t = true := by
  unfold atomic
  cases t with
  | nil => exact absurd rfl hne
  | cons a b => simp [scan_tok ds hb hq h]

/-- **split_join_nested.** -/
theorem split_join_nested (ds : List Char) (hb : ds.contains '{' = false) (hq : ds.contains '"' = false)
    (hsp : ds.contains ' ' = true) (ts : List Str) (h : ∀ t ∈ ts, t ≠ [] ∧ Tok ds t) :
    split ds (joinWith [' '] ts) = some ts :=
  split_join ds ' ' (by intro e; rw [e] at hsp; simp at hsp) hsp ts (fun t ht => nested_atomic ds hb hq t (h t ht).1 (h t ht).2)

theorem tok_of_bal (ds : List Char) {cl : Char} {t : Str} (h : Bal cl t) :
    cl = '}' → (∀ c ∈ t, ds.contains c = false) → Tok ds t := by
  induction h with
  | nil cl => intro _ _; exact Tok.nil
  | plain cl c t h1 h2 h3 _ ih =>
    intro hcl hd
    exact Tok.plain c t (hd c (by simp)) h1 h2 h3 (ih hcl (fun x hx => hd x (by simp [hx])))
  | rbraceInQuote t _ _ => intro hcl; cases hcl
  | brace cl a b ha _ _ ihb =>
    intro hcl hd
    exact Tok.brace a b ha (ihb hcl (fun x hx => hd x (by simp [hx])))
  | quote a b ha _ _ ihb =>
    intro hcl hd
    exact Tok.quote a b ha (ihb hcl (fun x hx => hd x (by simp [hx])))

/-- **okValue_of_nested.**  A syntactic sufficient condition for the hypothesis of `arg_format_roundtrip` /
    `print_parse_args` / `line_roundtrip_partial`: a non-empty value that does not start with a bracket, has no
    `=`, and whose braces and quotes nest properly (`Bal '}'`), whatever delimiters it contains. -/
theorem okValue_of_nested (ds : List Char) (hb : ds.contains '{' = false) (hq : ds.contains '"' = false) (v : Str)
    (hne : v ≠ []) (h1 : v.head? ≠ some '{') (h2 : v.head? ≠ some '"') (heq : ∀ c ∈ v, c ≠ '=')
    (hbal : Bal '}' v) : okValue ds v = true := by
  have heq' : ∀ c ∈ v, ['='].contains c = false := by intro c hc; simp [heq c hc]
  have hne' : v.isEmpty = false := by cases v with | nil => exact absurd rfl hne | cons _ _ => rfl
  have hsplit : ∀ x : Str, atomic ['='] x = true → split ['='] x = some [x] := by
    intro x hx
    have := split_join ['='] '=' (by simp) (by simp) [x] (by simpa using hx)
    simpa [joinWith] using this
  have hscan : (if v.any ds.contains then decide (scan ds v (some '}', [none]) = some (some '}', [none]))
      else decide (scan ds v (none, []) = some (none, []))) = true := by
    by_cases hd : v.any ds.contains = true
    · simp only [hd, ↓reduceIte, decide_eq_true_eq]
      exact scan_bal ds hbal (Or.inl rfl) none []
    · simp only [hd, Bool.false_eq_true, ↓reduceIte, decide_eq_true_eq]
      apply scan_tok ds hb hq
      apply tok_of_bal ds hbal rfl
      intro c hc
      cases hcd : ds.contains c with
      | false => rfl
      | true => exact absurd (List.any_eq_true.mpr ⟨c, hc, hcd⟩) hd
  have hnamed : decide (split ['='] (argFormat ds v) = some [argFormat ds v]) = true := by
    simp only [decide_eq_true_eq]
    apply hsplit
    unfold argFormat
    have : (v.head? == some '{') = false := by simpa using h1
    simp only [beq_iff_eq, h1, ↓reduceIte]
    split
    · exact nested_atomic ['='] (by decide) (by decide) _ (by simp) (Tok.brace v [] hbal Tok.nil)
    · exact nested_atomic ['='] (by decide) (by decide) v hne (tok_of_bal ['='] hbal rfl heq')
  unfold okValue
  simp only [hne', Bool.not_false, Bool.true_and, Bool.and_eq_true, bne_iff_ne, ne_eq, hscan, hnamed, and_true]
  exact ⟨h1, h2⟩

/-- **arg_format_roundtrip_nested.**  Values with nested braces (`a{b{c}}d`), quoted strings and delimiters
    inside brackets are printed as one token and read back unchanged. -/
theorem arg_format_roundtrip_nested (ds : List Char) (hb : ds.contains '{' = false) (hq : ds.contains '"' = false)
    (v : Str) (hne : v ≠ []) (h1 : v.head? ≠ some '{') (h2 : v.head? ≠ some '"') (heq : ∀ c ∈ v, c ≠ '=')
    (hbal : Bal '}' v) :
    unquote (argFormat ds v) = v ∧ atomic ds (argFormat ds v) = true :=
  arg_format_roundtrip ds hb v (okValue_of_nested ds hb hq v hne h1 h2 heq hbal)

/-- non-vacuity: `a{b, {c}} "p q"` is balanced -/
example : Bal '}' "a{b, {c}} \"p q\"".toList :=
  Bal.plain _ 'a' _ (by decide) (by decide) (by decide)
    (Bal.brace _ "b, {c}".toList " \"p q\"".toList
      (Bal.plain _ 'b' _ (by decide) (by decide) (by decide) (Bal.plain _ ',' _ (by decide) (by decide) (by decide)
        (Bal.plain _ ' ' _ (by decide) (by decide) (by decide) (Bal.brace _ ['c'] []
          (Bal.plain _ 'c' _ (by decide) (by decide) (by decide) (Bal.nil _)) (Bal.nil _)))))
      (Bal.plain _ ' ' _ (by decide) (by decide) (by decide) (Bal.quote "p q".toList []
        (Bal.plain _ 'p' _ (by decide) (by decide) (by decide) (Bal.plain _ ' ' _ (by decide) (by decide) (by decide)
          (Bal.plain _ 'q' _ (by decide) (by decide) (by decide) (Bal.nil _)))) (Bal.nil _))))

example : okValue Gen.Grammar.delimiters "a{b, {c}} \"p q\"".toList = true := by decide

end Lcapy.C06
