/-
  PROPERTY C19 (round 3) -- the synthesis forms END TO END from `Z = N/D`, their acceptance conditions, the entry
  points `network` / `transform`.

  Model: `Lcapy/Model/PolyFoster.lean` (on top of Model/PolySynth.lean, Model/Ratfun.lean, Model/Poly.lean).
  What Lcapy asks SymPy's root finder for is an input, CHECKED inside the model (`rootsCheck`, `distinctB`): a
  wrong table gives `.badTable`, never a network.  `none`/`.raises`/`.err _` = Lcapy raises.

  Guards.  Lean's field division is total; every statement about an impedance carries the explicit hypotheses
  `x ≠ 0`, `N(x) ≠ 0`, `D(x) ≠ 0` (the evaluation point is neither a pole nor a zero, nor the pole of `1/(sC)`),
  so nothing holds "because of" `1/0 = 0`.
  Only property theorems live here; helper lemmas are in Proofs/PolyFoster.lean, Proofs/PolyBridge.lean.
-/
import Lcapy.Props.C19
import Lcapy.Proofs.PolyFoster
import Lcapy.Proofs.PolyBridge
namespace Lcapy.C19
open Lcapy Lcapy.Poly Lcapy.Ratfun Lcapy.Synth
variable {K : Type} [Field K] [DecidableEq K]
set_option linter.unusedSimpArgs false
set_option linter.unusedVariables false
set_option linter.unusedSectionVars false

/-! ## 1. Foster forms from `N/D` (any number of poles, any multiplicities, any pairing predicate) -/

/-- `Ratfun.as_QRPO` as modelled (`Q, M = div(N, D)`; residues by peeling; zero residues pruned) is a partial-fraction
    expansion of `N/D`: `N/D = Q + Σ r/(x − p)^o` at every point that is not a pole. -/
theorem partfrac_from_roots (N D : List K) (poles : List (K × Nat)) (Q : List K) (ts : List (K × K × Nat)) (x : K)
    (h : pfData N D poles = some (Q, ts)) (hD : Poly.eval D x ≠ 0) :
    Poly.eval N x / Poly.eval D x = Poly.eval Q x + pfValue ts x := pfData_sound N D poles Q ts x h hD
example : pfData ([2, 1] : List ℚ) [1, 2, 1] [(-1, 2)] = some ([0, 0], [(1, -1, 2), (1, -1, 1)]) := by decide +kernel

/-- `as_QRF(combine_conjugates=True)`: merging conjugate terms (whatever the pairing predicate decides) keeps the sum -/
theorem combine_preserves (isConj : K → K → Bool) (ts : List (K × K × Nat)) (x : K)
    (hx : ∀ t ∈ ts, x - t.2.1 ≠ 0) : secsValue (combine isConj ts.length ts) x = pfValue ts x :=
  combine_value isConj ts.length ts x (le_refl _) hx

/-- **fosterI_realises_ratfun**: from `N/D` and a checked pole table to the series connection of sections -/
theorem fosterI_realises_ratfun (isConj : K → K → Bool) (N D : List K) (poles : List (K × Nat)) (net : Net K) (x : K)
    (h : fosterI isConj N D poles = .ok net) (hx : x ≠ 0) (hD : Poly.eval D x ≠ 0) :
    net.Z x = Poly.eval N x / Poly.eval D x := fosterI_sound isConj N D poles net x h hx hD
example : (fosterI (fun _ _ => false) ([3, 1] : List ℚ) [2, 3, 1] [(-1, 1), (-2, 1)]).isOk = true := by decide +kernel

/-- **fosterII_realises_ratfun**: sections of the admittance `D/N` in parallel (`zeros` = root table of `N`) -/
theorem fosterII_realises_ratfun (isConj : K → K → Bool) (N D : List K) (zeros : List (K × Nat)) (net : Net K) (x : K)
    (h : fosterII isConj N D zeros = .ok net) (hx : x ≠ 0) (hN : Poly.eval N x ≠ 0) (hD : Poly.eval D x ≠ 0) :
    net.Z x = Poly.eval N x / Poly.eval D x := fosterII_sound isConj N D zeros net x h hx hN
example : (fosterII (fun _ _ => false) ([2, 1] : List ℚ) [1, 2, 1] [(-2, 1)]).isOk = true := by decide +kernel
/-- the repeated pole of `(s+2)/(s+1)²` has a non-zero residue of order 2: Foster I raises -/
example : (fosterI (fun _ _ => false) ([2, 1] : List ℚ) [1, 2, 1] [(-1, 2)]).isOk = false := by decide +kernel

/-- which terms a Foster I section exists for (`parallelRLC` accepts `1/term`): constants and `q·var`, simple poles,
    conjugate pairs with a numerator proportional to `var` -- nothing else -/
theorem secNetI_accepts_iff (sec : Sec K) :
    secNetI sec ≠ none ↔
      (∃ q, sec = .mono q 0 ∨ sec = .mono q 1) ∨ (∃ r p, sec = .single r p 1 ∧ r ≠ 0) ∨
      (∃ n1 a b, sec = .pair n1 0 a b ∧ n1 ≠ 0) := by
  cases sec with
  | mono q k =>
    match k with
    | 0 => simp [secNetI]
    | 1 => simp [secNetI]
    | k + 2 => simp [secNetI]
  | single r p o =>
    match o with
    | 0 => simp [secNetI]
    | 1 =>
      by_cases hr : r = 0
      · simp [secNetI, hr]
      · by_cases hp : p = 0 <;> simp [secNetI, hr, hp]
    | o + 2 => simp [secNetI]
  | pair n1 n0 a b =>
    by_cases h0 : n0 = 0
    · by_cases h1 : n1 = 0
      · simp [secNetI, h0, h1]
      · subst h0
        simp only [secNetI, h1, ne_eq, not_false_eq_true, decide_true, Bool.and_true, beq_self_eq_true,
          if_true]
        constructor
        · intro _; exact Or.inr (Or.inr ⟨n1, a, b, rfl, h1⟩)
        · intro _
          by_cases ha : a = 0 <;> by_cases hb : b = 0 <;> simp [ha, hb, parO]
    · simp [secNetI, h0]

/-- Foster I returns a network exactly when the table is accepted, there is at least one term and every term has a section;
    in particular a repeated pole with a non-zero higher-order residue, a quotient of degree ≥ 2 and a conjugate pair with
    a constant in the numerator are all REJECTED (an error, never a different network) -/
theorem fosterI_accepts_iff (isConj : K → K → Bool) (N D : List K) (poles : List (K × Nat)) :
    (∃ net, fosterI isConj N D poles = .ok net) ↔
      ∃ secs, fosterSecs isConj N D poles = some secs ∧ secs ≠ [] ∧ ∀ s ∈ secs, secNetI s ≠ none := by
  unfold fosterI
  cases hs : fosterSecs isConj N D poles with
  | none => simp
  | some secs =>
    simp only [Option.some.injEq, exists_eq_left']
    constructor
    · rintro ⟨net, h⟩
      cases hm : mapOpt secNetI secs with
      | none => simp [hm] at h
      | some nets =>
        simp only [hm] at h
        refine ⟨?_, fun s hsm => mapOpt_ne_none secNetI secs nets hm s hsm⟩
        rintro rfl
        simp only [mapOpt, Option.some.injEq] at hm
        subst hm
        simp [serAll] at h
    · rintro ⟨hne, hall⟩
      obtain ⟨nets, hm, hlen⟩ := mapOpt_of_all secNetI secs hall
      simp only [hm]
      cases nets with
      | nil => exact absurd (List.length_eq_zero_iff.1 (by simpa using hlen.symm)) hne
      | cons n rest =>
        cases hr : serAll rest with
        | none => exact ⟨n, by simp [serAll, hr, serO]⟩
        | some m => exact ⟨.ser n m, by simp [serAll, hr, serO]⟩

/-! ## 2. Pattern forms decided from `N/D`: `accepts_iff`, `realises`, `rejects` -/

/-- soundness of the dictionary in every field: `collOf` only reports a shape that `N/D` has -/
theorem coll_sound (N D : List K) (hD : lc D ≠ 0) (h : (collOf N D).other = false) :
    IsShape N D ((collOf N D).cm.getD 0) ((collOf N D).c0.getD 0) ((collOf N D).cp.getD 0) := collOf_shape N D hD h

/-- completeness over an infinite field: if `N/D = cm/var + c0 + cp·var` then `collOf` reports exactly these
    coefficients (absent when zero) -/
theorem coll_complete [Infinite K] (N D : List K) (cm c0 cp : K) (hD : lc D ≠ 0) (h : IsShape N D cm c0 cp) :
    collOf N D = ⟨nz c0, nz cp, nz cm, false⟩ := collOf_complete N D cm c0 cp hD h
example : ((collOf ([3, 5, 2] : List ℚ) [0, 1, 1]).c0, (collOf ([3, 5, 2] : List ℚ) [0, 1, 1]).cp,
    (collOf ([3, 5, 2] : List ℚ) [0, 1, 1]).cm, (collOf ([3, 5, 2] : List ℚ) [0, 1, 1]).other) = (some 2, none, some 3, false) := by
  decide +kernel

/-- the dictionary `collOf` builds never contains a zero coefficient (the guard `hnz` of `series_forms_realise` /
    `parallel_forms_realise` holds for it, as it does for SymPy's `collect`) -/
theorem collOf_entries_nonzero (N D : List K) : (collOf N D).EntriesNonzero := by
  unfold collOf Coll.EntriesNonzero
  simp only
  split
  · refine ⟨fun v h => ?_, fun v h => ?_, fun v h => ?_⟩ <;>
    · simp only [nz] at h
      split at h
      · cases h
      · rename_i hne; simp only [Option.some.injEq] at h; subst h; exact hne
  · simp

/-- **accepts_iff** (series forms, dictionary of `N/D`; the parallel forms read the dictionary of `D/N`, so the same
    statements hold for them with `N` and `D` exchanged -- `accepts_iff_parallel`):
    a form accepts `N/D` iff `N/D` IS `cm/var + c0 + cp·var` with the terms the form has no element for equal to zero. -/
theorem accepts_iff [Infinite K] (N D : List K) (hD : lc D ≠ 0) :
    (seriesRL (collOf N D) ≠ none ↔ ∃ c0 cp, IsShape N D 0 c0 cp) ∧
    (seriesRC (collOf N D) ≠ none ↔ ∃ cm c0, IsShape N D cm c0 0) ∧
    (seriesGC (collOf N D) ≠ none ↔ ∃ cm c0, IsShape N D cm c0 0) ∧
    (seriesLC (collOf N D) ≠ none ↔ ∃ cm cp, IsShape N D cm 0 cp) ∧
    (seriesRLC (collOf N D) ≠ none ↔ ∃ cm c0 cp, IsShape N D cm c0 cp) := by
  have key : ∀ cm c0 cp, IsShape N D cm c0 cp → collOf N D = ⟨nz c0, nz cp, nz cm, false⟩ :=
    fun cm c0 cp h => collOf_complete N D cm c0 cp hD h
  have back : (collOf N D).other = false →
      IsShape N D ((collOf N D).cm.getD 0) ((collOf N D).c0.getD 0) ((collOf N D).cp.getD 0) := collOf_shape N D hD
  rw [seriesRL_accepts, seriesRC_accepts, seriesGC_accepts, seriesLC_accepts, seriesRLC_accepts]
  refine ⟨⟨fun h => ?_, ?_⟩, ⟨fun h => ?_, ?_⟩, ⟨fun h => ?_, ?_⟩, ⟨fun h => ?_, ?_⟩, ⟨fun h => ?_, ?_⟩⟩
  · have hb := back h.1; rw [h.2] at hb; exact ⟨_, _, hb⟩
  · rintro ⟨c0, cp, h⟩; rw [key _ _ _ h]; simp [nz]
  · have hb := back h.1; rw [h.2] at hb; exact ⟨_, _, hb⟩
  · rintro ⟨cm, c0, h⟩; rw [key _ _ _ h]; simp [nz]
  · have hb := back h.1; rw [h.2] at hb; exact ⟨_, _, hb⟩
  · rintro ⟨cm, c0, h⟩; rw [key _ _ _ h]; simp [nz]
  · have hb := back h.1; rw [h.2] at hb; exact ⟨_, _, hb⟩
  · rintro ⟨cm, cp, h⟩; rw [key _ _ _ h]; simp [nz]
  · exact ⟨_, _, _, back h⟩
  · rintro ⟨cm, c0, cp, h⟩; rw [key _ _ _ h]

/-- the parallel forms: dictionary of the ADMITTANCE `D/N` (apply with the roles of `N` and `D` exchanged) -/
theorem accepts_iff_parallel [Infinite K] (N D : List K) (hN : lc N ≠ 0) :
    (parallelRL (collOf D N) ≠ none ↔ ∃ cm c0, IsShape D N cm c0 0) ∧
    (parallelRC (collOf D N) ≠ none ↔ ∃ c0 cp, IsShape D N 0 c0 cp) ∧
    (parallelGC (collOf D N) ≠ none ↔ ∃ c0 cp, IsShape D N 0 c0 cp) ∧
    (parallelLC (collOf D N) ≠ none ↔ ∃ cm cp, IsShape D N cm 0 cp) ∧
    (parallelRLC (collOf D N) ≠ none ↔ ∃ cm c0 cp, IsShape D N cm c0 cp) := by
  have key : ∀ cm c0 cp, IsShape D N cm c0 cp → collOf D N = ⟨nz c0, nz cp, nz cm, false⟩ :=
    fun cm c0 cp h => collOf_complete D N cm c0 cp hN h
  have back : (collOf D N).other = false →
      IsShape D N ((collOf D N).cm.getD 0) ((collOf D N).c0.getD 0) ((collOf D N).cp.getD 0) := collOf_shape D N hN
  rw [parallelRL_accepts, parallelRC_accepts, parallelGC_accepts, parallelLC_accepts, parallelRLC_accepts]
  refine ⟨⟨fun h => ?_, ?_⟩, ⟨fun h => ?_, ?_⟩, ⟨fun h => ?_, ?_⟩, ⟨fun h => ?_, ?_⟩, ⟨fun h => ?_, ?_⟩⟩
  · have hb := back h.1; rw [h.2] at hb; exact ⟨_, _, hb⟩
  · rintro ⟨cm, c0, h⟩; rw [key _ _ _ h]; simp [nz]
  · have hb := back h.1; rw [h.2] at hb; exact ⟨_, _, hb⟩
  · rintro ⟨c0, cp, h⟩; rw [key _ _ _ h]; simp [nz]
  · have hb := back h.1; rw [h.2] at hb; exact ⟨_, _, hb⟩
  · rintro ⟨c0, cp, h⟩; rw [key _ _ _ h]; simp [nz]
  · have hb := back h.1; rw [h.2] at hb; exact ⟨_, _, hb⟩
  · rintro ⟨cm, cp, h⟩; rw [key _ _ _ h]; simp [nz]
  · exact ⟨_, _, _, back h⟩
  · rintro ⟨cm, c0, cp, h⟩; rw [key _ _ _ h]

/-- **realises**: a pattern form that returns a network for `N/D` returns one with impedance `N/D`
    (every rational function, every field) -/
theorem pattern_realises_ratfun (F : Form) (g : List K → List K → Option (Option (Net K))) (hg : patternOf F = some g)
    (N D : List K) (net : Net K) (x : K) (h : g N D = some (some net)) (hx : x ≠ 0)
    (hN : Poly.eval N x ≠ 0) (hD : Poly.eval D x ≠ 0) : net.Z x = Poly.eval N x / Poly.eval D x :=
  patternOf_value F g hg N D net x h hx hN hD
example : ((seriesForm seriesRC false ([3, 5, 2] : List ℚ) [0, 1, 1]).map (·.isSome)) = some true := by decide +kernel

/-- `RLC` = `seriesRLC`, else `parallelRLC` -/
theorem rlc_realises_ratfun (N D : List K) (net : Net K) (x : K) (h : rlcForm N D = some (some net)) (hx : x ≠ 0)
    (hN : Poly.eval N x ≠ 0) (hD : Poly.eval D x ≠ 0) : net.Z x = Poly.eval N x / Poly.eval D x :=
  rlcForm_value N D net x h hx hN hD

/-- **rejects**: no pattern form returns a network for an `N/D` that is not of the shape `cm/var + c0 + cp·var`
    (resp. whose reciprocal is not): it raises.  Holds in every field. -/
theorem pattern_rejects (N D : List K) (hD : lc D ≠ 0) (h : ¬ ∃ cm c0 cp, IsShape N D cm c0 cp) :
    seriesRL (collOf N D) = none ∧ seriesRC (collOf N D) = none ∧ seriesGC (collOf N D) = none ∧
    seriesLC (collOf N D) = none ∧ seriesRLC (collOf N D) = none := by
  have ho : (collOf N D).other = true := by
    by_contra hne
    have hf : (collOf N D).other = false := by simpa using hne
    exact h ⟨_, _, _, collOf_shape N D hD hf⟩
  have := reject_other (collOf N D) ho
  exact ⟨this.1, this.2.1, this.2.2.1, this.2.2.2.1, this.2.2.2.2.1⟩

/-! ## 3. `network(lexpr, form)` and `Network.transform(form)` -/

/-- an expression that is not an impedance is refused whatever the form (an admittance handed to
    `synthesis.network` is NOT silently synthesised as if it were an impedance) -/
theorem network_not_impedance (isConj : K → K → Bool) (kind : Kind) (form : String) (N D : List K)
    (poles zeros : List (K × Nat)) (h : kind ≠ .impedance) :
    network isConj kind form N D poles zeros = .err .notImpedance := by
  simp [network, h]

/-- an unknown form name is an error -/
theorem network_unknown_form (isConj : K → K → Bool) (form : String) (N D : List K)
    (poles zeros : List (K × Nat)) (h : Form.ofString form = none) :
    network isConj .impedance form N D poles zeros = .err .unknownForm := by
  simp [network, h]

/-- the continued fraction `Expr.continued_fraction_coeffs()` builds -- including the leading `0` it inserts when
    `deg D > deg N` -- has the value `N/D` -/
theorem cfCoeffs_value (N D : List K) (cs : List (K × Nat)) (env : Env K) (h : cfCoeffs N D = .ok cs)
    (hdef : (if degree D > degree N then cfDefined ((trim N).length + (trim D).length + 1) D N env.x
             else cfDefined ((trim N).length + (trim D).length + 1) N D env.x) = true) :
    cfVal false env.x cs = Poly.eval N env.x / Poly.eval D env.x := by
  unfold cfCoeffs at h
  simp only at h
  split at h
  · rename_i hdeg
    simp only [hdeg, if_true] at hdef
    cases hr : cfRun ((trim N).length + (trim D).length + 1) D N with
    | ok cs' =>
      simp only [hr, CFRes.ok.injEq] at h
      subst h
      have hv := cf_value _ D N cs' env hr hdef
      rw [cfExpr_eq_cfVal] at hv
      have hne := cfRun_ne_nil _ D N cs' hr
      cases cs' with
      | nil => exact absurd rfl hne
      | cons c rest =>
        simp only [cfVal, monoVal, hv, npow]
        simp
    | negPower => simp [hr] at h
    | fuelOut => simp [hr] at h
  · rename_i hdeg
    simp only [hdeg, if_false] at hdef
    rw [← cfExpr_eq_cfVal]
    exact cf_value _ N D cs env h hdef

/-- side conditions of the Cauer ladders at the evaluation point (no intermediate immittance vanishes); `True` for
    the other forms -/
def CauerSide (form : String) (N D : List K) (x : K) : Prop :=
  match Form.ofString form with
  | some .cauerI =>
    (if degree D > degree N then cfDefined ((trim N).length + (trim D).length + 1) D N x
       else cfDefined ((trim N).length + (trim D).length + 1) N D x) = true ∧
    ∀ cs, cfCoeffs N D = .ok cs → LadderDefined false x cs
  | some .cauerII =>
    N ≠ [] ∧
    cfDefinedSwap (2 * (max D.length N.length + max D.length N.length) + 3)
      (revPad D (max D.length N.length)) (revPad N (max D.length N.length)) (1 / x) = true ∧
    ∀ cs, cfiCoeffs D N = .ok cs → LadderDefined true x cs
  | _ => True

/-- **network_realises**: whatever the form (default, Cauer I/II, Foster I/II, the ten patterns, RLC), a network
    returned by `network(N/D, form)` has impedance `N/D` -/
theorem network_realises (isConj : K → K → Bool) (kind : Kind) (form : String) (N D : List K)
    (poles zeros : List (K × Nat)) (net : Net K) (x : K)
    (h : network isConj kind form N D poles zeros = .ok net) (hx : x ≠ 0)
    (hN : Poly.eval N x ≠ 0) (hD : Poly.eval D x ≠ 0) (hside : CauerSide form N D x) :
    net.Z x = Poly.eval N x / Poly.eval D x := by
  unfold network at h
  split at h
  · simp at h
  cases hf : Form.ofString form with
  | none => simp [hf] at h
  | some F =>
    simp only [hf] at h
    unfold CauerSide at hside
    simp only [hf] at hside
    cases F with
    | cauerI =>
      simp only at h hside
      cases hc : cfCoeffs N D with
      | ok cs =>
        simp only [hc] at h
        cases hl : cauerI true cs with
        | none => simp [hl, ofOO] at h
        | some o =>
          cases o with
          | none => simp [hl, ofOO] at h
          | some n =>
            simp only [hl, ofOO, NRes.ok.injEq] at h
            subst h
            rw [cauerI_realises x cs n hl (hside.2 cs hc)]
            exact cfCoeffs_value N D cs ⟨x, fun _ => 0, 0⟩ hc hside.1
      | negPower => simp [hc] at h
      | fuelOut => simp [hc] at h
    | cauerII =>
      simp only at h hside
      cases hc : cfiCoeffs D N with
      | ok cs =>
        simp only [hc] at h
        cases hl : cauerII true true cs with
        | none => simp [hl, ofOO] at h
        | some o =>
          cases o with
          | none => simp [hl, ofOO] at h
          | some n =>
            simp only [hl, ofOO, NRes.ok.injEq] at h
            subst h
            by_cases hz : n.Z x = 0
            · -- the ladder's admittance is `cfVal`; a vanishing impedance would make `D/N` vanish
              exfalso
              have hy := (cauerII_value x cs true true (some n) hl (by
                rintro rfl; simp [cauerII] at hl)).1 rfl
              simp only [YparO, hz, div_zero] at hy
              rw [cfi_value D N cs x hx hc hside.1 hside.2.1] at hy
              exact (div_ne_zero hD hN) hy.symm
            · exact cauerII_realises_ratfun N D cs n x hx hc hside.1 hside.2.1 hl (hside.2.2 cs hc) hz
      | negPower => simp [hc] at h
      | fuelOut => simp [hc] at h
    | fosterI =>
      simp only at h
      cases hr : fosterI isConj N D poles with
      | ok n => simp only [hr, ofF, NRes.ok.injEq] at h; subst h; exact fosterI_sound isConj N D poles n x hr hx hD
      | raises => simp [hr, ofF] at h
      | badTable => simp [hr, ofF] at h
    | fosterII =>
      simp only at h
      cases hr : fosterII isConj N D zeros with
      | ok n => simp only [hr, ofF, NRes.ok.injEq] at h; subst h; exact fosterII_sound isConj N D zeros n x hr hx hN
      | raises => simp [hr, ofF] at h
      | badTable => simp [hr, ofF] at h
    | RLC =>
      simp only at h
      cases hr : rlcForm N D with
      | none => simp [hr, ofOO] at h
      | some o =>
        cases o with
        | none => simp [hr, ofOO] at h
        | some n => simp only [hr, ofOO, NRes.ok.injEq] at h; subst h; exact rlcForm_value N D n x hr hx hN hD
    | seriesRL =>
      simp only [patternOf] at h
      exact patternOf_value .seriesRL _ rfl N D net x (ofOO_ok _ net h) hx hN hD
    | seriesRC =>
      simp only [patternOf] at h
      exact patternOf_value .seriesRC _ rfl N D net x (ofOO_ok _ net h) hx hN hD
    | seriesGC =>
      simp only [patternOf] at h
      exact patternOf_value .seriesGC _ rfl N D net x (ofOO_ok _ net h) hx hN hD
    | seriesLC =>
      simp only [patternOf] at h
      exact patternOf_value .seriesLC _ rfl N D net x (ofOO_ok _ net h) hx hN hD
    | seriesRLC =>
      simp only [patternOf] at h
      exact patternOf_value .seriesRLC _ rfl N D net x (ofOO_ok _ net h) hx hN hD
    | parallelRL =>
      simp only [patternOf] at h
      exact patternOf_value .parallelRL _ rfl N D net x (ofOO_ok _ net h) hx hN hD
    | parallelRC =>
      simp only [patternOf] at h
      exact patternOf_value .parallelRC _ rfl N D net x (ofOO_ok _ net h) hx hN hD
    | parallelGC =>
      simp only [patternOf] at h
      exact patternOf_value .parallelGC _ rfl N D net x (ofOO_ok _ net h) hx hN hD
    | parallelLC =>
      simp only [patternOf] at h
      exact patternOf_value .parallelLC _ rfl N D net x (ofOO_ok _ net h) hx hN hD
    | parallelRLC =>
      simp only [patternOf] at h
      exact patternOf_value .parallelRLC _ rfl N D net x (ofOO_ok _ net h) hx hN hD

/-- **transform_preserves_Z**: `net.transform(form)` is `network(net.Z, form)`; for EVERY form a returned network has
    the impedance of the network it was made from -/
theorem transform_preserves_Z (isConj : K → K → Bool) (form : String) (net net' : Net K)
    (poles zeros : List (K × Nat)) (x : K)
    (h : transform isConj form net poles zeros = .ok net') (hx : x ≠ 0) (hdef : net.DefinedAt x)
    (hz : net.Z x ≠ 0)
    (hside : CauerSide form (Poly.cancel net.ratZ.1 net.ratZ.2).1 (Poly.cancel net.ratZ.1 net.ratZ.2).2 x) :
    net'.Z x = net.Z x := by
  obtain ⟨hD, hv⟩ := ratZ_value net x hdef
  obtain ⟨hc, hcD⟩ := cancel_value net.ratZ.1 net.ratZ.2 x hD
  have hcN : Poly.eval (Poly.cancel net.ratZ.1 net.ratZ.2).1 x ≠ 0 := by
    intro h0
    apply hz
    rw [hv, ← hc, h0, zero_div]
  unfold transform at h
  rw [network_realises isConj .impedance form _ _ poles zeros net' x h hx hcN hcD hside, hc, hv]
example : Net.DefinedAt (2 : ℚ) (.ser (.R 2) (.par (.R 3) (.C (1 / 3)))) := by
  simp [Net.DefinedAt, Net.Z]; norm_num

end Lcapy.C19
