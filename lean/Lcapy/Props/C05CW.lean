/-
  PROPERTY C05, round 3 -- the COMPONENTWISE rewrites (s_model, ac_model, noise_model with the
  noise sources killed, subs, replace_switches) preserve every retained voltage and current,
  for netlists of ANY size.

  Model: Lcapy/Model/RewriteCW.lean (`sModelCpt`, `noisyKilledCpt`, `Cpt.mapVal`, `replaceSwitches`).
  Spec : `Laws` of Spec/Laws.lean; `Simulates` of Spec/PortRel.lean.

  1. `componentwise_congruence`: per-component simulations whose private unknowns (dummy nodes, new or
     vanishing branch currents) are pairwise apart compose to a simulation of the whole netlist
     (induction over the component list) -- the vehicle for every componentwise rewrite.
  2. `s_model_equiv`: Laws .ivp s cs x  ⇄  Laws .lap s (sModel cs) y with y = x on every unknown that
     exists on both sides; `s_model_preserves` adds uniqueness (C01); `ac_model_equiv` is the same at
     s = jω.
  3. `noise_model_killed_equiv`: every R split into NR + a zero-volt source is the same circuit.
  4. `subs_commutes`: solving then substituting = substituting then solving, for any value map that
     respects the arithmetic (guarded division).
  5. `replace_switches_noevent`: away from every switching instant the replacement just before and at
     `t` is the same netlist; `replace_switches_const`: it is constant between two consecutive events.
  Only property theorems live here; helper lemmas are in Lcapy/Proofs/RewriteCW.lean.
-/
import Lcapy.Proofs.RewriteCWSteps
namespace Lcapy.C05
open Lcapy.MNA Lcapy.Rewrite Ix
variable {K : Type} [Field K]
set_option linter.unusedSectionVars false

/-! ## 1. componentwise congruence -/

/-- **componentwise_congruence**: a netlist rewritten component by component (each step a simulation
    on everything but its private unknowns, no step reading another step's private unknowns) has,
    for every solution of the original, a solution that agrees on every non-private unknown. -/
theorem componentwise_congruence (kind : Kind) (s : K) (ps : List (Rw K))
    (h1 : ∀ p ∈ ps, Simulates kind s (AllBut' p.hid) p.orig p.rep)
    (h2 : ps.Pairwise (fun p q => p.Sep q ∧ q.Sep p)) (x : Ix → K)
    (hx : Laws kind s (ps.flatMap (·.orig)) x) :
    ∃ y, (∀ i, i ∉ ps.flatMap (·.hid) → y i = x i) ∧ Laws kind s (ps.flatMap (·.rep)) y := by
  have hsim := componentwise_simulates kind s ps h1 h2
  obtain ⟨y, hy, hl⟩ := subcircuit_congruence kind s _ _ _ [] hsim (by intro c hc; cases hc) x (by simpa using hx)
  exact ⟨y, hy, by simpa using hl⟩

/-! ## 2. s_model / ac_model

  `Alloc` (Proofs/RewriteCWSteps.lean) = a component with the dummy node `d` and the branch index `b` the
  rewrite allots to it; `Alloc.OK s` = the allotment is fresh for the component, inductors are uncoupled
  with s·L ≠ 0; `Alloc.Apart p q` = nothing of step q touches the dummy node / new branch / inductor
  branch of step p.  `sModel s ps` = the concatenation of `sModelCpt`; `sHidden ps` = the unknowns that
  exist on one side only. -/

variable [DecidableEq K]

/-- **s_model_equiv** (`_sep`: with the exact separation condition -- no step reads an unknown that is PRIVATE to
    another step, `Rw.Sep`): for a netlist of ANY size whose components get pairwise fresh dummy nodes and
    source branches, at every point `s ≠ 0`: every solution of the initial-value problem extends to a
    solution of the s-domain model analysed WITHOUT initial conditions (they now sit in the series
    sources), and every solution of the s-domain model restricts to a solution of the initial-value
    problem.  The two solutions agree on every unknown that is not private to a step (all original
    nodes, all source / controlled-source / capacitor-free branch currents). -/
theorem s_model_equiv_sep (s : K) (hs : s ≠ 0) (ps : List (Alloc K)) (hok : ∀ a ∈ ps, a.OK s)
    (hap : ps.Pairwise (fun p q => (p.sRw s).Sep (q.sRw s) ∧ (q.sRw s).Sep (p.sRw s))) :
    (∀ x, Laws .ivp s (ps.map (·.c)) x → ∃ y, (∀ i, i ∉ sHidden ps → y i = x i) ∧ Laws .lap s (sModel s ps) y) ∧
    (∀ y, Laws .lap s (sModel s ps) y → ∃ x, (∀ i, i ∉ sHidden ps → x i = y i) ∧ Laws .ivp s (ps.map (·.c)) x) := by
  have hkf := sModel_kindFree s ps hok
  have e1 : (ps.map (Alloc.sRw s)).flatMap (·.orig) = ps.map (·.c) := by
    simp [List.flatMap_map, Alloc.sRw, flatMap_single]
  have e2 : (ps.map (Alloc.sRw s)).flatMap (·.rep) = sModel s ps := by simp [List.flatMap_map, Alloc.sRw, sModel]
  have e3 : (ps.map (Alloc.sRw s)).flatMap (·.hid) = sHidden ps := by simp [List.flatMap_map, Alloc.sRw, sHidden]
  have f1 : (ps.map (Alloc.sRwBack s)).flatMap (·.rep) = ps.map (·.c) := by
    simp [List.flatMap_map, Alloc.sRwBack, flatMap_single]
  have f2 : (ps.map (Alloc.sRwBack s)).flatMap (·.orig) = sModel s ps := by simp [List.flatMap_map, Alloc.sRwBack, sModel]
  have f3 : (ps.map (Alloc.sRwBack s)).flatMap (·.hid) = sHidden ps := by simp [List.flatMap_map, Alloc.sRwBack, sHidden]
  constructor
  · intro x hx
    have := componentwise_congruence .ivp s (ps.map (Alloc.sRw s))
      (by intro p hp; obtain ⟨a, ha, rfl⟩ := List.mem_map.mp hp; exact (sModel_step s hs a (hok a ha)).1)
      (by rw [List.pairwise_map]; exact hap)
      x (by rw [e1]; exact hx)
    rw [e2, e3] at this
    obtain ⟨y, hy, hl⟩ := this
    exact ⟨y, hy, (Laws_kindFree .ivp .lap s _ hkf y).mp hl⟩
  · intro y hy
    have := componentwise_congruence .ivp s (ps.map (Alloc.sRwBack s))
      (by intro p hp; obtain ⟨a, ha, rfl⟩ := List.mem_map.mp hp; exact (sModel_step s hs a (hok a ha)).2)
      (by rw [List.pairwise_map]; exact hap.imp (fun h => ⟨sep_back s _ _ h.1, sep_back s _ _ h.2⟩))
      y (by rw [f2]; exact (Laws_kindFree .ivp .lap s _ hkf y).mpr hy)
    rw [f1, f3] at this
    exact this

/-- the same under the coarser, easily checked freshness condition `Alloc.Apart` (every allotted dummy node and
    branch index -- used or not -- is untouched by every other step) -/
theorem s_model_equiv (s : K) (hs : s ≠ 0) (ps : List (Alloc K)) (hok : ∀ a ∈ ps, a.OK s)
    (hap : ps.Pairwise (fun p q => p.Apart q ∧ q.Apart p)) :
    (∀ x, Laws .ivp s (ps.map (·.c)) x → ∃ y, (∀ i, i ∉ sHidden ps → y i = x i) ∧ Laws .lap s (sModel s ps) y) ∧
    (∀ y, Laws .lap s (sModel s ps) y → ∃ x, (∀ i, i ∉ sHidden ps → x i = y i) ∧ Laws .ivp s (ps.map (·.c)) x) :=
  s_model_equiv_sep s hs ps hok (hap.imp (fun h => ⟨(apart_sep s _ _ h.1).1, (apart_sep s _ _ h.2).1⟩))

/-- **s_model_preserves** (the property for `s_model`): when the s-domain model is well formed and
    non-singular, ITS solution -- whatever solver produced it -- equals the solution of the
    original initial-value problem on every unknown the two circuits share. -/
theorem s_model_preserves (s : K) (hs : s ≠ 0) (ps : List (Alloc K)) (hok : ∀ a ∈ ps, a.OK s)
    (hap : ps.Pairwise (fun p q => p.Apart q ∧ q.Apart p))
    (hwf : C01.WF (sModel s ps)) (hns : C01.Nonsingular .lap s (sModel s ps))
    (x y : Ix → K) (hx : Laws .ivp s (ps.map (·.c)) x) (hy : Laws .lap s (sModel s ps) y) :
    ∀ i, i ∉ sHidden ps → C01.Unknown .lap s (sModel s ps) i → y i = x i := by
  obtain ⟨y', hy', hl'⟩ := (s_model_equiv s hs ps hok hap).1 x hx
  intro i hi hu
  rw [C01.laws_unique .lap s _ y y' hwf hns hy hl' i hu]
  exact hy' i hi

/-- non-vacuity of `s_model_preserves`: `V1 1 0 {6/s}; C1 1 0 2 5` at s = 2 (dummy node 12, new branch 12):
    every hypothesis holds -- the allotment is fresh, the s-domain model `V1; ZC1 1 12; VC1 12 0` is well
    formed and non-singular, and the initial-value problem has the solution V(1) = 3, J(V1) = −2 -/
example :
    let ps : List (Alloc ℚ) := [⟨.V 1 0 0 3, 10, 10⟩, ⟨.Cap 1 0 2 (some 5), 12, 12⟩]
    (∀ a ∈ ps, a.OK (2 : ℚ)) ∧ ps.Pairwise (fun p q => p.Apart q ∧ q.Apart p) ∧
    C01.WF (sModel (2 : ℚ) ps) ∧ C01.Nonsingular .lap (2 : ℚ) (sModel 2 ps) ∧
    Laws .ivp (2 : ℚ) (ps.map (·.c)) (fun i => match i with | node 1 => 3 | br 0 => -2 | _ => 0) := by
  have hm : sModel (2 : ℚ) [⟨.V 1 0 0 3, 10, 10⟩, ⟨.Cap 1 0 2 (some 5), 12, 12⟩] =
      [.V 1 0 0 3, .Y 1 12 (1 / (1 / (2 * 2))), .V 12 0 12 (5 / 2)] := by simp [sModel, sModelCpt, icv]
  refine ⟨?_, ?_, ?_, ?_, ?_⟩
  · intro a ha
    simp only [List.mem_cons, List.mem_nil_iff, or_false] at ha
    rcases ha with rfl | rfl <;> simp [Alloc.OK, Alloc.Fresh, mentions]
  · simp [Alloc.Apart, Alloc.priv, Alloc.touch, mentions, indBr]
  · rw [hm]; simp [C01.WF, owned]
  · rw [hm]
    intro z hz i hi
    have h1 := hz (node 1) (by simp)
    have h2 := hz (node 12) (by simp)
    have h3 := hz (br 0) (by simp)
    have h4 := hz (br 12) (by simp)
    simp [stampAll, stamp, Stamp.append, branchPattern, admPattern, lhsSum, ground] at h1 h2 h3 h4
    obtain ⟨hi0, hi⟩ := hi
    simp [C01.unknowns, stampAll, stamp, Stamp.append, branchPattern, admPattern] at hi
    have e1 : z (node 1) = 0 := h3
    have e2 : z (node 12) = 0 := h4
    have e3 : z (br 0) = 0 := by rw [e1, e2] at h1; linarith
    have e4 : z (br 12) = 0 := by rw [e1, e2] at h2; linarith
    casesm* _ ∨ _ <;> subst_vars <;> first | assumption | exact absurd rfl hi0
  · constructor
    · intro k hk
      match k with
      | 0 => exact absurd rfl hk
      | 1 => norm_num [outflow, twoTerm, lsum, vd, volt, capCurrent]
      | (k + 2) => simp [outflow, twoTerm, lsum]
    · intro c hc p hp
      simp only [List.map_cons, List.map_nil, List.mem_cons, List.mem_nil_iff, or_false] at hc
      rcases hc with rfl | rfl <;> simp [laws] at hp
      subst hp; norm_num [vd, volt]

/-- **ac_model_equiv**: `ac_model` is `s_model` at s = jω (`j` any element with j² = −1) -/
theorem ac_model_equiv (j ω : K) (_hj : j * j = -1) (hω : j * ω ≠ 0) (ps : List (Alloc K)) (hok : ∀ a ∈ ps, a.OK (j * ω))
    (hap : ps.Pairwise (fun p q => p.Apart q ∧ q.Apart p)) :
    (∀ x, Laws .ivp (j * ω) (ps.map (·.c)) x →
      ∃ y, (∀ i, i ∉ sHidden ps → y i = x i) ∧ Laws .lap (j * ω) (sModel (j * ω) ps) y) ∧
    (∀ y, Laws .lap (j * ω) (sModel (j * ω) ps) y →
      ∃ x, (∀ i, i ∉ sHidden ps → x i = y i) ∧ Laws .ivp (j * ω) (ps.map (·.c)) x) :=
  s_model_equiv (j * ω) hω ps hok hap


/-- **ac_model_equiv_noic** (what `ac_model` is for): for a netlist WITHOUT initial conditions, phasor analysis -- the
    zero-state Laplace analysis at s = jω, `Kind.lap` -- of the netlist and of its `ac_model` have the same solutions
    on the shared unknowns (here `j * j = −1` places the point on the imaginary axis; with initial conditions present
    `ac_model` keeps their sources, which is `ac_model_equiv` above) -/
theorem ac_model_equiv_noic (j ω : K) (_hj : j * j = -1) (hω : j * ω ≠ 0) (ps : List (Alloc K)) (hok : ∀ a ∈ ps, a.OK (j * ω))
    (hap : ps.Pairwise (fun p q => p.Apart q ∧ q.Apart p)) (hnoic : ∀ a ∈ ps, a.c.noIC = true) :
    (∀ x, Laws .lap (j * ω) (ps.map (·.c)) x →
      ∃ y, (∀ i, i ∉ sHidden ps → y i = x i) ∧ Laws .lap (j * ω) (sModel (j * ω) ps) y) ∧
    (∀ y, Laws .lap (j * ω) (sModel (j * ω) ps) y →
      ∃ x, (∀ i, i ∉ sHidden ps → x i = y i) ∧ Laws .lap (j * ω) (ps.map (·.c)) x) := by
  have hn : ∀ c ∈ ps.map (·.c), c.noIC = true := by
    intro c hc; obtain ⟨a, ha, rfl⟩ := List.mem_map.mp hc; exact hnoic a ha
  have h := s_model_equiv (j * ω) hω ps hok hap
  constructor
  · intro x hx; exact h.1 x ((Laws_lap_ivp_noIC _ _ hn x).mp hx)
  · intro y hy
    obtain ⟨x, hx, hl⟩ := h.2 y hy
    exact ⟨x, hx, (Laws_lap_ivp_noIC _ _ hn x).mpr hl⟩

/-- non-vacuity of `s_model_equiv`: `V1 1 0 {6/s}; R1 1 2 3; C1 2 0 2 5; L1 2 3 4 7; R2 3 0 1` at s = 2 with
    dummy nodes 10.. and branches 10..: every hypothesis holds -/
example :
    let ps : List (Alloc ℚ) := [⟨.V 1 0 0 3, 10, 10⟩, ⟨.R 1 2 3, 11, 11⟩, ⟨.Cap 2 0 2 (some 5), 12, 12⟩,
                                ⟨.Ind 2 3 1 4 (some 7) [], 13, 13⟩, ⟨.R 3 0 1, 14, 14⟩]
    (∀ a ∈ ps, a.OK (2 : ℚ)) ∧ ps.Pairwise (fun p q => p.Apart q ∧ q.Apart p) ∧
    sModel (2 : ℚ) ps = [.V 1 0 0 3, .Y 1 2 (1 / 3), .Y 2 12 (1 / (1 / (2 * 2))), .V 12 0 12 (5 / 2),
                        .Y 2 13 (1 / (2 * 4)), .V 13 3 1 (-(4 * 7)), .Y 3 0 (1 / 1)] := by
  refine ⟨?_, ?_, ?_⟩
  · intro a ha
    simp only [List.mem_cons, List.mem_nil_iff, or_false] at ha
    rcases ha with rfl | rfl | rfl | rfl | rfl <;> simp [Alloc.OK, Alloc.Fresh, mentions]
  · simp [Alloc.Apart, Alloc.priv, Alloc.touch, mentions, indBr]
  · simp [sModel, sModelCpt, icv]

/-! ## 3. noise model with the noise sources killed -/

omit [DecidableEq K] in
/-- **noise_model_killed_equiv**: `noise_model()` splits every resistor into `NR` + a series noise
    source on a fresh node; with the noise sources killed (zero volts) the circuit has, in every
    analysis kind, the same solutions as the original on every shared unknown. -/
theorem noise_model_killed_equiv (kind : Kind) (s : K) (ps : List (Alloc K)) (hf : ∀ a ∈ ps, a.Fresh)
    (hap : ps.Pairwise (fun p q => p.Apart q ∧ q.Apart p)) :
    let new := ps.flatMap (fun a => noisyKilledCpt a.d a.b a.c)
    let hid := ps.flatMap (fun a => noisyHidden a.d a.b a.c)
    (∀ x, Laws kind s (ps.map (·.c)) x → ∃ y, (∀ i, i ∉ hid → y i = x i) ∧ Laws kind s new y) ∧
    (∀ y, Laws kind s new y → ∃ x, (∀ i, i ∉ hid → x i = y i) ∧ Laws kind s (ps.map (·.c)) x) := by
  intro new hid
  constructor
  · intro x hx
    have := componentwise_congruence kind s
      (ps.map (fun a => (⟨[a.c], noisyKilledCpt a.d a.b a.c, noisyHidden a.d a.b a.c⟩ : Rw K)))
      (by intro p hp; obtain ⟨a, ha, rfl⟩ := List.mem_map.mp hp; exact (noisy_step kind s a (hf a ha)).1)
      (by rw [List.pairwise_map]; exact hap.imp (fun h => ⟨(noisy_sep _ _ h.1).1, (noisy_sep _ _ h.2).1⟩))
      x (by simpa [List.flatMap_map, flatMap_single] using hx)
    simpa [List.flatMap_map, flatMap_single, new, hid] using this
  · intro y hy
    have := componentwise_congruence kind s
      (ps.map (fun a => (⟨noisyKilledCpt a.d a.b a.c, [a.c], noisyHidden a.d a.b a.c⟩ : Rw K)))
      (by intro p hp; obtain ⟨a, ha, rfl⟩ := List.mem_map.mp hp; exact (noisy_step kind s a (hf a ha)).2)
      (by rw [List.pairwise_map]; exact hap.imp (fun h => ⟨(noisy_sep _ _ h.1).2, (noisy_sep _ _ h.2).2⟩))
      y (by simpa [List.flatMap_map, flatMap_single] using hy)
    simpa [List.flatMap_map, flatMap_single, new, hid] using this


/-! ## 4. subs -/

section subs
variable {A : Type} [Add A] [Mul A] [Neg A] [Sub A] [Div A] [OfNat A 0] [OfNat A 1] [OfNat A 2]

omit [DecidableEq K] in
/-- **subs_commutes**: component values live in a symbolic domain `A` (expressions in parameters);
    `φ : A → K` substitutes and evaluates.  Solving symbolically and then substituting gives a solution
    of the substituted netlist (`Netlist.subs` = `Cpt.mapVal φ` on every component) -- for every netlist,
    every analysis kind, provided `φ` respects the arithmetic, division only where the substituted
    divisor (a resistance) is not zero. -/
theorem subs_commutes {φ : A → K} (h : ValHom φ) (kind : Kind) (s : A) (cs : List (Cpt A)) (x : Ix → A)
    (hc : ∀ c ∈ cs, c.divOK φ) (hx : Laws kind s cs x) :
    Laws kind (φ s) (cs.map (Cpt.mapVal φ)) (fun i => φ (x i)) := h.Laws kind s cs x hc hx

omit [DecidableEq K] in
/-- … and when the substituted netlist is well formed and non-singular, THE solution of the
    substituted netlist is the substituted symbolic solution (evaluating after substitution =
    substituting after evaluation), on every unknown of the netlist. -/
theorem subs_preserves {φ : A → K} (h : ValHom φ) (kind : Kind) (s : A) (cs : List (Cpt A)) (x : Ix → A)
    (hc : ∀ c ∈ cs, c.divOK φ) (hx : Laws kind s cs x)
    (hwf : C01.WF (cs.map (Cpt.mapVal φ))) (hns : C01.Nonsingular kind (φ s) (cs.map (Cpt.mapVal φ)))
    (y : Ix → K) (hy : Laws kind (φ s) (cs.map (Cpt.mapVal φ)) y) :
    ∀ i, C01.Unknown kind (φ s) (cs.map (Cpt.mapVal φ)) i → y i = φ (x i) :=
  C01.laws_unique kind (φ s) _ y _ hwf hns hy (subs_commutes h kind s cs x hc hx)

end subs

/-- non-vacuity: values that are FUNCTIONS of a parameter, `φ` = evaluation at a point, respects
    every operation (division pointwise, so unconditionally) -/
example (p0 : ℚ) : ValHom (K := ℚ) (fun f : ℚ → ℚ => f p0) :=
  ⟨rfl, rfl, fun _ _ => rfl, fun _ _ => rfl, fun _ => rfl, fun _ _ => rfl, fun _ _ _ => rfl⟩

/-- … applied to a symbolic circuit: `V1 1 0 6; R1 1 2 p; R2 2 0 2p` has V(2) = 4 and source current
    −2/p for every p; substituting p = 3 gives a solution of `V1 1 0 6; R1 1 2 3; R2 2 0 6` -/
example : Laws Kind.dc ((0 : ℚ → ℚ) 3) [Cpt.V 1 0 0 6, Cpt.R 1 2 3, Cpt.R 2 0 (2 * 3)]
    (fun i => (match i with | node 1 => (fun _ => 6) | node 2 => (fun _ => 4) | br 0 => (fun p => -2 / p) | _ => (fun _ => 0) : ℚ → ℚ) 3) := by
  have hφ : ValHom (K := ℚ) (fun f : ℚ → ℚ => f 3) :=
    ⟨rfl, rfl, fun _ _ => rfl, fun _ _ => rfl, fun _ => rfl, fun _ _ => rfl, fun _ _ _ => rfl⟩
  refine subs_commutes hφ Kind.dc (0 : ℚ → ℚ) [Cpt.V 1 0 0 (fun _ => 6), Cpt.R 1 2 (fun p => p), Cpt.R 2 0 (fun p => 2 * p)]
    (fun i => match i with | node 1 => (fun _ => 6) | node 2 => (fun _ => 4) | br 0 => (fun p => -2 / p) | _ => (fun _ => 0))
    (by intro c hc; simp only [List.mem_cons, List.mem_nil_iff, or_false] at hc
        rcases hc with rfl | rfl | rfl <;> simp [Cpt.divOK]) ?_
  constructor
  · intro k hk
    match k with
    | 0 => exact absurd rfl hk
    | 1 => funext p; simp [outflow, twoTerm, lsum, vd, volt]; ring
    | 2 => funext p; simp [outflow, twoTerm, lsum, vd, volt]; ring
    | (k + 3) => funext p; simp [outflow, twoTerm, lsum]
  · intro c hc q hq
    simp only [List.mem_cons, List.mem_nil_iff, or_false] at hc
    rcases hc with rfl | rfl | rfl <;> simp [laws] at hq
    subst hq; funext p; simp [vd, volt]

/-- non-vacuity of `subs_preserves`: the substituted netlist `V1 1 0 6; R1 1 2 3; R2 2 0 6` (p = 3) is well
    formed and non-singular at dc (its symbolic solution is the example above) -/
example :
    let φ : (ℚ → ℚ) → ℚ := fun f => f 3
    let cs : List (Cpt (ℚ → ℚ)) := [Cpt.V 1 0 0 (fun _ => 6), Cpt.R 1 2 (fun p => p), Cpt.R 2 0 (fun p => 2 * p)]
    (∀ c ∈ cs, c.divOK φ) ∧ C01.WF (cs.map (Cpt.mapVal φ)) ∧ C01.Nonsingular .dc (φ 0) (cs.map (Cpt.mapVal φ)) := by
  refine ⟨?_, ?_, ?_⟩
  · intro c hc; simp only [List.mem_cons, List.mem_nil_iff, or_false] at hc
    rcases hc with rfl | rfl | rfl <;> simp [Cpt.divOK]
  · simp [C01.WF, owned, Cpt.mapVal]
  · intro z hz i hi
    have h1 := hz (node 1) (by simp)
    have h2 := hz (node 2) (by simp)
    have h3 := hz (br 0) (by simp)
    simp [Cpt.mapVal, stampAll, stamp, Stamp.append, branchPattern, admPattern, lhsSum, ground] at h1 h2 h3
    obtain ⟨hi0, hi⟩ := hi
    simp [Cpt.mapVal, C01.unknowns, stampAll, stamp, Stamp.append, branchPattern, admPattern] at hi
    have e1 : z (node 1) = 0 := h3
    have e2 : z (node 2) = 0 := by rw [e1] at h2; linarith
    have e3 : z (br 0) = 0 := by rw [e1, e2] at h1; linarith
    casesm* _ ∨ _ <;> subst_vars <;> first | assumption | exact absurd rfl hi0

/-! ## 5. replace_switches

  `SW._replace_switch(t, before)`: `active = t > t_a` when `before` else `t ≥ t_a`.
  (Before the repair of finding C05-switch-before the `before` test was `t < t_a`, the negation of the
  other rule at every time; `replace_switches_noevent` was false for it.) -/

section switches
variable {T : Type} [LinearOrder T] [OfNat T 0]

/-- **replace_switches_const**: `replace_switches(t)` is constant between switching events: if
    every switch's activation time is on the same side of t1 and of t2, the two netlists are equal -/
theorem replace_switches_const (t1 t2 : T) (net : Net T)
    (hne : ∀ e ∈ net, (swKindOf e).isSome → (e.val.getD 0 ≤ t1 ↔ e.val.getD 0 ≤ t2)) :
    replaceSwitches t1 false net = replaceSwitches t2 false net := by
  simp only [replaceSwitches]
  apply List.map_congr_left
  intro e he
  cases hk : swKindOf e with
  | none => rfl
  | some k =>
    have hta := hne e he (by simp [hk])
    have : switchClosed k (e.val.getD 0) t1 false = switchClosed k (e.val.getD 0) t2 false := by
      simp only [switchClosed, Bool.false_eq_true, if_false, decide_eq_decide.mpr hta]
    simp only [this]

/-- **replace_switches_noevent**: at an instant that is not the switching time of any switch the
    circuit just before `t` is the circuit at `t`: `replace_switches_before(t) = replace_switches(t)` -/
theorem replace_switches_noevent (t : T) (net : Net T)
    (hne : ∀ e ∈ net, (swKindOf e).isSome → e.val.getD 0 ≠ t) :
    replaceSwitches t true net = replaceSwitches t false net := by
  simp only [replaceSwitches]
  apply List.map_congr_left
  intro e he
  cases hk : swKindOf e with
  | none => rfl
  | some k =>
    have hta := hne e he (by simp [hk])
    have hd : decide (e.val.getD 0 < t) = decide (e.val.getD 0 ≤ t) :=
      decide_eq_decide.mpr ⟨le_of_lt, fun h => lt_of_le_of_ne h hta⟩
    have : switchClosed k (e.val.getD 0) t true = switchClosed k (e.val.getD 0) t false := by
      cases k <;> simp [switchClosed, hd]
    simp only [this]

/-- **switch_before_at_event**: at a switching instant the `before` rule gives the state the switch
    has at every earlier time (it has not operated yet) -/
theorem switch_before_at_event (k : SwKind) (ta t' : T) (h : t' < ta) :
    switchClosed k ta ta true = switchClosed k ta t' false := by
  cases k <;> simp [switchClosed, not_le.mpr h]

/-- … and differs from the state at the instant itself (the switch operates at `t_a`) -/
theorem switch_operates_at_event (k : SwKind) (ta : T) :
    switchClosed k ta ta true = !switchClosed k ta ta false := by
  cases k <;> simp [switchClosed]

end switches

/-- non-vacuity: `SW1 4 5 no 2` at t = 1 and t = 3/2 (no event in between) -/
example : replaceSwitches (1 : ℚ) false [({ name := "SW1", ty := "SW", nodes := ["4", "5"], kw := "no", val := some 2 } : Elt ℚ)]
    = replaceSwitches (3 / 2 : ℚ) false [{ name := "SW1", ty := "SW", nodes := ["4", "5"], kw := "no", val := some 2 }] := by
  apply replace_switches_const
  intro e he _
  simp only [List.mem_cons, List.mem_nil_iff, or_false] at he
  subst he
  norm_num

end Lcapy.C05
