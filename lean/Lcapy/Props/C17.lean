/-
  C17 -- Numerical evaluation of an expression equals its symbolic value.

  Objects: `numericDef` (what lambdify calls: generated from expr.py), `symbolicDef` (exact
  substitution: generated from extrafunctions.py), `spec` (doc/expressions.rst), the expression
  evaluators `evalNumeric` / `evalSymbolic` / `specEval`, `funcScalar` (causal mask), `evaluateArg`
  (scalar / list dispatch), `isCausal` (acdc.CausalChecker).
  All theorems are over ALL rational arguments / parameters / expressions / lists (no sampling).

  PARTIAL by nature (see DESIGN §3 C17):
    * `Option Rat` exhibits rational values only: for the sinc family the `agree_*` theorems have content at the integer /
      grid points (`none = none` elsewhere); away from them `sinc_family_same_tail` says that both code paths are the same
      expression in the uninterpreted sine tail, and the numbers are compared against mpmath by the harness;
    * exp/sin/cos/Bessel, floating-point rounding (beyond the bit-for-bit straight-line TESTS of Props/C17Float.lean) and
      lambdify's code generation are not modelled;
    * the clause "sampled responses converge as the step shrinks" has NO convergence theorem: Props/C17Sim.lean and
      C17Resp.lean prove what one step / one run / one difference equation computes (element laws for the actual step
      size, local exactness and defect identities, lag-indexed convolution, start-time invariance); the limit dt -> 0
      is compared harness-side on refined grids against the symbolic response;
    * `array_is_map_scalar` is a model remark (the model is defined that way because the code is a per-element loop).
  The evaluate() limit fallbacks are modelled for rational functions in Props/C17Limit.lean.
-/
import Lcapy.Proofs.SpecialFnBase
import Lcapy.Proofs.PsincAnchor
namespace Lcapy.C17
open Lcapy.EvalBase Lcapy.Evaluate Lcapy.Gen.SpecialFn
open Lcapy.Spec.SpecialFn (Fn spec disc inDomain)

namespace S
export Lcapy.Spec.SpecialFn (heaviside ramp rampstep rect sign tri trap unitstep unitimpulse dtrect dtsign sabs
  negOnePowInt)
end S

/-- both code paths give the documented value at `x` -/
def Agree (f : Fn) (x : Rat) : Prop :=
  numericDef f x = spec f x ∧ symbolicDef f x = spec f x

/-! ### one obligation per function of the table: numeric = symbolic = Spec away from discontinuities -/

/-- Heaviside away from its discontinuity (the value AT 0 is `heaviside_zero_documented` below) -/
theorem agree_heaviside (x : Rat) (h : disc .heaviside x = false) : Agree .heaviside x := by
  simp only [disc, beq_eq_false_iff_ne, ne_eq] at h
  simp only [Agree, numericDef, symbolicDef, spec, numFor_Heaviside, num_heaviside, sympyHeaviside, sympyH0, S.heaviside]
  constructor <;> pw_arith

theorem agree_dirac (x : Rat) (_h : disc .dirac x = false) : Agree .dirac x := by
  simp only [Agree, numericDef, symbolicDef, spec, numFor_DiracDelta, num_dirac, sympyDirac]
  constructor <;> pw_arith

theorem agree_sign (x : Rat) (h : disc .sign x = false) : Agree .sign x := by
  simp only [disc, beq_eq_false_iff_ne, ne_eq] at h
  simp only [Agree, numericDef, symbolicDef, spec, numFor_sign, num_sign, num_heaviside, sympySign,
    S.sign, S.heaviside]
  constructor <;> pw_arith

theorem agree_rect (x : Rat) (h : disc .rect x = false) : Agree .rect x := by
  simp only [disc, Bool.or_eq_false_iff, beq_eq_false_iff_ne, ne_eq] at h
  obtain ⟨h1, h2⟩ := h
  have e1 : x + 1/2 ≠ 0 := fun e => h2 (by linarith)
  have e2 : x - 1/2 ≠ 0 := fun e => h1 (by linarith)
  simp only [Agree, numericDef, symbolicDef, spec, numFor_rect, num_rect, num_heaviside, heavisideZero, sym_rect,
    S.rect, S.heaviside]
  constructor <;> pw_arith

theorem agree_tri (x : Rat) : Agree .tri x := by
  simp only [Agree, numericDef, symbolicDef, spec, numFor_tri, num_tri, sym_tri, rabs, S.tri, S.ramp, S.heaviside]
  constructor <;> pw_arith

theorem agree_ramp (x : Rat) : Agree .ramp x := by
  simp only [Agree, numericDef, symbolicDef, spec, numFor_ramp, num_ramp, sym_ramp, S.ramp, S.heaviside]
  constructor <;> pw_arith

/-- rampstep is continuous: agreement at every point, t = 1 included (finding F15) -/
theorem agree_rampstep (x : Rat) : Agree .rampstep x := by
  simp only [Agree, numericDef, symbolicDef, spec, numFor_rampstep, num_rampstep, sym_rampstep, S.rampstep, S.ramp,
    S.heaviside]
  constructor <;> pw_arith

theorem agree_trap (a x : Rat) (hd : disc (.trap a) x = false) (hdom : inDomain (.trap a) = true) :
    Agree (.trap a) x := by
  simp only [inDomain, Bool.and_eq_true, decide_eq_true_eq] at hdom
  obtain ⟨ha0, ha1⟩ := hdom
  by_cases ha : a = 0
  · subst ha
    simp only [disc, beq_self_eq_true, Bool.true_and, Bool.or_eq_false_iff, beq_eq_false_iff_ne, ne_eq] at hd
    obtain ⟨h1, h2⟩ := hd
    have e1 : x + 1/2 ≠ 0 := fun e => h2 (by linarith)
    have e2 : x - 1/2 ≠ 0 := fun e => h1 (by linarith)
    simp only [Agree, numericDef, symbolicDef, spec, numFor_trap, num_trap, sym_trap, S.trap, S.rect, S.heaviside,
      if_true]
    refine ⟨?_, ?_⟩ <;> pw_arith
  · have hl := trap_linear (rabs x) a ha
    have hapos : 0 < a := lt_of_le_of_ne ha0 (Ne.symm ha)
    have hs : S.sabs x = rabs x := rfl
    simp only [Agree, numericDef, symbolicDef, spec, numFor_trap, num_trap, sym_trap, S.trap, hs, if_neg ha,
      true_and, if_true, odiv, osub]
    generalize rabs x = y at *
    refine ⟨?_, ?_⟩ <;> split_ifs <;> (try simp only [Option.some.injEq]) <;>
      first | rfl | exact hl | linarith | (exfalso; linarith)

theorem agree_unitstep (x : Rat) : Agree .unitstep x := by
  simp only [Agree, numericDef, symbolicDef, spec, numFor_UnitStep, num_unitstep, sym_UnitStep, unitstepZero, S.unitstep]
  constructor <;> pw_arith

theorem agree_unitimpulse (x : Rat) : Agree .unitimpulse x := by
  simp only [Agree, numericDef, symbolicDef, spec, numFor_UnitImpulse, num_unitimpulse, sym_UnitImpulse, S.unitimpulse]
  constructor <;> pw_arith

theorem agree_dtrect (x : Rat) : Agree .dtrect x := by
  simp only [Agree, numericDef, symbolicDef, spec, numFor_dtrect, num_dtrect, num_unitstep, sym_dtrect, unitstepZero,
    S.dtrect, S.unitstep]
  constructor <;> pw_arith

/-- sign[n] = -1 for n < 0 on both paths (finding: symbolic dtsign returned 0) -/
theorem agree_dtsign (x : Rat) : Agree .dtsign x := by
  simp only [Agree, numericDef, symbolicDef, spec, numFor_dtsign, num_dtsign, num_unitstep, sym_dtsign, unitstepZero,
    S.dtsign, S.unitstep]
  constructor <;> pw_arith

/-! #### the sinc family.  CONTENT WARNING (audit F10): `Option Rat` exhibits rational values only.  sin(pi x)/(pi x) is
irrational at every non-integer rational and sin(x)/x at every non-zero rational, so there all three sides are `none` and
`Agree` reads `none = none`: the four theorems below have content at the INTEGER points only (sincu: at 0 only; psinc: at
the integers and where M x is an integer), and `regular` excludes the other points from `expr_agree`.  What can be said at
the other points without interpreting sin is `sinc_family_same_tail` / `psinc_same_tail` below: both code paths are the
same expression in the uninterpreted transcendental tail.  Numerically those points are compared against mpmath
(harness, `sinc-family-vs-mpmath`). -/

/-- sincn: value 1 at 0 and 0 at the other integers on both paths (`none = none` at every non-integer) -/
theorem agree_sincn_at_integers (x : Rat) : Agree .sincn x := by
  simp only [Agree, numericDef, symbolicDef, spec, numFor_sincn, num_sincn, sym_sincn, sinPiOverPi, isInt,
    Lcapy.Spec.SpecialFn.isInt, if_true]
  constructor <;> pw_arith

/-- sincu: value 1 at 0 on both paths (`none = none` at every other rational: sin(x)/x is transcendental there) -/
theorem agree_sincu_at_zero (x : Rat) : Agree .sincu x := by
  simp only [Agree, numericDef, symbolicDef, spec, numFor_sincu, num_sincu, sym_sincu, sinOver, if_true]
  constructor <;> pw_arith

/-- the name `sinc` of a parsed string: normalised on both paths (finding: symbolic side was SymPy's
unnormalised sinc).  Content at the integers only (`none = none` elsewhere). -/
theorem agree_sinc_at_integers (x : Rat) : Agree .sinc x := by
  simp only [Agree, numericDef, symbolicDef, spec, numFor_sinc, num_sinc, sym_parsedSinc, sym_sincn, sinPiOverPi, isInt,
    Lcapy.Spec.SpecialFn.isInt, if_true]
  constructor <;> pw_arith

/-- psinc(M, ·) for a positive integer M at EVERY rational point: at an integer n both paths give the
limit (-1)^(n (M-1)) (findings F16 and numeric-psinc), and 0 where M x is an integer and x is not; at every other
rational the statement is `none = none` (audit F10: content at those grid points only; see `psinc_same_tail`) -/
theorem agree_psinc (M x : Rat) (hdom : inDomain (.psinc M) = true) : Agree (.psinc M) x := by
  simp only [inDomain, Bool.and_eq_true, decide_eq_true_eq, specIsInt_iff] at hdom
  obtain ⟨hMi, hMpos⟩ := hdom
  obtain ⟨m, rfl⟩ := int_of_den_one M hMi
  have hM0 : (m : Rat) ≠ 0 := ne_of_gt hMpos
  have hm : 0 < m := by exact_mod_cast hMpos
  have hdomS : (!(Lcapy.Spec.SpecialFn.isInt (m : Rat)) || decide ((m : Rat) ≤ 0)) = false := by
    simp [Lcapy.Spec.SpecialFn.isInt, hm]
  by_cases hx : x.den = 1
  · -- integer argument
    obtain ⟨n, rfl⟩ := int_of_den_one x hx
    obtain ⟨hd, hn⟩ := int_mul_pred n m
    obtain ⟨hpd, hpn⟩ := int_pred m
    have hsx : Lcapy.Spec.SpecialFn.isInt (n : Rat) = true := by simp [Lcapy.Spec.SpecialFn.isInt]
    have hix : isInt (n : Rat) = true := by simp [isInt]
    have hspec : spec (.psinc (m : Rat)) (n : Rat) = some (S.negOnePowInt (n * (m - 1))) := by
      simp only [spec, hdomS, hsx]
      simp
    refine ⟨?_, ?_⟩
    · -- numeric
      rw [hspec]
      simp only [numericDef, numFor_psinc, num_psinc, hix, if_true, negOnePow, hd, hn, beq_self_eq_true,
        S.negOnePowInt]
      split_ifs <;> simp_all
    · -- symbolic
      rw [hspec]
      simp only [symbolicDef, sym_psinc, if_true, isInt, isEven, isOdd, Rat.den_intCast, Rat.num_intCast,
        beq_self_eq_true, Bool.true_and, true_and, negOnePow, hpd, hpn, S.negOnePowInt]
      by_cases h0 : (n : Rat) = 0
      · have : n = 0 := by exact_mod_cast h0
        subst this; simp
      · simp only [if_neg h0]
        by_cases he : n % 2 = 0
        · have := mul_emod_two_of_even n (m - 1) he
          simp [he, this]
        · have := mul_emod_two_of_odd n (m - 1) he
          simp only [beq_iff_eq, he, if_false, bne_iff_ne, ne_eq, not_false_eq_true, if_true, this]
          split_ifs <;> rfl
  · -- non-integer argument: both tails are the exact quotient
    have hsx : Lcapy.Spec.SpecialFn.isInt x = false := by simp [Lcapy.Spec.SpecialFn.isInt, hx]
    have hix : isInt x = false := by simp [isInt, hx]
    have hx0 : x ≠ 0 := by
      intro h; apply hx; rw [h]; rfl
    refine ⟨?_, ?_⟩
    · simp only [numericDef, numFor_psinc, num_psinc, psincFloat, psincExact, hM0, spec,
        Lcapy.Spec.SpecialFn.isInt, isInt]
      simp [hx, not_le.mpr hm]
    · simp only [symbolicDef, sym_psinc, psincExact, hM0, spec, hx0, if_true,
        Lcapy.Spec.SpecialFn.isInt, isInt]
      simp [hx, not_le.mpr hm]

section tails
/- the transcendental tails are kept UNINTERPRETED in this section: nothing below can depend on how `sinPiOverPi`,
`sinOver`, `psincExact` are defined, so the statements hold for every interpretation of sin(pi x)/(pi x), sin(x)/x and
sin(M pi x)/(M sin(pi x)) -/
attribute [local irreducible] sinPiOverPi sinOver psincExact

/-- **sinc_family_same_tail** (the non-trivial content away from the integers): at EVERY rational x the numeric definition
handed to lambdify and the value of exact substitution are the same expression in the uninterpreted tail: the explicit
value 1 at x = 0 (the removable point) and sin(pi x)/(pi x) resp. sin(x)/x elsewhere, for `sincn`, `sincu` and the parsed
name `sinc`. -/
theorem sinc_family_same_tail (x : Rat) :
    numericDef .sincn x = (if x = 0 then some 1 else sinPiOverPi x) ∧
    symbolicDef .sincn x = (if x = 0 then some 1 else sinPiOverPi x) ∧
    numericDef .sincu x = (if x = 0 then some 1 else sinOver x) ∧
    symbolicDef .sincu x = (if x = 0 then some 1 else sinOver x) ∧
    numericDef .sinc x = (if x = 0 then some 1 else sinPiOverPi x) ∧
    symbolicDef .sinc x = (if x = 0 then some 1 else sinPiOverPi x) := by
  simp only [numericDef, symbolicDef, numFor_sincn, num_sincn, numFor_sincu, num_sincu, numFor_sinc, num_sinc, sym_sincn,
    sym_sincu, sym_parsedSinc, if_true, and_self]

/-- hence numeric = symbolic as functions of the tail, at every rational point, integer or not -/
theorem sinc_family_paths_coincide (x : Rat) :
    numericDef .sincn x = symbolicDef .sincn x ∧ numericDef .sincu x = symbolicDef .sincu x ∧
    numericDef .sinc x = symbolicDef .sinc x := by
  obtain ⟨a, b, c, d, e, f⟩ := sinc_family_same_tail x
  exact ⟨a.trans b.symm, c.trans d.symm, e.trans f.symm⟩

/-- psinc at a non-integer point: the numeric path is the FLOAT quotient `psincFloat`, the symbolic path the exact
quotient `psincExact` of the same two sines; `psincFloat` is by definition `psincExact` there (the hand-modelled claim that
the float quotient of two well-conditioned sines is the exact one up to rounding, validated against mpmath) -/
theorem psinc_same_tail (M x : Rat) (hx : isInt x = false) :
    numericDef (.psinc M) x = psincFloat M x ∧ symbolicDef (.psinc M) x = psincExact M x := by
  have hx0 : x ≠ 0 := by
    intro h; rw [h] at hx; simp [isInt] at hx
  simp only [numericDef, symbolicDef, numFor_psinc, num_psinc, sym_psinc, hx, hx0, if_true, if_false,
    Bool.false_eq_true, false_and, and_self]

example : isInt (1/3 : Rat) = false := by decide +kernel
end tails

/-- the Spec's value of psinc at an integer point -/
theorem spec_psinc_int (m n : Int) (hm : 0 < m) :
    spec (.psinc (m : Rat)) (n : Rat) = some (S.negOnePowInt (n * (m - 1))) := by
  have h1 : (!(Lcapy.Spec.SpecialFn.isInt (m : Rat)) || decide ((m : Rat) ≤ 0)) = false := by
    simp [Lcapy.Spec.SpecialFn.isInt, hm]
  have h2 : Lcapy.Spec.SpecialFn.isInt (n : Rat) = true := by simp [Lcapy.Spec.SpecialFn.isInt]
  simp only [spec, h1, h2]
  simp

/-- **psinc_integer_value_anchor** (real analysis, why the Spec says (-1)^(n (M-1)) at the removable points): for every
positive integer M, integer n and real offset h with sin(pi h) ≠ 0, the defining quotient at n + h is the Spec's value at n
times the defining quotient at h -- psinc near n is psinc near 0 (whose documented limit is 1) times that sign. -/
theorem psinc_integer_value_anchor (M n : Int) (hM : 0 < M) (h : ℝ) (hs : Real.sin (Real.pi * h) ≠ 0) :
    ∃ v : Rat, spec (.psinc (M : Rat)) (n : Rat) = some v ∧
      Real.sin (M * Real.pi * (n + h)) / (M * Real.sin (Real.pi * (n + h))) =
        (v : ℝ) * (Real.sin (M * Real.pi * h) / (M * Real.sin (Real.pi * h))) := by
  refine ⟨_, spec_psinc_int M n hM, ?_⟩
  rw [negOnePowInt_cast]
  exact psinc_shift_real M n h (by exact_mod_cast (ne_of_gt hM)) hs

example : Real.sin (Real.pi * (1/2)) ≠ 0 := by
  have : Real.pi * (1/2) = Real.pi / 2 := by ring
  rw [this, Real.sin_pi_div_two]; norm_num

/-- **special_fn_agree**: for every function of the table, every parameter in the documented domain and every
rational `x` that is not a discontinuity: the numeric definition used by `evaluate`, the value of exact
substitution, and the documented value coincide (as rationals, or all three leave the rational world).
For the piecewise-rational functions this is a statement at every point; for the sinc family (sincn, sincu, sinc, psinc) it
has content at the integer / grid points only (`none = none` elsewhere, audit F10; see `sinc_family_same_tail`). -/
theorem special_fn_agree (f : Fn) (x : Rat) (hd : disc f x = false) (hdom : inDomain f = true) :
    numericDef f x = spec f x ∧ symbolicDef f x = spec f x := by
  cases f with
  | heaviside => exact agree_heaviside x hd
  | dirac => exact agree_dirac x hd
  | sign => exact agree_sign x hd
  | rect => exact agree_rect x hd
  | tri => exact agree_tri x
  | ramp => exact agree_ramp x
  | rampstep => exact agree_rampstep x
  | trap a => exact agree_trap a x hd hdom
  | unitstep => exact agree_unitstep x
  | unitimpulse => exact agree_unitimpulse x
  | dtrect => exact agree_dtrect x
  | dtsign => exact agree_dtsign x
  | sincn => exact agree_sincn_at_integers x
  | sincu => exact agree_sincu_at_zero x
  | sinc => exact agree_sinc_at_integers x
  | psinc M => exact agree_psinc M x hdom

-- non-vacuity: a regular point, and the hypotheses exclude exactly the points where the paths differ
example : disc .rect (1/4) = false ∧ inDomain (.trap (1/2)) = true ∧ inDomain (.psinc 3) = true := by decide +kernel
example : disc .rect (1/2) = true ∧ spec .rect (1/2) = some (1/2) ∧ spec .rect (1/4) = some 1 := by decide +kernel
example : numericDef .rampstep 1 = some 1 ∧ symbolicDef .rampstep 1 = some 1 := by decide +kernel
example : numericDef (.psinc 3) 5 = some 1 ∧ symbolicDef (.psinc 3) 5 = some 1 ∧ symbolicDef (.psinc 4) 5 = some (-1) := by decide +kernel

/-! ### "defined in terms of Heaviside for consistency" -/

/-- numeric rect is H(x + 1/2) - H(x - 1/2) with the numeric H (called as the code calls it, without `zero`),
at EVERY x -/
theorem rect_via_heaviside (x : Rat) :
    numericDef .rect x = osub (numFor_Heaviside (x + 1/2) none) (numFor_Heaviside (x - 1/2) none) := by
  simp only [numericDef, numFor_rect, num_rect, numFor_Heaviside]

/-- numeric sign is 2 H(x) - 1 with the numeric H, at every x -/
theorem sign_via_heaviside (x : Rat) :
    numericDef .sign x = osub (omul (some 2) (numFor_Heaviside x none)) (some 1) := by
  simp only [numericDef, numFor_sign, num_sign, numFor_Heaviside]

/-- the numeric H called without `zero` is the H that evaluates `Heaviside(x)` itself, except possibly AT 0 -/
theorem heaviside_call_forms (x : Rat) (hx : x ≠ 0) : numFor_Heaviside x none = numericDef .heaviside x := by
  simp only [numericDef, numFor_Heaviside, num_heaviside, if_neg hx]

/-- with the documented `heaviside_zero = 0.5` (config.py) the values AT the discontinuities are the documented ones
on the numeric path: H(0) = 1/2, sign(0) = 0, rect(±1/2) = 1/2 -- the whole numeric rect/sign/H is the Spec, everywhere. -/
theorem heaviside_zero_documented (hz : heavisideZero = 1/2) (x : Rat) :
    numericDef .heaviside x = spec .heaviside x ∧ symbolicDef .heaviside x = spec .heaviside x ∧
    numericDef .sign x = spec .sign x ∧ symbolicDef .sign x = spec .sign x ∧
    numericDef .rect x = spec .rect x := by
  simp only [numericDef, symbolicDef, spec, numFor_Heaviside, numFor_sign, numFor_rect, num_heaviside, num_sign, num_rect,
    sympyHeaviside, sympySign, sympyH0, hz, S.heaviside, S.sign, S.rect]
  refine ⟨?_, ?_, ?_, ?_, ?_⟩ <;> pw_arith

/-- the discrete-time pair is built on the unit step in the same way -/
theorem dtrect_dtsign_via_unitstep (x : Rat) :
    numericDef .dtrect x = osub (numericDef .unitstep (x + 1/2)) (numericDef .unitstep (x - 1/2)) ∧
    numericDef .dtsign x = osub (omul (some 2) (numericDef .unitstep x)) (some 1) := by
  simp only [numericDef, numFor_dtrect, num_dtrect, numFor_dtsign, num_dtsign, numFor_UnitStep, num_unitstep]
  constructor <;> pw_arith

/-! ### causal mask -/

/-- a causal expression evaluates to zero at every negative time, whatever the expression -/
theorem causal_mask (e : E) (x : Rat) (hx : x < 0) : funcScalar true e x = .val 0 := by
  simp [funcScalar, causalMask, hx]

/-- the mask does nothing else: non-causal, or t ≥ 0, is the lambdified function itself -/
theorem causal_mask_only (c : Bool) (e : E) (x : Rat) (h : c = false ∨ 0 ≤ x)
    (hb : onBoundary e x = false ∨ evalNumeric e x ≠ .nan) :
    funcScalar c e x = evalNumeric e x := by
  have hm : causalMask c x = none := by
    rcases h with h | h
    · simp [causalMask, h]
    · simp [causalMask, not_lt.mpr h]
  simp only [funcScalar, hm]
  cases hv : evalNumeric e x with
  | val v => rfl
  | other => rfl
  | nan =>
    rcases hb with hb | hb
    · simp [hb]
    · exact absurd hv hb

/-- the flag requires a time-domain expression -/
theorem causal_flag (isTime selfCausal : Bool) : causalFlag isTime selfCausal = true ↔ isTime = true ∧ selfCausal = true := by
  simp [causalFlag]

/-- **causal_mask_sound**: when `is_causal` was *inferred* (CausalChecker: every term of the expanded sum has a
Heaviside/DiracDelta/UnitImpulse/UnitStep factor of `var`, or of `a·var + b` with `a > 0`, `b ≤ 0`), the masked
zero IS the value of exact substitution at every negative time: the mask never changes a value. -/
theorem causal_mask_sound (terms : List (List Factor)) (x : Rat) (hx : x < 0)
    (hv : ∀ t ∈ terms, ∀ f ∈ t, ∃ v, specEval f.toE x = .val v) (hc : isCausal terms = true) :
    specEval (sumE terms) x = .val 0 ∧ funcScalar true (sumE terms) x = .val 0 := by
  refine ⟨?_, causal_mask _ x hx⟩
  induction terms with
  | nil => rfl
  | cons t rest ih =>
    simp only [isCausal, List.all_cons, Bool.and_eq_true] at hc
    have h1 := causal_term_zero t x hx (hv t (List.mem_cons_self ..)) hc.1
    have h2 := ih (fun u hu => hv u (List.mem_cons_of_mem _ hu)) (by simpa [isCausal] using hc.2)
    simp [sumE, specEval, h1, h2, arith2]

example : isCausal [[.plain (.const 3), .fn .heaviside 1 0], [.fn .heaviside 2 (-1), .plain .var]] = true := by decide +kernel
example : isCausal [[.fn .heaviside 1 1]] = false ∧ isCausal [[.fn .heaviside 1 0], [.plain .var]] = false := by decide +kernel

/-! ### results valid only for t ≥ 0 are not extrapolated -/

/-- **guard_not_extrapolated**: `Piecewise((a, t ≥ 0))` (an inverse transform without `causal`) never yields a number
at a negative time -- on the numeric path (where the real code ends with an exception), under exact
substitution (SymPy: nan) and in the specification; whatever `a` is. -/
theorem guard_not_extrapolated (a : E) (x v : Rat) (hx : x < 0) :
    funcScalar false (guarded a) x ≠ .val v ∧ evalSymbolic (guarded a) x = .nan ∧ specEval (guarded a) x = .nan := by
  have hge : Rel.holds .ge x 0 = false := by simp [Rel.holds, hx]
  refine ⟨?_, ?_, ?_⟩
  · have hn : evalNumeric (guarded a) x = .nan ∨ evalNumeric (guarded a) x = .other := by
      by_cases h : evalNumeric a x = .other <;> simp [guarded, evalNumeric, selectEager, hge, h]
    have hm : causalMask false x = none := by simp [causalMask]
    simp only [funcScalar, hm]
    rcases hn with hn | hn <;> rw [hn] <;> (try split_ifs) <;> simp
  · simp [guarded, evalSymbolic, selectLazy, hge]
  · simp [guarded, specEval, selectLazy, hge]

/-- ... and the not-a-number spreads through arithmetic: no sum/product/quotient with a guarded term is a number -/
theorem nan_spreads (f : Rat → Rat → Rat) (o p : Out) (ho : ∀ v, o ≠ .val v) (v : Rat) :
    arith2 f o p ≠ .val v ∧ arith2 f p o ≠ .val v ∧ divOut o p ≠ .val v ∧ divOut p o ≠ .val v := by
  cases o <;> cases p <;> simp_all [arith2, divOut] <;> split_ifs <;> simp

/-- on its domain the guard is transparent -/
theorem guard_transparent (a : E) (x : Rat) (hx : 0 ≤ x) (ha : evalNumeric a x ≠ .other) :
    evalNumeric (guarded a) x = evalNumeric a x := by
  have hge : Rel.holds .ge x 0 = true := by simp [Rel.holds, hx]
  simp [guarded, evalNumeric, selectEager, hge, ha]

/-! ### array evaluation is the map of scalar evaluation -/

/-- **array_is_map_scalar** -- a MODEL REMARK, not a property theorem (audit F11): `evaluateArg` is DEFINED as the `mapM` of
`funcScalar` because `evaluate_expr` is `np.array([complex(func(arg0)) for arg0 in arg])` (one scalar `func` call per
element, NOT a vectorised lambdify call; the first element is evaluated once more beforehand "to flush out weirdness"), so
this is the characterisation of `mapM`: an array exactly when every element evaluates to a number, element-wise the scalar
results.  That the CODE has this shape -- and hence the clause "array evaluation agrees element-wise with scalar
evaluation" -- is carried by the correspondence / oracle streams (list, tuple, ndarray against the scalar calls, seeded
C17-2), and, where the two routes really differ (Python float vs NumPy scalar: different fallback branches), by
`C17Limit.scalar_array_same_outcome`. -/
theorem array_is_map_scalar (c : Bool) (e : E) (xs : List Rat) (vs : List Rat) :
    evaluateArg c e (.list xs) = .array vs ↔ xs ≠ [] ∧ xs.map (funcScalar c e) = vs.map Out.val := by
  cases xs with
  | nil => simp [evaluateArg]
  | cons x0 rest =>
    have key : ∀ (ys : List Rat), (ys.mapM (fun x => valOf? (funcScalar c e x)) = some vs) ↔
        ys.map (funcScalar c e) = vs.map Out.val := by
      intro ys
      rw [mapM_some_iff]
      induction ys generalizing vs with
      | nil => cases vs <;> simp
      | cons y ys ih =>
        cases vs with
        | nil => simp
        | cons v vs' =>
          simp only [List.map_cons, List.cons.injEq]
          have : valOf? (funcScalar c e y) = some v ↔ funcScalar c e y = Out.val v := by
            cases funcScalar c e y <;> simp [valOf?]
          rw [this, ih vs']
    simp only [evaluateArg, ne_eq, reduceCtorEq, not_false_eq_true, true_and]
    cases h0 : funcScalar c e x0 with
    | val v0 =>
      simp only
      cases hm : (x0 :: rest).mapM (fun x => valOf? (funcScalar c e x)) with
      | none =>
        have : ¬ ((x0 :: rest).map (funcScalar c e) = vs.map Out.val) := fun h => by
          rw [(key _).mpr h] at hm; cases hm
        simp only [reduceCtorEq, false_iff]; exact this
      | some us =>
        constructor
        · intro h; cases h; exact (key _).mp hm
        · intro h; rw [(key _).mpr h] at hm; cases hm; rfl
    | nan =>
      simp only [reduceCtorEq, false_iff]
      intro h; cases vs <;> simp_all
    | other =>
      simp only [reduceCtorEq, false_iff]
      intro h; cases vs <;> simp_all

/-- a single bad element (guarded result at a negative time, pole, ...) makes the whole call fail: never a partial array -/
theorem array_all_or_nothing (c : Bool) (e : E) (xs : List Rat) (x : Rat) (hx : x ∈ xs)
    (hbad : ∀ v, funcScalar c e x ≠ .val v) : evaluateArg c e (.list xs) = .error := by
  cases xs with
  | nil => rfl
  | cons x0 rest =>
    cases hr : evaluateArg c e (.list (x0 :: rest)) with
    | error => rfl
    | scalar o =>
      simp only [evaluateArg] at hr
      split at hr <;> (try split at hr) <;> cases hr
    | array vs =>
      have h := ((array_is_map_scalar c e (x0 :: rest) vs).mp hr).2
      have : funcScalar c e x ∈ (x0 :: rest).map (funcScalar c e) := List.mem_map_of_mem hx
      rw [h] at this
      obtain ⟨v, _, hv⟩ := List.mem_map.mp this
      exact absurd hv.symm (hbad v)

example : evaluateArg false (guarded .var) (.list [0, 1, 2]) = .array [0, 1, 2] := by decide +kernel
example : evaluateArg false (guarded .var) (.list [0, -1, 2]) = .error := by decide +kernel
example : evaluateArg true (.mul .var (.app .heaviside .var)) (.list [-1, 0, 2]) = .array [0, 0, 2] := by decide +kernel

/-! ### expression level -/

/-- **expr_agree**: for every expression of the fragment (rational functions of the variable, the special functions,
Piecewise conditions, nested arbitrarily) and every rational point that is regular for it, the lambdified numeric
function, exact symbolic substitution and the mathematical value coincide -- as numbers, or as the not-a-number of
an exhausted Piecewise.  Structural induction; the function case is `special_fn_agree`. -/
theorem expr_agree (e : E) (x : Rat) (h : regular e x = true) :
    evalNumeric e x = specEval e x ∧ evalSymbolic e x = specEval e x ∧ specEval e x ≠ .other := by
  induction e with
  | var => simp [evalNumeric, evalSymbolic, specEval]
  | const c => simp [evalNumeric, evalSymbolic, specEval]
  | nan => simp [evalNumeric, evalSymbolic, specEval]
  | add a b iha ihb =>
    simp only [regular, Bool.and_eq_true] at h
    obtain ⟨ha1, ha2, ha3⟩ := iha h.1
    obtain ⟨hb1, hb2, hb3⟩ := ihb h.2
    simp only [evalNumeric, evalSymbolic, specEval, ha1, ha2, hb1, hb2, true_and]
    exact arith2_ne_other _ _ _ ha3 hb3
  | sub a b iha ihb =>
    simp only [regular, Bool.and_eq_true] at h
    obtain ⟨ha1, ha2, ha3⟩ := iha h.1
    obtain ⟨hb1, hb2, hb3⟩ := ihb h.2
    simp only [evalNumeric, evalSymbolic, specEval, ha1, ha2, hb1, hb2, true_and]
    exact arith2_ne_other _ _ _ ha3 hb3
  | mul a b iha ihb =>
    simp only [regular, Bool.and_eq_true] at h
    obtain ⟨ha1, ha2, ha3⟩ := iha h.1
    obtain ⟨hb1, hb2, hb3⟩ := ihb h.2
    simp only [evalNumeric, evalSymbolic, specEval, ha1, ha2, hb1, hb2, true_and]
    exact arith2_ne_other _ _ _ ha3 hb3
  | div a b iha ihb =>
    simp only [regular, Bool.and_eq_true, bne_iff_ne, ne_eq] at h
    obtain ⟨ha1, ha2, ha3⟩ := iha h.1.1
    obtain ⟨hb1, hb2, hb3⟩ := ihb h.1.2
    simp only [evalNumeric, evalSymbolic, specEval, ha1, ha2, hb1, hb2, true_and]
    exact divOut_ne_other _ _ ha3 hb3 h.2
  | neg a iha =>
    simp only [regular] at h
    obtain ⟨ha1, ha2, ha3⟩ := iha h
    simp only [evalNumeric, evalSymbolic, specEval, ha1, ha2, true_and]
    exact arith1_ne_other _ _ ha3
  | pow a n iha =>
    simp only [regular] at h
    obtain ⟨ha1, ha2, ha3⟩ := iha h
    simp only [evalNumeric, evalSymbolic, specEval, ha1, ha2, true_and]
    exact arith1_ne_other _ _ ha3
  | app f a iha =>
    simp only [regular, Bool.and_eq_true] at h
    obtain ⟨⟨hra, hdom⟩, hpt⟩ := h
    obtain ⟨ha1, ha2, _⟩ := iha hra
    cases hs : specEval a x with
    | val v =>
      rw [hs] at hpt
      simp only [Bool.and_eq_true, Bool.not_eq_eq_eq_not, Bool.not_true] at hpt
      obtain ⟨hn, hsym⟩ := special_fn_agree f v hpt.1 hdom
      simp only [evalNumeric, evalSymbolic, specEval, ha1, ha2, hs, appOut, hn, hsym, true_and]
      cases hv : spec f v with
      | none => rw [hv] at hpt; simp at hpt
      | some w => simp [Out.ofOption]
    | nan => rw [hs] at hpt; simp at hpt
    | other => rw [hs] at hpt; simp at hpt
  | pw r l rhs thn els ihl ihr iht ihe =>
    simp only [regular, Bool.and_eq_true] at h
    obtain ⟨⟨⟨⟨hl, hr⟩, ht⟩, he⟩, hcmp⟩ := h
    obtain ⟨hl1, hl2, _⟩ := ihl hl
    obtain ⟨hr1, hr2, _⟩ := ihr hr
    obtain ⟨ht1, ht2, ht3⟩ := iht ht
    obtain ⟨he1, he2, he3⟩ := ihe he
    cases hsl : specEval l x with
    | val a =>
      cases hsr : specEval rhs x with
      | val b =>
        simp only [evalNumeric, evalSymbolic, specEval, hl1, hl2, hr1, hr2, ht1, ht2, he1, he2, hsl, hsr]
        rw [select_eager_eq_lazy r a b _ _ ht3 he3]
        refine ⟨by first | trivial | rfl, by first | trivial | rfl, ?_⟩
        simp only [selectLazy]
        split_ifs <;> assumption
      | nan => rw [hsl, hsr] at hcmp; simp at hcmp
      | other => rw [hsl, hsr] at hcmp; simp at hcmp
    | nan => rw [hsl] at hcmp; simp at hcmp
    | other => rw [hsl] at hcmp; simp at hcmp

/-- the observable form: at a regular point the masked scalar evaluation of a non-causal expression, or of any
expression at t ≥ 0, is the exact symbolic value -/
theorem evaluate_is_symbolic (c : Bool) (e : E) (x : Rat) (h : regular e x = true) (hc : c = false ∨ 0 ≤ x)
    (hb : onBoundary e x = false ∨ specEval e x ≠ .nan) :
    funcScalar c e x = evalSymbolic e x := by
  have hn := (expr_agree e x h).1
  rw [causal_mask_only c e x hc (by rw [hn]; exact hb), hn, (expr_agree e x h).2.1]

-- non-vacuity: a nested expression at regular points, and a point that is rightly excluded
example : regular (.add (.mul (.app .tri (.div .var (.const 2))) (.app .heaviside (.sub .var (.const 1))))
    (guarded (.app .rampstep .var))) 3 = true := by decide +kernel
example : regular (.app .rect .var) (1/2) = false ∧ regular (.div (.const 1) .var) 0 = false := by decide +kernel

end Lcapy.C17
