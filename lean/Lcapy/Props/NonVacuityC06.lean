/-
  Independent audit (auditA), property C06: machine-checked NON-VACUITY witnesses for the theorems of
  Props/C06.lean, C06Line.lean, C06Netlist.lean, C06Nested.lean, C06Fixed.lean -- and machine-checked
  statements of what the hypothesis predicates EXCLUDE (section "boundaries").  New file; nothing else
  is modified.  Report: /tmp/scratch/auditA/C06.md.
-/
import Lcapy.Props.C06
import Lcapy.Props.C06Line
import Lcapy.Props.C06Netlist
import Lcapy.Props.C06Nested
import Lcapy.Props.C06Fixed
namespace Lcapy.NonVacuity.C06
open Lcapy.Parser Lcapy.Spec.Netlist Lcapy.C06

abbrev ds : List Char := Gen.Grammar.delimiters
abbrev G : Grammar := theGrammar

/-! ## 0. the priority predicates on REAL rules of the generated table -/

/-- the component the model's parser returns for a line (empty `used`, empty namespace) -/
def parsed (s : String) : Option Cpt :=
  match parse G [] [] s.toList with
  | .ok (c, none) => some c
  | _ => none

/-- `grammarWF` holds of the regenerated table (this is `table_wf2`; complete table, not a sample) -/
theorem nv_grammarWF : grammarWF G = true := table_wf2

/-- `ruleWF` (C06.lean) holds of every rule of the table -/
theorem nv_ruleWF_all : G.rules.all ruleWF = true := table_wf.2.1

/-- canonical component of a rule: nodes `n0, n1, …`, every argument given as `5`, id `7`, option `right` -/
def canon (r : Rule) : Cpt :=
  let sh := shapeOf r.params
  { classname := r.classname, name := r.type ++ ['7'], ctype := r.type, cid := ['7'],
    nodes := (List.range (sh.A.length + sh.B.length)).map (fun i => 'n' :: natToStr i),
    args := sh.C.map (fun _ => some ['5']), kwpos := r.pos, kw := kwName r, opts := "right".toList, string := [] }

/-- **`normalCpt` is satisfiable for EVERY one of the 142 rules** (so `line_roundtrip_table_partial` is not vacuous
    for any rule): the canonical component of each rule is in normal form. -/
theorem nv_normalCpt_every_rule :
    G.rules.all (fun r => normalCpt G r (canon r) && (printCpt G (canon r)).isSome
      && (match optsParse (canon r).opts with | .ok o => optsNormal o | .error _ => false)) = true := by decide +kernel

/-- the complete line-level statement, as a predicate on (component, printed text) -/
def RT (c : Cpt) (s : String) : Prop :=
  ∃ c', (∀ used, parse G used [] s.toList = .ok (c', none)) ∧ sameCpt c c' = true
    ∧ printCpt G c' = some s.toList ∧ c'.name = c.name

/-! ### `V1 1 0 ac 5 0 3`  (rule `Vac`: keyword after two nodes, three optional arguments, all given) -/

def cVac : Cpt :=
  { exCpt "Vac" "V1" "V" "1" ["1", "0"] [some "5", some "0", some "3"] (some 2) "ac" "" with string := "V1 1 0 ac 5 0 3".toList }
theorem cVac_parsed : parsed "V1 1 0 ac 5 0 3" = some cVac := by decide +kernel
theorem cVac_rule : exRule "Vac" ∈ G.rules := by decide +kernel
theorem cVac_normal : normalCpt G (exRule "Vac") cVac = true := by decide +kernel
theorem cVac_print : printCpt G cVac = some "V1 1 0 ac 5 0 3".toList := by decide +kernel

/-- `line_roundtrip_partial` applied to the component parsed from `V1 1 0 ac 5 0 3` -/
theorem nv_line_roundtrip_Vac :
    ∃ kp os, (∀ used, parse G used [] "V1 1 0 ac 5 0 3".toList
        = .ok ({ cVac with args := normArgs cVac.args, kwpos := kp, opts := os, string := "V1 1 0 ac 5 0 3".toList }, none))
      ∧ (cVac.kw ≠ [] → kp = cVac.kwpos) := by
  obtain ⟨kp, os, h1, h2, _⟩ := line_roundtrip_partial G nv_grammarWF (exRule "Vac") cVac_rule cVac cVac_normal _ cVac_print
  exact ⟨kp, os, h1, h2⟩

theorem nv_line_roundtrip_table_Vac :
    ∃ kp os, (∀ used, parse G used [] "V1 1 0 ac 5 0 3".toList
        = .ok ({ cVac with args := normArgs cVac.args, kwpos := kp, opts := os, string := "V1 1 0 ac 5 0 3".toList }, none)) := by
  obtain ⟨kp, os, h1, _⟩ := line_roundtrip_table_partial (exRule "Vac") cVac_rule cVac cVac_normal _ cVac_print
  exact ⟨kp, os, h1⟩

theorem nv_line_roundtrip_full_Vac : RT cVac "V1 1 0 ac 5 0 3" := by
  obtain ⟨c', h1, h2, h3, h4, _⟩ :=
    line_roundtrip_full_partial G nv_grammarWF (exRule "Vac") cVac_rule cVac cVac_normal [] (by rfl) (by decide) _ cVac_print
  exact ⟨c', h1, h2, h3, h4⟩

theorem nv_line_roundtrip_full_table_Vac : RT cVac "V1 1 0 ac 5 0 3" :=
  line_roundtrip_full_table_partial (exRule "Vac") cVac_rule cVac cVac_normal [] (by rfl) (by decide) _ cVac_print

/-! ### `V1 1 0 ac 5`  (optional arguments absent: printed as `V1 1 0 ac 5 0` -- the text CHANGES) -/

def cVac2 : Cpt :=
  { exCpt "Vac" "V1" "V" "1" ["1", "0"] [some "5", none, none] (some 2) "ac" "" with string := "V1 1 0 ac 5".toList }
theorem cVac2_parsed : parsed "V1 1 0 ac 5" = some cVac2 := by decide +kernel
theorem cVac2_normal : normalCpt G (exRule "Vac") cVac2 = true := by decide +kernel
theorem cVac2_print : printCpt G cVac2 = some "V1 1 0 ac 5 0".toList := by decide +kernel
theorem nv_line_roundtrip_full_Vac2 : RT cVac2 "V1 1 0 ac 5 0" :=
  line_roundtrip_full_table_partial (exRule "Vac") cVac_rule cVac2 cVac2_normal [] (by rfl) (by decide) _ cVac2_print

/-! ### `C1 1 2 4 2`  (rule `C`: no keyword, value and initial condition) and `C1 1 2` (elided default) -/

def cC : Cpt := { exCpt "C" "C1" "C" "1" ["1", "2"] [some "4", some "2"] none "" "" with string := "C1 1 2 4 2".toList }
theorem cC_parsed : parsed "C1 1 2 4 2" = some cC := by decide +kernel
theorem cC_rule : exRule "C" ∈ G.rules := by decide +kernel
theorem cC_normal : normalCpt G (exRule "C") cC = true := by decide +kernel
theorem cC_print : printCpt G cC = some "C1 1 2 4 2".toList := by decide +kernel
theorem nv_line_roundtrip_full_C : RT cC "C1 1 2 4 2" :=
  line_roundtrip_full_table_partial (exRule "C") cC_rule cC cC_normal [] (by rfl) (by decide) _ cC_print

def cC0 : Cpt := { exCpt "C" "C1" "C" "1" ["1", "2"] [some "C1", none] none "" "" with string := "C1 1 2".toList }
theorem cC0_parsed : parsed "C1 1 2" = some cC0 := by decide +kernel
theorem cC0_normal : normalCpt G (exRule "C") cC0 = true := by decide +kernel
theorem cC0_print : printCpt G cC0 = some "C1 1 2".toList := by decide +kernel
theorem nv_line_roundtrip_full_C0 : RT cC0 "C1 1 2" :=
  line_roundtrip_full_table_partial (exRule "C") cC_rule cC0 cC0_normal [] (by rfl) (by decide) _ cC0_print

/-! ### `E1 1 2 opamp 3 4 1e6`  (rule `Eopamp`: nodes, keyword, nodes, three optional arguments with defaults) -/

def cE : Cpt :=
  { exCpt "Eopamp" "E1" "E" "1" ["1", "2", "3", "4"] [some "1e6", some "0", some "0"] (some 2) "opamp" "" with
    string := "E1 1 2 opamp 3 4 1e6".toList }
theorem cE_parsed : parsed "E1 1 2 opamp 3 4 1e6" = some cE := by decide +kernel
theorem cE_rule : exRule "Eopamp" ∈ G.rules := by decide +kernel
theorem cE_normal : normalCpt G (exRule "Eopamp") cE = true := by decide +kernel
theorem cE_print : printCpt G cE = some "E1 1 2 opamp 3 4 1e6 0 0".toList := by decide +kernel
theorem nv_line_roundtrip_full_E : RT cE "E1 1 2 opamp 3 4 1e6 0 0" :=
  line_roundtrip_full_table_partial (exRule "Eopamp") cE_rule cE cE_normal [] (by rfl) (by decide) _ cE_print

/-! ### a line with a braced value and drawing attributes: `R1 1 2 {a + b}; right=2, l=R_1` -/

def cR : Cpt :=
  { exCpt "R" "R1" "R" "1" ["1", "2"] [some "a + b"] none "" "right=2, l=R_1" with
    string := "R1 1 2 {a + b}; right=2, l=R_1".toList }
theorem cR_parsed : parsed "R1 1 2 {a + b}; right=2, l=R_1" = some cR := by decide +kernel
theorem cR_rule : exRule "R" ∈ G.rules := by decide +kernel
theorem cR_normal : normalCpt G (exRule "R") cR = true := by decide +kernel
theorem cR_print : printCpt G cR = some "R1 1 2 {a + b}; right=2, l=R_1".toList := by decide +kernel
def oR : Opts := [("right".toList, .s "2".toList), ("l".toList, .s "R_1".toList)]
theorem nv_line_roundtrip_full_R : RT cR "R1 1 2 {a + b}; right=2, l=R_1" :=
  line_roundtrip_full_table_partial (exRule "R") cR_rule cR cR_normal oR (by rfl) (by decide) _ cR_print

/-! ## 1. Props/C06.lean -/

/-- the error the model's parser returns for a line -/
def parseErr (s : String) : Option Err :=
  match parse G [] [] s.toList with
  | .error e => some e
  | .ok _ => none

def toks (l : List String) : List Str := l.map (·.toList)

theorem nv_split_join :
    split ds (joinWith [' '] (toks ["V1", "1", "n_2", "ac", "{a + (b, c)}", "\"x y\"", "4.7k"]))
      = some (toks ["V1", "1", "n_2", "ac", "{a + (b, c)}", "\"x y\"", "4.7k"]) :=
  split_join ds ' ' (by decide) (by decide) _ (by decide)

theorem nv_plain_atomic : atomic ds "n_2".toList = true :=
  plain_atomic ds "n_2".toList (by decide) (by decide)

theorem nv_scan_braceBal : scan ds "f(x, {y}) + 1".toList (inBrace 0) = some (inBrace 0) :=
  scan_braceBal ds "f(x, {y}) + 1".toList (by decide) 0 0 (by decide)

theorem nv_braced_atomic : atomic ds ('{' :: ("f(x, {y}) + 1".toList ++ ['}'])) = true :=
  braced_atomic ds (by decide) "f(x, {y}) + 1".toList (by decide) (by decide)

theorem nv_arg_format_roundtrip :
    unquote (argFormat ds "f(x, y) + {a b}".toList) = "f(x, y) + {a b}".toList
      ∧ atomic ds (argFormat ds "f(x, y) + {a b}".toList) = true :=
  arg_format_roundtrip ds (by decide) _ (by decide)

/-- `select_spec` on the real rule list of type `V` and the fields of `V1 1 0 ac 5` -/
theorem nv_select_spec :
    selectLoop (toks ["1", "0", "ac", "5"]) ((rulesOf G ['V']).take 4 ++ exRule "Vac" :: (rulesOf G ['V']).drop 5) none
      = (some (exRule "Vac", "ac".toList), some 2) :=
  select_spec (toks ["1", "0", "ac", "5"]) ((rulesOf G ['V']).take 4) ((rulesOf G ['V']).drop 5) (exRule "Vac") 2
    ⟨"ac".toList, .keyword, false, none⟩ "ac".toList (by decide +kernel) (by decide +kernel) (by decide) (by decide)
    (by decide +kernel) none
theorem nv_select_spec_list : (rulesOf G ['V']).take 4 ++ exRule "Vac" :: (rulesOf G ['V']).drop 5 = rulesOf G ['V'] := by
  decide +kernel

theorem nv_select_none : (selectLoop (toks ["1", "0", "5"]) (rulesOf G ['V']) none).1 = none :=
  select_none _ _ (by decide +kernel) none

theorem nv_rejects_too_many :
    process (exRule "R") (toks ["1", "2", "3", "4"]) "R1".toList [] "R1".toList = .error .tooMany :=
  rejects_too_many _ _ _ _ _ (by decide +kernel)

theorem nv_extractNodes_missing :
    extractNodes "R1".toList [] (exRule "R").params (toks ["1"]) = .error .missingNode :=
  extractNodes_missing _ _ _ (toks ["1"]) 1 ⟨"Nm".toList, .node, false, none⟩ (by decide) (by decide +kernel) (by decide)

theorem nv_rejects_too_few_nodes :
    process (exRule "R") (toks ["1"]) "R1".toList [] "R1".toList = .error .missingNode :=
  rejects_too_few_nodes _ _ _ _ _ 1 ⟨"Nm".toList, .node, false, none⟩ (by decide) (by decide +kernel) (by decide)

theorem nv_matchType_none : matchType G "N1".toList = none :=
  matchType_none G _ (by decide +kernel)

theorem nv_rejects_unknown_type : parse G [] [] "N1 1 2 3".toList = .error .unknownCpt :=
  rejects_unknown_type G [] [] "N1 1 2 3".toList "N1".toList (toks ["1", "2", "3"]) (by decide +kernel) (by decide +kernel)
    (by decide +kernel) (by decide +kernel)

def argsC : List Arg := ((exRule "C").params.filter (·.kind.isArg)).map (Arg.init · "C1".toList)

theorem nv_argIndex_none : argIndex argsC "foo".toList = none :=
  argIndex_none _ _ (by decide +kernel)

theorem nv_rejects_unknown_named : assignNamed argsC (toks ["foo=3"]) = .error .unknownParam :=
  rejects_unknown_named argsC "foo=3".toList "foo".toList "3".toList [] [] (by decide) (by decide +kernel)

theorem nv_rejects_value_after_named : assignNamed argsC (toks ["5"]) = .error .valueAfterNamed :=
  rejects_value_after_named argsC "5".toList [] (by decide)

/-- the five kinds of malformed line of the property text, at the level of `parse` (the theorems above stop at
    `process` / `assignNamed` / `split`): evaluated on the model -/
theorem nv_rejects_parse_level :
    parseErr "R1 1" = some .missingNode ∧ parseErr "R1 1 2 3 4" = some .tooMany
    ∧ parseErr "N1 1 2 3" = some .unknownCpt ∧ parseErr "C1 1 2 foo=3" = some .unknownParam
    ∧ parseErr "C1 1 2 IC=3 5" = some .valueAfterNamed
    ∧ parseErr "R1 1 2 {a + b" = some .unbalanced ∧ parseErr "R1 1 2 a}" = some .unbalanced := by decide +kernel

theorem nv_closeOK_step : closeOK (step ds ⟨[], [], none, [], false⟩ '{') :=
  closeOK_step ds _ '{' ⟨by simp, by simp⟩
theorem nv_closeOK_fold : closeOK ("R1 {a".toList.foldl (step ds) ⟨[], [], none, [], false⟩) :=
  closeOK_fold ds _ _ ⟨by simp, by simp⟩
theorem nv_open_brace_stays :
    ("a + b".toList.foldl (step ds) ⟨[], ['{'], some '}', [none], false⟩).close = some '}' :=
  (open_brace_stays ds "a + b".toList (by decide) ⟨[], ['{'], some '}', [none], false⟩ rfl (by simp)).1

theorem nv_rejects_unclosed_brace : split ds ("R1 1 2 ".toList ++ '{' :: "a + b".toList) = none :=
  rejects_unclosed_brace ds _ _ (by decide) (by decide) (by decide) (by decide)

theorem nv_stray_close_not_atomic : atomic ds ("a".toList ++ '}' :: "b".toList) = false :=
  stray_close_not_atomic ds _ _ (by decide)

theorem nv_suffix_value :
    valueParser Gen.Grammar.suffixSrc ("4.7".toList ++ ['k']) = .num ((47 / 10 : Rat) * pow10 3) :=
  suffix_value _ "4.7".toList 'k' 3 (47 / 10) (by decide +kernel) (by decide) (by decide) (by decide) (by decide)
theorem nv_suffix_value_K :
    valueParser Gen.Grammar.suffixSrc ("10".toList ++ ['K']) = .num ((10 : Rat) * pow10 3) :=
  suffix_value_K _ "10".toList 3 10 (by decide +kernel) (by decide) (by decide)
theorem nv_suffix_value_Meg :
    valueParser Gen.Grammar.suffixSrc ("2.2".toList ++ ['M', 'e', 'g']) = .num ((22 / 10 : Rat) * pow10 6) :=
  suffix_value_Meg _ "2.2".toList 6 (22 / 10) (by decide +kernel) (by decide)

/-- `print_normArgs_invariant`: hypotheses satisfiable by a hand-made `c'` … -/
theorem nv_print_idempotent : printCpt G { cVac2 with args := normArgs cVac2.args } = printCpt G cVac2 :=
  print_normArgs_invariant G cVac2 { cVac2 with args := normArgs cVac2.args } rfl rfl rfl rfl rfl rfl rfl rfl

/-- … but NOT by the component that re-parsing the printed text actually returns: for `V1 1 0 ac 5` (printed
    `V1 1 0 ac 5 0`) the re-parsed component has another `string` (hypothesis `hstr` fails), and for an
    option string that `format` re-spaces, another `opts` (hypothesis `hopts` fails).  The statement that covers
    the real re-parse is `line_roundtrip_full_partial` (conclusion `printCpt g c' = some s`). -/
theorem print_idempotent_hyps_fail_on_real_reparse :
    (match parsed "V1 1 0 ac 5 0" with | some c' => c'.string != cVac2.string | none => false) = true
    ∧ (match parsed "R1 1 2; right=2,l=R_1", parsed "R1 1 2; right=2, l=R_1" with
        | some c, some c' => printCpt G c == some "R1 1 2; right=2, l=R_1".toList && c'.opts != c.opts
        | _, _ => false) = true := by decide +kernel

def apsVac : List Param := (shapeOf (exRule "Vac").params).C

/-- `print_parse_args` on the argument parameters `[Value=name] [Phase] [Omega]` of the real rule `Vac`, values of
    `V1 1 0 ac 5 0 3` with the phase left out -/
theorem nv_print_parse_args :
    ∃ args, assignPos (apsVac.map (Arg.init · "V1".toList)) (fmtArgs ds [some ['5'], none, some ['3']]) = .ok (args, [])
      ∧ args.map (·.value) = normArgs [some ['5'], none, some ['3']] :=
  print_parse_args ds (by decide) (by decide) "V1".toList apsVac [some ['5'], none, some ['3']] (by decide +kernel)
    (by intro v hv; simp at hv; rcases hv with rfl | rfl <;> decide) (by decide +kernel)

theorem nv_okValue_zero : okValue ds ['0'] = true := okValue_zero ds (by decide)
theorem nv_assign_fresh :
    (Arg.init ⟨"Value".toList, .value, true, some "name".toList⟩ "R1".toList).assign (argFormat ds "a + b".toList)
      = .ok { name := "Value".toList, value := some "a + b".toList, assigned := true } :=
  assign_fresh ds (by decide) ⟨"Value".toList, .value, true, some "name".toList⟩ "R1".toList "a + b".toList (by decide)
theorem nv_not_named : ¬ (splitEq (argFormat ds "a + b".toList)).length > 1 := not_named ds _ (by decide)

theorem nv_elided_default_restored :
    ⟨"Value".toList, .value, true, some "name".toList⟩ ∈ (exRule "R").params
    ∧ (Arg.init ⟨"Value".toList, .value, true, some "name".toList⟩ "R1".toList).value = some "R1".toList :=
  ⟨by decide +kernel, elided_default_restored _ _ rfl⟩

/-- the parameter of `elided_default_partial_counterexample` is the real `[Time=0]` of rule `SW` -/
theorem nv_elided_counterexample_is_real :
    (⟨['T','i','m','e'], .value, true, some ['0']⟩ : Param) ∈ (exRule "SW").params := by decide +kernel

/-! ## 2. Props/C06Line.lean -/

deriving instance DecidableEq for Except

theorem nv_argFormat_eq_plain : "R1".toList = "R1".toList := argFormat_eq_plain ds _ _ (by decide) (by decide)

def apsC : List Param := (shapeOf (exRule "C").params).C

/-- `args_roundtrip`, elided case: `C1 1 2` (the sole printed argument `C1` is dropped and restored by the default) -/
theorem nv_args_roundtrip_elided :
    ∃ args, assignPos (apsC.map (Arg.init · "C1".toList)) (printedArgs ds "C1".toList [some "C1".toList, none]) = .ok (args, [])
      ∧ args.map (·.value) = normArgs [some "C1".toList, none] :=
  args_roundtrip ds (by decide) (by decide) "C1".toList (by decide) (by decide) apsC [some "C1".toList, none]
    (by decide +kernel) (by intro v hv; simp at hv; subst hv; decide) (by decide +kernel) (by intro _; decide +kernel)
theorem nv_args_roundtrip_elided_is_elided : printedArgs ds "C1".toList [some "C1".toList, none] = [] := by decide

/-- `args_roundtrip`, ordinary case: `C1 1 2 4 2` -/
theorem nv_args_roundtrip :
    ∃ args, assignPos (apsC.map (Arg.init · "C1".toList)) (printedArgs ds "C1".toList [some ['4'], some ['2']]) = .ok (args, [])
      ∧ args.map (·.value) = normArgs [some ['4'], some ['2']] :=
  args_roundtrip ds (by decide) (by decide) "C1".toList (by decide) (by decide) apsC [some ['4'], some ['2']]
    (by decide +kernel) (by intro v hv; simp at hv; rcases hv with rfl | rfl <;> decide) (by decide +kernel)
    (by intro h; exact absurd h (by decide))

/-- `process_roundtrip` on the real rule `Eopamp` (nodes, keyword, nodes, three optional arguments) and the
    fields of `E1 1 2 opamp 3 4 1e6` -/
theorem nv_process_roundtrip :
    process (exRule "Eopamp") (toks ["1", "2"] ++ toks ["opamp"] ++ toks ["3", "4"] ++ toks ["1e6"]) "E1".toList [] "E1".toList
      = .ok (toks ["1", "2"] ++ toks ["3", "4"], [some "1e6".toList, some ['0'], some ['0']]) :=
  process_roundtrip (exRule "Eopamp") ((exRule "Eopamp").params.take 2) (((exRule "Eopamp").params.drop 2).take 1)
    (((exRule "Eopamp").params.drop 3).take 2) ((exRule "Eopamp").params.drop 5) (by decide +kernel)
    (by decide +kernel) (by decide +kernel) (by decide +kernel) (by decide +kernel)
    (toks ["1", "2"]) (toks ["3", "4"]) (toks ["opamp"]) (by decide +kernel) (by decide +kernel) (by decide +kernel) (by decide)
    "E1".toList "E1".toList (toks ["1e6"]) (by decide +kernel) (by decide +kernel)
    [some "1e6".toList, some ['0'], some ['0']]
    [⟨"Ad".toList, some "1e6".toList, true⟩, ⟨"Ac".toList, some ['0'], false⟩, ⟨"Ro".toList, some ['0'], false⟩]
    (by decide +kernel) (by decide)

theorem nv_plainTok_spec : "n_2".toList ≠ [] := (plainTok_spec ds "n_2".toList (by decide)).1
theorem nv_plainTok_lineTok : lineTok ds "n_2".toList := plainTok_lineTok ds _ (by decide)
theorem nv_argFormat_lineTok : lineTok ds (argFormat ds "a + (b, c)".toList) :=
  argFormat_lineTok ds (by decide) _ (by decide) (by decide)
theorem nv_fmtArgs_mem : ∃ v, (some v ∈ [some ['5'], none, some ['3']] ∨ v = ['0']) ∧ ['0'] = argFormat ds v :=
  fmtArgs_mem ds [some ['5'], none, some ['3']] ['0'] (by decide)
theorem nv_printedArgs_lineTok : ∀ t ∈ printedArgs ds "V1".toList [some "a + b".toList, none, some ['3']], lineTok ds t :=
  printedArgs_lineTok ds (by decide) (by decide) _ _
    (by intro v hv; simp at hv; rcases hv with rfl | rfl <;> exact ⟨by decide, by decide⟩)
theorem nv_line_of_tokens :
    split ds (joinWith [' '] (toks ["V1", "1", "0", "ac", "{a + b}", "0", "3"])) = some (toks ["V1", "1", "0", "ac", "{a + b}", "0", "3"]) :=
  (line_of_tokens ds (by decide) (by decide) "V1".toList (toks ["1", "0", "ac", "{a + b}", "0", "3"]) (by
    intro t ht
    have : plainTok ds t = true ∨ t = "{a + b}".toList := by
      simp [toks] at ht
      rcases ht with rfl | rfl | rfl | rfl | rfl | rfl | rfl <;> first | (left; decide) | (right; rfl)
    rcases this with h | rfl
    · exact plainTok_lineTok ds t h
    · exact argFormat_lineTok ds (by decide) "a + b".toList (by decide) (by decide))).1

theorem nv_mem_split_takeWhile :
    ∃ post, rulesOf G ['V'] = (rulesOf G ['V']).takeWhile (fun r' => r' != exRule "Vac") ++ exRule "Vac" :: post :=
  mem_split_takeWhile _ _ (by decide +kernel)
theorem nv_takeWhile_all : "n_2".toList.takeWhile isIdChar = "n_2".toList := takeWhile_all _ _ (by decide)
theorem nv_mem_rulesOf : exRule "Vac" ∈ rulesOf G (exRule "Vac").type := mem_rulesOf G _ cVac_rule

theorem nv_select_keyword :
    selectLoop (toks ["1", "0", "ac", "5"]) (rulesOf G (exRule "Vac").type) none = (some (exRule "Vac", "ac".toList), some 2) :=
  select_keyword G (exRule "Vac") cVac_rule (toks ["1", "0", "ac", "5"]) 2 ⟨"ac".toList, .keyword, false, none⟩
    (by decide +kernel) (by decide +kernel) (by decide) (by decide +kernel)

theorem nv_select_default : (selectLoop (toks ["1", "0", "5"]) (rulesOf G (exRule "V").type) none).1 = none :=
  select_default G (exRule "V") _ (by decide +kernel) (by decide +kernel)

theorem nv_netTokens_plain :
    netTokens G cVac = cVac.name :: ((if cVac.kwpos == some 0 && !cVac.kw.isEmpty then [cVac.kw] else [])
      ++ nodesWithKw cVac.kwpos cVac.kw cVac.nodes 0 ++ printedArgs G.delimiters cVac.name cVac.args) :=
  netTokens_plain G cVac (by decide) (by decide)

/-- `parse_of_tokens` (unfolding lemma) on `R1 1 2 5` -/
theorem nv_parse_of_tokens :
    parse G [] [] "R1 1 2 5".toList
      = .ok ((⟨"R".toList, "R1".toList, ['R'], ['1'], toks ["1", "2"], [some ['5']], none, [], [], "R1 1 2 5".toList⟩ : Cpt), none) :=
  parse_of_tokens G (by decide +kernel) [] "R1 1 2 5".toList "R1 1 2 5".toList none none "R1".toList (toks ["1", "2", "5"]) ['R'] ['1']
    (exRule "R") [] (by decide) (by decide) (by decide) (by decide) (by decide) (by decide +kernel) (by decide) (by decide)
    (by decide +kernel) (exRule "R") [] none (by decide +kernel) (by decide) (by decide) (toks ["1", "2"]) [some ['5']]
    (by decide +kernel) [] (by decide)

theorem nv_opts_format_parse :
    ∃ s, optsFormat [("right".toList, .s []), ("l".toList, .s "R_1=3 ohm".toList), ("mirror".toList, .b false), ("scale".toList, .s "0.5".toList)] = some s
      ∧ optsParse s = .ok [("right".toList, .s []), ("l".toList, .s "R_1=3 ohm".toList), ("mirror".toList, .b false), ("scale".toList, .s "0.5".toList)]
      ∧ strip s = s :=
  opts_format_parse _ (by decide)

theorem nv_opts_format_idempotent : ∃ o', optsParse "right=2, l=R_1".toList = .ok o' ∧ optsFormat o' = some "right=2, l=R_1".toList :=
  opts_format_idempotent oR (by decide) _ (by decide)

theorem nv_optsEq_refl : optsEq oR oR = true := optsEq_refl oR (by decide)

theorem nv_netTokens_reparsed :
    netTokens G { cVac2 with args := normArgs cVac2.args, kwpos := some 2, opts := [], string := "V1 1 0 ac 5 0".toList } = netTokens G cVac2 :=
  netTokens_reparsed G cVac2 (some 2) [] _ (fun _ => rfl)

/-- `kwDistinct_pair` on the real rule list of type `V`: `Vdc` (earlier) and `Vac` share position 2, their keywords differ -/
theorem nv_kwDistinct_pair :
    ((exRule "Vac").params[2]?.map (fun q => lower q.name)) ≠ ((exRule "Vdc").params[2]?.map (fun q => lower q.name)) :=
  kwDistinct_pair ((rulesOf G ['V']).take 4) (exRule "Vac") ((rulesOf G ['V']).drop 5) (by decide +kernel)
    (exRule "Vdc") (by decide +kernel) 2 (by decide +kernel) (by decide +kernel)

/-- `selOK_of_fields` on the real rule `Vac` and the fields of `V1 1 0 ac 5` -/
theorem nv_selOK_of_fields : selOK G (exRule "Vac") (toks ["1", "0", "ac", "5"]) = true :=
  selOK_of_fields G table_wf2 (exRule "Vac") cVac_rule (toks ["1", "0", "ac", "5"])
    (by
      intro p hp
      have : (exRule "Vac").pos = some 2 := by decide +kernel
      rw [this] at hp; cases hp
      exact ⟨⟨"ac".toList, .keyword, false, none⟩, by decide +kernel, by decide⟩)
    (by
      have hpos : (exRule "Vac").pos = some 2 := by decide +kernel
      have hk : ∀ f ∈ toks ["1", "0", "5"], (typeKeywords G (exRule "Vac").type).contains (lower f) = false := by decide +kernel
      intro i f hf hne
      match i, hf with
      | 0, hf => simp [toks] at hf; subst hf; exact hk _ (by decide)
      | 1, hf => simp [toks] at hf; subst hf; exact hk _ (by decide)
      | 2, _ => exact absurd hpos hne
      | 3, hf => simp [toks] at hf; subst hf; exact hk _ (by decide)
      | (n + 4), hf => simp [toks] at hf)

/-! ## 3. Props/C06Netlist.lean -/

theorem nv_splitOn_joinWith_lines :
    splitOn '\n' (joinWith ['\n'] (toks ["V1 1 0 ac 5 0 3", "R1 1 2 {a + b}; right=2, l=R_1", "C1 2 0 4 2"]))
      = toks ["V1 1 0 ac 5 0 3", "R1 1 2 {a + b}; right=2, l=R_1", "C1 2 0 4 2"] :=
  splitOn_joinWith_lines _ (by decide) (by decide)

theorem nv_eltsSet_fresh : eltsSet [cVac, cR] cC = [cVac, cR] ++ [cC] := eltsSet_fresh _ _ (by decide)
theorem nv_preLine_id : preLine "R1 1 2".toList = "R1 1 2".toList := preLine_id _ (by decide)

/-- the netlist  `V1 1 0 ac 5 0 3` / `R1 1 2 {a + b}; right=2, l=R_1` / `C1 1 2 4 2` -/
def net3 : List Cpt := [cVac, cR, cC]
def txt3 : Str := "V1 1 0 ac 5 0 3\nR1 1 2 {a + b}; right=2, l=R_1\nC1 1 2 4 2".toList

theorem net3_normal : ∀ c ∈ net3, ∃ r ∈ G.rules, normalCpt G r c = true ∧ ∃ o, optsParse c.opts = .ok o ∧ optsNormal o = true := by
  intro c hc
  simp only [net3, List.mem_cons, List.not_mem_nil, or_false] at hc
  rcases hc with rfl | rfl | rfl
  · exact ⟨_, cVac_rule, cVac_normal, [], by rfl, by decide⟩
  · exact ⟨_, cR_rule, cR_normal, oR, by rfl, by decide⟩
  · exact ⟨_, cC_rule, cC_normal, [], by rfl, by decide⟩

theorem net3_nonl : ∀ c ∈ net3, ∀ l, printCpt G c = some l → ∀ ch ∈ l, ch ≠ '\n' := by
  intro c hc l hl
  simp only [net3, List.mem_cons, List.not_mem_nil, or_false] at hc
  rcases hc with rfl | rfl | rfl
  · rw [cVac_print] at hl; cases hl; decide
  · rw [cR_print] at hl; cases hl; decide
  · rw [cC_print] at hl; cases hl; decide

theorem net3_lines : net3.mapM (printCpt G) = some (toks ["V1 1 0 ac 5 0 3", "R1 1 2 {a + b}; right=2, l=R_1", "C1 1 2 4 2"]) := by
  simp [net3, List.mapM_cons, cVac_print, cR_print, cC_print, toks]

theorem nv_lines_exist :
    ∃ lcs : List (Str × Cpt), lcs.map (·.1) = toks ["V1 1 0 ac 5 0 3", "R1 1 2 {a + b}; right=2, l=R_1", "C1 1 2 4 2"]
      ∧ (∀ p ∈ lcs, LineOK G p.1 p.2) ∧ lcs.map (·.2.name) = net3.map (·.name) ∧ sameNetlist net3 (lcs.map (·.2)) = true := by
  obtain ⟨lcs, h1, _, h3, h4, h5⟩ := lines_exist_partial G nv_grammarWF net3 net3_normal net3_nonl _ net3_lines
  exact ⟨lcs, h1, fun p hp => (h3 p hp).1, h4, h5⟩

/-- `addLines_lines` with the `LineOK` facts that the line-level theorem provides for the three lines -/
theorem nv_addLines_lines :
    ∃ cs', addLines G NState.empty (toks ["V1 1 0 ac 5 0 3", "R1 1 2 {a + b}; right=2, l=R_1", "C1 1 2 4 2"]) = .ok ⟨cs', []⟩
      ∧ sameNetlist net3 cs' = true := by
  obtain ⟨lcs, h1, h3, h4, h5⟩ := nv_lines_exist
  have := addLines_lines G lcs h3 (by rw [h4]; decide) NState.empty (by simp [NState.empty])
  rw [h1] at this
  exact ⟨_, by simpa [NState.empty] using this, h5⟩

theorem nv_netlist_roundtrip :
    ∃ cs', parseNetlist G txt3 = .ok ⟨cs', []⟩ ∧ sameNetlist net3 cs' = true ∧ printNetlist G ⟨cs', []⟩ = some txt3 :=
  netlist_roundtrip_partial G nv_grammarWF net3 (by decide) net3_normal (by decide) net3_nonl txt3 (by decide +kernel)

theorem nv_netlist_roundtrip_table :
    ∃ cs', parseNetlist G txt3 = .ok ⟨cs', []⟩ ∧ sameNetlist net3 cs' = true ∧ printNetlist G ⟨cs', []⟩ = some txt3 :=
  netlist_roundtrip_table_partial net3 (by decide) net3_normal (by decide) net3_nonl txt3 (by decide +kernel)

/-! ## 4. Props/C06Nested.lean -/

/-- `a{b, {c}} "p q"` is balanced (the value of the file's own example) -/
theorem balEx : Bal '}' "a{b, {c}} \"p q\"".toList :=
  Bal.plain _ 'a' _ (by decide) (by decide) (by decide)
    (Bal.brace _ "b, {c}".toList " \"p q\"".toList
      (Bal.plain _ 'b' _ (by decide) (by decide) (by decide) (Bal.plain _ ',' _ (by decide) (by decide) (by decide)
        (Bal.plain _ ' ' _ (by decide) (by decide) (by decide) (Bal.brace _ ['c'] []
          (Bal.plain _ 'c' _ (by decide) (by decide) (by decide) (Bal.nil _)) (Bal.nil _)))))
      (Bal.plain _ ' ' _ (by decide) (by decide) (by decide) (Bal.quote "p q".toList []
        (Bal.plain _ 'p' _ (by decide) (by decide) (by decide) (Bal.plain _ ' ' _ (by decide) (by decide) (by decide)
          (Bal.plain _ 'q' _ (by decide) (by decide) (by decide) (Bal.nil _)))) (Bal.nil _))))

/-- the printed token `{a{b, {c}} "p q"}` is a `Tok` -/
theorem tokEx : Tok ds ('{' :: ("a{b, {c}} \"p q\"".toList ++ '}' :: [])) := Tok.brace _ [] balEx Tok.nil

theorem nv_scan_bal : scan ds "a{b, {c}} \"p q\"".toList (some '}', [none]) = some (some '}', [none]) :=
  scan_bal ds balEx (Or.inl rfl) none []
theorem nv_scan_tok : scan ds ('{' :: ("a{b, {c}} \"p q\"".toList ++ '}' :: [])) (none, []) = some (none, []) :=
  scan_tok ds (by decide) (by decide) tokEx
theorem nv_nested_atomic : atomic ds ('{' :: ("a{b, {c}} \"p q\"".toList ++ '}' :: [])) = true :=
  nested_atomic ds (by decide) (by decide) _ (by simp) tokEx
theorem nv_split_join_nested :
    split ds (joinWith [' '] ["R1".toList, ['1'], ['2'], '{' :: ("a{b, {c}} \"p q\"".toList ++ '}' :: [])])
      = some ["R1".toList, ['1'], ['2'], '{' :: ("a{b, {c}} \"p q\"".toList ++ '}' :: [])] :=
  split_join_nested ds (by decide) (by decide) (by decide) _ (by
    intro t ht
    simp only [List.mem_cons, List.not_mem_nil, or_false] at ht
    rcases ht with rfl | rfl | rfl | rfl
    · exact ⟨by decide, Tok.plain 'R' _ (by decide) (by decide) (by decide) (by decide)
        (Tok.plain '1' _ (by decide) (by decide) (by decide) (by decide) Tok.nil)⟩
    · exact ⟨by decide, Tok.plain '1' _ (by decide) (by decide) (by decide) (by decide) Tok.nil⟩
    · exact ⟨by decide, Tok.plain '2' _ (by decide) (by decide) (by decide) (by decide) Tok.nil⟩
    · exact ⟨by simp, tokEx⟩)
/-- `tok_of_bal`: `a{b{c}}d` (no delimiter anywhere) -/
theorem nv_tok_of_bal : Tok ds ['a', '{', 'b', '{', 'c', '}', '}', 'd'] :=
  tok_of_bal ds (t := ['a', '{', 'b', '{', 'c', '}', '}', 'd'])
    (Bal.plain '}' 'a' _ (by decide) (by decide) (by decide)
      (Bal.brace '}' ['b', '{', 'c', '}'] ['d']
        (Bal.plain _ 'b' _ (by decide) (by decide) (by decide)
          (Bal.brace _ ['c'] [] (Bal.plain _ 'c' _ (by decide) (by decide) (by decide) (Bal.nil _)) (Bal.nil _)))
        (Bal.plain _ 'd' _ (by decide) (by decide) (by decide) (Bal.nil _)))) rfl (by decide)
theorem nv_okValue_of_nested : okValue ds "a{b, {c}} \"p q\"".toList = true :=
  okValue_of_nested ds (by decide) (by decide) _ (by decide) (by decide) (by decide) (by decide) balEx
theorem nv_arg_format_roundtrip_nested :
    unquote (argFormat ds "a{b, {c}} \"p q\"".toList) = "a{b, {c}} \"p q\"".toList
      ∧ atomic ds (argFormat ds "a{b, {c}} \"p q\"".toList) = true :=
  arg_format_roundtrip_nested ds (by decide) (by decide) _ (by decide) (by decide) (by decide) (by decide) balEx

/-! ## 5. Props/C06Fixed.lean -/

theorem nv_arg_format_fixed_unquote : unquote (argFormatC ⟨true, true, true⟩ ds [] "{a}".toList) = "{a}".toList :=
  arg_format_fixed_unquote ⟨true, true, true⟩ rfl ds [] _
theorem nv_arg_format_fixed_not_keyword :
    (typeKeywords G ['V']).contains (lower (argFormatC ⟨true, true, true⟩ ds (typeKeywords G ['V']) "AC".toList)) = false :=
  arg_format_fixed_not_keyword ⟨true, true, true⟩ rfl ds _ (by decide +kernel) _
/-- `elision_fixed`: the hypothesis (an argument IS omitted) holds for `R1` with sole argument `R1` -/
theorem nv_elision_fixed : defaultIsName G "R1".toList [] = true :=
  elision_fixed ⟨true, true, true⟩ rfl G "R1".toList [] ["R1".toList] (by decide +kernel)
theorem nv_fixes_change_nothing_else :
    argFormatC ⟨true, true, true⟩ ds (typeKeywords G ['V']) "f(x, y) + 1".toList = argFormat ds "f(x, y) + 1".toList :=
  fixes_change_nothing_else _ ds _ _ (by decide) (by decide) (by decide +kernel)

/-! ## boundaries: what the hypothesis predicates EXCLUDE although Lcapy accepts it
    (each of these is accepted by the model's parser -- `parsed … = some _` -- and by the real parser) -/

/-- a namespaced name is accepted by the parser but is NOT in normal form (`nameOK` forbids `.`):
    `line_roundtrip_partial*` / `netlist_roundtrip_partial*` say nothing about `a.R1 1 2 3` -/
theorem boundary_namespaced_not_normal :
    (parsed "a.R1 1 2 3").isSome = true
    ∧ ∀ r ∈ G.rules, (match parsed "a.R1 1 2 3" with | some c => normalCpt G r c | none => true) = false := by
  decide +kernel

/-- an anonymous component (`W 1 2`) is accepted but is NOT in normal form -/
theorem boundary_anonymous_not_normal :
    (match parse G [] [] "W 1 2; right".toList with
      | .ok (c, some _) => G.rules.all (fun r => !normalCpt G r c)
      | _ => false) = true := by decide +kernel

/-- the most common drawing-attribute style `l={R_1}` / `l=$R_{1}$` (a value with braces) parses and prints back
    identically in the model, but its option table is NOT `optsNormal`: `opts_format_parse`,
    `line_roundtrip_full_partial*`, `netlist_roundtrip_partial*` do not apply to it -/
theorem boundary_braced_option_not_normal :
    (match optsParse "right=2, l={R_1}".toList with | .ok o => optsNormal o | .error _ => true) = false
    ∧ (match optsParse "l=$R_{1}$".toList with | .ok o => optsNormal o | .error _ => true) = false
    ∧ (match optsParse "l={a, b}".toList with | .ok o => optsNormal o | .error _ => true) = false := by decide +kernel

/-- values excluded by `okValue`: empty, starting with `{` or `"`, `a=b`, unbalanced -/
theorem boundary_okValue :
    okValue ds [] = false ∧ okValue ds "{a}".toList = false ∧ okValue ds "\"x y\"".toList = false
    ∧ okValue ds "a=b".toList = false ∧ okValue ds "a} {b".toList = false := by decide +kernel

/-- `trailingNoneOK` excludes a final `None` whose parameter has a default (`Ac=0` of `E`): such a
    component never comes out of the parser (it fills in the default) -/
theorem boundary_trailingNone :
    normalCpt G (exRule "Eopamp")
      (exCpt "Eopamp" "E1" "E" "1" ["1", "2", "3", "4"] [some "1e6", some "0", none] (some 2) "opamp" "") = false := by
  decide +kernel

/-! ## the tie: which printer does the driver run? -/

/-- the driver prints with `printCptC theCfg`; for the checked-out source no repair is present … -/
theorem tie_theCfg : theCfg = ⟨false, false, false⟩ := by decide
/-- … so the driver's printer IS the `printCpt` of the round-trip theorems (NOT stated in any Props file:
    when a repair lands in /repo, `theCfg` changes and `line_roundtrip_partial*` are about a printer the driver
    no longer runs, while every Props file still builds) -/
theorem tie_driver_printer (c : Cpt) : printCptC theCfg G c = printCpt G c := by
  rw [tie_theCfg]; exact printCptC_current G c

/-- the same for the netlist printer of `c06.rt` (`printNetlistC theCfg`) and the `printNetlist` of `netlist_roundtrip_partial` -/
theorem tie_driver_netlist_printer (s : NState) : printNetlistC theCfg G s = printNetlist G s := by
  have : printCptC theCfg G = printCpt G := funext tie_driver_printer
  simp [printNetlistC, printNetlist, this]

/-- `netsubs_is_print` is the first branch of the definition of `netSubs` (it holds by `rfl`) -/
theorem netsubs_is_print_is_rfl (cfg : PrinterCfg) (g : Grammar) (c : Cpt) : netSubs true cfg g c = printCptC cfg g c := rfl

end Lcapy.NonVacuity.C06
