/-
  Independent audit (auditA), property C06: machine-checked NON-VACUITY witnesses for the theorems of
  Props/C06.lean, C06Line.lean, C06Netlist.lean, C06Nested.lean, C06Fixed.lean -- and machine-checked
  statements of what the hypothesis predicates EXCLUDE (section "boundaries").  New file; nothing else
  is modified.  Report: /tmp/scratch/auditA/C06.md.
-/
import Lcapy.Props.C06
import Lcapy.Props.C06Line
import Lcapy.Props.C06Netlist
import Lcapy.Props.C06Nested
import Lcapy.Props.C06Fixed
namespace Lcapy.NonVacuity.C06
open Lcapy.Parser Lcapy.Spec.Netlist Lcapy.C06

abbrev ds : List Char := Gen.Grammar.delimiters
abbrev G : Grammar := theGrammar

/-! ## 0. the priority predicates on REAL rules of the generated table -/

/-- the component the model's parser returns for a line (empty `used`, empty namespace) -/
def parsed (s : String) : Option Cpt :=
  match parse G [] [] s.toList with
  | .ok (c, none) => some c
  | _ => none

/-- `grammarWF` holds of the regenerated table (this is `table_wf2`; complete table, not a sample) -/
theorem nv_grammarWF : grammarWF G = true := table_wf2

/-- `ruleWF` (C06.lean) holds of every rule of the table -/
theorem nv_ruleWF_all : G.rules.all ruleWF = true := table_wf.2.1

/-- canonical component of a rule: nodes `n0, n1, …`, every argument given as `5`, id `7`, option `right` -/
def canon (r : Rule) : Cpt :=
  let sh := shapeOf r.params
  { classname := r.classname, name := r.type ++ ['7'], ctype := r.type, cid := ['7'],
    nodes := (List.range (sh.A.length + sh.B.length)).map (fun i => 'n' :: natToStr i),
    args := sh.C.map (fun _ => some ['5']), kwpos := r.pos, kw := kwName r, opts := "right".toList, string := [] }

/-- **`normalCpt` is satisfiable for EVERY one of the 142 rules** (so `line_roundtrip_table` is not vacuous
    for any rule): the canonical component of each rule is in normal form. -/
theorem nv_normalCpt_every_rule : G.rules.all (fun r => normalCpt G r (canon r)) = true := by decide +kernel

/-- … and every such component is printable, with a normal option table -/
theorem nv_canon_printable :
    G.rules.all (fun r => (printCpt G (canon r)).isSome
      && (match optsParse (canon r).opts with | .ok o => optsNormal o | .error _ => false)) = true := by decide +kernel

/-! ### `V1 1 0 ac 5 0 3`  (rule `Vac`: keyword after two nodes, three optional arguments, all given) -/

def cVac : Cpt :=
  { exCpt "Vac" "V1" "V" "1" ["1", "0"] [some "5", some "0", some "3"] (some 2) "ac" "" with string := "V1 1 0 ac 5 0 3".toList }
theorem cVac_parsed : parsed "V1 1 0 ac 5 0 3" = some cVac := by decide +kernel
theorem cVac_rule : exRule "Vac" ∈ G.rules := by decide +kernel
theorem cVac_normal : normalCpt G (exRule "Vac") cVac = true := by decide +kernel
theorem cVac_print : printCpt G cVac = some "V1 1 0 ac 5 0 3".toList := by decide +kernel

/-- `line_roundtrip` applied to the component parsed from `V1 1 0 ac 5 0 3` -/
theorem nv_line_roundtrip_Vac :
    ∃ kp os, (∀ used, parse G used [] "V1 1 0 ac 5 0 3".toList
        = .ok ({ cVac with args := normArgs cVac.args, kwpos := kp, opts := os, string := "V1 1 0 ac 5 0 3".toList }, none))
      ∧ (cVac.kw ≠ [] → kp = cVac.kwpos) := by
  obtain ⟨kp, os, h1, h2, _⟩ := line_roundtrip G nv_grammarWF (exRule "Vac") cVac_rule cVac cVac_normal _ cVac_print
  exact ⟨kp, os, h1, h2⟩

theorem nv_line_roundtrip_table_Vac :=
  line_roundtrip_table (exRule "Vac") cVac_rule cVac cVac_normal _ cVac_print

theorem nv_line_roundtrip_full_Vac :=
  line_roundtrip_full G nv_grammarWF (exRule "Vac") cVac_rule cVac cVac_normal [] (by decide) (by decide) _ cVac_print

theorem nv_line_roundtrip_full_table_Vac :
    ∃ c', (∀ used, parse G used [] "V1 1 0 ac 5 0 3".toList = .ok (c', none)) ∧ sameCpt cVac c' = true
      ∧ printCpt G c' = some "V1 1 0 ac 5 0 3".toList ∧ c'.name = cVac.name :=
  line_roundtrip_full_table (exRule "Vac") cVac_rule cVac cVac_normal [] (by decide) (by decide) _ cVac_print

/-! ### `V1 1 0 ac 5`  (optional arguments absent: printed as `V1 1 0 ac 5 0` -- the text CHANGES) -/

def cVac2 : Cpt :=
  { exCpt "Vac" "V1" "V" "1" ["1", "0"] [some "5", none, none] (some 2) "ac" "" with string := "V1 1 0 ac 5".toList }
theorem cVac2_parsed : parsed "V1 1 0 ac 5" = some cVac2 := by decide +kernel
theorem cVac2_normal : normalCpt G (exRule "Vac") cVac2 = true := by decide +kernel
theorem cVac2_print : printCpt G cVac2 = some "V1 1 0 ac 5 0".toList := by decide +kernel
theorem nv_line_roundtrip_full_Vac2 :=
  line_roundtrip_full_table (exRule "Vac") cVac_rule cVac2 cVac2_normal [] (by decide) (by decide) _ cVac2_print

/-! ### `C1 1 2 4 2`  (rule `C`: no keyword, value and initial condition) and `C1 1 2` (elided default) -/

def cC : Cpt := { exCpt "C" "C1" "C" "1" ["1", "2"] [some "4", some "2"] none "" "" with string := "C1 1 2 4 2".toList }
theorem cC_parsed : parsed "C1 1 2 4 2" = some cC := by decide +kernel
theorem cC_rule : exRule "C" ∈ G.rules := by decide +kernel
theorem cC_normal : normalCpt G (exRule "C") cC = true := by decide +kernel
theorem cC_print : printCpt G cC = some "C1 1 2 4 2".toList := by decide +kernel
theorem nv_line_roundtrip_full_C :=
  line_roundtrip_full_table (exRule "C") cC_rule cC cC_normal [] (by decide) (by decide) _ cC_print

def cC0 : Cpt := { exCpt "C" "C1" "C" "1" ["1", "2"] [some "C1", none] none "" "" with string := "C1 1 2".toList }
theorem cC0_parsed : parsed "C1 1 2" = some cC0 := by decide +kernel
theorem cC0_normal : normalCpt G (exRule "C") cC0 = true := by decide +kernel
theorem cC0_print : printCpt G cC0 = some "C1 1 2".toList := by decide +kernel
theorem nv_line_roundtrip_full_C0 :=
  line_roundtrip_full_table (exRule "C") cC_rule cC0 cC0_normal [] (by decide) (by decide) _ cC0_print

/-! ### `E1 1 2 opamp 3 4 1e6`  (rule `Eopamp`: nodes, keyword, nodes, three optional arguments with defaults) -/

def cE : Cpt :=
  { exCpt "Eopamp" "E1" "E" "1" ["1", "2", "3", "4"] [some "1e6", some "0", some "0"] (some 2) "opamp" "" with
    string := "E1 1 2 opamp 3 4 1e6".toList }
theorem cE_parsed : parsed "E1 1 2 opamp 3 4 1e6" = some cE := by decide +kernel
theorem cE_rule : exRule "Eopamp" ∈ G.rules := by decide +kernel
theorem cE_normal : normalCpt G (exRule "Eopamp") cE = true := by decide +kernel
theorem cE_print : printCpt G cE = some "E1 1 2 opamp 3 4 1e6 0 0".toList := by decide +kernel
theorem nv_line_roundtrip_full_E :=
  line_roundtrip_full_table (exRule "Eopamp") cE_rule cE cE_normal [] (by decide) (by decide) _ cE_print

/-! ### a line with a braced value and drawing attributes: `R1 1 2 {a + b}; right=2, l=R_1` -/

def cR : Cpt :=
  { exCpt "R" "R1" "R" "1" ["1", "2"] [some "a + b"] none "" "right=2, l=R_1" with
    string := "R1 1 2 {a + b}; right=2, l=R_1".toList }
theorem cR_parsed : parsed "R1 1 2 {a + b}; right=2, l=R_1" = some cR := by decide +kernel
theorem cR_rule : exRule "R" ∈ G.rules := by decide +kernel
theorem cR_normal : normalCpt G (exRule "R") cR = true := by decide +kernel
theorem cR_print : printCpt G cR = some "R1 1 2 {a + b}; right=2, l=R_1".toList := by decide +kernel
def oR : Opts := [("right".toList, .s "2".toList), ("l".toList, .s "R_1".toList)]
theorem nv_line_roundtrip_full_R :=
  line_roundtrip_full_table (exRule "R") cR_rule cR cR_normal oR (by decide +kernel) (by decide) _ cR_print

/-! ## boundaries: what the hypothesis predicates EXCLUDE although Lcapy accepts it
    (each of these is accepted by the model's parser -- `parsed … = some _` -- and by the real parser) -/

/-- a namespaced name is accepted by the parser but is NOT in normal form (`nameOK` forbids `.`):
    `line_roundtrip*` / `netlist_roundtrip*` say nothing about `a.R1 1 2 3` -/
theorem boundary_namespaced_not_normal :
    (parsed "a.R1 1 2 3").isSome = true
    ∧ ∀ r ∈ G.rules, (match parsed "a.R1 1 2 3" with | some c => normalCpt G r c | none => true) = false := by
  decide +kernel

/-- an anonymous component (`W 1 2`) is accepted but is NOT in normal form -/
theorem boundary_anonymous_not_normal :
    (match parse G [] [] "W 1 2; right".toList with
      | .ok (c, some _) => G.rules.all (fun r => !normalCpt G r c)
      | _ => false) = true := by decide +kernel

/-- the most common drawing-attribute style `l={R_1}` / `l=$R_{1}$` (a value with braces) parses and prints back
    identically in the model, but its option table is NOT `optsNormal`: `opts_format_parse`,
    `line_roundtrip_full*`, `netlist_roundtrip*` do not apply to it -/
theorem boundary_braced_option_not_normal :
    (match optsParse "right=2, l={R_1}".toList with | .ok o => optsNormal o | .error _ => true) = false
    ∧ (match optsParse "l=$R_{1}$".toList with | .ok o => optsNormal o | .error _ => true) = false
    ∧ (match optsParse "l={a, b}".toList with | .ok o => optsNormal o | .error _ => true) = false := by decide +kernel

/-- values excluded by `okValue`: empty, starting with `{` or `"`, `a=b`, unbalanced -/
theorem boundary_okValue :
    okValue ds [] = false ∧ okValue ds "{a}".toList = false ∧ okValue ds "\"x y\"".toList = false
    ∧ okValue ds "a=b".toList = false ∧ okValue ds "a} {b".toList = false := by decide +kernel

/-- `trailingNoneOK` excludes a final `None` whose parameter has a default (`Ac=0` of `E`): such a
    component never comes out of the parser (it fills in the default) -/
theorem boundary_trailingNone :
    normalCpt G (exRule "Eopamp")
      (exCpt "Eopamp" "E1" "E" "1" ["1", "2", "3", "4"] [some "1e6", some "0", none] (some 2) "opamp" "") = false := by
  decide +kernel

/-! ## the tie: which printer does the driver run? -/

/-- the driver prints with `printCptC theCfg`; for the checked-out source no repair is present … -/
theorem tie_theCfg : theCfg = ⟨false, false, false⟩ := by decide
/-- … so the driver's printer IS the `printCpt` of the round-trip theorems (NOT stated in any Props file:
    when a repair lands in /repo, `theCfg` changes and `line_roundtrip*` are about a printer the driver
    no longer runs, while every Props file still builds) -/
theorem tie_driver_printer (c : Cpt) : printCptC theCfg G c = printCpt G c := by
  rw [tie_theCfg]; exact printCptC_current G c

end Lcapy.NonVacuity.C06
