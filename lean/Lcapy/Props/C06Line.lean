/-
  C06, round 3: the LINE-LEVEL round trip  parse (print c) = c  for every rule of the grammar table,
  generic in the rule, and its netlist-level composition.
-/
import Lcapy.Props.C06
import Lcapy.Proofs.ParserRoundTrip
namespace Lcapy.C06
open Lcapy.Parser Lcapy.Spec.Netlist

theorem argFormat_eq_plain (ds : List Char) (v w : Str) (hw : w.head? ≠ some '{') (h : argFormat ds v = w) : v = w := by
  unfold argFormat at h
  split at h
  · exact h
  · split at h
    · subst h; simp at hw
    · exact h

/-- the printed arguments after the elision of a sole argument equal to the name -/
def printedArgs (ds : List Char) (relname : Str) (vals : List (Option Str)) : List Str :=
  if fmtElided ds relname vals then [] else fmtArgs ds vals

theorem fmtArgs_length_le (ds : List Char) (vals : List (Option Str)) : (fmtArgs ds vals).length ≤ vals.length := by
  induction vals with
  | nil => simp [fmtArgs]
  | cons x rest ih =>
    cases rest with
    | nil => cases x <;> simp [fmtArgs]
    | cons y r => cases x <;> simp [fmtArgs] <;> simpa using ih

theorem printedArgs_length_le (ds : List Char) (relname : Str) (vals : List (Option Str)) :
    (printedArgs ds relname vals).length ≤ vals.length := by
  unfold printedArgs
  split
  · simp
  · exact fmtArgs_length_le ds vals

/-- **print → parse of the arguments, including the elided name default.** -/
theorem args_roundtrip (ds : List Char) (hb : ds.contains '{' = false) (h0 : ds.contains '0' = false)
    (relname : Str) (hr0 : relname.head? ≠ some '0') (hr1 : relname.head? ≠ some '{')
    (C : List Param) (vals : List (Option Str)) (hlen : vals.length = C.length)
    (hok : ∀ v, some v ∈ vals → okValue ds v = true) (htr : trailingNoneOK C vals = true)
    (hel : fmtElided ds relname vals = true → (C.head?.bind (·.default)) = some ['n','a','m','e']) :
    ∃ args, assignPos (C.map (Arg.init · relname)) (printedArgs ds relname vals) = .ok (args, [])
      ∧ args.map (·.value) = normArgs vals := by
  unfold printedArgs
  by_cases he : fmtElided ds relname vals = true
  · simp only [he, ↓reduceIte]
    refine ⟨C.map (Arg.init · relname), by cases C <;> simp [assignPos], ?_⟩
    have hdef := hel he
    unfold fmtElided at he
    simp only [Bool.and_eq_true, beq_iff_eq] at he
    obtain ⟨hl, hh⟩ := he
    have h0' : '0' ∉ ds := by simpa using h0
    match vals, C, hlen with
    | [], _, _ => simp [fmtArgs] at hl
    | [none], _, _ => simp [fmtArgs] at hl
    | [some v], [p], _ =>
      simp only [fmtArgs, List.head?_cons, Option.some.injEq] at hh
      have hv := argFormat_eq_plain ds v relname hr1 hh
      simp only [List.head?_cons, Option.bind_some] at hdef
      simp [normArgs, Arg.init, hdef, hv]
    | [some v, none], [p, q], _ =>
      simp only [fmtArgs, List.head?_cons, Option.some.injEq] at hh
      have hv := argFormat_eq_plain ds v relname hr1 hh
      simp only [List.head?_cons, Option.bind_some] at hdef
      simp only [trailingNoneOK] at htr
      have hq : q.default = none := by simpa using htr
      simp [normArgs, Arg.init, hdef, hv, hq]
    | [none, none], _, _ =>
      simp only [fmtArgs, List.head?_cons, Option.some.injEq] at hh
      have : argFormat ds ['0'] = ['0'] := by simp [argFormat, h0']
      rw [this] at hh
      subst hh
      simp at hr0
    | [_, some w], _, _ => cases ‹Option Str› <;> simp [fmtArgs] at hl
    | a :: b :: c :: rest, _, _ =>
      have : 2 ≤ (fmtArgs ds (a :: b :: c :: rest)).length := by
        cases a <;> cases b <;> cases c <;> cases rest <;> simp [fmtArgs]
      omega
  · have he' : fmtElided ds relname vals = false := by simpa using he
    simp only [he', Bool.false_eq_true, ↓reduceIte]
    exact print_parse_args ds hb h0 relname C vals hlen hok htr


/-- **print → parse of the fields of one rule** (generic in the rule): the parameters are nodes `A`, an
    optional keyword `K`, nodes `B`, arguments `C`; the fields are laid out accordingly. -/
theorem process_roundtrip (r : Rule) (A K B C : List Param) (hparams : r.params = A ++ K ++ B ++ C)
    (hA : A.all (·.kind.isNode) = true) (hK : K.all (fun p => !p.kind.isNode && !p.kind.isArg) = true)
    (hB : B.all (·.kind.isNode) = true) (hC : C.all (·.kind.isArg) = true)
    (nA nB KW : List Str) (hlA : nA.length = A.length) (hlK : KW.length = K.length) (hlB : nB.length = B.length)
    (hdot : ∀ n ∈ nA ++ nB, n.head? ≠ some '.')
    (name relname : Str) (fa : List Str) (hfa : fa.length ≤ C.length)
    (hopt : (C.drop fa.length).all (·.optional) = true)
    (vals : List (Option Str)) (args : List Arg)
    (hassign : assignPos (C.map (Arg.init · relname)) fa = .ok (args, []))
    (hvals : args.map (·.value) = vals) :
    process r (nA ++ KW ++ nB ++ fa) name [] relname = .ok (nA ++ nB, vals) := by
  have hKn : K.all (fun p => !p.kind.isNode) = true := by
    simp only [List.all_eq_true] at hK ⊢
    intro x hx; have := hK x hx; simp only [Bool.and_eq_true] at this; exact this.1
  have hN : (A ++ K ++ B).all (fun p => !p.kind.isArg) = true := by
    simp only [List.all_append, Bool.and_eq_true, List.all_eq_true] at hA hK hB ⊢
    refine ⟨⟨?_, ?_⟩, ?_⟩
    · intro x hx; simp [isNode_not_isArg _ (hA x hx)]
    · intro x hx; exact (hK x hx).2
    · intro x hx; simp [isNode_not_isArg _ (hB x hx)]
  have hlenN : (A ++ K ++ B).length = (nA ++ KW ++ nB).length := by simp [hlA, hlK, hlB]
  -- nodes
  have hnodes : extractNodes name [] r.params (nA ++ KW ++ nB ++ fa) = .ok (nA ++ nB) := by
    rw [hparams]
    have e1 : A ++ K ++ B ++ C = A ++ (K ++ (B ++ C)) := by simp only [List.append_assoc]
    have e2 : nA ++ KW ++ nB ++ fa = nA ++ (KW ++ (nB ++ fa)) := by simp only [List.append_assoc]
    rw [e1, e2]
    apply extractNodes_nodes name A hA nA hlA (fun n hn => hdot n (by simp [hn]))
    rw [extractNodes_skips name [] K hKn KW hlK]
    have := extractNodes_nodes name B hB nB hlB (fun n hn => hdot n (by simp [hn])) C fa [] (extractNodes_args name [] C hC fa)
    simpa using this
  -- arguments
  have hm2 : m2Of r.params 0 0 = (A ++ K ++ B).length := by
    rw [hparams, m2Of_nonargs (A ++ K ++ B) hN C 0 0, m2Of_args C hC]
    cases h : (A ++ K ++ B) with
    | nil => simp
    | cons a b => simp
  have hmiss : missingArg r.params 0 (nA ++ KW ++ nB ++ fa).length = false := by
    rw [hparams, missingArg_nonargs (A ++ K ++ B) hN C 0]
    have : (nA ++ KW ++ nB ++ fa).length = (0 + (A ++ K ++ B).length) + fa.length := by
      rw [List.length_append, ← hlenN]; simp
    rw [this]
    exact missingArg_args C _ fa.length hopt
  have hfilter : r.params.filter (·.kind.isArg) = C := by
    rw [hparams]; exact filter_isArg_nonargs _ C hN hC
  have hdrop : (nA ++ KW ++ nB ++ fa).drop (m2Of r.params 0 0) = fa := by
    rw [hm2, hlenN]; simp
  have hargs : extractArgs r (nA ++ KW ++ nB ++ fa) relname = .ok vals := by
    unfold extractArgs
    simp only [hmiss, Bool.false_eq_true, ↓reduceIte, hfilter, hdrop, hassign, assignNamed, hvals]
  have hlen : ¬ (nA ++ KW ++ nB ++ fa).length > r.params.length := by
    rw [hparams]
    have : (A ++ K ++ B ++ C).length = (A ++ K ++ B).length + C.length := by simp only [List.length_append]
    rw [this, List.length_append (as := nA ++ KW ++ nB), ← hlenN]
    omega
  unfold process
  simp only [hlen, ↓reduceIte, hnodes, hargs]


/-- `Parser.parse` on a line whose tokenisation, name analysis and rule list are known -/
theorem parse_of_tokens (g : Grammar) (hok : g.ok = true) (used : List Str) (s head : Str) (sel : Option (Rule × Str)) (tail : Option Str)
    (name0 : Str) (fields : List Str) (ty cid : Str) (r0 : Rule) (rs : List Rule)
    (hstrip : strip s = s) (hdir : isDirective g s = false)
    (hsf : splitFirst ';' s = (head, tail))
    (hsplit : split g.delimiters head = some (name0 :: fields))
    (hdot : splitOn '.' name0 = [name0])
    (hm : matchType g name0 = some ty)
    (hcid : (name0.drop ty.length).takeWhile isIdChar = cid)
    (hanon : ((cid.isEmpty && (ty == ['A'] || ty == ['W'] || ty == ['O'] || ty == ['P'])) || cid == ['?']) = false)
    (hrules : rulesOf g ty = r0 :: rs)
    (rule : Rule) (kw : Str) (kp : Option Nat)
    (hsel : selectLoop fields (r0 :: rs) none = (sel, kp))
    (hrule : rule = (sel.map (·.1)).getD r0)
    (hkw : kw = (sel.map (·.2)).getD [])
    (nodes : List Str) (args : List (Option Str))
    (hproc : process rule fields name0 [] name0 = .ok (nodes, args))
    (os : Str) (hos : os = (tail.map strip).getD []) :
    parse g used [] s = .ok ((⟨rule.classname, name0, ty, cid, nodes, args, kp, kw, os, s⟩ : Cpt), none) := by
  subst hrule hkw hos
  unfold parse
  simp only [hok, hstrip, hdir, hsf, hsplit, hdot]
  cases sel with
  | none =>
    cases tail <;> simp at hproc <;> simp [hm, hcid, hanon, hrules, hsel, hproc]
  | some rk =>
    obtain ⟨r1, k1⟩ := rk
    cases tail <;> simp at hproc <;> simp [hm, hcid, hanon, hrules, hsel, hproc]


/-! ### tokens of a printed line -/

/-- what a token must satisfy for the line-level argument: it is a `split` token, contains no `;`,
    and does not end in white space -/
def lineTok (ds : List Char) (t : Str) : Prop :=
  atomic ds t = true ∧ (∀ c ∈ t, c ≠ ';') ∧ (∀ c, t.getLast? = some c → isWs c = false)

theorem plainTok_spec (ds : List Char) (t : Str) (h : plainTok ds t = true) :
    t ≠ [] ∧ ∀ c ∈ t, ds.contains c = false ∧ c ≠ '{' ∧ c ≠ '}' ∧ c ≠ '"' ∧ c ≠ ';' ∧ isWs c = false := by
  unfold plainTok at h
  simp only [Bool.and_eq_true, Bool.not_eq_true', List.all_eq_true, bne_iff_ne, ne_eq] at h
  refine ⟨by intro e; subst e; simp at h, ?_⟩
  intro c hc
  have := h.2 c hc
  exact ⟨this.1.1.1.1.1, this.1.1.1.1.2, this.1.1.1.2, this.1.1.2, this.1.2, this.2⟩

theorem plainTok_lineTok (ds : List Char) (t : Str) (h : plainTok ds t = true) : lineTok ds t := by
  obtain ⟨hne, hc⟩ := plainTok_spec ds t h
  refine ⟨plain_atomic ds t hne (fun c hc' => ⟨(hc c hc').1, (hc c hc').2.1, (hc c hc').2.2.2.1, (hc c hc').2.2.1⟩),
    fun c hc' => (hc c hc').2.2.2.2.1, ?_⟩
  intro c hl
  exact (hc c (List.mem_of_getLast? hl)).2.2.2.2.2

theorem argFormat_lineTok (ds : List Char) (hb : ds.contains '{' = false) (v : Str) (hv : okValue ds v = true)
    (hl : lineChars ds v = true) : lineTok ds (argFormat ds v) := by
  have hat := (arg_format_roundtrip ds hb v hv).2
  unfold lineChars at hl
  simp only [List.all_eq_true, Bool.and_eq_true, bne_iff_ne, ne_eq, Bool.or_eq_true, Bool.not_eq_true'] at hl
  refine ⟨hat, ?_, ?_⟩
  · intro c hc
    unfold argFormat at hc
    split at hc
    · exact (hl c hc).1
    · split at hc
      · simp only [List.mem_cons, List.mem_append, List.not_mem_nil, or_false] at hc
        rcases hc with rfl | hc | rfl
        · decide
        · exact (hl c hc).1
        · decide
      · exact (hl c hc).1
  · intro c hc
    unfold argFormat at hc
    split at hc
    · -- starts with `{`: excluded by okValue
      rename_i h1
      unfold okValue at hv
      simp at hv
      have h1' : v.head? = some '{' := by simpa using h1
      exact absurd h1' hv.1.1.1.2
    · split at hc
      · have : ('{' :: (v ++ ['}'])).getLast? = some '}' := by
          rw [← List.cons_append, List.getLast?_append]; simp
        rw [this] at hc
        simp at hc; subst hc; decide
      · rename_i _ h2
        have hm := List.mem_of_getLast? hc
        rcases (hl c hm).2 with h | h
        · exact h
        · exfalso
          apply h2
          simp only [List.any_eq_true]
          exact ⟨c, hm, h⟩

theorem fmtArgs_mem (ds : List Char) (vals : List (Option Str)) (t : Str) (h : t ∈ fmtArgs ds vals) :
    ∃ v, (some v ∈ vals ∨ v = ['0']) ∧ t = argFormat ds v := by
  induction vals with
  | nil => simp [fmtArgs] at h
  | cons x rest ih =>
    cases rest with
    | nil =>
      cases x with
      | none => simp [fmtArgs] at h
      | some v => simp [fmtArgs] at h; exact ⟨v, Or.inl (by simp), h⟩
    | cons y r =>
      cases x with
      | none =>
        have e : fmtArgs ds (none :: y :: r) = argFormat ds ['0'] :: fmtArgs ds (y :: r) := by simp [fmtArgs]
        rw [e] at h
        rcases List.mem_cons.mp h with h | h
        · exact ⟨['0'], Or.inr rfl, h⟩
        · obtain ⟨v, hv, ht⟩ := ih h
          exact ⟨v, hv.imp (fun a => by simp [a]) id, ht⟩
      | some w =>
        have e : fmtArgs ds (some w :: y :: r) = argFormat ds w :: fmtArgs ds (y :: r) := by simp [fmtArgs]
        rw [e] at h
        rcases List.mem_cons.mp h with h | h
        · exact ⟨w, Or.inl (by simp), h⟩
        · obtain ⟨v, hv, ht⟩ := ih h
          exact ⟨v, hv.imp (fun a => by simp [a]) id, ht⟩

theorem printedArgs_lineTok (ds : List Char) (hb : ds.contains '{' = false) (h0 : ds.contains '0' = false)
    (relname : Str) (vals : List (Option Str))
    (hok : ∀ v, some v ∈ vals → okValue ds v = true ∧ lineChars ds v = true) :
    ∀ t ∈ printedArgs ds relname vals, lineTok ds t := by
  intro t ht
  unfold printedArgs at ht
  split at ht
  · simp at ht
  · obtain ⟨v, hv, rfl⟩ := fmtArgs_mem ds vals t ht
    rcases hv with hv | rfl
    · exact argFormat_lineTok ds hb v (hok v hv).1 (hok v hv).2
    · have h0' : '0' ∉ ds := by simpa using h0
      exact argFormat_lineTok ds hb ['0'] (okValue_zero ds h0) (by simp [lineChars, isWs])

/-- a line made of line tokens: tokenises back, contains no `;`, and is not changed by `strip` when it
    starts with a non-blank -/
theorem line_of_tokens (ds : List Char) (hne : ds ≠ []) (hsp : ds.contains ' ' = true) (t0 : Str) (ts : List Str)
    (h : ∀ t ∈ t0 :: ts, lineTok ds t) :
    split ds (joinWith [' '] (t0 :: ts)) = some (t0 :: ts)
    ∧ (∀ c ∈ joinWith [' '] (t0 :: ts), c ≠ ';')
    ∧ (∀ c, (joinWith [' '] (t0 :: ts)).getLast? = some c → isWs c = false)
    ∧ (joinWith [' '] (t0 :: ts)).head? = t0.head? := by
  have hne' : ∀ t ∈ t0 :: ts, t ≠ [] := fun t ht => atomic_ne_nil (h t ht).1
  refine ⟨split_join ds ' ' hne hsp _ (fun t ht => (h t ht).1), ?_, ?_, joinWith_head _ _ _ (hne' t0 (by simp))⟩
  · intro c hc
    rcases joinWith_mem _ _ _ hc with hc | ⟨t, ht, hct⟩
    · simp at hc; subst hc; decide
    · exact (h t ht).2.1 c hct
  · intro c hc
    rw [joinWith_getLast [' '] (t0 :: ts) (by simp) hne'] at hc
    exact (h _ (List.getLast_mem _)).2.2 c hc


/-! ### rule selection on a printed line -/

theorem mem_split_takeWhile (l : List Rule) (r : Rule) (h : r ∈ l) :
    ∃ post, l = l.takeWhile (fun r' => r' != r) ++ r :: post := by
  induction l with
  | nil => simp at h
  | cons a t ih =>
    by_cases ha : a = r
    · subst ha; exact ⟨t, by simp⟩
    · have : r ∈ t := by
        rcases List.mem_cons.mp h with h | h
        · exact absurd h.symm ha
        · exact h
      obtain ⟨post, hp⟩ := ih this
      refine ⟨post, ?_⟩
      have : (a != r) = true := by simp [ha]
      simp only [List.takeWhile_cons, this, ↓reduceIte, List.cons_append]
      rw [← hp]

theorem mem_rulesOf (g : Grammar) (r : Rule) (hr : r ∈ g.rules) : r ∈ rulesOf g r.type := by
  unfold rulesOf
  simp [List.mem_filter, hr]

theorem select_keyword (g : Grammar) (r : Rule) (hr : r ∈ g.rules) (fields : List Str) (p : Nat) (q : Param)
    (hpos : r.pos = some p) (hq : r.params[p]? = some q) (hf : fields[p]? = some q.name)
    (hsel : selOK g r fields = true) :
    selectLoop fields (rulesOf g r.type) none = (some (r, q.name), some p) := by
  obtain ⟨post, hsplit⟩ := mem_split_takeWhile _ r (mem_rulesOf g r hr)
  unfold selOK at hsel
  simp only [hpos] at hsel
  rw [hsplit]
  exact select_spec fields _ post r p q q.name hpos hq hf rfl (fun r' hr' => List.all_eq_true.mp hsel r' hr') none

theorem select_default (g : Grammar) (r : Rule) (fields : List Str) (hpos : r.pos = none)
    (hsel : selOK g r fields = true) :
    (selectLoop fields (rulesOf g r.type) none).1 = none := by
  unfold selOK at hsel
  simp only [hpos] at hsel
  exact select_none fields _ (fun r' hr' => List.all_eq_true.mp hsel r' hr') none


theorem takeWhile_all {α} (p : α → Bool) (l : List α) (h : l.all p = true) : l.takeWhile p = l := by
  induction l with
  | nil => rfl
  | cons a t ih =>
    simp only [List.all_cons, Bool.and_eq_true] at h
    simp [h.1, ih h.2]

/-- the tokens of a component whose name has no namespace and is not an anonymous one -/
theorem netTokens_plain (g : Grammar) (c : Cpt) (hdot : splitOn '.' c.name = [c.name])
    (hrew : (match c.name with
       | c0 :: rest => (c0 == 'A' || c0 == 'O' || c0 == 'W' || c0 == 'P') && startsWith rest ['a','n','o','n']
       | [] => false) = false) :
    netTokens g c = c.name :: ((if c.kwpos == some 0 && !c.kw.isEmpty then [c.kw] else [])
      ++ nodesWithKw c.kwpos c.kw c.nodes 0 ++ printedArgs g.delimiters c.name c.args) := by
  unfold netTokens printedArgs fmtElided
  rw [hdot]
  cases hcn : c.name with
  | nil => simp [joinWith]
  | cons a t =>
    rw [hcn] at hrew
    simp only at hrew
    have hrew' : ¬ ((((a = 'A' ∨ a = 'O') ∨ a = 'W') ∨ a = 'P') ∧ startsWith t ['a','n','o','n'] = true) := by
      intro h
      simp [h.2] at hrew
      rcases h.1 with ((h | h) | h) | h <;> simp [h] at hrew
    simp [joinWith, hrew']

theorem isDirective_head (g : Grammar) (a : Char) (x y : Str) : isDirective g (a :: x) = isDirective g (a :: y) := by
  simp [isDirective]

/-- **line_roundtrip_partial.**  For every grammar `g` satisfying `grammarWF` (checked for the extracted table by
    `table_wf2`), every rule `r` of it and every component `c` in normal form for `r` (`normalCpt`): parsing
    the printed line gives the component back -- same class, name, type, id, nodes, keyword, the arguments
    up to `normArgs` (an absent non-final value is read back as `0`), the option string in its canonical
    printed form -- whatever names are in use (`used`).
    PARTIAL: the quantifier `normalCpt` / `optsNormal` is smaller than "every netlist Lcapy accepts".  Excluded
    although parser and printer accept them (covered by correspondence and oracle only):
      (i)   namespaced names (`a.R1 1 2 3`; `nameOK` forbids `.`),
      (ii)  anonymous components (`W 1 2`, `R? 1 2`) and directive / comment / blank lines,
      (iii) option values containing `{`, `}` or `,` and the `def` key (`l={R_1}`, `l={a, b}`) -- a proof
            convenience of `optStrOK`, not a defect: model and code round-trip them,
    and, corresponding to the known findings C06-e / C06-a / C06-b, values that are empty, start with `{` or `"`,
    contain a top-level `=`, equal a keyword of the type, or (SW) equal the component name. -/
theorem line_roundtrip_partial (g : Grammar) (hg : grammarWF g = true) (r : Rule) (hr : r ∈ g.rules) (c : Cpt)
    (hn : normalCpt g r c = true) (s : Str) (hp : printCpt g c = some s) :
    ∃ kp os, (∀ used, parse g used [] s
        = .ok ({ c with args := normArgs c.args, kwpos := kp, opts := os, string := s }, none))
      ∧ (c.kw ≠ [] → kp = c.kwpos)
      ∧ (∃ o os', optsParse c.opts = .ok o ∧ optsFormat o = some os' ∧ os = strip os')
      ∧ strip s = s ∧ s.head? = c.name.head? ∧ c.name.head? ≠ some '.' ∧ c.name ≠ [] := by
  -- the grammar
  simp only [grammarWF, Bool.and_eq_true, Bool.not_eq_true'] at hg
  obtain ⟨⟨⟨⟨⟨⟨⟨⟨⟨⟨⟨gok, gwf⟩, gdf⟩, _⟩, gb⟩, _⟩, _⟩, _⟩, g0⟩, _⟩, gsp⟩, _⟩ := hg
  have gne : g.delimiters ≠ [] := by intro e; rw [e] at gsp; simp at gsp
  have rwf := List.all_eq_true.mp gwf r hr
  simp only [ruleWF2, Bool.and_eq_true, Bool.not_eq_true', beq_iff_eq, bne_iff_ne, ne_eq] at rwf
  obtain ⟨⟨⟨⟨⟨hC, hpos⟩, hkwplain⟩, _⟩, _⟩, hxx⟩ := rwf
  have hdf := List.all_eq_true.mp gdf r hr
  -- the component
  simp only [normalCpt, Bool.and_eq_true, beq_iff_eq] at hn
  obtain ⟨⟨⟨⟨⟨⟨⟨⟨⟨⟨⟨⟨⟨ncls, nty⟩, nname⟩, nnm⟩, nnl⟩, nnodes⟩, nkw⟩, nkp⟩, nal⟩, nargs⟩, ntr⟩, nopt⟩, nel⟩, nsel⟩ := hn
  simp only [nameOK, Bool.and_eq_true, Bool.not_eq_true', beq_iff_eq, bne_iff_ne, ne_eq] at nnm
  obtain ⟨⟨⟨⟨⟨⟨⟨manon, mid⟩, mmatch⟩, mrew⟩, mplain⟩, mdot⟩, mdir⟩, mzero⟩ := nnm
  rw [← nname] at mmatch mrew mplain mdot mdir mzero
  -- the name
  have hnameTok := plainTok_lineTok g.delimiters c.name mplain
  have hnamespec := plainTok_spec g.delimiters c.name mplain
  have hdotfree : ∀ ch ∈ c.name, ch ≠ '.' := by
    intro ch hch; have := List.all_eq_true.mp mdot ch hch; simpa using this
  have hsplitdot : splitOn '.' c.name = [c.name] := splitOn_nosep '.' c.name hdotfree
  have hcid : (c.name.drop r.type.length).takeWhile isIdChar = c.cid := by
    rw [nname]; simp only [List.drop_left]
    exact takeWhile_all _ _ mid
  have hr1 : c.name.head? ≠ some '{' := by
    intro h
    cases hcn : c.name with
    | nil => rw [hcn] at h; simp at h
    | cons a t =>
      rw [hcn] at h; simp at h; subst h
      exact (hnamespec.2 '{' (by rw [hcn]; simp)).2.1 rfl
  have hargsok : ∀ v, some v ∈ c.args → okValue g.delimiters v = true ∧ lineChars g.delimiters v = true := by
    intro v hv
    have := List.all_eq_true.mp nargs (some v) hv
    simpa using this
  have hnodesok : ∀ n ∈ c.nodes, plainTok g.delimiters n = true ∧ n.head? ≠ some '.' := by
    intro n hn
    have := List.all_eq_true.mp nnodes n hn
    simpa using this
  have htoks := netTokens_plain g c hsplitdot mrew
  rw [htoks] at nsel nopt
  simp only [List.drop_one, List.tail_cons] at nsel nopt
  -- layout of the parameters and of the printed fields
  have hshape := shapeOf_params r.params
  generalize hsh : shapeOf r.params = sh at *
  obtain ⟨A, k, B, C⟩ := sh
  simp only [Shape.params] at hshape
  have hA : A.all (·.kind.isNode) = true := by have := shapeOf_A_nodes r.params; rw [hsh] at this; exact this
  have hB : B.all (·.kind.isNode) = true := by have := shapeOf_B_nodes r.params; rw [hsh] at this; exact this
  simp only [nNodes, hsh] at nnl nopt
  simp only at hC hpos hkwplain nal ntr nel nopt
  obtain ⟨r0, rs, hrules⟩ : ∃ r0 rs, rulesOf g r.type = r0 :: rs := by
    have := mem_rulesOf g r hr
    cases h : rulesOf g r.type with
    | nil => rw [h] at this; simp at this
    | cons a b => exact ⟨a, b, rfl⟩
  have hlA : (c.nodes.take A.length).length = A.length := by rw [List.length_take]; omega
  have hlB : (c.nodes.drop A.length).length = B.length := by rw [List.length_drop]; omega
  have hsplitnodes : c.nodes.take A.length ++ c.nodes.drop A.length = c.nodes := List.take_append_drop _ _
  -- keyword placement and rule selection, by cases on the rule having a keyword
  have hlayout : ∃ K KW sel kp,
      A ++ K ++ B ++ C = r.params
      ∧ (if (c.kwpos == some 0 && !List.isEmpty c.kw) = true then [c.kw] else []) ++ nodesWithKw c.kwpos c.kw c.nodes 0
          = c.nodes.take A.length ++ KW ++ c.nodes.drop A.length
      ∧ KW.length = K.length ∧ K.all (fun p => !p.kind.isNode && !p.kind.isArg) = true
      ∧ (∀ t ∈ KW, lineTok g.delimiters t)
      ∧ (if k.isSome then 1 else 0) = K.length
      ∧ selectLoop (c.nodes.take A.length ++ KW ++ c.nodes.drop A.length ++ printedArgs g.delimiters c.name c.args)
          (r0 :: rs) none = (sel, kp)
      ∧ (sel.map (·.1)).getD r0 = r ∧ (sel.map (·.2)).getD [] = c.kw ∧ (c.kw ≠ [] → kp = c.kwpos) := by
    cases k with
    | none =>
      have hkw : c.kw = [] := by rw [nkw]; simp [kwName, hsh]
      have hBnil : B = [] := by have := shapeOf_k_none_B r.params (by rw [hsh]); rw [hsh] at this; exact this
      subst hBnil
      simp only [List.length_nil, Nat.add_zero] at nnl
      have htake : c.nodes.take A.length = c.nodes := List.take_of_length_le (by omega)
      have hdrop : c.nodes.drop A.length = [] := List.drop_of_length_le (by omega)
      simp only [Option.map_none] at hpos
      have hfields : (if (c.kwpos == some 0 && !List.isEmpty c.kw) = true then [c.kw] else []) ++ nodesWithKw c.kwpos c.kw c.nodes 0
          = c.nodes := by simp [hkw, nodesWithKw_nokw]
      rw [hfields] at nsel
      have hs := select_default g r _ hpos nsel
      rw [hrules] at hs
      refine ⟨[], [], none, (selectLoop (c.nodes ++ printedArgs g.delimiters c.name c.args) (r0 :: rs) none).2, by simpa using hshape, ?_, rfl, rfl,
        by simp, by simp, ?_, ?_, by simp [hkw], by simp [hkw]⟩
      · rw [hfields, htake, hdrop]; simp
      · rw [htake, hdrop]
        simp only [List.append_nil]
        exact Prod.ext hs rfl
      · simp only [hpos, Option.isSome_none, Bool.false_or, hrules, List.head?_cons, beq_iff_eq, Option.some.injEq] at hdf
        simpa using hdf
    | some q =>
      simp only [Option.map_some] at hpos
      have hqk : q.kind = .keyword := shapeOf_k_keyword r.params q (by rw [hsh])
      have hkw : c.kw = q.name := by rw [nkw]; simp [kwName, hsh]
      have hqplain : plainTok g.delimiters q.name = true := by simpa using hkwplain
      have hkwne : c.kw ≠ [] := by rw [hkw]; exact (plainTok_spec _ _ hqplain).1
      have hkwe : c.kw.isEmpty = false := by cases h : c.kw with | nil => exact absurd h hkwne | cons _ _ => rfl
      have hkp : c.kwpos = some A.length := by
        simp only [hpos, Option.isNone_some, Bool.false_or, beq_iff_eq] at nkp; exact nkp
      have hfields : (if (c.kwpos == some 0 && !List.isEmpty c.kw) = true then [c.kw] else []) ++ nodesWithKw c.kwpos c.kw c.nodes 0
          = c.nodes.take A.length ++ [c.kw] ++ c.nodes.drop A.length := by
        rw [hkp]
        cases hAl : A with
        | nil =>
          simp [hkwe, nodesWithKw_noinsert 0 c.kw c.nodes 0 (Nat.le_refl _)]
        | cons a A' =>
          have hne : (c.nodes.take (a :: A').length) ≠ [] := by
            intro h; rw [hAl] at hlA; rw [h] at hlA; simp at hlA
          have h0 : ((some (a :: A').length == some 0) && !List.isEmpty c.kw) = false := by simp
          simp only [h0, Bool.false_eq_true, ↓reduceIte, List.nil_append]
          have hins := nodesWithKw_insert c.kw hkwne (c.nodes.take (a :: A').length) (c.nodes.drop (a :: A').length) hne 0
          rw [List.take_append_drop] at hins
          rw [hAl] at hlA
          rw [hlA, Nat.zero_add] at hins
          rw [hins]; simp
      rw [hfields] at nsel
      have hq : r.params[A.length]? = some q := by rw [← hshape]; simp
      have hf : (c.nodes.take A.length ++ [c.kw] ++ c.nodes.drop A.length ++ printedArgs g.delimiters c.name c.args)[A.length]? = some q.name := by
        rw [← hkw]
        simp only [List.append_assoc]
        rw [List.getElem?_append_right (by omega)]
        simp [hlA]
      have hs := select_keyword g r hr _ A.length q hpos hq hf nsel
      rw [hrules] at hs
      refine ⟨[q], [c.kw], some (r, q.name), some A.length, by simpa using hshape, hfields, rfl, by simp [hqk, Kind.isNode, Kind.isArg], ?_, by simp, hs,
        by simp, by simp [hkw], fun _ => hkp.symm⟩
      intro t ht
      simp only [List.mem_singleton] at ht; subst ht
      rw [hkw]; exact plainTok_lineTok _ _ hqplain
  obtain ⟨K, KW, sel, kp, hshapeK, hfields, hlK, hKall, hKWtok, hKlen, hselres, hselr, hselk, hkpc⟩ := hlayout
  rw [hfields] at htoks nopt
  have hfa_le : (printedArgs g.delimiters c.name c.args).length ≤ C.length := by
    rw [← nal]; exact printedArgs_length_le _ _ _
  have hopt : (C.drop (printedArgs g.delimiters c.name c.args).length).all (·.optional) = true := by
    have e : (c.nodes.take A.length ++ KW ++ c.nodes.drop A.length ++ printedArgs g.delimiters c.name c.args).length
        - (A.length + B.length + if k.isSome = true then 1 else 0) = (printedArgs g.delimiters c.name c.args).length := by
      simp only [List.length_append, hlA, hlB, hlK, hKlen]; omega
    rw [e] at nopt; exact nopt
  have hel : fmtElided g.delimiters c.name c.args = true →
      (C.head?.bind (·.default)) = some ['n','a','m','e'] := by
    intro h; simp only [h, Bool.not_true, Bool.false_or, beq_iff_eq] at nel; exact nel
  obtain ⟨args, hassign, hvals⟩ := args_roundtrip g.delimiters gb g0 c.name mzero hr1 C c.args nal
    (fun v hv => (hargsok v hv).1) ntr hel
  have hdotn : ∀ n ∈ c.nodes.take A.length ++ c.nodes.drop A.length, n.head? ≠ some '.' := by
    rw [hsplitnodes]; exact fun n hn => (hnodesok n hn).2
  have hproc := process_roundtrip r A K B C hshapeK.symm hA hKall hB hC _ _ KW hlA hlK hlB hdotn c.name c.name
    _ hfa_le hopt (normArgs c.args) args hassign hvals
  rw [hsplitnodes] at hproc
  -- the printed line
  have htokall : ∀ t ∈ c.name :: (c.nodes.take A.length ++ KW ++ c.nodes.drop A.length ++ printedArgs g.delimiters c.name c.args),
      lineTok g.delimiters t := by
    intro t ht
    simp only [List.mem_cons, List.mem_append] at ht
    rcases ht with rfl | ((ht | ht) | ht) | ht
    · exact hnameTok
    · exact plainTok_lineTok _ _ (hnodesok t (List.mem_of_mem_take ht)).1
    · exact hKWtok t ht
    · exact plainTok_lineTok _ _ (hnodesok t (List.mem_of_mem_drop ht)).1
    · exact printedArgs_lineTok g.delimiters gb g0 c.name c.args hargsok t ht
  obtain ⟨hsplit, hnosemi, hlast, hhead⟩ := line_of_tokens g.delimiters gne gsp _ _ htokall
  have hsplit' : split g.delimiters (joinWith [' '] (netTokens g c)) = some (c.name ::
      (c.nodes.take A.length ++ KW ++ c.nodes.drop A.length ++ printedArgs g.delimiters c.name c.args)) := by
    rw [htoks]; exact hsplit
  rw [← htoks] at hnosemi hlast hhead
  obtain ⟨a, t, hcn⟩ : ∃ a t, c.name = a :: t := by
    cases h : c.name with
    | nil => exact absurd h hnamespec.1
    | cons a t => exact ⟨a, t, rfl⟩
  obtain ⟨t', hnet⟩ : ∃ t', joinWith [' '] (netTokens g c) = a :: t' := by
    rw [hcn] at hhead
    cases h : joinWith [' '] (netTokens g c) with
    | nil => rw [h] at hhead; simp at hhead
    | cons b u => rw [h] at hhead; simp at hhead; subst hhead; exact ⟨u, rfl⟩
  have haws : isWs a = false := (hnamespec.2 a (by rw [hcn]; simp)).2.2.2.2.2
  have hdot1 : c.name.head? ≠ some '.' := by
    rw [hcn]; intro h; simp at h; subst h
    exact hdotfree '.' (by rw [hcn]; simp) rfl
  have hdirnet : ∀ rest, isDirective g (a :: rest) = false := by
    intro rest; rw [isDirective_head g a rest t, ← hcn]; exact mdir
  -- unfold the printer
  unfold printCpt at hp
  have hxx' : (c.ctype == ['X','X']) = false := by rw [nty]; simpa using hxx
  simp only [hxx', Bool.false_eq_true, ↓reduceIte] at hp
  cases hop : optsParse c.opts with
  | error e => simp [hop] at hp
  | ok o =>
    simp only [hop] at hp
    cases hof : optsFormat o with
    | none => simp [hof] at hp
    | some os' =>
      simp only [hof, Option.some.injEq] at hp
      have hrec : ∀ os, (⟨r.classname, c.name, r.type, c.cid, c.nodes, normArgs c.args, kp, c.kw, os, s⟩ : Cpt)
          = { c with args := normArgs c.args, kwpos := kp, opts := os, string := s } := by
        intro os; rw [← ncls, ← nty]
      by_cases hemp : (strip os').isEmpty = true
      · simp only [hemp, ↓reduceIte] at hp
        have hstrip : strip s = s := by
          rw [← hp, hnet]
          apply strip_id
          · intro ch h; simp at h; subst h; exact haws
          · rw [← hnet]; exact hlast
        refine ⟨kp, [], ?_, hkpc, ⟨o, os', rfl, hof, (by simpa using hemp : strip os' = []).symm⟩, hstrip,
          by rw [← hp, hnet, hcn]; rfl, hdot1, hnamespec.1⟩
        intro used
        rw [← hrec]
        apply parse_of_tokens g gok used s (joinWith [' '] (netTokens g c)) sel none c.name _ r.type c.cid r0 rs hstrip
          (by rw [← hp, hnet]; exact hdirnet t')
          (by rw [← hp]; exact splitFirst_none ';' _ hnosemi)
          hsplit' hsplitdot mmatch hcid manon hrules r c.kw kp hselres hselr.symm hselk.symm c.nodes (normArgs c.args) hproc [] rfl
      · have hemp' : (strip os').isEmpty = false := by simpa using hemp
        simp only [hemp', Bool.false_eq_true, ↓reduceIte] at hp
        have hosne : strip os' ≠ [] := by intro h; rw [h] at hemp'; simp at hemp'
        have hs : s = joinWith [' '] (netTokens g c) ++ ';' :: (' ' :: strip os') := by rw [← hp]; simp
        have hstrip : strip s = s := by
          rw [hs, hnet]
          apply strip_id
          · intro ch h; simp at h; subst h; exact haws
          · intro ch h
            have e : (a :: t' ++ ';' :: ' ' :: strip os') = (a :: t' ++ [';', ' ']) ++ strip os' := by simp
            rw [e, List.getLast?_append] at h
            cases hl : (strip os').getLast? with
            | none => exact absurd (List.getLast?_eq_none_iff.mp hl) hosne
            | some z =>
              rw [hl] at h
              simp at h; subst h
              exact (strip_ends os').2 _ hl
        refine ⟨kp, strip os', ?_, hkpc, ⟨o, os', rfl, hof, rfl⟩, hstrip, by rw [hs, hnet, hcn]; rfl, hdot1, hnamespec.1⟩
        intro used
        rw [← hrec]
        apply parse_of_tokens g gok used s (joinWith [' '] (netTokens g c)) sel (some (' ' :: strip os')) c.name _ r.type c.cid r0 rs hstrip
          (by rw [hs, hnet]; exact hdirnet _)
          (by rw [hs]; exact splitFirst_some ';' _ _ hnosemi)
          hsplit' hsplitdot mmatch hcid manon hrules r c.kw kp hselres hselr.symm hselk.symm c.nodes (normArgs c.args) hproc
        simp only [Option.map_some, Option.getD_some]
        rw [strip_ws_cons ' ' _ (by decide), strip_strip]


/-! ### option strings (opts.py) -/

/-- **opts_format_parse.**  `Opts(format(o)) = o` for every option table in normal form (`optsNormal`:
    distinct keys without white space or `, = { }` and other than `def`; values either Booleans or
    strings without `, { }`, not blank at either end and not spelled `true/True/false/False`); the
    printed text is stripped. -/
theorem opts_format_parse (o : Opts) (hn : optsNormal o = true) :
    ∃ s, optsFormat o = some s ∧ optsParse s = .ok o ∧ strip s = s :=
  optsParse_format o hn

example : optsNormal [("right".toList, .s []), ("l".toList, .s "R_1=3 ohm".toList), ("mirror".toList, .b false),
    ("scale".toList, .s "0.5".toList)] = true := by decide

/-- printing an option table twice through the parser gives the same text (idempotence of `format`) -/
theorem opts_format_idempotent (o : Opts) (hn : optsNormal o = true) (s : Str) (hs : optsFormat o = some s) :
    ∃ o', optsParse s = .ok o' ∧ optsFormat o' = some s := by
  obtain ⟨s', h1, h2, _⟩ := optsParse_format o hn
  rw [hs] at h1; cases h1
  exact ⟨o, h2, hs⟩

/-- **opts_constants.**  The constants that the model of `Opts.add` / `Opts.format` / `value_parser` is
    written with are the ones in the checked-out `opts.py` / `valueparser.py` (extracted by the
    translator): the spellings read as Booleans, the list-valued key, the separator written by `format`,
    the characters of the local `split`, and the `Meg` / `K` suffix aliases. -/
theorem opts_constants :
    Gen.Grammar.optsTrue = [['t','r','u','e'], ['T','r','u','e']]
    ∧ Gen.Grammar.optsFalse = [['f','a','l','s','e'], ['F','a','l','s','e']]
    ∧ Gen.Grammar.optsListKey = ['d','e','f']
    ∧ Gen.Grammar.optsJoin = [',', ' ']
    ∧ Gen.Grammar.optsSplitChars = [',', '{', '}']
    ∧ Gen.Grammar.suffixAliases = [(['M','e','g'], ['M']), (['K'], ['k'])] := by decide

theorem optsEq_refl (o : Opts) (hn : optsNormal o = true) : optsEq o o = true := by
  induction o with
  | nil => rfl
  | cons e rest ih =>
    obtain ⟨k, v⟩ := e
    simp only [optsNormal, Bool.and_eq_true] at hn
    have hv : v.beq v = true := by
      cases v with
      | defs _ => have := hn.1.1.2; simp [optValOK] at this
      | s x => simp [OptVal.beq]
      | b x => simp [OptVal.beq]
    simp [optsEq, hv, ih hn.2]

theorem netTokens_reparsed (g : Grammar) (c : Cpt) (kp : Option Nat) (os s : Str) (hkp : c.kw ≠ [] → kp = c.kwpos) :
    netTokens g { c with args := normArgs c.args, kwpos := kp, opts := os, string := s } = netTokens g c := by
  unfold netTokens
  simp only [fmtArgs_normArgs]
  by_cases hk : c.kw = []
  · simp [hk, nodesWithKw_nokw]
  · rw [hkp hk]

/-- **line_roundtrip_full_partial.**  Line level, complete statement: for a component in normal form whose option
    table is in normal form, the printed line parses to a component that the specification identifies
    with the original (`sameCpt`: class, name, type, nodes, arguments up to `normArgs`, keyword, option
    table), and printing that component gives the same line again (print is idempotent).
    PARTIAL: the quantifier `normalCpt` / `optsNormal` is smaller than "every netlist Lcapy accepts".  Excluded
    although parser and printer accept them (covered by correspondence and oracle only):
      (i)   namespaced names (`a.R1 1 2 3`; `nameOK` forbids `.`),
      (ii)  anonymous components (`W 1 2`, `R? 1 2`) and directive / comment / blank lines,
      (iii) option values containing `{`, `}` or `,` and the `def` key (`l={R_1}`, `l={a, b}`) -- a proof
            convenience of `optStrOK`, not a defect: model and code round-trip them,
    and, corresponding to the known findings C06-e / C06-a / C06-b, values that are empty, start with `{` or `"`,
    contain a top-level `=`, equal a keyword of the type, or (SW) equal the component name. -/
theorem line_roundtrip_full_partial (g : Grammar) (hg : grammarWF g = true) (r : Rule) (hr : r ∈ g.rules) (c : Cpt)
    (hn : normalCpt g r c = true) (o : Opts) (ho : optsParse c.opts = .ok o) (hon : optsNormal o = true)
    (s : Str) (hp : printCpt g c = some s) :
    ∃ c', (∀ used, parse g used [] s = .ok (c', none)) ∧ sameCpt c c' = true ∧ printCpt g c' = some s
      ∧ c'.name = c.name ∧ (∃ o', optsParse c'.opts = .ok o')
      ∧ strip s = s ∧ s.head? = c.name.head? ∧ c.name.head? ≠ some '.' ∧ c.name ≠ [] := by
  obtain ⟨kp, os, hparse, hkp, ⟨o', os', ho', hof, hos⟩, hst1, hst2, hst3, hst4⟩ := line_roundtrip_partial g hg r hr c hn s hp
  rw [ho] at ho'; cases ho'
  obtain ⟨s', hf, hpo, hst⟩ := optsParse_format o hon
  rw [hof] at hf; cases hf
  rw [hst] at hos; subst hos
  refine ⟨_, hparse, ?_, ?_, rfl, ⟨o, hpo⟩, hst1, hst2, hst3, hst4⟩
  · have hxx : (c.ctype == ['X','X']) = false := by
      simp only [grammarWF, Bool.and_eq_true] at hg
      have rwf := List.all_eq_true.mp hg.1.1.1.1.1.1.1.1.1.1.2 r hr
      simp only [ruleWF2, Bool.and_eq_true, bne_iff_ne, ne_eq] at rwf
      simp only [normalCpt, Bool.and_eq_true, beq_iff_eq] at hn
      rw [hn.1.1.1.1.1.1.1.1.1.1.1.1.2]
      simpa using rwf.2
    have hkw : (c.kw.isEmpty || c.kwpos == kp) = true := by
      by_cases hk : c.kw = []
      · simp [hk]
      · simp [hkp hk]
    simp only [sameCpt, beq_self_eq_true, Bool.true_and, normArgs_idem, hkw, hxx, Bool.false_eq_true, ↓reduceIte,
      sameOpts, ho, hpo, optsEq_refl o hon]
  · have hxx : (c.ctype == ['X','X']) = false := by
      simp only [grammarWF, Bool.and_eq_true] at hg
      have rwf := List.all_eq_true.mp hg.1.1.1.1.1.1.1.1.1.1.2 r hr
      simp only [ruleWF2, Bool.and_eq_true, bne_iff_ne, ne_eq] at rwf
      simp only [normalCpt, Bool.and_eq_true, beq_iff_eq] at hn
      rw [hn.1.1.1.1.1.1.1.1.1.1.1.1.2]
      simpa using rwf.2
    unfold printCpt at hp ⊢
    simp only [hpo, hof, hxx, Bool.false_eq_true, ↓reduceIte]
    simp only [ho, hof, hxx, Bool.false_eq_true, ↓reduceIte] at hp
    rw [netTokens_reparsed g c kp os s hkp]
    exact hp


/-! ### a readable sufficient condition for `selOK` -/

/-- in a `kwDistinct` list, two different positions of the list never carry the same (pos, keyword) -/
theorem kwDistinct_pair (pre : List Rule) (r : Rule) (post : List Rule) (h : kwDistinct (pre ++ r :: post) = true)
    (r' : Rule) (hr' : r' ∈ pre) (p : Nat) (hp' : r'.pos = some p) (hp : r.pos = some p) :
    (r.params[p]?.map (fun q => lower q.name)) ≠ (r'.params[p]?.map (fun q => lower q.name)) := by
  induction pre with
  | nil => simp at hr'
  | cons a t ih =>
    simp only [List.cons_append, kwDistinct, Bool.and_eq_true] at h
    rcases List.mem_cons.mp hr' with rfl | hm
    · have h1 := h.1
      simp only [hp', List.all_eq_true, Bool.not_eq_true', Bool.and_eq_false_iff] at h1
      have := h1 r (by simp)
      rcases this with h2 | h2
      · simp [hp] at h2
      · intro e; rw [e] at h2; simp at h2
    · exact ih h.2 hm

/-- **selOK_of_fields.**  Rule selection is not disturbed when no field other than the rule's own keyword
    is spelt like a keyword of the component type (this is where a value equal to a keyword --
    finding C06-a -- is excluded). -/
theorem selOK_of_fields (g : Grammar) (hg : grammarWF g = true) (r : Rule) (hr : r ∈ g.rules) (fields : List Str)
    (hown : ∀ p, r.pos = some p → ∃ q, r.params[p]? = some q ∧ fields[p]? = some q.name)
    (hother : ∀ i f, fields[i]? = some f → r.pos ≠ some i → (typeKeywords g r.type).contains (lower f) = false) :
    selOK g r fields = true := by
  simp only [grammarWF, Bool.and_eq_true, Bool.not_eq_true'] at hg
  obtain ⟨⟨⟨⟨⟨⟨⟨⟨⟨⟨⟨_, gwf⟩, _⟩, gkd⟩, _⟩, _⟩, _⟩, _⟩, _⟩, _⟩, _⟩, _⟩ := hg
  have hkd : kwDistinct (rulesOf g r.type) = true := by
    have := List.all_eq_true.mp gkd r.type (by
      rw [List.mem_eraseDups]; exact List.mem_map.mpr ⟨r, hr, rfl⟩)
    exact this
  -- a rule of the type does not react unless it is at r's own keyword position with r's own keyword
  have hno : ∀ r' ∈ rulesOf g r.type, (∀ p, r.pos = some p → r'.pos = some p →
      (r.params[p]?.map (fun q => lower q.name)) ≠ (r'.params[p]?.map (fun q => lower q.name))) → noMatch fields r' = true := by
    intro r' hr' hdiff
    have hr'g : r' ∈ g.rules := (List.mem_filter.mp hr').1
    have hty : r'.type = r.type := by simpa using (List.mem_filter.mp hr').2
    unfold noMatch
    cases hp' : r'.pos with
    | none => rfl
    | some p' =>
      simp only
      cases hf : fields[p']? with
      | none => rfl
      | some f =>
        cases hq : r'.params[p']? with
        | none => rfl
        | some prm =>
          simp only [bne_iff_ne, ne_eq]
          by_cases hsame : r.pos = some p'
          · obtain ⟨q, hq1, hq2⟩ := hown p' hsame
            rw [hf] at hq2; cases hq2
            have := hdiff p' hsame hp'
            rw [hq1, hq] at this
            simpa using this
          · have hk := hother p' f hf hsame
            -- prm is a keyword parameter of a rule of the type
            have hprmk : prm.kind = .keyword := by
              have rwf := List.all_eq_true.mp gwf r' hr'g
              simp only [ruleWF2, Bool.and_eq_true, beq_iff_eq] at rwf
              have hpos := rwf.1.1.1.1.2
              have hshape := shapeOf_params r'.params
              generalize hsh : shapeOf r'.params = sh at *
              obtain ⟨A, k, B, C⟩ := sh
              cases k with
              | none => simp [hp'] at hpos
              | some kq =>
                simp only [Option.map_some, hp', Option.some.injEq] at hpos
                simp only [Shape.params] at hshape
                have : r'.params[p']? = some kq := by rw [← hshape, hpos]; simp
                rw [hq] at this; cases this
                exact shapeOf_k_keyword r'.params prm (by rw [hsh])
            have hmem : lower prm.name ∈ typeKeywords g r.type := by
              unfold typeKeywords
              rw [List.mem_flatMap]
              refine ⟨r', hr', ?_⟩
              rw [List.mem_map]
              refine ⟨prm, ?_, rfl⟩
              rw [List.mem_filter]
              exact ⟨List.mem_of_getElem? hq, by simp [hprmk]⟩
            intro e
            rw [e] at hk
            have : (typeKeywords g r.type).contains (lower prm.name) = true := by simpa using hmem
            rw [this] at hk; cases hk
  unfold selOK
  cases hp : r.pos with
  | none =>
    simp only [List.all_eq_true]
    intro r' hr'
    exact hno r' hr' (fun p h => by rw [hp] at h; cases h)
  | some p =>
    simp only [List.all_eq_true]
    intro r' hr'
    obtain ⟨post, hsplit⟩ := mem_split_takeWhile _ r (mem_rulesOf g r hr)
    have hmem : r' ∈ rulesOf g r.type := by rw [hsplit]; simp [hr']
    apply hno r' hmem
    intro p2 h1 h2
    rw [hp] at h1; cases h1
    rw [hsplit] at hkd
    exact kwDistinct_pair _ r post hkd r' hr' p h2 hp


/-- **table_wf2.**  The grammar extracted from the checked-out `grammar.py` satisfies `grammarWF`: every
    rule is nodes / at most one keyword / nodes / arguments with `pos` at the keyword, keywords are
    plain tokens, a rule without keyword is the first of its type, keyword rules of a type are
    distinguishable, and the delimiters contain no bracket, quote, `=`, `;` or `0`.
    (`decide` over the whole regenerated table: re-checked against the source on every run.) -/
theorem table_wf2 : grammarWF theGrammar = true := by decide +kernel

/-! ### rejects, lifted to the level of `Parser.parse` (a LINE is rejected) -/

/-- an error of `Rule.process` on the tokens of a line is the error of `parse` on that line -/
theorem parse_error_of_process (g : Grammar) (hok : g.ok = true) (used : List Str) (s head : Str)
    (sel : Option (Rule × Str)) (tail : Option Str)
    (name0 : Str) (fields : List Str) (ty cid : Str) (r0 : Rule) (rs : List Rule)
    (hstrip : strip s = s) (hdir : isDirective g s = false)
    (hsf : splitFirst ';' s = (head, tail))
    (hsplit : split g.delimiters head = some (name0 :: fields))
    (hdot : splitOn '.' name0 = [name0])
    (hm : matchType g name0 = some ty)
    (hcid : (name0.drop ty.length).takeWhile isIdChar = cid)
    (hanon : ((cid.isEmpty && (ty == ['A'] || ty == ['W'] || ty == ['O'] || ty == ['P'])) || cid == ['?']) = false)
    (hrules : rulesOf g ty = r0 :: rs)
    (rule : Rule) (kp : Option Nat)
    (hsel : selectLoop fields (r0 :: rs) none = (sel, kp))
    (hrule : rule = (sel.map (·.1)).getD r0)
    (e : Err) (hproc : process rule fields name0 [] name0 = .error e) :
    parse g used [] s = .error e := by
  subst hrule
  unfold parse
  simp only [hok, hstrip, hdir, hsf, hsplit, hdot]
  cases sel with
  | none => simp at hproc; simp [hm, hcid, hanon, hrules, hsel, hproc]
  | some rk => obtain ⟨r1, k1⟩ := rk; simp at hproc; simp [hm, hcid, hanon, hrules, hsel, hproc]

/-- **rejects_too_many_line.**  A line with more fields than the selected rule has parameters is rejected
    by `parse` with "Too many args". -/
theorem rejects_too_many_line (g : Grammar) (hok : g.ok = true) (used : List Str) (s head : Str)
    (sel : Option (Rule × Str)) (tail : Option Str) (name0 : Str) (fields : List Str) (ty cid : Str) (r0 : Rule) (rs : List Rule)
    (hstrip : strip s = s) (hdir : isDirective g s = false) (hsf : splitFirst ';' s = (head, tail))
    (hsplit : split g.delimiters head = some (name0 :: fields)) (hdot : splitOn '.' name0 = [name0])
    (hm : matchType g name0 = some ty) (hcid : (name0.drop ty.length).takeWhile isIdChar = cid)
    (hanon : ((cid.isEmpty && (ty == ['A'] || ty == ['W'] || ty == ['O'] || ty == ['P'])) || cid == ['?']) = false)
    (hrules : rulesOf g ty = r0 :: rs) (rule : Rule) (kp : Option Nat)
    (hsel : selectLoop fields (r0 :: rs) none = (sel, kp)) (hrule : rule = (sel.map (·.1)).getD r0)
    (h : fields.length > rule.params.length) :
    parse g used [] s = .error .tooMany :=
  parse_error_of_process g hok used s head sel tail name0 fields ty cid r0 rs hstrip hdir hsf hsplit hdot hm hcid hanon hrules
    rule kp hsel hrule _ (rejects_too_many rule fields name0 [] name0 h)

/-- **rejects_too_few_nodes_line.**  A line that has no field for some node / pin parameter of the selected
    rule is rejected by `parse` with "Missing node". -/
theorem rejects_too_few_nodes_line (g : Grammar) (hok : g.ok = true) (used : List Str) (s head : Str)
    (sel : Option (Rule × Str)) (tail : Option Str) (name0 : Str) (fields : List Str) (ty cid : Str) (r0 : Rule) (rs : List Rule)
    (hstrip : strip s = s) (hdir : isDirective g s = false) (hsf : splitFirst ';' s = (head, tail))
    (hsplit : split g.delimiters head = some (name0 :: fields)) (hdot : splitOn '.' name0 = [name0])
    (hm : matchType g name0 = some ty) (hcid : (name0.drop ty.length).takeWhile isIdChar = cid)
    (hanon : ((cid.isEmpty && (ty == ['A'] || ty == ['W'] || ty == ['O'] || ty == ['P'])) || cid == ['?']) = false)
    (hrules : rulesOf g ty = r0 :: rs) (rule : Rule) (kp : Option Nat)
    (hsel : selectLoop fields (r0 :: rs) none = (sel, kp)) (hrule : rule = (sel.map (·.1)).getD r0)
    (i : Nat) (p : Param) (hi : fields.length ≤ i) (hp : rule.params[i]? = some p) (hk : p.kind.isNode = true) :
    parse g used [] s = .error .missingNode :=
  parse_error_of_process g hok used s head sel tail name0 fields ty cid r0 rs hstrip hdir hsf hsplit hdot hm hcid hanon hrules
    rule kp hsel hrule _ (rejects_too_few_nodes rule fields name0 [] name0 i p hi hp hk)

/-- an error of the named-parameter pass is the error of `Rule.process` -/
theorem process_error_of_named (r : Rule) (fields : List Str) (name ns dv : Str) (nodes : List Str)
    (args1 : List Arg) (rest : List Str) (e : Err)
    (hlen : ¬ fields.length > r.params.length) (hnodes : extractNodes name ns r.params fields = .ok nodes)
    (hmiss : missingArg r.params 0 fields.length = false)
    (hpos : assignPos ((r.params.filter (·.kind.isArg)).map (Arg.init · dv)) (fields.drop (m2Of r.params 0 0)) = .ok (args1, rest))
    (hnamed : assignNamed args1 rest = .error e) :
    process r fields name ns dv = .error e := by
  unfold process extractArgs
  simp [hlen, hnodes, hmiss, hpos, hnamed]

/-- **rejects_named_line.**  A line whose named-parameter part is refused (`rejects_unknown_named`: unknown
    parameter; `rejects_value_after_named`: a positional value after a named one) is rejected by `parse`
    with that error. -/
theorem rejects_named_line (g : Grammar) (hok : g.ok = true) (used : List Str) (s head : Str)
    (sel : Option (Rule × Str)) (tail : Option Str) (name0 : Str) (fields : List Str) (ty cid : Str) (r0 : Rule) (rs : List Rule)
    (hstrip : strip s = s) (hdir : isDirective g s = false) (hsf : splitFirst ';' s = (head, tail))
    (hsplit : split g.delimiters head = some (name0 :: fields)) (hdot : splitOn '.' name0 = [name0])
    (hm : matchType g name0 = some ty) (hcid : (name0.drop ty.length).takeWhile isIdChar = cid)
    (hanon : ((cid.isEmpty && (ty == ['A'] || ty == ['W'] || ty == ['O'] || ty == ['P'])) || cid == ['?']) = false)
    (hrules : rulesOf g ty = r0 :: rs) (rule : Rule) (kp : Option Nat)
    (hsel : selectLoop fields (r0 :: rs) none = (sel, kp)) (hrule : rule = (sel.map (·.1)).getD r0)
    (nodes : List Str) (args1 : List Arg) (rest : List Str) (e : Err)
    (hlen : ¬ fields.length > rule.params.length) (hnodes : extractNodes name0 [] rule.params fields = .ok nodes)
    (hmiss : missingArg rule.params 0 fields.length = false)
    (hpos : assignPos ((rule.params.filter (·.kind.isArg)).map (Arg.init · name0)) (fields.drop (m2Of rule.params 0 0)) = .ok (args1, rest))
    (hnamed : assignNamed args1 rest = .error e) :
    parse g used [] s = .error e :=
  parse_error_of_process g hok used s head sel tail name0 fields ty cid r0 rs hstrip hdir hsf hsplit hdot hm hcid hanon hrules
    rule kp hsel hrule _ (process_error_of_named rule fields name0 [] name0 nodes args1 rest e hlen hnodes hmiss hpos hnamed)

/-- **rejects_unbalanced_line.**  A line whose part before `;` does not tokenise (unbalanced braces / quotes,
    unmatched `}`) is rejected by `parse`. -/
theorem rejects_unbalanced_line (g : Grammar) (hok : g.ok = true) (used : List Str) (ns s : Str)
    (hdir : isDirective g (strip s) = false)
    (h : split g.delimiters (splitFirst ';' (strip s)).1 = none) :
    parse g used ns s = .error .unbalanced := by
  unfold parse
  simp only [hok, hdir]
  simp [h]

theorem bad_stays (ds : List Char) (t : Str) (s : St) (h : s.bad = true) : (t.foldl (step ds) s).bad = true := by
  induction t generalizing s with
  | nil => exact h
  | cons c t ih =>
    apply ih
    unfold step
    split
    · split <;> simp [h]
    · split
      · split <;> simp [h]
      · split
        · simp [h]
        · split
          · simp [h]
          · split <;> simp [h]

/-- **split_stray_close.**  An unmatched `}` outside any bracket makes `split` itself fail (lifting
    `stray_close_not_atomic` from the helper predicate to the tokeniser). -/
theorem split_stray_close (ds : List Char) (hd : ds.contains '}' = false) (a b : Str)
    (ha : scan ds a (none, []) = some (none, [])) : split ds (a ++ '}' :: b) = none := by
  have hd' : '}' ∉ ds := by simpa using hd
  have h1 := fold_scan ds a [] [] false (none, []) (none, []) ha
  have h2 : (step ds ⟨[], a.reverse ++ [], none, [], false⟩ '}').bad = true := by
    simp [step, hd']
  have h1' : a.foldl (step ds) ⟨[], [], none, [], false⟩ = ⟨[], a.reverse ++ [], none, [], false⟩ := h1
  have hrest : ∀ t : Str, ((a ++ '}' :: t).foldl (step ds) ⟨[], [], none, [], false⟩).bad = true := by
    intro t
    rw [List.foldl_append, List.foldl_cons, h1']
    exact bad_stays ds t _ h2
  have hall : (((a ++ '}' :: b) ++ [ds.headD ' ']).foldl (step ds) ⟨[], [], none, [], false⟩).bad = true := by
    have e : (a ++ '}' :: b) ++ [ds.headD ' '] = a ++ '}' :: (b ++ [ds.headD ' ']) := by simp
    rw [e]; exact hrest _
  unfold split
  simp only [hall, Bool.or_true, ↓reduceIte]


/-- **line_roundtrip_table_partial.**  `line_roundtrip_partial` for the checked-out grammar: for EVERY rule of the
    table and every component in normal form.
    PARTIAL: the quantifier `normalCpt` / `optsNormal` is smaller than "every netlist Lcapy accepts".  Excluded
    although parser and printer accept them (covered by correspondence and oracle only):
      (i)   namespaced names (`a.R1 1 2 3`; `nameOK` forbids `.`),
      (ii)  anonymous components (`W 1 2`, `R? 1 2`) and directive / comment / blank lines,
      (iii) option values containing `{`, `}` or `,` and the `def` key (`l={R_1}`, `l={a, b}`) -- a proof
            convenience of `optStrOK`, not a defect: model and code round-trip them,
    and, corresponding to the known findings C06-e / C06-a / C06-b, values that are empty, start with `{` or `"`,
    contain a top-level `=`, equal a keyword of the type, or (SW) equal the component name. -/
theorem line_roundtrip_table_partial (r : Rule) (hr : r ∈ theGrammar.rules) (c : Cpt)
    (hn : normalCpt theGrammar r c = true) (s : Str) (hp : printCpt theGrammar c = some s) :
    ∃ kp os, (∀ used, parse theGrammar used [] s
        = .ok ({ c with args := normArgs c.args, kwpos := kp, opts := os, string := s }, none))
      ∧ (c.kw ≠ [] → kp = c.kwpos)
      ∧ (∃ o os', optsParse c.opts = .ok o ∧ optsFormat o = some os' ∧ os = strip os')
      ∧ strip s = s ∧ s.head? = c.name.head? ∧ c.name.head? ≠ some '.' ∧ c.name ≠ [] :=
  line_roundtrip_partial theGrammar table_wf2 r hr c hn s hp

/-- **line_roundtrip_full_table_partial.**  The complete line-level statement for the checked-out grammar.
    PARTIAL: the quantifier `normalCpt` / `optsNormal` is smaller than "every netlist Lcapy accepts".  Excluded
    although parser and printer accept them (covered by correspondence and oracle only):
      (i)   namespaced names (`a.R1 1 2 3`; `nameOK` forbids `.`),
      (ii)  anonymous components (`W 1 2`, `R? 1 2`) and directive / comment / blank lines,
      (iii) option values containing `{`, `}` or `,` and the `def` key (`l={R_1}`, `l={a, b}`) -- a proof
            convenience of `optStrOK`, not a defect: model and code round-trip them,
    and, corresponding to the known findings C06-e / C06-a / C06-b, values that are empty, start with `{` or `"`,
    contain a top-level `=`, equal a keyword of the type, or (SW) equal the component name. -/
theorem line_roundtrip_full_table_partial (r : Rule) (hr : r ∈ theGrammar.rules) (c : Cpt)
    (hn : normalCpt theGrammar r c = true) (o : Opts) (ho : optsParse c.opts = .ok o) (hon : optsNormal o = true)
    (s : Str) (hp : printCpt theGrammar c = some s) :
    ∃ c', (∀ used, parse theGrammar used [] s = .ok (c', none)) ∧ sameCpt c c' = true
      ∧ printCpt theGrammar c' = some s ∧ c'.name = c.name := by
  obtain ⟨c', h1, h2, h3, h4, _⟩ := line_roundtrip_full_partial theGrammar table_wf2 r hr c hn o ho hon s hp
  exact ⟨c', h1, h2, h3, h4⟩

/-- **print_parse_print_idempotent_partial.**  THE idempotence statement (line level): for a component in
    normal form, print, parse the printed line, print again -- the second text is the first one.  (Corollary
    of `line_roundtrip_full_partial`; same exclusions.) -/
theorem print_parse_print_idempotent_partial (g : Grammar) (hg : grammarWF g = true) (r : Rule) (hr : r ∈ g.rules) (c : Cpt)
    (hn : normalCpt g r c = true) (o : Opts) (ho : optsParse c.opts = .ok o) (hon : optsNormal o = true)
    (s : Str) (hp : printCpt g c = some s) (used : List Str) :
    ∃ c', parse g used [] s = .ok (c', none) ∧ printCpt g c' = some s := by
  obtain ⟨c', h1, _, h3, _⟩ := line_roundtrip_full_partial g hg r hr c hn o ho hon s hp
  exact ⟨c', h1 used, h3⟩

/-- the same for the checked-out grammar -/
theorem print_parse_print_idempotent_table_partial (r : Rule) (hr : r ∈ theGrammar.rules) (c : Cpt)
    (hn : normalCpt theGrammar r c = true) (o : Opts) (ho : optsParse c.opts = .ok o) (hon : optsNormal o = true)
    (s : Str) (hp : printCpt theGrammar c = some s) (used : List Str) :
    ∃ c', parse theGrammar used [] s = .ok (c', none) ∧ printCpt theGrammar c' = some s :=
  print_parse_print_idempotent_partial theGrammar table_wf2 r hr c hn o ho hon s hp used

/-! non-vacuity: concrete components of several rule shapes satisfy every hypothesis -/

def exRule (cls : String) : Rule := (theGrammar.rules.find? (·.classname == cls.toList)).getD ⟨[], [], [], none⟩

def exCpt (cls name ty cid : String) (nodes : List String) (args : List (Option String)) (kp : Option Nat)
    (kw opts : String) : Cpt :=
  { classname := cls.toList, name := name.toList, ctype := ty.toList, cid := cid.toList, nodes := nodes.map (·.toList),
    args := args.map (·.map (·.toList)), kwpos := kp, kw := kw.toList, opts := opts.toList, string := [] }

example : exRule "Vac" ∈ theGrammar.rules ∧
    normalCpt theGrammar (exRule "Vac") (exCpt "Vac" "V1" "V" "1" ["1", "n_2"] [some "a + (b, c)", none, none] (some 2) "ac" "right=2, l=V_1") = true
    ∧ printCpt theGrammar (exCpt "Vac" "V1" "V" "1" ["1", "n_2"] [some "a + (b, c)", none, none] (some 2) "ac" "right=2, l=V_1")
      = some "V1 1 n_2 ac {a + (b, c)} 0; right=2, l=V_1".toList := by decide +kernel

example : exRule "C" ∈ theGrammar.rules ∧
    normalCpt theGrammar (exRule "C") (exCpt "C" "C_x" "C" "_x" ["a.b", "0"] [some "C_x", none] none "" "") = true
    ∧ printCpt theGrammar (exCpt "C" "C_x" "C" "_x" ["a.b", "0"] [some "C_x", none] none "" "") = some "C_x a.b 0".toList := by
  decide +kernel

example : exRule "TFtap" ∈ theGrammar.rules ∧
    normalCpt theGrammar (exRule "TFtap") (exCpt "TFtap" "TF1" "TF" "1" ["a", "b", "c", "d", "e", "f"] [some "10k"] (some 4) "tap" "down") = true := by
  decide +kernel

example : exRule "Uopamp" ∈ theGrammar.rules ∧
    normalCpt theGrammar (exRule "Uopamp") (exCpt "Uopamp" "U1" "U" "1" [] [] (some 0) "opamp" "right") = true := by
  decide +kernel

example : exRule "SPpm" ∈ theGrammar.rules ∧
    normalCpt theGrammar (exRule "SPpm") (exCpt "SPpm" "SP2" "SP" "2" ["x", "y", "z"] [] (some 0) "pm" "") = true := by
  decide +kernel

/-- the hypotheses exclude exactly the known defects: a value equal to a keyword of the type (C06-a) and a
    switch time equal to the component name (C06-b) are not in normal form -/
example : normalCpt theGrammar (exRule "V") (exCpt "V" "V1" "V" "1" ["1", "2"] [some "s"] (some 2) "" "") = false
    ∧ normalCpt theGrammar (exRule "SW") (exCpt "SW" "SW1" "SW" "1" ["1", "2"] [some "SW1"] (some 2) "" "") = false := by
  decide +kernel

end Lcapy.C06
