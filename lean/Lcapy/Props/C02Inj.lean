/-
  C02 — injectivity of the formal unilateral Laplace transform, and what it gives for circuits: the time response is
  unique as a FORMAL signal, and laws that hold at the level of transforms hold formally (hence pointwise, hence as
  classical ODEs: `C02.formal_pointwise`, `C02.cap_ode_real`).

  Over an infinite field (any characteristic: the basis t^k e^{pt}/k! is normalised so that no factorial appears):

    L_injective        one delay (for delay 0: lumped circuits without delayed sources), any `E` with E(x+y) = E x·E y, E 0 = 1
    L_injective_w      ANY delays and impulses, the delay factors e^{−s d} being independent indeterminates (`LW`)
    L_injective_delay  any delays, for an `E` whose delay factors are independent (`DelayIndep E`)
    L_injective_real   any delays and impulses, E = Real.exp : NO hypothesis (`delayIndep_real`, Proofs/TimeDomainInjReal.lean)
    LawsTime (= FinitePoles ∧ LawsT: the claimed notion) / lawsTime_iff_formal / formal_lawsTime / laws_time_of_laws_s /
    lawsT_iff_formal / lawsTW_iff_formal / lawsTFormal_of_laws_s / response_unique / continuity(_value)

  "vanishes / agrees at every regular point" is weakened throughout to "outside some finite set" (stronger theorems).
  Helper lemmas: Proofs/TimeDomainInj.lean.
-/
import Lcapy.Props.C02
import Lcapy.Proofs.TimeDomainInj
import Lcapy.Proofs.TimeDomainInjReal
namespace Lcapy.C02
open Lcapy.MNA Lcapy.Laplace Lcapy.TD

section injectivity
variable {K : Type} [Field K] [DecidableEq K] [Infinite K] (E : K → K)

/-- **L_injective** (one delay; `d0 = 0`: no delayed term).  A formal signal — exponential-polynomial terms
    c·t^k/k!·e^{pt} and impulses c·δ^{(n)} — whose transform vanishes at every regular point outside a finite set has the
    empty normal form: all its coefficients, like terms collected, are zero. -/
theorem L_injective (hE : IsExp E) (d0 : K) (f : ExpPoly K) (hd : AllDelay d0 f) (bad : Finset K)
    (h : ∀ s, s ∉ bad → NonPole f s → L E f s = 0) : FormalZero f := by
  apply formalZero_of_L_zero E d0 f hd (fun s => isExp_ne_zero hE _) (bad ∪ (polesOf f).toFinset)
  intro s hs
  simp only [Finset.mem_union, List.mem_toFinset, not_or] at hs
  exact h s hs.1 (nonPole_of_not_mem hs.2)

/-- … as equality of two signals: transforms that agree at the common regular points (outside a finite set) ⇒ the same
    coefficient on every basis signal, i.e. equal normal forms. -/
theorem L_injective_eq (hE : IsExp E) (d0 : K) (f g : ExpPoly K) (hf : AllDelay d0 f) (hg : AllDelay d0 g)
    (bad : Finset K) (h : ∀ s, s ∉ bad → NonPole f s → NonPole g s → L E f s = L E g s) (κ : Term K) :
    coefOf κ f = coefOf κ g := by
  have hz : FormalZero (subP f g) := by
    apply formalZero_of_L_zero E d0 _ (hf.subP hg) (fun s => isExp_ne_zero hE _)
      (bad ∪ (polesOf f).toFinset ∪ (polesOf g).toFinset)
    intro s hs
    simp only [Finset.mem_union, List.mem_toFinset, not_or] at hs
    rw [L_subP, h s hs.1.1 (nonPole_of_not_mem hs.1.2) (nonPole_of_not_mem hs.2), sub_self]
  have := coefOf_of_formalZero hz κ
  rw [coefOf_subP] at this
  exact sub_eq_zero.mp this

/-- **L_injective_w** (any delays, impulses included): with the delay factors as independent indeterminates — the
    reading of `exp(−s·T)` used by the model (DESIGN §2.2) — a signal whose transform vanishes outside a finite set for
    every value of the indeterminates is formally zero; and conversely. -/
theorem L_injective_w (f : ExpPoly K) (bad : Finset K)
    (h : ∀ (w : K → K) (s : K), s ∉ bad → NonPole f s → LW w f s = 0) : FormalZero f := by
  apply formalZero_of_LW f (bad ∪ (polesOf f).toFinset)
  intro w s hs
  simp only [Finset.mem_union, List.mem_toFinset, not_or] at hs
  exact h w s hs.1 (nonPole_of_not_mem hs.2)

theorem formalZero_iff_LW (f : ExpPoly K) : FormalZero f ↔ ∀ (w : K → K) (s : K), LW w f s = 0 :=
  ⟨fun h w s => LW_of_formalZero w h s, fun h => formalZero_of_LW f ∅ (fun w s _ => h w s)⟩

/-- **L_injective_delay**: any delays, for an exponential whose delay factors are independent over the rational
    functions (`DelayIndep E`). -/
theorem L_injective_delay (hE : IsExp E) (hI : DelayIndep E) (f : ExpPoly K) (bad : Finset K)
    (h : ∀ s, s ∉ bad → NonPole f s → L E f s = 0) : FormalZero f := by
  apply formalZero_of_delayIndep E hE hI f (bad ∪ (polesOf f).toFinset)
  intro s hs
  simp only [Finset.mem_union, List.mem_toFinset, not_or] at hs
  exact h s hs.1 (nonPole_of_not_mem hs.2)

/-! ### circuits -/

/-- no signal of the circuit and no source waveform contains a delayed term -/
def DelayFree (tcs : List (TCpt K)) (x : Ix → Signal K) : Prop :=
  (∀ ix, AllDelay 0 (x ix).post) ∧ (∀ c ∈ tcs, AllDelay 0 c.2.post)

/-- the hypothesis on delays under which transform-level statements are lifted to formal ones: either nothing is
    delayed, or the delay factors of `E` are independent -/
def DelaysOK (tcs : List (TCpt K)) (x : Ix → Signal K) : Prop := DelayFree tcs x ∨ DelayIndep E

/-- the signals and sources have finitely many poles altogether (e.g. all but finitely many unknowns are the zero signal) -/
def FinitePoles (tcs : List (TCpt K)) (x : Ix → Signal K) : Prop := ∃ bad : Finset K, ∀ s, s ∉ bad → Regular tcs x s

/-- every residual of a problem whose delays are OK is zero as soon as its transform vanishes off a finite set -/
theorem residual_inj (hE : IsExp E) (tcs : List (TCpt K)) (x : Ix → Signal K) (hD : DelaysOK E tcs x)
    (r : ExpPoly K) (hr : (∃ k, r = kclT x k tcs) ∨ (∃ c ∈ tcs, ∃ p ∈ lawsT x c, r = p.2))
    (bad : Finset K) (hz : ∀ s, s ∉ bad → L E r s = 0) : FormalZero r := by
  rcases hD with hdf | hI
  · have hd : AllDelay 0 r := by
      rcases hr with ⟨k, rfl⟩ | ⟨c, hc, p, hp, rfl⟩
      · exact allDelay_kclT x hdf.1 tcs hdf.2 k
      · exact allDelay_lawsT x hdf.1 c (hdf.2 c hc) p hp
    exact formalZero_of_L_zero E 0 r hd (fun s => isExp_ne_zero hE _) bad hz
  · exact formalZero_of_delayIndep E hE hI r bad hz

/-- **lawsT_iff_formal**: for a lumped circuit without delayed sources (or with independent delay factors) the
    transform-level laws `LawsT E` and the formal laws `LawsTFormal` decided by the driver are THE SAME statement. -/
theorem lawsT_iff_formal (hE : IsExp E) (tcs : List (TCpt K)) (x : Ix → Signal K) (hD : DelaysOK E tcs x)
    (hfin : FinitePoles tcs x) : LawsT E tcs x ↔ LawsTFormal tcs x := by
  refine ⟨fun h => ?_, formal_lawsT E tcs x⟩
  obtain ⟨bad, hbad⟩ := hfin
  refine ⟨fun k hk => ?_, fun c hc p hp => ?_⟩
  · exact residual_inj E hE tcs x hD _ (Or.inl ⟨k, rfl⟩) bad (fun s hs => (h s (hbad s hs)).1 k hk)
  · exact residual_inj E hE tcs x hD _ (Or.inr ⟨c, hc, p, hp, rfl⟩) bad (fun s hs => (h s (hbad s hs)).2 c hc p hp)

/-! ### the time-domain laws as CLAIMED: with finitely many poles (audit F3)

    `LawsT E` alone says nothing when the set of regular points is empty (signals on unused indices whose poles cover the
    field satisfy it for every circuit: reviewer's `lawsT_junk`).  The notion used in the claims is `LawsTime`. -/

/-- **the time-domain laws at the level of transforms**: finitely many poles altogether, and every residual has the zero
    transform at every regular point.  For delayed sources read it with an `E` whose delay factors are independent
    (`Real.exp`: `…_real` theorems) or use `LawsTW`; over ℚ every `IsExp E` is the constant 1 and forgets delays (F4). -/
def LawsTime (tcs : List (TCpt K)) (x : Ix → Signal K) : Prop := FinitePoles tcs x ∧ LawsT E tcs x

/-- **formal_lawsTime**: what the driver decides, on signals with finitely many poles, gives the time-domain laws. -/
theorem formal_lawsTime (tcs : List (TCpt K)) (x : Ix → Signal K) (hfin : FinitePoles tcs x) (h : LawsTFormal tcs x) :
    LawsTime E tcs x := ⟨hfin, formal_lawsT E tcs x h⟩

/-- **laws_time_of_laws_s** (`laws_t_of_laws_s` with `FinitePoles`). -/
theorem laws_time_of_laws_s (hE : IsExp E) (tcs : List (TCpt K)) (x : Ix → Signal K) (hfin : FinitePoles tcs x)
    (hrest : RestWhereUnspecified tcs x)
    (h : ∀ s, Regular tcs x s → Laws .ivp s (tcs.map (atS E s)) (transformOf E x s)) : LawsTime E tcs x :=
  ⟨hfin, laws_t_of_laws_s E hE tcs x hrest h⟩

/-- **response_is_ilt_time** (`response_is_ilt` with `FinitePoles`; `TD.response` is the model's `ilt`, executed by Driver/C10). -/
theorem response_is_ilt_time (hE : IsExp E) (tcs : List (TCpt K)) (pre : Ix → List (K × Nat × K)) (pfs : Ix → List (PF K))
    (hfin : FinitePoles tcs (fun ix => ⟨pre ix, response (pfs ix)⟩))
    (hpos : ∀ ix, ∀ pf ∈ pfs ix, ∀ r ∈ pf.R, 0 < r.2.2)
    (hrest : RestWhereUnspecified tcs (fun ix => ⟨pre ix, response (pfs ix)⟩))
    (hS : ∀ s, Regular tcs (fun ix => ⟨pre ix, response (pfs ix)⟩) s →
      Laws .ivp s (tcs.map (atS E s)) (fun ix => lsum ((pfs ix).map (fun pf => evalPF E pf s)))) :
    LawsTime E tcs (fun ix => ⟨pre ix, response (pfs ix)⟩) :=
  ⟨hfin, response_is_ilt E hE tcs pre pfs hpos hrest hS⟩

/-- **lawsTime_iff_formal**: the claimed equivalence — the time-domain laws (transform level, finitely many poles) are
    exactly the formal laws decided by the driver, when nothing is delayed or the delay factors of `E` are independent. -/
theorem lawsTime_iff_formal (hE : IsExp E) (tcs : List (TCpt K)) (x : Ix → Signal K) (hD : DelaysOK E tcs x) :
    LawsTime E tcs x ↔ FinitePoles tcs x ∧ LawsTFormal tcs x :=
  ⟨fun h => ⟨h.1, (lawsT_iff_formal E hE tcs x hD h.1).mp h.2⟩, fun h => ⟨h.1, formal_lawsT E tcs x h.2⟩⟩

/-- the reviewer's point, as a theorem of this file: without `FinitePoles` the transform-level laws do not imply the
    formal ones — `LawsT` holds for EVERY circuit on signals with no regular point -/
theorem lawsT_of_no_regular_point (tcs : List (TCpt K)) (x : Ix → Signal K) (h : ∀ s, ¬ Regular tcs x s) : LawsT E tcs x :=
  fun s hs => absurd hs (h s)

/-- **lawsTW_iff_formal**: with the delay factors as independent indeterminates the equivalence holds for ALL signals
    (delayed sources, impulses): what the driver decides is exactly "every residual has the zero transform". -/
theorem lawsTW_iff_formal (tcs : List (TCpt K)) (x : Ix → Signal K) (hfin : FinitePoles tcs x) :
    LawsTW tcs x ↔ LawsTFormal tcs x := by
  constructor
  · intro h
    obtain ⟨bad, hbad⟩ := hfin
    refine ⟨fun k hk => ?_, fun c hc p hp => ?_⟩
    · exact formalZero_of_LW _ bad (fun w s hs => (h w s (hbad s hs)).1 k hk)
    · exact formalZero_of_LW _ bad (fun w s hs => (h w s (hbad s hs)).2 c hc p hp)
  · intro h w s _
    exact ⟨fun k hk => LW_of_formalZero w (h.1 k hk) s, fun c hc p hp => LW_of_formalZero w (h.2 c hc p hp) s⟩

/-- **lawsTFormal_of_laws_s** (`laws_t_of_laws_s` with the formal conclusion, no injectivity hypothesis): if the transforms
    of the signals satisfy the ivp s-domain laws of C01 at the regular points (outside a finite set), then the signals
    satisfy the time-domain laws FORMALLY — so also pointwise at every instant (`formal_pointwise`) and as classical
    ODEs (`cap_ode_real`). -/
theorem lawsTFormal_of_laws_s (hE : IsExp E) (tcs : List (TCpt K)) (x : Ix → Signal K) (hD : DelaysOK E tcs x)
    (hfin : FinitePoles tcs x) (hrest : RestWhereUnspecified tcs x) (bad : Finset K)
    (h : ∀ s, s ∉ bad → Regular tcs x s → Laws .ivp s (tcs.map (atS E s)) (transformOf E x s)) :
    LawsTFormal tcs x := by
  obtain ⟨bad0, hbad0⟩ := hfin
  have key : ∀ s, s ∉ bad ∪ bad0 →
      (∀ k, k ≠ 0 → L E (kclT x k tcs) s = 0) ∧ (∀ c ∈ tcs, ∀ p ∈ lawsT x c, L E p.2 s = 0) := by
    intro s hs
    simp only [Finset.mem_union, not_or] at hs
    have hreg := hbad0 s hs.2
    obtain ⟨hk, hl⟩ := h s hs.1 hreg
    refine ⟨?_, ?_⟩
    · intro k hk0
      have := hk k hk0
      rw [List.map_map] at this
      rw [kclT, L_flatMap_lsum, ← this]
      congr 1
      apply List.map_congr_left
      intro c hc
      exact outflow_transform E hE x s hreg.1 k c (restC_of_rest hrest hc)
    · intro c hc q hq
      have hm : (q.1, L E q.2 s) ∈ laws .ivp s (transformOf E x s) (atS E s c) := by
        rw [← laws_transform E hE x s hreg.1 c (restC_of_rest hrest hc)]
        exact List.mem_map.mpr ⟨q, hq, rfl⟩
      exact hl (atS E s c) (List.mem_map.mpr ⟨c, hc, rfl⟩) _ hm
  refine ⟨fun k hk => ?_, fun c hc p hp => ?_⟩
  · exact residual_inj E hE tcs x hD _ (Or.inl ⟨k, rfl⟩) _ (fun s hs => (key s hs).1 k hk)
  · exact residual_inj E hE tcs x hD _ (Or.inr ⟨c, hc, p, hp, rfl⟩) _ (fun s hs => (key s hs).2 c hc p hp)

/-- **response_unique** (was `response_unique_partial`): two time-domain solutions of one netlist (same sources, same
    initial state) whose MNA system is non-singular (on the unknowns `U` of the netlist) outside a finite set of points
    are THE SAME formal signals: for every unknown the difference has the empty normal form (equal coefficients on every
    basis signal).
    So the response Lcapy returns, once it passes the laws, is the only one. -/
theorem response_unique (hE : IsExp E) (tcs : List (TCpt K)) (x y : Ix → Signal K)
    (hDx : DelaysOK E tcs x) (hDy : DelaysOK E tcs y) (hfx : FinitePoles tcs x) (hfy : FinitePoles tcs y)
    (hrx : RestWhereUnspecified tcs x) (hry : RestWhereUnspecified tcs y)
    (hx : LawsT E tcs x) (hy : LawsT E tcs y) (U : Ix → Prop) (sing : Finset K)
    (hwf : ∀ s, s ∉ sing → C01.WF (tcs.map (atS E s)))
    (hns : ∀ s, s ∉ sing → C01.NonsingularOn U .ivp s (tcs.map (atS E s))) :
    ∀ i, U i → FormalZero (subP (x i).post (y i).post) := by
  intro i hi
  obtain ⟨bx, hbx⟩ := hfx
  obtain ⟨by', hby⟩ := hfy
  have hz : ∀ s, s ∉ sing ∪ bx ∪ by' → L E (subP (x i).post (y i).post) s = 0 := by
    intro s hs
    simp only [Finset.mem_union, not_or] at hs
    have := response_unique_at E hE U tcs x y hrx hry hx hy s (hbx s hs.1.2) (hby s hs.2) (hwf s hs.1.1)
      (hns s hs.1.1) i hi
    rw [L_subP, this, sub_self]
  rcases hDx with hdx | hI
  · rcases hDy with hdy | hI
    · exact formalZero_of_L_zero E 0 _ ((hdx.1 i).subP (hdy.1 i)) (fun s => isExp_ne_zero hE _) _ hz
    · exact formalZero_of_delayIndep E hE hI _ _ hz
  · exact formalZero_of_delayIndep E hE hI _ _ hz

/-- **continuity** (was `continuity_partial`; no injectivity hypothesis): if `i = C·D v` holds at the level of
    transforms (outside a finite set) for a whole-axis solution without delayed terms, the capacitor voltage is
    impulse-free and its current has no impulse at the origin, then the voltage is continuous across t = 0. -/
theorem continuity (hE : IsExp E) (x : Ix → Signal K) (n1 n2 : Nat) (c : K) (i : ExpPoly K) (hc : c ≠ 0)
    (hdx : ∀ ix, AllDelay 0 (x ix).post) (hdi : AllDelay 0 i) (bad : Finset K)
    (hlaw : ∀ s, s ∉ bad → NonPole (subP i (capCurrentT x n1 n2 c none)) s →
      L E (subP i (capCurrentT x n1 n2 c none)) s = 0)
    (hv : NoDelta (vpost x n1 n2)) (hi : impulse0 i = 0) :
    val0plus (vpost x n1 n2) = vpre0 x n1 n2 :=
  ic_start x n1 n2 c none i hc
    (L_injective E hE 0 _ (hdi.subP (((AllDelay.vpost hdx n1 n2).stateDeriv _).smul c)) bad hlaw) hv hi

end injectivity

/-- **continuity_value**: `continuity` as a statement about the VALUE at 0⁺ (`evalAt … 0`), for a causal voltage
    (`val0plus` is the value at 0⁺ only when no term has a negative delay: audit F5). -/
theorem continuity_value {K : Type} [Field K] [LinearOrder K] [IsStrictOrderedRing K] [Infinite K] (E : K → K) (hE : IsExp E)
    (x : Ix → Signal K) (n1 n2 : Nat) (c : K) (i : ExpPoly K) (hc : c ≠ 0)
    (hdx : ∀ ix, AllDelay 0 (x ix).post) (hdi : AllDelay 0 i) (bad : Finset K)
    (hlaw : ∀ s, s ∉ bad → NonPole (subP i (capCurrentT x n1 n2 c none)) s →
      L E (subP i (capCurrentT x n1 n2 c none)) s = 0)
    (hv : NoDelta (vpost x n1 n2)) (hi : impulse0 i = 0) :
    evalAt E (vpost x n1 n2) 0 = vpre0 x n1 n2 := by
  have hcz : Causal (vpost x n1 n2) := fun t ht => by rw [AllDelay.vpost hdx n1 n2 t ht]
  rw [evalAt_zero_of_causal E hE.zero _ hcz]
  exact continuity E hE x n1 n2 c i hc hdx hdi bad hlaw hv hi

/-! ### the real exponential: injectivity with delays and impulses, no hypothesis left -/

section real

theorem isExp_real : IsExp Real.exp := ⟨Real.exp_add, Real.exp_zero⟩

/-- **L_injective_real**: with the real exponential the formal unilateral transform is injective on ALL formal signals
    — exponential-polynomial terms, impulses and their derivatives, any (also negative or several) delays: a signal whose
    transform vanishes at every regular real point outside a finite set has the empty normal form.  The delay factors
    e^{−s d} of the real exponential ARE independent over the rational functions (`delayIndep_real`: a polynomial that is
    a combination of decaying exponentials tends to 0 at +∞, hence is 0). -/
theorem L_injective_real (f : ExpPoly ℝ) (bad : Finset ℝ)
    (h : ∀ s, s ∉ bad → NonPole f s → L Real.exp f s = 0) : FormalZero f :=
  L_injective_delay Real.exp isExp_real delayIndep_real f bad h

/-- the hypothesis `DelaysOK` of the circuit theorems always holds for the real exponential -/
theorem delaysOK_real (tcs : List (TCpt ℝ)) (x : Ix → Signal ℝ) : DelaysOK Real.exp tcs x := Or.inr delayIndep_real

/-- **lawsT_iff_formal_real**: over ℝ with the real exponential — delayed sources, impulsive responses and all — the
    time-domain laws as equality of transforms are exactly the formal laws decided by the driver. -/
theorem lawsT_iff_formal_real (tcs : List (TCpt ℝ)) (x : Ix → Signal ℝ) (hfin : FinitePoles tcs x) :
    LawsT Real.exp tcs x ↔ LawsTFormal tcs x :=
  lawsT_iff_formal Real.exp isExp_real tcs x (delaysOK_real tcs x) hfin

/-- **response_unique_real**: uniqueness of the time response as a formal signal, delays included. -/
theorem response_unique_real (tcs : List (TCpt ℝ)) (x y : Ix → Signal ℝ)
    (hfx : FinitePoles tcs x) (hfy : FinitePoles tcs y)
    (hrx : RestWhereUnspecified tcs x) (hry : RestWhereUnspecified tcs y)
    (hx : LawsT Real.exp tcs x) (hy : LawsT Real.exp tcs y) (U : Ix → Prop) (sing : Finset ℝ)
    (hwf : ∀ s, s ∉ sing → C01.WF (tcs.map (atS Real.exp s)))
    (hns : ∀ s, s ∉ sing → C01.NonsingularOn U .ivp s (tcs.map (atS Real.exp s))) :
    ∀ i, U i → FormalZero (subP (x i).post (y i).post) :=
  response_unique Real.exp isExp_real tcs x y (delaysOK_real tcs x) (delaysOK_real tcs y) hfx hfy hrx hry hx hy U sing hwf hns

/-- the delayed pulse u(t) − u(t−1) that the stand-in `E = 1` cannot tell from 0 has a non-zero transform with the real
    exponential: at s = 1 it is 1 − e^{−1} -/
example : L Real.exp [.ep 1 0 0 0, .ep (-1) 0 0 1] 1 ≠ 0 := by
  have h : Real.exp (-1) < 1 := by
    have := Real.exp_lt_exp.mpr (show (-1 : ℝ) < 0 by norm_num)
    rwa [Real.exp_zero] at this
  norm_num [L, Term.L, pw]
  intro e
  linarith

end real

/-! ### non-vacuity on the example circuit of Props/C02 (`exTcs`, `exX`; K = ℚ, infinite) -/

section examples

example : IsExp (fun _ : ℚ => (1 : ℚ)) := ⟨fun _ _ => by simp, rfl⟩

theorem ex_delayFree : DelayFree exTcs exX := by
  constructor
  · intro ix t ht
    match ix with
    | .node 0 => simp [exX] at ht
    | .node 1 => simp [exX] at ht; subst ht; rfl
    | .node 2 => simp [exX] at ht; rcases ht with rfl | rfl <;> rfl
    | .node (k + 3) => simp [exX] at ht
    | .br 0 => simp [exX] at ht; subst ht; rfl
    | .br (m + 1) => simp [exX] at ht
  · intro c hc t ht
    simp only [exTcs, List.mem_cons, List.not_mem_nil, or_false] at hc
    rcases hc with rfl | rfl | rfl <;> simp at ht
    subst ht; rfl

/-- the poles of the example are 0 and −1 -/
theorem ex_finitePoles : FinitePoles exTcs exX := by
  refine ⟨{0, -1}, ?_⟩
  intro s hs
  simp only [Finset.mem_insert, Finset.mem_singleton, not_or] at hs
  have h0 : s - 0 ≠ 0 := by simpa using hs.1
  have h1 : s - -1 ≠ 0 := sub_ne_zero.mpr hs.2
  constructor
  · intro ix t ht
    match ix with
    | .node 0 => simp [exX] at ht
    | .node 1 => simp [exX] at ht; subst ht; exact h0
    | .node 2 => simp [exX] at ht; rcases ht with rfl | rfl; exact h0; exact h1
    | .node (k + 3) => simp [exX] at ht
    | .br 0 => simp [exX] at ht; subst ht; exact h1
    | .br (m + 1) => simp [exX] at ht
  · intro c hc t ht
    simp only [exTcs, List.mem_cons, List.not_mem_nil, or_false] at hc
    rcases hc with rfl | rfl | rfl <;> simp at ht
    subst ht; exact h0

/-- on the example the transform-level and the formal laws coincide, and both hold -/
example : LawsT (fun _ : ℚ => (1 : ℚ)) exTcs exX ↔ LawsTFormal exTcs exX :=
  lawsT_iff_formal _ ⟨fun _ _ => by simp, rfl⟩ exTcs exX (Or.inl ex_delayFree) ex_finitePoles

example : LawsTW exTcs exX := (lawsTW_iff_formal exTcs exX ex_finitePoles).mpr ex_lawsTFormal

/-- a delayed signal that `L_injective_w` sees and `E = 1` does not: u(t) − u(t−1) has the zero transform under the
    (non-independent) stand-in `E = 1`, but not for every value of the delay indeterminates -/
example : L (fun _ : ℚ => (1 : ℚ)) [.ep 1 0 0 0, .ep (-1) 0 0 1] 2 = 0 := by
  norm_num [L, Term.L, pw]
example : LW (fun d : ℚ => if d = 0 then 1 else 0) [.ep 1 0 0 0, .ep (-1) 0 0 1] 2 ≠ 0 := by
  norm_num [LW, Term.LW, pw]
example : ¬ FormalZero ([.ep 1 0 0 0, .ep (-1) 0 0 1] : ExpPoly ℚ) := by decide +kernel

/-- the hypotheses of `L_injective` on a signal whose like terms cancel: u(t) − u(t) -/
example : ∀ s : ℚ, s ∉ (∅ : Finset ℚ) → NonPole ([.ep 1 0 0 0, .ep (-1) 0 0 0] : ExpPoly ℚ) s →
    L (fun _ : ℚ => (1 : ℚ)) [.ep 1 0 0 0, .ep (-1) 0 0 0] s = 0 := by
  intro s _ _; simp [L, Term.L, pw]; ring
example : AllDelay (0 : ℚ) [.ep 1 0 0 0, .ep (-1) 0 0 0] := by
  intro t ht; simp at ht; rcases ht with rfl | rfl <;> rfl

/-- the MNA system of the example is non-singular on its unknowns V(1), V(2), I(V1) at every s ≠ −1 -/
theorem ex_nonsingularOn (s : ℚ) (hs : s ≠ -1) :
    C01.NonsingularOn (fun i => i = .node 1 ∨ i = .node 2 ∨ i = .br 0) .ivp s (exTcs.map (atS (fun _ => 1) s)) := by
  intro z hz i hi
  have h1 := hz (.node 1) (by simp)
  have h2 := hz (.node 2) (by simp)
  have h3 := hz (.br 0) (by simp)
  simp [exTcs, atS, stampAll, stamp, Stamp.append, admPattern, branchPattern, lhsSum, ground, capY] at h1 h2 h3
  have hs' : s + 1 ≠ 0 := fun h => hs (by linarith)
  have e2 : z (.node 2) = 0 := by
    have : (s + 1) * z (.node 2) = 0 := by rw [h3] at h2; linear_combination 2 * h2
    exact (mul_eq_zero.mp this).resolve_left hs'
  have e0 : z (.br 0) = 0 := by rw [h3, e2] at h1; simpa using h1
  rcases hi with rfl | rfl | rfl <;> assumption

theorem ex_wf (s : ℚ) : C01.WF (exTcs.map (atS (fun _ => 1) s)) := by
  simp [C01.WF, exTcs, atS, owned]

theorem ex_rest : RestWhereUnspecified exTcs exX := by
  intro c hc
  simp only [exTcs, List.mem_cons, List.not_mem_nil, or_false] at hc
  rcases hc with rfl | rfl | rfl <;> trivial

/-- every hypothesis of `response_unique` holds on the example (with y = x): regular points, laws, rest, finitely many
    poles, non-singular outside {−1} -/
example : ∀ i, (i = Ix.node 1 ∨ i = .node 2 ∨ i = .br 0) → FormalZero (subP (exX i).post (exX i).post) :=
  response_unique (fun _ : ℚ => (1 : ℚ)) ⟨fun _ _ => by simp, rfl⟩ exTcs exX exX (Or.inl ex_delayFree) (Or.inl ex_delayFree)
    ex_finitePoles ex_finitePoles ex_rest ex_rest (formal_lawsT _ _ _ ex_lawsTFormal) (formal_lawsT _ _ _ ex_lawsTFormal)
    _ {-1} (fun s _ => ex_wf s) (fun s hs => ex_nonsingularOn s (by simpa using hs))

/-- `lawsTFormal_of_laws_s` on the example: the s-domain laws at the regular points come from `laws_s_of_laws_t` -/
example : LawsTFormal exTcs exX :=
  lawsTFormal_of_laws_s (fun _ : ℚ => (1 : ℚ)) ⟨fun _ _ => by simp, rfl⟩ exTcs exX (Or.inl ex_delayFree) ex_finitePoles ex_rest ∅
    (fun s _ hreg => laws_s_of_laws_t _ ⟨fun _ _ => by simp, rfl⟩ exTcs exX ex_rest (formal_lawsT _ _ _ ex_lawsTFormal) s hreg)

/-- `continuity` on a whole-axis solution: `V1 1 0 dc 5 ; R1 1 2 2 ; C1 2 0 1/2` has v_C = 5 for all t, i_C = 0 -/
def cX : Ix → Signal ℚ
  | .node 1 => ⟨[(5, 0, 0)], [.ep 5 0 0 0]⟩
  | .node 2 => ⟨[(5, 0, 0)], [.ep 5 0 0 0]⟩
  | _ => ⟨[], []⟩

example : val0plus (vpost cX 2 0) = vpre0 cX 2 0 := by
  have hz : FormalZero (subP ([] : ExpPoly ℚ) (capCurrentT cX 2 0 (1 / 2) none)) := by decide +kernel
  refine continuity (fun _ : ℚ => (1 : ℚ)) ⟨fun _ _ => by simp, rfl⟩ cX 2 0 (1 / 2) [] (by norm_num) ?_ (AllDelay.nil 0) ∅
    (fun s _ _ => L_of_formalZero _ hz s) ?_ (by decide +kernel)
  · intro ix t ht
    match ix with
    | .node 0 => simp [cX] at ht
    | .node 1 => simp [cX] at ht; subst ht; rfl
    | .node 2 => simp [cX] at ht; subst ht; rfl
    | .node (k + 3) => simp [cX] at ht
    | .br m => simp [cX] at ht
  · intro t ht
    simp [vpost, subP, voltT, cX, smul, Signal.zero] at ht
    subst ht; trivial

/-- the claimed notion holds on the example, and is equivalent to the formal laws there -/
example : LawsTime (fun _ : ℚ => (1 : ℚ)) exTcs exX := formal_lawsTime _ exTcs exX ex_finitePoles ex_lawsTFormal
example : LawsTime (fun _ : ℚ => (1 : ℚ)) exTcs exX ↔ FinitePoles exTcs exX ∧ LawsTFormal exTcs exX :=
  lawsTime_iff_formal _ ⟨fun _ _ => by simp, rfl⟩ exTcs exX (Or.inl ex_delayFree)

end examples

end Lcapy.C02
