/-
  AUDIT (auditor B) -- machine-checked non-vacuity witnesses for Props/C08Net.lean (network level).
  The okModel hypotheses are witnessed by the examples at the end of Props/C08Net.lean; here: the remaining hypothesis
  shapes (okc8 to S/T, explicit junction witnesses, the four connection theorems with concrete ports, Z→Y direct).
-/
import Lcapy.Props.C08Net
namespace Lcapy.NonVacuity.C08Net
open Lcapy Lcapy.Spec Lcapy.Gen Lcapy.TwoPort Lcapy.C08
set_option linter.unusedSimpArgs false
set_option maxRecDepth 4096

macro "nvn" : tactic => `(tactic| (norm_num [ok_A_A, ok_A_B, ok_A_H, ok_A_G, ok_A_S, ok_S_T, ok_A_T, ok_A_Y, ok_A_Z, ok_B_A, ok_B_B, ok_B_G, ok_B_H, ok_B_S, ok_B_T, ok_B_Y, ok_B_Z, ok_G_A, ok_G_B, ok_G_G, ok_G_H, ok_G_S, ok_G_T, ok_H_Y, ok_G_Y, ok_H_Z, ok_G_Z, ok_H_A, ok_H_B, ok_H_H, ok_H_G, ok_H_S, ok_H_T, ok_S_A, ok_S_B, ok_S_H, ok_S_G, ok_S_S, ok_S_Z, ok_S_Y, ok_T_S, ok_T_A, ok_T_B, ok_T_H, ok_T_G, ok_T_T, ok_T_Z, ok_T_Y, ok_Y_A, ok_Y_B, ok_Y_H, ok_Y_G, ok_Y_S, ok_Y_T, ok_Y_Y, ok_Y_Z, ok_Z_A, ok_Z_B, ok_Z_H, ok_Z_G, ok_Z_S, ok_Z_T, ok_Z_Y, ok_Z_Z, A_to_A, A_to_B, A_to_H, A_to_G, A_to_S, S_to_T, A_to_T, A_to_Y, A_to_Z, B_to_A, B_to_B, B_to_G, B_to_H, B_to_S, B_to_T, B_to_Y, B_to_Z, G_to_A, G_to_B, G_to_G, G_to_H, G_to_S, G_to_T, H_to_Y, G_to_Y, H_to_Z, G_to_Z, H_to_A, H_to_B, H_to_H, H_to_G, H_to_S, H_to_T, S_to_A, S_to_B, S_to_H, S_to_G, S_to_S, S_to_Z, S_to_Y, T_to_S, T_to_A, T_to_B, T_to_H, T_to_G, T_to_T, T_to_Z, T_to_Y, Y_to_A, Y_to_B, Y_to_H, Y_to_G, Y_to_S, Y_to_T, Y_to_Y, Y_to_Z, Z_to_A, Z_to_B, Z_to_H, Z_to_G, Z_to_S, Z_to_T, Z_to_Y, Z_to_Z, M2.inv, M2.det, M2.sdiv, okc, okc8, conv, zSample, ySample, hSample, gSample, aSample]))

/-- `TPN_params_sound`: S and T parameters of a Z-native and an H-native two-port exist (Z0 = 1) -/
theorem nv_TPN_params_sound : okc8 zSample.rep .S zSample.m 1 ∧ okc8 hSample.rep .T hSample.m 1 ∧ okc8 aSample.rep .Y aSample.m 1 := by
  refine ⟨?_, ?_, ?_⟩ <;> nvn

/-- `sources_to_B_sound`, `sources_from_B_sound`, `stage_viaB` for (N, P) = (Z, H) -/
theorem nv_stage_viaB : MRep.Z ≠ MRep.H ∧ okc .Z .B zSample.m 1 ∧ okc .Z .H zSample.m 1 ∧ okc .B .H (conv .Z .B zSample.m 1) 1 := by
  refine ⟨by decide, ?_, ?_, ?_⟩ <;> nvn

/-- `cascWit_sound`: explicit junction values for the cascade [zSample, ySample] driven with I1 = 1 -/
theorem nv_cascWit_sound : cascWit [zSample, ySample] [(9, 2), (-13/2, -9/2)] 12 1 (-13/2) (-9/2) := by
  norm_num [cascWit, Stage.rel, arel, lin2, zSample, ySample]
example : cascRel [zSample, ySample] 12 1 (-13/2) (-9/2) := cascWit_sound _ _ _ _ _ _ nv_cascWit_sound

/-- `par2_sound`: ySample ∥ hSample at V1 = 1, V2 = 2 -/
def cPar : Conn ℚ := ⟨⟨1, 7, 2, 14⟩, ⟨1, -5/6, 2, -31/21⟩, ⟨1, 7 - 5/6, 2, 14 - 31/21⟩⟩
theorem nv_par2_sound : okModel ySample.rep .Y ySample.m 1 ∧ okModel hSample.rep .Y hSample.m 1 ∧ cPar.par ∧
    ySample.rel cPar.p ∧ hSample.rel cPar.q := by
  refine ⟨Or.inl rfl, ?_, ?_, ?_, ?_⟩
  · refine Or.inr ⟨?_, ?_, ?_⟩ <;> nvn
  all_goals norm_num [Conn.par, cPar, Stage.rel, arel, lin2, ySample, hSample]

/-- `ser2_sound`: zSample in series with gSample at I1 = 1, I2 = 2 -/
def cSer : Conn ℚ := ⟨⟨12, 1, 9, 2⟩, ⟨-5/6, 1, -31/21, 2⟩, ⟨12 - 5/6, 1, 9 - 31/21, 2⟩⟩
theorem nv_ser2_sound : okModel zSample.rep .Z zSample.m 1 ∧ okModel gSample.rep .Z gSample.m 1 ∧ cSer.ser ∧
    zSample.rel cSer.p ∧ gSample.rel cSer.q := by
  refine ⟨Or.inl rfl, ?_, ?_, ?_, ?_⟩
  · refine Or.inr ⟨?_, ?_, ?_⟩ <;> nvn
  all_goals norm_num [Conn.ser, cSer, Stage.rel, arel, lin2, zSample, gSample]

/-- `hybrid2_sound`: hSample and zSample, series input (I1 = 1), parallel output (V2 = 2) -/
def cHyb : Conn ℚ := ⟨⟨14/3, 1, 2, -103/35⟩, ⟨22/3, 1, 2, -1/3⟩, ⟨14/3 + 22/3, 1, 2, -103/35 - 1/3⟩⟩
theorem nv_hybrid2_sound : okModel hSample.rep .H hSample.m 1 ∧ okModel zSample.rep .H zSample.m 1 ∧ cHyb.hyb ∧
    hSample.rel cHyb.p ∧ zSample.rel cHyb.q := by
  refine ⟨Or.inl rfl, ?_, ?_, ?_, ?_⟩
  · refine Or.inr ⟨?_, ?_, ?_⟩ <;> nvn
  all_goals norm_num [Conn.hyb, cHyb, Stage.rel, arel, lin2, zSample, hSample]

/-- `inverse_hybrid2_sound`: gSample and zSample, parallel input (V1 = 1), series output (I2 = 2) -/
def cInv : Conn ℚ := ⟨⟨1, 14/3, -103/35, 2⟩, ⟨1, -6/5, -32/5, 2⟩, ⟨1, 14/3 - 6/5, -103/35 - 32/5, 2⟩⟩
theorem nv_inverse_hybrid2_sound : okModel gSample.rep .G gSample.m 1 ∧ okModel zSample.rep .G zSample.m 1 ∧ cInv.invhyb ∧
    gSample.rel cInv.p ∧ zSample.rel cInv.q := by
  refine ⟨Or.inl rfl, ?_, ?_, ?_, ?_⟩
  · refine Or.inr ⟨?_, ?_, ?_⟩ <;> nvn
  all_goals norm_num [Conn.invhyb, cInv, Stage.rel, arel, lin2, zSample, gSample]

/-- `Zmodel_Ymodel_direct`, `okc_implies_pivot` -/
theorem nv_Zmodel_Ymodel_direct : ok_Z_Y zSample.m 1 := by nvn
theorem nv_okc_implies_pivot : okc .A .G aSample.m 1 := by nvn

/-- `relN_iff_rel` / `SoundConv.normalised`: r = 3, Z0 = 9 and a conversion side condition at that Z0 -/
theorem nv_normalised : (3 : ℚ) * 3 = 9 ∧ (9 : ℚ) ≠ 0 ∧ (2 : ℚ) ≠ 0 ∧ ok_A_S aSample.m 9 := by
  refine ⟨by norm_num, by norm_num, by norm_num, ?_⟩; nvn

end Lcapy.NonVacuity.C08Net
