/-
  C06, round 3: the printer with the proposed repairs of the findings C06-e / C06-a / C06-b
  (`Model/Parser.lean`: `argFormatC`, `netTokensC`, `printCptC`, switched by `PrinterCfg`; the flags of
  the checked-out source are extracted by the translator).  What each repair buys, as theorems.
-/
import Lcapy.Props.C06
namespace Lcapy.C06
open Lcapy.Parser Lcapy.Spec.Netlist

/-- the checked-out `_arg_format` does not (yet) brace a value because it contains `=` (finding C06-j); pinned:
    breaks loudly when that repair lands, like `tie_theCfg` -/
theorem printer_braces_equals_in_source : Gen.Grammar.printerBracesEquals = false := by decide

theorem argFormatC_eq0 (cfg : PrinterCfg) (ds : List Char) (kws : List Str) (v : Str) :
    argFormatC cfg ds kws v = argFormatC0 cfg ds kws v := by
  simp [argFormatC, printer_braces_equals_in_source]

theorem argFormatC_current (ds : List Char) (kws : List Str) (v : Str) :
    argFormatC ⟨false, false, false⟩ ds kws v = argFormat ds v := by
  rw [argFormatC_eq0]
  unfold argFormatC0 argFormat
  by_cases h : v.head? = some '{' <;> simp [h]

theorem fmtArgsC_current (ds : List Char) (kws : List Str) (a : List (Option Str)) :
    fmtArgsC ⟨false, false, false⟩ ds kws a = fmtArgs ds a := by
  induction a with
  | nil => rfl
  | cons x rest ih =>
    cases rest with
    | nil => cases x <;> simp [fmtArgsC, fmtArgs, argFormatC_current]
    | cons y r => cases x <;> simp [fmtArgsC, fmtArgs, argFormatC_current, ih]

/-- **printCptC_current.**  With no repair switched on, the configurable printer is the printer of the
    current code -- the one all other theorems are about. -/
theorem printCptC_current (g : Grammar) (c : Cpt) : printCptC ⟨false, false, false⟩ g c = printCpt g c := by
  unfold printCptC printCpt netTokensC netTokens
  simp [fmtArgsC_current]

/-- REMARK ABOUT THE PROPOSED PATCH fix-e (not a claim about /repo: neither the source nor the driver runs this
    configuration, see `tie_theCfg`).  **arg_format_fixed_unquote.**  After the repair, `Arg.assign` reads back what
    `_arg_format` printed for EVERY value: the hypothesis "non-empty, not starting with `{` or `\"`" of
    `arg_format_roundtrip` is gone. -/
theorem arg_format_fixed_unquote (cfg : PrinterCfg) (hE : cfg.fixE = true) (ds : List Char) (kws : List Str) (v : Str) :
    unquote (argFormatC cfg ds kws v) = v := by
  have hbr : unquote ('{' :: (v ++ ['}'])) = v := by simp [unquote]
  rw [argFormatC_eq0]
  unfold argFormatC0
  simp only [hE, Bool.true_and, Bool.not_true, Bool.false_and, Bool.false_eq_true, ↓reduceIte]
  split
  · exact hbr
  · rename_i h
    simp only [Bool.or_eq_true, beq_iff_eq, not_or] at h
    obtain ⟨⟨⟨hne, h1⟩, h2⟩, _⟩ := h
    have hplain : unquote v = v := by
      cases v with
      | nil => rfl
      | cons a t =>
        have ha1 : a ≠ '{' := by intro e; subst e; simp at h1
        have ha2 : a ≠ '"' := by intro e; subst e; simp at h2
        simp [unquote, ha1, ha2]
    split
    · exact hbr
    · split
      · exact hbr
      · exact hplain

example : argFormatC ⟨true, true, true⟩ Gen.Grammar.delimiters [] "{a}".toList = "{{a}}".toList
    ∧ argFormatC ⟨true, true, true⟩ Gen.Grammar.delimiters [] [] = "{}".toList
    ∧ argFormatC ⟨true, true, true⟩ Gen.Grammar.delimiters ["s".toList] "S".toList = "{S}".toList := by decide

theorem lower_brace (x : Str) : lower ('{' :: x) = '{' :: lower x := by simp [lower]

/-- REMARK ABOUT THE PROPOSED PATCH fix-a (not a claim about /repo).  **arg_format_fixed_not_keyword.**  After the repair, a printed value is never spelt like a
    keyword of the component type, so (`noMatch`) it cannot select a different rule: the hypothesis
    "no value equals a keyword" of the line-level round trip is gone for values. -/
theorem arg_format_fixed_not_keyword (cfg : PrinterCfg) (hA : cfg.fixA = true) (ds : List Char) (kws : List Str)
    (hk : ∀ k ∈ kws, k.head? ≠ some '{') (v : Str) :
    kws.contains (lower (argFormatC cfg ds kws v)) = false := by
  have hbr : ∀ x : Str, kws.contains (lower ('{' :: x)) = false := by
    intro x
    rw [lower_brace]
    cases hc : kws.contains ('{' :: lower x) with
    | false => rfl
    | true =>
      have := hk _ (by simpa using hc)
      simp at this
  rw [argFormatC_eq0]
  unfold argFormatC0
  simp only [hA, Bool.true_and]
  split
  · exact hbr _
  · split
    · rename_i h
      simp only [Bool.and_eq_true, beq_iff_eq] at h
      cases v with
      | nil => simp at h
      | cons a t =>
        have : a = '{' := by simpa using h.2
        subst this; exact hbr t
    · split
      · exact hbr _
      · rename_i h3
        split
        · exact hbr _
        · simpa using h3

/-- REMARK ABOUT THE PROPOSED PATCH fix-b (not a claim about /repo; a propositional consequence of the guard that
    `netTokensC` evaluates, stated on a copy of that expression).  **elision_fixed.**  After the repair the printer omits an argument only if the rule that
    the printed name and keyword select has `name` as the default of its first argument (or has no
    argument at all): the hypothesis "the elided argument's default is the name" is a property of the
    printer, no longer of the input. -/
theorem elision_fixed (cfg : PrinterCfg) (hB : cfg.fixB = true) (g : Grammar) (relname kw : Str) (fa : List Str) :
    (if fa.length == 1 && fa.head? == some relname && (!cfg.fixB || defaultIsName g relname kw) then [] else fa) ≠ fa →
    defaultIsName g relname kw = true := by
  intro h
  simp only [hB, Bool.not_true, Bool.false_or] at h
  by_cases hd : defaultIsName g relname kw = true
  · exact hd
  · simp [hd] at h

/-- HELPER (the first branch of the definition of `netSubs`; the claim about the checked-out source is
    `netsubs_source_is_printCpt` below).  Since fix 8b2a96c `Cpt._netsubs()` (no substitution) prints through `_netmake1`: the
    second printer of the library IS the first one, so every print → parse theorem (`line_roundtrip_partial*`,
    `netlist_roundtrip_partial`, idempotence) holds for `subs` / `rename_nodes` output as well -- and it inherits
    exactly the printer's known findings, no others. -/
theorem netsubs_is_print (cfg : PrinterCfg) (g : Grammar) (c : Cpt) : netSubs true cfg g c = printCptC cfg g c := by
  simp [netSubs]

/-- the checked-out source delegates (extracted by the translator; breaks if `_netsubs` gets its own loop again) -/
theorem netsubs_delegates_in_source : Gen.Grammar.netsubsDelegates = true := by decide

/-- **tie_theCfg.**  The checked-out source contains none of the three proposed printer repairs (flags extracted
    by the translator from `_arg_format` / `_netmake1`).  Breaks loudly the day one of them lands in /repo: the
    round-trip theorems are about `printCpt`, and must then be restated for the repaired printer. -/
theorem tie_theCfg : theCfg = ⟨false, false, false⟩ := by decide

/-- **tie_driver_printer.**  The printer the driver runs (and the correspondence compares with the real
    `Cpt.__str__`) is the `printCpt` that `line_roundtrip*` / `netlist_roundtrip*` are about. -/
theorem tie_driver_printer (c : Cpt) : printCptC theCfg theGrammar c = printCpt theGrammar c := by
  rw [tie_theCfg]; exact printCptC_current theGrammar c

/-- the same for the netlist printer of `c06.rt` -/
theorem tie_driver_netlist_printer (s : NState) : printNetlistC theCfg theGrammar s = printNetlist theGrammar s := by
  have : printCptC theCfg theGrammar = printCpt theGrammar := funext tie_driver_printer
  simp [printNetlistC, printNetlist, this]

/-- **netsubs_source_is_printCpt.**  For the checked-out source, `Cpt._netsubs()` with no substitution (what
    the driver's `c06.netsubs` computes and the correspondence compares with the real `_netsubs`) is the
    `printCpt` of the round-trip theorems: `subs` / `rename_nodes` output inherits them, and inherits exactly
    the printer's known findings. -/
theorem netsubs_source_is_printCpt (c : Cpt) :
    netSubs Gen.Grammar.netsubsDelegates theCfg theGrammar c = printCpt theGrammar c := by
  rw [netsubs_delegates_in_source, netsubs_is_print, tie_driver_printer]

/-- what was wrong with the legacy loop (kept as a regression statement): a keyword at position 0 was
    written after the nodes, and an undefined non-final argument was dropped -/
example : (netSubs false ⟨false, false, false⟩ theGrammar
      { classname := "SPpp".toList, name := "SP1".toList, ctype := "SP".toList, cid := "1".toList,
        nodes := ["1".toList, "2".toList, "3".toList], args := [], kwpos := some 0, kw := "pp".toList, opts := [], string := [] })
      = some "SP1 1 2 3 pp".toList
    ∧ (netSubs false ⟨false, false, false⟩ theGrammar
      { classname := "Vac".toList, name := "V1".toList, ctype := "V".toList, cid := "1".toList,
        nodes := ["1".toList, "0".toList], args := [some "V1".toList, none, some "3".toList], kwpos := some 2, kw := "ac".toList,
        opts := [], string := [] })
      = some "V1 1 0 ac V1 3".toList := by decide +kernel

/-- **fixes_change_nothing_else.**  On every value inside the hypotheses of the existing theorems (`okValue`,
    no `=`, not spelt like a keyword) all repairs print exactly what the current code prints. -/
theorem fixes_change_nothing_else (cfg : PrinterCfg) (ds : List Char) (kws : List Str) (v : Str)
    (hv : okValue ds v = true) (heq : v.contains '=' = false) (hk : kws.contains (lower v) = false) :
    argFormatC cfg ds kws v = argFormat ds v := by
  unfold okValue at hv
  simp only [Bool.and_eq_true, Bool.not_eq_true', bne_iff_ne, ne_eq] at hv
  obtain ⟨⟨⟨⟨hne, h1⟩, h2⟩, _⟩, _⟩ := hv
  have h1' : (v.head? == some '{') = false := by simpa using h1
  have h2' : (v.head? == some '"') = false := by simpa using h2
  have heq' : ¬ ('=' ∈ v) := by simpa using heq
  have hk' : ¬ (lower v ∈ kws) := by simpa using hk
  rw [argFormatC_eq0]
  unfold argFormatC0 argFormat
  simp [hne, h1', h2', heq', hk', h1]

example : okValue Gen.Grammar.delimiters "f(x, y) + 1".toList = true := by decide

end Lcapy.C06
