/-
  PROPERTY C03, "however the sources are grouped".
  HEADLINE statements are about the EXECUTED model (Model/Groups.lean: `srcKinds`, `sourceGroups`, `analysisGroups`,
  `partLap` — what the driver runs and the harness compares with `_analysis_groups()` / `cct.sub` / `select`):
  `srcKinds_partition`, `srcKinds_partition_terms`, `sourceGroups_lists`, `analysisGroups_ivp/_time/_kinds`.
  `groups_partition`, `term_in_exactly_one_group`, `termKinds_ok` are TERM-LEVEL lemmas about the Props-local
  `selectTerms`/`termKinds` (raw terms, keys that cover them); `groups_superpose_partial` adds group solutions that
  live in ONE common analysis (kind, s): the initial-value branch, or all parts transformed to one point.  The
  recombination of groups solved in DIFFERENT kinds (dc at dc, ω at s = jω, transient in the Laplace kind) into
  V(s) = dc/s + Σ phasor transforms + transient is a definition of `SuperSolve.run`, tied to the code by the
  correspondence `sup.solve` and the LAP oracle, not by a theorem.
-/
import Lcapy.Proofs.Groups
import Lcapy.Props.C03
import Lcapy.Props.C03Lap
namespace Lcapy.C03
open Lcapy.MNA Lcapy.Groups Lcapy.Decompose
set_option linter.unusedSimpArgs false
variable {K : Type} [Field K]

/-- the terms of a source value that the group of kind `k` takes (`Superposition.select(kind)`) -/
def selectTerms (k : Key) (ts : List (Term Rat)) : List (Term Rat) := ts.filter (fun t => decide (kindOf t = k))

/-- the kinds present in a term list, without repetition -/
def termKinds (ts : List (Term Rat)) : List Key := (ts.map kindOf).dedup

/-- REMARK (term level, list fact): among duplicate-free keys that include the term's kind exactly one selects the
    term.  The statement about Lcapy's groups is `sourceGroups_lists`. -/
theorem term_in_exactly_one_group (G : List Key) (hG : G.Nodup) (t : Term Rat) (ht : kindOf t ∈ G) :
    (G.filter (fun k => decide (kindOf t = k))).length = 1 := by
  induction G with
  | nil => simp at ht
  | cons g rest ih =>
    simp only [List.nodup_cons] at hG
    rcases List.mem_cons.mp ht with h | h
    · subst h
      have hnone : rest.filter (fun k => decide (kindOf t = k)) = [] := by
        rw [List.filter_eq_nil_iff]
        intro k hk; simp only [decide_eq_true_eq]; intro hkk; exact hG.1 (hkk ▸ hk)
      rw [List.filter_cons]
      simp only [decide_true, if_true, List.length_cons, hnone, List.length_nil]
    · have : kindOf t ≠ g := fun hh => hG.1 (hh ▸ h)
      simp [List.filter_cons, this, ih hG.2 h]

/-- **groups_partition** (TERM level, Props-local `selectTerms`; needs keys that COVER the raw kinds — the keys the
    code reports drop cancelled kinds, for them use `srcKinds_partition`): for ANY reading `f` of the terms (value at an instant, transform at a point, the
    right-hand side a source contributes to an MNA row …) the parts taken by the groups add up to the whole value —
    for every term list, any number of groups, whenever the group keys are duplicate-free and cover the kinds present. -/
theorem groups_partition (f : Term Rat → K) (G : List Key) (hG : G.Nodup) (ts : List (Term Rat))
    (hcover : ∀ t ∈ ts, kindOf t ∈ G) :
    (G.map (fun k => ((selectTerms k ts).map f).sum)).sum = (ts.map f).sum := by
  induction ts with
  | nil => simp [selectTerms]
  | cons t rest ih =>
    have hstep : ∀ k, ((selectTerms k (t :: rest)).map f).sum =
        (if kindOf t = k then f t else 0) + ((selectTerms k rest).map f).sum := by
      intro k
      by_cases h : kindOf t = k <;> simp [selectTerms, List.filter_cons, h]
    simp only [hstep, List.map_cons, List.sum_cons]
    rw [List.sum_map_add, sum_indicator G hG (kindOf t) (hcover t (by simp)) (f t),
      ih (fun u hu => hcover u (by simp [hu]))]

/-- the kinds present in a term list are duplicate-free and cover it: `groups_partition` applies to them -/
theorem termKinds_ok (ts : List (Term Rat)) : (termKinds ts).Nodup ∧ ∀ t ∈ ts, kindOf t ∈ termKinds ts := by
  refine ⟨List.nodup_dedup _, fun t ht => ?_⟩
  simp only [termKinds, List.mem_dedup, List.mem_map]
  exact ⟨t, ht, rfl⟩

/-- **srcKinds_sound**: the keys the model (and the code: `Voc.kinds(transform=True)`) reports for a non-noise source
    are kinds of its raw terms: a group never receives a source that has no term of its kind.  (Conversely a kind
    whose accumulated value is exactly zero is dropped by the code — `if dc != 0` — and contributes nothing.) -/
theorem srcKinds_sound (s : Src) (hn : ∀ nid, s.form ≠ .noise nid) : ∀ k ∈ srcKinds s, k ∈ termKinds s.terms := by
  intro k hk
  have hmem : ∀ k, (∃ t ∈ s.terms, kindOf t = k) → k ∈ termKinds s.terms := by
    intro k ⟨t, ht, hkt⟩
    simp only [termKinds, List.mem_dedup, List.mem_map]; exact ⟨t, ht, hkt⟩
  apply hmem
  by_contra hno
  have hall : ∀ t ∈ s.terms, kindOf t ≠ k := fun t ht hkt => hno ⟨t, ht, hkt⟩
  have hform : srcKinds s =
      (if (decompose s.terms).dc != 0 then [Key.dc] else []) ++
      (((decompose s.terms).ac.filter (fun p => p.2.1 != 0 || p.2.2 != 0)).map (fun p => Key.ac p.1)) ++
      (if (decompose s.terms).tr.isEmpty then [] else [Key.transient]) := by
    unfold srcKinds
    cases hf : s.form with
    | noise nid => exact absurd hf (hn nid)
    | _ => rfl
  rw [hform] at hk
  simp only [List.mem_append, List.mem_map, List.mem_filter] at hk
  rcases hk with (hk | ⟨p, ⟨hp, _⟩, rfl⟩) | hk
  · split_ifs at hk with hdc
    · simp only [List.mem_singleton] at hk; subst hk
      have := fold_dc_unchanged s.terms ⟨0, [], []⟩ hall
      simp only [decompose] at hdc
      rw [this] at hdc
      simp at hdc
    · simp at hk
  · have := fold_ac_keys s.terms ⟨0, [], []⟩ p.1 hall (by
      simp only [acKeys, List.mem_map]; exact ⟨p, hp, rfl⟩)
    simp [acKeys] at this
  · split_ifs at hk with htr
    · simp at hk
    · simp only [List.mem_singleton] at hk; subst hk
      have := fold_tr_unchanged s.terms ⟨0, [], []⟩ hall
      simp only [decompose] at htr
      rw [this] at htr
      simp at htr

/-! ### the EXECUTED classification (`Model/Groups.lean`: what the driver runs and the harness compares with
`_analysis_groups()` / `cct.sub`) -/

/-- the keys of a non-noise source, as the model computes them -/
theorem srcKinds_eq (s : Src) (hn : ∀ nid, s.form ≠ .noise nid) :
    srcKinds s =
      (if (decompose s.terms).dc != 0 then [Key.dc] else []) ++
      (((decompose s.terms).ac.filter (fun p => p.2.1 != 0 || p.2.2 != 0)).map (fun p => Key.ac p.1)) ++
      (if (decompose s.terms).tr.isEmpty then [] else [Key.transient]) := by
  unfold srcKinds
  cases hf : s.form with
  | noise nid => exact absurd hf (hn nid)
  | _ => rfl

/-- **srcKinds_partition** (groups of the executed model, cancelling kinds included): for every non-noise source, the
    Laplace-domain values of the parts that ITS reported groups take (`partLap`: what `SuperSolve.run` feeds to the
    dc, ω and transient sub-netlists, transformed as `Superposition.laplace()` does) add up to the Laplace form of the
    whole decomposition.  A kind whose accumulated value is zero (`2 − 2 + cos 3t`) is not reported and contributes 0.
    With `reassemble_laplace` the right-hand side is the sum of the transforms of the raw terms. -/
theorem srcKinds_partition (s : Src) (hn : ∀ nid, s.form ≠ .noise nid) (XL : Nat → Rat) (s0 : Rat) :
    ((srcKinds s).map (partLap XL s0 (decompose s.terms))).sum = decompLap XL s0 (decompose s.terms) := by
  rw [srcKinds_eq s hn]
  simp only [List.map_append, List.sum_append]
  rw [ac_parts_sum XL s0 _ (decompose_ac_nodup s.terms)]
  unfold decompLap
  congr 1
  · congr 1
    by_cases hdc : (decompose s.terms).dc = 0
    · simp [hdc]
    · simp [hdc, partLap]
  · by_cases htr : (decompose s.terms).tr = []
    · simp [htr, sumK]
    · have : (decompose s.terms).tr.isEmpty = false := by
        cases h : (decompose s.terms).tr with
        | nil => exact absurd h htr
        | cons _ _ => rfl
      simp [this, partLap, trPart]

/-- … and therefore the parts taken by the reported groups add up to the sum of the transforms of the RAW terms -/
theorem srcKinds_partition_terms (s : Src) (hn : ∀ nid, s.form ≠ .noise nid) (XL : Nat → Rat) (s0 : Rat)
    (hreg : RegularPoint s0 s.terms) :
    ((srcKinds s).map (partLap XL s0 (decompose s.terms))).sum = sumK (s.terms.map (termLap XL s0)) := by
  rw [srcKinds_partition s hn, reassemble_laplace XL s0 s.terms hreg]

/-- **sourceGroups_lists**: `independent_source_groups(True)` as executed: the group of kind `k` lists the name `n`
    iff some source called `n` has the kind `k` — every (source, kind) pair lands in its group and nothing else does. -/
theorem sourceGroups_lists (ls : List Line) (k : Key) (n : String) :
    listed (sourceGroups ls) k n ↔ ∃ s ∈ sources ls, k ∈ srcKinds s ∧ n = s.name := by
  unfold sourceGroups
  rw [foldSrcs_listed]
  simp [listed]

/-- the three branches of `_analysis_groups()` as executed.  Initial-value problem: ONE group 'ivp' that lists every
    non-noise (source, kind) pair — it takes the WHOLE value of every source (`SuperSolve.run` feeds `decompLap` of the
    whole decomposition, `srcKinds_partition` says that this is the sum of the per-kind parts); noise sources are dropped. -/
theorem analysisGroups_ivp (ls : List Line) (h : hasIC ls = true) :
    analysisGroups ls = [(Key.ivp, ((sourceGroups ls).filter (fun p => !p.1.isNoise)).flatMap (·.2))] := by
  simp [analysisGroups, h]

/-- no reactive component and no s-domain source: ONE group 'time' with the same listing, the noise groups kept -/
theorem analysisGroups_time (ls : List Line) (h : hasIC ls = false) (hr : reactive ls = false) (hs : hasS ls = false) :
    analysisGroups ls = (Key.time, ((sourceGroups ls).filter (fun p => !p.1.isNoise)).flatMap (·.2)) ::
      (sourceGroups ls).filter (fun p => p.1.isNoise) := by
  simp [analysisGroups, h, hr, hs]

/-- otherwise the groups are the per-kind groups of `sourceGroups_lists` -/
theorem analysisGroups_kinds (ls : List Line) (h : hasIC ls = false) (hr : reactive ls = true ∨ hasS ls = true) :
    analysisGroups ls = sourceGroups ls := by
  rcases hr with hr | hr <;> simp [analysisGroups, h, hr]

/-- **groups_superpose_partial** — PARTIAL: all groups are solved in ONE common analysis `(kind, s)`.  That is the
    initial-value branch (`analysisGroups_ivp`: one Laplace analysis, every source carries the sum of its parts) and
    any splitting of source VALUES inside one analysis.  NOT covered: Lcapy's per-kind groups solved in different
    kinds/points (dc, s = jω per ω, Laplace) and recombined as signals — see the file header.
    Statement: for ANY netlist `cs` and any family of source valuations `ws` (the valuation of group g gives the source
    at position p the part of its value that g takes, 0 if none), if `xs` solve the group netlists then their sum
    solves the netlist whose sources carry the SUMS of the parts.  Any number of groups, netlists of any size. -/
theorem groups_superpose_partial (kind : Kind) (s : K) (cs : List (Cpt K)) (ws : List (Nat → K)) (xs : List (Ix → K))
    (h : List.Forall₂ (fun w x => Solves kind s (assignAt w 0 cs) x) ws xs) :
    Solves kind s (assignAt (sumW ws) 0 cs) (sumX xs) := by
  induction h with
  | nil =>
    simp only [sumW, sumX, assignAt_zero]
    exact killAll_solved_by_zero kind s cs
  | cons hwx _ ih =>
    simp only [sumW, sumX]
    rw [← assignAt_add]
    exact superposition kind s _ _ _ _ (assignAt_sameShape _ _ 0 cs) hwx ih

/-! ### scaling ONE source -/

/-- **scaling_one_source**: in the single-source netlist of a component (every OTHER independent quantity killed, as
    `kill_except` builds it; `pre`/`post` are the components listed before/after it) scaling that one source by `a`
    scales the whole response by `a`. -/
theorem scaling_one_source (kind : Kind) (s a : K) (pre post : List (Cpt K)) (c : Cpt K) (x : Ix → K)
    (h : Solves kind s (killAll pre ++ c :: killAll post) x) :
    Solves kind s (killAll pre ++ c.mapSrc (fun v => a * v) :: killAll post) (fun i => a * x i) := by
  have := scaling kind s a _ x h
  simpa only [List.map_append, List.map_cons, killAll_scale] using this

/-- **scaling_one_of_many**: a netlist with any number of sources in which ONE component `c` is scaled by `a`: if `x₀`
    solves the netlist with `c` killed and `x₁` solves the single-source netlist of `c`, then `x₀ + a·x₁` solves the
    netlist with `c` scaled — the contribution of the scaled source, and only it, scales (what the harness oracle
    checks: total + (a − 1)·part). -/
theorem scaling_one_of_many (kind : Kind) (s a : K) (pre post : List (Cpt K)) (c : Cpt K) (x0 x1 : Ix → K)
    (h0 : Solves kind s (pre ++ c.zeroSrc :: post) x0)
    (h1 : Solves kind s (killAll pre ++ c :: killAll post) x1) :
    Solves kind s (List.zipWith Cpt.addSrc (pre ++ c.zeroSrc :: post)
      (killAll pre ++ c.mapSrc (fun v => a * v) :: killAll post)) (fun i => x0 i + a * x1 i) := by
  have hshape : List.Forall₂ SameShape (pre ++ c.zeroSrc :: post)
      (killAll pre ++ c.mapSrc (fun v => a * v) :: killAll post) := by
    refine List.rel_append (sameShape_killAll pre) (List.Forall₂.cons ?_ (sameShape_killAll post))
    unfold SameShape Cpt.zeroSrc; rw [mapSrc_mapSrc, mapSrc_mapSrc]
  exact superposition kind s _ _ x0 _ hshape h0 (scaling_one_source kind s a pre post c x1 h1)

/-- non-vacuity of `srcKinds_partition` on a CANCELLING source `2 − 2 + cos 3t`: the code reports only the ω = 3 group,
    the hypotheses hold (texpr form; s = 1 is a regular point) and the single reported part carries the whole value -/
example : srcKinds ⟨"V1", "1", "0", .texpr, [.dc 2, .dc (-2), .ac 3 1 0]⟩ = [.ac 3] := by decide +kernel
example : RegularPoint (1 : ℚ) [.dc 2, .dc (-2), .ac 3 1 0] :=
  ⟨one_ne_zero, by
    intro t ht w a b h
    simp only [List.mem_cons, List.mem_nil_iff, or_false] at ht
    rcases ht with rfl | rfl | rfl <;> cases h <;> norm_num⟩

/-- non-vacuity: 2 + 3 cos 2t + sin 2t + 5 x₀ is split over the groups dc, ω = 2, transient -/
example : termKinds [.dc 2, .ac 2 3 0, .tr 0 5, .ac 2 0 1] = [.dc, .transient, .ac 2] := by decide +kernel

example : selectTerms (.ac 2) [.dc 2, .ac 2 3 0, .tr 0 5, .ac 2 0 1] = [.ac 2 3 0, .ac 2 0 1] := by
  simp [selectTerms, List.filter_cons, kindOf]

/-- non-vacuity of `groups_superpose_partial`: `V1 1 0; R1 1 2; I1 2 0` — dc group (V1 ↦ 6, I1 ↦ 0) and a second group
    (V1 ↦ 0, I1 ↦ 3): the valuations add to (6, ·, 3) -/
example : assignAt (sumW [fun p => if p = 0 then (6 : ℚ) else 0, fun p => if p = 2 then 3 else 0]) 0
    [.V 1 0 0 1, .R 1 2 2, .I 2 0 1] = [.V 1 0 0 6, .R 1 2 2, .I 2 0 3] := by
  simp [assignAt, sumW, Cpt.mapSrc]

end Lcapy.C03
