/-
  PROPERTY C03, "however the sources are grouped": the analysis groups Lcapy forms from the kinds of the source values
  (Model/Groups.lean; `independent_source_groups`, `_analysis_groups`, `select`) PARTITION the source terms, and the
  responses of the group sub-netlists add up to the response of the netlist (ties to `superposition`).
-/
import Lcapy.Proofs.Groups
import Lcapy.Props.C03
namespace Lcapy.C03
open Lcapy.MNA Lcapy.Groups Lcapy.Decompose
variable {K : Type} [Field K]

/-- the terms of a source value that the group of kind `k` takes (`Superposition.select(kind)`) -/
def selectTerms (k : Key) (ts : List (Term Rat)) : List (Term Rat) := ts.filter (fun t => decide (kindOf t = k))

/-- the kinds present in a term list, without repetition -/
def termKinds (ts : List (Term Rat)) : List Key := (ts.map kindOf).dedup

/-- **every source term lands in exactly one group**: among duplicate-free group keys that include the term's kind,
    exactly one selects it. -/
theorem term_in_exactly_one_group (G : List Key) (hG : G.Nodup) (t : Term Rat) (ht : kindOf t ∈ G) :
    (G.filter (fun k => decide (kindOf t = k))).length = 1 := by
  induction G with
  | nil => simp at ht
  | cons g rest ih =>
    simp only [List.nodup_cons] at hG
    rcases List.mem_cons.mp ht with h | h
    · subst h
      have hnone : rest.filter (fun k => decide (kindOf t = k)) = [] := by
        rw [List.filter_eq_nil_iff]
        intro k hk; simp only [decide_eq_true_eq]; intro hkk; exact hG.1 (hkk ▸ hk)
      rw [List.filter_cons]
      simp only [decide_true, if_true, List.length_cons, hnone, List.length_nil]
    · have : kindOf t ≠ g := fun hh => hG.1 (hh ▸ h)
      simp [List.filter_cons, this, ih hG.2 h]

/-- **groups_partition**: for ANY linear reading `f` of the terms (value at an instant, transform at a point, the
    right-hand side a source contributes to an MNA row …) the parts taken by the groups add up to the whole value —
    for every term list, any number of groups, whenever the group keys are duplicate-free and cover the kinds present. -/
theorem groups_partition (f : Term Rat → K) (G : List Key) (hG : G.Nodup) (ts : List (Term Rat))
    (hcover : ∀ t ∈ ts, kindOf t ∈ G) :
    (G.map (fun k => ((selectTerms k ts).map f).sum)).sum = (ts.map f).sum := by
  induction ts with
  | nil => simp [selectTerms]
  | cons t rest ih =>
    have hstep : ∀ k, ((selectTerms k (t :: rest)).map f).sum =
        (if kindOf t = k then f t else 0) + ((selectTerms k rest).map f).sum := by
      intro k
      by_cases h : kindOf t = k <;> simp [selectTerms, List.filter_cons, h]
    simp only [hstep, List.map_cons, List.sum_cons]
    rw [List.sum_map_add, sum_indicator G hG (kindOf t) (hcover t (by simp)) (f t),
      ih (fun u hu => hcover u (by simp [hu]))]

/-- the kinds present in a term list are duplicate-free and cover it: `groups_partition` applies to them -/
theorem termKinds_ok (ts : List (Term Rat)) : (termKinds ts).Nodup ∧ ∀ t ∈ ts, kindOf t ∈ termKinds ts := by
  refine ⟨List.nodup_dedup _, fun t ht => ?_⟩
  simp only [termKinds, List.mem_dedup, List.mem_map]
  exact ⟨t, ht, rfl⟩

/-- **srcKinds_sound**: the keys the model (and the code: `Voc.kinds(transform=True)`) reports for a non-noise source
    are kinds of its raw terms: a group never receives a source that has no term of its kind.  (Conversely a kind
    whose accumulated value is exactly zero is dropped by the code — `if dc != 0` — and contributes nothing.) -/
theorem srcKinds_sound (s : Src) (hn : ∀ nid, s.form ≠ .noise nid) : ∀ k ∈ srcKinds s, k ∈ termKinds s.terms := by
  intro k hk
  have hmem : ∀ k, (∃ t ∈ s.terms, kindOf t = k) → k ∈ termKinds s.terms := by
    intro k ⟨t, ht, hkt⟩
    simp only [termKinds, List.mem_dedup, List.mem_map]; exact ⟨t, ht, hkt⟩
  apply hmem
  by_contra hno
  have hall : ∀ t ∈ s.terms, kindOf t ≠ k := fun t ht hkt => hno ⟨t, ht, hkt⟩
  have hform : srcKinds s =
      (if (decompose s.terms).dc != 0 then [Key.dc] else []) ++
      (((decompose s.terms).ac.filter (fun p => p.2.1 != 0 || p.2.2 != 0)).map (fun p => Key.ac p.1)) ++
      (if (decompose s.terms).tr.isEmpty then [] else [Key.transient]) := by
    unfold srcKinds
    cases hf : s.form with
    | noise nid => exact absurd hf (hn nid)
    | _ => rfl
  rw [hform] at hk
  simp only [List.mem_append, List.mem_map, List.mem_filter] at hk
  rcases hk with (hk | ⟨p, ⟨hp, _⟩, rfl⟩) | hk
  · split_ifs at hk with hdc
    · simp only [List.mem_singleton] at hk; subst hk
      have := fold_dc_unchanged s.terms ⟨0, [], []⟩ hall
      simp only [decompose] at hdc
      rw [this] at hdc
      simp at hdc
    · simp at hk
  · have := fold_ac_keys s.terms ⟨0, [], []⟩ p.1 hall (by
      simp only [acKeys, List.mem_map]; exact ⟨p, hp, rfl⟩)
    simp [acKeys] at this
  · split_ifs at hk with htr
    · simp at hk
    · simp only [List.mem_singleton] at hk; subst hk
      have := fold_tr_unchanged s.terms ⟨0, [], []⟩ hall
      simp only [decompose] at htr
      rw [this] at htr
      simp at htr

/-- **groups_superpose**: take ANY netlist `cs` and any family of source valuations `ws` (one per analysis group:
    the valuation of group g gives the source at position p the part of its value that g takes, 0 if none).
    If `xs` solve the group netlists, their sum solves the netlist whose sources carry the SUMS of the parts —
    by `groups_partition` the whole values.  Any number of groups, netlists of any size, every analysis kind. -/
theorem groups_superpose (kind : Kind) (s : K) (cs : List (Cpt K)) (ws : List (Nat → K)) (xs : List (Ix → K))
    (h : List.Forall₂ (fun w x => Solves kind s (assignAt w 0 cs) x) ws xs) :
    Solves kind s (assignAt (sumW ws) 0 cs) (sumX xs) := by
  induction h with
  | nil =>
    simp only [sumW, sumX, assignAt_zero]
    exact killAll_solved_by_zero kind s cs
  | cons hwx _ ih =>
    simp only [sumW, sumX]
    rw [← assignAt_add]
    exact superposition kind s _ _ _ _ (assignAt_sameShape _ _ 0 cs) hwx ih

/-- non-vacuity: 2 + 3 cos 2t + sin 2t + 5 x₀ is split over the groups dc, ω = 2, transient -/
example : termKinds [.dc 2, .ac 2 3 0, .tr 0 5, .ac 2 0 1] = [.dc, .transient, .ac 2] := by decide +kernel

example : selectTerms (.ac 2) [.dc 2, .ac 2 3 0, .tr 0 5, .ac 2 0 1] = [.ac 2 3 0, .ac 2 0 1] := by
  simp [selectTerms, List.filter_cons, kindOf]

/-- non-vacuity of `groups_superpose`: `V1 1 0; R1 1 2; I1 2 0` — dc group (V1 ↦ 6, I1 ↦ 0) and a second group
    (V1 ↦ 0, I1 ↦ 3): the valuations add to (6, ·, 3) -/
example : assignAt (sumW [fun p => if p = 0 then (6 : ℚ) else 0, fun p => if p = 2 then 3 else 0]) 0
    [.V 1 0 0 1, .R 1 2 2, .I 2 0 1] = [.V 1 0 0 6, .R 1 2 2, .I 2 0 3] := by
  simp [assignAt, sumW, Cpt.mapSrc]

end Lcapy.C03
