/-
  C16 -- results depend only on the circuit, not on history or environment.

  All theorems are about the executable model `Lcapy.Cache` (Model/Cache.lean), whose
  configuration (`Config`: memoised members, what `_invalidate` clears, which mutators call it,
  whether an overridden component is detached, ...) is GENERATED from lcapy's source text.
  They are stated for an arbitrary configuration and an arbitrary set `G` of memo slots, with the
  decidable side conditions `CfgOK cfg G` on the configuration; `Props/C16Tables.lean` and
  `Props/C16Full.lean` instantiate them at the generated configuration (by `decide`).

  History = any finite list of operations (no length bound; induction over the list) on any
  number of interleaved instances: new, add, remove, override, queries, derived circuits.
-/
import Lcapy.Spec.Cache
import Lcapy.Proofs.CacheIso
import Lcapy.Proofs.CachePure
import Lcapy.Proofs.CacheAux
set_option linter.unusedVariables false
namespace Lcapy.C16
open Lcapy.Cache

/-! ## invariant -/

/-- the empty process state satisfies the invariant -/
theorem inv_init (cfg : Config) (G : String → Bool) : Inv cfg G World.empty := inv_empty

/-- every admissible step that raises no exception preserves the invariant
    (node counters = incidence counters; every live memo of `G` is up to date and clean) -/
theorem inv_step (cfg : Config) (G : String → Bool) (hc : CfgOK cfg G) (w : World) (h : Inv cfg G w) (op : Op)
    (hadm : op.admissible cfg w) (hok : (step cfg w op).2 = true) : Inv cfg G (step cfg w op).1 :=
  Cache.inv_step hc h op hadm hok

theorem inv_run (cfg : Config) (G : String → Bool) (hc : CfgOK cfg G) (ops : List Op) (hr : RunOK cfg World.empty ops) :
    Inv cfg G (run cfg World.empty ops) :=
  Cache.inv_run hc ops inv_empty hr

/-- a small configuration with one slot of each of two kinds, used by the non-vacuity examples -/
def exCfg2 : Config where
  memoised := [("a", .cprop), ("b", .lru)]
  cleared := ["a", "b"]
  addInvalidates := true
  addMultiInvalidates := true
  removeInvalidates := true
  initInvalidates := true
  overrideDetaches := true
  keepConnectedNode := true
  deps := [("b", ["a"])]
  reads := [("q", ["a", "b"])]
  spawns := ["b"]

/-- the invariant is not vacuous: a concrete world with live memos satisfies it after a history -/
example : let cfg : Config := exCfg2
    RunOK cfg World.empty [.new, .add 0 ⟨"R1", "R", ["1", "0"], "1"⟩, .query 0 "q", .add 0 ⟨"R1", "R", ["1", "2"], "5"⟩,
      .add 0 ⟨"E1", "E", ["3", "0", "2", "0"], "10"⟩, .query 0 "q", .remove 0 "E1",
      .query 0 "q", .remove 0 "R1", .derive 0 "q" [⟨"C1", "C", ["1", "0"], "1"⟩]] := by
  intro cfg
  simp only [RunOK, Op.admissible, uniqueNames]
  decide

/-! ## refinement: a query after any history = the same query on a freshly built circuit -/

/-- For the slots of `G`: after ANY admissible exception-free history, on ANY instance, the memo
    layer hands a query exactly the provenance it hands the same query in a fresh process that
    built the circuit from the current elements; and every observation that is a function of the
    elements and of the node counters (`is_dangling`, `remove_dangling`, `unconnected_nodes`, ...)
    coincides with the one on the fresh circuit. -/
theorem inv_implies_fresh (cfg : Config) (G : String → Bool) (hc : CfgOK cfg G) (w : World) (hinv : Inv cfg G w)
    (i : Nat) (inst : Inst) (hi : w.insts[i]? = some inst) :
    (∀ q, (∀ d ∈ cfg.readsOf q, G d = true) → answer cfg w i q = answer cfg (build inst.elts) 0 q) ∧
    (∀ {α : Type} (f : List Elt → (String → Nat) → (String → Nat) → α),
      structural f inst = structural f ⟨inst.elts, buildTab inst.elts, []⟩) := by
  obtain ⟨htab, hu⟩ := hinv.tab i inst hi
  refine ⟨?_, ?_⟩
  · intro q hq
    have h1 := (query_spec hc hinv i q).2.2.2 inst hi hq
    have h2 := (query_spec hc (inv_build (cfg := cfg) (G := G) inst.elts hu) 0 q).2.2.2
      ⟨inst.elts, buildTab inst.elts, []⟩ (by simp [build]) hq
    simp only [answer]
    rw [h1, h2]
  · intro α f
    have hc1 : countOf inst.tab = countOf (buildTab inst.elts) := by
      funext n; rw [(htab n).1, buildTab_count]
    have hd1 : degOf inst.tab = degOf (buildTab inst.elts) := by
      funext n; rw [(htab n).2, buildTab_deg]
    simp only [structural, hc1, hd1]

theorem fresh_refinement_on (cfg : Config) (G : String → Bool) (hc : CfgOK cfg G)
    (ops : List Op) (hr : RunOK cfg World.empty ops)
    (i : Nat) (inst : Inst) (hi : (run cfg World.empty ops).insts[i]? = some inst) :
    (∀ q, (∀ d ∈ cfg.readsOf q, G d = true) →
      answer cfg (run cfg World.empty ops) i q = answer cfg (build inst.elts) 0 q) ∧
    (∀ {α : Type} (f : List Elt → (String → Nat) → (String → Nat) → α),
      structural f inst = structural f ⟨inst.elts, buildTab inst.elts, []⟩) :=
  inv_implies_fresh cfg G hc _ (Cache.inv_run hc ops (inv_empty (cfg := cfg) (G := G)) hr) i inst hi

/-- what a query observes: the provenance of every memo slot it reads AND the element dictionary it is asked on (so the
    observation of a query that reads no memo slot at all -- `cpts`, `netlist`, `copy`, `Isc` (which works on a killed
    copy), ... -- is not empty: it is the elements; what such a query computes from them and from the node table is the
    `structural` half of the refinement theorems) -/
def observation (cfg : Config) (w : World) (i : Nat) (q : String) : Prov × List Elt := (answer cfg w i q, eltsOf w i)

/-- FULL PROPERTY.  If `_invalidate` clears every memoised member, `add` (for a single line AND for
    a multi-line string) and `remove` call it,
    overriding a name detaches the old component, `remove` and the override detach the component from
    EVERY node it has (components of any arity), and no read-only member mutates a cached object, then for every history of public operations that
    raises no exception, every query on every instance answers as on a freshly built circuit.
    (The three hypotheses are decidable facts about the generated configuration; they are
    instantiated in Props/C16Full.lean, which builds iff lcapy's source satisfies them.) -/
theorem fresh_refinement (cfg : Config)
    (hclr : ∀ p ∈ cfg.memoised, cfg.isCleared p.1 = true)
    (hadd : cfg.addInvalidates = true) (hmulti : cfg.addMultiInvalidates = true)
    (hrem : cfg.removeInvalidates = true) (hdet : cfg.overrideDetaches = true)
    (hrsel : cfg.removeSel = .all) (hosel : cfg.overrideSel = .all) (hdmg : cfg.damages = [])
    (ops : List Op) (hpub : ∀ op ∈ ops, op.isPublic) (hok : NoRaise cfg World.empty ops)
    (i : Nat) (inst : Inst) (hi : (run cfg World.empty ops).insts[i]? = some inst) :
    (∀ q, answer cfg (run cfg World.empty ops) i q = answer cfg (build inst.elts) 0 q) ∧
    (∀ {α : Type} (f : List Elt → (String → Nat) → (String → Nat) → α),
      structural f inst = structural f ⟨inst.elts, buildTab inst.elts, []⟩) := by
  have hc : CfgOK cfg (fun _ => true) := by
    refine ⟨?_, fun _ _ _ _ => rfl, by rw [hdmg]; intro p hp; cases hp⟩
    intro s _ hk
    cases hk' : cfg.kindOf s with
    | none => simp [hk'] at hk
    | some k => exact hclr (s, k) (lookup_mem _ _ _ hk')
  obtain ⟨h1, h2⟩ := fresh_refinement_on cfg (fun _ => true) hc ops
    (runOK_of_flags cfg hadd hmulti hrem hdet hrsel hosel ops _ hpub hok) i inst hi
  exact ⟨fun q => h1 q (fun _ _ => rfl), h2⟩

/-- ... and one with a slot of every kind -/
def exCfg3 : Config where
  memoised := [("a", .cprop), ("b", .lru), ("c", .hasattr)]
  cleared := ["a", "b", "c"]
  addInvalidates := true
  addMultiInvalidates := true
  removeInvalidates := true
  initInvalidates := true
  overrideDetaches := true
  keepConnectedNode := true
  deps := [("b", ["a", "c"])]
  reads := [("q", ["a", "c", "b"])]
  spawns := ["b"]

/-- the same with the non-empty observation: provenance of the slots read together with the elements -/
theorem fresh_refinement_observation (cfg : Config)
    (hclr : ∀ p ∈ cfg.memoised, cfg.isCleared p.1 = true)
    (hadd : cfg.addInvalidates = true) (hmulti : cfg.addMultiInvalidates = true)
    (hrem : cfg.removeInvalidates = true) (hdet : cfg.overrideDetaches = true)
    (hrsel : cfg.removeSel = .all) (hosel : cfg.overrideSel = .all) (hdmg : cfg.damages = [])
    (ops : List Op) (hpub : ∀ op ∈ ops, op.isPublic) (hok : NoRaise cfg World.empty ops)
    (i : Nat) (inst : Inst) (hi : (run cfg World.empty ops).insts[i]? = some inst) (q : String) :
    observation cfg (run cfg World.empty ops) i q = observation cfg (build inst.elts) 0 q ∧
    (observation cfg (run cfg World.empty ops) i q).2 = inst.elts := by
  have h := (fresh_refinement cfg hclr hadd hmulti hrem hdet hrsel hosel hdmg ops hpub hok i inst hi).1 q
  simp [observation, h, eltsOf, hi, build]

/-- the hypotheses of `fresh_refinement` are satisfiable by a configuration with live memo slots of
    every kind and a history with an override, queries, a removal, a failing-free copy and work on
    the copy -/
example : let cfg : Config := exCfg3
    let ops : List Op := [.new, .add 0 ⟨"R1", "R", ["1", "0"], "1"⟩, .query 0 "q", .add 0 ⟨"R1", "R", ["1", "2"], "5"⟩,
      .query 0 "q", .derive 0 "q" [⟨"R1", "R", ["1", "2"], "5"⟩], .add 1 ⟨"C1", "C", ["2", "0"], "1"⟩, .query 1 "q",
      .remove 0 "R1", .addLines 0 [⟨"R3", "R", ["2", "3"], "1"⟩, ⟨"TF1", "TF", ["3", "0", "4", "0"], "3"⟩]]
    (∀ p ∈ cfg.memoised, cfg.isCleared p.1 = true) ∧ (∀ op ∈ ops, op.isPublic) ∧ NoRaise cfg World.empty ops ∧
    (run cfg World.empty ops).insts.length = 2 := by
  intro cfg ops
  refine ⟨by decide, ?_, ?_, by decide⟩
  · intro op hop
    simp only [ops, List.mem_cons, List.mem_nil_iff, or_false] at hop
    rcases hop with h | h | h | h | h | h | h | h | h | h <;> subst h <;> simp [Op.isPublic, uniqueNames]
  · simp only [NoRaise, ops]; decide

/-- PARTIAL (what holds of a code base whose `_invalidate` misses some slots and/or whose
    `_cpt_add` does not detach an overridden component): excluded are (1) the queries that read a
    slot outside `G` -- `G` must avoid the uncleared slots and everything computed from them --
    and (2) histories containing an `add` over an existing name. -/
theorem fresh_refinement_partial (cfg : Config) (G : String → Bool) (hG : cfgOKb cfg G = true)
    (hadd : cfg.addInvalidates = true) (hrem : cfg.removeInvalidates = true)
    (ops : List Op) (hr : RunOK cfg World.empty ops)
    (i : Nat) (inst : Inst) (hi : (run cfg World.empty ops).insts[i]? = some inst)
    (q : String) (hq : ∀ d ∈ cfg.readsOf q, G d = true) :
    answer cfg (run cfg World.empty ops) i q = answer cfg (build inst.elts) 0 q := by
  have hc : CfgOK cfg G := by
    simp only [cfgOKb, Bool.and_eq_true, List.all_eq_true] at hG
    refine ⟨?_, ?_, ?_⟩
    · intro s hs hk
      cases hk' : cfg.kindOf s with
      | none => simp [hk'] at hk
      | some k =>
        have := hG.1.1 (s, k) (lookup_mem _ _ _ hk')
        simpa [hs] using this
    · intro s hs d hd
      unfold Config.depsOf at hd
      cases hl : cfg.deps.lookup s with
      | none => simp [hl] at hd
      | some ds =>
        have := hG.1.2 (s, ds) (lookup_mem _ _ _ hl)
        simp [hl] at hd
        simp [hs] at this
        exact this d hd
    · intro p hp
      have := hG.2 p hp
      simpa using this
  exact (fresh_refinement_on cfg G hc ops hr i inst hi).1 q hq

/-! ## isolation -/

/-- an operation aimed at another instance (mutation, query, derivation) leaves this instance's
    elements, node table and per-instance memo slots exactly as they were.
    MODEL-STRUCTURAL: this holds of EVERY configuration because every operation of the model only does
    `insts.set i`; the model has no sharing between instances that could be violated.  For lcapy, "modifying a copy
    never changes the original" rests on the correspondence stream (copies / derived circuits are mutated afterwards and
    the source is compared with a fresh rebuild after every operation on ANY instance), on the `source-changed` oracle,
    and on the code-side tables of Props/C16Tables.lean (`shared_cached_objects_not_mutated`) and
    Props/C16PureCode.lean (`read_only_members_write_only_memo_state_partial`). -/
theorem copy_isolated (cfg : Config) (w : World) (op : Op) (k : Nat) (hk : k < w.insts.length)
    (ht : op.target ≠ some k) : (step cfg w op).1.insts[k]? = w.insts[k]? := by
  cases op with
  | new => exact newInst_other _ _ hk
  | add i e => exact add_other _ _ _ _ (fun h => ht (by simp [Op.target, h]))
  | addRaw i e => exact addRaw_other _ _ _ _ (fun h => ht (by simp [Op.target, h]))
  | addLines i es => exact addLines_other _ _ _ _ (fun h => ht (by simp [Op.target, h]))
  | remove i nm => exact remove_other _ _ _ _ (fun h => ht (by simp [Op.target, h]))
  | query i q => exact query_other _ _ _ _ (fun h => ht (by simp [Op.target, h]))
  | derive i pre es => exact derive_other _ _ _ _ _ (fun h => ht (by simp [Op.target, h])) hk
  | addFail i es e late => exact addFail_other _ _ _ _ _ _ (fun h => ht (by simp [Op.target, h]))

/-- deriving a circuit (copy, subs, kill, select, simplify, ...) leaves the source's elements and
    node table unchanged, whatever is later done to the derived instance (by `copy_isolated`).
    MODEL-STRUCTURAL (see `copy_isolated`): in the model a derived instance is built from an INPUT list of elements. -/
theorem derive_keeps_source (cfg : Config) (w : World) (i : Nat) (pre : String) (es : List Elt)
    (hi : i < w.insts.length) :
    ((step cfg w (.derive i pre es)).1.insts[i]?).map (fun x : Inst => (x.elts, x.tab)) =
      (w.insts[i]?).map (fun x : Inst => (x.elts, x.tab)) :=
  derive_source _ _ _ _ hi

/-- error branch: removing an unknown name is rejected before anything is touched -/
theorem remove_unknown_atomic (cfg : Config) (w : World) (i : Nat) (nm : String) (inst : Inst)
    (hi : w.insts[i]? = some inst) (hn : findElt inst.elts nm = none) :
    remove cfg w i nm = (w, false) := by
  simp [remove, hi, hn]

/-- error branch: when `Node.remove` deletes a node only if no connection remains, removing a
    known component never stops half way (cf. `failed_remove_corrupts` for the unguarded code) -/
theorem remove_known_completes (cfg : Config) (hk : cfg.keepConnectedNode = true) (w : World) (i : Nat)
    (nm : String) (inst : Inst) (e : Elt) (hi : w.insts[i]? = some inst) (he : findElt inst.elts nm = some e) :
    (remove cfg w i nm).2 = true := by
  have hlt : i < w.insts.length := by
    rcases Nat.lt_or_ge i w.insts.length with h1 | h1
    · exact h1
    · rw [List.getElem?_eq_none h1] at hi; cases hi
  unfold remove
  simp only [hi, he, hk]
  by_cases hr : cfg.removeInvalidates = true
  · simp only [hr, if_true, invalidate, hi, List.getElem?_set, hlt]
    obtain ⟨t', ht'⟩ := detachAll_total (cfg.removeSel.pick e.nodes) inst.tab e.counted
    simp [ht']
  · have hr' : cfg.removeInvalidates = false := by simpa using hr
    obtain ⟨t', ht'⟩ := detachAll_total (cfg.removeSel.pick e.nodes) inst.tab e.counted
    simp [hr', hi, ht']

/-! ## transformer memo tables -/

/-- a transform answered through the memo table = the transform computed without it, for every
    request stream (transforms and `clear_cache()` interleaved), PROVIDED the key determines the
    result -/
theorem memo_transparent {A K R : Type} [DecidableEq K] (key : A → K) (f : A → R)
    (hkey : ∀ a b, key a = key b → f a = f b) (rs : List (TCache.Req A)) :
    TCache.runT key f [] rs = rs.map (TCache.uncached f) :=
  TCache.runT_eq key f hkey rs [] (by intro p hp; cases hp)

/-- the proviso is necessary: two arguments with the same key and different results are told apart -/
theorem memo_needs_key {A K R : Type} [DecidableEq K] (key : A → K) (f : A → R) (a b : A)
    (hk : key a = key b) (hf : f a ≠ f b) :
    TCache.runT key f [] [.tr a, .tr b] ≠ [TCache.Req.tr a, .tr b].map (TCache.uncached f) := by
  simp [TCache.runT, TCache.stepT, TCache.lookup, TCache.uncached, hk]
  exact hf

example : ∃ (key : Nat × Bool → Nat) (f : Nat × Bool → Nat), ∀ a b, key a = key b → f a = f b :=
  ⟨fun p => p.1, fun p => p.1 * 2, fun a b h => by simp [h]⟩

/-! ## iteration order of sets in `simplify` -/

/-- the combined value does not depend on the order in which the group is iterated -/
theorem perm_invariant_partial {g h : List Combine.Cpt} (p : g.Perm h) : Combine.total g = Combine.total h :=
  Combine.total_perm p

/-- ... but the netlist does (F7): the first name of the iteration hosts the combined component.
    `perm_invariant` at full strength (`combineSeries n g = combineSeries n h` for `g ~ h`) is FALSE
    of the code; witness: -/
theorem perm_invariant_fails :
    ∃ g h : List Combine.Cpt, g.Perm h ∧ Combine.combineSeries "Rt1" g ≠ Combine.combineSeries "Rt1" h :=
  ⟨[⟨"R1", "1", "2", 1⟩, ⟨"R2", "2", "0", 2⟩], [⟨"R2", "2", "0", 2⟩, ⟨"R1", "1", "2", 1⟩],
   List.Perm.swap _ _ _, by decide⟩

/-! ## witnesses: what goes wrong when a side condition of `fresh_refinement` fails
    (configuration frozen at the state of lcapy in which F14 was found) -/

/-- lcapy's configuration when F14 was found, restricted to three slots -/
def cfgF14 : Config where
  memoised := [("_components", .hasattr), ("analyse", .lru), ("node_list", .cprop)]
  cleared := ["analyse", "node_list"]
  addInvalidates := true
  addMultiInvalidates := true
  removeInvalidates := true
  initInvalidates := true
  overrideDetaches := false
  keepConnectedNode := false
  deps := [("analyse", ["_components"])]
  reads := [("capacitors", ["_components"]), ("has_dc", ["_components", "analyse"]), ("node_list", ["node_list"])]
  spawns := []

def V1 : Elt := ⟨"V1", "V", ["1", "0"], "5"⟩
def R1 : Elt := ⟨"R1", "R", ["1", "2"], "1"⟩
def R2 : Elt := ⟨"R2", "R", ["2", "0"], "2"⟩
def C1 : Elt := ⟨"C1", "C", ["2", "0"], "1"⟩
def R1' : Elt := ⟨"R1", "R", ["1", "3"], "5"⟩
def O1 : Elt := ⟨"O1", "O", ["2", "0"], ""⟩

/-- F14a: `_components` is not cleared: after `cct.capacitors; cct.add('C1 2 0 1')` the list is
    the one computed before the add -/
theorem f14_stale_components :
    let ops : List Op := [.new, .add 0 V1, .add 0 R1, .add 0 R2, .query 0 "capacitors", .add 0 C1]
    answer cfgF14 (run cfgF14 World.empty ops) 0 "capacitors" ≠
      answer cfgF14 (build (eltsOf (run cfgF14 World.empty ops) 0)) 0 "capacitors" := by decide

/-- F14b: overriding `R1 1 2 1` by `R1 1 3 5` leaves the old R1 counted on node 2 -/
theorem f14_override_keeps_old_attachment :
    let ops : List Op := [.new, .add 0 V1, .add 0 R1, .add 0 R2, .add 0 R1']
    let inst : Inst := ((run cfgF14 World.empty ops).insts[0]?).getD (⟨[], [], []⟩ : Inst)
    countOf inst.tab "2" = 2 ∧ countOf (buildTab inst.elts) "2" = 1 ∧
    cptDangling inst.tab R2 = false ∧ cptDangling (buildTab inst.elts) R2 = true := by decide

/-- a `remove` that raises half way (`Nodes._delete` refuses because an open-circuit component is
    still connected) leaves the counters of the already visited nodes decremented although the
    component stays in the netlist -/
theorem failed_remove_corrupts :
    let ops : List Op := [.new, .add 0 V1, .add 0 R1, .add 0 O1]
    let w := run cfgF14 World.empty ops
    (step cfgF14 w (.remove 0 "R1")).2 = false ∧
    eltsOf (step cfgF14 w (.remove 0 "R1")).1 0 = eltsOf w 0 ∧
    countOf (((step cfgF14 w (.remove 0 "R1")).1.insts[0]?).getD (⟨[], [], []⟩ : Inst)).tab "1" = 1 ∧
    countOf (buildTab (eltsOf w 0)) "1" = 2 := by decide

/-- why `_add` is not a public operation: applied to an instance with a live memo it leaves the
    memo stale even for a slot that `_invalidate` would clear -/
theorem addRaw_on_live_memo_is_stale :
    let ops : List Op := [.new, .add 0 V1, .query 0 "node_list", .addRaw 0 R1]
    answer cfgF14 (run cfgF14 World.empty ops) 0 "node_list" ≠
      answer cfgF14 (build (eltsOf (run cfgF14 World.empty ops) 0)) 0 "node_list" := by decide

/-- why the `_invalidate()` in `add` must not depend on the component `_add` returns: for a
    multi-line string `_add` returns None, and without the invalidate the memo of a slot that
    `_invalidate` would clear stays stale -/
theorem multiline_add_without_invalidate_is_stale :
    let cfg : Config := { cfgF14 with addMultiInvalidates := false }
    let ops : List Op := [.new, .add 0 V1, .add 0 R1, .add 0 R2, .query 0 "node_list",
      .addLines 0 [⟨"R3", "R", ["2", "3"], "1"⟩, ⟨"R4", "R", ["3", "0"], "3"⟩]]
    answer cfg (run cfg World.empty ops) 0 "node_list" ≠
      answer cfg (build (eltsOf (run cfg World.empty ops) 0)) 0 "node_list" := by decide

end Lcapy.C16
