/-
  PROPERTY C13, part b (round 3) -- DTFT rule cascade, sequences with an origin, initial-condition indexing,
  `lfilter` = z-domain transfer function, the `discretize` substitutions, the root-of-unity DFT bins.

  Only property theorems (+ non-vacuity examples); helper lemmas are in Lcapy/Proofs/DT2.lean, the executable
  model in Lcapy/Model/DT.lean (section "Round 3"), the defining sums in Lcapy/Spec/DT.lean.

  Reading guide.  `E = e^{-jΩ}`; the DTFT of a finitely supported sequence is the bilateral finite sum
  `dtftSum x E lo len = Σ_{n=lo}^{lo+len-1} x[n] E^n`; for a causal sequence the DTFT closed form (regular part) is
  the same rational function of `w = E` as the unilateral z-transform (`IsZT`), which is what "DTFT = z-transform
  on the unit circle" means formally; the analytic anchors evaluate the sums with `‖z‖ = 1`.
  Dirac combs (steps and sinusoids that are not summable) are formal pairs: no theorem, only the model
  (`dtftComb`) and the correspondence.
-/
import Lcapy.Proofs.DT2
import Lcapy.Model.DTSel
import Mathlib.Analysis.SpecificLimits.Normed
import Mathlib.Analysis.Complex.Basic
namespace Lcapy.C13
open Lcapy Lcapy.DT PowerSeries
variable {K : Type} [Field K]
set_option linter.unusedSimpArgs false
set_option linter.unusedVariables false

/-! ## 6. DTFT -/

theorem dtft_linear (x y : ℤ → K) (a b q : K) (lo : ℤ) (len : ℕ) :
    dtftSum (fun n => a * x n + b * y n) q lo len = a * dtftSum x q lo len + b * dtftSum y q lo len := by
  rw [dtftSum_add, dtftSum_smul, dtftSum_smul]

/-- a shift by any integer m (delay or advance — the DTFT is bilateral) multiplies by `E^m` -/
theorem dtft_shift (x : ℤ → K) (q : K) (hq : q ≠ 0) (lo m : ℤ) (len : ℕ) :
    dtftSum (fun n => x (n - m)) q (lo + m) len = q ^ m * dtftSum x q lo len :=
  dtftSum_shift x q hq lo m len

/-- multiplication by `r^n` (r = e^{jb}) moves the frequency: `X(Ω - b)`, i.e. `E ↦ r E` -/
theorem dtft_modulate (x : ℤ → K) (r q : K) (lo : ℤ) (len : ℕ) :
    dtftSum (fun n => r ^ n * x n) q lo len = dtftSum x (r * q) lo len := dtftSum_modulate x r q lo len

/-- the rule of `DTFTTransformer.term` for `cos(b n + c) x[n]`: `1/2 (e^{-jc} X(Ω+b) + e^{jc} X(Ω-b))` -/
theorem dtft_cos_rule (x : ℤ → K) (eb ec q : K) (lo : ℤ) (len : ℕ) :
    dtftSum (fun n => (DMod.cos eb ec).val n * x n) q lo len
      = 1 / (1 + 1) * (1 / ec * dtftSum x (1 / eb * q) lo len + ec * dtftSum x (eb * q) lo len) :=
  dtftSum_cos x eb ec q lo len

/-- … and for `sin(b n + c) x[n]`: `j/2 (e^{-jc} X(Ω+b) - e^{jc} X(Ω-b))` (the phase factors are NOT interchangeable:
    seeded change C13-4 swaps them) -/
theorem dtft_sin_rule (x : ℤ → K) (eb ec j q : K) (hj : j * j = -1) (lo : ℤ) (len : ℕ) :
    dtftSum (fun n => (DMod.sin eb ec j).val n * x n) q lo len
      = j / (1 + 1) * (1 / ec * dtftSum x (1 / eb * q) lo len + (-ec) * dtftSum x (eb * q) lo len) :=
  dtftSum_sin x eb ec j q hj lo len

example : Complex.I * Complex.I = -1 := Complex.I_mul_I

/-- table entry `δ[n - d] ↦ E^d`, any integer d, for every window that contains d -/
theorem dtft_impulse (d : ℤ) (q : K) (lo : ℤ) (len : ℕ) (h : lo ≤ d ∧ d < lo + len) :
    dtftSum (fun n => if n = d then (1 : K) else 0) q lo len = q ^ d := by
  rw [dtftSum_impulse, if_pos h]

/-- finite-support sequence with first index n0: `Σ x[n] E^n = E^{n0} · (vals as a polynomial in E)` -/
theorem dtft_finite_support (vals : List K) (n0 : ℤ) (q : K) (hq : q ≠ 0) :
    dtftSum (litVal vals n0) q n0 vals.length = q ^ n0 * peval vals q := dtftSum_lit vals n0 q hq

/-- the whole rule cascade of `DTFTTransformer.term` (sin/cos rule, then `n` rule p times, then the
    `u(n-d) a**n` resp. `δ(n-d)` rule), for every finite sum of causal terms
    `c n^p a^n {u[n-d] | δ[n-d]} {1 | cos(b n + c) | sin(b n + c)}`: the returned rational function of
    `E = e^{-jΩ}` expands to `Σ_{n≥0} x[n] E^n` coefficient-wise (for every n).
    `DTerm.ok`: d ≥ 0 (advanced gates are covered by `dtft_impulse`/`dtft_shift` and the oracle), `j² = -1`. -/
theorem dtft_rule_cascade_sound (ts : List (DTerm K)) (h : ∀ t ∈ ts, t.ok) :
    IsZT (fun n : ℕ => dsigVal ts n) (dtftRegSig ts) := isZT_dtftRegSig ts h

example : (⟨3, 1, 1 / 2, true, 2, .cos (3 / 5) (4 / 5)⟩ : DTerm ℚ).ok := by simp [DTerm.ok]

/-- DTFT = z-transform at `z = e^{jΩ}`: the DTFT closed form of a causal term and ANY closed form that is the
    unilateral z-transform of the same sequence (in particular the one produced by `ZTransformer.term`) take
    the same value at every z where both denominators are non-zero -/
theorem dtft_is_zt_on_unit_circle (ts : List (DTerm K)) (h : ∀ t ∈ ts, t.ok) (r : ZR K)
    (hr : IsZT (fun n : ℕ => dsigVal ts n) r) (z : K)
    (h1 : peval (dtftRegSig ts).den (1 / z) ≠ 0) (h2 : peval r.den (1 / z) ≠ 0) :
    (dtftRegSig ts).eval z = r.eval z :=
  eval_eq_of_isZT (isZT_dtftRegSig ts h) hr z h1 h2

/-- instance: `c n^p a^n u[n-d]` — the DTFT rule and the z-transform rule cascade agree on the circle -/
theorem dtft_is_zt_geometric_family (c : K) (p : ℕ) (a : K) (d : ℕ) (z : K)
    (h1 : peval (dtftReg ⟨c, p, a, true, d, .none⟩).den (1 / z) ≠ 0)
    (h2 : peval (ztTerm ⟨c, p, a, .step d⟩).den (1 / z) ≠ 0) :
    (dtftReg ⟨c, p, a, true, d, .none⟩).eval z = (ztTerm ⟨c, p, a, .step d⟩).eval z := by
  have ok : (⟨c, p, a, true, (d : ℤ), .none⟩ : DTerm K).ok := ⟨by simp, trivial⟩
  have hz := isZT_term (⟨c, p, a, .step d⟩ : CTerm K) (by simp [Base.ok])
  refine eval_eq_of_isZT (isZT_dtftReg _ ok) (hz.congr (fun n => ?_)) z h1 h2
  simp [CTerm.val, DTerm.val, Base.val, DMod.val]

/-- analytic anchor for the delayed geometric entry: on the unit circle, `‖a‖ < 1`, the bilateral defining
    sum `Σ_n a^n u[n-d] e^{-jΩn}` converges to the model's closed form -/
theorem dtft_geometric_delayed_on_circle {𝕜 : Type} [NormedField 𝕜] [CompleteSpace 𝕜] (a z : 𝕜) (d : ℕ)
    (hz : ‖z‖ = 1) (ha : ‖a‖ < 1) :
    ∑' n : ℕ, (if d ≤ n then a ^ n else 0) * (z⁻¹) ^ n
      = (dtftReg (⟨1, 0, a, true, d, .none⟩ : DTerm 𝕜)).eval z := by
  have hz0 : z ≠ 0 := by
    intro h; rw [h, norm_zero] at hz; exact zero_ne_one hz
  have hr : ‖a / z‖ < 1 := by rw [norm_div, hz, div_one]; exact ha
  have hs : Summable (fun n : ℕ => (if d ≤ n then a ^ n else 0) * (z⁻¹) ^ n) := by
    refine Summable.of_norm_bounded (g := fun n => ‖a / z‖ ^ n)
      (summable_geometric_of_lt_one (norm_nonneg _) hr) (fun n => ?_)
    by_cases h : d ≤ n
    · simp [h, div_eq_mul_inv, mul_pow]
    · simp [h]; positivity
  rw [← Summable.sum_add_tsum_nat_add d hs]
  have e0 : ∑ i ∈ Finset.range d, (if d ≤ i then a ^ i else 0) * (z⁻¹) ^ i = 0 := by
    apply Finset.sum_eq_zero
    intro i hi
    have : ¬ d ≤ i := by simpa using hi
    simp [this]
  have e1 : ∀ i : ℕ, (if d ≤ i + d then a ^ (i + d) else 0) * (z⁻¹) ^ (i + d) = (a / z) ^ d * (a / z) ^ i := by
    intro i
    simp only [Nat.le_add_left, ↓reduceIte, div_eq_mul_inv, mul_pow, pow_add]; ring
  simp only [e0, e1, zero_add, tsum_mul_left, tsum_geometric_of_norm_lt_one hr]
  have h1 : (1 : 𝕜) - a / z ≠ 0 := by
    intro h0
    have : a / z = 1 := by linear_combination -h0
    rw [this] at hr; simp at hr
  have hpe : peval (pshift d [a ^ d]) (1 / z) = (1 / z) ^ d * a ^ d := by
    rw [peval_pshift]; simp
  have h2 : z - a ≠ 0 := by
    intro e; apply h1; field_simp; linear_combination e
  have h3 : (1 : 𝕜) + 1 / z * (-a + 1 / z * 0) = (z - a) / z := by field_simp; ring
  simp only [ZR.eval, dtftReg, ZR.scale, iter, dtftGate, Int.natCast_nonneg, ge_iff_le, ↓reduceIte,
    Int.toNat_natCast, zpowK_eq, zpow_natCast, powK_eq, pow_zero, one_mul, peval_pscale, hpe, peval_cons,
    peval_nil, h3]
  field_simp
  rw [div_pow, one_div, inv_pow]
  field_simp

/-! ## 7. Sequences with an origin (`seq`, `nseq.ZT/DFT`, `zseq.IZT`, `Sequence.convolve`) -/

/-- `nseq.ZT` for a sequence whose first index is 0: the terms sum to `Σ x[n] z^{-n}`.
    (This is the list-position form `seqZTPy`, which the code used for every origin before the repair of finding F27;
    the translator tx_dtseq selects `seqZT` — theorem `seq_zt_origin` — when the source uses `self.n[ni]`.) -/
theorem seq_zt_partial (vals : List K) (z : K) (hz : z ≠ 0) :
    lsum (seqZTPy vals z) = dtftSum (litVal vals 0) (1 / z) 0 vals.length := by
  rw [dtftSum_lit vals 0 (1 / z) (by simpa using hz)]
  simp [seqZTPy, lsum_pdilateFrom]

theorem seq_zt_origin (vals : List K) (n0 : ℤ) (z : K) (hz : z ≠ 0) :
    lsum (seqZT vals n0 z) = dtftSum (litVal vals n0) (1 / z) n0 vals.length := by
  rw [dtftSum_lit vals n0 (1 / z) (by simpa using hz)]
  simp [seqZT, lsum_pdilateFrom]

/-- `zseq.IZT ∘ nseq.ZT` returns the values — list-position pair (the code before the repair of F27; not the executed
    pair any more, see `seq_izt_zt_executed`) -/
theorem seq_izt_zt_position_partial (vals : List K) (z : K) (hz : z ≠ 0) : seqIZTPy (seqZTPy vals z) z = vals := by
  simp only [seqIZTPy, seqZTPy, pdilateFrom_pdilateFrom]
  have : 1 / z * z = 1 := by field_simp
  rw [this, mul_one, pdilateFrom_one]

/-- … sequence-index pair (`z**(-self.n[ni])` then `z**self.n[ni]`), first index n0 of any sign -/
theorem seq_izt_zt_origin (vals : List K) (n0 : ℤ) (z : K) (hz : z ≠ 0) :
    seqIZT (seqZT vals n0 z) n0 z = vals := by
  simp only [seqIZT, seqZT, pdilateFrom_pdilateFrom]
  have h1 : 1 / z * z = 1 := by field_simp
  have h2 : zpowK (1 / z) n0 * zpowK z n0 = 1 := by
    rw [zpowK_eq, zpowK_eq, one_div, inv_zpow, inv_mul_cancel₀ (zpow_ne_zero _ hz)]
  rw [h1, h2, pdilateFrom_one]

/-- THE EXECUTED PAIR: the models that Driver/C13.lean runs — selected by the flags tx_dtseq regenerates from
    lcapy/nseq.py and lcapy/zseq.py on every run (`Model/DTSel.lean`) — round-trip, values and first index.
    The proof goes through for the two consistent source forms (position/position, index/index with kept indices);
    for an inconsistent pair the statement is false and this obligation breaks, as it should. -/
theorem seq_izt_zt_executed (vals : List K) (n0 : ℤ) (z : K) (hz : z ≠ 0) :
    seqIZTModel (seqZTModel vals n0 z) (seqZTIndex n0) z = vals
      ∧ (Lcapy.Generated.DTSeq.ztUsesSequenceIndex = true → seqIZTIndex (seqZTIndex n0) = n0) := by
  constructor
  · simp only [seqIZTModel, seqZTModel, seqZTIndex, Lcapy.Generated.DTSeq.ztUsesSequenceIndex,
      Lcapy.Generated.DTSeq.iztUsesSequenceIndex, Lcapy.Generated.DTSeq.ztKeepsIndices, ↓reduceIte, Bool.false_eq_true]
    first
      | exact seq_izt_zt_origin vals n0 z hz
      | exact seq_izt_zt_position_partial vals z hz
  · simp [seqIZTIndex, seqZTIndex, Lcapy.Generated.DTSeq.ztUsesSequenceIndex, Lcapy.Generated.DTSeq.ztKeepsIndices,
      Lcapy.Generated.DTSeq.iztKeepsIndices]

/-- `nseq.DFT`: element k is the bilateral defining sum over the sequence's own index range -/
theorem seq_dft_is_sum (vals : List K) (n0 : ℤ) (q : K) (hq : q ≠ 0) :
    seqDFTPy vals n0 q = dtftSum (litVal vals n0) q n0 vals.length := by
  rw [dtftSum_lit vals n0 q hq]; simp [seqDFTPy, lsum_pdilateFrom]

/-- `Sequence.convolve` multiplies generating polynomials … -/
theorem seq_convolve_poly (x h : List K) (hx : x ≠ []) (hh : h ≠ []) (w : K) :
    peval (convolvePy x h) w = peval x w * peval h w := by
  have := peval_eq_of_toPS _ _ ((toPS_convolve x h hx hh).trans (toPS_pmul h x).symm) w
  rw [this, peval_pmul]; ring

/-- … hence it is commutative (as lists, also with empty operands) … -/
theorem seq_convolve_comm (x h : List K) : convolvePy x h = convolvePy h x := convolvePy_comm x h

/-- … and associative -/
theorem seq_convolve_assoc (x h g : List K) (hx : x ≠ []) (hh : h ≠ []) (hg : g ≠ []) :
    convolvePy (convolvePy x h) g = convolvePy x (convolvePy h g) := convolvePy_assoc x h g hx hh hg

/-- origin arithmetic: with first indices x0, h0 the result starts at x0 + h0 and is the bilateral convolution sum
    at EVERY integer index (also outside all supports) -/
theorem seq_convolve_origin (x : List K) (x0 : ℤ) (h : List K) (h0 : ℤ) (hx : x ≠ []) (hh : h ≠ []) (n : ℤ) :
    litVal (convolveSeq x x0 h h0).1 (convolveSeq x x0 h h0).2 n = convAt h (litVal x x0) (n - h0) := by
  simp only [convolveSeq, convAt, litVal_eq_litZ]
  rw [litZ_convolve x h hx hh]
  have : (fun k => litZ x (k - x0)) = fun k => litVal x x0 k := by funext k; rw [litVal_eq_litZ]
  have e2 : bsum h (litVal x x0) (n - h0) = bsum h (fun k => litZ x (k - x0)) (n - h0) := by rw [this]
  rw [e2, bsum_shift]
  congr 1; ring

example : convolveSeq ([1, 2, 3] : List ℚ) (-1) [0, 1] 2 = ([0, 1, 2, 3], 1) := by decide +kernel

/-! ## 8. Difference equations: initial-condition order, transfer function, impulse response, `lfilter` -/

/-- the initial-condition list is `ic = [y[-1], y[-2], …]` (most recent first) … -/
theorem response_ic_indexing (b a : List K) (x : ℤ → K) (ic : List K) (i : ℕ) (hi : i < ic.length) :
    respY b a x ic (-((i : ℤ) + 1)) = ic[i] := by
  rw [respY_neg b a x ic i, List.getD_eq_getElem _ _ hi]

example : (2 : ℕ) < ([5, 7, 9] : List ℚ).length := by decide

/-- … and this is how it enters the first computed sample:
    `a_0 y[0] = Σ_l b_l x[-l] - Σ_{k≥1} a_k ic[k-1]` (seeded change C13-2 loads the list reversed) -/
theorem response_first_sample (b a : List K) (x : ℤ → K) (ic : List K) :
    respY b a x ic 0 = (bsum b x 0 - dot a.tail ic) / a.headD 0 := by
  simp [respY, respRun, respStep]

/-- the same fact read off the difference equation at n = 0 with `y[-k] = ic[k-1]` -/
theorem response_first_sample_de (b a : List K) (x : ℤ → K) (ic : List K) (ha : a.headD 0 ≠ 0)
    (hlen : a.length = ic.length + 1) :
    a.headD 0 * respY b a x ic 0 + dot a.tail ic = bsum b x 0 := by
  rw [response_first_sample]; field_simp; ring

/-- difference equation ⇔ transfer function, arbitrary causal input and output (any orders):
    `Σ_k a_k y[n-k] = Σ_l b_l x[n-l]` for all n ≥ 0  ⇔  `A(w) Y(w) = B(w) X(w)` -/
theorem difference_equation_iff_transfer (a b : List K) (x y : ℕ → K) :
    toPS a * PowerSeries.mk y = toPS b * PowerSeries.mk x
      ↔ ∀ n : ℕ, bsum a (extZ y) n = bsum b (extZ x) n := de_iff_transfer a b x y

/-- the impulse response (inverse z-transform of B/A by long division) is the recursion's response to `δ[n]` at rest -/
theorem impulse_response_is_delta_response (b a : List K) (ha : a.headD 0 ≠ 0) (n : ℕ) :
    respY b a (fun i => if i = 0 then 1 else 0) (List.replicate (a.length - 1) 0) n = hCoeff b a n :=
  impulse_is_delta_response b a ha n

/-- `Sequence.lfilter(b, a)` IS the z-domain route: the first `len x` coefficients of `B(w) X(w) / A(w)`,
    for every numerator and denominator order -/
theorem lfilter_eq_series (b a x : List K) (ha : a.headD 0 ≠ 0) :
    lfilterPy b a x = series (pmul b x) a x.length := lfilter_eq_series' b a x ha

example : lfilterPy ([1, 1] : List ℚ) [1, -1 / 2] [1, 2, 3] = series (pmul [1, 1] [1, 2, 3]) [1, -1 / 2] 3 := by
  decide +kernel

/-! ## 9. `discretize`: substitutions `s = f(z)` -/

/-- the model's coefficient-level substitution is composition with the map, for all degrees -/
theorem discretize_is_substitution (num den sn sd : List K) (w : K) (hD : peval sd w ≠ 0) :
    peval (substRat num den sn sd).1 w / peval (substRat num den sn sd).2 w
      = peval num (peval sn w / peval sd w) / peval den (peval sn w / peval sd w) :=
  substRat_eval num den sn sd w hD

/-- `generalized_bilinear_transform(alpha)`: the model's (numerator, denominator) pair is the documented map
    `s = (1/Δ) (1 - z⁻¹)/(α + (1 - α) z⁻¹)` -/
theorem gbt_documented_map (alpha dt w : K) (hdt : dt ≠ 0) :
    peval gbtNum w / peval (gbtDen alpha dt) w = 1 / dt * (1 - w) / (alpha + (1 - alpha) * w) := by
  by_cases h : alpha + (1 - alpha) * w = 0
  · have : dt * alpha + w * (dt * (1 - alpha)) = 0 := by linear_combination dt * h
    simp [gbtNum, gbtDen, h, this]
  · have : dt * alpha + w * (dt * (1 - alpha)) ≠ 0 := by
      intro e; apply h
      have : dt * (alpha + (1 - alpha) * w) = 0 := by linear_combination e
      exact (mul_eq_zero.mp this).resolve_left hdt
    have hne : alpha + (1 - alpha) * w ≠ 0 := h
    have e : dt * alpha + w * (dt * (1 - alpha) + w * 0) = dt * (alpha + (1 - alpha) * w) := by ring
    simp only [gbtNum, gbtDen, peval_cons, peval_nil]
    rw [e]
    field_simp
    ring

/-- `bilinear_transform` (α = 1/2): `s = (2/Δ) (1 - z⁻¹)/(1 + z⁻¹)` -/
theorem bilinear_documented_map (dt w : K) (hdt : dt ≠ 0) (h2 : (1 + 1 : K) ≠ 0) (hw : 1 + w ≠ 0) :
    peval gbtNum w / peval (gbtDen (1 / (1 + 1)) dt) w = (1 + 1) / dt * (1 - w) / (1 + w) := by
  have e : dt * (1 / (1 + 1)) + w * (dt * (1 - 1 / (1 + 1)) + w * 0) = dt * (1 + w) / (1 + 1) := by
    field_simp; ring
  simp only [gbtNum, gbtDen, peval_cons, peval_nil]
  rw [e]
  field_simp
  ring

/-- `forward_euler_transform` (α = 0): `s = (1/Δ) (1 - z⁻¹)/z⁻¹` -/
theorem forward_euler_documented_map (dt w : K) (hdt : dt ≠ 0) :
    peval gbtNum w / peval (gbtDen 0 dt) w = 1 / dt * (1 - w) / w := by
  rw [gbt_documented_map _ _ _ hdt]; simp

/-- `backward_euler_transform` (α = 1): `s = (1/Δ) (1 - z⁻¹)` -/
theorem backward_euler_documented_map (dt w : K) (hdt : dt ≠ 0) :
    peval gbtNum w / peval (gbtDen 1 dt) w = 1 / dt * (1 - w) := by
  rw [gbt_documented_map _ _ _ hdt]; simp

/-- `simpson_transform`: `s = (3/Δ) (z² - 1)/(z² + 4 z + 1)` -/
theorem simpson_documented_map (dt z : K) (hdt : dt ≠ 0) (hz : z ≠ 0) (hd : z ^ 2 + (1 + 1 + 1 + 1) * z + 1 ≠ 0) :
    peval simpsonNum (1 / z) / peval (simpsonDen dt) (1 / z)
      = (1 + 1 + 1) / dt * (z ^ 2 - 1) / (z ^ 2 + (1 + 1 + 1 + 1) * z + 1) := by
  simp only [simpsonNum, simpsonDen, peval_cons, peval_nil]
  have e1 : dt + 1 / z * ((1 + 1 + 1 + 1) * dt + 1 / z * (dt + 1 / z * 0))
      = dt * (z ^ 2 + (1 + 1 + 1 + 1) * z + 1) / z ^ 2 := by
    field_simp; ring
  have e2 : (1 + 1 + 1 : K) + 1 / z * (0 + 1 / z * (-(1 + 1 + 1) + 1 / z * 0)) = (1 + 1 + 1) * (z ^ 2 - 1) / z ^ 2 := by
    field_simp; ring
  rw [e1, e2]
  field_simp

/-- the bilinear map sends the s-plane pole p to `z = (2 + pΔ)/(2 - pΔ)` -/
theorem bilinear_pole_map (dt p z : K) (hdt : dt ≠ 0) (hz : z ≠ 0) (hz1 : z + 1 ≠ 0)
    (hp : (1 + 1) - p * dt ≠ 0) :
    (1 + 1) / dt * (1 - 1 / z) / (1 + 1 / z) = p ↔ z = ((1 + 1) + p * dt) / ((1 + 1) - p * dt) := by
  have h1 : 1 + 1 / z ≠ 0 := by
    intro e; apply hz1; field_simp at e; linear_combination e
  constructor
  · intro e
    field_simp at e
    field_simp
    linear_combination e
  · intro e
    field_simp at e
    field_simp
    linear_combination e

/-- forward Euler: `p ↦ z = 1 + pΔ` -/
theorem forward_euler_pole_map (dt p z : K) (hdt : dt ≠ 0) (hz : z ≠ 0) :
    1 / dt * (1 - 1 / z) / (1 / z) = p ↔ z = 1 + p * dt := by
  constructor
  · intro e; field_simp at e; linear_combination e
  · intro e; field_simp; linear_combination e

/-- backward Euler: `p ↦ z = 1/(1 - pΔ)` -/
theorem backward_euler_pole_map (dt p z : K) (hdt : dt ≠ 0) (hz : z ≠ 0) (hp : 1 - p * dt ≠ 0) :
    1 / dt * (1 - 1 / z) = p ↔ z = 1 / (1 - p * dt) := by
  constructor
  · intro e; field_simp at e; field_simp; linear_combination e
  · intro e; field_simp at e; field_simp; linear_combination e

/-- stability is preserved by the bilinear map: a pole in the open left half-plane lands strictly inside the
    unit circle, for every sampling interval Δ > 0 -/
theorem bilinear_lhp_to_unit_disc (p : ℂ) (dt : ℝ) (hdt : 0 < dt) (hp : p.re < 0) :
    ‖((2 : ℂ) + p * dt) / ((2 : ℂ) - p * dt)‖ < 1 := by
  have hne : (2 : ℂ) - p * dt ≠ 0 := by
    intro e
    have := congrArg Complex.re e
    simp at this
    nlinarith
  rw [norm_div, div_lt_one (norm_pos_iff.mpr hne)]
  have hsq : ‖(2 : ℂ) + p * dt‖ ^ 2 < ‖(2 : ℂ) - p * dt‖ ^ 2 := by
    rw [Complex.sq_norm, Complex.sq_norm, Complex.normSq_apply, Complex.normSq_apply]
    simp
    nlinarith
  exact lt_of_pow_lt_pow_left₀ 2 (norm_nonneg _) hsq

/-- impulse invariance for simple poles, `H(s) = Σ_i r_i/(s - p_i)`, `E_i = e^{p_i Δ}`: the returned H(z) is the
    z-transform of the sampled impulse response scaled by Δ, `h[n] = Δ Σ_i r_i E_i^n = Δ h_c(nΔ)`, for every n -/
theorem impulse_invariance_samples (dt : K) (l : List (K × K)) :
    IsZT (fun n : ℕ => dt * (l.map (fun re => re.1 * re.2 ^ n)).sum) (impulseInvariance dt l) := by
  induction l with
  | nil => simpa [impulseInvariance] using isZT_zero
  | cons re rest ih =>
    obtain ⟨r, e⟩ := re
    have h1 : IsZT (fun n : ℕ => dt * r * (e ^ n * (if 0 ≤ n then (1 : K) else 0)))
        (⟨0, [dt * r], [1, -e]⟩ : ZR K) := by
      have := (isZT_dtftGate e true 0).scale (dt * r)
      refine IsZT.of_toPS this rfl ?_ ?_
      · simp [ZR.scale, dtftGate, pscale, pshift]
      · simp [ZR.scale, dtftGate]
    have := h1.add ih
    simp only [impulseInvariance]
    refine this.congr (fun n => ?_)
    simp
    ring

/-! ## 10. The DFT bin where the geometric base meets the kernel (`a q = 1`, a an N-th root of unity) -/

/-- at the bin `k0` with `a · ω^{k0} = 1` the defining sum of `wt[n] a^n` is `Σ wt[n]` — the value the "special case"
    of `termXq` carries there since the repair of finding F20 (the model branch `numeric ∧ a^N = 1 ∧ a q = 1`) -/
theorem dft_root_of_unity_bin (wt : ℕ → K) (a q : K) (haq : a * q = 1) (N : ℕ) :
    dftSum (fun n => wt n * a ^ n) q N = dftSum wt 1 N := dftSum_root_bin wt a q haq N

/-- p = 0: `Σ_{l ≤ n < N} a^n q^n = N - l` -/
theorem dft_root_of_unity_bin_step (a q : K) (haq : a * q = 1) (l N : ℕ) (hl : l ≤ N) :
    dftSum (fun n => if l ≤ n then a ^ n else 0) q N = (N : K) - (l : K) := by
  have e : (fun n : ℕ => if l ≤ n then a ^ n else 0) = fun n => (if l ≤ n then (1 : K) else 0) * a ^ n := by
    funext n; split_ifs <;> simp
  rw [e, dftSum_root_bin _ a q haq N, spec0 l N hl]

/-- p = 1: Faulhaber, `2 Σ_{l ≤ n < N} n = N(N-1) - l(l-1)` -/
theorem dft_root_of_unity_bin_ramp (a q : K) (haq : a * q = 1) (l N : ℕ) (hl : l ≤ N) :
    (1 + 1) * dftSum (fun n => if l ≤ n then (n : K) * a ^ n else 0) q N
      = (N : K) * ((N : K) - 1) - (l : K) * ((l : K) - 1) := by
  have e : (fun n : ℕ => if l ≤ n then (n : K) * a ^ n else 0) = fun n => (if l ≤ n then (n : K) else 0) * a ^ n := by
    funext n; split_ifs <;> simp
  rw [e, dftSum_root_bin _ a q haq N, spec1 l N hl]

example : ((-1 : ℚ) * (-1) = 1) := by norm_num

end Lcapy.C13
