/-
  AUDIT (reviewer, not the owner): machine-checked NON-VACUITY witnesses for Props/C19.lean and C19Forms.lean.
  Running example: the RC driving-point impedance  Z(s) = (s² + 4s + 3)/(s² + 2s)  (coefficient lists ascending:
  N = [3, 4, 1], D = [0, 2, 1]), evaluated at s = 2 where Z = 15/8; the LC impedance (1 + s²)/s for the
  continued-fraction step; Z = (3 + 5s + 2s²)/s = 3/s + 5 + 2s for the pattern forms.
-/
import Lcapy.Props.C19
import Lcapy.Props.C19Forms
import Mathlib.Tactic
set_option linter.defProp false
set_option linter.unusedVariables false
namespace Lcapy.NonVacuity.C19
open Lcapy Lcapy.Poly Lcapy.Ratfun Lcapy.Synth Lcapy.C19

def Nz : List ℚ := [3, 4, 1]
def Dz : List ℚ := [0, 2, 1]
def env2 : Env ℚ := ⟨2, fun _ => 0, 0⟩
def noConj : ℚ → ℚ → Bool := fun _ _ => false

theorem FRes.exists_ok {r : FRes ℚ} (h : r.isOk = true) : ∃ n, r = .ok n := by
  cases r <;> simp [FRes.isOk] at h; exact ⟨_, rfl⟩
theorem NRes.exists_ok {r : NRes ℚ} (h : r.isOk = true) : ∃ n, r = .ok n := by
  cases r <;> simp [NRes.isOk] at h; exact ⟨_, rfl⟩

theorem OO.exists_some {o : Option (Option (Net ℚ))} (h : (o.bind id).isSome = true) : ∃ n, o = some (some n) := by
  cases o with
  | none => simp at h
  | some o => cases o with
    | none => simp at h
    | some n => exact ⟨n, rfl⟩

/-! ## Props/C19.lean -/

def nv_cf_step := cf_step ([1, 0, 1] : List ℚ) [0, 1] 1 1 [1] (by decide +kernel) (by decide +kernel) 5

def nv_cf_terminates := cf_terminates 7 Nz Dz (by decide +kernel) (by decide +kernel)

/-- the Cauer-I coefficients of Z: 1, s/2, 4, s/6  (R = 1, C = 1/2, R = 4, C = 1/6) -/
theorem cs_Z : cfRun 7 Nz Dz = .ok [(1, 0), (1/2, 1), (4, 0), (1/6, 1)] := by decide +kernel

def nv_cf_value := cf_value 7 Nz Dz _ env2 cs_Z (by decide +kernel)

theorem ladder_Z : LadderDefined false (2 : ℚ) [(1, 0), (1/2, 1), (4, 0), (1/6, 1)] := by
  simp [LadderDefined, cfVal, monoVal, npow]; norm_num

theorem nv_cauerI_realises : ∃ net : Net ℚ, cauerI true [(1, 0), (1/2, 1), (4, 0), (1/6, 1)] = some (some net) ∧
    net.Z 2 = cfVal false 2 [(1, 0), (1/2, 1), (4, 0), (1/6, 1)] := by
  obtain ⟨net, h⟩ := OO.exists_some (o := cauerI true [((1 : ℚ), 0), (1/2, 1), (4, 0), (1/6, 1)]) (by decide +kernel)
  exact ⟨net, h, cauerI_realises 2 _ net h ladder_Z⟩

theorem nv_cauerI_realises_ratfun : ∃ net : Net ℚ, cauerI true [(1, 0), (1/2, 1), (4, 0), (1/6, 1)] = some (some net) ∧
    net.Z 2 = Poly.eval Nz 2 / Poly.eval Dz 2 := by
  obtain ⟨net, h⟩ := OO.exists_some (o := cauerI true [((1 : ℚ), 0), (1/2, 1), (4, 0), (1/6, 1)]) (by decide +kernel)
  exact ⟨net, h, cauerI_realises_ratfun 7 Nz Dz _ net env2 cs_Z (by decide +kernel) h ladder_Z⟩

theorem nv_value_15_8 : Poly.eval Nz 2 / Poly.eval Dz 2 = 15 / 8 := by norm_num [Nz, Dz, Poly.eval]

/-- Cauer II: coefficients of 1/Z = D/N in 1/s:  0, (3/2)/s, 4/5, (25/2)/s, 1/5 -/
theorem csi_Z : cfiCoeffs Dz Nz = .ok [(0, 0), (3/2, 1), (4/5, 0), (25/2, 1), (1/5, 0)] := by decide +kernel

theorem ladderII_Z : LadderDefined true (2 : ℚ) [(0, 0), (3/2, 1), (4/5, 0), (25/2, 1), (1/5, 0)] := by
  simp [LadderDefined, cfVal, monoVal, npow]; norm_num

theorem netII_exists : ∃ net : Net ℚ,
    cauerII true true [((0 : ℚ), 0), (3/2, 1), (4/5, 0), (25/2, 1), (1/5, 0)] = some (some net) ∧ net.Z 2 ≠ 0 := by
  obtain ⟨net, h⟩ := OO.exists_some (o := cauerII true true [((0 : ℚ), 0), (3/2, 1), (4/5, 0), (25/2, 1), (1/5, 0)])
    (by decide +kernel)
  refine ⟨net, h, ?_⟩
  simp [cauerII, monoCollInv, seriesRL, parallelGC, optNet, serO, parO] at h
  rw [← h]; norm_num [Net.Z]

theorem nv_cauerII_realises_ratfun : ∃ net : Net ℚ,
    cauerII true true [(0, 0), (3/2, 1), (4/5, 0), (25/2, 1), (1/5, 0)] = some (some net) ∧
    net.Z 2 = Poly.eval Nz 2 / Poly.eval Dz 2 := by
  obtain ⟨net, hc, hz⟩ := netII_exists
  exact ⟨net, hc, cauerII_realises_ratfun Nz Dz _ net 2 (by norm_num) csi_Z (by decide) (by decide +kernel) hc ladderII_Z hz⟩

theorem nv_cauerII_realises : ∃ net : Net ℚ,
    cauerII true true [(0, 0), (3/2, 1), (4/5, 0), (25/2, 1), (1/5, 0)] = some (some net) ∧
    1 / net.Z 2 = cfVal true 2 [(0, 0), (3/2, 1), (4/5, 0), (25/2, 1), (1/5, 0)] := by
  obtain ⟨net, hc, hz⟩ := netII_exists
  exact ⟨net, hc, cauerII_realises 2 _ net hc ladderII_Z hz⟩

def nv_cfi_value := cfi_value Dz Nz _ 2 (by norm_num) csi_Z (by decide) (by decide +kernel)

def nv_cfi_terminates := cfi_terminates 13 Dz Nz (by decide +kernel) (by decide +kernel) (by decide +kernel)

def nv_cauerI_rejects := cauerI_rejects (3 : ℚ) 2 (by decide) (by norm_num) [(1, 1)] true

/-- 3/s + 5 + 2s -/
def dRLC : Coll ℚ := ⟨some 5, some 2, some 3, false⟩

theorem dRLC_nonzero : dRLC.EntriesNonzero := by
  refine ⟨fun v h => ?_, fun v h => ?_, fun v h => ?_⟩ <;>
  · simp only [dRLC, Option.some.injEq] at h; subst h; norm_num

def nv_series_forms_realise :=
  series_forms_realise dRLC 2 _ (by norm_num) (Or.inr (Or.inr (Or.inr (Or.inr (rfl : seriesRLC dRLC = some (some _))))))
    dRLC_nonzero

theorem nv_parallel_forms_realise : ∃ net : Net ℚ, parallelRLC dRLC = some (some net) ∧ 1 / net.Z 2 = dRLC.value 2 := by
  refine ⟨_, rfl, parallel_forms_realise dRLC 2 _ (by norm_num) ?_ (Or.inr (Or.inr (Or.inr (Or.inr rfl)))) dRLC_nonzero⟩
  norm_num [Net.Z, dRLC]

def nv_reject_otherwise := reject_otherwise (⟨some 1, none, none, true⟩ : Coll ℚ) rfl
def nv_reject_missing_element := reject_missing_element dRLC

def nv_serAll_Z :=
  serAll_Z [Net.R (1 : ℚ), .par (.R 3) (.C (1/3)), .L 2] _ 2 rfl
def nv_parAll_Y :=
  parAll_Y [Net.R (1 : ℚ), .ser (.R 3) (.C (1/3)), .L 2] _ 2 rfl

/-- Z = 1 + (3/2)/s + (1/2)/(s + 2): quotient 1, residues 3/2 at 0 and 1/2 at -2 -/
theorem nv_fosterI_realises_terms : ∃ net : Net ℚ,
    serAll [Net.R (1 : ℚ), .C (2/3), .par (.R (1/4)) (.C 2)] = some net ∧ net.Z 2 = Poly.eval Nz 2 / Poly.eval Dz 2 := by
  refine ⟨_, rfl, fosterI_realises_terms Nz Dz [1] [(0, 1), (-2, 1)] [(3/2, 0, 1), (1/2, -2, 1)]
    [.C (2/3), .par (.R (1/4)) (.C 2)] (.R 1) _ 2 (by decide +kernel) (by decide +kernel) ?_ ?_ rfl⟩
  · norm_num [Net.Z, Poly.eval]
  · norm_num [Net.Z]

/-! ## Props/C19Forms.lean -/

theorem pf_Z : pfData Nz Dz [(0, 1), (-2, 1)] = some ([1, 0, 0], [(3/2, 0, 1), (1/2, -2, 1)]) := by decide +kernel

def nv_partfrac_from_roots := partfrac_from_roots Nz Dz _ _ _ 2 pf_Z (by decide +kernel)

def nv_combine_preserves :=
  combine_preserves noConj [((3/2 : ℚ), (0 : ℚ), 1), (1/2, -2, 1)] 2 (by
    intro t ht; simp only [List.mem_cons, List.mem_nil_iff, or_false] at ht; rcases ht with rfl | rfl <;> norm_num)

theorem nv_fosterI_realises_ratfun : ∃ net : Net ℚ, fosterI noConj Nz Dz [(0, 1), (-2, 1)] = .ok net ∧
    net.Z 2 = Poly.eval Nz 2 / Poly.eval Dz 2 := by
  obtain ⟨net, h⟩ := FRes.exists_ok (r := fosterI noConj Nz Dz [(0, 1), (-2, 1)]) (by decide +kernel)
  exact ⟨net, h, fosterI_realises_ratfun noConj Nz Dz _ net 2 h (by norm_num) (by decide +kernel)⟩

theorem nv_fosterII_realises_ratfun : ∃ net : Net ℚ, fosterII noConj Nz Dz [(-1, 1), (-3, 1)] = .ok net ∧
    net.Z 2 = Poly.eval Nz 2 / Poly.eval Dz 2 := by
  obtain ⟨net, h⟩ := FRes.exists_ok (r := fosterII noConj Nz Dz [(-1, 1), (-3, 1)]) (by decide +kernel)
  exact ⟨net, h, fosterII_realises_ratfun noConj Nz Dz _ net 2 h (by norm_num) (by decide +kernel) (by decide +kernel)⟩

def nv_fosterI_accepts_iff := fosterI_accepts_iff noConj Nz Dz [(0, 1), (-2, 1)]

/-- (3 + 5s + 2s²)/s = 3/s + 5 + 2s -/
def Np : List ℚ := [3, 5, 2]
def Dp : List ℚ := [0, 1]

theorem shape_p : IsShape Np Dp 3 5 2 := by
  intro x; simp [Np, Dp, Poly.eval]; ring

def nv_coll_sound := coll_sound Np Dp (by decide +kernel) (by decide +kernel)
def nv_coll_complete := coll_complete Np Dp 3 5 2 (by decide +kernel) shape_p
def nv_accepts_iff := accepts_iff Np Dp (by decide +kernel)
def nv_accepts_iff_parallel := accepts_iff_parallel Dp Np (by decide +kernel)

theorem nv_pattern_realises_ratfun : ∃ net : Net ℚ, seriesForm seriesRLC false Np Dp = some (some net) ∧
    net.Z 2 = Poly.eval Np 2 / Poly.eval Dp 2 := by
  have hsome : ((seriesForm seriesRLC false Np Dp).bind id).isSome = true := by decide +kernel
  cases h : seriesForm seriesRLC false Np Dp with
  | none => rw [h] at hsome; simp at hsome
  | some o =>
    cases o with
    | none => rw [h] at hsome; simp at hsome
    | some net =>
      exact ⟨net, rfl, pattern_realises_ratfun .seriesRLC _ rfl Np Dp net 2 h (by norm_num) (by decide +kernel) (by decide +kernel)⟩

theorem nv_rlc_realises_ratfun : ∃ net : Net ℚ, rlcForm Np Dp = some (some net) ∧
    net.Z 2 = Poly.eval Np 2 / Poly.eval Dp 2 := by
  have hsome : ((rlcForm Np Dp).bind id).isSome = true := by decide +kernel
  cases h : rlcForm Np Dp with
  | none => rw [h] at hsome; simp at hsome
  | some o =>
    cases o with
    | none => rw [h] at hsome; simp at hsome
    | some net => exact ⟨net, rfl, rlc_realises_ratfun Np Dp net 2 h (by norm_num) (by decide +kernel) (by decide +kernel)⟩

/-- Z itself (two finite poles) has no shape cm/s + c0 + cp s: the series patterns raise -/
theorem nv_pattern_rejects : seriesRL (collOf Nz Dz) = none ∧ seriesRLC (collOf Nz Dz) = none := by
  have h := pattern_rejects Nz Dz (by decide +kernel) (by
    rintro ⟨cm, c0, cp, h⟩
    have h1 := h 1; have h2 := h (-1); have h3 := h 2; have h4 := h (-3)
    norm_num [Nz, Dz, Poly.eval] at h1 h2 h3 h4
    linarith)
  exact ⟨h.1, h.2.2.2.2⟩

def nv_network_not_impedance := network_not_impedance noConj .admittance "cauerI" Nz Dz [] [] (by decide)
def nv_network_unknown_form := network_unknown_form noConj "cauerIII" Nz Dz [] [] (by decide)

theorem csN_Z : cfCoeffs Nz Dz = .ok [(1, 0), (1/2, 1), (4, 0), (1/6, 1)] := by decide +kernel

def nv_cfCoeffs_value := cfCoeffs_value Nz Dz _ env2 csN_Z (by decide +kernel)

theorem side_cauerI : CauerSide "cauerI" Nz Dz 2 := by
  refine ⟨by decide +kernel, ?_⟩
  intro cs hcs
  rw [csN_Z] at hcs
  cases hcs
  exact ladder_Z

theorem side_cauerII : CauerSide "cauerII" Nz Dz 2 := by
  refine ⟨by decide, by decide +kernel, ?_⟩
  intro cs hcs
  rw [csi_Z] at hcs
  cases hcs
  exact ladderII_Z

theorem nv_network_realises_cauerI : ∃ net : Net ℚ, network noConj .impedance "cauerI" Nz Dz [] [] = .ok net ∧
    net.Z 2 = Poly.eval Nz 2 / Poly.eval Dz 2 := by
  obtain ⟨net, h⟩ := NRes.exists_ok (r := network noConj .impedance "cauerI" Nz Dz [] []) (by decide +kernel)
  exact ⟨net, h, network_realises noConj .impedance "cauerI" Nz Dz [] [] net 2 h (by norm_num) (by decide +kernel)
    (by decide +kernel) side_cauerI⟩

theorem nv_network_realises_cauerII : ∃ net : Net ℚ, network noConj .impedance "cauerII" Nz Dz [] [] = .ok net ∧
    net.Z 2 = Poly.eval Nz 2 / Poly.eval Dz 2 := by
  obtain ⟨net, h⟩ := NRes.exists_ok (r := network noConj .impedance "cauerII" Nz Dz [] []) (by decide +kernel)
  exact ⟨net, h, network_realises noConj .impedance "cauerII" Nz Dz [] [] net 2 h (by norm_num) (by decide +kernel)
    (by decide +kernel) side_cauerII⟩

theorem nv_network_realises_fosterII : ∃ net : Net ℚ,
    network noConj .impedance "fosterII" Nz Dz [(0, 1), (-2, 1)] [(-1, 1), (-3, 1)] = .ok net ∧
    net.Z 2 = Poly.eval Nz 2 / Poly.eval Dz 2 := by
  obtain ⟨net, h⟩ := NRes.exists_ok
    (r := network noConj .impedance "fosterII" Nz Dz [(0, 1), (-2, 1)] [(-1, 1), (-3, 1)]) (by decide +kernel)
  exact ⟨net, h, network_realises noConj .impedance "fosterII" Nz Dz _ _ net 2 h (by norm_num) (by decide +kernel)
    (by decide +kernel) trivial⟩

/-- R 2 in series with (R 3 ∥ C 1/3): Z = (5 + 2s)/(1 + s), transformed to Foster I (pole at -1) -/
def netT : Net ℚ := .ser (.R 2) (.par (.R 3) (.C (1 / 3)))

theorem nv_transform_preserves_Z : ∃ net' : Net ℚ, transform noConj "fosterI" netT [(-1, 1)] [] = .ok net' ∧
    net'.Z 2 = netT.Z 2 := by
  obtain ⟨net', h⟩ := NRes.exists_ok (r := transform noConj "fosterI" netT [(-1, 1)] []) (by decide +kernel)
  refine ⟨net', h, transform_preserves_Z noConj "fosterI" netT net' _ _ 2 h (by norm_num) ?_ ?_ trivial⟩
  · simp [netT, Net.DefinedAt, Net.Z]; norm_num
  · norm_num [netT, Net.Z]

end Lcapy.NonVacuity.C19
