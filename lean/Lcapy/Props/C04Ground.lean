/-
  PROPERTY C04, clause "driving-point impedance, admittance and transfer functions … do not depend on which
  terminal is grounded" (`ground_independent`).

  Re-grounding a netlist at node `g` = the node renaming that exchanges `g` and `0` (`reground`, Model/PortOps.lean;
  in Lcapy: a netlist without a node `0`, to which `_add_ground(Nm)` adds `W Nm 0`).  For every netlist of any size
  whose components are `GroundFree` (every component kind of Spec/Laws.lean except the three that are DEFINED
  with respect to ground: the common-mode gain of a VCVS, `TR`, `SP`), in every analysis kind:

      x obeys the laws of the netlist   ⇔   x shifted by −x(g) obeys the laws of the re-grounded netlist

  (`reground_laws_iff`), because every component law and `outflow` read node voltages only through differences and
  because KCL at all nodes but one implies KCL at the remaining node (`kcl_remaining_node`).  Hence every quantity
  measured as a voltage difference or a branch current in a probe experiment — impedance, admittance, transfer,
  voltage_gain, transimpedance, current_gain, transadmittance — has the same value whichever node is ground.
-/
import Lcapy.Proofs.Ground
import Lcapy.Props.C01
namespace Lcapy.C04
open Lcapy.MNA Ix
variable {K : Type} [Field K]
set_option linter.unusedSimpArgs false
set_option linter.unusedSectionVars false

/-! ### `Laws` does not look at the value stored for the ground node -/

theorem volt_congr (x y : Ix → K) (h : ∀ i, i ≠ node 0 → x i = y i) (n : Nat) : volt x n = volt y n := by
  cases n with
  | zero => rfl
  | succ k => exact h _ (by simp)

theorem laws_congr (kind : Kind) (s : K) (cs : List (Cpt K)) (x y : Ix → K)
    (h : ∀ i, i ≠ node 0 → x i = y i) : Laws kind s cs x → Laws kind s cs y := by
  have hv := volt_congr x y h
  have hb : ∀ m, x (br m) = y (br m) := fun m => h _ (by simp)
  have hmd : ∀ coup : List (Nat × K × Option K), mutualDrop s x coup = mutualDrop s y coup := by
    intro coup; simp [mutualDrop, hb]
  have ho : ∀ k c, outflow kind s x k c = outflow kind s y k c := by
    intro k c; cases c <;> simp [outflow, vd, hv, hb]
  have hl : ∀ c, laws kind s x c = laws kind s y c := by
    intro c; cases c <;> (try cases kind) <;> simp [laws, vd, hv, hb, hmd]
  rintro ⟨hk, hlw⟩
  refine ⟨fun k hk0 => ?_, fun c hc p hp => ?_⟩
  · rw [← hk k hk0]; congr 1; apply List.map_congr_left; intro c _; exact (ho k c).symm
  · rw [← hl c] at hp; exact hlw c hc p hp

/-! ### the renaming is an involution and commutes with killing and probing -/

theorem mapNodes_swap0_swap0 (g : Nat) (c : Cpt K) : (c.mapNodes (swap0 g)).mapNodes (swap0 g) = c := by
  cases c <;> simp [Cpt.mapNodes]

theorem reground_reground (g : Nat) (cs : List (Cpt K)) : reground g (reground g cs) = cs := by
  simp [reground, List.map_map, Function.comp_def, mapNodes_swap0_swap0]

theorem groundFree_mapNodes (ρ : Nat → Nat) (c : Cpt K) (h : c.GroundFree) : (c.mapNodes ρ).GroundFree := by
  cases c <;> simp_all [Cpt.GroundFree, Cpt.mapNodes]

theorem groundFree_reground (g : Nat) (cs : List (Cpt K)) (h : ∀ c ∈ cs, c.GroundFree) :
    ∀ c ∈ reground g cs, c.GroundFree := by
  intro c hc
  obtain ⟨c0, hc0, rfl⟩ := List.mem_map.mp hc
  exact groundFree_mapNodes _ c0 (h c0 hc0)

theorem regroundSol_regroundSol (g : Nat) (x : Ix → K) :
    ∀ i, i ≠ node 0 → regroundSol g (regroundSol g x) i = x i := by
  intro i hi
  cases i with
  | br m => rfl
  | node k =>
    have hk : k ≠ 0 := fun h => hi (by rw [h])
    show volt (regroundSol g x) (swap0 g k) - volt (regroundSol g x) g = x (node k)
    have h1 : volt (regroundSol g x) (swap0 g k) = volt x k - volt x g := volt_regroundSol g x k
    have h3 : volt (regroundSol g x) g = volt x 0 - volt x g := by
      have := volt_regroundSol g x 0; simpa using this
    rw [h1, h3]
    cases k with
    | zero => exact absurd rfl hk
    | succ k => simp [volt]

/-- **reground_laws**: a solution of the netlist, shifted by −x(g), is a solution of the netlist re-grounded at `g`. -/
theorem reground_laws (kind : Kind) (s : K) (g : Nat) (cs : List (Cpt K)) (x : Ix → K)
    (hgf : ∀ c ∈ cs, c.GroundFree) (h : Laws kind s cs x) :
    Laws kind s (reground g cs) (regroundSol g x) := by
  obtain ⟨hk, hl⟩ := h
  -- KCL holds at EVERY node of the original, the ground node included
  have hall : ∀ k, lsum (cs.map (outflow kind s x k)) = 0 := by
    intro k
    by_cases hk0 : k = 0
    · subst hk0; exact kcl_remaining_node kind s cs x 0 hk
    · exact hk k hk0
  refine ⟨fun k _ => ?_, fun c hc p hp => ?_⟩
  · rw [← hall (swap0 g k)]
    simp only [reground, List.map_map]
    congr 1
    apply List.map_congr_left
    intro c hc
    have := outflow_reground kind s g x (swap0 g k) c (hgf c hc)
    simpa using this
  · obtain ⟨c0, hc0, rfl⟩ := List.mem_map.mp hc
    rw [laws_reground kind s g x c0 (hgf c0 hc0)] at hp
    exact hl c0 hc0 p hp

/-- **reground_laws_iff** (`ground_independent`, solution level): for a netlist of ground-free components,
    `x` obeys Kirchhoff's laws and every component relation with node 0 as the reference  iff  `x` shifted by −x(g)
    obeys them with node `g` as the reference.  Any netlist size, any analysis kind, any point s. -/
theorem reground_laws_iff (kind : Kind) (s : K) (g : Nat) (cs : List (Cpt K)) (x : Ix → K)
    (hgf : ∀ c ∈ cs, c.GroundFree) :
    Laws kind s cs x ↔ Laws kind s (reground g cs) (regroundSol g x) := by
  refine ⟨reground_laws kind s g cs x hgf, fun h => ?_⟩
  have := reground_laws kind s g (reground g cs) (regroundSol g x) (groundFree_reground g cs hgf) h
  rw [reground_reground] at this
  exact laws_congr kind s cs _ x (regroundSol_regroundSol g x) this

/-- voltage differences between (renamed) nodes and all branch currents are the same in the two solutions -/
theorem reground_observables (g : Nat) (x : Ix → K) :
    (∀ a b, vd (regroundSol g x) (swap0 g a) (swap0 g b) = vd x a b) ∧ (∀ m, regroundSol g x (br m) = x (br m)) :=
  ⟨fun a b => vd_regroundSol g x a b, fun _ => rfl⟩

/-! ### measured quantities -/

/-- `q` is the value of the experiment: the probed circuit has a solution and every solution reads `q`
    (no appeal to the totalised inverse of a singular matrix) -/
def Measures (kind : Kind) (s : K) (e : Experiment K) (q : K) : Prop :=
  (∃ x, Laws kind s e.ckt x) ∧ ∀ x, Laws kind s e.ckt x → e.obs.read x = q

theorem read_regroundSol (g : Nat) (x : Ix → K) (o : Obs) :
    (o.mapNodes (swap0 g)).read (regroundSol g x) = o.read x := by
  cases o <;> simp [Obs.mapNodes, Obs.read]

theorem obs_mapNodes_swap0_swap0 (g : Nat) (o : Obs) : (o.mapNodes (swap0 g)).mapNodes (swap0 g) = o := by
  cases o <;> simp [Obs.mapNodes]

/-- **measure_ground_independent**: whatever a probe experiment on a ground-free netlist measures (a voltage
    difference or a branch current), the same experiment on the netlist re-grounded at ANY node `g` measures the same
    value. -/
theorem measure_ground_independent (kind : Kind) (s : K) (g : Nat) (e : Experiment K) (q : K)
    (hgf : ∀ c ∈ e.ckt, c.GroundFree) :
    Measures kind s e q ↔ Measures kind s (e.reground g) q := by
  constructor
  · rintro ⟨⟨x, hx⟩, hall⟩
    refine ⟨⟨regroundSol g x, reground_laws kind s g e.ckt x hgf hx⟩, fun y hy => ?_⟩
    have hy' := reground_laws kind s g _ y (groundFree_reground g e.ckt hgf) hy
    simp only [Experiment.reground, reground_reground] at hy'
    have := hall _ hy'
    rw [← this]
    show (e.obs.mapNodes (swap0 g)).read y = e.obs.read (regroundSol g y)
    rw [← read_regroundSol g y (e.obs.mapNodes (swap0 g)), obs_mapNodes_swap0_swap0]
  · rintro ⟨⟨y, hy⟩, hall⟩
    have hy' := reground_laws kind s g _ y (groundFree_reground g e.ckt hgf) hy
    simp only [Experiment.reground, reground_reground] at hy'
    refine ⟨⟨_, hy'⟩, fun x hx => ?_⟩
    have := hall _ (reground_laws kind s g e.ckt x hgf hx)
    rw [← this]
    exact (read_regroundSol g x e.obs).symm

/-! ### the seven quantities of netlistopsmixin.py -/

theorem mapSrc_mapNodes (f : K → K) (ρ : Nat → Nat) (c : Cpt K) :
    (c.mapSrc f).mapNodes ρ = (c.mapNodes ρ).mapSrc f := by
  cases c <;> simp [Cpt.mapSrc, Cpt.mapNodes]

theorem reground_killAll (g : Nat) (cs : List (Cpt K)) : reground g (killAll cs) = killAll (reground g cs) := by
  simp [reground, killAll, List.map_map, Function.comp_def, mapSrc_mapNodes]

theorem reground_append (g : Nat) (a b : List (Cpt K)) : reground g (a ++ b) = reground g a ++ reground g b := by
  simp [reground]

theorem swap0_beq (g a b : Nat) : (swap0 g a == swap0 g b) = (a == b) := by
  by_cases h : a = b
  · subst h; simp
  · have : swap0 g a ≠ swap0 g b := fun e => h ((swap0_inj g a b).mp e)
    simp [h, this]

theorem isVAcross_swap0 (g p m : Nat) (c : Cpt K) :
    (c.mapNodes (swap0 g)).isVAcross (swap0 g p) (swap0 g m) = c.isVAcross p m := by
  cases c <;> simp [Cpt.mapNodes, Cpt.isVAcross, swap0_beq]

theorem reground_filter_across (g p m : Nat) (cs : List (Cpt K)) :
    reground g (cs.filter (fun c => !c.isVAcross p m)) =
      (reground g cs).filter (fun c => !c.isVAcross (swap0 g p) (swap0 g m)) := by
  simp only [reground, List.filter_map]
  congr 1
  apply List.filter_congr
  intro c _
  simp [Function.comp, isVAcross_swap0]

theorem groundFree_killAll (cs : List (Cpt K)) (h : ∀ c ∈ cs, c.GroundFree) : ∀ c ∈ killAll cs, c.GroundFree := by
  intro c hc
  obtain ⟨c0, hc0, rfl⟩ := List.mem_map.mp hc
  have := h c0 hc0
  cases c0 <;> simp_all [Cpt.GroundFree, Cpt.mapSrc]

theorem groundFree_filter (cs : List (Cpt K)) (P : Cpt K → Bool) (h : ∀ c ∈ cs, c.GroundFree) :
    ∀ c ∈ cs.filter P, c.GroundFree := fun c hc => h c (List.mem_filter.mp hc).1

theorem groundFree_append (a b : List (Cpt K)) (ha : ∀ c ∈ a, c.GroundFree) (hb : ∀ c ∈ b, c.GroundFree) :
    ∀ c ∈ a ++ b, c.GroundFree := by
  intro c hc
  rcases List.mem_append.mp hc with h | h
  · exact ha c h
  · exact hb c h

/-- **impedance_ground_independent**: the driving-point impedance between `p` and `m` (sources and initial
    conditions killed, 1 A test source) is the same with node `g` as the reference node. -/
theorem impedance_ground_independent (kind : Kind) (s : K) (g : Nat) (cs : List (Cpt K)) (p m : Nat) (Z : K)
    (hgf : ∀ c ∈ cs, c.GroundFree) :
    Measures kind s (impedanceExp cs p m) Z ↔
      Measures kind s (impedanceExp (reground g cs) (swap0 g p) (swap0 g m)) Z := by
  rw [measure_ground_independent kind s g _ Z
    (groundFree_append _ _ (groundFree_killAll cs hgf) (by simp [Cpt.GroundFree]))]
  simp only [Experiment.reground, impedanceExp, zProbe, reground_append, reground_killAll, Obs.mapNodes]
  simp [reground, Cpt.mapNodes]

/-- **admittance_ground_independent** (1 V test source on the fresh branch `b`, current delivered by it). -/
theorem admittance_ground_independent (kind : Kind) (s : K) (g : Nat) (cs : List (Cpt K)) (p m b : Nat) (Y : K)
    (hgf : ∀ c ∈ cs, c.GroundFree) :
    Measures kind s (admittanceExp cs p m b) Y ↔
      Measures kind s (admittanceExp (reground g cs) (swap0 g p) (swap0 g m) b) Y := by
  rw [measure_ground_independent kind s g _ Y
    (groundFree_append _ _ (groundFree_killAll cs hgf) (by simp [Cpt.GroundFree]))]
  simp only [Experiment.reground, admittanceExp, reground_append, reground_killAll, Obs.mapNodes]
  simp [reground, Cpt.mapNodes]

/-- **transfer_ground_independent** (`transfer` and `voltage_gain`: V(p2) − V(m2) for a 1 V test source across
    (p1, m1), voltage sources across the input pair removed, the rest killed). -/
theorem transfer_ground_independent (kind : Kind) (s : K) (g : Nat) (cs : List (Cpt K)) (p1 m1 p2 m2 b : Nat) (H : K)
    (hgf : ∀ c ∈ cs, c.GroundFree) :
    Measures kind s (transferExp cs p1 m1 p2 m2 b) H ↔
      Measures kind s (transferExp (reground g cs) (swap0 g p1) (swap0 g m1) (swap0 g p2) (swap0 g m2) b) H := by
  rw [measure_ground_independent kind s g _ H
    (groundFree_append _ _ (groundFree_killAll _ (groundFree_filter cs _ hgf)) (by simp [Cpt.GroundFree]))]
  simp only [Experiment.reground, transferExp, vProbe, reground_append, reground_killAll, reground_filter_across,
    Obs.mapNodes]
  simp [reground, Cpt.mapNodes]

/-- **transimpedance_ground_independent** -/
theorem transimpedance_ground_independent (kind : Kind) (s : K) (g : Nat) (cs : List (Cpt K)) (p1 m1 p2 m2 : Nat) (H : K)
    (hgf : ∀ c ∈ cs, c.GroundFree) :
    Measures kind s (transimpedanceExp cs p1 m1 p2 m2) H ↔
      Measures kind s (transimpedanceExp (reground g cs) (swap0 g p1) (swap0 g m1) (swap0 g p2) (swap0 g m2)) H := by
  rw [measure_ground_independent kind s g _ H
    (groundFree_append _ _ (groundFree_killAll cs hgf) (by simp [Cpt.GroundFree]))]
  simp only [Experiment.reground, transimpedanceExp, zProbe, reground_append, reground_killAll, Obs.mapNodes]
  simp [reground, Cpt.mapNodes]

/-- **current_gain_ground_independent** (short-circuit current at port 2 through `Vshort_` on the fresh branch `bs`). -/
theorem current_gain_ground_independent (kind : Kind) (s : K) (g : Nat) (cs : List (Cpt K)) (p1 m1 p2 m2 bs : Nat) (H : K)
    (hgf : ∀ c ∈ cs, c.GroundFree) :
    Measures kind s (currentGainExp cs p1 m1 p2 m2 bs) H ↔
      Measures kind s (currentGainExp (reground g cs) (swap0 g p1) (swap0 g m1) (swap0 g p2) (swap0 g m2) bs) H := by
  rw [measure_ground_independent kind s g _ H
    (groundFree_append _ _ (groundFree_append _ _ (groundFree_killAll cs hgf) (by simp [Cpt.GroundFree]))
      (by simp [Cpt.GroundFree]))]
  simp only [Experiment.reground, currentGainExp, zProbe, reground_append, reground_killAll, Obs.mapNodes]
  simp [reground, Cpt.mapNodes]

/-- **transadmittance_ground_independent** -/
theorem transadmittance_ground_independent (kind : Kind) (s : K) (g : Nat) (cs : List (Cpt K))
    (p1 m1 p2 m2 b bs : Nat) (H : K) (hgf : ∀ c ∈ cs, c.GroundFree) :
    Measures kind s (transadmittanceExp cs p1 m1 p2 m2 b bs) H ↔
      Measures kind s
        (transadmittanceExp (reground g cs) (swap0 g p1) (swap0 g m1) (swap0 g p2) (swap0 g m2) b bs) H := by
  rw [measure_ground_independent kind s g _ H
    (groundFree_append _ _
      (groundFree_append _ _ (groundFree_killAll _ (groundFree_filter cs _ hgf)) (by simp [Cpt.GroundFree]))
      (by simp [Cpt.GroundFree]))]
  simp only [Experiment.reground, transadmittanceExp, vProbe, reground_append, reground_killAll,
    reground_filter_across, Obs.mapNodes]
  simp [reground, Cpt.mapNodes]

/-! ### the guard is necessary, and the theorem is not vacuous -/

/-- a block defined with respect to ground is NOT ground independent: `TR 1 2` (V(2) = 3·V(1)) driven by 1 V at
    node 1 gives V(2) = 3; re-grounded at node 1 the same netlist forces V(old ground) = … a different circuit. -/
example : ¬ (Cpt.TR 1 2 0 (3 : ℚ)).GroundFree := by simp [Cpt.GroundFree]

/-- non-vacuity: a divider `V1 1 0 6; R1 1 2 1; R2 2 0 2` solved with node 0 as reference (V(1) = 6, V(2) = 4,
    J = −2) and, by the theorem, with node 2 as reference (V(1) = 2, V(old ground) = −4). -/
def exDivider : List (Cpt ℚ) := [.V 1 0 0 6, .R 1 2 1, .R 2 0 2]

def exDividerSol : Ix → ℚ := fun i => match i with | node 1 => 6 | node 2 => 4 | br 0 => -2 | _ => 0

example : Laws .dc 0 exDivider exDividerSol := by
  constructor
  · intro k hk
    match k with
    | 0 => exact absurd rfl hk
    | 1 => norm_num [exDivider, exDividerSol, outflow, twoTerm, lsum, vd, volt]
    | 2 => norm_num [exDivider, exDividerSol, outflow, twoTerm, lsum, vd, volt]
    | (k + 3) => simp [exDivider, outflow, twoTerm, lsum]
  · intro c hc p hp
    simp only [exDivider, List.mem_cons, List.mem_nil_iff, or_false] at hc
    rcases hc with rfl | rfl | rfl <;>
      simp only [laws, List.mem_cons, List.mem_nil_iff, or_false] at hp <;>
      (try subst hp) <;> norm_num [vd, volt, exDividerSol] <;> simp_all

example : (∀ c ∈ exDivider, c.GroundFree) := by simp [exDivider, Cpt.GroundFree]

example : regroundSol 2 exDividerSol (node 1) = 2 ∧ regroundSol 2 exDividerSol (node 2) = -4 := by
  norm_num [regroundSol, swap0, volt, exDividerSol]

end Lcapy.C04
