/-
  PROPERTY C04, clause "driving-point impedance, admittance and transfer functions … do not depend on which
  terminal is grounded" (`ground_independent`).

  Re-grounding a netlist at node `g` = the node renaming that exchanges `g` and `0` (`reground`, Model/PortOps.lean;
  in Lcapy: a netlist without a node `0`, to which `_add_ground(Nm)` adds `W Nm 0`).  For every netlist of any size
  whose components are `GroundFree` (every component kind of Spec/Laws.lean except the three that are DEFINED
  with respect to ground: the common-mode gain of a VCVS, `TR`, `SP`), in every analysis kind:

      x obeys the laws of the netlist   ⇔   x shifted by −x(g) obeys the laws of the re-grounded netlist

  (`reground_laws_iff`), because every component law and `outflow` read node voltages only through differences and
  because KCL at all nodes but one implies KCL at the remaining node (`kcl_remaining_node`).  Hence every quantity
  measured as a voltage difference or a branch current in a probe experiment — impedance, admittance, transfer,
  voltage_gain, transimpedance, current_gain, transadmittance — has the same value whichever node is ground.
-/
import Lcapy.Proofs.Ground
import Lcapy.Props.C01
import Mathlib.Tactic.Linarith
namespace Lcapy.C04
open Lcapy.MNA Ix
variable {K : Type} [Field K]
set_option linter.unusedSimpArgs false
set_option linter.unusedSectionVars false

/-! ### solutions (helper lemmas: Proofs/Ground.lean) -/

/-- **reground_laws**: a solution of the netlist, shifted by −x(g), is a solution of the netlist re-grounded at `g`. -/
theorem reground_laws (kind : Kind) (s : K) (g : Nat) (cs : List (Cpt K)) (x : Ix → K)
    (hgf : ∀ c ∈ cs, c.GroundFree) (h : Laws kind s cs x) :
    Laws kind s (reground g cs) (regroundSol g x) := by
  obtain ⟨hk, hl⟩ := h
  -- KCL holds at EVERY node of the original, the ground node included
  have hall : ∀ k, lsum (cs.map (outflow kind s x k)) = 0 := by
    intro k
    by_cases hk0 : k = 0
    · subst hk0; exact kcl_remaining_node kind s cs x 0 hk
    · exact hk k hk0
  refine ⟨fun k _ => ?_, fun c hc p hp => ?_⟩
  · rw [← hall (swap0 g k)]
    simp only [reground, List.map_map]
    congr 1
    apply List.map_congr_left
    intro c hc
    have := outflow_reground kind s g x (swap0 g k) c (hgf c hc)
    simpa using this
  · obtain ⟨c0, hc0, rfl⟩ := List.mem_map.mp hc
    rw [laws_reground kind s g x c0 (hgf c0 hc0)] at hp
    exact hl c0 hc0 p hp

/-- **reground_laws_iff** (`ground_independent`, solution level): for a netlist of ground-free components,
    `x` obeys Kirchhoff's laws and every component relation with node 0 as the reference  iff  `x` shifted by −x(g)
    obeys them with node `g` as the reference.  Any netlist size, any analysis kind, any point s. -/
theorem reground_laws_iff (kind : Kind) (s : K) (g : Nat) (cs : List (Cpt K)) (x : Ix → K)
    (hgf : ∀ c ∈ cs, c.GroundFree) :
    Laws kind s cs x ↔ Laws kind s (reground g cs) (regroundSol g x) := by
  refine ⟨reground_laws kind s g cs x hgf, fun h => ?_⟩
  have := reground_laws kind s g (reground g cs) (regroundSol g x) (groundFree_reground g cs hgf) h
  rw [reground_reground] at this
  exact laws_congr_ground kind s cs _ x (regroundSol_regroundSol g x) this

/-- voltage differences between (renamed) nodes and all branch currents are the same in the two solutions -/
theorem reground_observables (g : Nat) (x : Ix → K) :
    (∀ a b, vd (regroundSol g x) (swap0 g a) (swap0 g b) = vd x a b) ∧ (∀ m, regroundSol g x (br m) = x (br m)) :=
  ⟨fun a b => vd_regroundSol g x a b, fun _ => rfl⟩

/-! ### measured quantities -/

/-- `q` is the value of the experiment: the probed circuit has a solution and every solution reads `q`
    (no appeal to the totalised inverse of a singular matrix) -/
def Measures (kind : Kind) (s : K) (e : Experiment K) (q : K) : Prop :=
  (∃ x, Laws kind s e.ckt x) ∧ ∀ x, Laws kind s e.ckt x → e.obs.read x = q

/-- **measure_ground_independent**: whatever a probe experiment on a ground-free netlist measures (a voltage
    difference or a branch current), the same experiment on the netlist re-grounded at ANY node `g` measures the same
    value. -/
theorem measure_ground_independent (kind : Kind) (s : K) (g : Nat) (e : Experiment K) (q : K)
    (hgf : ∀ c ∈ e.ckt, c.GroundFree) :
    Measures kind s e q ↔ Measures kind s (e.reground g) q := by
  constructor
  · rintro ⟨⟨x, hx⟩, hall⟩
    refine ⟨⟨regroundSol g x, reground_laws kind s g e.ckt x hgf hx⟩, fun y hy => ?_⟩
    have hy' := reground_laws kind s g _ y (groundFree_reground g e.ckt hgf) hy
    simp only [Experiment.reground, reground_reground] at hy'
    have := hall _ hy'
    rw [← this]
    show (e.obs.mapNodes (swap0 g)).read y = e.obs.read (regroundSol g y)
    rw [← read_regroundSol g y (e.obs.mapNodes (swap0 g)), obs_mapNodes_swap0_swap0]
  · rintro ⟨⟨y, hy⟩, hall⟩
    have hy' := reground_laws kind s g _ y (groundFree_reground g e.ckt hgf) hy
    simp only [Experiment.reground, reground_reground] at hy'
    refine ⟨⟨_, hy'⟩, fun x hx => ?_⟩
    have := hall _ (reground_laws kind s g e.ckt x hgf hx)
    rw [← this]
    exact (read_regroundSol g x e.obs).symm

/-! ### the seven quantities of netlistopsmixin.py -/

/-- **impedance_ground_independent**: the driving-point impedance between `p` and `m` (sources and initial
    conditions killed, 1 A test source) is the same with node `g` as the reference node. -/
theorem impedance_ground_independent (kind : Kind) (s : K) (g : Nat) (cs : List (Cpt K)) (p m : Nat) (Z : K)
    (hgf : ∀ c ∈ cs, c.GroundFree) :
    Measures kind s (impedanceExp cs p m) Z ↔
      Measures kind s (impedanceExp (reground g cs) (swap0 g p) (swap0 g m)) Z := by
  rw [measure_ground_independent kind s g _ Z
    (groundFree_append _ _ (groundFree_killAll cs hgf) (by simp [Cpt.GroundFree]))]
  simp only [Experiment.reground, impedanceExp, zProbe, reground_append, reground_killAll, Obs.mapNodes]
  simp [reground, Cpt.mapNodes]

/-- **admittance_ground_independent** (1 V test source on the fresh branch `b`, current delivered by it). -/
theorem admittance_ground_independent (kind : Kind) (s : K) (g : Nat) (cs : List (Cpt K)) (p m b : Nat) (Y : K)
    (hgf : ∀ c ∈ cs, c.GroundFree) :
    Measures kind s (admittanceExp cs p m b) Y ↔
      Measures kind s (admittanceExp (reground g cs) (swap0 g p) (swap0 g m) b) Y := by
  rw [measure_ground_independent kind s g _ Y
    (groundFree_append _ _ (groundFree_killAll cs hgf) (by simp [Cpt.GroundFree]))]
  simp only [Experiment.reground, admittanceExp, reground_append, reground_killAll, Obs.mapNodes]
  simp [reground, Cpt.mapNodes]

/-- **transfer_ground_independent** (`transfer` and `voltage_gain`: V(p2) − V(m2) for a 1 V test source across
    (p1, m1), voltage sources across the input pair removed, the rest killed). -/
theorem transfer_ground_independent (kind : Kind) (s : K) (g : Nat) (cs : List (Cpt K)) (p1 m1 p2 m2 b : Nat) (H : K)
    (hgf : ∀ c ∈ cs, c.GroundFree) :
    Measures kind s (transferExp cs p1 m1 p2 m2 b) H ↔
      Measures kind s (transferExp (reground g cs) (swap0 g p1) (swap0 g m1) (swap0 g p2) (swap0 g m2) b) H := by
  rw [measure_ground_independent kind s g _ H
    (groundFree_append _ _ (groundFree_killAll _ (groundFree_filter cs _ hgf)) (by simp [Cpt.GroundFree]))]
  simp only [Experiment.reground, transferExp, vProbe, reground_append, reground_killAll, reground_filter_across,
    Obs.mapNodes]
  simp [reground, Cpt.mapNodes]

/-- **transimpedance_ground_independent** -/
theorem transimpedance_ground_independent (kind : Kind) (s : K) (g : Nat) (cs : List (Cpt K)) (p1 m1 p2 m2 : Nat) (H : K)
    (hgf : ∀ c ∈ cs, c.GroundFree) :
    Measures kind s (transimpedanceExp cs p1 m1 p2 m2) H ↔
      Measures kind s (transimpedanceExp (reground g cs) (swap0 g p1) (swap0 g m1) (swap0 g p2) (swap0 g m2)) H := by
  rw [measure_ground_independent kind s g _ H
    (groundFree_append _ _ (groundFree_killAll cs hgf) (by simp [Cpt.GroundFree]))]
  simp only [Experiment.reground, transimpedanceExp, zProbe, reground_append, reground_killAll, Obs.mapNodes]
  simp [reground, Cpt.mapNodes]

/-- **current_gain_ground_independent** (short-circuit current at port 2 through `Vshort_` on the fresh branch `bs`). -/
theorem current_gain_ground_independent (kind : Kind) (s : K) (g : Nat) (cs : List (Cpt K)) (p1 m1 p2 m2 bs : Nat) (H : K)
    (hgf : ∀ c ∈ cs, c.GroundFree) :
    Measures kind s (currentGainExp cs p1 m1 p2 m2 bs) H ↔
      Measures kind s (currentGainExp (reground g cs) (swap0 g p1) (swap0 g m1) (swap0 g p2) (swap0 g m2) bs) H := by
  rw [measure_ground_independent kind s g _ H
    (groundFree_append _ _ (groundFree_append _ _ (groundFree_killAll cs hgf) (by simp [Cpt.GroundFree]))
      (by simp [Cpt.GroundFree]))]
  simp only [Experiment.reground, currentGainExp, zProbe, reground_append, reground_killAll, Obs.mapNodes]
  simp [reground, Cpt.mapNodes]

/-- **transadmittance_ground_independent** -/
theorem transadmittance_ground_independent (kind : Kind) (s : K) (g : Nat) (cs : List (Cpt K))
    (p1 m1 p2 m2 b bs : Nat) (H : K) (hgf : ∀ c ∈ cs, c.GroundFree) :
    Measures kind s (transadmittanceExp cs p1 m1 p2 m2 b bs) H ↔
      Measures kind s
        (transadmittanceExp (reground g cs) (swap0 g p1) (swap0 g m1) (swap0 g p2) (swap0 g m2) b bs) H := by
  rw [measure_ground_independent kind s g _ H
    (groundFree_append _ _
      (groundFree_append _ _ (groundFree_killAll _ (groundFree_filter cs _ hgf)) (by simp [Cpt.GroundFree]))
      (by simp [Cpt.GroundFree]))]
  simp only [Experiment.reground, transadmittanceExp, vProbe, reground_append, reground_killAll,
    reground_filter_across, Obs.mapNodes]
  simp [reground, Cpt.mapNodes]

/-! ### the guard is necessary, and the theorem is not vacuous -/

/-- a block defined with respect to ground is NOT ground independent: `TR 1 2` (V(2) = 3·V(1)) driven by 1 V at
    node 1 gives V(2) = 3; re-grounded at node 1 the same netlist forces V(old ground) = … a different circuit. -/
example : ¬ (Cpt.TR 1 2 0 (3 : ℚ)).GroundFree := by simp [Cpt.GroundFree]

/-- non-vacuity: a divider `V1 1 0 6; R1 1 2 1; R2 2 0 2` solved with node 0 as reference (V(1) = 6, V(2) = 4,
    J = −2) and, by the theorem, with node 2 as reference (V(1) = 2, V(old ground) = −4). -/
def exDivider : List (Cpt ℚ) := [.V 1 0 0 6, .R 1 2 1, .R 2 0 2]

def exDividerSol : Ix → ℚ := fun i => match i with | node 1 => 6 | node 2 => 4 | br 0 => -2 | _ => 0

example : Laws .dc 0 exDivider exDividerSol := by
  constructor
  · intro k hk
    match k with
    | 0 => exact absurd rfl hk
    | 1 => norm_num [exDivider, exDividerSol, outflow, twoTerm, lsum, vd, volt]
    | 2 => norm_num [exDivider, exDividerSol, outflow, twoTerm, lsum, vd, volt]
    | (k + 3) => simp [exDivider, outflow, twoTerm, lsum]
  · intro c hc p hp
    simp only [exDivider, List.mem_cons, List.mem_nil_iff, or_false] at hc
    rcases hc with rfl | rfl | rfl <;>
      simp only [laws, List.mem_cons, List.mem_nil_iff, or_false] at hp <;>
      (try subst hp) <;> norm_num [vd, volt, exDividerSol] <;> simp_all

example : (∀ c ∈ exDivider, c.GroundFree) := by simp [exDivider, Cpt.GroundFree]

example : regroundSol 2 exDividerSol (node 1) = 2 ∧ regroundSol 2 exDividerSol (node 2) = -4 := by
  norm_num [regroundSol, swap0, volt, exDividerSol]

/-- non-vacuity of `Measures`: the driving-point impedance of `R1 1 0 5` is 5 -/
example : Measures .dc (0 : ℚ) (impedanceExp [.R 1 0 5] 1 0) 5 := by
  constructor
  · refine ⟨fun i => match i with | node 1 => 5 | _ => 0, ?_, ?_⟩
    · intro k hk
      match k with
      | 0 => exact absurd rfl hk
      | 1 => norm_num [impedanceExp, zProbe, killAll, Cpt.mapSrc, outflow, twoTerm, lsum, vd, volt]
      | (k + 2) => simp [impedanceExp, zProbe, killAll, Cpt.mapSrc, outflow, twoTerm, lsum]
    · intro c hc p hp
      simp [impedanceExp, zProbe, killAll, Cpt.mapSrc] at hc
      rcases hc with rfl | rfl <;> simp [laws] at hp
  · intro x hx
    have k1 := hx.1 1 (by decide)
    simp [impedanceExp, zProbe, killAll, Cpt.mapSrc, outflow, twoTerm, lsum] at k1
    simp only [impedanceExp, Obs.read]
    linarith

end Lcapy.C04
