/-
  PROPERTY C05 -- behaviour-preserving netlist rewrites leave retained voltages/currents unchanged.

  Circuit-level spec: Lcapy/Spec/PortRel.lean (port relations `TT.rel`, `chainRel`, `groupRel`;
  `Simulates` / `SamePortRelation` stated with `outflow` and `laws` of Spec/Laws.lean).
  Model: Lcapy/Model/Rewrite.lean (`combineVal`, `combineIC`, … mirror `_do_simplify_combine`).

  Part 1  the value / initial-condition / polarity rules: a series chain (parallel group) of like
          elements of ANY length, in either orientation, has the same port relation as ONE element
          with the stated value — proved by induction over the list, for every analysis kind.
          The combined value / initial condition is `combineVal` / `combineSrc` / `combineIC` of the
          model (what the code computes): polarised quantities enter with their sign relative to
          the surviving element, shared quantities are taken once.  `rule_V_unique`,
          `rule_L_ic_unique` show that no other value would do (the plain sums of the original
          code, findings F4 and F5, are refuted by `plain_sum_wrong_*`).
  Part 2  circuit level: replacing a sub-netlist by one with the same port relation preserves
          `Laws` on everything retained (`subcircuit_congruence`), hence — by uniqueness of the MNA
          solution (C01) — every retained voltage and current (`rewrite_preserves_retained`);
          series / parallel / reversed pairs ARE such replacements (`series_pair`, `parallel_pair`,
          `reversed`), and so are removal of a dangling element and an injective node renaming.
  Only property theorems live here; helper lemmas are in Lcapy/Proofs/Rewrite.lean.
-/
import Lcapy.Proofs.Rewrite
import Lcapy.Props.C01
import Mathlib.Tactic.NormNum
namespace Lcapy.C05
open Lcapy.MNA Lcapy.Rewrite Ix
variable {K : Type} [Field K]

/-! ## Part 1 — value, initial-condition and polarity rules -/

theorem combineVal_add (vs : List K) : combineVal true vs = sumK vs := by simp [combineVal, sumVals_eq_sumK]
theorem combineVal_recip (vs : List K) : combineVal false vs = 1 / sumK (vs.map (fun v => 1 / v)) := by
  simp [combineVal, recipSum, sumVals_eq_sumK]

theorem series_chain_R (kind : Kind) (s : K) (rs : List K) (h : ∀ r ∈ rs, r ≠ 0) (hs : combineVal true rs ≠ 0)
    (v i : K) : chainRel kind s (rs.map TT.R) v i ↔ TT.rel kind s (.R (combineVal true rs)) v i := by
  rw [chain_of_thev kind s TT.R id (fun _ => 0) rs (fun r hr => thev_R kind s r (h r hr)),
    thev_R kind s _ hs v i, combineVal_add, sumK_map_zero, List.map_id]

theorem series_chain_Z (kind : Kind) (s : K) (zs : List K) (h : ∀ z ∈ zs, z ≠ 0) (hs : combineVal true zs ≠ 0)
    (v i : K) : chainRel kind s (zs.map TT.Z) v i ↔ TT.rel kind s (.Z (combineVal true zs)) v i := by
  rw [chain_of_thev kind s TT.Z id (fun _ => 0) zs (fun r hr => thev_Z kind s r (h r hr)),
    thev_Z kind s _ hs v i, combineVal_add, sumK_map_zero, List.map_id]

theorem series_chain_Y (kind : Kind) (s : K) (ys : List K) (h : ∀ y ∈ ys, y ≠ 0)
    (hs : sumK (ys.map (fun y => 1 / y)) ≠ 0)
    (v i : K) : chainRel kind s (ys.map TT.Y) v i ↔ TT.rel kind s (.Y (combineVal false ys)) v i := by
  have hc : combineVal false ys ≠ 0 := by rw [combineVal_recip]; exact one_div_ne_zero hs
  rw [chain_of_thev kind s TT.Y (fun y => 1 / y) (fun _ => 0) ys (fun r hr => thev_Y kind s r (h r hr)),
    thev_Y kind s _ hc v i, combineVal_recip, sumK_map_zero, one_div_one_div]

theorem combineSrc_eq (vs : List (Bool × K)) : combineSrc vs = sumK (vs.map (fun p => sgn p.1 p.2)) := by
  simp only [combineSrc, sumVals_eq_sumK, sgn]

/-- series voltage sources add WITH their polarity (`combineSrc` is the code's rule) -/
theorem series_chain_V (kind : Kind) (s : K) (vs : List (Bool × K)) (v i : K) :
    chainRel kind s (vs.map (fun p => (TT.V p.2).orient p.1)) v i ↔
      TT.rel kind s (.V (combineSrc vs)) v i := by
  rw [combineSrc_eq, chain_of_thev kind s (fun p : Bool × K => (TT.V p.2).orient p.1) (fun _ => 0) (fun p => sgn p.1 p.2) vs
    (fun p _ => by
      obtain ⟨σ, e⟩ := p
      cases σ <;> simp only [TT.orient, TT.flip, sgn, if_true, if_false, Bool.false_eq_true] <;> exact thev_V kind s _),
    thev_V kind s _ v i, sumK_map_zero]

/-- series inductors: the members carry one current, so their (signed) initial currents must all
    be that current `I0`, and the combined inductor carries `I0` — not the sum. -/
theorem series_chain_L (kind : Kind) (s : K) (ls : List (Bool × K × Option K)) (I0 : K)
    (hI : ∀ p ∈ ls, sgn p.1 (icv p.2.2) = I0) (v i : K) :
    chainRel kind s (ls.map (fun p => (TT.L p.2.1 p.2.2).orient p.1)) v i ↔
      TT.rel kind s (.L (combineVal true (ls.map (·.2.1))) (some I0)) v i := by
  rw [chain_of_thev kind s (fun p : Bool × K × Option K => (TT.L p.2.1 p.2.2).orient p.1)
    (fun p => (indThev kind s p.2.1 none).1) (fun p => (indThev kind s p.2.1 (some I0)).2) ls
    (fun p hp => by
      have h := thev_L kind s p.2.1 (if p.1 then p.2.2 else p.2.2.map (fun x => -x))
      rw [icv_orient_L]
      have e1 : (indThev kind s p.2.1 (if p.1 then p.2.2 else p.2.2.map (fun x => -x))).1 = (indThev kind s p.2.1 none).1 := by
        cases kind <;> rfl
      have e2 : (indThev kind s p.2.1 (if p.1 then p.2.2 else p.2.2.map (fun x => -x))).2 = (indThev kind s p.2.1 (some I0)).2 := by
        cases kind <;> simp only [indThev]
        rw [icv_signed, hI p hp]; rfl
      rw [e1, e2] at h; exact h),
    thev_L kind s _ (some I0) v i, combineVal_add]
  cases kind
  · simp only [indThev, sumK_map_zero]
  · simp only [indThev, sumK_map_zero, sumK_mul_left]
  · simp only [indThev, sumK_mul_left, sumK_neg, sumK_mul_right, icv]
  · simp only [indThev, sumK_map_zero]

/-- series capacitors (Laplace analysis, with or without initial conditions): the reciprocal
    values add and the signed initial voltages add -/
theorem series_chain_C (kind : Kind) (hk : kind = .lap ∨ kind = .ivp) (s : K) (hs : s ≠ 0)
    (cs : List (Bool × K × Option K)) (hc : ∀ p ∈ cs, p.2.1 ≠ 0)
    (hsum : sumK ((cs.map (·.2.1)).map (fun c => 1 / c)) ≠ 0) (v i : K) :
    chainRel kind s (cs.map (fun p => (TT.C p.2.1 p.2.2).orient p.1)) v i ↔
      TT.rel kind s (.C (combineVal false (cs.map (·.2.1))) (some (sumK (cs.map (fun p => sgn p.1 (icv p.2.2)))))) v i := by
  have hcomb : combineVal false (cs.map (·.2.1)) ≠ 0 := by rw [combineVal_recip]; exact one_div_ne_zero hsum
  rw [chain_of_thev kind s (fun p : Bool × K × Option K => (TT.C p.2.1 p.2.2).orient p.1)
    (fun p => 1 / (s * p.2.1)) (fun p => icTerm kind s (sgn p.1 (icv p.2.2))) cs
    (fun p hp => by
      have h := thev_C kind hk s p.2.1 (if p.1 then p.2.2 else p.2.2.map (fun x => -x)) hs (hc p hp)
      rw [icv_orient_C]
      rw [icv_signed] at h; exact h),
    thev_C kind hk s _ _ hs hcomb v i, combineVal_recip]
  have e1 : sumK (cs.map (fun p => 1 / (s * p.2.1))) = 1 / (s * (1 / sumK ((cs.map (·.2.1)).map (fun c => 1 / c)))) := by
    rw [sumK_map_map]
    have : ∀ p ∈ cs, 1 / (s * p.2.1) = (1 / p.2.1) / s := by intro p _; rw [div_div, mul_comm]
    rw [sumK_congr _ _ cs this, sumK_div_right]
    field_simp
  have e2 : sumK (cs.map (fun p => icTerm kind s (sgn p.1 (icv p.2.2)))) =
      icTerm kind s (icv (some (sumK (cs.map (fun p => sgn p.1 (icv p.2.2)))))) := by
    rcases hk with rfl | rfl
    · simp only [icTerm, sumK_map_zero]
    · simp only [icTerm, icv, sumK_div_right]
  rw [e1, e2]

/-! ### parallel groups -/

theorem parallel_group_R (kind : Kind) (s : K) (rs : List K) (_h : ∀ r ∈ rs, r ≠ 0)
    (_hs : sumK (rs.map (fun r => 1 / r)) ≠ 0) (v i : K) :
    groupRel kind s (rs.map TT.R) v i ↔ TT.rel kind s (.R (combineVal false rs)) v i := by
  rw [group_of_nort kind s TT.R (fun r => 1 / r) (fun _ => 0) rs (fun r _ => nort_R kind s r),
    nort_R kind s _ v i, combineVal_recip, sumK_map_zero, one_div_one_div]

theorem parallel_group_Z (kind : Kind) (s : K) (zs : List K) (_h : ∀ z ∈ zs, z ≠ 0)
    (_hs : sumK (zs.map (fun z => 1 / z)) ≠ 0) (v i : K) :
    groupRel kind s (zs.map TT.Z) v i ↔ TT.rel kind s (.Z (combineVal false zs)) v i := by
  rw [group_of_nort kind s TT.Z (fun r => 1 / r) (fun _ => 0) zs (fun r _ => nort_Z kind s r),
    nort_Z kind s _ v i, combineVal_recip, sumK_map_zero, one_div_one_div]

theorem parallel_group_Y (kind : Kind) (s : K) (ys : List K) (v i : K) :
    groupRel kind s (ys.map TT.Y) v i ↔ TT.rel kind s (.Y (combineVal true ys)) v i := by
  rw [group_of_nort kind s TT.Y id (fun _ => 0) ys (fun r _ => nort_Y kind s r),
    nort_Y kind s _ v i, combineVal_add, sumK_map_zero, List.map_id]

/-- parallel current sources add WITH their polarity -/
theorem parallel_group_I (kind : Kind) (s : K) (js : List (Bool × K)) (v i : K) :
    groupRel kind s (js.map (fun p => (TT.I p.2).orient p.1)) v i ↔
      TT.rel kind s (.I (combineSrc js)) v i := by
  rw [combineSrc_eq, group_of_nort kind s (fun p : Bool × K => (TT.I p.2).orient p.1) (fun _ => 0) (fun p => -sgn p.1 p.2) js
    (fun p _ => by
      obtain ⟨σ, e⟩ := p
      cases σ <;> simp only [TT.orient, TT.flip, sgn, if_true, if_false, Bool.false_eq_true] <;> exact nort_I kind s _),
    nort_I kind s _ v i, sumK_map_zero, sumK_neg]

/-- parallel capacitors: the members share one voltage, so their (signed) initial voltages must
    all be that voltage `V0`, and the combined capacitor carries `V0` — not the sum. -/
theorem parallel_group_C (kind : Kind) (s : K) (cs : List (Bool × K × Option K)) (V0 : K)
    (hV : ∀ p ∈ cs, sgn p.1 (icv p.2.2) = V0) (v i : K) :
    groupRel kind s (cs.map (fun p => (TT.C p.2.1 p.2.2).orient p.1)) v i ↔
      TT.rel kind s (.C (combineVal true (cs.map (·.2.1))) (some V0)) v i := by
  rw [group_of_nort kind s (fun p : Bool × K × Option K => (TT.C p.2.1 p.2.2).orient p.1)
    (fun p => (capNort kind s p.2.1 none).1) (fun p => (capNort kind s p.2.1 (some V0)).2) cs
    (fun p hp => by
      have h := nort_C kind s p.2.1 (if p.1 then p.2.2 else p.2.2.map (fun x => -x))
      rw [icv_orient_C]
      have e1 : (capNort kind s p.2.1 (if p.1 then p.2.2 else p.2.2.map (fun x => -x))).1 = (capNort kind s p.2.1 none).1 := by
        cases kind <;> rfl
      have e2 : (capNort kind s p.2.1 (if p.1 then p.2.2 else p.2.2.map (fun x => -x))).2 = (capNort kind s p.2.1 (some V0)).2 := by
        cases kind <;> simp only [capNort]
        rw [icv_signed, hV p hp]; rfl
      rw [e1, e2] at h; exact h),
    nort_C kind s _ (some V0) v i, combineVal_add]
  cases kind
  · simp only [capNort, sumK_map_zero]
  · simp only [capNort, sumK_map_zero, sumK_mul_left]
  · simp only [capNort, sumK_mul_left, sumK_neg, sumK_mul_right, icv]
  · simp only [capNort, sumK_map_zero]

/-- parallel inductors (Laplace analysis): reciprocal values add, signed initial currents add -/
theorem parallel_group_L (kind : Kind) (hk : kind = .lap ∨ kind = .ivp) (s : K) (hs : s ≠ 0)
    (ls : List (Bool × K × Option K)) (hl : ∀ p ∈ ls, p.2.1 ≠ 0)
    (hsum : sumK ((ls.map (·.2.1)).map (fun l => 1 / l)) ≠ 0) (v i : K) :
    groupRel kind s (ls.map (fun p => (TT.L p.2.1 p.2.2).orient p.1)) v i ↔
      TT.rel kind s (.L (combineVal false (ls.map (·.2.1))) (some (sumK (ls.map (fun p => sgn p.1 (icv p.2.2)))))) v i := by
  have hcomb : combineVal false (ls.map (·.2.1)) ≠ 0 := by rw [combineVal_recip]; exact one_div_ne_zero hsum
  rw [group_of_nort kind s (fun p : Bool × K × Option K => (TT.L p.2.1 p.2.2).orient p.1)
    (fun p => 1 / (s * p.2.1)) (fun p => icTerm kind s (sgn p.1 (icv p.2.2))) ls
    (fun p hp => by
      have h := nort_L kind hk s p.2.1 (if p.1 then p.2.2 else p.2.2.map (fun x => -x)) hs (hl p hp)
      rw [icv_orient_L]
      rw [icv_signed] at h; exact h),
    nort_L kind hk s _ _ hs hcomb v i, combineVal_recip]
  have e1 : sumK (ls.map (fun p => 1 / (s * p.2.1))) = 1 / (s * (1 / sumK ((ls.map (·.2.1)).map (fun c => 1 / c)))) := by
    rw [sumK_map_map]
    have : ∀ p ∈ ls, 1 / (s * p.2.1) = (1 / p.2.1) / s := by intro p _; rw [div_div, mul_comm]
    rw [sumK_congr _ _ ls this, sumK_div_right]
    field_simp
  have e2 : sumK (ls.map (fun p => icTerm kind s (sgn p.1 (icv p.2.2)))) =
      icTerm kind s (icv (some (sumK (ls.map (fun p => sgn p.1 (icv p.2.2)))))) := by
    rcases hk with rfl | rfl
    · simp only [icTerm, sumK_map_zero]
    · simp only [icTerm, icv, sumK_div_right]
  rw [e1, e2]

/-! ### the combined value does not depend on the order in which the set is iterated -/

theorem combine_perm_invariant (add : Bool) {a b : List K} (h : a.Perm b) : combineVal add a = combineVal add b := by
  cases add
  · rw [combineVal_recip, combineVal_recip, sumK_perm (h.map _)]
  · rw [combineVal_add, combineVal_add, sumK_perm h]

/-- … and neither does the combined initial condition: the additive rule is a sum … -/
theorem combineIC_perm_invariant {a b : List (Bool × Option K)} (h : a.Perm b) (x y : Option K) :
    combineIC false x a = combineIC false y b := by
  have hall : a.all (fun p => p.2.isNone) = b.all (fun p => p.2.isNone) := by
    rw [Bool.eq_iff_iff]; simp only [List.all_eq_true]
    exact ⟨fun hh z hz => hh z (h.mem_iff.mpr hz), fun hh z hz => hh z (h.mem_iff.mp hz)⟩
  simp only [combineIC, hall, Bool.false_eq_true, if_false]
  split
  · rfl
  · rw [combineSrc_eq, combineSrc_eq, sumK_perm ((h.filterMap _).map _)]

/-- … and the shared rule returns the surviving element's own initial condition, which
    `checkIC` has verified to be common to all members (`checkIC_sound`) -/
theorem combineIC_shared (first : Option K) (l : List (Bool × Option K)) : combineIC true first l = first := rfl

/-- what `_check_ic` establishes: all members carry the same signed initial condition -/
theorem checkIC_sound [DecidableEq K] (ics : List (Bool × Option K)) (h : checkIC ics = true) :
    ∃ I0 : K, ∀ p ∈ ics, sgn p.1 (icv p.2) = I0 := by
  unfold checkIC at h
  split at h
  · rename_i hn
    refine ⟨0, fun p hp => ?_⟩
    have := List.all_eq_true.mp hn p hp
    cases hp2 : p.2 with
    | none => cases p.1 <;> simp [sgn, icv]
    | some v => simp [hp2] at this
  · split at h
    · rename_i _ hs
      -- every member has a value; the signed values are all equal to the first
      cases ics with
      | nil => exact ⟨0, fun p hp => by cases hp⟩
      | cons q t =>
        have hq := List.all_eq_true.mp hs q List.mem_cons_self
        obtain ⟨σq, oq⟩ := q
        cases oq with
        | none => simp at hq
        | some vq =>
          simp only [List.filterMap_cons, Option.map_some] at h
          refine ⟨sgn σq vq, fun p hp => ?_⟩
          rcases List.mem_cons.mp hp with rfl | hp'
          · simp [icv]
          · have hp2 := List.all_eq_true.mp hs p (List.mem_cons_of_mem _ hp')
            obtain ⟨σp, op⟩ := p
            cases op with
            | none => simp at hp2
            | some vp =>
              have hmem : (if σp then vp else -vp) ∈ t.filterMap (fun p => p.2.map (fun v => if p.1 then v else -v)) :=
                List.mem_filterMap.mpr ⟨(σp, some vp), hp', rfl⟩
              have := List.all_eq_true.mp h _ hmem
              simp only [decide_eq_true_eq] at this
              simpa [sgn, icv] using this
    · exact absurd h (by simp)

/-- the additive rule of the model is the signed sum used in `series_chain_C` / `parallel_group_L`
    (a member without an initial condition contributes zero) -/
theorem combineIC_additive (x : Option K) (l : List (Bool × Option K)) :
    icv (combineIC false x l) = sumK (l.map (fun p => sgn p.1 (icv p.2))) := by
  simp only [combineIC, Bool.false_eq_true, if_false]
  have hsum : ∀ l : List (Bool × Option K),
      combineSrc (l.filterMap (fun p => p.2.map (fun v => (p.1, v)))) = sumK (l.map (fun p => sgn p.1 (icv p.2))) := by
    intro l
    rw [combineSrc_eq]
    induction l with
    | nil => rfl
    | cons p t ih =>
      obtain ⟨σ, o⟩ := p
      cases o with
      | none =>
        have h0 : sgn σ (icv (none : Option K)) = 0 := by cases σ <;> simp [sgn, icv]
        simp only [List.filterMap_cons, Option.map_none, List.map_cons, sumK, h0, zero_add]
        exact ih
      | some v =>
        simp only [List.filterMap_cons, Option.map_some, List.map_cons, sumK]
        rw [ih]; rfl
  split
  · rename_i hn
    rw [← hsum]
    have : l.filterMap (fun p => p.2.map (fun v => (p.1, v))) = [] := by
      rw [List.filterMap_eq_nil_iff]
      intro p hp
      have := List.all_eq_true.mp hn p hp
      cases hp2 : p.2 with
      | none => rfl
      | some v => simp [hp2] at this
    simp [this, icv, combineSrc, sumVals]
  · simp only [icv, hsum]

/-- an element's relation depends on its initial condition only through its value (absent = 0) -/
theorem rel_ic_congr (kind : Kind) (s x : K) (a b : Option K) (h : icv a = icv b) (v i : K) :
    (TT.rel kind s (.L x a) v i ↔ TT.rel kind s (.L x b) v i) ∧
    (TT.rel kind s (.C x a) v i ↔ TT.rel kind s (.C x b) v i) := by
  constructor
  · cases kind <;> simp [TT.rel, h]
  · cases kind
    · simp [TT.rel, capCurrent]
    · simp [TT.rel, capCurrent]
    · simp only [TT.rel, capCurrent_ivp, h]
    · simp [TT.rel, capCurrent]

/-! ### the chain / group theorems with the value AND initial condition the code computes

  (`_do_simplify_combine`: value `combineVal`, initial condition `combineIC`, after `_check_ic` = `checkIC` for the
  shared cases; the surviving member is the one the signs are taken relative to, so its own sign is `true`) -/

/-- series inductors of ANY number, as the code combines them: the members agree (`checkIC`), the result carries the
    surviving member's initial current (`combineIC true`) -/
theorem series_chain_L_code [DecidableEq K] (kind : Kind) (s : K) (ls : List (Bool × K × Option K)) (first : Option K)
    (hck : checkIC (ls.map (fun p => (p.1, p.2.2))) = true)
    (hfirst : ∃ p ∈ ls, p.1 = true ∧ p.2.2 = first) (v i : K) :
    chainRel kind s (ls.map (fun p => (TT.L p.2.1 p.2.2).orient p.1)) v i ↔
      TT.rel kind s (.L (combineVal true (ls.map (·.2.1))) (combineIC true first (ls.map (fun p => (p.1, p.2.2))))) v i := by
  obtain ⟨I0, hI0⟩ := checkIC_sound _ hck
  have hI : ∀ p ∈ ls, sgn p.1 (icv p.2.2) = I0 := fun p hp => hI0 (p.1, p.2.2) (List.mem_map.mpr ⟨p, hp, rfl⟩)
  obtain ⟨p, hp, hp1, hp2⟩ := hfirst
  have hf : icv first = I0 := by have := hI p hp; rw [hp1, hp2] at this; simpa [sgn] using this
  rw [combineIC_shared, series_chain_L kind s ls I0 hI v i]
  exact (rel_ic_congr kind s _ (some I0) first (by rw [hf]; rfl) v i).1

/-- parallel capacitors of any number, as the code combines them -/
theorem parallel_group_C_code [DecidableEq K] (kind : Kind) (s : K) (cs : List (Bool × K × Option K)) (first : Option K)
    (hck : checkIC (cs.map (fun p => (p.1, p.2.2))) = true)
    (hfirst : ∃ p ∈ cs, p.1 = true ∧ p.2.2 = first) (v i : K) :
    groupRel kind s (cs.map (fun p => (TT.C p.2.1 p.2.2).orient p.1)) v i ↔
      TT.rel kind s (.C (combineVal true (cs.map (·.2.1))) (combineIC true first (cs.map (fun p => (p.1, p.2.2))))) v i := by
  obtain ⟨V0, hV0⟩ := checkIC_sound _ hck
  have hV : ∀ p ∈ cs, sgn p.1 (icv p.2.2) = V0 := fun p hp => hV0 (p.1, p.2.2) (List.mem_map.mpr ⟨p, hp, rfl⟩)
  obtain ⟨p, hp, hp1, hp2⟩ := hfirst
  have hf : icv first = V0 := by have := hV p hp; rw [hp1, hp2] at this; simpa [sgn] using this
  rw [combineIC_shared, parallel_group_C kind s cs V0 hV v i]
  exact (rel_ic_congr kind s _ (some V0) first (by rw [hf]; rfl) v i).2

/-- series capacitors of any number, as the code combines them (`combineIC false`: the signed sum, absent = 0) -/
theorem series_chain_C_code (kind : Kind) (hk : kind = .lap ∨ kind = .ivp) (s : K) (hs : s ≠ 0)
    (cs : List (Bool × K × Option K)) (hc : ∀ p ∈ cs, p.2.1 ≠ 0)
    (hsum : sumK ((cs.map (·.2.1)).map (fun c => 1 / c)) ≠ 0) (x : Option K) (v i : K) :
    chainRel kind s (cs.map (fun p => (TT.C p.2.1 p.2.2).orient p.1)) v i ↔
      TT.rel kind s (.C (combineVal false (cs.map (·.2.1))) (combineIC false x (cs.map (fun p => (p.1, p.2.2))))) v i := by
  rw [series_chain_C kind hk s hs cs hc hsum v i]
  exact (rel_ic_congr kind s _ _ _ (by rw [combineIC_additive]; simp [icv, List.map_map, Function.comp_def]) v i).2

/-- parallel inductors of any number, as the code combines them -/
theorem parallel_group_L_code (kind : Kind) (hk : kind = .lap ∨ kind = .ivp) (s : K) (hs : s ≠ 0)
    (ls : List (Bool × K × Option K)) (hl : ∀ p ∈ ls, p.2.1 ≠ 0)
    (hsum : sumK ((ls.map (·.2.1)).map (fun l => 1 / l)) ≠ 0) (x : Option K) (v i : K) :
    groupRel kind s (ls.map (fun p => (TT.L p.2.1 p.2.2).orient p.1)) v i ↔
      TT.rel kind s (.L (combineVal false (ls.map (·.2.1))) (combineIC false x (ls.map (fun p => (p.1, p.2.2))))) v i := by
  rw [parallel_group_L kind hk s hs ls hl hsum v i]
  exact (rel_ic_congr kind s _ _ _ (by rw [combineIC_additive]; simp [icv, List.map_map, Function.comp_def]) v i).1

/-! ### no other value would do -/

/-- two voltage sources describe the same relation iff their values are equal: the signed sum
    is the ONLY correct value of the combined source -/
theorem rule_V_unique (kind : Kind) (s a b : K) : (∀ v i, TT.rel kind s (.V a) v i ↔ TT.rel kind s (.V b) v i) ↔ a = b := by
  constructor
  · intro h; exact ((h a 0).mp rfl)
  · rintro rfl v i; rfl

/-- the rule agrees with the plain sum exactly when all members point the same way … -/
theorem combineSrc_same_orientation (vs : List (Bool × K)) (h : ∀ p ∈ vs, p.1 = true) :
    combineSrc vs = combineVal true (vs.map (·.2)) := by
  rw [combineVal_add, combineSrc_eq]
  apply sumK_congr
  intro p hp; simp [sgn, h p hp]

/-- … and the plain sum is wrong otherwise (finding F4: `V1 1 2 5`, `V2 3 2 3`, 8 instead of 2) -/
theorem plain_sum_wrong_for_opposite_sources :
    combineSrc [(true, (5 : ℚ)), (false, 3)] = 2 ∧ combineVal true [(5 : ℚ), 3] = 8 := by
  norm_num [combineSrc, combineVal, sumVals]

/-- two inductors with initial currents describe the same relation (initial-value problem) iff
    `l·a = l·b`: the common current is the only correct one; the sum `n·I0` of the original code
    is right only when `l·(n−1)·I0 = 0` (finding F5) -/
theorem rule_L_ic_unique (s l a b : K) :
    (∀ v i, TT.rel .ivp s (.L l (some a)) v i ↔ TT.rel .ivp s (.L l (some b)) v i) ↔ l * a = l * b := by
  simp only [TT.rel, icv]
  constructor
  · intro h
    have := (h (s * l * 0 - l * a) 0).mp rfl
    linear_combination -this
  · intro h v i; rw [h]

theorem plain_sum_wrong_for_series_L_ic :
    ¬ (∀ v i : ℚ, TT.rel Kind.ivp (1 : ℚ) (.L (2 + 4) (some (3 + 3))) v i ↔ TT.rel Kind.ivp 1 (.L (2 + 4) (some 3)) v i) := by
  rw [rule_L_ic_unique]; norm_num

/-! ### the ten two-element equivalences (instances of the chain / group theorems) -/

theorem series_R (kind : Kind) (s r1 r2 : K) (h1 : r1 ≠ 0) (h2 : r2 ≠ 0) (h : r1 + r2 ≠ 0) (v i : K) :
    chainRel kind s [.R r1, .R r2] v i ↔ TT.rel kind s (.R (combineVal true [r1, r2])) v i :=
  series_chain_R kind s [r1, r2] (by simp [h1, h2]) (by simpa [combineVal, sumVals] using h) v i

theorem series_Z (kind : Kind) (s z1 z2 : K) (h1 : z1 ≠ 0) (h2 : z2 ≠ 0) (h : z1 + z2 ≠ 0) (v i : K) :
    chainRel kind s [.Z z1, .Z z2] v i ↔ TT.rel kind s (.Z (combineVal true [z1, z2])) v i :=
  series_chain_Z kind s [z1, z2] (by simp [h1, h2]) (by simpa [combineVal, sumVals] using h) v i

/-- series voltage sources, either orientation of the second one: same direction adds, opposite subtracts -/
theorem series_V (kind : Kind) (s e1 e2 : K) (same : Bool) (v i : K) :
    chainRel kind s [.V e1, (TT.V e2).orient same] v i ↔ TT.rel kind s (.V (e1 + sgn same e2)) v i := by
  have := series_chain_V kind s [(true, e1), (same, e2)] v i
  simpa [TT.orient, sgn, sumK, combineSrc_eq] using this

/-- series inductors with initial currents: equal (signed) currents required, and kept -/
theorem series_L (kind : Kind) (s l1 l2 : K) (i1 i2 : Option K) (same : Bool) (I0 : K)
    (h1 : icv i1 = I0) (h2 : sgn same (icv i2) = I0) (v i : K) :
    chainRel kind s [.L l1 i1, (TT.L l2 i2).orient same] v i ↔ TT.rel kind s (.L (combineVal true [l1, l2]) (some I0)) v i := by
  have := series_chain_L kind s [(true, l1, i1), (same, l2, i2)] I0
    (by intro p hp; simp only [List.mem_cons, List.mem_nil_iff, or_false] at hp; rcases hp with rfl | rfl; exact (by simpa [sgn] using h1); exact h2) v i
  simpa [TT.orient] using this

/-- series capacitors: initial voltages add (with the sign of the orientation) -/
theorem series_C (kind : Kind) (hk : kind = .lap ∨ kind = .ivp) (s c1 c2 : K) (v1 v2 : Option K) (same : Bool)
    (hs : s ≠ 0) (h1 : c1 ≠ 0) (h2 : c2 ≠ 0) (h : 1 / c1 + 1 / c2 ≠ 0) (v i : K) :
    chainRel kind s [.C c1 v1, (TT.C c2 v2).orient same] v i ↔
      TT.rel kind s (.C (combineVal false [c1, c2]) (some (icv v1 + sgn same (icv v2)))) v i := by
  have := series_chain_C kind hk s hs [(true, c1, v1), (same, c2, v2)] (by simp [h1, h2])
    (by simpa [sumK] using h) v i
  simpa [TT.orient, sgn, sumK] using this

theorem parallel_R (kind : Kind) (s r1 r2 : K) (h1 : r1 ≠ 0) (h2 : r2 ≠ 0) (h : 1 / r1 + 1 / r2 ≠ 0) (v i : K) :
    groupRel kind s [.R r1, .R r2] v i ↔ TT.rel kind s (.R (combineVal false [r1, r2])) v i :=
  parallel_group_R kind s [r1, r2] (by simp [h1, h2]) (by simpa [sumK] using h) v i

theorem parallel_Y (kind : Kind) (s y1 y2 : K) (v i : K) :
    groupRel kind s [.Y y1, .Y y2] v i ↔ TT.rel kind s (.Y (combineVal true [y1, y2])) v i :=
  parallel_group_Y kind s [y1, y2] v i

/-- parallel current sources, either orientation of the second one -/
theorem parallel_I (kind : Kind) (s j1 j2 : K) (same : Bool) (v i : K) :
    groupRel kind s [.I j1, (TT.I j2).orient same] v i ↔ TT.rel kind s (.I (j1 + sgn same j2)) v i := by
  have := parallel_group_I kind s [(true, j1), (same, j2)] v i
  simpa [TT.orient, sgn, sumK, combineSrc_eq] using this

/-- parallel capacitors with initial voltages: equal (signed) voltages required, and kept -/
theorem parallel_C (kind : Kind) (s c1 c2 : K) (v1 v2 : Option K) (same : Bool) (V0 : K)
    (h1 : icv v1 = V0) (h2 : sgn same (icv v2) = V0) (v i : K) :
    groupRel kind s [.C c1 v1, (TT.C c2 v2).orient same] v i ↔ TT.rel kind s (.C (combineVal true [c1, c2]) (some V0)) v i := by
  have := parallel_group_C kind s [(true, c1, v1), (same, c2, v2)] V0
    (by intro p hp; simp only [List.mem_cons, List.mem_nil_iff, or_false] at hp; rcases hp with rfl | rfl; exact (by simpa [sgn] using h1); exact h2) v i
  simpa [TT.orient] using this

/-- parallel inductors: initial currents add (with the sign of the orientation) -/
theorem parallel_L (kind : Kind) (hk : kind = .lap ∨ kind = .ivp) (s l1 l2 : K) (i1 i2 : Option K) (same : Bool)
    (hs : s ≠ 0) (h1 : l1 ≠ 0) (h2 : l2 ≠ 0) (h : 1 / l1 + 1 / l2 ≠ 0) (v i : K) :
    groupRel kind s [.L l1 i1, (TT.L l2 i2).orient same] v i ↔
      TT.rel kind s (.L (combineVal false [l1, l2]) (some (icv i1 + sgn same (icv i2)))) v i := by
  have := parallel_group_L kind hk s hs [(true, l1, i1), (same, l2, i2)] (by simp [h1, h2])
    (by simpa [sumK] using h) v i
  simpa [TT.orient, sgn, sumK] using this

/-- an absent initial condition is a zero one in an initial-value problem -/
theorem ic_none_is_zero (kind : Kind) (s l c : K) (v i : K) :
    (TT.rel kind s (.L l none) v i ↔ TT.rel kind s (.L l (some 0)) v i) ∧
    (TT.rel kind s (.C c none) v i ↔ TT.rel kind s (.C c (some 0)) v i) := by
  constructor
  · cases kind <;> simp [TT.rel, icv]
  · cases kind <;> simp [TT.rel, capCurrent]

/-- non-vacuity: `R1 1 2 1`, `R2 2 0 2` in series admit v = 6, i = 2, as does `Rt1 … 3` -/
example : chainRel Kind.dc (0 : ℚ) [.R 1, .R 2] 6 2 ∧ TT.rel Kind.dc (0 : ℚ) (.R (combineVal true [1, 2])) 6 2 := by
  refine ⟨⟨2, 4, by norm_num, by norm_num [TT.rel], 4, 0, by norm_num, by norm_num [TT.rel], rfl⟩, ?_⟩
  norm_num [TT.rel, combineVal, sumVals]

/-! ## Part 2 — circuit level -/

/-- everything is retained except the listed unknowns -/
def AllBut (hidden : List Ix) : Ix → Prop := fun i => i ∉ hidden

theorem series_pair (kind : Kind) (s : K) (e1 e2 e : TT K) (a b c m1 m2 m : Nat)
    (hb0 : b ≠ 0) (hba : b ≠ a) (hbc : b ≠ c)
    (hser : ∀ v i, TT.rel kind s e v i ↔ chainRel kind s [e1, e2] v i) :
    SamePortRelation kind s (AllBut [node b, br m1, br m2, br m])
      [e1.toCpt a b m1, e2.toCpt b c m2] [e.toCpt a c m] := by
  constructor
  · intro x hl hk
    rw [lawsOf_cons, lawsOf_toCpt, lawsOf_toCpt] at hl
    obtain ⟨h1, h2⟩ := hl
    have hkb := hk b hb0 (by simp [AllBut])
    simp only [kclAt_cons, kclAt_nil, outflow_toCpt, twoTerm, hba.symm, hbc.symm, if_true, if_false, add_zero] at hkb
    have hi : e2.cur kind s b c m2 x = e1.cur kind s a b m1 x := by linear_combination hkb
    rw [hi] at h2
    have hrel : TT.rel kind s e (vd x a c) (e1.cur kind s a b m1 x) := by
      rw [hser, chainRel_pair]
      exact ⟨_, _, (vd_add x a b c).symm, h1, h2⟩
    let i := e1.cur kind s a b m1 x
    have hvd : vd (fun j => if j = br m then i else x j) a c = vd x a c := by
      simp only [vd]
      rw [volt_of_nodes_eq (y := fun j => if j = br m then i else x j) (x := x) a (by simp),
        volt_of_nodes_eq (y := fun j => if j = br m then i else x j) (x := x) c (by simp)]
    have hcur := cur_of_rel kind s e a c m (fun j => if j = br m then i else x j) (vd x a c) i hvd (by simp) hrel
    refine ⟨fun j => if j = br m then i else x j, ?_, ?_, ?_, ?_⟩
    · intro j hj
      have : j ≠ br m := by intro h; subst h; simp [AllBut] at hj
      simp [this]
    · rw [lawsOf_toCpt, hcur, hvd]
      exact hrel
    · intro k hk0 hR
      have hkb' : k = b := by simpa [AllBut] using hR
      subst hkb'
      simp only [kclAt_cons, kclAt_nil, outflow_toCpt, twoTerm, hba.symm, hbc.symm, if_false, add_zero, sub_zero]
    · intro k hk0 hR
      have hkb' : k ≠ b := by intro h; subst h; simp [AllBut] at hR
      simp only [kclAt_cons, kclAt_nil, outflow_toCpt, add_zero, hcur, hi]
      exact (twoTerm_series a b c k i hkb').symm
  · intro y hl hk
    rw [lawsOf_toCpt] at hl
    rw [hser, chainRel_pair] at hl
    obtain ⟨v1, v2, hv, h1, h2⟩ := hl
    let i := e.cur kind s a c m y
    let x : Ix → K := fun j => if j = node b then volt y c + v2 else if j = br m1 then i else if j = br m2 then i else y j
    have hxb : volt x b = volt y c + v2 := by rw [volt_nonzero x b hb0]; simp [x]
    have hxo : ∀ n, n ≠ b → volt x n = volt y n := by
      intro n hn
      apply volt_of_nodes_eq
      intro _
      have : (node n : Ix) ≠ node b := by intro h; exact hn (Ix.node.inj h)
      simp [x, this]
    have hvd1 : vd x a b = v1 := by
      simp only [vd, hxb, hxo a hba.symm]
      have : vd y a c = v1 + v2 := hv
      simp only [vd] at this
      linear_combination this
    have hvd2 : vd x b c = v2 := by
      simp only [vd, hxb, hxo c hbc.symm]; ring
    have hc1 := cur_of_rel kind s e1 a b m1 x v1 i hvd1 (by simp [x]) h1
    have hc2 := cur_of_rel kind s e2 b c m2 x v2 i hvd2 (by
      by_cases h : m2 = m1 <;> simp [x, h]) h2
    refine ⟨x, ?_, ?_, ?_, ?_⟩
    · intro j hj
      simp only [AllBut, List.mem_cons, List.mem_nil_iff, or_false, not_or] at hj
      simp [x, hj.1, hj.2.1, hj.2.2.1]
    · rw [lawsOf_cons, lawsOf_toCpt, lawsOf_toCpt, hc1, hc2, hvd1, hvd2]
      exact ⟨h1, h2⟩
    · intro k hk0 hR
      have hkb' : k = b := by simpa [AllBut] using hR
      subst hkb'
      simp only [kclAt_cons, kclAt_nil, outflow_toCpt, twoTerm, hba.symm, hbc.symm, if_true, if_false, add_zero, hc1, hc2]
      ring
    · intro k hk0 hR
      have hkb' : k ≠ b := by intro h; subst h; simp [AllBut] at hR
      simp only [kclAt_cons, kclAt_nil, outflow_toCpt, add_zero, hc1, hc2]
      exact twoTerm_series a b c k i hkb'


/-- the same pair in parallel -/
theorem parallel_pair (kind : Kind) (s : K) (e1 e2 e : TT K) (a b m1 m2 m : Nat) (hm : m1 ≠ m2)
    (hpar : ∀ v i, TT.rel kind s e v i ↔ groupRel kind s [e1, e2] v i) :
    SamePortRelation kind s (AllBut [br m1, br m2, br m])
      [e1.toCpt a b m1, e2.toCpt a b m2] [e.toCpt a b m] := by
  constructor
  · intro x hl hk
    rw [lawsOf_cons, lawsOf_toCpt, lawsOf_toCpt] at hl
    obtain ⟨h1, h2⟩ := hl
    let i := e1.cur kind s a b m1 x + e2.cur kind s a b m2 x
    have hrel : TT.rel kind s e (vd x a b) i := by
      rw [hpar, groupRel_pair]; exact ⟨_, _, rfl, h1, h2⟩
    have hvd : vd (fun j => if j = br m then i else x j) a b = vd x a b := by
      simp only [vd]
      rw [volt_of_nodes_eq (y := fun j => if j = br m then i else x j) (x := x) a (by simp),
        volt_of_nodes_eq (y := fun j => if j = br m then i else x j) (x := x) b (by simp)]
    have hcur := cur_of_rel kind s e a b m (fun j => if j = br m then i else x j) (vd x a b) i hvd (by simp) hrel
    refine ⟨fun j => if j = br m then i else x j, ?_, ?_, ?_, ?_⟩
    · intro j hj
      have : j ≠ br m := by intro h; subst h; simp [AllBut] at hj
      simp [this]
    · rw [lawsOf_toCpt, hcur, hvd]; exact hrel
    · intro k _ hR; exact absurd (by simp [AllBut]) hR
    · intro k _ _
      simp only [kclAt_cons, kclAt_nil, outflow_toCpt, add_zero, hcur]
      exact (twoTerm_add a b k _ _).symm
  · intro y hl hk
    rw [lawsOf_toCpt, hpar, groupRel_pair] at hl
    obtain ⟨i1, i2, hi, h1, h2⟩ := hl
    let x : Ix → K := fun j => if j = br m1 then i1 else if j = br m2 then i2 else y j
    have hvd : vd x a b = vd y a b := by
      simp only [vd]
      rw [volt_of_nodes_eq (y := x) (x := y) a (by simp [x]), volt_of_nodes_eq (y := x) (x := y) b (by simp [x])]
    have hc1 := cur_of_rel kind s e1 a b m1 x (vd y a b) i1 hvd (by simp [x]) h1
    have hc2 := cur_of_rel kind s e2 a b m2 x (vd y a b) i2 hvd (by simp [x, hm.symm]) h2
    refine ⟨x, ?_, ?_, ?_, ?_⟩
    · intro j hj
      simp only [AllBut, List.mem_cons, List.mem_nil_iff, or_false, not_or] at hj
      simp [x, hj.1, hj.2.1]
    · rw [lawsOf_cons, lawsOf_toCpt, lawsOf_toCpt, hc1, hc2, hvd]; exact ⟨h1, h2⟩
    · intro k _ hR; exact absurd (by simp [AllBut]) hR
    · intro k _ _
      simp only [kclAt_cons, kclAt_nil, outflow_toCpt, add_zero, hc1, hc2, hi]
      exact twoTerm_add a b k _ _

/-- a component connected the other way round is the flipped element (polarity and initial
    condition negated) connected the straight way: same port relation -/
theorem reversed (kind : Kind) (s : K) (e : TT K) (a b m : Nat) :
    Simulates kind s (AllBut [br m]) [e.toCpt b a m] [e.flip.toCpt a b m] := by
  intro x hl hk
  rw [lawsOf_toCpt] at hl
  let i := e.cur kind s b a m x
  let y : Ix → K := fun j => if j = br m then -i else x j
  have hvd : vd y a b = -vd x b a := by
    simp only [vd]
    rw [volt_of_nodes_eq (y := y) (x := x) a (by simp [y]), volt_of_nodes_eq (y := y) (x := x) b (by simp [y])]
    ring
  have hrel : TT.rel kind s e.flip (-vd x b a) (-i) := by rw [rel_flip]; simpa using hl
  have hcur := cur_of_rel kind s e.flip a b m y (-vd x b a) (-i) hvd (by simp [y]) hrel
  refine ⟨y, ?_, ?_, ?_, ?_⟩
  · intro j hj
    have : j ≠ br m := by intro h; subst h; simp [AllBut] at hj
    simp [y, this]
  · rw [lawsOf_toCpt, hcur, hvd]; exact hrel
  · intro k _ hR; exact absurd (by simp [AllBut]) hR
  · intro k _ _
    simp only [kclAt_cons, kclAt_nil, outflow_toCpt, add_zero, hcur]
    rw [twoTerm_swap]

/-- **subcircuit_congruence**: if `sub₂` has the port relation of `sub₁` on the retained unknowns
    and the rest of the circuit only reads retained unknowns, every solution of the circuit
    containing `sub₁` yields a solution of the circuit containing `sub₂` with the same value at
    every retained node and branch. -/
theorem subcircuit_congruence (kind : Kind) (s : K) (R : Ix → Prop) (sub₁ sub₂ rest : List (Cpt K))
    (hsim : Simulates kind s R sub₁ sub₂) (hrest : SupportedIn R rest) (x : Ix → K)
    (h : Laws kind s (sub₁ ++ rest) x) : ∃ y, (∀ i, R i → y i = x i) ∧ Laws kind s (sub₂ ++ rest) y := by
  have hctx := Simulates.context hsim [] rest (by intro c hc; cases hc) hrest
  simp only [List.nil_append] at hctx
  rw [Laws_iff] at h
  obtain ⟨y, hy, hly, hky, hry⟩ := hctx x h.2 (fun k hk0 _ => h.1 k hk0)
  refine ⟨y, hy, ?_⟩
  rw [Laws_iff]
  refine ⟨fun k hk0 => ?_, hly⟩
  by_cases hR : R (node k)
  · rw [hry k hk0 hR]; exact h.1 k hk0
  · exact hky k hk0 hR

/-- **rewrite_preserves_retained** (the property itself): when the rewritten circuit is well
    formed and non-singular, ITS solution — whatever solver produced it — has the same voltage
    at every retained node and the same current in every retained branch as the solution of the
    original circuit. -/
theorem rewrite_preserves_retained (kind : Kind) (s : K) (R : Ix → Prop) (sub₁ sub₂ rest : List (Cpt K))
    (hsim : Simulates kind s R sub₁ sub₂) (hrest : SupportedIn R rest)
    (hwf : C01.WF (sub₂ ++ rest)) (hns : C01.Nonsingular kind s (sub₂ ++ rest))
    (x y : Ix → K) (hx : Laws kind s (sub₁ ++ rest) x) (hy : Laws kind s (sub₂ ++ rest) y) :
    ∀ i, R i → C01.Unknown kind s (sub₂ ++ rest) i → y i = x i := by
  obtain ⟨y', hy', hl'⟩ := subcircuit_congruence kind s R sub₁ sub₂ rest hsim hrest x hx
  intro i hi hi0
  rw [C01.laws_unique kind s _ y y' hwf hns hy hl' i hi0]
  exact hy' i hi

/-- **dangling_sound**: a two-terminal element hanging from node `a` with its other node `b`
    connected to nothing else carries no current, and removing it (together with its node and its
    branch unknown) changes nothing for the rest; conversely it can be re-attached whenever the
    element admits zero current at some voltage (every R, L, C, Z, Y and V does; a current source
    with non-zero value does not — such a circuit has no solution at all). -/
theorem dangling_sound (kind : Kind) (s : K) (e : TT K) (a b m : Nat) (hb0 : b ≠ 0) (hba : b ≠ a) :
    (∀ x, kclAt kind s [e.toCpt a b m] x b = 0 → e.cur kind s a b m x = 0) ∧
    Simulates kind s (AllBut [node b, br m]) [e.toCpt a b m] [] ∧
    ((∃ v, TT.rel kind s e v 0) → Simulates kind s (AllBut [node b, br m]) [] [e.toCpt a b m]) := by
  have hcur0 : ∀ x, kclAt kind s [e.toCpt a b m] x b = 0 → e.cur kind s a b m x = 0 := by
    intro x hk
    simp only [kclAt_cons, kclAt_nil, outflow_toCpt, twoTerm, hba.symm, if_true, if_false, add_zero] at hk
    linear_combination -hk
  refine ⟨hcur0, ?_, ?_⟩
  · intro x _ hk
    have h0 := hcur0 x (hk b hb0 (by simp [AllBut]))
    refine ⟨x, fun _ _ => rfl, by simp [lawsOf], fun _ _ _ => rfl, ?_⟩
    intro k _ _
    simp only [kclAt_cons, kclAt_nil, outflow_toCpt, h0, add_zero, twoTerm]; simp
  · rintro ⟨v, hv⟩ y _ _
    let x : Ix → K := fun j => if j = node b then volt y a - v else if j = br m then 0 else y j
    have hxb : volt x b = volt y a - v := by rw [volt_nonzero x b hb0]; simp [x]
    have hxa : volt x a = volt y a := by
      apply volt_of_nodes_eq; intro _
      have : (node a : Ix) ≠ node b := by intro h; exact hba (Ix.node.inj h).symm
      simp [x, this]
    have hvd : vd x a b = v := by simp only [vd, hxb, hxa]; ring
    have hc := cur_of_rel kind s e a b m x v 0 hvd (by simp [x]) hv
    refine ⟨x, ?_, ?_, ?_, ?_⟩
    · intro j hj
      simp only [AllBut, List.mem_cons, List.mem_nil_iff, or_false, not_or] at hj
      simp [x, hj.1, hj.2]
    · rw [lawsOf_toCpt, hc, hvd]; exact hv
    · intro k _ _
      simp only [kclAt_cons, kclAt_nil, outflow_toCpt, hc, add_zero, twoTerm]; simp
    · intro k _ _
      simp only [kclAt_cons, kclAt_nil, outflow_toCpt, hc, add_zero, twoTerm]; simp

/-! ### node renaming -/

set_option linter.unusedSimpArgs false in
set_option linter.unusedTactic false in
set_option linter.unreachableTactic false in
set_option linter.unnecessarySeqFocus false in
/-- **rename_invariant**: `Laws` is invariant under an injective renaming of the nodes that keeps
    ground: the renamed netlist is solved by `x` iff the original is solved by `x` read through
    the renaming. -/
theorem rename_invariant (kind : Kind) (s : K) (ρ : Nat → Nat) (hinj : Function.Injective ρ) (h0 : ρ 0 = 0)
    (cs : List (Cpt K)) (x : Ix → K) :
    Laws kind s (cs.map (Cpt.mapNodes ρ)) x ↔ Laws kind s cs (pullback ρ x) := by
  have hne : ∀ k, k ≠ 0 → ρ k ≠ 0 := fun k hk h => hk (hinj (h.trans h0.symm))
  have hvolt : ∀ n, volt (pullback ρ x) n = volt x (ρ n) := by
    intro n
    cases n with
    | zero => simp [volt, h0]
    | succ k => rw [volt_nonzero x _ (hne _ (Nat.succ_ne_zero k))]; rfl
  have heq : ∀ a b : Nat, ρ a = ρ b ↔ a = b := fun a b => ⟨fun h => hinj h, fun h => h ▸ rfl⟩
  have h0k : ∀ k : Nat, (0 = ρ k) ↔ (0 = k) := fun k => ⟨fun h => hinj (h0.trans h), fun h => by rw [← h, h0]⟩
  have hout : ∀ c : Cpt K, ∀ k, outflow kind s x (ρ k) (c.mapNodes ρ) = outflow kind s (pullback ρ x) k c := by
    intro c k
    cases c <;> simp [Cpt.mapNodes, outflow, twoTerm, vd, hvolt, heq, h0k, pullback]
  have houtside : ∀ c : Cpt K, ∀ k', (∀ n, ρ n ≠ k') → outflow kind s x k' (c.mapNodes ρ) = 0 := by
    intro c k' hk'
    have h0' : (0 : Nat) ≠ k' := by rw [← h0]; exact hk' 0
    cases c <;> simp [Cpt.mapNodes, outflow, twoTerm, hk', h0']
  have hlaws : ∀ c : Cpt K, laws kind s x (c.mapNodes ρ) = laws kind s (pullback ρ x) c := by
    intro c
    cases c with
    | Ind n1 n2 m l i0 coup =>
      have hm : mutualDrop s x coup = mutualDrop s (pullback ρ x) coup := by
        simp [mutualDrop, pullback]
      cases kind <;> simp [Cpt.mapNodes, laws, vd, hvolt, pullback, hm]
    | _ => simp [Cpt.mapNodes, laws, vd, hvolt, pullback]
  have hsum : ∀ k, lsum ((cs.map (Cpt.mapNodes ρ)).map (outflow kind s x (ρ k))) =
      lsum (cs.map (outflow kind s (pullback ρ x) k)) := by
    intro k
    rw [List.map_map]
    congr 1
    apply List.map_congr_left
    intro c _
    exact hout c k
  constructor
  · rintro ⟨hk, hl⟩
    refine ⟨fun k hk0 => ?_, ?_⟩
    · rw [← hsum k]; exact hk (ρ k) (hne k hk0)
    · intro c hc p hp
      rw [← hlaws c] at hp
      exact hl _ (List.mem_map.mpr ⟨c, hc, rfl⟩) p hp
  · rintro ⟨hk, hl⟩
    refine ⟨fun k' hk0 => ?_, ?_⟩
    · by_cases hex : ∃ k, ρ k = k'
      · obtain ⟨k, rfl⟩ := hex
        rw [hsum k]
        exact hk k (fun h => hk0 (by rw [h, h0]))
      · have hno : ∀ n, ρ n ≠ k' := fun n hn => hex ⟨n, hn⟩
        have : ∀ l : List (Cpt K), lsum ((l.map (Cpt.mapNodes ρ)).map (outflow kind s x k')) = 0 := by
          intro l
          induction l with
          | nil => rfl
          | cons c t ih => simp only [List.map_cons, lsum, houtside c k' hno, ih, add_zero]
        exact this cs
    · intro c' hc' p hp
      obtain ⟨c, hc, rfl⟩ := List.mem_map.mp hc'
      rw [hlaws c] at hp
      exact hl c hc p hp

/-- non-vacuity of `series_pair` + `subcircuit_congruence`: `V1 1 0 6; R1 1 2 1; R2 2 0 2`
    ↦ `V1 1 0 6; Rt1 1 0 3` keeps V(1) = 6 and the source current −2 -/
example : ∃ y : Ix → ℚ, y (node 1) = 6 ∧ y (br 0) = -2 ∧
    Laws Kind.dc 0 ([(TT.R 3).toCpt 1 0 9] ++ [Cpt.V 1 0 0 6]) y := by
  have hsp := (series_pair Kind.dc (0 : ℚ) (.R 1) (.R 2) (.R 3) 1 2 0 7 8 9 (by decide) (by decide) (by decide)
    (fun v i => by
      have := series_R Kind.dc (0 : ℚ) 1 2 (by norm_num) (by norm_num) (by norm_num) v i
      rw [this]; norm_num [combineVal, sumVals])).1
  have hx : Laws Kind.dc (0 : ℚ) ([(TT.R 1).toCpt 1 2 7, (TT.R 2).toCpt 2 0 8] ++ [Cpt.V 1 0 0 6])
      (fun i => match i with | node 1 => 6 | node 2 => 4 | br 0 => -2 | _ => 0) := by
    constructor
    · intro k hk
      match k with
      | 0 => exact absurd rfl hk
      | 1 => norm_num [TT.toCpt, outflow, twoTerm, lsum, vd, volt]
      | 2 => norm_num [TT.toCpt, outflow, twoTerm, lsum, vd, volt]
      | (k + 3) => simp [TT.toCpt, outflow, twoTerm, lsum]
    · intro c hc p hp
      simp only [List.cons_append, List.nil_append, List.mem_cons, List.mem_nil_iff, or_false] at hc
      rcases hc with rfl | rfl | rfl <;> simp [TT.toCpt, laws] at hp
      subst hp; norm_num [vd, volt]
  obtain ⟨y, hy, hl⟩ := subcircuit_congruence Kind.dc (0 : ℚ) _ _ _ [Cpt.V 1 0 0 6] hsp
    (by intro c hc i hi; simp at hc; subst hc; simp [mentions] at hi; rcases hi with rfl | rfl | rfl <;> simp [AllBut]) _ hx
  exact ⟨y, (hy (node 1) (by simp [AllBut])).trans rfl, (hy (br 0) (by simp [AllBut])).trans rfl, hl⟩

end Lcapy.C05
