/-
  PROPERTY C01, the fully-differential-opamp and instrumentation-amplifier forms of `E`
  (`Efdopamp._expand`, `Einamp._expand` in lcapy/mnacpts.py; the front-end mirrors them in
  `Netlist.expandRaw` and the expansion text is tied by correspondence with `Netlist.expand()`).

  `Laws` of the expanded sub-netlist imply the amplifier relation documented in doc/netlists.rst.
  NOTE: this version of Lcapy cannot ANALYSE these two forms (their `_expand` emits `opamp` forms and
  `Netlist.expand()` expands only once: RuntimeError 'component not expanded'), so nothing is reported for them and
  there is nothing to judge by the oracle; the theorems say what the expansion means once it is expanded fully.
  Only property theorems (and the definitions they are stated with) live here.
-/
import Lcapy.Props.C01
import Lcapy.Model.Netlist
import Mathlib.Tactic.LinearCombination
import Mathlib.Tactic.FieldSimp
import Mathlib.Tactic.NormNum
namespace Lcapy.C01
open Lcapy Lcapy.MNA Lcapy.Netlist Ix
variable {K : Type} [Field K]
set_option linter.unusedSimpArgs false

/-! ### the EXECUTED expansion: `Netlist.expandRaw` (what the driver runs on the parsed line)

The three theorems after this block (`fdopamp_expand_law`, `inamp_expand_law`, and `opamp_expand_law` in Props/C01.lean) are
stated about component lists (`fdopampExpand`, `inampExpand`, `[E o …, R o …]`).  The theorems here say that the front-end
function the driver executes produces exactly the lines with that wiring: names, types, node order and arguments.
What remains between the two is the reading of a plain `E` / `R` line as `.E` / `.R` (`elabOne`, a string-level function whose
acceptance cannot be evaluated in the kernel); that step is tied by the correspondence (`mna.expand`, `mna.solve`). -/

/-- `'{%s / 2}' % Ad` as the front-end evaluates it -/
def halfOf (ad : String) : String := match parseVal ad with | some r => ratToStr (r / 2) | none => ad

/-- **fdopamp_expandRaw**: one round of `expandRaw` on a parsed `fdopamp` line: two `opamp` lines of gain Ad/2 around Nocm -/
theorem fdopamp_expandRaw (name np nm nip nim nocm ad ac : String) :
    expandRaw ⟨name, "Efdopamp", [np, nm, nip, nim, nocm], [ad, ac]⟩ =
      [⟨"Ep__" ++ name, "Eopamp", [np, nocm, nip, nim], [halfOf ad, ac, "0"]⟩,
       ⟨"Em__" ++ name, "Eopamp", [nocm, nm, nip, nim], [halfOf ad, ac, "0"]⟩] := by
  simp only [expandRaw, halfOf]
  cases h : parseVal ad <;> simp [h]

/-- **inamp_expandRaw**: one round on a parsed `inamp` line: the wiring of `inampExpand` -/
theorem inamp_expandRaw (name np nm nip nim nrp nrm ad ac rf : String) :
    expandRaw ⟨name, "Einamp", [np, nm, nip, nim, nrp, nrm], [ad, ac, rf]⟩ =
      [⟨"Ep__" ++ name, "Eopamp", ["_nodeanon_" ++ name ++ "_7", "0", nip, nrp], [ad, "0", "0"]⟩,
       ⟨"Em__" ++ name, "Eopamp", ["_nodeanon_" ++ name ++ "_8", "0", nim, nrm], [ad, "0", "0"]⟩,
       ⟨"Ed__" ++ name, "Eopamp", [np, nm, "_nodeanon_" ++ name ++ "_7", "_nodeanon_" ++ name ++ "_8"], ["1", ac, "0"]⟩,
       ⟨"Rfp__" ++ name, "R", [nrp, "_nodeanon_" ++ name ++ "_7"], [rf]⟩,
       ⟨"Rfm__" ++ name, "R", [nrm, "_nodeanon_" ++ name ++ "_8"], [rf]⟩] := by
  simp [expandRaw]

/-- **opamp_expandRaw**: an `opamp` line with Ro = 0 is one VCVS … -/
theorem opamp_expandRaw_Ro0 (name np nm ncp ncm ad ac ro : String) (hro : parseVal ro = some 0) :
    expandRaw ⟨name, "Eopamp", [np, nm, ncp, ncm], [ad, ac, ro]⟩ = [⟨"E__" ++ name, "E", [np, nm, ncp, ncm], [ad, ac]⟩] := by
  simp [expandRaw, hro]

/-- … and with Ro ≠ 0 a VCVS from a fresh internal node plus Ro to the output node (the list of `opamp_expand_law`) -/
theorem opamp_expandRaw_Ro (name np nm ncp ncm ad ac ro : String) (hro : parseVal ro ≠ some 0) :
    expandRaw ⟨name, "Eopamp", [np, nm, ncp, ncm], [ad, ac, ro]⟩ =
      [⟨"E__" ++ name, "E", ["_nodeanon_" ++ name, nm, ncp, ncm], [ad, ac]⟩, ⟨"R__" ++ name, "R", ["_nodeanon_" ++ name, np], [ro]⟩] := by
  simp [expandRaw, hro]

/-- **fdopamp_expand_full**: both rounds (what a fully expanding Lcapy analyses): the two VCVS lines of `fdopampExpand`
    (`parseVal "0" = some 0` is a fact about the string parser that the kernel cannot evaluate; `#eval` confirms it) -/
theorem fdopamp_expand_full (h0 : parseVal "0" = some 0) (name np nm nip nim nocm ad ac : String) :
    expandOnce (expandOnce [⟨name, "Efdopamp", [np, nm, nip, nim, nocm], [ad, ac]⟩]) =
      [⟨"E__" ++ ("Ep__" ++ name), "E", [np, nocm, nip, nim], [halfOf ad, ac]⟩,
       ⟨"E__" ++ ("Em__" ++ name), "E", [nocm, nm, nip, nim], [halfOf ad, ac]⟩] := by
  simp only [expandOnce, List.flatMap_cons, List.flatMap_nil, List.append_nil, fdopamp_expandRaw, List.cons_append,
    List.nil_append, opamp_expandRaw_Ro0 _ _ _ _ _ _ _ _ h0]

/-- `Efdopamp._expand`: `Ename Np Nm fdopamp Nip Nim Nocm Ad Ac` becomes two opamps with gain Ad/2 (output
    resistance 0, so each is one VCVS): `Ep` from Nocm up to Np and `Em` from Nm up to Nocm -/
def fdopampExpand (np nm nip nim nocm mp mm : Nat) (Ad Ac : K) : List (Cpt K) :=
  [.E np nocm nip nim mp (Ad / 2) Ac, .E nocm nm nip nim mm (Ad / 2) Ac]

/-- **fdopamp_expand_law**: the expansion of a fully differential opamp obeys the documented relation: the differential
    output is `Ad·(Vip − Vim)` plus the common-mode term of both halves, and the output common-mode voltage
    `(V(Np) + V(Nm))/2` is the voltage of node Nocm. -/
theorem fdopamp_expand_law (kind : Kind) (s : K) (x : Ix → K) (np nm nip nim nocm mp mm : Nat) (Ad Ac : K)
    (h2 : (2 : K) ≠ 0)
    (hlaw : ∀ c ∈ fdopampExpand np nm nip nim nocm mp mm Ad Ac, ∀ p ∈ laws kind s x c, p.2 = 0) :
    vd x np nm = Ad * vd x nip nim + 2 * (Ac * ((volt x nip + volt x nim) / 2)) ∧
    volt x np + volt x nm = 2 * volt x nocm := by
  obtain ⟨a, rfl⟩ : ∃ a, Ad = 2 * a := ⟨Ad / 2, by field_simp⟩
  have h1 := hlaw (.E np nocm nip nim mp (2 * a / 2) Ac) (by simp [fdopampExpand]) _ (by simp [laws]; rfl)
  have h3 := hlaw (.E nocm nm nip nim mm (2 * a / 2) Ac) (by simp [fdopampExpand]) _ (by simp [laws]; rfl)
  simp only [vd, mul_div_cancel_left₀ _ h2] at h1 h3 ⊢
  constructor
  · linear_combination h1 + h3
  · linear_combination h1 - h3

/-- `Einamp._expand`: `Ename Np Nm inamp Nip Nim Nrp Nrm Ad Ac Rf` becomes two input opamps `Ep`, `Em` (gain Ad,
    outputs on fresh internal nodes n7, n8 w.r.t. ground, inverting inputs on the gain-resistor nodes), an output
    stage `Ed` of differential gain 1 and common-mode gain Ac, and the feedback resistors Rf from each
    gain-resistor node to the corresponding internal node -/
def inampExpand (np nm nip nim nrp nrm n7 n8 mp mm md : Nat) (Ad Ac Rf : K) : List (Cpt K) :=
  [.E n7 0 nip nrp mp Ad 0, .E n8 0 nim nrm mm Ad 0, .E np nm n7 n8 md 1 Ac, .R nrp n7 Rf, .R nrm n8 Rf]

/-- **inamp_expand_law**: with the external gain resistor Rg between Nrp and Nrm (and nothing else on those two nodes),
    the expansion obeys the documented instrumentation-amplifier relation: the output is
    `D + Ac·(V7 + V8)/2` where the differential stage voltage `D = V7 − V8` satisfies
    `D·(1 + G/Ad) = G·(Vip − Vim)` with the closed-loop gain `G = 1 + 2·Rf/Rg` -- so `D → G·(Vip − Vim)` as Ad → ∞. -/
theorem inamp_expand_law (kind : Kind) (s : K) (x : Ix → K) (np nm nip nim nrp nrm n7 n8 mp mm md : Nat)
    (Ad Ac Rf Rg : K) (hAd : Ad ≠ 0) (hRf : Rf ≠ 0) (hRg : Rg ≠ 0)
    (hrp : nrp ≠ 0) (hrm : nrm ≠ 0) (hpm : nrp ≠ nrm) (h7p : n7 ≠ nrp) (h7m : n7 ≠ nrm) (h8p : n8 ≠ nrp) (h8m : n8 ≠ nrm)
    (hnp : np ≠ nrp) (hnm : nm ≠ nrp) (hnp' : np ≠ nrm) (hnm' : nm ≠ nrm)
    (hkclp : lsum ((inampExpand np nm nip nim nrp nrm n7 n8 mp mm md Ad Ac Rf ++ [Cpt.R nrp nrm Rg]).map (outflow kind s x nrp)) = 0)
    (hkclm : lsum ((inampExpand np nm nip nim nrp nrm n7 n8 mp mm md Ad Ac Rf ++ [Cpt.R nrp nrm Rg]).map (outflow kind s x nrm)) = 0)
    (hlaw : ∀ c ∈ inampExpand np nm nip nim nrp nrm n7 n8 mp mm md Ad Ac Rf, ∀ p ∈ laws kind s x c, p.2 = 0) :
    let D := volt x n7 - volt x n8
    let G := 1 + 2 * Rf / Rg
    vd x np nm = D + Ac * ((volt x n7 + volt x n8) / 2) ∧ D * (1 + G / Ad) = G * vd x nip nim := by
  have h1 := hlaw (.E n7 0 nip nrp mp Ad 0) (by simp [inampExpand]) _ (by simp [laws]; rfl)
  have h2 := hlaw (.E n8 0 nim nrm mm Ad 0) (by simp [inampExpand]) _ (by simp [laws]; rfl)
  have h3 := hlaw (.E np nm n7 n8 md 1 Ac) (by simp [inampExpand]) _ (by simp [laws]; rfl)
  simp only [inampExpand, List.cons_append, List.nil_append, List.map_cons, List.map_nil, lsum, outflow, twoTerm] at hkclp hkclm
  simp [hrp, hrm, hpm, Ne.symm hpm, h7p, h7m, h8p, h8m, Ne.symm hrp, Ne.symm hrm, hnp, hnm, hnp', hnm'] at hkclp hkclm
  have v0 : volt x 0 = 0 := rfl
  intro D G
  simp only [vd, v0, sub_zero, mul_zero, add_zero, zero_div, one_mul] at h1 h2 h3 hkclp hkclm ⊢
  constructor
  · simp only [D]; linear_combination h3
  · simp only [D, G]
    field_simp at hkclp hkclm ⊢
    grind

/-- non-vacuity (fdopamp): Ad = 4, Ac = 0, Vip − Vim = 1, Nocm held at 5: outputs 7 and 3 -/
example : ∀ c ∈ fdopampExpand (K := ℚ) 3 4 1 2 5 0 1 4 0, ∀ p ∈ laws .dc 0
    (fun i => match i with | node 1 => 1 | node 2 => 0 | node 3 => 7 | node 4 => 3 | node 5 => 5 | _ => 0) c, p.2 = 0 := by
  intro c hc p hp
  simp only [fdopampExpand, List.mem_cons, List.mem_nil_iff, or_false] at hc
  rcases hc with rfl | rfl <;> simp only [laws, List.mem_singleton] at hp <;> subst hp <;> norm_num [vd, volt]

/-- non-vacuity (inamp): Ad = 2, Ac = 3, Rf = 1, Rg = 2 (G = 2), Vip = 1, Vim = 0 -/
def exInampX : Ix → ℚ := fun i => match i with
  | node 1 => 1 | node 2 => 0 | node 3 => 7/12 | node 4 => 1/12 | node 5 => 5/6 | node 6 => -1/6 | node 7 => 2 | _ => 0

example : (∀ c ∈ inampExpand (K := ℚ) 7 0 1 2 3 4 5 6 0 1 2 2 3 1, ∀ p ∈ laws .dc 0 exInampX c, p.2 = 0) ∧
    lsum ((inampExpand (K := ℚ) 7 0 1 2 3 4 5 6 0 1 2 2 3 1 ++ [Cpt.R 3 4 2]).map (outflow .dc 0 exInampX 3)) = 0 ∧
    lsum ((inampExpand (K := ℚ) 7 0 1 2 3 4 5 6 0 1 2 2 3 1 ++ [Cpt.R 3 4 2]).map (outflow .dc 0 exInampX 4)) = 0 := by
  refine ⟨?_, ?_, ?_⟩
  · intro c hc p hp
    simp only [inampExpand, List.mem_cons, List.mem_nil_iff, or_false] at hc
    rcases hc with rfl | rfl | rfl | rfl | rfl <;> simp [laws] at hp <;> subst hp <;> norm_num [vd, volt, exInampX]
  · norm_num [inampExpand, lsum, outflow, twoTerm, vd, volt, exInampX]
  · norm_num [inampExpand, lsum, outflow, twoTerm, vd, volt, exInampX]

end Lcapy.C01
