/-
  PROPERTY C13 -- discrete-time transforms match their defining sums and invert.

  Only property theorems (with the predicates they are stated with and non-vacuity examples)
  live here; helper lemmas are in Lcapy/Proofs/DT.lean, the executable model in
  Lcapy/Model/DT.lean, the spec values/sums in Lcapy/Spec/DT.lean.

  Reading guide.  `w = z⁻¹`; the unilateral z-transform of `x` is the formal power series
  `Σ_{n≥0} x[n] w^n = PowerSeries.mk x` (doc/discretetime.rst).  `IsZT x r` says that the rational
  closed form `r = num(w)/den(w)` *is* that series: `den * mk x = num` with `den(0) ≠ 0` (which
  determines every x[n], see `izt_zt`).  All statements are for every field `K`, every term list,
  every index — no size bounds.
-/
import Lcapy.Proofs.DT
import Mathlib.Analysis.SpecificLimits.Normed
namespace Lcapy.C13
open Lcapy Lcapy.DT PowerSeries
variable {K : Type} [Field K]
set_option linter.unusedSimpArgs false
set_option linter.unusedVariables false

/-! ## 1. Transform theorems on the defining series -/

theorem zt_linear (x y : ℕ → K) (a b : K) :
    PowerSeries.mk (fun n => a * x n + b * y n)
      = C a * PowerSeries.mk x + C b * PowerSeries.mk y := by
  ext n; simp

/-- a delay by `d ≥ 0` samples multiplies by `z^{-d}` (the delayed sequence is 0 for n < d) -/
theorem zt_delay (x : ℕ → K) (d : ℕ) :
    PowerSeries.mk (fun n => if d ≤ n then x (n - d) else 0) = X ^ d * PowerSeries.mk x := by
  ext n; simp [coeff_X_pow_mul']

/-- the unilateral transform of an ADVANCED sequence is NOT `z^d X(z)`: the samples
    `x[0..d-1]` fall off.  (`zt_delay` has no analogue for advances; the code applies the delay
    rule to advances — finding F17, kept as a known finding because the upstream tests pin it;
    the model mirrors the code there and the theorems below exclude it through `Base.ok`.) -/
theorem zt_advance (x : ℕ → K) (d : ℕ) :
    X ^ d * PowerSeries.mk (fun n => x (n + d))
      = PowerSeries.mk x - PowerSeries.mk (fun n => if n < d then x n else 0) := by
  ext n
  simp only [coeff_X_pow_mul', coeff_mk, map_sub]
  split_ifs with h1 h2 <;> first | omega | simp [Nat.sub_add_cancel, *]

theorem zt_scale (x : ℕ → K) (a : K) :
    PowerSeries.mk (fun n => a ^ n * x n) = rescale a (PowerSeries.mk x) := (rescale_mk x a).symm

/-- multiplication by n is `-z d/dz`, i.e. `w d/dw` -/
theorem zt_mul_n (x : ℕ → K) :
    PowerSeries.mk (fun n => (n : K) * x n) = X * d⁄dX K (PowerSeries.mk x) := mk_mulN x

/-! ## 2. The rule cascade of `ZTransformer.term` produces the defining series -/

/-- every term `c n^p a^n base[n]` with a non-advanced base (`Base.ok`: delay ≥ 0 for impulses and
    steps — the excluded region is finding F17, covered by the oracle —, `cos² b + sin² b = 1`) -/
theorem zt_term_sound_partial (t : CTerm K) (h : t.base.ok) :
    IsZT (fun n : ℕ => t.val n) (ztTerm t) := isZT_term t h

/-- every finite sum of such terms: for every n the coefficient of `w^n` in the expansion of
    the model's closed form is `x[n]` -/
theorem zt_closed_form_sound_partial (ts : List (CTerm K)) (h : ∀ t ∈ ts, t.base.ok) :
    IsZT (fun n : ℕ => sigVal ts n) (ztSig ts) := isZT_sig ts h

example : (⟨3, 2, 1 / 2, .step 1⟩ : CTerm ℚ).base.ok := by simp [Base.ok]
example : (⟨1, 1, 2, .cos (3 / 5) (4 / 5) 1 0⟩ : CTerm ℚ).base.ok := by norm_num [Base.ok]
-- a sinusoid gated by a delayed step (rule "multiplication with u(n-n0)") is covered as well
example : (⟨1, 1, 1 / 2, .gated true false 3 (3 / 5) (4 / 5) (5 / 13) (12 / 13)⟩ : CTerm ℚ).base.ok := by
  norm_num [Base.ok]

/-- the geometric closed form, coefficient-wise: `(1 - a w) Σ a^n w^n = 1` -/
theorem zt_geometric (a : K) :
    (1 - C a * X) * PowerSeries.mk (fun n => a ^ n) = 1 := by
  have h := zt_term_sound_partial (⟨1, 0, a, .one⟩ : CTerm K) trivial
  obtain ⟨_, h1, _⟩ := h
  have e : (fun n : ℕ => (⟨1, 0, a, .one⟩ : CTerm K).val n) = fun n => a ^ n := by
    funext n; simp [CTerm.val, Base.val]
  rw [e] at h1
  simp [ztTerm, ZR.scale, iter, ZR.dilate, ztBase, pscale, pdilate, pdilateFrom, toPS_cons] at h1
  linear_combination h1

/-- analytic anchor: inside the region of convergence the closed form evaluated at z is the
    sum of the series -/
theorem anchor_geometric {𝕜 : Type} [NormedField 𝕜] [CompleteSpace 𝕜] (a z : 𝕜) (hz : z ≠ 0)
    (h : ‖a / z‖ < 1) :
    ∑' n : ℕ, a ^ n * (z⁻¹) ^ n = ZR.eval (ztTerm (⟨1, 0, a, .one⟩ : CTerm 𝕜)) z := by
  have e : ∀ n : ℕ, a ^ n * (z⁻¹) ^ n = (a / z) ^ n := by
    intro n; rw [div_eq_mul_inv, mul_pow]
  simp only [e, tsum_geometric_of_norm_lt_one h]
  have h1 : (1 : 𝕜) - a / z ≠ 0 := by
    intro h0
    have : a / z = 1 := by linear_combination -h0
    rw [this] at h; simp at h
  simp [ZR.eval, ztTerm, ZR.scale, iter, ZR.dilate, ztBase, pscale, pdilate, pdilateFrom, peval]
  field_simp
  ring

/-- the executable spec predicate `ztSpecCheck` (the one the oracle runs on the real Lcapy's
    outputs) accepts the model's closed form for every signal and every bound N: it is not
    stricter than `IsZT` -/
theorem spec_predicate_accepts_model_partial [DecidableEq K] (ts : List (CTerm K)) (h : ∀ t ∈ ts, t.base.ok) (N : ℕ) :
    ztSpecCheck (sigVal ts) (ztSig ts) N = none :=
  ztSpecCheck_of_isZT (sigVal ts) (ztSig ts) (zt_closed_form_sound_partial ts h) N

/-- DTFT of the causal geometric sequence: on the unit circle `z = e^{jΩ}` (‖z‖ = 1) with ‖a‖ < 1 the
    bilateral defining sum `Σ_n a^n u[n] e^{-jΩn}` is the z-transform closed form evaluated at z -/
theorem dtft_geometric_on_circle {𝕜 : Type} [NormedField 𝕜] [CompleteSpace 𝕜] (a z : 𝕜)
    (hz : ‖z‖ = 1) (ha : ‖a‖ < 1) :
    ∑' n : ℕ, a ^ n * (z⁻¹) ^ n = ZR.eval (ztTerm (⟨1, 0, a, .one⟩ : CTerm 𝕜)) z := by
  have hz0 : z ≠ 0 := by
    intro h; rw [h, norm_zero] at hz; exact zero_ne_one hz
  exact anchor_geometric a z hz0 (by rw [norm_div, hz, div_one]; exact ha)

/-! ## 3. Inverse transform: long division recovers the sequence -/

/-- long division of `num/den` yields the coefficients of ANY series S with `den * S = num` -/
theorem longdiv_sound (num den : List K) (h : den.headD 0 ≠ 0) (S : K⟦X⟧)
    (hS : toPS den * S = toPS num) (n i : ℕ) (hi : i < n) :
    (series num den n).getD i 0 = coeff i S := series_unique num den h S hS n i hi

/-- `izt (zt x) = x`: for every n, the first n samples recovered from the closed form are x[0..n-1] -/
theorem izt_zt_partial (ts : List (CTerm K)) (h : ∀ t ∈ ts, t.base.ok) (n : ℕ) :
    series (ztSig ts).num (ztSig ts).den n = (List.range n).map (fun i : ℕ => sigVal ts (i : ℤ)) :=
  series_eq_of_isZT (zt_closed_form_sound_partial ts h) n

/-! ## 4. Difference equation, transfer function, impulse response, recursion -/

/-- `A·H = B` coefficient-wise  ⇔  h obeys the recursion `Σ_k a_k h[n-k] = b_n` -/
theorem AH_eq_B_iff_recursion (a b : List K) (h : ℕ → K) :
    toPS a * PowerSeries.mk h = toPS b ↔ ∀ n : ℕ, bsum a (extZ h) n = b.getD n 0 := by
  constructor
  · intro e n
    have := congrArg (coeff n) e
    rw [coeff_toPS_mul, coeff_toPS] at this
    simpa using this
  · intro e
    ext n
    rw [coeff_toPS_mul, coeff_toPS]
    simpa using e n

/-- the impulse response computed by long division satisfies `A·H = B` -/
theorem impulse_response_sound (b a : List K) (ha : a.headD 0 ≠ 0) :
    toPS a * PowerSeries.mk (hCoeff b a) = toPS b := toPS_a_mul_h b a ha

/-- the model of `DLTIFilter.response` (arbitrary initial conditions `ic = [y[-1], y[-2], …]`,
    arbitrary two-sided input) satisfies the difference equation at every n ≥ 0.
    `a[0] = 0` and a wrong number of initial conditions are rejected by the code with an error /
    division by zero (covered by the malformed stream of the harness). -/
theorem response_satisfies_recursion (b a : List K) (x : ℤ → K) (ic : List K)
    (ha : a.headD 0 ≠ 0) (hlen : a.length = ic.length + 1) (n : ℕ) :
    bsum a (respY b a x ic) n = bsum b x n := resp_recursion b a x ic ha hlen n

/-- zero initial conditions and causal input: `A(w) Y(w) = B(w) X(w)` -/
theorem recursion_transfer (b a : List K) (x : ℤ → K) (ic : List K) (ha : a.headD 0 ≠ 0)
    (hlen : a.length = ic.length + 1) (hic : ∀ v ∈ ic, v = 0) (hx : ∀ i, i < 0 → x i = 0) :
    toPS a * PowerSeries.mk (fun n : ℕ => respY b a x ic n)
      = toPS b * PowerSeries.mk (fun n : ℕ => x n) := recursion_ps b a x ic ha hlen hic hx

/-- … hence running the recursion is convolution with the impulse response -/
theorem recursion_is_convolution (b a : List K) (x : ℤ → K) (ic : List K) (ha : a.headD 0 ≠ 0)
    (hlen : a.length = ic.length + 1) (hic : ∀ v ∈ ic, v = 0) (hx : ∀ i, i < 0 → x i = 0) (n : ℕ) :
    respY b a x ic n = ∑ p ∈ Finset.antidiagonal n, hCoeff b a p.1 * x p.2 :=
  recursion_is_convolution' b a x ic ha hlen hic hx n

/-- response to initial conditions alone (`x[n] = 0` for n ≥ 0, `x[-1-i] = xic[i]`, `y[-1-i] = ic[i]`): the
    z-domain expression built by `zdomain_initial_response` (numerator `iniNum`, denominator `a`) is the
    z-transform of the recursion's output, for numerators of any length (finding F23 repaired) … -/
theorem initial_conditions_response (b a ic xic : List K) (ha : a.headD 0 ≠ 0)
    (hlen : a.length = ic.length + 1) :
    toPS a * PowerSeries.mk (fun n : ℕ => respY b a (negSeq xic) ic n) = toPS (iniNum b a ic xic) :=
  initial_response_ps b a ic xic ha hlen

/-- … hence its samples (long division) are the recursion's output, for every n -/
theorem initial_response_samples (b a ic xic : List K) (ha : a.headD 0 ≠ 0)
    (hlen : a.length = ic.length + 1) (n i : ℕ) (hi : i < n) :
    (series (iniNum b a ic xic) a n).getD i 0 = respY b a (negSeq xic) ic i := by
  have := series_unique (iniNum b a ic xic) a ha _ (initial_response_ps b a ic xic ha hlen) n i hi
  simpa using this

/-- `Sequence.lfilter(b, a)` obeys `Σ_k a_k y[n-k] = Σ_l b_l x[n-l]` started at rest … -/
theorem lfilter_satisfies_recursion (b a x : List K) (ha : a.headD 0 ≠ 0) (n : ℕ) (hn : n < x.length) :
    (lfilterPy b a x).getD n 0 = respY b a (litZ x) (List.replicate (a.length - 1) 0) n ∧
    bsum a (respY b a (litZ x) (List.replicate (a.length - 1) 0)) n = bsum b (litZ x) n :=
  ⟨lfilter_getD b a x n hn, lfilter_recursion b a x ha n⟩

/-- … i.e. it is the convolution of x with the impulse response of b/a -/
theorem lfilter_is_convolution (b a x : List K) (ha : a.headD 0 ≠ 0) (n : ℕ) (hn : n < x.length) :
    (lfilterPy b a x).getD n 0 = ∑ p ∈ Finset.antidiagonal n, hCoeff b a p.1 * litZ x p.2 :=
  lfilter_convolution b a x ha n hn

/-- `Sequence.convolve` is the convolution sum at every index of the full-length result -/
theorem convolve_is_convolution_sum (x h : List K) (hx : x ≠ []) (hh : h ≠ []) (n : ℕ)
    (hn : n < x.length + (h.length - 1)) :
    (convolvePy x h).getD n 0 = convAt h (litZ x) n := convolve_getD x h hx hh n hn

example : ([2, 1] : List ℚ).headD 0 ≠ 0 ∧ ([2, 1] : List ℚ).length = ([3] : List ℚ).length + 1
    := by simp

/-! ## 5. DFT closed forms equal the defining sum, for every N and every k -/

/-- `q = ω^k` for any N-th root of unity ω (so `q^N = 1`), any field of characteristic ≠ 2 (ℂ, and
    the prime field the driver computes in).  Whenever the model of `DFTTransformer.termXq` returns a
    value for a sum of terms `c n^p a^n {δ[n-d] | u[n-d] | 1}` (p ≤ 1; it returns `none` for p ≥ 2, for
    sinusoids, and — symbolic N only — at a pole `a q = 1`; for numeric N the bin where `a q = 1` carries the shifted
    special case, finding F20 repaired), that value is `Σ_{n<N} x[n] q^n`.
    `dftOk` excludes only, for symbolic N, a step starting beyond N (the code warns
    "assuming … in interval"); impulses are unconditional (finding F21 repaired). -/
theorem dft_def [DecidableEq K] (numeric : Bool) (ts : List (CTerm K)) (N : ℕ) (q : K) (hq : q ^ N = 1)
    (h2 : (1 + 1 : K) ≠ 0) (hok : ∀ t ∈ ts, dftOk numeric N t)
    (v : K) (hv : dftSig numeric ts N q = some v) :
    v = dftSum (fun n => sigVal ts n) q N := dft_sig_sound numeric ts N q hq h2 hok v hv

example : dftOk true 8 (⟨2, 1, 3, .step 2⟩ : CTerm ℚ) := by simp [dftOk]
example : dftSig true [(⟨2, 1, 3, .step 2⟩ : CTerm ℚ)] 8 (-1) ≠ none := by decide +kernel
-- the bin where the geometric base meets the kernel: ((-1)^n).DFT(N=4) at k = 2 is 4
example : dftSig true [(⟨1, 0, -1, .one⟩ : CTerm ℚ)] 4 (-1) = some 4 := by decide +kernel

/-- geometric family, all N, via the finite geometric sum -/
theorem dft_geometric (a q : K) (N : ℕ) (hq : q ^ N = 1) (h : 1 - a * q ≠ 0) :
    dftSum (fun n => a ^ n) q N = (1 - a ^ N) / (1 - a * q) := by
  have := geo0 a q h 0 N (Nat.zero_le _)
  simp only [Nat.zero_le, ↓reduceIte, pow_zero, mul_pow, hq, mul_one] at this
  exact this

/-- impulse family -/
theorem dft_impulse (d N : ℕ) (q : K) (hd : d < N) :
    dftSum (fun n => if n = d then (1 : K) else 0) q N = q ^ d := by
  rw [dftSum_single]; simp [hd]

/-- `IDFT(DFT x) = x`: `(1/N) Σ_k X[k] ω^{-nk} = x[n]` for a primitive N-th root ω -/
theorem idft_dft (N : ℕ) (ω : K) (hω : IsPrimitiveRoot ω N) (hN : (N : K) ≠ 0) (x : ℕ → K) (n : ℕ)
    (hn : n < N) :
    (1 / (N : K)) * dftSum (fun k => dftSum x (ω ^ k) N) ((ω⁻¹) ^ n) N = x n := by
  rw [idft_dft' N ω hω x n hn]; field_simp

example : ([1, 1 / 2] : List ℚ).headD 0 ≠ 0 ∧ ([1, 1 / 2] : List ℚ).length = ([0] : List ℚ).length + 1 := by
  simp

end Lcapy.C13
