/-
  PROPERTY C07, round 3 -- the netlist that `NetlistMaker` generates for a one-port tree has, at its
  two terminals, exactly the tree's relational semantics; so nodal analysis of `net.cct` (C01: MNA ⇔
  `Laws`) and the network algebra (`ser_thevenin` / `par_norton`: Z, Y, Voc, Isc ⇔ relation) describe
  the same thing, for every tree.

  Model : `Net.make`, `serMake`, `parMake`, `Leaf.make` of Model/OnePortNetlist.lean (mirror of
          `Ser/Par/Network/G._net_make`, on equipotential nodes).
  Spec  : `Net.rel` (Spec/OnePort.lean); `lawsOf`, `kclAt`, `Laws` (Spec/PortRel.lean, Spec/Laws.lean).
  Only property theorems live here; helper lemmas are in Lcapy/Proofs/OnePortNetlist.lean.
-/
import Lcapy.Proofs.OnePortNetlist
import Lcapy.Proofs.OnePortScan
import Lcapy.Props.C07
namespace Lcapy.C07
open Lcapy Lcapy.OnePort Lcapy.MNA Ix
set_option linter.unusedSectionVars false
variable {K : Type} [Field K] [DecidableEq K]

mutual
/-- **make_good**: for every drawable tree, between any two distinct terminals `a ≠ 0`, `b` and with
    fresh indices from `k` on, the generated components (i) use only indices ≥ k besides the terminals,
    (ii) admit, under the component laws and KCL at their interior nodes, only terminal pairs (v, i) of
    the tree's relation, and (iii) admit every such pair.  Structural induction on the tree. -/
theorem make_good (s : K) : (n : Net K) → n.drawable = true → ∀ a b k, a ≠ 0 → a ≠ b → a < k → b < k →
    Good s (n.rel s) a b k (n.make s a b k)
  | .leaf l, h, a, b, k, _, hab, hak, hbk => by
      simp only [Net.drawable] at h
      simpa [Net.make, Net.rel] using good_leaf s l h a b k hab hak hbk
  | .ser as, h, a, b, k, ha0, hab, hak, hbk => by
      simp only [Net.drawable, Bool.and_eq_true, Bool.not_eq_true', List.isEmpty_eq_false_iff] at h
      simpa [Net.make, Net.rel] using serMake_good s as h.1 h.2 a b k ha0 hab hak hbk
  | .par as, h, a, b, k, ha0, hab, hak, hbk => by
      simp only [Net.drawable] at h
      simpa [Net.make, Net.rel] using parMake_good s as h a b k ha0 hab hak hbk
theorem serMake_good (s : K) : (as : List (Net K)) → as ≠ [] → allDrawable as = true →
    ∀ a b k, a ≠ 0 → a ≠ b → a < k → b < k → Good s (relSer s as) a b k (serMake s as a b k)
  | [], h, _, _, _, _, _, _, _, _ => absurd rfl h
  | [x], _, hd, a, b, k, ha0, hab, hak, hbk => by
      simp only [allDrawable, Bool.and_true] at hd
      have := make_good s x hd a b k ha0 hab hak hbk
      simp only [serMake, relSer]
      exact this.congr (fun v i => ((SerRel_zero_right (x.rel s)) v i).symm)
  | x :: y :: t, _, hd, a, b, k, ha0, hab, hak, hbk => by
      simp only [allDrawable, Bool.and_eq_true] at hd
      have g1 := make_good s x hd.1 a k (k + 1) ha0 (by omega) (by omega) (by omega)
      have hk1 := g1.mono
      have g2 := serMake_good s (y :: t) (by simp) (by simp [allDrawable, hd.2]) k b (x.make s a k (k + 1)).2
        (by omega) (by omega) (by omega) (by omega)
      simp only [serMake]
      exact good_series s _ _ a b k _ _ ha0 hab hak hbk g1 g2
theorem parMake_good (s : K) : (as : List (Net K)) → allDrawable as = true →
    ∀ a b k, a ≠ 0 → a ≠ b → a < k → b < k → Good s (relPar s as) a b k (parMake s as a b k)
  | [], _, a, b, k, _, _, _, _ => by simpa [parMake, relPar] using good_par_nil s a b k
  | x :: t, hd, a, b, k, ha0, hab, hak, hbk => by
      simp only [allDrawable, Bool.and_eq_true] at hd
      have g1 := make_good s x hd.1 a b k ha0 hab hak hbk
      have hk1 := g1.mono
      have g2 := parMake_good s t hd.2 a b (x.make s a b k).2 ha0 hab (by omega) (by omega)
      simp only [parMake, relPar]
      exact good_parallel s _ _ a b k _ _ ha0 hab hak hbk g1 g2
end

/-- the port relation of a netlist between `a` (+) and `b` (−) whose interior unknowns have indices in
    [k, k'): some assignment obeys every component law and KCL at every interior node, with `v` across
    the terminals and `i` flowing into `a` -/
def NetlistPortRel (s : K) (cs : List (Cpt K)) (a b k k' : Nat) (v i : K) : Prop :=
  ∃ x, vd x a b = v ∧ lawsOf .ivp s cs x ∧ (∀ j, k ≤ j → j < k' → kclAt .ivp s cs x j = 0) ∧
    kclAt .ivp s cs x a = i

/-- **net_to_netlist_sound**: `NetlistMaker` calls `net._net_make(self, 1, 0)` with the counter at 2; the
    generated netlist admits at the port (1, 0) exactly the (v, i) pairs of the tree -/
theorem net_to_netlist_sound (s : K) (n : Net K) (hd : n.drawable = true) (v i : K) :
    NetlistPortRel s (n.make s 1 0 2).1 1 0 2 (n.make s 1 0 2).2 v i ↔ n.rel s v i := by
  have g := make_good s n hd 1 0 2 (by decide) (by decide) (by decide) (by decide)
  constructor
  · rintro ⟨x, rfl, hl, hk, rfl⟩
    exact (g.sound x hl hk).1
  · intro h
    let x0 : Ix → K := fun ix => if ix = node 1 then v else 0
    have hv : vd x0 1 0 = v := by simp [vd, volt, x0]
    obtain ⟨x, e, hl, hk, hc⟩ := g.complete x0 i (by rw [hv]; exact h)
    refine ⟨x, ?_, hl, hk, hc⟩
    rw [vd_congr_of 1 0 (e _ (not_inRange_node_lt (by decide))) (e _ (not_inRange_node_lt (by decide))), hv]

/-- **net_to_netlist_laws** (the link to C01): drive the generated netlist with an ideal voltage source `e`
    across its port; every solution of the complete circuit in the sense of C01's `Laws` (which `mna_iff_laws`
    identifies with the MNA system Lcapy solves) puts the pair (e, −J_source) on the tree's relation -- hence,
    by `ser_thevenin` / `par_norton`, on the line v = Voc + Z·i / i = Y·v − Isc that the network algebra reports. -/
theorem net_to_netlist_laws (s : K) (n : Net K) (hd : n.drawable = true) (e : K) (x : Ix → K)
    (hx : Laws .ivp s ((n.make s 1 0 2).1 ++ [.V 1 0 (n.make s 1 0 2).2 e]) x) :
    n.rel s e (-x (br (n.make s 1 0 2).2)) := by
  have g := make_good s n hd 1 0 2 (by decide) (by decide) (by decide) (by decide)
  have hk2 := g.mono
  rw [Laws_iff, lawsOf_append] at hx
  obtain ⟨hk, hl, hV⟩ := hx
  have hve : vd x 1 0 = e := by
    have := hV _ List.mem_cons_self ((n.make s 1 0 2).2, _) (by simp [laws]; rfl)
    linear_combination this
  have hint : ∀ j, 2 ≤ j → j < (n.make s 1 0 2).2 → kclAt .ivp s (n.make s 1 0 2).1 x j = 0 := by
    intro j h1 h2
    have := hk j (by omega)
    rw [kclAt_append] at this
    simp only [kclAt, List.map_cons, List.map_nil, lsum, outflow] at this
    rw [twoTerm_elsewhere 1 0 j (by omega) (by omega), add_zero, add_zero] at this
    exact this
  have h1 := hk 1 (by decide)
  rw [kclAt_append] at h1
  simp only [kclAt, List.map_cons, List.map_nil, lsum, outflow] at h1
  rw [twoTerm_at_first 1 0 (by decide), add_zero] at h1
  have hs := (g.sound x hl hint).1
  rw [hve] at hs
  have : kclAt .ivp s (n.make s 1 0 2).1 x 1 = -x (br (n.make s 1 0 2).2) := by
    simp only [kclAt]; linear_combination h1
  rw [this] at hs
  exact hs

/-- … and with the Thévenin bookkeeping of the algebra: the driven netlist's source current is
    determined by the (Z, Voc) that `Ser.impedance` / `Ser.Voc` report -/
theorem netlist_agrees_with_algebra (s : K) (n : Net K) (hd : n.drawable = true) (ht : n.tOK s = true)
    (e : K) (x : Ix → K)
    (hx : Laws .ivp s ((n.make s 1 0 2).1 ++ [.V 1 0 (n.make s 1 0 2).2 e]) x) :
    e = n.voc s + n.imp s * (-x (br (n.make s 1 0 2).2)) :=
  (ser_thevenin s n ht (icOK_always s n) _ _).mp (net_to_netlist_laws s n hd e x hx)

/-- non-vacuity: `(R 2 + L 3 (i0 = 1)) | C 4 (v0 = 5)` is drawable; its netlist is
    `R 1 2 2; L 2 0 3 1 (branch 3); C 1 0 4 5` with the series join on node 2 -/
example :
    let n : Net ℚ := .par [.ser [.leaf (.R 2), .leaf (.L 3 (some 1))], .leaf (.C 4 (some 5))]
    n.drawable = true ∧ (n.make (2 : ℚ) 1 0 2).2 = 4 ∧ ((n.make (2 : ℚ) 1 0 2).1).length = 3 := by
  decide +kernel

end Lcapy.C07
