/-
  PROPERTY C03, noise clause at the level of the code's ARITHMETIC: "contributions of distinct noise sources add in
  power while those of the same noise source add in amplitude".  Model: Lcapy/Model/NoiseAlg.lean
  (`NoiseExpression` operators and the noise keys of a `Superposition`).  The spec-level statements about
  `noisePower` are in Props/C03.lean.
-/
import Lcapy.Proofs.NoiseAlg
import Lcapy.Spec.Noise
import Mathlib.Tactic.Ring
import Mathlib.Algebra.Field.Basic
import Mathlib.Tactic.NormNum
namespace Lcapy.C03
open Lcapy.Noise
variable {K : Type} [Field K] [DecidableEq K]

/-! ### operators on noise expressions -/

/-- **noise_sub_zero_left**: a zero left operand of the SAME identifier: `0 − x = −x` in amplitude
    (the sign matters as soon as the result is combined in amplitude with another contribution of that identifier). -/
theorem noise_sub_zero_left (f n : Nat) (a b : K) :
    sub f ⟨.amp 0 0, n⟩ ⟨.amp a b, n⟩ = neg ⟨.amp a b, n⟩ := by
  by_cases h : a = 0 ∧ b = 0
  · obtain ⟨rfl, rfl⟩ := h; simp [sub, neg, NVal.isZero]
  · have hz : NVal.isZero (NVal.amp a b) = false := by
      simp only [NVal.isZero, Bool.and_eq_false_iff, decide_eq_false_iff_not]; tauto
    simp [sub, neg, hz]

/-- a zero left operand of the same identifier is neutral for `+` -/
theorem noise_add_zero_left (f n : Nat) (a b : K) :
    add f ⟨.amp 0 0, n⟩ ⟨.amp a b, n⟩ = some ⟨.amp a b, n⟩ := by
  by_cases h : a = 0 ∧ b = 0
  · obtain ⟨rfl, rfl⟩ := h; simp [add, NVal.isZero]
  · have hz : NVal.isZero (NVal.amp a b) = false := by
      simp only [NVal.isZero, Bool.and_eq_false_iff, decide_eq_false_iff_not]; tauto
    simp [add, hz]

/-- a zero right operand (whatever its identifier) is neutral for `+` and `−`: value AND identifier are kept -/
theorem noise_add_zero_right (f m : Nat) (x : NE K) : add f x ⟨.amp 0 0, m⟩ = some x := by
  simp [add, NVal.isZero]

theorem noise_sub_zero_right (f m : Nat) (x : NE K) : sub f x ⟨.amp 0 0, m⟩ = some x := by
  simp [sub, NVal.isZero]

/-- same identifier: amplitudes add / subtract componentwise, the identifier is kept -/
theorem noise_add_same (f n : Nat) (a b c d : K) (h : ¬(c = 0 ∧ d = 0)) :
    add f ⟨.amp a b, n⟩ ⟨.amp c d, n⟩ = some ⟨.amp (a + c) (b + d), n⟩ := by
  have hz : NVal.isZero (NVal.amp c d) = false := by
    simp only [NVal.isZero, Bool.and_eq_false_iff, decide_eq_false_iff_not]; tauto
  simp [add, hz]

theorem noise_sub_same (f n : Nat) (a b c d : K) (h : ¬(c = 0 ∧ d = 0)) :
    sub f ⟨.amp a b, n⟩ ⟨.amp c d, n⟩ = some ⟨.amp (a - c) (b - d), n⟩ := by
  have hz : NVal.isZero (NVal.amp c d) = false := by
    simp only [NVal.isZero, Bool.and_eq_false_iff, decide_eq_false_iff_not]; tauto
  simp [sub, hz]

/-- `x − x = 0` for one realisation -/
theorem noise_sub_self (f n : Nat) (a b : K) :
    ∃ r, sub f ⟨.amp a b, n⟩ ⟨.amp a b, n⟩ = some r ∧ r.nid = n ∧ r.v.power = 0 := by
  by_cases h : a = 0 ∧ b = 0
  · obtain ⟨rfl, rfl⟩ := h; exact ⟨⟨.amp 0 0, n⟩, by simp [sub, NVal.isZero], rfl, by simp [NVal.power]⟩
  · exact ⟨_, noise_sub_same f n a b a b h, rfl, by simp [NVal.power]⟩

/-- distinct identifiers: POWERS add, under a fresh identifier — for `+` and for `−` alike -/
theorem noise_add_distinct (f n m : Nat) (x y : NVal K) (hnm : n ≠ m) (hy : y.isZero = false) :
    add f ⟨x, n⟩ ⟨y, m⟩ = some ⟨.rss (x.power + y.power), f⟩ := by
  simp [add, hy, hnm]

theorem noise_sub_distinct (f n m : Nat) (x y : NVal K) (hnm : n ≠ m) (hy : y.isZero = false) :
    sub f ⟨x, n⟩ ⟨y, m⟩ = some ⟨.rss (x.power + y.power), f⟩ := by
  simp [sub, add, hy, hnm]

/-- in particular a zero LEFT operand of ANOTHER identifier turns `x` into its magnitude under a fresh identifier:
    the power is kept, phase and identity are lost -/
theorem noise_sub_zero_left_distinct (f n m : Nat) (a b : K) (hnm : n ≠ m) (h : ¬(a = 0 ∧ b = 0)) :
    sub f ⟨.amp 0 0, n⟩ ⟨.amp a b, m⟩ = some ⟨.rss (a * a + b * b), f⟩ := by
  have hz : NVal.isZero (NVal.amp a b) = false := by
    simp only [NVal.isZero, Bool.and_eq_false_iff, decide_eq_false_iff_not]; tauto
  rw [noise_sub_distinct f n m _ _ hnm hz]; simp [NVal.power]

/-- negation and scaling keep the identifier; the power scales by c² (so −x has the power of x) -/
theorem noise_neg_power (x r : NE K) (h : neg x = some r) : r.nid = x.nid ∧ r.v.power = x.v.power := by
  obtain ⟨v, n⟩ := x
  cases v with
  | amp a b => simp only [neg, Option.some.injEq] at h; subst h; simp [NVal.power]
  | rss p =>
    simp only [neg] at h
    split_ifs at h with hp
    simp only [Option.some.injEq] at h; subst h; simp

theorem noise_smul_power (c : K) (x r : NE K) (h : smul c x = some r) (hx : ∃ a b, x.v = .amp a b) :
    r.nid = x.nid ∧ r.v.power = c * c * x.v.power := by
  obtain ⟨v, n⟩ := x
  obtain ⟨a, b, rfl⟩ := hx
  simp only [smul, Option.some.injEq] at h; subst h
  simp only [NVal.power, true_and]; ring

/-- `(x + y) − y = x` for contributions of ONE identifier (the docstring's `a + b − b` is only wrong across identifiers) -/
theorem noise_add_sub_cancel (f n : Nat) (a b c d : K) (h : ¬(c = 0 ∧ d = 0)) :
    (add f ⟨.amp a b, n⟩ ⟨.amp c d, n⟩).bind (fun s => sub f s ⟨.amp c d, n⟩) = some ⟨.amp a b, n⟩ := by
  rw [noise_add_same f n a b c d h]
  simp only [Option.bind_some]
  rw [noise_sub_same f n _ _ c d h]
  simp

/-- scaling distributes over the amplitude sum of one identifier -/
theorem noise_smul_add (f n : Nat) (k a b c d : K) (hk : k ≠ 0) (h : ¬(c = 0 ∧ d = 0)) :
    (add f ⟨.amp a b, n⟩ ⟨.amp c d, n⟩).bind (smul k) =
      (smul k ⟨.amp a b, n⟩).bind (fun x => (smul k ⟨.amp c d, n⟩).bind (fun y => add f x y)) := by
  rw [noise_add_same f n a b c d h]
  have h' : ¬(k * c = 0 ∧ k * d = 0) := by
    rintro ⟨h1, h2⟩
    exact h ⟨(mul_eq_zero.mp h1).resolve_left hk, (mul_eq_zero.mp h2).resolve_left hk⟩
  simp only [smul, Option.bind_some]
  rw [noise_add_same f n _ _ _ _ h']
  simp [mul_add]

/-! ### the noise keys of a Superposition -/

/-- **superposition_noise_amplitude**: adding a noise value to a superposition adds its complex amplitude to what is
    stored for ITS identifier and leaves every other identifier alone — whatever is already there, whether the sum
    vanishes (key popped) or not. -/
theorem lookup_addNoise (d : NDict K) (n : Nat) (v : K × K) (hd : (keys d).Nodup) (m : Nat) :
    lookup (addNoise d n v) m = if m = n then cadd (lookup d m) v else lookup d m := by
  induction d with
  | nil =>
    by_cases hv : v = czero
    · subst hv; simp [addNoise, lookup, cadd_zero]
    · by_cases hm : m = n
      · subst hm; simp only [addNoise, if_neg hv, lookup, if_true]; simp [cadd, czero]
      · simp only [addNoise, if_neg hv, lookup, if_neg (Ne.symm hm), if_neg hm]
  | cons p t ih =>
    obtain ⟨k, u⟩ := p
    simp only [keys, List.map_cons, List.nodup_cons] at hd
    by_cases hv : v = czero
    · subst hv; simp [addNoise, cadd_zero]
    · simp only [addNoise, hv, if_false]
      by_cases hk : k = n
      · subst hk
        by_cases hm : m = k
        · subst hm
          by_cases hs : cadd u v = czero
          · simp only [hs, if_true, lookup]
            rw [lookup_not_mem t m hd.1]
          · simp [hs, lookup]
        · have hkm : k ≠ m := Ne.symm hm
          by_cases hs : cadd u v = czero
          · simp [hs, lookup, hm, hkm]
          · simp [hs, lookup, hm, hkm]
      · simp only [hk, if_false, lookup]
        by_cases hkm : k = m
        · subst hkm; simp [hk]
        · simp only [hkm, if_false]; exact ih hd.2

/-- **parts_add_in_amplitude**: combining per-source parts into a superposition (`P₁ + P₂ + …`, `Superposition.add`
    over any list of contributions, in any order, identifiers shared or not) stores for every identifier the SUM of the
    complex amplitudes contributed under that identifier. -/
theorem lookup_superAdd (d e : NDict K) (hd : (keys d).Nodup) (m : Nat) :
    lookup (superAdd d e) m = cadd (lookup d m) (contrib e m) := by
  induction e generalizing d with
  | nil => simp [superAdd, contrib, cadd_zero]
  | cons p t ih =>
    obtain ⟨k, v⟩ := p
    simp only [superAdd, List.foldl_cons] at ih ⊢
    rw [ih _ (addNoise_nodup d k v hd), lookup_addNoise d k v hd]
    simp only [contrib, List.foldr_cons]
    by_cases hk : k = m
    · subst hk; simp only [if_true, cadd, Prod.mk.injEq]; constructor <;> ring
    · simp [hk, Ne.symm hk]

/-- **whole_minus_part**: subtracting a part from the whole removes exactly that part's amplitude from its identifier -/
theorem lookup_superSub (d e : NDict K) (hd : (keys d).Nodup) (m : Nat) :
    lookup (superSub d e) m = cadd (lookup d m) (cneg (contrib e m)) := by
  rw [superSub, lookup_superAdd d _ hd]
  congr 1
  induction e with
  | nil => simp [superNeg, contrib, cneg, czero]
  | cons p t ih =>
    obtain ⟨k, v⟩ := p
    simp only [superNeg, List.map_cons, contrib, List.foldr_cons] at ih ⊢
    split_ifs
    · rw [ih]; simp only [cadd, cneg, Prod.mk.injEq]; constructor <;> ring
    · exact ih

/-- the reported `.n`² is the sum over the stored identifiers of the squared magnitude of what is stored -/
theorem totalPower_eq (d : NDict K) (hd : (keys d).Nodup) :
    totalPower d = ((keys d).map (fun k => normSq' (lookup d k))).sum := by
  induction d with
  | nil => simp [totalPower, keys]
  | cons p t ih =>
    obtain ⟨k, u⟩ := p
    simp only [keys, List.map_cons, List.nodup_cons] at hd
    simp only [totalPower, keys, List.map_cons, List.sum_cons, lookup, if_true]
    rw [ih hd.2]
    congr 1
    simp only [keys, List.map_map]
    congr 1
    apply List.map_congr_left
    intro q hq
    have : k ≠ q.1 := fun h => hd.1 (h ▸ List.mem_map.mpr ⟨q, hq, rfl⟩)
    simp [this]

/-- what is stored for an identifier is the spec's group sum of the contributions carrying that identifier -/
theorem contrib_eq_groupSum (e : NDict K) (m : Nat) :
    contrib e m = groupSum ((e.filter (fun p => p.1 = m)).map (fun p => (p.2, (1 : K)))) := by
  induction e with
  | nil => simp [contrib, groupSum, czero]
  | cons p t ih =>
    obtain ⟨k, u, v⟩ := p
    simp only [contrib, List.foldr_cons] at ih ⊢
    by_cases hk : k = m
    · subst hk
      have hf : List.filter (fun p : Nat × K × K => decide (p.1 = k)) ((k, u, v) :: t) =
          (k, u, v) :: List.filter (fun p => decide (p.1 = k)) t := by simp [List.filter_cons]
      rw [hf]
      simp only [if_true, List.map_cons, groupSum, ← ih]
      simp [cadd]
    · have hf : List.filter (fun p : Nat × K × K => decide (p.1 = m)) ((k, u, v) :: t) =
          List.filter (fun p => decide (p.1 = m)) t := by simp [List.filter_cons, hk]
      rw [hf]
      simp only [hk, if_false]
      exact ih

theorem noisePower_map {α : Type} (f : α → List ((K × K) × K)) (l : List α) :
    noisePower (l.map f) = (l.map (fun a => normSq (groupSum (f a)))).sum := by
  induction l with
  | nil => simp [noisePower]
  | cons a t ih => simp [noisePower, ih]

/-- **parts_power_is_noisePower** (code arithmetic = spec): the `.n`² of the superposition assembled from ANY list of
    per-source contributions (identifier, complex amplitude H_k a_k) is the spec's `noisePower` of the contributions
    grouped by identifier — amplitude within an identifier, power across identifiers. -/
theorem parts_power_is_noisePower (e : NDict K) :
    totalPower (superAdd [] e) =
      noisePower ((keys (superAdd [] e)).map (fun k => (e.filter (fun p => p.1 = k)).map (fun p => (p.2, (1 : K))))) := by
  have hn : (keys (superAdd ([] : NDict K) e)).Nodup := superAdd_nodup [] e (by simp [keys])
  rw [totalPower_eq _ hn, noisePower_map]
  congr 1
  apply List.map_congr_left
  intro k _
  rw [lookup_superAdd [] e (by simp [keys]), ← contrib_eq_groupSum]
  simp [lookup, cadd, czero, normSq', normSq]

/-- two parts of ONE identifier reassemble in amplitude: power |u + v|², cross term included (spec: `noise_cross_term`) -/
example : totalPower (superAdd ([] : NDict ℚ) [(1, (3, 0)), (1, (4, 0))]) = 49 := by
  norm_num [superAdd, addNoise, totalPower, normSq', cadd, czero]

/-- two identifiers: powers add -/
example : totalPower (superAdd ([] : NDict ℚ) [(1, (3, 0)), (2, (4, 0))]) = 25 := by
  norm_num [superAdd, addNoise, totalPower, normSq', cadd, czero]

/-- the situation of a voltage between two nodes whose positive node is noise-free: 0 − x, then + y of the same identifier -/
example : (sub 9 (⟨.amp 0 0, 1⟩ : NE ℚ) ⟨.amp 3 1, 1⟩).bind (fun r => add 9 r ⟨.amp 5 0, 1⟩) = some ⟨.amp 2 (-1), 1⟩ := by
  rw [noise_sub_zero_left]
  norm_num [neg, add, NVal.isZero]

end Lcapy.C03
