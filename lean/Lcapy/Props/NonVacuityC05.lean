/-
  AUDIT (reviewer, not the owner): machine-checked NON-VACUITY witnesses for the theorems of Props/C05.lean and
  Props/C05CW.lean that carry hypotheses.  Every `nv_*` instantiates the audited theorem itself on a concrete,
  realistic input (real 2-4 component netlists / chains with orientation and initial conditions), so all of its
  hypotheses are proved to hold together; where the conclusion is worth seeing it is drawn.
  Also: `nv_simulates_discriminates` (the predicate `Simulates` rejects a wrong combined value) and the class-(e)
  finding `preserved_of_empty_solution` about the oracle predicate of Spec/Retained.lean.
  Nothing here weakens or replaces a property theorem.
-/
import Lcapy.Props.C05
import Lcapy.Props.C05CW
import Mathlib.Data.Complex.Basic
namespace Lcapy.NonVacuity.C05
open Lcapy.MNA Lcapy.Rewrite Lcapy.C05 Ix

/-! ## Part 1 of Props/C05.lean: value / IC / polarity rules -/

/-- `R1 1 2 3; R2 2 3 5; R3 3 0 2` (a chain of three): all hypotheses of `series_chain_R` hold and the
    theorem turns the one-element relation (20 V, 2 A through 10 Ω) into the chain relation -/
theorem nv_series_chain_R : chainRel Kind.dc (0 : ℚ) ([3, 5, 2].map TT.R) 20 2 :=
  (series_chain_R Kind.dc (0 : ℚ) [3, 5, 2] (by intro r hr; simp at hr; rcases hr with rfl | rfl | rfl <;> norm_num)
    (by norm_num [combineVal, sumVals]) 20 2).mpr (by norm_num [TT.rel, combineVal, sumVals])

theorem nv_series_chain_Z : chainRel Kind.lap (2 : ℚ) ([2, 3].map TT.Z) 10 2 :=
  (series_chain_Z Kind.lap (2 : ℚ) [2, 3] (by intro r hr; simp at hr; rcases hr with rfl | rfl <;> norm_num)
    (by norm_num [combineVal, sumVals]) 10 2).mpr (by norm_num [TT.rel, combineVal, sumVals])

theorem nv_series_chain_Y : chainRel Kind.lap (2 : ℚ) ([2, 3].map TT.Y) 5 6 :=
  (series_chain_Y Kind.lap (2 : ℚ) [2, 3] (by intro r hr; simp at hr; rcases hr with rfl | rfl <;> norm_num)
    (by norm_num [sumK]) 5 6).mpr (by norm_num [TT.rel, combineVal, recipSum, sumVals])

/-- `V1 1 2 5; V2 3 2 3` (opposite orientation): 2 V across the chain, any current -/
theorem nv_series_chain_V : chainRel Kind.dc (0 : ℚ) ([(true, (5 : ℚ)), (false, 3)].map (fun p => (TT.V p.2).orient p.1)) 2 7 :=
  (series_chain_V Kind.dc (0 : ℚ) [(true, 5), (false, 3)] 2 7).mpr (by norm_num [TT.rel, combineSrc, sumVals])

/-- `L1 1 2 2 3; L2 0 2 4 -3` (second one reversed, so its initial current is +3 along the chain) in the
    initial-value problem at s = 2: hypothesis `hI` holds with I0 = 3 -/
theorem nv_series_chain_L :
    chainRel Kind.ivp (2 : ℚ) ([(true, (2 : ℚ), some (3 : ℚ)), (false, 4, some (-3))].map (fun p => (TT.L p.2.1 p.2.2).orient p.1)) (-6) 1 :=
  (series_chain_L Kind.ivp (2 : ℚ) [(true, 2, some 3), (false, 4, some (-3))] 3
    (by intro p hp; simp at hp; rcases hp with rfl | rfl <;> norm_num [sgn, icv]) (-6) 1).mpr
    (by norm_num [TT.rel, combineVal, sumVals, icv])

/-- `C1 1 2 2 5; C2 0 2 3 1` at s = 2 (initial-value problem) -/
theorem nv_series_chain_C (v i : ℚ) :
    chainRel Kind.ivp (2 : ℚ) ([(true, (2 : ℚ), some (5 : ℚ)), (false, 3, some 1)].map (fun p => (TT.C p.2.1 p.2.2).orient p.1)) v i ↔
      TT.rel Kind.ivp (2 : ℚ) (.C (6 / 5) (some 4)) v i := by
  have := series_chain_C Kind.ivp (Or.inr rfl) (2 : ℚ) (by norm_num) [(true, 2, some 5), (false, 3, some 1)]
    (by intro p hp; simp at hp; rcases hp with rfl | rfl <;> norm_num) (by norm_num [sumK]) v i
  rw [this]
  norm_num [combineVal, recipSum, sumVals, sumK, sgn, icv]

theorem nv_parallel_group_R : groupRel Kind.dc (0 : ℚ) ([3, 6].map TT.R) 6 3 :=
  (parallel_group_R Kind.dc (0 : ℚ) [3, 6] (by intro r hr; simp at hr; rcases hr with rfl | rfl <;> norm_num)
    (by norm_num [sumK]) 6 3).mpr (by norm_num [TT.rel, combineVal, recipSum, sumVals])

theorem nv_parallel_group_Z : groupRel Kind.lap (1 : ℚ) ([3, 6].map TT.Z) 6 3 :=
  (parallel_group_Z Kind.lap (1 : ℚ) [3, 6] (by intro r hr; simp at hr; rcases hr with rfl | rfl <;> norm_num)
    (by norm_num [sumK]) 6 3).mpr (by norm_num [TT.rel, combineVal, recipSum, sumVals])

/-- `C1 1 0 2 5; C2 0 1 3 -5` in parallel, initial-value problem: `hV` holds with V0 = 5 -/
theorem nv_parallel_group_C (v i : ℚ) :
    groupRel Kind.ivp (2 : ℚ) ([(true, (2 : ℚ), some (5 : ℚ)), (false, 3, some (-5))].map (fun p => (TT.C p.2.1 p.2.2).orient p.1)) v i ↔
      TT.rel Kind.ivp (2 : ℚ) (.C (combineVal true [2, 3]) (some 5)) v i :=
  parallel_group_C Kind.ivp (2 : ℚ) [(true, 2, some 5), (false, 3, some (-5))] 5
    (by intro p hp; simp at hp; rcases hp with rfl | rfl <;> norm_num [sgn, icv]) v i

/-- `L1 1 0 2 3; L2 0 1 4 1` in parallel at s = 2 -/
theorem nv_parallel_group_L (v i : ℚ) :
    groupRel Kind.ivp (2 : ℚ) ([(true, (2 : ℚ), some (3 : ℚ)), (false, 4, some 1)].map (fun p => (TT.L p.2.1 p.2.2).orient p.1)) v i ↔
      TT.rel Kind.ivp (2 : ℚ) (.L (4 / 3) (some 2)) v i := by
  have := parallel_group_L Kind.ivp (Or.inr rfl) (2 : ℚ) (by norm_num) [(true, 2, some 3), (false, 4, some 1)]
    (by intro p hp; simp at hp; rcases hp with rfl | rfl <;> norm_num) (by norm_num [sumK]) v i
  rw [this]
  norm_num [combineVal, recipSum, sumVals, sumK, sgn, icv]

theorem nv_combine_perm_invariant : combineVal false [(2 : ℚ), 3, 6] = combineVal false [6, 2, 3] :=
  combine_perm_invariant false (by decide)

theorem nv_combineIC_perm_invariant :
    combineIC false (some (9 : ℚ)) [(true, some (5 : ℚ)), (false, some 1), (true, none)] =
      combineIC false none [(true, none), (true, some 5), (false, some 1)] :=
  combineIC_perm_invariant (by decide) _ _

/-- `_check_ic` accepts `L1 … 3`, `L2 (reversed) … −3`; the common signed value is 3 -/
theorem nv_checkIC_sound : checkIC [(true, some (3 : ℚ)), (false, some (-3))] = true ∧
    ∃ I0 : ℚ, ∀ p ∈ [(true, some (3 : ℚ)), (false, some (-3))], sgn p.1 (icv p.2) = I0 := by
  have h : checkIC [(true, some (3 : ℚ)), (false, some (-3))] = true := by simp [checkIC]
  exact ⟨h, checkIC_sound _ h⟩

/-- … and it rejects unequal ones, so the hypothesis of `checkIC_sound` is not always true -/
theorem nv_checkIC_rejects : checkIC [(true, some (3 : ℚ)), (true, some 4)] = false := by simp [checkIC]

theorem nv_rel_ic_congr (v i : ℚ) :
    (TT.rel Kind.ivp (2 : ℚ) (.L 4 none) v i ↔ TT.rel Kind.ivp 2 (.L 4 (some 0)) v i) :=
  (rel_ic_congr Kind.ivp (2 : ℚ) 4 none (some 0) rfl v i).1

theorem nv_combineSrc_same_orientation :
    combineSrc [(true, (5 : ℚ)), (true, 3)] = combineVal true [5, 3] :=
  combineSrc_same_orientation _ (by intro p hp; simp at hp; rcases hp with rfl | rfl <;> rfl)

/-- the pieces `checkIC_sound` → `series_chain_L` → `combineIC_shared` DO compose to a statement about what the code
    computes (value `combineVal true`, initial condition `combineIC true first.ic …`) on `L1 1 2 2 3; L2 0 2 4 -3`;
    Props/C05.lean states the three pieces only separately -/
theorem nv_series_L_code_rule (v i : ℚ) :
    chainRel Kind.ivp (2 : ℚ) ([(true, (2 : ℚ), some (3 : ℚ)), (false, 4, some (-3))].map (fun p => (TT.L p.2.1 p.2.2).orient p.1)) v i ↔
      TT.rel Kind.ivp (2 : ℚ) (.L (combineVal true [2, 4]) (combineIC true (some 3) [(true, some 3), (false, some (-3))])) v i := by
  obtain ⟨I0, hI0⟩ := checkIC_sound [(true, some (3 : ℚ)), (false, some (-3))] (by simp [checkIC])
  have h3 : I0 = 3 := by have := hI0 (true, some 3) (by simp); simpa [sgn, icv] using this.symm
  subst h3
  rw [combineIC_shared]
  exact series_chain_L Kind.ivp (2 : ℚ) [(true, 2, some 3), (false, 4, some (-3))] 3
    (by intro p hp; simp at hp; rcases hp with rfl | rfl <;> norm_num [sgn, icv]) v i

/-- the additive rule: `series_chain_C` + `combineIC_additive` + `rel_ic_congr` compose to the code's `combineIC false` -/
theorem nv_series_C_code_rule (v i : ℚ) :
    chainRel Kind.ivp (2 : ℚ) ([(true, (2 : ℚ), some (5 : ℚ)), (false, 3, none)].map (fun p => (TT.C p.2.1 p.2.2).orient p.1)) v i ↔
      TT.rel Kind.ivp (2 : ℚ) (.C (combineVal false [2, 3]) (combineIC false (some 5) [(true, some 5), (false, none)])) v i := by
  have h := series_chain_C Kind.ivp (Or.inr rfl) (2 : ℚ) (by norm_num) [(true, 2, some 5), (false, 3, none)]
    (by intro p hp; simp at hp; rcases hp with rfl | rfl <;> norm_num) (by norm_num [sumK]) v i
  rw [h]
  exact (rel_ic_congr Kind.ivp (2 : ℚ) _ _ _
    (by rw [combineIC_additive]; simp [icv]) v i).2

/-- `plain_sum_wrong_for_series_L_ic` is a bare arithmetic fact; this is the statement it stands for: the summed
    initial current 3 + 3 of `L1 1 2 2 3; L2 2 0 4 3` is NOT equivalent to the common current 3 -/
theorem nv_plain_sum_wrong_for_series_L_ic_meaning :
    ¬ (∀ v i : ℚ, TT.rel Kind.ivp (1 : ℚ) (.L (2 + 4) (some (3 + 3))) v i ↔ TT.rel Kind.ivp 1 (.L (2 + 4) (some 3)) v i) := by
  rw [rule_L_ic_unique]; norm_num

theorem nv_series_R (v i : ℚ) : chainRel Kind.dc (0 : ℚ) [.R 3, .R 5] v i ↔ TT.rel Kind.dc 0 (.R (combineVal true [3, 5])) v i :=
  series_R Kind.dc (0 : ℚ) 3 5 (by norm_num) (by norm_num) (by norm_num) v i
theorem nv_series_Z (v i : ℚ) : chainRel Kind.lap (2 : ℚ) [.Z 3, .Z 5] v i ↔ TT.rel Kind.lap 2 (.Z (combineVal true [3, 5])) v i :=
  series_Z Kind.lap (2 : ℚ) 3 5 (by norm_num) (by norm_num) (by norm_num) v i
theorem nv_series_L (v i : ℚ) : chainRel Kind.ivp (2 : ℚ) [.L 2 (some 3), (TT.L 4 (some (-3))).orient false] v i ↔
    TT.rel Kind.ivp 2 (.L (combineVal true [2, 4]) (some 3)) v i :=
  series_L Kind.ivp (2 : ℚ) 2 4 (some 3) (some (-3)) false 3 rfl (by norm_num [sgn, icv]) v i
theorem nv_series_C (v i : ℚ) : chainRel Kind.ivp (2 : ℚ) [.C 2 (some 5), (TT.C 3 none).orient false] v i ↔
    TT.rel Kind.ivp 2 (.C (combineVal false [2, 3]) (some (icv (some 5) + sgn false (icv none)))) v i :=
  series_C Kind.ivp (Or.inr rfl) (2 : ℚ) 2 3 (some 5) none false (by norm_num) (by norm_num) (by norm_num) (by norm_num) v i
theorem nv_parallel_R (v i : ℚ) : groupRel Kind.dc (0 : ℚ) [.R 3, .R 6] v i ↔ TT.rel Kind.dc 0 (.R (combineVal false [3, 6])) v i :=
  parallel_R Kind.dc (0 : ℚ) 3 6 (by norm_num) (by norm_num) (by norm_num) v i
theorem nv_parallel_C (v i : ℚ) : groupRel Kind.ivp (2 : ℚ) [.C 2 (some 5), (TT.C 3 (some (-5))).orient false] v i ↔
    TT.rel Kind.ivp 2 (.C (combineVal true [2, 3]) (some 5)) v i :=
  parallel_C Kind.ivp (2 : ℚ) 2 3 (some 5) (some (-5)) false 5 rfl (by norm_num [sgn, icv]) v i
theorem nv_parallel_L (v i : ℚ) : groupRel Kind.ivp (2 : ℚ) [.L 2 (some 3), (TT.L 4 none).orient true] v i ↔
    TT.rel Kind.ivp 2 (.L (combineVal false [2, 4]) (some (icv (some 3) + sgn true (icv none)))) v i :=
  parallel_L Kind.ivp (Or.inr rfl) (2 : ℚ) 2 4 (some 3) none true (by norm_num) (by norm_num) (by norm_num) (by norm_num) v i

/-! ## Part 2 of Props/C05.lean: circuit level -/

/-- the simplify step `R1 1 2 3; R2 2 0 5 ↦ Rt1 1 0 8` (branch indices 7, 8, 9 are dummies: resistors own none) -/
theorem nv_series_pair_R :
    SamePortRelation Kind.dc (0 : ℚ) (AllBut [node 2, br 7, br 8, br 9])
      [(TT.R 3).toCpt 1 2 7, (TT.R 5).toCpt 2 0 8] [(TT.R 8).toCpt 1 0 9] :=
  series_pair Kind.dc (0 : ℚ) (.R 3) (.R 5) (.R 8) 1 2 0 7 8 9 (by decide) (by decide) (by decide)
    (fun v i => by rw [series_R Kind.dc (0 : ℚ) 3 5 (by norm_num) (by norm_num) (by norm_num) v i]; norm_num [combineVal, sumVals])

/-- a chain whose members OWN branch currents that disappear: `V1 1 2 5; V2 2 0 3 ↦ Vt1 1 0 8`
    (branches 1, 2 vanish, branch 3 is new): the hypothesis `hser` is satisfiable for it too -/
theorem nv_series_pair_V :
    SamePortRelation Kind.dc (0 : ℚ) (AllBut [node 2, br 1, br 2, br 3])
      [Cpt.V 1 2 1 5, Cpt.V 2 0 2 3] [Cpt.V 1 0 3 8] :=
  series_pair Kind.dc (0 : ℚ) (.V 5) (.V 3) (.V 8) 1 2 0 1 2 3 (by decide) (by decide) (by decide)
    (fun v i => by
      have := series_V Kind.dc (0 : ℚ) 5 3 true v i
      simp only [TT.orient, if_true] at this
      rw [this]; norm_num [sgn])

/-- `R1 1 0 3; R2 1 0 6 ↦ Rt1 1 0 2` -/
theorem nv_parallel_pair_R :
    SamePortRelation Kind.dc (0 : ℚ) (AllBut [br 7, br 8, br 9])
      [(TT.R 3).toCpt 1 0 7, (TT.R 6).toCpt 1 0 8] [(TT.R 2).toCpt 1 0 9] :=
  parallel_pair Kind.dc (0 : ℚ) (.R 3) (.R 6) (.R 2) 1 0 7 8 9 (by decide)
    (fun v i => by rw [parallel_R Kind.dc (0 : ℚ) 3 6 (by norm_num) (by norm_num) (by norm_num) v i]; norm_num [combineVal, recipSum, sumVals])

/-- `I1 1 0 2; I2 0 1 5 ↦ It1 1 0 -3` (opposite orientation) -/
theorem nv_parallel_pair_I :
    SamePortRelation Kind.dc (0 : ℚ) (AllBut [br 7, br 8, br 9])
      [Cpt.I 1 0 2, Cpt.I 1 0 (-5)] [Cpt.I 1 0 (-3)] :=
  parallel_pair Kind.dc (0 : ℚ) (.I 2) (.I (-5)) (.I (-3)) 1 0 7 8 9 (by decide)
    (fun v i => by
      have := parallel_I Kind.dc (0 : ℚ) 2 5 false v i
      simp only [TT.orient, TT.flip, Bool.false_eq_true, if_false] at this
      rw [this]; norm_num [sgn])

/-- `V1 0 1 6` is `V 1 0 -6` -/
theorem nv_reversed : Simulates Kind.dc (0 : ℚ) (AllBut [br 0]) [Cpt.V 0 1 0 6] [Cpt.V 1 0 0 (-6)] :=
  reversed Kind.dc (0 : ℚ) (.V 6) 1 0 0

/-! ### `subcircuit_congruence` / `rewrite_preserves_retained` on a real simplify step inside a circuit with a source:
    `V1 1 0 16; R1 1 2 3; R2 2 0 5`  ↦  `V1 1 0 16; Rt1 1 0 8` -/

def Ret : Ix → Prop := AllBut [node 2, br 7, br 8, br 9]
def sub1 : List (Cpt ℚ) := [(TT.R 3).toCpt 1 2 7, (TT.R 5).toCpt 2 0 8]
def sub2 : List (Cpt ℚ) := [(TT.R 8).toCpt 1 0 9]
def rest : List (Cpt ℚ) := [Cpt.V 1 0 0 16]
/-- the solution of the original: V(1) = 16, V(2) = 10, J(V1) = −2 -/
def xsol : Ix → ℚ := fun i => match i with | node 1 => 16 | node 2 => 10 | br 0 => -2 | _ => 0
/-- a solution of the simplified circuit -/
def ysol : Ix → ℚ := fun i => match i with | node 1 => 16 | br 0 => -2 | _ => 0

theorem nv_hsim : Simulates Kind.dc (0 : ℚ) Ret sub1 sub2 := nv_series_pair_R.1

theorem nv_hrest : SupportedIn Ret rest := by
  intro c hc i hi
  simp only [rest, List.mem_cons, List.mem_nil_iff, or_false] at hc; subst hc
  simp only [mentions, List.mem_cons, List.mem_nil_iff, or_false] at hi
  rcases hi with rfl | rfl | rfl <;> simp [Ret, AllBut]

theorem nv_hwf : C01.WF (sub2 ++ rest) := by simp [C01.WF, sub2, rest, TT.toCpt, owned]

theorem nv_hns : C01.Nonsingular Kind.dc (0 : ℚ) (sub2 ++ rest) := by
  intro z hz i hi
  have h1 := hz (node 1) (by simp)
  have h3 := hz (br 0) (by simp)
  simp [sub2, rest, TT.toCpt, stampAll, stamp, Stamp.append, branchPattern, admPattern, lhsSum, ground] at h1 h3
  obtain ⟨hi0, hi⟩ := hi
  simp [sub2, rest, TT.toCpt, C01.unknowns, stampAll, stamp, Stamp.append, branchPattern, admPattern] at hi
  have e1 : z (node 1) = 0 := h3
  have e3 : z (br 0) = 0 := by rw [e1] at h1; linarith
  casesm* _ ∨ _ <;> subst_vars <;> first | assumption | exact absurd rfl hi0

theorem nv_hx : Laws Kind.dc (0 : ℚ) (sub1 ++ rest) xsol := by
  constructor
  · intro k hk
    match k with
    | 0 => exact absurd rfl hk
    | 1 => norm_num [sub1, rest, xsol, TT.toCpt, outflow, twoTerm, lsum, vd, volt]
    | 2 => norm_num [sub1, rest, xsol, TT.toCpt, outflow, twoTerm, lsum, vd, volt]
    | (k + 3) => simp [sub1, rest, TT.toCpt, outflow, twoTerm, lsum]
  · intro c hc p hp
    simp only [sub1, rest, List.cons_append, List.nil_append, List.mem_cons, List.mem_nil_iff, or_false] at hc
    rcases hc with rfl | rfl | rfl <;> simp [TT.toCpt, laws] at hp
    subst hp; norm_num [xsol, vd, volt]

theorem nv_hy : Laws Kind.dc (0 : ℚ) (sub2 ++ rest) ysol := by
  constructor
  · intro k hk
    match k with
    | 0 => exact absurd rfl hk
    | 1 => norm_num [sub2, rest, ysol, TT.toCpt, outflow, twoTerm, lsum, vd, volt]
    | (k + 2) => simp [sub2, rest, TT.toCpt, outflow, twoTerm, lsum]
  · intro c hc p hp
    simp only [sub2, rest, List.cons_append, List.nil_append, List.mem_cons, List.mem_nil_iff, or_false] at hc
    rcases hc with rfl | rfl <;> simp [TT.toCpt, laws] at hp
    subst hp; norm_num [ysol, vd, volt]

/-- every hypothesis of `subcircuit_congruence` holds for the step; the theorem produces a solution of the
    simplified circuit with V(1) = 16 and J(V1) = −2 -/
theorem nv_subcircuit_congruence :
    ∃ y, y (node 1) = 16 ∧ y (br 0) = -2 ∧ Laws Kind.dc (0 : ℚ) (sub2 ++ rest) y := by
  obtain ⟨y, hy, hl⟩ := subcircuit_congruence Kind.dc (0 : ℚ) Ret sub1 sub2 rest nv_hsim nv_hrest xsol nv_hx
  exact ⟨y, (hy (node 1) (by simp [Ret, AllBut])).trans rfl, (hy (br 0) (by simp [Ret, AllBut])).trans rfl, hl⟩

/-- every hypothesis of `rewrite_preserves_retained` holds TOGETHER (simulation, support, WF, non-singularity,
    both circuits solved); the retained unknowns that are unknowns of the new circuit are exactly V(1) and J(V1) -/
theorem nv_rewrite_preserves_retained :
    (∀ i, Ret i → C01.Unknown Kind.dc (0 : ℚ) (sub2 ++ rest) i → ysol i = xsol i) ∧
    (Ret (node 1) ∧ C01.Unknown Kind.dc (0 : ℚ) (sub2 ++ rest) (node 1)) ∧
    (Ret (br 0) ∧ C01.Unknown Kind.dc (0 : ℚ) (sub2 ++ rest) (br 0)) := by
  refine ⟨rewrite_preserves_retained Kind.dc (0 : ℚ) Ret sub1 sub2 rest nv_hsim nv_hrest nv_hwf nv_hns xsol ysol nv_hx nv_hy, ?_, ?_⟩
  · refine ⟨by simp [Ret, AllBut], by simp, ?_⟩
    simp [sub2, rest, TT.toCpt, C01.unknowns, stampAll, stamp, Stamp.append, branchPattern, admPattern]
  · refine ⟨by simp [Ret, AllBut], by simp, ?_⟩
    simp [sub2, rest, TT.toCpt, C01.unknowns, stampAll, stamp, Stamp.append, branchPattern, admPattern]

/-! ### dangling removal -/

/-- `R3 2 3 5` hanging from node 2 (node 3 otherwise unconnected): the guards hold, the resistor admits zero
    current (at 0 V), so it can be removed and re-attached -/
theorem nv_dangling_sound :
    Simulates Kind.dc (0 : ℚ) (AllBut [node 3, br 9]) [(TT.R 5).toCpt 2 3 9] [] ∧
    Simulates Kind.dc (0 : ℚ) (AllBut [node 3, br 9]) [] [(TT.R 5).toCpt 2 3 9] := by
  have h := dangling_sound Kind.dc (0 : ℚ) (.R 5) 2 3 9 (by decide) (by decide)
  exact ⟨h.2.1, h.2.2 ⟨0, by norm_num [TT.rel]⟩⟩

/-- the antecedent of the third part is not always true: a dangling current source `I1 2 3 2` admits no zero current -/
theorem nv_dangling_I_excluded : ¬ ∃ v : ℚ, TT.rel Kind.dc (0 : ℚ) (.I 2) v 0 := by
  rintro ⟨v, hv⟩; norm_num [TT.rel] at hv

/-! ### renaming -/

/-- swapping the names of nodes 1 and 2 of `V1 1 0 6; R1 1 2 3; C1 2 0 2`: `ρ` is injective and keeps ground -/
theorem nv_rename_invariant (x : Ix → ℚ) :
    Laws Kind.lap (2 : ℚ) [Cpt.V 2 0 0 6, Cpt.R 2 1 3, Cpt.Cap 1 0 2 none] x ↔
      Laws Kind.lap (2 : ℚ) [Cpt.V 1 0 0 6, Cpt.R 1 2 3, Cpt.Cap 2 0 2 none] (pullback (Equiv.swap 1 2) x) := by
  have := rename_invariant Kind.lap (2 : ℚ) (Equiv.swap 1 2) (Equiv.injective _) (by decide)
    [Cpt.V 1 0 0 6, Cpt.R 1 2 3, Cpt.Cap 2 0 2 none] x
  simpa [Cpt.mapNodes, Equiv.swap_apply_def] using this

/-! ## sanity of the predicates -/

/-- `Simulates` is not trivially true: the WRONG value 9 Ω for `R1 1 2 3; R2 2 0 5` is rejected -/
theorem nv_simulates_discriminates :
    ¬ Simulates Kind.dc (0 : ℚ) (AllBut [node 2, br 7, br 8, br 9]) [Cpt.R 1 2 3, Cpt.R 2 0 5] [Cpt.R 1 0 9] := by
  intro h
  obtain ⟨y, hy, _, _, hr⟩ := h (fun i => match i with | node 1 => 16 | node 2 => 10 | _ => 0)
    (by intro c hc p hp; simp only [List.mem_cons, List.mem_nil_iff, or_false] at hc; rcases hc with rfl | rfl <;> simp [laws] at hp)
    (by
      intro k hk0 hR
      have : k = 2 := by simpa [AllBut] using hR
      subst this
      norm_num [kclAt, outflow, twoTerm, lsum, vd, volt])
  have h1 := hr 1 (by decide) (by simp [AllBut])
  have e1 := hy (node 1) (by simp [AllBut])
  norm_num [kclAt, outflow, twoTerm, lsum, vd, volt] at h1 e1
  rw [e1] at h1; norm_num at h1

/-- FINDING (class e) on the oracle predicate of Spec/Retained.lean: a quantity missing from either solution is not
    compared, so `Preserved` holds for ANY pair of netlists when a solution is empty -/
theorem preserved_of_empty_solution (mode : Mode) (ren : String → String) (orig new : Net ℚ) (sn : Sol ℚ) :
    Preserved mode ren orig new ⟨[], []⟩ sn := by
  have hf : ∀ {α : Type} (l : List α), l.find? (fun _ => false) = none := by
    intro α l; induction l <;> simp_all
  simp [Preserved, firstDifference, Sol.v, Sol.i, hf]

/-! ## Props/C05CW.lean -/

/-- `V1 1 0 6; R1 1 2 3` with R1 split (noise model, source killed) on dummy node 11 / branch 11:
    both steps are simulations and they are separated -/
def cwSteps : List (Rw ℚ) :=
  [⟨[.V 1 0 0 6], [.V 1 0 0 6], []⟩,
   ⟨[.R 1 2 3], noisyKilledCpt 11 11 (.R 1 2 3), noisyHidden 11 11 (.R 1 2 (3 : ℚ))⟩,
   ⟨[.R 2 0 5], noisyKilledCpt 12 12 (.R 2 0 5), noisyHidden 12 12 (.R 2 0 (5 : ℚ))⟩]

theorem nv_cw_h1 : ∀ p ∈ cwSteps, Simulates Kind.dc (0 : ℚ) (AllBut' p.hid) p.orig p.rep := by
  intro p hp
  simp only [cwSteps, List.mem_cons, List.mem_nil_iff, or_false] at hp
  rcases hp with rfl | rfl | rfl
  · exact Simulates.refl _ _ _ _
  · exact (noisy_step Kind.dc (0 : ℚ) ⟨.R 1 2 3, 11, 11⟩ (by simp [Alloc.Fresh, mentions])).1
  · exact (noisy_step Kind.dc (0 : ℚ) ⟨.R 2 0 5, 12, 12⟩ (by simp [Alloc.Fresh, mentions])).1

theorem nv_cw_h2 : cwSteps.Pairwise (fun p q => p.Sep q ∧ q.Sep p) := by
  simp [cwSteps, Rw.Sep, SupportedIn, AllBut', mentions, noisyKilledCpt, noisyHidden]

/-- the solution V(1) = 6, V(2) = 15/4, J(V1) = −3/4 of `V1 1 0 6; R1 1 2 3; R2 2 0 5` -/
def cwx : Ix → ℚ := fun i => match i with | node 1 => 6 | node 2 => 15 / 4 | br 0 => -3 / 4 | _ => 0

theorem nv_cw_hx : Laws Kind.dc (0 : ℚ) (cwSteps.flatMap (·.orig)) cwx := by
  constructor
  · intro k hk
    match k with
    | 0 => exact absurd rfl hk
    | 1 => norm_num [cwSteps, cwx, outflow, twoTerm, lsum, vd, volt]
    | 2 => norm_num [cwSteps, cwx, outflow, twoTerm, lsum, vd, volt]
    | (k + 3) => simp [cwSteps, outflow, twoTerm, lsum]
  · intro c hc p hp
    simp only [cwSteps, List.flatMap_cons, List.flatMap_nil, List.cons_append, List.nil_append, List.append_nil,
      List.mem_cons, List.mem_nil_iff, or_false] at hc
    rcases hc with rfl | rfl | rfl <;> simp [laws] at hp
    subst hp; norm_num [cwx, vd, volt]

theorem nv_componentwise_congruence :
    ∃ y, y (node 1) = 6 ∧ y (node 2) = 15 / 4 ∧ y (br 0) = -3 / 4 ∧
      Laws Kind.dc (0 : ℚ) [.V 1 0 0 6, .R 1 11 3, .V 11 2 11 0, .R 2 12 5, .V 12 0 12 0] y := by
  obtain ⟨y, hy, hl⟩ := componentwise_congruence Kind.dc (0 : ℚ) cwSteps nv_cw_h1 nv_cw_h2 cwx nv_cw_hx
  refine ⟨y, (hy _ (by simp [cwSteps, noisyHidden])).trans rfl, (hy _ (by simp [cwSteps, noisyHidden])).trans rfl,
    (hy _ (by simp [cwSteps, noisyHidden])).trans rfl, ?_⟩
  simpa [cwSteps, noisyKilledCpt] using hl

/-- the allotment of `noise_model_killed_equiv` for the same netlist -/
def nzAlloc : List (Alloc ℚ) := [⟨.V 1 0 0 6, 10, 10⟩, ⟨.R 1 2 3, 11, 11⟩, ⟨.R 2 0 5, 12, 12⟩]

theorem nv_nz_fresh : ∀ a ∈ nzAlloc, a.Fresh := by
  intro a ha
  simp only [nzAlloc, List.mem_cons, List.mem_nil_iff, or_false] at ha
  rcases ha with rfl | rfl | rfl <;> simp [Alloc.Fresh, mentions]

theorem nv_nz_apart : nzAlloc.Pairwise (fun p q => p.Apart q ∧ q.Apart p) := by
  simp [nzAlloc, Alloc.Apart, Alloc.priv, Alloc.touch, mentions, indBr]

theorem nv_noise_model_killed_equiv :
    ∃ y, y (node 2) = 15 / 4 ∧
      Laws Kind.dc (0 : ℚ) [.V 1 0 0 6, .R 1 11 3, .V 11 2 11 0, .R 2 12 5, .V 12 0 12 0] y := by
  have h := (noise_model_killed_equiv Kind.dc (0 : ℚ) nzAlloc nv_nz_fresh nv_nz_apart).1 cwx
    (by simpa [nzAlloc, cwSteps] using nv_cw_hx)
  obtain ⟨y, hy, hl⟩ := h
  refine ⟨y, (hy _ (by simp [nzAlloc, noisyHidden])).trans rfl, ?_⟩
  simpa [nzAlloc, noisyKilledCpt] using hl

/-! ### s_model -/

/-- `V1 1 0 {6/s}; C1 1 0 2 5` at s = 2 (dummy node 12, new branch 12), as in the adjacent example of the owner -/
def smAlloc : List (Alloc ℚ) := [⟨.V 1 0 0 3, 10, 10⟩, ⟨.Cap 1 0 2 (some 5), 12, 12⟩]

theorem nv_sm_ok : ∀ a ∈ smAlloc, a.OK (2 : ℚ) := by
  intro a ha
  simp only [smAlloc, List.mem_cons, List.mem_nil_iff, or_false] at ha
  rcases ha with rfl | rfl <;> simp [Alloc.OK, Alloc.Fresh, mentions]

theorem nv_sm_apart : smAlloc.Pairwise (fun p q => p.Apart q ∧ q.Apart p) := by
  simp [smAlloc, Alloc.Apart, Alloc.priv, Alloc.touch, mentions, indBr]

def smx : Ix → ℚ := fun i => match i with | node 1 => 3 | br 0 => -2 | _ => 0

theorem nv_sm_hx : Laws Kind.ivp (2 : ℚ) (smAlloc.map (·.c)) smx := by
  constructor
  · intro k hk
    match k with
    | 0 => exact absurd rfl hk
    | 1 => norm_num [smAlloc, smx, outflow, twoTerm, lsum, vd, volt, capCurrent]
    | (k + 2) => simp [smAlloc, outflow, twoTerm, lsum]
  · intro c hc p hp
    simp only [smAlloc, List.map_cons, List.map_nil, List.mem_cons, List.mem_nil_iff, or_false] at hc
    rcases hc with rfl | rfl <;> simp [laws] at hp
    subst hp; norm_num [smx, vd, volt]

theorem nv_sm_eq : sModel (2 : ℚ) smAlloc = [.V 1 0 0 3, .Y 1 12 (1 / (1 / (2 * 2))), .V 12 0 12 (5 / 2)] := by
  simp [smAlloc, sModel, sModelCpt, icv]

/-- `s_model_equiv` applied: the s-domain model `V1; ZC1 1 12 {1/(2s)}; VC1 12 0 {5/s}` has a solution with V(1) = 3, J(V1) = −2 -/
theorem nv_s_model_equiv :
    ∃ y, y (node 1) = 3 ∧ y (br 0) = -2 ∧
      Laws Kind.lap (2 : ℚ) [.V 1 0 0 3, .Y 1 12 (1 / (1 / (2 * 2))), .V 12 0 12 (5 / 2)] y := by
  obtain ⟨y, hy, hl⟩ := (s_model_equiv (2 : ℚ) (by norm_num) smAlloc nv_sm_ok nv_sm_apart).1 smx nv_sm_hx
  rw [nv_sm_eq] at hl
  exact ⟨y, (hy _ (by simp [smAlloc, sHidden, sModelHidden, icv])).trans rfl,
    (hy _ (by simp [smAlloc, sHidden, sModelHidden, icv])).trans rfl, hl⟩

theorem nv_sm_wf : C01.WF (sModel (2 : ℚ) smAlloc) := by rw [nv_sm_eq]; simp [C01.WF, owned]

theorem nv_sm_ns : C01.Nonsingular Kind.lap (2 : ℚ) (sModel 2 smAlloc) := by
  rw [nv_sm_eq]
  intro z hz i hi
  have h1 := hz (node 1) (by simp)
  have h2 := hz (node 12) (by simp)
  have h3 := hz (br 0) (by simp)
  have h4 := hz (br 12) (by simp)
  simp [stampAll, stamp, Stamp.append, branchPattern, admPattern, lhsSum, ground] at h1 h2 h3 h4
  obtain ⟨hi0, hi⟩ := hi
  simp [C01.unknowns, stampAll, stamp, Stamp.append, branchPattern, admPattern] at hi
  have e1 : z (node 1) = 0 := h3
  have e2 : z (node 12) = 0 := h4
  have e3 : z (br 0) = 0 := by rw [e1, e2] at h1; linarith
  have e4 : z (br 12) = 0 := by rw [e1, e2] at h2; linarith
  casesm* _ ∨ _ <;> subst_vars <;> first | assumption | exact absurd rfl hi0

/-- the solution of the s-domain model: V(1) = 3, V(12) = 5/2, J(V1) = −2, J(VC1) = 2 -/
def smy : Ix → ℚ := fun i => match i with | node 1 => 3 | node 12 => 5 / 2 | br 0 => -2 | br 12 => 2 | _ => 0

theorem nv_sm_hy : Laws Kind.lap (2 : ℚ) (sModel 2 smAlloc) smy := by
  rw [nv_sm_eq]
  constructor
  · intro k hk
    match k with
    | 0 => exact absurd rfl hk
    | 1 => norm_num [smy, outflow, twoTerm, lsum, vd, volt]
    | 12 => norm_num [smy, outflow, twoTerm, lsum, vd, volt]
    | 2 | 3 | 4 | 5 | 6 | 7 | 8 | 9 | 10 | 11 => simp [outflow, twoTerm, lsum]
    | (k + 13) => simp [outflow, twoTerm, lsum]
  · intro c hc p hp
    simp only [List.mem_cons, List.mem_nil_iff, or_false] at hc
    rcases hc with rfl | rfl | rfl <;> simp [laws] at hp
    · subst hp; norm_num [smy, vd, volt]
    · subst hp; norm_num [smy, vd, volt]

/-- ALL hypotheses of `s_model_preserves` hold together, and the theorem is applied -/
theorem nv_s_model_preserves :
    ∀ i, i ∉ sHidden smAlloc → C01.Unknown Kind.lap (2 : ℚ) (sModel 2 smAlloc) i → smy i = smx i :=
  s_model_preserves (2 : ℚ) (by norm_num) smAlloc nv_sm_ok nv_sm_apart nv_sm_wf nv_sm_ns smx smy nv_sm_hx nv_sm_hy

/-! ### replace_switches -/

theorem nv_replace_switches_noevent :
    replaceSwitches (1 : ℚ) true [({ name := "SW1", ty := "SW", nodes := ["4", "5"], kw := "nc", val := some 2 } : Elt ℚ),
                                  { name := "R1", ty := "R", nodes := ["5", "0"], val := some 3 }]
    = replaceSwitches (1 : ℚ) false [{ name := "SW1", ty := "SW", nodes := ["4", "5"], kw := "nc", val := some 2 },
                                     { name := "R1", ty := "R", nodes := ["5", "0"], val := some 3 }] := by
  apply replace_switches_noevent
  intro e he _
  simp only [List.mem_cons, List.mem_nil_iff, or_false] at he
  rcases he with rfl | rfl <;> norm_num

theorem nv_switch_before_at_event : switchClosed SwKind.no (2 : ℚ) 2 true = switchClosed SwKind.no (2 : ℚ) 1 false :=
  switch_before_at_event SwKind.no (2 : ℚ) 1 (by norm_num)

/-! ### ac_model -/

/-- `V1 1 0 ac 6; R1 1 2 3; L1 2 0 4` at ω = 2, over ℂ with j = `Complex.I` -/
noncomputable def acAlloc : List (Alloc ℂ) := [⟨.V 1 0 0 6, 10, 10⟩, ⟨.R 1 2 3, 11, 11⟩, ⟨.Ind 2 0 1 4 none [], 13, 13⟩]

theorem nv_ac_ok : ∀ a ∈ acAlloc, a.OK (Complex.I * 2) := by
  intro a ha
  simp only [acAlloc, List.mem_cons, List.mem_nil_iff, or_false] at ha
  rcases ha with rfl | rfl | rfl <;> simp [Alloc.OK, Alloc.Fresh, mentions]

theorem nv_ac_apart : acAlloc.Pairwise (fun p q => p.Apart q ∧ q.Apart p) := by
  simp [acAlloc, Alloc.Apart, Alloc.priv, Alloc.touch, mentions, indBr]

/-- both hypotheses `j·j = −1` and `j·ω ≠ 0` hold over ℂ and the theorem applies to the netlist -/
theorem nv_ac_model_equiv :
    (∀ x, Laws Kind.ivp (Complex.I * 2) (acAlloc.map (·.c)) x →
      ∃ y, (∀ i, i ∉ sHidden acAlloc → y i = x i) ∧ Laws Kind.lap (Complex.I * 2) (sModel (Complex.I * 2) acAlloc) y) ∧
    (∀ y, Laws Kind.lap (Complex.I * 2) (sModel (Complex.I * 2) acAlloc) y →
      ∃ x, (∀ i, i ∉ sHidden acAlloc → x i = y i) ∧ Laws Kind.ivp (Complex.I * 2) (acAlloc.map (·.c)) x) :=
  ac_model_equiv Complex.I (2 : ℂ) Complex.I_mul_I (by simp) acAlloc nv_ac_ok nv_ac_apart

/-- (owner's follow-up) `ac_model_equiv_noic`: the same netlist has no initial conditions, so phasor analysis (`Kind.lap`
    at s = jω) of the netlist and of its ac model agree -/
theorem nv_ac_model_equiv_noic :
    (∀ x, Laws Kind.lap (Complex.I * 2) (acAlloc.map (·.c)) x →
      ∃ y, (∀ i, i ∉ sHidden acAlloc → y i = x i) ∧ Laws Kind.lap (Complex.I * 2) (sModel (Complex.I * 2) acAlloc) y) ∧
    (∀ y, Laws Kind.lap (Complex.I * 2) (sModel (Complex.I * 2) acAlloc) y →
      ∃ x, (∀ i, i ∉ sHidden acAlloc → x i = y i) ∧ Laws Kind.lap (Complex.I * 2) (acAlloc.map (·.c)) x) :=
  ac_model_equiv_noic Complex.I (2 : ℂ) Complex.I_mul_I (by simp) acAlloc nv_ac_ok nv_ac_apart
    (by intro a ha; simp only [acAlloc, List.mem_cons, List.mem_nil_iff, or_false] at ha
        rcases ha with rfl | rfl | rfl <;> rfl)

end Lcapy.NonVacuity.C05
