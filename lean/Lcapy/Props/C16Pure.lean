/-
  C16 -- QUERY PURITY, ABSTRACTION and the EXCEPTION BRANCH of the cache model (Model/Cache.lean).

  * abstraction: the next abstract state (elements + node tables of every instance) and the exception flag of
    every operation are functions of the abstract state alone; memo entries, class-level cache entries and the
    clock never influence them (`abstraction`, `history_abstraction`);
  * query purity: a read-only operation leaves the abstract state unchanged -- for EVERY configuration, also one
    in which a query mutates a cached object (`query_pure`); it can be erased from a history (`query_erasable`);
    and when no query mutates a cached object of a claimed slot, every later answer is what it would have been
    without the query (`query_transparent`); the proviso is necessary (`damaging_query_not_transparent`);
  * exception branch: an operation that raises leaves the abstract state unchanged (`failed_op_atomic`) except
    where the code is not atomic (witnesses); histories WITH failing operations refine the fresh rebuild when
    `add` invalidates in a `finally` and detaches a half-built component (`fresh_refinement_with_failures`);
  * components of any arity: witnesses for a `remove` that detaches only a slice of the nodes.
-/
import Lcapy.Props.C16
set_option linter.unusedVariables false
namespace Lcapy.C16
open Lcapy.Cache

/-! ## abstraction

  MODEL-STRUCTURAL theorems (`abstraction`, `history_abstraction`, `memos_never_matter`, `query_pure`, `derive_pure`,
  `query_erasable`): they hold of EVERY configuration because of the shape of `Model/Cache.lean` -- a query writes memo
  fields only, every operation acts on one instance, the next element dictionary and node table are computed from the
  current ones.  They are the reason why `Inv` need not mention memo contents when elements change, and they are used by
  `query_transparent` and `failed_op_atomic`, which DO need the invariant.  By themselves they say nothing about lcapy;
  "a query of lcapy is pure" rests on
    * Props/C16PureCode.lean `read_only_members_write_only_memo_state_partial` / `query_pure_current` (decide over the
      generated table `memberWrites`: one row per public member of the netlist classes -- every non-mutator writes memo
      slots only) and Props/C16Tables.lean `every_public_member_has_rows`, `shared_cached_objects_not_mutated`;
    * the purity oracle (every query twice, then the fixed battery on the same instance, compared with a fresh rebuild)
      and the structural comparison after every operation.
-/

/-- the abstract successor state and the exception flag depend on the abstract state only -/
theorem abstraction (cfg : Config) (w w' : World) (h : w.abs = w'.abs) (op : Op) :
    (step cfg w op).1.abs = (step cfg w' op).1.abs ∧ (step cfg w op).2 = (step cfg w' op).2 :=
  ⟨abs_of_strip (step_congr (strip_of_abs h) op).1, (step_congr (strip_of_abs h) op).2⟩

theorem history_abstraction (cfg : Config) (w w' : World) (h : w.abs = w'.abs) (ops : List Op) :
    (run cfg w ops).abs = (run cfg w' ops).abs ∧ (NoRaise cfg w ops ↔ NoRaise cfg w' ops) :=
  ⟨abs_of_strip (run_congr ops (strip_of_abs h)), noRaise_congr ops (strip_of_abs h)⟩

/-- in particular a world full of memo entries behaves like the same world without any -/
theorem memos_never_matter (cfg : Config) (w : World) (ops : List Op) :
    (run cfg w ops).abs = (run cfg (strip w) ops).abs :=
  (history_abstraction cfg w (strip w) (abs_of_strip (strip_idem w).symm) ops).1

/-! ## query purity -/

/-- QUERY PURITY: a query (analysis, graph query, ladder, transfer, ... -- whatever it reads, whatever it
    memoises, even if it mutates a cached object) leaves the elements and node tables of every instance unchanged -/
theorem query_pure (cfg : Config) (w : World) (i : Nat) (q : String) :
    (step cfg w (.query i q)).1.abs = w.abs :=
  abs_of_strip (step_query_strip w i q)

/-- deriving a circuit (copy / simplify / kill / subs ...) leaves every existing instance unchanged: the abstract
    state is extended by the new instance only -/
theorem derive_pure (cfg : Config) (w : World) (i : Nat) (pre : String) (es : List Elt) :
    (step cfg w (.derive i pre es)).1.abs.take w.insts.length = w.abs := by
  apply List.ext_getElem?
  intro k
  simp only [World.abs, List.getElem?_take, List.getElem?_map]
  by_cases hk : k < w.insts.length
  · simp only [hk, if_true]
    by_cases hki : k = i
    · subst hki
      have := derive_source (cfg := cfg) { w with clock := w.clock + 1 } k pre es hk
      simpa [step] using this
    · have := derive_other (cfg := cfg) { w with clock := w.clock + 1 } i k pre es hki hk
      simp only [step]; rw [this]
  · simp only [hk, if_false]
    rw [List.getElem?_eq_none (by omega)]; rfl

/-- a query can be erased from any position of a history: the same abstract state is reached, and the rest of
    the history raises an exception iff it did before -/
theorem query_erasable (cfg : Config) (w : World) (pre post : List Op) (i : Nat) (q : String) :
    (run cfg w (pre ++ .query i q :: post)).abs = (run cfg w (pre ++ post)).abs :=
  abs_of_strip (run_erase_query pre post w i q)

/-- OBSERVATIONAL PURITY: when no read-only member mutates a cached object of a slot of `G` (third field of
    `CfgOK`), a query inserted anywhere in an admissible history changes no later answer on any instance -/
theorem query_transparent (cfg : Config) (G : String → Bool) (hc : CfgOK cfg G)
    (pre post : List Op) (i : Nat) (q : String) (hr : RunOK cfg World.empty (pre ++ post))
    (j : Nat) (q' : String) (hq' : ∀ d ∈ cfg.readsOf q', G d = true) :
    answer cfg (run cfg World.empty (pre ++ .query i q :: post)) j q' =
      answer cfg (run cfg World.empty (pre ++ post)) j q' := by
  have hs := run_erase_query (cfg := cfg) pre post World.empty i q
  have hr' := (runOK_erase_query (cfg := cfg) pre post World.empty i q).2 hr
  rcases get_congr hs j with ⟨hx, hy⟩ | ⟨x, y, hx, hy, hxy⟩
  · -- no such instance on either side: a query on a missing instance reads nothing
    simp [answer, query, hx, hy]
    have h0 : ∀ (ds : List String) (w : World), w.insts[j]? = none →
        (readSlots cfg j w ds).2 = ds.map (fun d => (d, none)) := by
      intro ds
      induction ds with
      | nil => intro w _; rfl
      | cons d ds ih =>
        intro w hw
        simp only [readSlots, readSlot, hw, List.map_cons]
        rw [ih w hw]; rfl
    rw [h0 _ _ hx, h0 _ _ hy]
  · have h1 := (fresh_refinement_on cfg G hc _ hr' j x hx).1 q' hq'
    have h2 := (fresh_refinement_on cfg G hc _ hr j y hy).1 q' hq'
    rw [h1, h2, (stripI_eq.1 hxy).1]

/-- the premise of `query_transparent` is satisfiable together with a history that has queries of every kind -/
example : CfgOK exCfg3 (fun _ => true) ∧
    RunOK exCfg3 World.empty ([.new, .add 0 ⟨"E1", "E", ["3", "0", "2", "0"], "10"⟩] ++ [.query 0 "q", .remove 0 "E1"]) := by
  refine ⟨⟨?_, fun _ _ _ _ => rfl, by intro p hp; cases hp⟩, ?_⟩
  · intro s _ hk
    cases hk' : exCfg3.kindOf s with
    | none => simp [hk'] at hk
    | some k =>
      have : (s, k) ∈ exCfg3.memoised := lookup_mem _ _ _ hk'
      simp only [exCfg3, List.mem_cons, List.mem_nil_iff, or_false, Prod.mk.injEq] at this
      rcases this with ⟨rfl, _⟩ | ⟨rfl, _⟩ | ⟨rfl, _⟩ <;> decide
  · simp only [RunOK, Op.admissible, List.cons_append, List.nil_append, uniqueNames]; decide

/-- lcapy's configuration restricted to the circuit graph, with a `ladder` that works on the circuit's cached
    graph and consumes its edges (what the AST scan `sharedMutations` reports as `damages`) -/
def cfgLadder : Config where
  memoised := [("node_list", .cprop), ("circuit_graph", .lru)]
  cleared := ["node_list", "circuit_graph"]
  addInvalidates := true
  addMultiInvalidates := true
  removeInvalidates := true
  initInvalidates := true
  overrideDetaches := true
  keepConnectedNode := true
  deps := [("circuit_graph", ["node_list"])]
  reads := [("is_connected", ["node_list", "circuit_graph"]), ("ladder", ["node_list", "circuit_graph"])]
  spawns := []
  damages := [("ladder", "circuit_graph")]

/-- the proviso of `query_transparent` is necessary: after a `ladder` that mutates the cached graph, the next
    graph query is answered from an object that no longer reflects the netlist -- although the abstract state
    is untouched (`query_pure`) -/
theorem damaging_query_not_transparent :
    let pre : List Op := [.new, .add 0 ⟨"R1", "R", ["1", "2"], "2"⟩, .add 0 ⟨"C1", "C", ["2", "0"], "3"⟩, .query 0 "is_connected"]
    answer cfgLadder (run cfgLadder World.empty (pre ++ [.query 0 "ladder"])) 0 "is_connected" ≠
      answer cfgLadder (run cfgLadder World.empty pre) 0 "is_connected" ∧
    (run cfgLadder World.empty (pre ++ [.query 0 "ladder"])).abs = (run cfgLadder World.empty pre).abs := by decide

/-! ## the exception branch -/

/-- ATOMICITY.  When `Node.remove` cannot raise half way, an operation that raises -- `remove` of an unknown
    name, `add` of a malformed line (single line), `add` of a line whose component cannot be built or registered
    provided the code detaches the half-built component -- leaves every instance's elements and node table
    exactly as they were. -/
theorem failed_op_atomic (cfg : Config) (hk : cfg.keepConnectedNode = true) (w : World) (op : Op)
    (hop : op.atomicOnFailure cfg) (hf : (step cfg w op).2 = false) : (step cfg w op).1.abs = w.abs :=
  abs_of_strip (failed_step_strip hk w op hop hf)

example : Op.atomicOnFailure exCfg3 (.addFail 0 [] ⟨"Isc", "I", ["2", "3"], "1"⟩ true) ∧
    (step exCfg3 (run exCfg3 World.empty [.new, .add 0 ⟨"R1", "R", ["1", "2"], "1"⟩])
      (.addFail 0 [] ⟨"Isc", "I", ["2", "3"], "1"⟩ true)).2 = false := by
  refine ⟨by simp [Op.atomicOnFailure, exCfg3], by decide⟩

/-- where the code is NOT atomic (1): a component whose registration raises after its constructor attached it
    stays attached to its nodes (`Cpt.__init__` calls `cct.nodes.add` first; `_cpt_add` raises
    'Invalid component name' later): node 3 exists and node 2 has one connection too many -/
theorem failed_add_leaves_attachment :
    let cfg : Config := { exCfg3 with failedAddDetaches := false }
    let w := run cfg World.empty [.new, .add 0 ⟨"R1", "R", ["1", "2"], "1"⟩]
    let w' := (step cfg w (.addFail 0 [] ⟨"Isc", "I", ["2", "3"], "1"⟩ true)).1
    eltsOf w' 0 = eltsOf w 0 ∧ w'.abs ≠ w.abs ∧
    degOf ((w'.insts[0]?).getD (⟨[], [], []⟩ : Inst)).tab "3" = 1 ∧ degOf (buildTab (eltsOf w' 0)) "3" = 0 := by decide

/-- where the code is NOT atomic (2): a multi-line `add` whose second line raises keeps the first line -- by
    design -- but the exception skips `_invalidate()`, so a live memo stays stale -/
theorem failed_multiline_add_is_stale :
    let cfg : Config := { cfgF14 with addInvalidatesOnError := false }
    let ops : List Op := [.new, .add 0 V1, .add 0 R1, .add 0 R2, .query 0 "node_list",
      .addFail 0 [⟨"R9", "R", ["2", "7"], "1"⟩] ⟨"R5", "R", ["2"], ""⟩ false]
    answer cfg (run cfg World.empty ops) 0 "node_list" ≠
      answer cfg (build (eltsOf (run cfg World.empty ops) 0)) 0 "node_list" := by decide

/-- REFINEMENT WITH FAILURES.  For every admissible history -- operations MAY raise: unknown names, malformed
    lines, components that cannot be built -- when `Node.remove` cannot raise half way, `add` reaches
    `_invalidate()` on every path and a half-built component is detached (these are the admissibility
    conditions of `addFail`), every query on every instance answers as on a freshly built circuit. -/
theorem fresh_refinement_with_failures (cfg : Config) (G : String → Bool) (hc : CfgOK cfg G)
    (hk : cfg.keepConnectedNode = true) (ops : List Op) (hr : RunOKF cfg World.empty ops)
    (i : Nat) (inst : Inst) (hi : (run cfg World.empty ops).insts[i]? = some inst) :
    (∀ q, (∀ d ∈ cfg.readsOf q, G d = true) →
      answer cfg (run cfg World.empty ops) i q = answer cfg (build inst.elts) 0 q) ∧
    (∀ {α : Type} (f : List Elt → (String → Nat) → (String → Nat) → α),
      structural f inst = structural f ⟨inst.elts, buildTab inst.elts, []⟩) :=
  inv_implies_fresh cfg G hc _ (inv_runF hc hk ops (inv_empty (cfg := cfg) (G := G)) hr) i inst hi

example : RunOKF exCfg3 World.empty [.new, .add 0 ⟨"R1", "R", ["1", "2"], "1"⟩, .query 0 "q", .remove 0 "R99",
    .addFail 0 [⟨"R9", "R", ["2", "7"], "1"⟩] ⟨"R5", "R", ["2"], ""⟩ false,
    .addFail 0 [] ⟨"Isc", "I", ["2", "3"], "1"⟩ true, .query 0 "q"] := by
  simp only [RunOKF, Op.admissible, uniqueNames]; decide

/-! ## components of any arity -/

/-- a `remove` that detaches the component only from its first two nodes (`cpt.nodes[0:2]`): after removing the
    four-terminal `E1 4 0 3 0`, its sense node 3 keeps a stale connection entry and an inflated count, so `Rs`
    is not reported as dangling although it is in a circuit rebuilt from the same netlist -/
theorem remove_slice_leaves_stale_connection :
    let cfg : Config := { exCfg3 with removeSel := .slice 0 (some 2) }
    let Rs : Elt := ⟨"Rs", "R", ["1", "3"], "5"⟩
    let ops : List Op := [.new, .add 0 ⟨"V1", "V", ["1", "0"], "6"⟩, .add 0 Rs,
      .add 0 ⟨"E1", "E", ["4", "0", "3", "0"], "10"⟩, .add 0 ⟨"RL", "R", ["4", "0"], "7"⟩, .remove 0 "E1"]
    let inst : Inst := ((run cfg World.empty ops).insts[0]?).getD (⟨[], [], []⟩ : Inst)
    countOf inst.tab "3" = 2 ∧ countOf (buildTab inst.elts) "3" = 1 ∧
    degOf inst.tab "0" = 3 ∧ degOf (buildTab inst.elts) "0" = 2 ∧
    cptDangling inst.tab Rs = false ∧ cptDangling (buildTab inst.elts) Rs = true := by decide

/-- ... whereas with `removeSel = all` the same history ends in the table of the rebuilt circuit (an instance of
    `fresh_refinement`, here by evaluation) -/
example :
    let ops : List Op := [.new, .add 0 ⟨"V1", "V", ["1", "0"], "6"⟩, .add 0 ⟨"Rs", "R", ["1", "3"], "5"⟩,
      .add 0 ⟨"E1", "E", ["4", "0", "3", "0"], "10"⟩, .add 0 ⟨"RL", "R", ["4", "0"], "7"⟩, .remove 0 "E1"]
    let inst : Inst := ((run exCfg3 World.empty ops).insts[0]?).getD (⟨[], [], []⟩ : Inst)
    ∀ n ∈ ["0", "1", "3", "4"], countOf inst.tab n = countOf (buildTab inst.elts) n ∧ degOf inst.tab n = degOf (buildTab inst.elts) n := by
  decide

end Lcapy.C16
