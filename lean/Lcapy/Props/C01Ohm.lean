/-
  PROPERTY C01, the value guard (audit finding X2).

  `Spec/Laws.lean` writes the current of a resistor as `V / r`.  In a field `V / 0 = 0`, so for `R n1 n2 0` both sides of
  `mna_iff_laws` read a zero-ohm resistor as an OPEN circuit (reviewer's `e_R_zero_is_open`) -- true, but for the wrong reason.
  Here the resistor relation is stated the way the documentation gives it, v = r·i, with the resistor current `i` a quantity of
  its own (`LawsOhm`); under the guard `ValOK` (every resistance non-zero -- exactly the netlists the front-end accepts; for a
  zero resistance Lcapy's matrix contains `zoo`) the two readings coincide (`laws_iff_ohm`), the MNA system is solved exactly by
  the assignments obeying KCL + v = r·i + the other component relations (`mna_iff_ohm`), and outside the guard they differ:
  under v = r·i a zero-ohm resistor is a short circuit (`zero_ohm_is_short`), under `Laws` it carries no current
  (`zero_ohm_open_in_laws`).  Only property theorems (and the definitions they are stated with) live here.
-/
import Lcapy.Props.C01
namespace Lcapy.C01
open Lcapy.MNA Ix
variable {K : Type} [Field K]

/-- current leaving node `k` through the `i`-th component of the netlist, a resistor carrying the current `cur i` -/
def outflowOhm (kind : Kind) (s : K) (x : Ix → K) (cur : Nat → K) (k : Nat) (ic : Cpt K × Nat) : K :=
  match ic.1 with
  | .R n1 n2 _ => twoTerm n1 n2 k (cur ic.2)
  | c => outflow kind s x k c

/-- Ohm's law for the `i`-th component: v = r·i -/
def ohm (x : Ix → K) (cur : Nat → K) (ic : Cpt K × Nat) : Prop :=
  match ic.1 with
  | .R n1 n2 r => vd x n1 n2 = r * cur ic.2
  | _ => True

/-- KCL + v = r·i for every resistor + the defining relation of every other component -/
def LawsOhm (kind : Kind) (s : K) (cs : List (Cpt K)) (x : Ix → K) : Prop :=
  ∃ cur : Nat → K,
    (∀ ic ∈ cs.zipIdx, ohm x cur ic) ∧
    (∀ k, k ≠ 0 → lsum (cs.zipIdx.map (outflowOhm kind s x cur k)) = 0) ∧
    (∀ c ∈ cs, ∀ p ∈ laws kind s x c, p.2 = 0)

theorem lsum_zipIdx_congr (cs : List (Cpt K)) (f : Cpt K × Nat → K) (g : Cpt K → K)
    (h : ∀ ic ∈ cs.zipIdx, f ic = g ic.1) : lsum (cs.zipIdx.map f) = lsum (cs.map g) := by
  have : cs.zipIdx.map f = cs.zipIdx.map (fun ic => g ic.1) := List.map_congr_left h
  have h2 : cs.zipIdx.map (fun ic => g ic.1) = (cs.zipIdx.map Prod.fst).map g := by rw [List.map_map]; rfl
  rw [this, h2, List.zipIdx_map_fst]

/-- **laws_iff_ohm**: under the value guard the spec `Laws` (resistor current written V/r) says exactly KCL + v = r·i. -/
theorem laws_iff_ohm (kind : Kind) (s : K) (cs : List (Cpt K)) (x : Ix → K) (hval : ValOK cs) :
    Laws kind s cs x ↔ LawsOhm kind s cs x := by
  constructor
  · rintro ⟨hk, hl⟩
    refine ⟨fun i => match cs[i]? with | some (.R n1 n2 r) => vd x n1 n2 / r | _ => 0, ?_, ?_, hl⟩
    · rintro ⟨c, i⟩ hic
      have hget : cs[i]? = some c := List.mem_zipIdx_iff_getElem?.mp hic
      have hc : c ∈ cs := List.mem_of_getElem? hget
      cases c <;> simp only [ohm] <;> try trivial
      rename_i n1 n2 r
      have hr : r ≠ 0 := hval _ hc
      simp only [hget]; field_simp
    · intro k hk0
      rw [← hk k hk0]
      apply lsum_zipIdx_congr
      rintro ⟨c, i⟩ hic
      have hget : cs[i]? = some c := List.mem_zipIdx_iff_getElem?.mp hic
      cases c <;> simp only [outflowOhm, outflow, hget]
  · rintro ⟨cur, ho, hk, hl⟩
    refine ⟨?_, hl⟩
    intro k hk0
    rw [← hk k hk0]
    symm
    apply lsum_zipIdx_congr
    rintro ⟨c, i⟩ hic
    have hc : c ∈ cs := List.mem_of_getElem? (List.mem_zipIdx_iff_getElem?.mp hic)
    have h1 := ho _ hic
    cases c <;> simp only [outflowOhm, outflow]
    rename_i n1 n2 r
    have hr : r ≠ 0 := hval _ hc
    simp only [ohm] at h1
    rw [h1]; congr 1; field_simp

/-- **mna_iff_ohm**: for every well-formed netlist of any size WHOSE RESISTANCES ARE NON-ZERO, in every kind, at every s, an
    assignment solves the assembled MNA system iff it obeys Kirchhoff's current law, v = r·i for every resistor and the defining
    relation of every other component.  (The hypothesis `ValOK` is necessary: `zero_ohm_is_short` / `zero_ohm_open_in_laws`.) -/
theorem mna_iff_ohm (kind : Kind) (s : K) (cs : List (Cpt K)) (x : Ix → K) (hwf : WF cs) (hval : ValOK cs) :
    Solves kind s cs x ↔ LawsOhm kind s cs x :=
  (mna_iff_laws kind s cs x hwf).trans (laws_iff_ohm kind s cs x hval)

/-- outside the guard, reading 1: under v = r·i a zero-ohm resistor is a short circuit -/
theorem zero_ohm_is_short (kind : Kind) (s : K) (cs : List (Cpt K)) (x : Ix → K) (n1 n2 : Nat)
    (hmem : Cpt.R n1 n2 0 ∈ cs) (h : LawsOhm kind s cs x) : vd x n1 n2 = 0 := by
  obtain ⟨cur, ho, _, _⟩ := h
  obtain ⟨i, hi⟩ := List.getElem?_of_mem hmem
  have := ho (Cpt.R n1 n2 0, i) (List.mem_zipIdx_iff_getElem?.mpr hi)
  simpa [ohm] using this

/-- outside the guard, reading 2: in `Laws` (and so in the MNA model, whose stamp writes the admittance 1/0 = 0) the same
    component carries no current whatever the voltage across it -- the two readings disagree, which is why `ValOK` is a
    hypothesis and why the front-end rejects the netlist -/
theorem zero_ohm_open_in_laws (kind : Kind) (s : K) (x : Ix → K) (n1 n2 k : Nat) :
    outflow kind s x k (Cpt.R n1 n2 0) = 0 := by
  simp [outflow, twoTerm]

/-- non-vacuity: the divider `V1 1 0 6; R1 1 2 2; R2 2 0 4` satisfies the guard, and its solution obeys v = r·i -/
example : ValOK ([.V 1 0 0 6, .R 1 2 2, .R 2 0 4] : List (Cpt ℚ)) := by
  intro c hc; simp at hc; rcases hc with rfl | rfl | rfl <;> simp [Cpt.valOK]

example : LawsOhm (K := ℚ) .dc 0 [.V 1 0 0 6, .R 1 2 2, .R 2 0 4]
    (fun i => match i with | node 1 => 6 | node 2 => 4 | br 0 => -1 | _ => 0) := by
  refine ⟨fun i => 1, ?_, ?_, ?_⟩
  · intro ic hic
    simp [List.zipIdx] at hic
    rcases hic with rfl | rfl | rfl <;> norm_num [ohm, vd, volt]
  · intro k hk
    rcases k with _ | _ | _ | k
    · exact absurd rfl hk
    · norm_num [List.zipIdx, lsum, outflowOhm, outflow, twoTerm]
    · norm_num [List.zipIdx, lsum, outflowOhm, outflow, twoTerm]
    · simp [List.zipIdx, lsum, outflowOhm, outflow, twoTerm]
  · intro c hc p hp
    simp at hc
    rcases hc with rfl | rfl | rfl <;> simp [laws] at hp
    subst hp; norm_num [vd, volt]

end Lcapy.C01
