/-
  PROPERTY C18, part 3 (round 3, goal G1) -- the operators of Superposition (the class of every node
  voltage and branch current of circuit analysis) and of phasors with equal / unequal angular frequency.

  `supTables` (decomposition keys of classmap.py, the `_mul`/`_div` tables of SuperpositionVoltage /
  SuperpositionCurrent, structural flags of Superposition.__add__ and
  PhasorExpression._compatible_phasors) is REGENERATED from /repo/lcapy on every run
  (Lcapy/Generated/QuantitiesSup.lean); the model is Lcapy/Model/QuantitiesSup.lean.
-/
import Lcapy.Generated.Quantities
import Lcapy.Generated.QuantitiesSup
import Lcapy.Proofs.QuantitiesBase
import Lcapy.Props.C18
namespace Lcapy.C18
open Lcapy.Dim Lcapy.QModel Lcapy.QSup Lcapy.Gen.Q Lcapy.Gen.QSup Lcapy.QBase

/-! ## 1. structure of the code (read by the translator on every run) -/

/-- `Superposition.__add__` tests `x.quantity != self.quantity` in a statement of the function body
    (a test moved inside the preceding `try: ... except: pass` is swallowed) -/
theorem flag_sup_add_checks_quantity : supTables.flags.supAddChecksQuantity = true := by decide
theorem flag_sup_add_coerces_undefined : supTables.flags.supAddCoercesUndefined = true := by decide
theorem flag_sup_sub_is_add_neg : supTables.flags.supSubIsAddNeg = true := by decide
theorem flag_sup_eq_through_sub : supTables.flags.supEqThroughSub = true := by decide
/-- `_compatible_phasors`: domain test first, equal omega accepted, everything else raises -/
theorem flag_phasor_omega_checked : supTables.flags.phasorOmegaChecked = true := by decide
theorem flag_phasor_zero_escapes : supTables.flags.phasorZeroEscapes = true := by decide

/-- `is_undefined` is False for every class with a defined quantity (so `__add__` never re-labels
    a typed operand; false for the squared immittances before the fix of finding C18-F28) -/
theorem defined_quantities_not_undefined_flag :
    ∀ q ∈ Quantity.all, q.isDefined = true → isUndefinedFlag tables q = false := by decide

/-- the decomposition keys: time-like domains go under 't', Laplace under 's', the two Fourier
    domains under their own keys; no other domain has a key (such operands are refused) -/
theorem sup_keys :
    keyOf supTables .time = some "t" ∧ keyOf supTables .constantTime = some "t" ∧
    keyOf supTables .constant = some "t" ∧ keyOf supTables .laplace = some "s" ∧
    keyOf supTables .fourier = some "f" ∧ keyOf supTables .angularFourier = some "omega" ∧
    (∀ d ∈ [Domain.frequencyResponse, .angularFrequencyResponse, .discreteTime, .discreteFourier, .Z,
            .normFourier, .normAngularFourier, .phasorRatio], keyOf supTables d = none) := by decide

/-! ## 2. `+`, `-`, `==` of a Superposition -/

variable (T : Tables) (S : SupTables)

/-- ALL operands: an expression of a defined quantity other than the Superposition's is refused
    ('Incompatible quantities'), whatever its domain, units, value and the components present -/
theorem sup_add_refuses_quantities (hf : S.flags.supAddChecksQuantity = true) (qS : Quantity)
    (x : Opd) (hu : isUndefinedFlag T x.q = false) (hne : x.q ≠ qS) :
    supAdd T S qS (.ex x) = .err .quantities := by
  simp [supAdd, coercedQ, hu, hf, hne]

/-- ... and so is a Superposition of the other quantity (SuperpositionVoltage + SuperpositionCurrent) -/
theorem sup_add_refuses_superposition (hf : S.flags.supAddChecksQuantity = true) (qS q : Quantity)
    (hne : q ≠ qS) : supAdd T S qS (.sup q) = .err .quantities := by
  simp [supAdd, hf, hne]

/-- the instance for the code as it is now: every defined quantity -/
theorem sup_add_refuses_quantities_now (qS : Quantity) (x : Opd) (hd : x.q.isDefined = true)
    (hne : x.q ≠ qS) : supAdd tables supTables qS (.ex x) = .err .quantities :=
  sup_add_refuses_quantities tables supTables flag_sup_add_checks_quantity qS x
    (defined_quantities_not_undefined_flag x.q (quantity_mem_all x.q) hd) hne

/-- ALL tables, ALL operands: IF `__sub__` is `self + (-x)` and `__eq__` goes through `(self - x)`
    (the two structural flags the translator reads from superposition.py) and `__add__` tests the
    quantities, an operand of another defined quantity is refused by `-` and the comparison raises,
    i.e. is never "equal" -/
theorem sup_sub_eq_refuses (hadd : S.flags.supAddChecksQuantity = true)
    (hsub : S.flags.supSubIsAddNeg = true) (heq : S.flags.supEqThroughSub = true)
    (qS : Quantity) (x : Opd) (hu : isUndefinedFlag T x.q = false) (hne : x.q ≠ qS) :
    supSub T S qS (.ex x) = .err .quantities ∧ supEqCompares T S qS (.ex x) = false := by
  have h := sup_add_refuses_quantities T S hadd qS x hu hne
  have h2 : supSub T S qS (.ex x) = .err .quantities := by simp [supSub, hsub, h]
  exact ⟨h2, by simp [supEqCompares, heq, h2]⟩

/-- the instance for the code as it is now (all three flags hold) -/
theorem sup_sub_eq_refuse (qS : Quantity) (x : Opd) (hd : x.q.isDefined = true) (hne : x.q ≠ qS) :
    supSub tables supTables qS (.ex x) = .err .quantities ∧
    supEqCompares tables supTables qS (.ex x) = false :=
  sup_sub_eq_refuses tables supTables flag_sup_add_checks_quantity flag_sup_sub_is_add_neg
    flag_sup_eq_through_sub qS x
    (defined_quantities_not_undefined_flag x.q (quantity_mem_all x.q) hd) hne

/-- an accepted sum is a Superposition of the SAME quantity, and whatever is stored carries it -/
theorem sup_add_keeps_quantity (hf : S.flags.supAddChecksQuantity = true) (qS : Quantity) (a : SupArg)
    (q : Quantity) (st : Option (String × Domain × Quantity)) (h : supAdd T S qS a = .sup q st) :
    q = qS ∧ ∀ k d q', st = some (k, d, q') → q' = qS := by
  cases a with
  | number =>
    simp only [supAdd] at h
    split at h
    · simp only [SupOutcome.sup.injEq] at h
      obtain ⟨rfl, rfl⟩ := h
      exact ⟨rfl, by intro k d q' e; simp at e; exact e.2.2.symm⟩
    · cases h
  | sup q0 =>
    simp only [supAdd] at h
    split at h
    · cases h
    · simp only [SupOutcome.sup.injEq] at h
      obtain ⟨rfl, rfl⟩ := h
      exact ⟨rfl, by intro k d q' e; cases e⟩
  | ex x =>
    simp only [supAdd, hf, Bool.true_and] at h
    split at h
    · cases h
    · rename_i hq
      have hxq : coercedQ T S qS x = qS := by simpa using hq
      split at h
      · simp only [SupOutcome.sup.injEq] at h
        obtain ⟨rfl, rfl⟩ := h
        exact ⟨rfl, by intro k d q' e; cases e⟩
      · split at h
        · simp only [SupOutcome.sup.injEq] at h
          obtain ⟨rfl, rfl⟩ := h
          exact ⟨rfl, by intro k d q' e; simp at e; rw [← e.2.2]; exact hxq⟩
        · split at h
          · simp only [SupOutcome.sup.injEq] at h
            obtain ⟨rfl, rfl⟩ := h
            exact ⟨rfl, by intro k d q' e; simp at e; rw [← e.2.2]; exact hxq⟩
          · cases h

/-- non-vacuity: a Laplace-domain voltage is accepted by a SuperpositionVoltage and stored under 's';
    an untyped time-domain expression is coerced to the Superposition's quantity -/
theorem witness_sup_add :
    supAdd tables supTables .voltage (.ex ⟨.laplace, .voltage, ⟨1, 0, 0, 0, 0, -1, 0, 0⟩, false, false, false⟩) =
      .sup .voltage (some ("s", .laplace, .voltage)) ∧
    supAdd tables supTables .current (.ex ⟨.time, .undefined, U.one, false, false, false⟩) =
      .sup .current (some ("t", .time, .current)) ∧
    supAdd tables supTables .voltage (.ex ⟨.laplace, .current, ⟨0, 1, 0, 0, 0, -1, 0, 0⟩, false, false, false⟩) =
      .err .quantities ∧
    supAdd tables supTables .voltage (.ex ⟨.discreteTime, .voltage, ⟨1, 0, 0, 0, 0, 0, 0, 0⟩, false, false, false⟩) =
      .err .kind := by decide

/-! ## 3. `*`, `/` of a Superposition: Ohm's law component by component -/

/-- the `_mul`/`_div` tables are dimensionally right and agree with the quantity tables of `Expr`:
    voltage * admittance = voltage / impedance = current, current * impedance = current / admittance =
    voltage, and the demanded divisor is the reciprocal of the demanded multiplier -/
theorem sup_mul_table_sound :
    ∀ r ∈ supMulTable,
      mulLookup tables r.q r.mulNeed = some r.result ∧ divLookup tables r.q r.divNeed = some r.result ∧
      dimQ r.result = addVA (dimQ r.q) (dimQ r.mulNeed) ∧
      dimQ r.result = subVA (dimQ r.q) (dimQ r.divNeed) ∧
      divLookup tables .undefined r.divNeed = some r.mulNeed ∧
      r.refusesSup = true ∧ r.refusesTime = true := by decide

theorem sup_mul_table_complete :
    (supMulTable.map (fun r => r.q)) = [.voltage, .current] ∧
    ∀ r ∈ supMulTable, r.rows.map (fun p => p.1) = [.dc, .ac, .n, .s, .t] := by decide

/-- ALL operands: anything but the demanded immittance is refused with a TypeError -/
theorem sup_mul_refuses (qS : Quantity) (r : SupMulRow) (hr : mulRow S qS = some r) (x : Opd)
    (hne : x.q ≠ r.mulNeed) : supMul S qS (.ex x) = .err .type := by
  simp [supMul, hr, hne]

theorem sup_div_refuses (qS : Quantity) (r : SupMulRow) (hr : mulRow S qS = some r) (x : Opd)
    (hne : x.q ≠ r.divNeed) : supDiv S qS (.ex x) = .err .type := by
  simp [supDiv, hr, hne]

/-- an accepted product / quotient is a Superposition of the table's result quantity -/
theorem sup_mul_result (qS : Quantity) (r : SupMulRow) (hr : mulRow S qS = some r) (x : Opd)
    (q : Quantity) (st : Option (String × Domain × Quantity)) (h : supMul S qS (.ex x) = .sup q st) :
    q = r.result := by
  simp only [supMul, hr] at h
  split at h
  · cases h
  · split at h
    · cases h
    · simp only [SupOutcome.sup.injEq] at h; exact h.1.symm

/-- ALL operands, every key: the per-key product `obj[key] * multiplier` is a product of `Expr`s, so
    (theorem `mul_consistent`) its units are the product of the component's and the multiplier's
    units and its quantity has the dimension of the product -/
theorem sup_mul_component_consistent (qS : Quantity) (hq : qS = .voltage ∨ qS = .current) (cu : U)
    (k : Kind) (f : ArgForm) (x : Opd) (d : Domain) (q : Quantity) (u : U)
    (h : supMulComponent tables qS cu k f x = .ok d q u)
    (hc : (dimU cu).va = dimQ qS) (hx : (dimU x.units).va = dimQ x.q) :
    (dimU u).va = dimQ q ∧ dimU u = dimU cu + dimU x.units ∧ dimQ q = addVA (dimQ qS) (dimQ x.q) := by
  unfold supMulComponent at h
  have hg : genericPair ⟨kindDomain k, qS, cu, false, k == .dc, k == .dc⟩
      { x with dom := argDomain tables f x.dom, unch := (f == .atZero || f == .atJOmega0 || x.unch),
               const := (f == .atZero || f == .atJOmega0 || x.const) } = false := by
    rcases hq with rfl | rfl <;> simp [genericPair]
  have h1 := mul_consistent _ _ d q u h hg hc hx
  have h2 := mul_quantity_dimension tables mul_dim _ _ d q u h hg
  exact ⟨h1.1, h1.2, h2⟩

/-- is the per-key product formed, in domain `d`, with quantity `q`? -/
def formedAs (o : Outcome) (d : Domain) (q : Quantity) : Bool :=
  match o with
  | .ok d' q' _ => d' == d && q' == q
  | .err _ => false

/-- non-vacuity, complete over the generated table: for every Superposition class, every key but the
    noise key (finding C18-F22) and the 't' key, and an immittance of the demanded quantity given in
    the Laplace domain with its class units, the per-key product IS formed, in the component's domain,
    with the result quantity; under the 't' key a time-varying component takes a CONSTANT immittance -/
theorem sup_mul_components_formed :
    ∀ r ∈ supMulTable, ∀ p ∈ r.rows,
      (p.1 ≠ .n → p.1 ≠ .t →
        formedAs (supMulComponent tables r.q (defaultUnits tables (kindDomain p.1) r.q) p.1 p.2
          ⟨.laplace, r.mulNeed, defaultUnits tables .laplace r.mulNeed, false, false, false⟩)
          (kindDomain p.1) r.result = true) ∧
      (p.1 = .t →
        formedAs (supMulComponent tables r.q (defaultUnits tables .time r.q) .t p.2
          ⟨.constantFrequencyResponse, r.mulNeed, defaultUnits tables .constantFrequencyResponse r.mulNeed,
           false, true, true⟩) .time r.result = true) := by
  decide

/-! ## 4. phasors: equal angular frequency combines, unequal is refused -/

/-- ALL operands: two non-zero phasors (or two phasor ratios) with different angular frequencies can
    not be multiplied ... -/
theorem ph_unequal_omega_mul_refused (hf : S.flags.phasorOmegaChecked = true) (a x : POpd)
    (hd : isPh a.opd.dom = true) (hsame : x.opd.dom = a.opd.dom) (hx : x.omega ≠ .none)
    (hne : a.omega ≠ x.omega) (hz : a.opd.zero = false ∧ x.opd.zero = false)
    (hc : isConst T a.opd.dom = false)
    (hco : (coerceImmittance T x.opd true) = x.opd) :
    phMul T S a x = .err .omega := by
  simp [phMul, hd, hco, phMulCompat, hc, compatPh, hsame, hx, hne, hz.1, hz.2, hf]

/-- ... nor divided ... -/
theorem ph_unequal_omega_div_refused (hf : S.flags.phasorOmegaChecked = true) (a x : POpd)
    (hd : isPh a.opd.dom = true) (hsame : x.opd.dom = a.opd.dom) (hx : x.omega ≠ .none)
    (hne : a.omega ≠ x.omega) (hz : a.opd.zero = false ∧ x.opd.zero = false)
    (hc : isConst T a.opd.dom = false) (hr : reflectedDiv a.opd x.opd = false)
    (hco : (coerceImmittance T x.opd T.flags.divRestoresUnits) = x.opd) :
    phDiv T S a x = .err .omega := by
  simp [phDiv, hd, hr, hco, phDivCompat, hc, compatPh, hsame, hx, hne, hz.1, hz.2, hf]

/-- ... nor added / subtracted (under every setting that lets them pass the units test) -/
theorem ph_unequal_omega_add_refused (hf : S.flags.phasorOmegaChecked = true) (c : Cfg) (a x : POpd)
    (hd : isPh a.opd.dom = true) (hsame : x.opd.dom = a.opd.dom) (hx : x.omega ≠ .none)
    (hne : a.omega ≠ x.omega) (hz : a.opd.zero = false ∧ x.opd.zero = false)
    (hu : unitsClash T c a.opd x.opd = false) :
    phAdd T S c a x = .err .omega := by
  simp [phAdd, hd, hsame, hu, compatPh, hx, hne, hz.1, hz.2, hf]

/-- with EQUAL angular frequencies (or a constant-domain operand, e.g. an impedance evaluated at
    j omega0) a phasor product is the `Expr` product: all theorems of section 2 of Props/C18 apply,
    in particular the units multiply and the dimensions add -/
theorem ph_equal_omega_mul (a x : POpd) (hd : isPh a.opd.dom = true)
    (h : a.omega = x.omega ∨ isConst T (coerceImmittance T x.opd true).dom = true)
    (hsame : (coerceImmittance T x.opd true).dom = a.opd.dom ∨
             isConst T (coerceImmittance T x.opd true).dom = true) :
    phMul T S a x = liftP (resOmega a x) (mulM T a.opd x.opd) := by
  rcases hsame with hs | hs
  · rcases h with h | h
    · by_cases hc : isConst T a.opd.dom = true
      · simp [phMul, hd, phMulCompat, hc]
      · by_cases hxo : x.omega = .none
        · simp [phMul, hd, phMulCompat, hc, compatPh, hs, hxo]
        · simp [phMul, hd, phMulCompat, hc, compatPh, hs, hxo, h]
    · simp [phMul, hd, phMulCompat, h]
  · simp [phMul, hd, phMulCompat, hs]

theorem ph_mul_consistent (a x : POpd) (d : Domain) (q : Quantity) (u : U) (om : Om)
    (h : phMul tables supTables a x = .ok d q u om) (hg : genericPair a.opd x.opd = false)
    (ha : (dimU a.opd.units).va = dimQ a.opd.q) (hx : (dimU x.opd.units).va = dimQ x.opd.q) :
    (dimU u).va = dimQ q ∧ dimU u = dimU a.opd.units + dimU x.opd.units := by
  have key : ∀ o, liftP (resOmega a x) o = .ok d q u om → o = .ok d q u := by
    intro o ho; cases o with
    | ok d' q' u' => simp [liftP] at ho; obtain ⟨rfl, rfl, rfl, _⟩ := ho; rfl
    | err e => simp [liftP] at ho
  unfold phMul at h
  split at h
  · exact mul_consistent a.opd x.opd d q u (key _ h) hg ha hx
  · split at h
    · cases h
    · cases h
    · exact mul_consistent a.opd x.opd d q u (key _ h) hg ha hx

/-- witnesses on the generated tables: V(omega=3) * Y(j3) is a phasor current [V S] at omega = 3;
    V(3) * V(5), V(3) + V(5), V(3) / I(5) are refused; V(3) / I(3) is a phasor-ratio impedance -/
theorem witness_phasors :
    phMul tables supTables ⟨⟨.phasor, .voltage, ⟨1, 0, 0, 0, 0, 0, 0, 0⟩, false, true, true⟩, .num 3⟩
      ⟨⟨.constantFrequencyResponse, .admittance, ⟨0, 0, 0, 1, 0, 0, 0, 0⟩, false, true, true⟩, .none⟩ =
      .ok .phasor .current ⟨1, 0, 0, 1, 0, 0, 0, 0⟩ (.num 3) ∧
    phMul tables supTables ⟨⟨.phasor, .voltage, ⟨1, 0, 0, 0, 0, 0, 0, 0⟩, false, true, true⟩, .num 3⟩
      ⟨⟨.phasor, .voltage, ⟨1, 0, 0, 0, 0, 0, 0, 0⟩, false, true, true⟩, .num 5⟩ = .err .omega ∧
    phAdd tables supTables ⟨true, true, false⟩ ⟨⟨.phasor, .voltage, ⟨1, 0, 0, 0, 0, 0, 0, 0⟩, false, true, true⟩, .num 3⟩
      ⟨⟨.phasor, .voltage, ⟨1, 0, 0, 0, 0, 0, 0, 0⟩, false, true, true⟩, .num 5⟩ = .err .omega ∧
    phDiv tables supTables ⟨⟨.phasor, .voltage, ⟨1, 0, 0, 0, 0, 0, 0, 0⟩, false, true, true⟩, .num 3⟩
      ⟨⟨.phasor, .current, ⟨0, 1, 0, 0, 0, 0, 0, 0⟩, false, true, true⟩, .num 5⟩ = .err .omega ∧
    phDiv tables supTables ⟨⟨.phasor, .voltage, ⟨1, 0, 0, 0, 0, 0, 0, 0⟩, false, true, true⟩, .num 3⟩
      ⟨⟨.phasor, .current, ⟨0, 1, 0, 0, 0, 0, 0, 0⟩, false, true, true⟩, .num 3⟩ =
      .ok .phasorRatio .impedance ⟨1, -1, 0, 0, 0, 0, 0, 0⟩ (.num 3) ∧
    phAdd tables supTables ⟨true, true, false⟩ ⟨⟨.phasor, .voltage, ⟨1, 0, 0, 0, 0, 0, 0, 0⟩, false, true, true⟩, .num 3⟩
      ⟨⟨.phasor, .voltage, ⟨1, 0, 0, 0, 0, 0, 0, 0⟩, false, true, true⟩, .num 3⟩ =
      .ok .phasor .voltage ⟨1, 0, 0, 0, 0, 0, 0, 0⟩ (.num 3) := by decide

end Lcapy.C18
