/-
  PROPERTY C04, clause "when the original is replaced by either model, the voltage and current delivered to an ARBITRARY
  external load are unchanged".

  `load_substitution`: in a circuit `cs ++ load` whose load part touches the rest only at the two port nodes p and m
  (the load may have any number of interior nodes and any components: sources, reactive elements, dependent sources …),
  every solution of the whole is a solution of `cs` with the load REPLACED BY A CURRENT SOURCE that delivers the current
  J the load delivers into p.  (KCL at the interior nodes of the load and conservation of current — the currents a
  sub-netlist draws from all its nodes add up to zero — give that the same J returns through m.)
  `thevenin_any_load`: hence, by `port_affine_unique`, the port voltage and that current lie on the Thevenin line
  v = Voc + Zth·J of `cs` — the same line on which the Thevenin and Norton models keep them (`thevenin_port`,
  `norton_port`, which by the same substitution hold for an arbitrary load too: `model_any_load`).
-/
import Lcapy.Props.C04
import Lcapy.Proofs.Ground
import Lcapy.Proofs.PortOps
import Lcapy.Props.C04Ground
import Mathlib.Tactic.LinearCombination
import Mathlib.Tactic.Linarith
namespace Lcapy.C04
open Lcapy.MNA Ix
variable {K : Type} [Field K]
set_option linter.unusedSimpArgs false
set_option linter.unusedSectionVars false

/-- **load_substitution** -/
theorem load_substitution (kind : Kind) (s : K) (cs load : List (Cpt K)) (p m : Nat) (z : Ix → K) (hpm : p ≠ m)
    (hsep : ∀ c ∈ load, ∀ n ∈ nodesOf c, n = p ∨ n = m ∨ ∀ c' ∈ cs, ∀ n' ∈ nodesOf c', n' ≠ n)
    (h : Laws kind s (cs ++ load) z) :
    Laws kind s (cs ++ [.I p m (-(kclAt kind s load z p))]) z := by
  obtain ⟨hk, hl⟩ := h
  -- KCL of the whole circuit at EVERY node, ground included
  have hall : ∀ k, lsum (cs.map (outflow kind s z k)) + kclAt kind s load z k = 0 := by
    intro k
    have : lsum ((cs ++ load).map (outflow kind s z k)) = 0 := by
      by_cases hk0 : k = 0
      · subst hk0; exact kcl_remaining_node kind s _ z 0 hk
      · exact hk k hk0
    rwa [lsum_map_append] at this
  -- the load draws no net current at any node other than p and m
  have hLk : ∀ k, k ≠ p → k ≠ m → kclAt kind s load z k = 0 := by
    intro k hkp hkm
    by_cases hn : ∃ c ∈ load, ∃ n ∈ nodesOf c, n = k
    · obtain ⟨c, hc, n, hn, rfl⟩ := hn
      rcases hsep c hc n hn with h1 | h1 | h1
      · exact absurd h1 hkp
      · exact absurd h1 hkm
      · have := hall n
        rw [lsum_outflow_zero kind s z n cs h1, zero_add] at this
        exact this
    · apply lsum_outflow_zero
      intro c hc n hn' hnk
      exact hn ⟨c, hc, n, hn', hnk⟩
  -- conservation: what enters the load at p leaves it at m
  have hLm : kclAt kind s load z m = -(kclAt kind s load z p) := by
    have hkcl : ∀ k, k ≠ m → lsum ((load ++ [Cpt.I p m (kclAt kind s load z p)]).map (outflow kind s z k)) = 0 := by
      intro k hkm
      rw [lsum_map_append]
      by_cases hkp : k = p
      · subst hkp
        simp [lsum, outflow, twoTerm, hpm, Ne.symm hpm, kclAt]
      · have := hLk k hkp hkm
        simp only [kclAt] at this
        simp [lsum, outflow, twoTerm, this, Ne.symm hkp, Ne.symm hkm]
    have := kcl_remaining_node kind s _ z m hkcl
    rw [lsum_map_append] at this
    simp [lsum, outflow, twoTerm, Ne.symm hpm, hpm] at this
    show lsum (load.map (outflow kind s z m)) = _
    linear_combination this
  refine ⟨fun k _ => ?_, fun c hc q hq => ?_⟩
  · rw [lsum_map_append]
    by_cases hkp : k = p
    · subst hkp
      have := hall k
      simp [lsum, outflow, twoTerm, hpm, Ne.symm hpm]
      exact this
    · by_cases hkm : k = m
      · subst hkm
        have := hall k
        rw [hLm] at this
        simp [lsum, outflow, twoTerm, Ne.symm hkp]
        linear_combination this
      · have := hall k
        rw [hLk k hkp hkm, add_zero] at this
        simp [lsum, outflow, twoTerm, Ne.symm hkp, Ne.symm hkm, this]
  · rcases List.mem_append.mp hc with hc | hc
    · exact hl c (List.mem_append.mpr (Or.inl hc)) q hq
    · simp only [List.mem_cons, List.mem_nil_iff, or_false] at hc
      subst hc
      simp [laws] at hq

/-- **thevenin_any_load**: whatever is connected across the port (p, m) of a non-singular circuit `cs`, the port voltage
    v and the current J the load delivers into p satisfy v = Voc + Zth·J, with Voc the open-circuit voltage (sources
    on) and Zth the driving-point impedance (sources and initial conditions killed, 1 A test source) of `cs` alone. -/
theorem thevenin_any_load (kind : Kind) (s : K) (cs load : List (Cpt K)) (p m : Nat) (z x0 xu : Ix → K) (hpm : p ≠ m)
    (hwf : C01.WF cs)
    (hsep : ∀ c ∈ load, ∀ n ∈ nodesOf c, n = p ∨ n = m ∨ ∀ c' ∈ cs, ∀ n' ∈ nodesOf c', n' ≠ n)
    (h : Laws kind s (cs ++ load) z)
    (h0 : Solves kind s (withProbe cs p m 0) x0)
    (hu : Solves kind s (withProbe (killAll cs) p m 1) xu)
    (hns : C01.Nonsingular kind s (withProbe cs p m (-(kclAt kind s load z p)))) :
    vd z p m = vd x0 p m + -(kclAt kind s load z p) * vd xu p m := by
  have hsub := load_substitution kind s cs load p m z hpm hsep h
  have hwf' : C01.WF (withProbe cs p m (-(kclAt kind s load z p))) := by
    simp only [C01.WF, withProbe, List.flatMap_append, List.flatMap_cons, List.flatMap_nil, owned, List.append_nil] at hwf ⊢
    exact hwf
  have hz : Solves kind s (withProbe cs p m (-(kclAt kind s load z p))) z :=
    (C01.mna_iff_laws kind s _ z hwf').mpr hsub
  exact port_affine_unique kind s cs p m x0 xu z _ h0 hu hz hns

/-- **model_any_load**: the Thevenin model (V source Voc from the internal node 2 to the reference, Zth from the
    terminal 1 to node 2) and the Norton model (Isc = Voc/Zth in parallel with 1/Zth) keep an arbitrary load on the
    SAME line: replacing the original by either model leaves the load's (v, J) constraint unchanged. -/
theorem model_any_load (kind : Kind) (s Voc Zth : K) (hZ : Zth ≠ 0) (load : List (Cpt K)) (zt zn : Ix → K)
    (hsept : ∀ c ∈ load, ∀ n ∈ nodesOf c, n = 1 ∨ n = 0 ∨
      ∀ c' ∈ [Cpt.V 2 0 0 Voc, .Y 1 2 (1 / Zth)], ∀ n' ∈ nodesOf c', n' ≠ n)
    (hsepn : ∀ c ∈ load, ∀ n ∈ nodesOf c, n = 1 ∨ n = 0 ∨
      ∀ c' ∈ [Cpt.I 1 0 (Voc / Zth), .Y 1 0 (1 / Zth)], ∀ n' ∈ nodesOf c', n' ≠ n)
    (ht : Laws kind s ([.V 2 0 0 Voc, .Y 1 2 (1 / Zth)] ++ load) zt)
    (hn : Laws kind s ([.I 1 0 (Voc / Zth), .Y 1 0 (1 / Zth)] ++ load) zn) :
    vd zt 1 0 = Voc + Zth * -(kclAt kind s load zt 1) ∧ vd zn 1 0 = Voc + Zth * -(kclAt kind s load zn 1) := by
  have h1 := load_substitution kind s _ load 1 0 zt (by decide) hsept ht
  have h2 := load_substitution kind s _ load 1 0 zn (by decide) hsepn hn
  constructor
  · exact thevenin_port kind s Voc Zth _ hZ zt h1
  · rw [norton_port kind s (Voc / Zth) (1 / Zth) _ (one_div_ne_zero hZ) zn h2]; field_simp

/-! ### Thevenin–Norton consistency of the MEASURED quantities -/

/-- **isc_voc_zth**: "open-circuit voltage = short-circuit current × driving-point impedance" for the MEASURED
    short-circuit current — the branch current of `Vshort_ p m` (branch `b`), which is what `Isc` of netlistopsmixin.py
    reads — for any netlist: the short circuit is just one more load (`thevenin_any_load` with the load `[V p m b 0]`). -/
theorem isc_voc_zth (kind : Kind) (s : K) (cs : List (Cpt K)) (p m b : Nat)
    (z x0 xu : Ix → K) (hpm : p ≠ m) (hwf : C01.WF cs)
    (h : Laws kind s (cs ++ [.V p m b 0]) z)
    (h0 : Solves kind s (withProbe cs p m 0) x0)
    (hu : Solves kind s (withProbe (killAll cs) p m 1) xu)
    (hns : C01.Nonsingular kind s (withProbe cs p m (-(kclAt kind s [.V p m b 0] z p)))) :
    vd x0 p m = z (br b) * vd xu p m := by
  have h1 := thevenin_any_load kind s cs [.V p m b 0] p m z x0 xu hpm hwf (by simp [nodesOf]) h h0 hu hns
  have e : kclAt kind s [.V p m b 0] z p = z (br b) := by simp [kclAt, outflow, twoTerm, lsum, Ne.symm hpm]
  have v : vd z p m = 0 := by
    have := h.2 (.V p m b 0) (by simp) (b, vd z p m - 0) (by simp [laws])
    simpa using this
  rw [e, v] at h1
  linear_combination -h1

/-- **impedance_admittance_inverse**: "impedance times admittance is one" for the two DIFFERENT experiments of
    netlistopsmixin.py — `impedance(p, m)` (1 A test source, voltage read) and `admittance(p, m)` (1 V test source on the
    fresh branch `b`, current delivered read): whenever both measure a value, Z·Y = 1.  The voltage source of the second
    experiment is a load of the killed netlist (`load_substitution`); scaling its solution by 1/Y gives a solution of the
    first experiment. -/
theorem impedance_admittance_inverse (kind : Kind) (s : K) (cs : List (Cpt K)) (p m b : Nat) (Z Y : K) (hpm : p ≠ m)
    (hwf : C01.WF (killAll cs))
    (hZ : Measures kind s (impedanceExp cs p m) Z) (hY : Measures kind s (admittanceExp cs p m b) Y) :
    Z * Y = 1 := by
  obtain ⟨⟨xz, hxz⟩, hallZ⟩ := hZ
  obtain ⟨⟨xa, hxa⟩, hallY⟩ := hY
  have hYr : -(xa (br b)) = Y := hallY xa hxa
  have hv : vd xa p m = 1 := by
    have := hxa.2 (.V p m b 1) (by simp [admittanceExp]) (b, vd xa p m - 1) (by simp [laws])
    exact sub_eq_zero.mp this
  -- the test voltage source replaced by the current source that delivers the same current
  have hsub := load_substitution kind s (killAll cs) [.V p m b 1] p m xa hpm (by simp [nodesOf]) hxa
  have e : -(kclAt kind s [Cpt.V p m b 1] xa p) = Y := by
    simp [kclAt, outflow, twoTerm, lsum, Ne.symm hpm, hYr]
  rw [e] at hsub
  have hwfI : ∀ J : K, C01.WF (killAll cs ++ [Cpt.I p m J]) := by
    intro J
    simp only [C01.WF, List.flatMap_append, List.flatMap_cons, List.flatMap_nil, owned, List.append_nil] at hwf ⊢
    exact hwf
  have hsolve := (C01.mna_iff_laws kind s _ xa (hwfI Y)).mpr hsub
  -- scale by any a: a·xa solves the killed netlist driven by a·Y
  have hscale : ∀ a : K, Laws kind s (killAll cs ++ [Cpt.I p m (a * Y)]) (fun i => a * xa i) := by
    intro a
    have h1 := C03.scaling kind s a _ xa hsolve
    simp only [List.map_append, killAll_scale, List.map_cons, List.map_nil, Cpt.mapSrc] at h1
    exact (C01.mna_iff_laws kind s _ _ (hwfI _)).mp h1
  by_cases hY0 : Y = 0
  · -- then xa is a non-zero solution of the undriven killed netlist: the impedance experiment could not be unique
    exfalso
    have hz0 := (C01.mna_iff_laws kind s _ xz (hwfI 1)).mpr hxz
    have h0 : Solves kind s (killAll cs ++ [Cpt.I p m 0]) xa := by rw [hY0] at hsolve; exact hsolve
    have hsum := C03.superposition kind s _ _ xz xa
      (List.rel_append (forall2_refl _) (List.Forall₂.cons (by unfold SameShape; simp [Cpt.mapSrc]) List.Forall₂.nil)) hz0 h0
    have e2 : List.zipWith Cpt.addSrc (killAll cs ++ [Cpt.I p m 1]) (killAll cs ++ [Cpt.I p m 0]) =
        killAll cs ++ [Cpt.I p m 1] := by
      rw [List.zipWith_append (by simp), zip_killed_killed]
      simp [Cpt.addSrc]
    rw [e2] at hsum
    have hl := (C01.mna_iff_laws kind s _ _ (hwfI 1)).mp hsum
    have r1 := hallZ xz hxz
    have r2 := hallZ _ hl
    simp only [impedanceExp, Obs.read] at r1 r2
    have : vd (fun i => xz i + xa i) p m = vd xz p m + vd xa p m := by
      cases p <;> cases m <;> simp [vd, volt] <;> ring
    rw [this, r1, hv] at r2
    exact one_ne_zero (by linear_combination r2)
  · have h1 := hscale (1 / Y)
    rw [one_div_mul_cancel hY0] at h1
    have r := hallZ _ h1
    simp only [impedanceExp, Obs.read, vd_smul, hv] at r
    rw [← r]; field_simp

/-- the Thevenin model of a port with Zth = 0 (a port across an ideal voltage source) is the bare source: the port
    voltage is Voc whatever current the load delivers (`thevenin_port`, `model_any_load` are stated for Zth ≠ 0, where
    the series element `Y 1 2 (1/Zth)` is meaningful) -/
theorem thevenin_port_zero (kind : Kind) (s Voc J : K) (x : Ix → K)
    (h : Laws kind s [.V 1 0 0 Voc, .I 1 0 J] x) : vd x 1 0 = Voc := by
  have := h.2 (.V 1 0 0 Voc) (by simp) (0, vd x 1 0 - Voc) (by simp [laws])
  exact sub_eq_zero.mp this

/-! ### non-vacuity: `V1 1 0 6; R1 1 2 3` loaded by `R2 2 3 1; R3 3 0 2` (a load with an interior node) -/

def exSrc : List (Cpt ℚ) := [.V 1 0 0 6, .R 1 2 3]
def exLoad : List (Cpt ℚ) := [.R 2 3 1, .R 3 0 2]
/-- V(1) = 6, V(2) = 3, V(3) = 2, source current −1 -/
def exLoaded : Ix → ℚ := fun i => match i with | node 1 => 6 | node 2 => 3 | node 3 => 2 | br 0 => -1 | _ => 0

example : Laws .dc 0 (exSrc ++ exLoad) exLoaded := by
  constructor
  · intro k hk
    match k with
    | 0 => exact absurd rfl hk
    | 1 => norm_num [exSrc, exLoad, exLoaded, outflow, twoTerm, lsum, vd, volt]
    | 2 => norm_num [exSrc, exLoad, exLoaded, outflow, twoTerm, lsum, vd, volt]
    | 3 => norm_num [exSrc, exLoad, exLoaded, outflow, twoTerm, lsum, vd, volt]
    | (k + 4) => simp [exSrc, exLoad, outflow, twoTerm, lsum]
  · intro c hc p hp
    simp only [exSrc, exLoad, List.cons_append, List.nil_append, List.mem_cons, List.mem_nil_iff, or_false] at hc
    rcases hc with rfl | rfl | rfl | rfl <;>
      simp only [laws, List.mem_cons, List.mem_nil_iff, or_false] at hp <;>
      (try subst hp) <;> norm_num [vd, volt, exLoaded] <;> simp_all

/-- the load touches the source circuit only at the port nodes 2 and 0 -/
example : ∀ c ∈ exLoad, ∀ n ∈ nodesOf c, n = 2 ∨ n = 0 ∨ ∀ c' ∈ exSrc, ∀ n' ∈ nodesOf c', n' ≠ n := by
  simp [exLoad, exSrc, nodesOf]

/-- the current the load delivers into node 2 is −1 A (it draws 1 A): v = Voc + Zth·J = 6 + 3·(−1) = 3 -/
example : -(kclAt .dc 0 exLoad exLoaded 2) = -1 := by
  norm_num [kclAt, exLoad, exLoaded, outflow, twoTerm, lsum, vd, volt]

/-- non-vacuity of `impedance_admittance_inverse`: `R1 1 0 5` measures Z = 5 and Y = 1/5 -/
def exR5 : List (Cpt ℚ) := [.R 1 0 5]

theorem exR5_Z : Measures .dc (0 : ℚ) (impedanceExp exR5 1 0) 5 := by
  constructor
  · refine ⟨fun i => match i with | node 1 => 5 | _ => 0, ?_, ?_⟩
    · intro k hk
      match k with
      | 0 => exact absurd rfl hk
      | 1 => norm_num [exR5, impedanceExp, zProbe, killAll, Cpt.mapSrc, outflow, twoTerm, lsum, vd, volt]
      | (k + 2) => simp [exR5, impedanceExp, zProbe, killAll, Cpt.mapSrc, outflow, twoTerm, lsum]
    · intro c hc p hp
      simp [exR5, impedanceExp, zProbe, killAll, Cpt.mapSrc] at hc
      rcases hc with rfl | rfl <;> simp [laws] at hp
  · intro x hx
    have k1 := hx.1 1 (by decide)
    simp [exR5, impedanceExp, zProbe, killAll, Cpt.mapSrc, outflow, twoTerm, lsum] at k1
    simp only [impedanceExp, Obs.read]
    linarith

theorem exR5_Y : Measures .dc (0 : ℚ) (admittanceExp exR5 1 0 0) (1 / 5) := by
  constructor
  · refine ⟨fun i => match i with | node 1 => 1 | br 0 => -1/5 | _ => 0, ?_, ?_⟩
    · intro k hk
      match k with
      | 0 => exact absurd rfl hk
      | 1 => norm_num [exR5, admittanceExp, killAll, Cpt.mapSrc, outflow, twoTerm, lsum, vd, volt]
      | (k + 2) => simp [exR5, admittanceExp, killAll, Cpt.mapSrc, outflow, twoTerm, lsum]
    · intro c hc p hp
      simp [exR5, admittanceExp, killAll, Cpt.mapSrc] at hc
      rcases hc with rfl | rfl <;> simp [laws] at hp <;> (try subst hp) <;> norm_num [vd, volt]
  · intro x hx
    have k1 := hx.1 1 (by decide)
    have l1 := hx.2 (.V 1 0 0 1) (by simp [admittanceExp]) (0, vd x 1 0 - 1) (by simp [laws])
    simp [exR5, admittanceExp, killAll, Cpt.mapSrc, outflow, twoTerm, lsum, vd, volt] at k1 l1
    simp only [admittanceExp, Obs.read]
    rw [sub_eq_zero] at l1
    rw [l1] at k1
    linarith

example : (5 : ℚ) * (1 / 5) = 1 :=
  impedance_admittance_inverse .dc 0 exR5 1 0 0 5 (1 / 5) (by decide) (by simp [C01.WF, killAll, exR5, Cpt.mapSrc, owned])
    exR5_Z exR5_Y

end Lcapy.C04
