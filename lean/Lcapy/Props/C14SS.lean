/-
  PROPERTY C14, clause "the time-domain signal reconstructed from the phasor is the sinusoidal steady state".

  For EVERY netlist (any size, every component kind of Spec/Laws.lean) whose independent sources are sinusoids of
  angular frequency ω — each given as a·cos ωt + b·sin ωt, i.e. any sum of same-frequency terms in any phase —
  the signals x_i(t) = a_i cos ωt + b_i sin ωt satisfy the TIME-DOMAIN laws of the circuit (Spec/LawsTD.lean:
  KCL, i = C dv/dt, v = L di/dt + Σ M di'/dt, the instantaneous laws of all other components, with the sources'
  waveforms)   IF AND ONLY IF   their phasors a_i − j b_i satisfy the Laplace-domain laws at s = jω with every
  source replaced by the phasor of its waveform (`steady_state_iff_phasor`).  The proof maps every residual through
  `toPh`, which is linear and turns d/dt into multiplication by jω (`phasor_deriv`).
  Consequences: the MNA phasor solution IS the steady state (`mna_phasor_is_steady_state`, over any ordered field of
  reals, complex numbers `Cx K`); several frequencies are solved separately and added in the time domain
  (`multi_frequency_iff`, `multi_frequency_phasors`); ω = 0 is the DC analysis (`ac_at_zero_is_dc`, `dc_iff_const`).
-/
import Lcapy.Proofs.Phasor
import Lcapy.Props.C01
import Lcapy.Props.C14
import Mathlib.Tactic.Linarith
namespace Lcapy.C14
open Lcapy.MNA Lcapy.TDS Lcapy.Cx Ix
variable {K : Type} [Field K]
set_option linter.unusedSimpArgs false
set_option linter.unusedSectionVars false

/-- **phasor_deriv**: d/dt(a cos ωt + b sin ωt) has the phasor jω·(a − j b) -/
theorem phasor_deriv (w : K) (u : Sinus K) : toPh ((sinusOps w).D u) = jw w * toPh u := toPh_D w u

/-- the formal derivative is the derivative: its value at an instant (cos ωt = C, sin ωt = S) is what the chain rule
    gives, −aω·S + bω·C (anchored to `HasDerivAt` with `Real.cos`/`Real.sin` in Proofs/PhasorAnchor.lean) -/
theorem deriv_at (w C S : K) (u : Sinus K) : ((sinusOps w).D u).at C S = -(u.a * w) * S + u.b * w * C := by
  simp [Sinus.at, sinusOps]; ring

/-- **phasor_linear**: sums of same-frequency sinusoids ↦ sums of phasors; real multiples ↦ real multiples -/
theorem phasor_linear (w r : K) (u v : Sinus K) :
    toPh ((sinusOps w).add u v) = toPh u + toPh v ∧ toPh ((sinusOps w).smul r u) = ofReal r * toPh u :=
  ⟨toPh_add w u v, toPh_smul w r u⟩

/-- **polar_phasor**: A·cos(ωt + φ) = A cos φ · cos ωt − A sin φ · sin ωt has the phasor A·e^{jφ} = A(cos φ + j sin φ);
    A·sin(ωt + φ) is A·cos(ωt + φ − π/2): the phasor −j·A·e^{jφ}.  (c, s) stand for (cos φ, sin φ). -/
theorem polar_phasor (A c s : K) :
    toPh (⟨A * c, -(A * s)⟩ : Sinus K) = ofReal A * ⟨c, s⟩ ∧
    toPh (⟨A * s, A * c⟩ : Sinus K) = -(jw 1) * (ofReal A * ⟨c, s⟩) := by
  constructor <;> ext <;> simp [toPh]

/-- reconstruction: Re(P·e^{jωt}) at an instant -/
theorem time_of_phasor_at (C S : K) (p : Cx K) : (toTime p).at C S = (p * ⟨C, S⟩).re := by
  simp [toTime, Sinus.at]; ring

/-- **steady_state_iff_phasor** -/
theorem steady_state_iff_phasor (w : K) (tcs : List (SCpt K (Sinus K))) (x : Ix → Sinus K) :
    LawsTD (sinusOps w) tcs x ↔ Laws .lap (jw w) (tcs.map phasorCpt) (fun i => toPh (x i)) := by
  have hk : ∀ k, toPh (sumS (sinusOps w) (tcs.map (outflowS (sinusOps w) x k))) =
      lsum ((tcs.map phasorCpt).map (outflow .lap (jw w) (fun i => toPh (x i)) k)) := by
    intro k
    rw [toPh_sumS, List.map_map, List.map_map]
    congr 1
    apply List.map_congr_left
    intro c _
    exact toPh_outflowS w x k c
  constructor
  · rintro ⟨h1, h2⟩
    refine ⟨fun k hk0 => ?_, fun c hc p hp => ?_⟩
    · rw [← hk k, h1 k hk0, toPh_zero]
    · obtain ⟨c0, hc0, rfl⟩ := List.mem_map.mp hc
      rw [← toPh_lawsS w x c0] at hp
      obtain ⟨p0, hp0, rfl⟩ := List.mem_map.mp hp
      show toPh p0.2 = 0
      rw [h2 c0 hc0 p0 hp0, toPh_zero]
  · rintro ⟨h1, h2⟩
    refine ⟨fun k hk0 => ?_, fun c hc p hp => ?_⟩
    · rw [← toPh_eq_zero w, hk k]; exact h1 k hk0
    · rw [← toPh_eq_zero w]
      have : (p.1, toPh p.2) ∈ laws .lap (jw w) (fun i => toPh (x i)) (phasorCpt c) := by
        rw [← toPh_lawsS w x c]; exact List.mem_map.mpr ⟨p, hp, rfl⟩
      exact h2 _ (List.mem_map.mpr ⟨c, hc, rfl⟩) _ this

/-- **phasor_solution_is_steady_state**: read the other way — complex amplitudes X satisfy the phasor-domain laws
    iff the reconstructed signals Re(X e^{jωt}) satisfy the time-domain laws. -/
theorem phasor_solution_is_steady_state (w : K) (tcs : List (SCpt K (Sinus K))) (X : Ix → Cx K) :
    Laws .lap (jw w) (tcs.map phasorCpt) X ↔ LawsTD (sinusOps w) tcs (fun i => toTime (X i)) := by
  rw [steady_state_iff_phasor]
  simp

section ordered
variable {R : Type} [Field R] [LinearOrder R] [IsStrictOrderedRing R]

/-- **mna_phasor_is_steady_state**: over an ordered field of reals, what the assembled MNA system at s = jω
    (stamps with jωC, jωL, jωM and the source phasors) determines is exactly the sinusoidal steady state. -/
theorem mna_phasor_is_steady_state (w : R) (tcs : List (SCpt R (Sinus R))) (X : Ix → Cx R)
    (hwf : C01.WF (tcs.map phasorCpt)) :
    Solves .lap (jw w) (tcs.map phasorCpt) X ↔ LawsTD (sinusOps w) tcs (fun i => toTime (X i)) := by
  rw [C01.mna_iff_laws .lap (jw w) _ X hwf]
  exact phasor_solution_is_steady_state w tcs X

/-- **phasor_is_transfer_at_jw**: `phasor_is_transfer_times_source` at the point s = jω of the complex numbers over an
    ordered field: the output phasor is H(jω)·P, H(jω) being what the transfer experiment measures at s = jω. -/
theorem phasor_is_transfer_at_jw (w : R) (cs : List (Cpt (Cx R))) (p1 m1 p2 m2 b : Nat) (H P : Cx R) (hP : P ≠ 0)
    (hwf : C01.WF (transferExp cs p1 m1 p2 m2 b).ckt)
    (hH : C04.Measures .lap (jw w) (transferExp cs p1 m1 p2 m2 b) H)
    (z : Ix → Cx R)
    (hz : Laws .lap (jw w) ((transferExp cs p1 m1 p2 m2 b).ckt.map (Cpt.mapSrc (fun v => P * v))) z) :
    vd z p2 m2 = H * P :=
  phasor_is_transfer_times_source (jw w) cs p1 m1 p2 m2 b H P hP hwf hH z hz

/-- j·ω with j² = −1: the `mna_iff_laws_ac` of C01 instantiated in `Cx R` -/
theorem jw_is_j_times_w (w : R) : jw w = jw 1 * ofReal w ∧ (jw (1 : R)) * jw 1 = -1 := ⟨jw_eq w, jw_one_sq⟩
end ordered

/-! ### several frequencies: each solved separately, added in the time domain -/

/-- **multi_frequency_iff**: a signal that is a sum of sinusoids of several angular frequencies (one (a, b) pair
    per frequency; sources likewise) satisfies the time-domain laws iff, at EVERY frequency ω, its ω-component
    satisfies the time-domain laws of the netlist in which each source keeps only its ω-component. -/
theorem multi_frequency_iff (tcs : List (SCpt K (K → Sinus K))) (x : Ix → K → Sinus K) :
    LawsTD famOps tcs x ↔ ∀ w, LawsTD (sinusOps w) (tcs.map (atFreq w)) (fun i => x i w) := by
  have hk : ∀ k w, sumS famOps (tcs.map (outflowS famOps x k)) w =
      sumS (sinusOps w) ((tcs.map (atFreq w)).map (outflowS (sinusOps w) (fun i => x i w) k)) := by
    intro k w
    rw [fam_sumS, List.map_map, List.map_map]
    congr 1
    apply List.map_congr_left
    intro c _
    exact fam_outflowS x k c w
  constructor
  · rintro ⟨h1, h2⟩ w
    refine ⟨fun k hk0 => ?_, fun c hc p hp => ?_⟩
    · rw [← hk k w, h1 k hk0]; rfl
    · obtain ⟨c0, hc0, rfl⟩ := List.mem_map.mp hc
      rw [← fam_lawsS x c0 w] at hp
      obtain ⟨p0, hp0, rfl⟩ := List.mem_map.mp hp
      show p0.2 w = _
      rw [h2 c0 hc0 p0 hp0]; rfl
  · intro h
    refine ⟨fun k hk0 => ?_, fun c hc p hp => ?_⟩
    · funext w
      rw [hk k w, (h w).1 k hk0]; rfl
    · funext w
      have : (p.1, p.2 w) ∈ lawsS (sinusOps w) (fun i => x i w) (atFreq w c) := by
        rw [← fam_lawsS x c w]; exact List.mem_map.mpr ⟨p, hp, rfl⟩
      exact (h w).2 _ (List.mem_map.mpr ⟨c, hc, rfl⟩) _ this

/-- **multi_frequency_phasors**: … iff at every ω the phasors solve the phasor-domain laws at s = jω with the
    source phasors of that frequency — the superposition over distinct frequencies that `Netlist.ac()` / `select(ω)`
    perform; the time-domain result is the sum over the frequencies. -/
theorem multi_frequency_phasors (tcs : List (SCpt K (K → Sinus K))) (x : Ix → K → Sinus K) :
    LawsTD famOps tcs x ↔
      ∀ w, Laws .lap (jw w) ((tcs.map (atFreq w)).map phasorCpt) (fun i => toPh (x i w)) := by
  rw [multi_frequency_iff]
  exact forall_congr' (fun w => steady_state_iff_phasor w _ _)

/-- at a frequency where a source has no component it is KILLED (0 V: a short, 0 A: an open) — `select(ω)` -/
theorem other_frequency_source_killed (w : K) (n1 n2 m : Nat) (v : K) (f : K → Sinus K) (h : f w = ⟨0, 0⟩) :
    phasorCpt (atFreq w (.V n1 n2 m v, f)) = .V n1 n2 m 0 ∧
    phasorCpt (atFreq w (.I n1 n2 v, f)) = .I n1 n2 0 := by
  constructor <;> simp [phasorCpt, atFreq, h, toPh] <;> rfl

/-! ### ω = 0 is the DC analysis -/

/-- **ac_at_zero_is_dc**: the phasor-domain laws at s = j·0 are the DC laws (a capacitor passes no current, an
    inductor — coupled or not — is a short), for every netlist over any field. -/
theorem ac_at_zero_is_dc (s' : K) (cs : List (Cpt K)) (x : Ix → K) :
    Laws .lap 0 cs x ↔ Laws .dc s' cs x := by
  have ho : ∀ k c, outflow .lap 0 x k c = outflow .dc s' x k c := by
    intro k c; cases c <;> simp [outflow, capCurrent]
  have hl : ∀ c, laws .lap 0 x c = laws .dc s' x c := by
    intro c; cases c <;> simp [laws, mutualDrop_zero]
  constructor <;> rintro ⟨hk, hlw⟩ <;> refine ⟨fun k hk0 => ?_, fun c hc p hp => ?_⟩
  · refine Eq.trans ?_ (hk k hk0); congr 1; apply List.map_congr_left; intro c _; exact (ho k c).symm
  · rw [← hl c] at hp; exact hlw c hc p hp
  · refine Eq.trans ?_ (hk k hk0); congr 1; apply List.map_congr_left; intro c _; exact ho k c
  · rw [hl c] at hp; exact hlw c hc p hp

/-- in `Cx K`: s = jω at ω = 0 is s = 0 -/
theorem jw_zero : jw (0 : K) = 0 := rfl

/-- **dc_iff_const**: constant signals satisfy the time-domain laws (d/dt = 0) iff they satisfy the DC laws. -/
theorem dc_iff_const (s' : K) (tcs : List (SCpt K K)) (x : Ix → K) :
    LawsTD constOps tcs x ↔ Laws .dc s' (tcs.map dcCpt) x := by
  have ho : ∀ k c, outflowS constOps x k c = outflow .dc s' x k (dcCpt c) := by
    intro k c
    obtain ⟨c, w⟩ := c
    cases c <;> simp [outflowS, outflow, dcCpt, capCurrent] <;> (try ring)
  have hmd : ∀ coup : List (Nat × K × Option K), mutualDropS constOps x coup = 0 := by
    intro coup
    induction coup with
    | nil => rfl
    | cons p t ih =>
      simp only [mutualDropS, List.map_cons, sumS] at ih ⊢
      rw [ih]; simp
  have hl : ∀ c, lawsS constOps x c = laws .dc s' x (dcCpt c) := by
    intro c
    obtain ⟨c, w⟩ := c
    cases c <;> simp [lawsS, laws, dcCpt, hmd] <;> (try ring) <;> (try (constructor <;> ring)) <;> (try (left; trivial))
  constructor
  · rintro ⟨h1, h2⟩
    refine ⟨fun k hk0 => ?_, fun c hc p hp => ?_⟩
    · have := h1 k hk0
      rw [const_sumS] at this
      rw [List.map_map]
      rw [show (outflow .dc s' x k ∘ dcCpt) = outflowS constOps x k from funext (fun c => (ho k c).symm)]
      exact this
    · obtain ⟨c0, hc0, rfl⟩ := List.mem_map.mp hc
      rw [← hl c0] at hp
      exact h2 c0 hc0 p hp
  · rintro ⟨h1, h2⟩
    refine ⟨fun k hk0 => ?_, fun c hc p hp => ?_⟩
    · have := h1 k hk0
      rw [List.map_map] at this
      rw [show (outflow .dc s' x k ∘ dcCpt) = outflowS constOps x k from funext (fun c => (ho k c).symm)] at this
      rw [const_sumS]; exact this
    · rw [hl c] at hp
      exact h2 _ (List.mem_map.mpr ⟨c, hc, rfl⟩) p hp

/-! ### non-vacuity: `V1 1 0 {3 cos 2t + 4 sin 2t}; R1 1 2 2; C1 2 0 1/4` -/

def exRC : List (SCpt ℚ (Sinus ℚ)) := [(.V 1 0 0 0, ⟨3, 4⟩), (.R 1 2 2, ⟨0, 0⟩), (.Cap 2 0 (1/4) none, ⟨0, 0⟩)]

/-- H(j2) = 1/(1 + j·2·2·(1/4)) = 1/(1 + j): V(2) = (3 − 4j)/(1 + j) = −1/2 − 7/2 j, i.e. −1/2 cos 2t + 7/2 sin 2t -/
def exRCsol : Ix → Sinus ℚ := fun i => match i with
  | node 1 => ⟨3, 4⟩ | node 2 => ⟨-1/2, 7/2⟩ | br 0 => ⟨-7/4, -1/4⟩ | _ => ⟨0, 0⟩

example : LawsTD (sinusOps 2) exRC exRCsol := by
  constructor
  · intro k hk
    match k with
    | 0 => exact absurd rfl hk
    | 1 => simp [exRC, exRCsol, outflowS, twoTermS, sumS, vdS, voltS, sinusOps]; norm_num
    | 2 => simp [exRC, exRCsol, outflowS, twoTermS, sumS, vdS, voltS, sinusOps]; norm_num
    | (k + 3) => simp [exRC, outflowS, twoTermS, sumS, sinusOps]
  · intro c hc p hp
    simp only [exRC, List.mem_cons, List.mem_nil_iff, or_false] at hc
    rcases hc with rfl | rfl | rfl <;>
      simp [lawsS] at hp <;> (try subst hp) <;> simp [vdS, voltS, exRCsol, sinusOps]

example : C01.WF (exRC.map phasorCpt) := by simp [C01.WF, exRC, phasorCpt, embed, owned]

/-- non-vacuity of `phasor_is_transfer_times_source`: the divider `R1 1 2 1; R2 2 0 2` has H = 2/3 from (1, 0) to (2, 0) -/
def exDiv : List (Cpt ℚ) := [.R 1 2 1, .R 2 0 2]

example : C01.WF (transferExp exDiv 1 0 2 0 0).ckt := by
  simp [C01.WF, transferExp, vProbe, killAll, exDiv, Cpt.isVAcross, Cpt.mapSrc, owned]

example (s : ℚ) : C04.Measures .lap s (transferExp exDiv 1 0 2 0 0) (2 / 3) := by
  constructor
  · refine ⟨fun i => match i with | node 1 => 1 | node 2 => 2/3 | br 0 => -1/3 | _ => 0, ?_, ?_⟩
    · intro k hk
      match k with
      | 0 => exact absurd rfl hk
      | 1 => norm_num [transferExp, vProbe, killAll, exDiv, Cpt.isVAcross, Cpt.mapSrc, outflow, twoTerm, lsum, vd, volt]
      | 2 => norm_num [transferExp, vProbe, killAll, exDiv, Cpt.isVAcross, Cpt.mapSrc, outflow, twoTerm, lsum, vd, volt]
      | (k + 3) => simp [transferExp, vProbe, killAll, exDiv, Cpt.isVAcross, Cpt.mapSrc, outflow, twoTerm, lsum]
    · intro c hc p hp
      simp [transferExp, vProbe, killAll, exDiv, Cpt.isVAcross, Cpt.mapSrc] at hc
      rcases hc with rfl | rfl | rfl <;> simp [laws] at hp <;> (try subst hp) <;> norm_num [vd, volt]
  · intro x hx
    have k2 := hx.1 2 (by decide)
    have l1 := hx.2 (.V 1 0 0 1) (by simp [transferExp, vProbe]) (0, vd x 1 0 - 1) (by simp [laws])
    simp [transferExp, vProbe, killAll, exDiv, Cpt.isVAcross, Cpt.mapSrc, outflow, twoTerm, lsum, vd, volt] at k2 l1
    simp only [transferExp, Obs.read, vd, volt]
    linarith

end Lcapy.C14
