/-
  C17, clause "responses computed numerically", part 2: `LaplaceDomainExpression.response` (lcapy/sexpr.py), the two
  numerical routes `_response_impulse_invariance` and `_response_bilinear`.

  Model: `Lcapy/Model/Response.lean` (`respIIConv`, `respII`, `respBilinear`, `respCoeffs`, spec side `convSum`) with the
  kernel sample times `iiKernelTimes` and the scale `iiScale` GENERATED from the source text
  (`Lcapy/Generated/SimCompanion.lean`).  All theorems over an arbitrary field, for every kernel function, every input
  vector, every numerator / denominator order.

    impulse_invariance_kernel_lags      the kernel is sampled at the LAGS `k dt`, `k < Nt` (not at the caller's times)
    impulse_invariance_scale            the convolution is scaled by `dt`
    impulse_invariance_start_invariant  the response depends on the time vector only through its length
    impulse_invariance_is_conv_sum      `y[n] = dt Σ_{k=0}^{n} x[n-k] h(k dt)`
    impulse_invariance_shift            delaying the input by m samples delays the output by m samples
    bilinear_coeffs_value               the filter `_response_bilinear` runs is `H((1/dt)(1 - w)/(alpha + (1 - alpha) w))`
    bilinear_is_convolution             the output is the causal convolution of the input with the filter's impulse response
    bilinear_shift                      delaying the input by m samples delays the output by m samples
    bilinear_delay                      a delay of `nd` whole samples: `nd` zeros, then the response to `x[:-nd]`
-/
import Lcapy.Proofs.ResponseBase
import Lcapy.Props.C13b
namespace Lcapy.C17
open Lcapy Lcapy.DT Lcapy.Resp Lcapy.Gen.Sim Lcapy.SimBase
variable {K : Type} [Field K]

/-! ## 1. impulse invariance -/

/-- the kernel sample times are the lags `0, dt, 2 dt, ...` -- `rfl` on the GENERATED definition -/
theorem impulse_invariance_kernel_lags (tv : List K) (dt : K) : iiKernelTimes tv dt = lagTimes tv.length dt := rfl

omit [Field K] in
theorem impulse_invariance_scale (dt : K) : iiScale dt = dt := rfl

/-- translation invariance in `t[0]`: two time vectors of the same length give the same response -/
theorem impulse_invariance_start_invariant (kernel : K → K) (q x tv tv' : List K) (dt : K)
    (h : tv.length = tv'.length) : respII kernel q x tv dt = respII kernel q x tv' dt := by
  simp only [respII, respIIConv, impulse_invariance_kernel_lags, h]

/-- the n-th output is the causal convolution sum with the kernel sampled at the lags -/
theorem impulse_invariance_is_conv_sum (kernel : K → K) (x tv : List K) (dt : K) (n : ℕ)
    (hx : x.length = tv.length) (hn : n < tv.length) :
    (respIIConv kernel x tv dt).getD n 0 = convSum kernel x dt n := by
  have hx0 : x ≠ [] := by intro e; rw [e] at hx; simp at hx; omega
  rw [respIIConv_getD kernel x tv dt n hx0 hn, coeff_toPS_mul_toPS, convSum, lsum_map_range, mul_comm]
  congr 1
  apply Finset.sum_congr rfl
  intro k hk
  rw [lagKernel_getD kernel _ dt k (by have := Finset.mem_range.mp hk; omega), mul_comm]

/-- time invariance: the input delayed by m samples (zero-padded, time vector started m samples earlier) gives the
    output delayed by m samples -/
theorem impulse_invariance_shift (kernel : K → K) (x tv tvm : List K) (dt : K) (m : ℕ)
    (hx : x.length = tv.length) (hm : tvm.length = tv.length + m) (hne : x ≠ []) :
    respIIConv kernel (List.replicate m 0 ++ x) tvm dt = List.replicate m 0 ++ respIIConv kernel x tv dt := by
  have hne' : List.replicate m (0 : K) ++ x ≠ [] := by simp [hne]
  apply list_ext_getD
  · rw [respIIConv_length _ _ _ _ hne', List.length_append, respIIConv_length _ _ _ _ hne, List.length_replicate]
    omega
  · intro n hn
    rw [respIIConv_length _ _ _ _ hne'] at hn
    rw [respIIConv_getD kernel _ tvm dt n hne' hn, toPS_replicate_append, getD_replicate_append, mul_left_comm,
      PowerSeries.coeff_X_pow_mul']
    by_cases h : n < m
    · have : ¬ m ≤ n := by omega
      simp [h, this]
    · have h1 : m ≤ n := by omega
      have h2 : n - m < tv.length := by omega
      rw [if_pos h1, if_neg h, respIIConv_getD kernel x tv dt _ hne h2]
      congr 1
      apply coeff_toPS_mul_congr
      intro k hk
      rw [lagKernel_getD kernel _ dt k (by omega), lagKernel_getD kernel _ dt k (by omega)]

/-! ## 2. the bilinear family -/

/-- the coefficient lists `_response_bilinear` hands to `lfilter` are those of
    `H(s)` at `s = (1/dt) (1 - w) / (alpha + (1 - alpha) w)`, `w = 1/z` -/
theorem bilinear_coeffs_value (alpha dt : K) (num den : List K) (w : K) (hdt : dt ≠ 0)
    (hw : alpha + (1 - alpha) * w ≠ 0) :
    peval (respCoeffs alpha dt num den).1 w / peval (respCoeffs alpha dt num den).2 w
      = peval num (1 / dt * (1 - w) / (alpha + (1 - alpha) * w))
        / peval den (1 / dt * (1 - w) / (alpha + (1 - alpha) * w)) := by
  have hD : peval (gbtDen alpha dt) w ≠ 0 := by
    have e : peval (gbtDen alpha dt) w = dt * (alpha + (1 - alpha) * w) := by
      simp only [gbtDen, peval_cons, peval_nil]; ring
    rw [e]
    exact mul_ne_zero hdt hw
  have := C13.discretize_is_substitution num den gbtNum (gbtDen alpha dt) w hD
  rw [C13.gbt_documented_map alpha dt w hdt] at this
  exact this

/-- the output is the causal convolution of the input with the filter's impulse response (lag indices only) -/
theorem bilinear_is_convolution (alpha dt : K) (num den x : List K) (n : ℕ) (hn : n < x.length)
    (ha : (respCoeffs alpha dt num den).2.headD 0 ≠ 0) :
    (respBilinear alpha dt num den 0 x).getD n 0
      = ∑ p ∈ Finset.antidiagonal n,
          hCoeff (respCoeffs alpha dt num den).1 (respCoeffs alpha dt num den).2 p.1 * litZ x p.2 := by
  simp only [respBilinear, List.replicate_zero, List.nil_append, ↓reduceIte]
  exact lfilter_convolution _ _ x ha n hn

/-- time invariance: m leading zeros in the input give m leading zeros in the output, then the same response -/
theorem bilinear_shift (alpha dt : K) (num den x : List K) (m : ℕ)
    (ha : (respCoeffs alpha dt num den).2.headD 0 ≠ 0) :
    respBilinear alpha dt num den 0 (List.replicate m 0 ++ x)
      = List.replicate m 0 ++ respBilinear alpha dt num den 0 x := by
  simp only [respBilinear, List.replicate_zero, List.nil_append, ↓reduceIte]
  exact lfilter_shift _ _ x m ha

/-- a delay of `nd ≠ 0` whole samples: the last `nd` input samples are dropped, `nd` zeros are prepended -/
theorem bilinear_delay (alpha dt : K) (num den x : List K) (nd : ℕ) (hnd : nd ≠ 0) :
    respBilinear alpha dt num den nd x
      = List.replicate nd 0 ++ respBilinear alpha dt num den 0 (x.take (x.length - nd)) := by
  simp [respBilinear, hnd]

/-! ## 3. non-vacuity -/

-- (a) kernel h(t) = t, dt = 1: the start time of the time vector does not matter
example : respIIConv (fun t : ℚ => t) [1, 2, 3] [5, 6, 7] 1 = respIIConv (fun t : ℚ => t) [1, 2, 3] [0, 1, 2] 1 := by
  decide +kernel
example : respIIConv (fun t : ℚ => t) [1, 2, 3] [5, 6, 7] 1 = [0, 1, 4] := by decide +kernel
example : respII (fun t : ℚ => t) [2] [1, 2, 3] [5, 6, 7] 1 = respII (fun t : ℚ => t) [2] [1, 2, 3] [0, 1, 2] 1 :=
  impulse_invariance_start_invariant _ _ _ _ _ _ rfl
example : respII (fun t : ℚ => t) [2] [1, 2, 3] [5, 6, 7] 1 = [2, 5, 10] := by decide +kernel
example : (respIIConv (fun t : ℚ => t) [1, 2, 3] [5, 6, 7] 1).getD 2 0 = convSum (fun t : ℚ => t) [1, 2, 3] 1 2 :=
  impulse_invariance_is_conv_sum _ _ _ _ 2 rfl (by decide)
example : convSum (fun t : ℚ => t) [1, 2, 3] 1 2 = 4 := by decide +kernel

-- (b) `impulse_invariance_shift`, m = 2
example : respIIConv (fun t : ℚ => t) (List.replicate 2 0 ++ [1, 2, 3]) [3, 4, 5, 6, 7] 1
    = List.replicate 2 0 ++ respIIConv (fun t : ℚ => t) [1, 2, 3] [5, 6, 7] 1 :=
  impulse_invariance_shift _ _ _ _ _ 2 rfl rfl (by simp)
example : respIIConv (fun t : ℚ => t) [0, 0, 1, 2, 3] [3, 4, 5, 6, 7] 1 = [0, 0, 0, 1, 4] := by decide +kernel

-- (c) H = 1/s, alpha = 1/2, dt = 1: the trapezoidal rule applied to a ramp
example : respCoeffs (1 / 2 : ℚ) 1 [1] [0, 1] = ([1 / 2, 1 / 2], [1, -1, 0]) := by decide +kernel
example : (respCoeffs (1 / 2 : ℚ) 1 [1] [0, 1]).2.headD 0 ≠ 0 := by decide +kernel
example : respBilinear (1 / 2 : ℚ) 1 [1] [0, 1] 0 [0, 1, 2, 3] = [0, 1 / 2, 2, 9 / 2] := by decide +kernel
example (w : ℚ) (hw : 1 / 2 + (1 - 1 / 2) * w ≠ 0) :
    peval (respCoeffs (1 / 2 : ℚ) 1 [1] [0, 1]).1 w / peval (respCoeffs (1 / 2 : ℚ) 1 [1] [0, 1]).2 w
      = peval [1] (1 / 1 * (1 - w) / (1 / 2 + (1 - 1 / 2) * w)) / peval [0, 1] (1 / 1 * (1 - w) / (1 / 2 + (1 - 1 / 2) * w)) :=
  bilinear_coeffs_value _ _ _ _ w one_ne_zero hw

-- (d) `bilinear_shift`, m = 1, and `bilinear_delay`
example : respBilinear (1 / 2 : ℚ) 1 [1] [0, 1] 0 (List.replicate 1 0 ++ [1, 2, 3])
    = List.replicate 1 0 ++ respBilinear (1 / 2 : ℚ) 1 [1] [0, 1] 0 [1, 2, 3] :=
  bilinear_shift _ _ _ _ _ 1 (by decide +kernel)
example : respBilinear (1 / 2 : ℚ) 1 [1] [0, 1] 0 [1, 2, 3] = [1 / 2, 2, 9 / 2] := by decide +kernel
example : respBilinear (1 / 2 : ℚ) 1 [1] [0, 1] 1 [1, 2, 3, 4] = [0, 1 / 2, 2, 9 / 2] := by decide +kernel

end Lcapy.C17
