/-
  AUDIT (reviewer, not the owner): machine-checked NON-VACUITY witnesses for the theorems of
  Props/C18.lean, C18Sup.lean, C18TP.lean, C18Tr.lean that carry hypotheses.  Every `nv_*` instantiates
  the audited theorem itself on a concrete, realistic operand / table row, so all of its hypotheses are
  proved to hold together.  Nothing here weakens or replaces a property theorem.
-/
import Lcapy.Props.C18
import Lcapy.Props.C18Sup
import Lcapy.Props.C18TP
import Lcapy.Props.C18Tr
set_option linter.defProp false
namespace Lcapy.NonVacuity.C18
open Lcapy.Dim Lcapy.DimTP Lcapy.QModel Lcapy.QSup Lcapy.Gen.Q Lcapy.Gen.QSup Lcapy.Gen.QTP Lcapy.QBase Lcapy.C18

/-! operands as the real API produces them -/
/-- `voltage('V(s)')`: Laplace voltage, V/Hz -/
def vL : Opd := ⟨.laplace, .voltage, ⟨1, 0, 0, 0, 0, -1, 0, 0⟩, false, false, false⟩
/-- Laplace current, A/Hz -/
def iL : Opd := ⟨.laplace, .current, ⟨0, 1, 0, 0, 0, -1, 0, 0⟩, false, false, false⟩
/-- Laplace admittance, S -/
def yL : Opd := ⟨.laplace, .admittance, ⟨0, 0, 0, 1, 0, 0, 0, 0⟩, false, false, false⟩
/-- Laplace impedance, ohm -/
def zL : Opd := ⟨.laplace, .impedance, ⟨0, 0, 1, 0, 0, 0, 0, 0⟩, false, false, false⟩
/-- time-domain voltage, V -/
def vT : Opd := ⟨.time, .voltage, ⟨1, 0, 0, 0, 0, 0, 0, 0⟩, false, false, false⟩
/-- time-domain current, A -/
def iT : Opd := ⟨.time, .current, ⟨0, 1, 0, 0, 0, 0, 0, 0⟩, false, false, false⟩
/-- time-domain impedance (impulse response), ohm/s -/
def zT : Opd := ⟨.time, .impedance, ⟨0, 0, 1, 0, 0, 0, -1, 0⟩, false, false, false⟩
/-- Fourier-domain voltage -/
def vF : Opd := ⟨.fourier, .voltage, ⟨1, 0, 0, 0, 0, -1, 0, 0⟩, false, false, false⟩
/-- the constant `3` held in the generic Laplace class (numerator of `3 / Z(s)`) -/
def three : Opd := ⟨.laplace, .undefined, U.one, false, true, true⟩

/-! ## Props/C18.lean, table theorems whose body is an implication: the antecedent is inhabited -/

theorem nv_constant_results_dimensionless :
    (∃ r ∈ mulTable, r.2.2 = .constant) ∧ (∃ r ∈ divTable, r.2.2 = .constant) := by decide

theorem nv_class_units_expected : (classTable.filter (fun r => r.units.isSome)).length = 190 := by
  decide +kernel

theorem nv_transform_units :
    ∃ r ∈ transformTable, r.src ∈ namedDomains ∧ r.dst ∈ namedDomains ∧ r.scale.isSome := by decide

theorem nv_transform_scale_exact :
    (∃ r ∈ transformTable, r.scale.isSome ∧ r.src = .time) ∧
    (∃ r ∈ transformTable, r.scale.isSome ∧ r.dst = .time) := by decide

theorem nv_transform_roundtrip :
    ∃ r1 ∈ transformTable, ∃ r2 ∈ transformTable, r1.src = r2.dst ∧ r1.dst = r2.src ∧
      r1.scale.isSome ∧ r2.scale.isSome := by decide

theorem nv_transform_units_other_partial :
    ∃ r ∈ transformTable, r.src ≠ .normFourier ∧ r.src ≠ .normAngularFourier ∧ r.scale.isSome ∧
      r.src ∉ namedDomains := by decide

/-! ## `*` -/

theorem nv_mul_refuses_absent : mulM tables vT zT = .err .quantities :=
  mul_refuses_absent tables vT zT (by intro r; cases r <;> decide) (by intro r; cases r <;> decide)
    (by decide) (by decide)

theorem nv_mul_only_from_table :
    ∃ r, ((constify vL.q, constify yL.q, r) ∈ tables.mul ∨ (constify yL.q, constify vL.q, r) ∈ tables.mul) ∧
      Quantity.current = unconstify r :=
  mul_only_from_table tables vL yL .laplace .current ⟨1, 0, 0, 1, 0, -1, 0, 0⟩ (by decide) (by decide)

def nv_op_units_mul := op_units_mul tables vL yL .laplace .current ⟨1, 0, 0, 1, 0, -1, 0, 0⟩ (by decide)

def nv_mul_dimension :=
  mul_dimension tables vL yL .laplace .current ⟨1, 0, 0, 1, 0, -1, 0, 0⟩ (by decide) (by decide)

def nv_mul_quantity_dimension :=
  mul_quantity_dimension tables mul_dim vL yL .laplace .current ⟨1, 0, 0, 1, 0, -1, 0, 0⟩ (by decide)
    (by decide)

def nv_mul_consistent :=
  mul_consistent vL yL .laplace .current ⟨1, 0, 0, 1, 0, -1, 0, 0⟩ (by decide) (by decide) (by decide)
    (by decide)

/-- the generic branch of `op_units_mul` is inhabited too (`s * t`) -/
theorem nv_op_units_mul_generic :
    genericPair ⟨.laplace, .undefined, U.one, false, false, false⟩ ⟨.time, .undefined, U.one, false, false, false⟩
      = true := by decide

/-! ## `/` -/

theorem nv_div_reflected : divM tables three zL = recipImmittance tables three.units zL :=
  div_reflected tables three zL (by decide)

def nv_div_only_from_table :=
  div_only_from_table tables vL iL .laplace .impedance ⟨1, -1, 0, 0, 0, 0, 0, 0⟩ (by decide)

theorem nv_div_refuses_absent : divCore tables vT ⟨.time, .power, ⟨0, 0, 0, 0, 1, 0, 0, 0⟩, false, false, false⟩
    = .err .quantities :=
  div_refuses_absent tables vT _ (by intro r; cases r <;> decide) (by decide)

def nv_op_units_div :=
  op_units_div tables flag_div_restores_units vL iL .laplace .impedance ⟨1, -1, 0, 0, 0, 0, 0, 0⟩ (by decide)

def nv_div_quantity_dimension :=
  div_quantity_dimension tables div_dim vL iL .laplace .impedance ⟨1, -1, 0, 0, 0, 0, 0, 0⟩ (by decide)

def nv_div_consistent :=
  div_consistent vL iL .laplace .impedance ⟨1, -1, 0, 0, 0, 0, 0, 0⟩ (by decide) (by decide) (by decide)

def nv_recip_consistent := recip_consistent U.one zT (Or.inl rfl) (by decide) (by decide)

/-! ## `+`, `-`, `==` -/

def nv_add_refuses_quantities :=
  add_refuses_quantities tables flag_omega_needs_quantity ⟨true, false, false⟩ vL iL (by decide) (by decide)
    (by decide)

def nv_add_refuses_quantities_now :=
  add_refuses_quantities_now ⟨false, true, true⟩ vL zL (by decide) (by decide) (by decide)

def nv_add_refuses_domains_partial :=
  add_refuses_domains_partial tables ⟨true, false, false⟩ vL vF (by decide) (by decide) (by decide) (by decide)

def nv_add_refuses_partial :=
  add_refuses_partial tables flag_omega_needs_quantity ⟨true, false, false⟩ vL vF (by decide)
    (Or.inl (by decide))

def nv_eq_false_when_refused_partial :=
  eq_false_when_refused_partial tables flag_omega_needs_quantity ⟨true, false, false⟩ vL vF (by decide)
    (Or.inl (by decide))

def nv_eq_false_when_quantities_differ :=
  eq_false_when_quantities_differ ⟨true, true, false⟩ vL iL (by decide) (by decide) (by decide)

def nv_add_result :=
  add_result tables ⟨true, true, false⟩ vL vL .laplace .voltage (defaultUnits tables .laplace .voltage)
    (by decide)

def nv_add_accepts_same := add_accepts_same tables ⟨true, true, false⟩ vL vL rfl rfl (by decide)

def nv_canon_fold := canon_fold tables flag_canon_folds_hertz ⟨0, 0, 1, 0, 0, 1, 0, 0⟩

def nv_add_checks_units :=
  add_checks_units tables false false vT iT (by decide) ⟨rfl, rfl⟩ (Or.inl rfl)

/-- the second branch of `hl` (loose_units on, neither operand reports `is_undefined`) -/
def nv_add_checks_units_loose :=
  add_checks_units tables true false vT iT (by decide) ⟨rfl, rfl⟩ (Or.inr (by decide))

/-! ## `**`, transforms -/

def nv_pow_two_consistent :=
  pow_two_consistent vT .time .voltagesquared ⟨2, 0, 0, 0, 0, 0, 0, 0⟩ (by decide) (by decide) (by decide)

def nv_pow_general := pow_general tables flag_pow_sets_units vT 3 (by decide) (by decide)
def nv_pow_general_now := pow_general_now vT (-2) (by decide) (by decide)
def nv_pow_minus_one_immittance := pow_minus_one_immittance tables zL (Or.inl rfl)

def nv_transform_model_units :=
  transform_model_units tables vT "LT" .laplace .voltage ⟨1, 0, 0, 0, 0, 0, 1, 0⟩ (by decide)

/-! ## Props/C18Sup.lean -/

def nv_sup_add_refuses_quantities :=
  sup_add_refuses_quantities tables supTables flag_sup_add_checks_quantity .voltage iL (by decide) (by decide)

def nv_sup_add_refuses_superposition :=
  sup_add_refuses_superposition tables supTables flag_sup_add_checks_quantity .voltage .current (by decide)

def nv_sup_add_refuses_quantities_now :=
  sup_add_refuses_quantities_now .voltage iL (by decide) (by decide)

def nv_sup_sub_eq_refuse := sup_sub_eq_refuse .current vT (by decide) (by decide)

def nv_sup_add_keeps_quantity :=
  sup_add_keeps_quantity tables supTables flag_sup_add_checks_quantity .voltage (.ex vL) .voltage
    (some ("s", .laplace, .voltage)) (by decide)

def nv_sup_mul_refuses :=
  sup_mul_refuses supTables .voltage _ (by decide : mulRow supTables .voltage = some
    ⟨.voltage, .admittance, .impedance, .current, true, true,
      [(.dc, .atZero), (.ac, .atJOmega0), (.n, .atOmega), (.s, .asLaplace), (.t, .asIs)]⟩) zL (by decide)

def nv_sup_div_refuses :=
  sup_div_refuses supTables .voltage _ (by decide : mulRow supTables .voltage = some
    ⟨.voltage, .admittance, .impedance, .current, true, true,
      [(.dc, .atZero), (.ac, .atJOmega0), (.n, .atOmega), (.s, .asLaplace), (.t, .asIs)]⟩) yL (by decide)

def nv_sup_mul_result :=
  sup_mul_result supTables .voltage _ (by decide : mulRow supTables .voltage = some
    ⟨.voltage, .admittance, .impedance, .current, true, true,
      [(.dc, .atZero), (.ac, .atJOmega0), (.n, .atOmega), (.s, .asLaplace), (.t, .asIs)]⟩) yL .current none
    (by decide)

/-- the 's' component (V/Hz) of a SuperpositionVoltage times a Laplace admittance -/
def nv_sup_mul_component_consistent :=
  sup_mul_component_consistent .voltage (Or.inl rfl) ⟨1, 0, 0, 0, 0, -1, 0, 0⟩ .s .asLaplace yL .laplace .current
    ⟨1, 0, 0, 1, 0, -1, 0, 0⟩ (by decide) (by decide) (by decide)

def ph (q : Quantity) (u : U) (n : Nat) : POpd := ⟨⟨.phasor, q, u, false, true, true⟩, .num n⟩

def nv_ph_unequal_omega_mul_refused :=
  ph_unequal_omega_mul_refused tables supTables flag_phasor_omega_checked
    (ph .voltage ⟨1, 0, 0, 0, 0, 0, 0, 0⟩ 3) (ph .voltage ⟨1, 0, 0, 0, 0, 0, 0, 0⟩ 5)
    (by decide) (by decide) (by decide) (by decide) (by decide) (by decide) (by decide)

def nv_ph_unequal_omega_div_refused :=
  ph_unequal_omega_div_refused tables supTables flag_phasor_omega_checked
    (ph .voltage ⟨1, 0, 0, 0, 0, 0, 0, 0⟩ 3) (ph .current ⟨0, 1, 0, 0, 0, 0, 0, 0⟩ 5)
    (by decide) (by decide) (by decide) (by decide) (by decide) (by decide) (by decide) (by decide)

def nv_ph_unequal_omega_add_refused :=
  ph_unequal_omega_add_refused tables supTables flag_phasor_omega_checked ⟨true, true, false⟩
    (ph .voltage ⟨1, 0, 0, 0, 0, 0, 0, 0⟩ 3) (ph .voltage ⟨1, 0, 0, 0, 0, 0, 0, 0⟩ 5)
    (by decide) (by decide) (by decide) (by decide) (by decide) (by decide)

/-- the same-domain branch (V(3) * V(3)) ... -/
def nv_ph_equal_omega_mul :=
  ph_equal_omega_mul tables supTables (ph .voltage ⟨1, 0, 0, 0, 0, 0, 0, 0⟩ 3)
    (ph .voltage ⟨1, 0, 0, 0, 0, 0, 0, 0⟩ 3) (by decide) (Or.inl rfl) (Or.inl (by decide))

/-- ... and the constant-domain branch (V(3) * Y(j3)) -/
def nv_ph_equal_omega_mul_const :=
  ph_equal_omega_mul tables supTables (ph .voltage ⟨1, 0, 0, 0, 0, 0, 0, 0⟩ 3)
    ⟨⟨.constantFrequencyResponse, .admittance, ⟨0, 0, 0, 1, 0, 0, 0, 0⟩, false, true, true⟩, .none⟩
    (by decide) (Or.inr (by decide)) (Or.inr (by decide))

def nv_ph_mul_consistent :=
  ph_mul_consistent (ph .voltage ⟨1, 0, 0, 0, 0, 0, 0, 0⟩ 3)
    ⟨⟨.constantFrequencyResponse, .admittance, ⟨0, 0, 0, 1, 0, 0, 0, 0⟩, false, true, true⟩, .none⟩
    .phasor .current ⟨1, 0, 0, 1, 0, 0, 0, 0⟩ (.num 3) (by decide) (by decide) (by decide) (by decide)

/-! ## Props/C18TP.lean -/

def nv_ratio_rule_unique := ratio_rule_unique .V2 .I1 .impedance (Or.inr (Or.inl rfl)) (by decide)

/-- the antecedent `expectOf r.2.1 = some q` of `tp_code_wrappers_expected` holds for most rows -/
theorem nv_tp_code_wrappers_expected :
    100 ≤ (tpWrap.filter (fun r => (expectOf r.2.1).isSome)).length := by decide +kernel

theorem nv_tp_code_wrappers_documented :
    5 ≤ (tpWrap.filter (fun r => (docExpectOf r.1 r.2.1).isSome)).length := by decide +kernel

theorem nv_net_methods_typed_on_every_route :
    10 ≤ (netWrap.filter (fun r => (netExpectOf r.1).isSome)).length := by decide +kernel

theorem nv_tp_docstrings_agree :
    ∃ r ∈ docPorts, ∃ e ∈ tpExpect, e.1 = r.2.1 := by decide +kernel

/-- V1(s) * transadmittance (= I2/V1) is a current -/
def nv_tp_times_denominator :=
  tp_times_denominator vL yL .laplace .current ⟨1, 0, 0, 1, 0, -1, 0, 0⟩ .I2 .V1 (by decide) (by decide)
    (by decide) (by decide)

def nv_tp_not_addable_to_other_quantity :=
  tp_not_addable_to_other_quantity ⟨true, true, false⟩ zL vL (Or.inr (Or.inl rfl)) (by decide) (by decide)

/-! ## Props/C18Tr.lean -/

theorem nv_constant_immittance_products_stay_responses :
    ∃ r ∈ mulTable ++ divTable, isResponseQ r.1 = true ∧ isResponseQ r.2.1 = true ∧ r.2.2 ≠ .constant := by
  decide

theorem nv_discrete_transforms_unscaled :
    ∃ r ∈ transformTable, r.src = .discreteTime ∧ r.dst = .Z := by decide

theorem nv_constant_domain_changes_unscaled :
    ∃ r ∈ transformTable, isConst tables r.src = true := by decide

theorem nv_method_named_after_domain :
    5 ≤ (transformTable.filter (fun r => (domainOfMethodName r.method).isSome)).length := by decide

/-- every pair of `inversePairs` meets class rows with units (the antecedents of
    `transform_roundtrip_class_table` are inhabited for all eight pairs) -/
theorem nv_transform_roundtrip_class_table :
    ∀ p ∈ inversePairs, 5 ≤ (classTable.filter (fun c => c.dom == p.1.src && c.units.isSome)).length := by
  decide +kernel

end Lcapy.NonVacuity.C18
