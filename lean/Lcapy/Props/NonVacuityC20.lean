/-
  AUDIT (reviewer, not the owner): machine-checked NON-VACUITY witnesses for Props/C20.lean, C20Placer.lean and
  C20Shapes.lean.  Running example: the netlist
      V1 1 0; down      R1 1 2; right=2      C1 2 0_2; down      W1 0 0_2; right=2
  with node spacing 2 and the layout  1 = (0,2), 0 = (0,0), 2 = (4,2), 0_2 = (4,0);  the diamond DAG of the Props files.
-/
import Lcapy.Props.C20
import Lcapy.Props.C20Placer
import Lcapy.Props.C20Shapes
import Mathlib.Tactic
set_option linter.defProp false
set_option linter.unusedVariables false
namespace Lcapy.NonVacuity.C20
open Lcapy.Layout Lcapy.Placer Lcapy.C20

/-! ## the netlist, resolved by the model of the code -/

def nl : Netlist :=
  ⟨2, [⟨"V1", "V", "V", ["1", "0"], [("down", "")]⟩, ⟨"R1", "R", "R", ["1", "2"], [("right", "2")]⟩,
       ⟨"C1", "C", "C", ["2", "0_2"], [("down", "")]⟩, ⟨"W1", "W", "W", ["0", "0_2"], [("right", "2")]⟩], [], []⟩

def rs : List Resolved :=
  [⟨"V1", "V", [("1", (0, 1/2)), ("0", (0, -1/2))], -90, 1, true, false, true⟩,
   ⟨"R1", "R", [("1", (-1/2, 0)), ("2", (1/2, 0))], 0, 2, true, false, true⟩,
   ⟨"C1", "C", [("2", (0, 1/2)), ("0_2", (0, -1/2))], -90, 1, true, false, true⟩,
   ⟨"W1", "W", [("0", (-1/2, 0)), ("0_2", (1/2, 0))], 0, 2, true, false, true⟩]

def lay : Layout := [("1", (0, 2)), ("0", (0, 0)), ("2", (4, 2)), ("0_2", (4, 0))]
def nodes4 : List String := ["1", "0", "2", "0_2"]

/-- the model of the code resolves the netlist (pins rotated, sizes read), with exactly the elements `rs` -/
theorem nl_resolves : (match resolveAll rotCode nl with
    | .ok x => x.2.map (fun r => (r.name, r.pins, r.angle, r.size, r.stretch, r.skip, r.onePort)) ==
        rs.map (fun r => (r.name, r.pins, r.angle, r.size, r.stretch, r.skip, r.onePort))
    | .error _ => false) = true := by decide +kernel

theorem nv_resolve_all_agrees : ∃ x, resolveAll rotCode nl = .ok x ∧ resolveAll rotExact nl = .ok x := by
  cases h : resolveAll rotCode nl with
  | error m => have := nl_resolves; rw [h] at this; cases this
  | ok x => exact ⟨x, rfl, resolve_all_agrees nl x h⟩

theorem nv_resolve_all_agreesP : ∃ x, resolveAll (rotCodeP nl.rots) nl = .ok x ∧ resolveAll (rotMeanP nl.rots) nl = .ok x := by
  cases h : resolveAll (rotCodeP nl.rots) nl with
  | error m =>
    have : (resolveAll (rotCodeP nl.rots) nl).toBool = true := by decide +kernel
    rw [h] at this; cases this
  | ok x => exact ⟨x, rfl, resolve_all_agreesP nl x h⟩

/-! ## Props/C20.lean -/

theorem rs_sizeOk : ∀ r ∈ rs, r.sizeOk 2 = true := by decide +kernel

theorem spec_items : rs.filterMap (Resolved.item 2) =
    [.hint ⟨"1", "0", .down, 2, false⟩, .hint ⟨"1", "2", .right, 4, false⟩, .hint ⟨"2", "0_2", .down, 2, false⟩,
     .hint ⟨"0", "0_2", .right, 4, false⟩] := by decide +kernel

theorem lay_checks : checkPos ⟨nodes4, rs.filterMap (Resolved.item 2)⟩ lay = true := by decide +kernel

def nv_check_sound := check_sound ⟨nodes4, rs.filterMap (Resolved.item 2)⟩ lay lay_checks
def nv_check_complete := check_complete ⟨nodes4, rs.filterMap (Resolved.item 2)⟩ lay nv_check_sound

/-- three pins of a body on one axis (values 5/4, -5/4, -5/4), stretchy, size 1 -/
def nv_constraints_pairwise :=
  constraints_pairwise 2 1 true (fun n => if n = "o" then 5 else 0) [(5/4, "o"), (-5/4, "p"), (-5/4, "m")] (by norm_num)

def nv_constraints_match_hints :=
  constraints_match_hints 2 lay ⟨"R1", "R", [("1", (-1/2, 0)), ("2", (1/2, 0))], 0, 2, true, false, true⟩ (by norm_num) rfl
    (by decide +kernel) (.hint ⟨"1", "2", .right, 4, false⟩) (by decide +kernel)

/-- a multi-pin rigid body -/
theorem nv_constraints_match_hints_body : ∃ it,
    Resolved.item 2 ⟨"E1", "Eopamp", [("o", (5/4, 0)), ("p", (-5/4, 1/2)), ("m", (-5/4, -1/2))], 0, 1, false, false, false⟩ = some it ∧
    ((Resolved.graphs ⟨"E1", "Eopamp", [("o", (5/4, 0)), ("p", (-5/4, 1/2)), ("m", (-5/4, -1/2))], 0, 1, false, false, false⟩).Sat 2
        [("o", (5, 0)), ("p", (0, 1)), ("m", (0, -1))] ↔ it.Sat [("o", (5, 0)), ("p", (0, 1)), ("m", (0, -1))]) := by
  cases h : Resolved.item 2 ⟨"E1", "Eopamp", [("o", (5/4, 0)), ("p", (-5/4, 1/2)), ("m", (-5/4, -1/2))], 0, 1, false, false, false⟩ with
  | none =>
    have : (Resolved.item 2 ⟨"E1", "Eopamp", [("o", (5/4, 0)), ("p", (-5/4, 1/2)), ("m", (-5/4, -1/2))], 0, 1, false, false, false⟩).isSome
      = true := by decide +kernel
    rw [h] at this; cases this
  | some it => exact ⟨it, rfl, constraints_match_hints 2 _ _ (by norm_num) rfl (by decide +kernel) it h⟩

def nv_constraints_match_hints_all := constraints_match_hints_all 2 lay (by norm_num) rs rs_sizeOk
def nv_checkPos_iff_graphs := checkPos_iff_graphs 2 lay (by norm_num) nodes4 rs rs_sizeOk
/-- ... and its left-hand side is TRUE for the layout (so the graphs hold) -/
theorem nv_graphs_hold : (makeGraphs rs).Sat 2 lay := ((checkPos_iff_graphs 2 lay (by norm_num) nodes4 rs rs_sizeOk).1 lay_checks).2

def nv_one_port_item :=
  one_port_item 2 ⟨"V1", "V", [("1", (0, 1/2)), ("0", (0, -1/2))], -90, 1, true, false, true⟩ "1" "0" (0, 1/2) (0, -1/2) rfl rfl
    (by decide +kernel) (by decide +kernel)

def nv_one_port_spec_item :=
  one_port_spec_item 2 ⟨"V1", "V", [("1", (0, 1/2)), ("0", (0, -1/2))], -90, 1, true, false, true⟩ "1" "0" (0, 1/2) (0, -1/2) rfl rfl
    rfl (by decide +kernel) (by decide +kernel)

def nv_rotCode_agrees := rotCode_agrees (-90) (1/2, 0) (0, -1/2) (by decide +kernel)

def diamondE : List WEdge := [⟨"a", "b", 1⟩, ⟨"b", "d", 1⟩, ⟨"a", "c", 3⟩, ⟨"c", "d", 2⟩]
def order : List String := ["d", "c", "b", "a"]

theorem order_revTopo : RevTopo diamondE order := (revTopo_check diamondE order).1 (by decide +kernel)

def nv_longest_path_feasible := longest_path_feasible diamondE order (by decide) order_revTopo

def chainE : List WEdge := [⟨"a", "b", 2⟩, ⟨"b", "c", 1⟩]
theorem chain_revTopo : RevTopo chainE ["c", "b", "a"] := (revTopo_check _ _).1 (by decide +kernel)

def nv_fixed_edges_exact_partial :=
  fixed_edges_exact_partial chainE ["c", "b", "a"] (by decide) chain_revTopo ⟨"a", "b", 2⟩ (by decide) (by decide) (by decide)
    (by norm_num) (by decide +kernel)

def nv_fixed_chain_exact_partial :=
  fixed_chain_exact_partial chainE ["c", "b", "a"] (by decide) chain_revTopo chainE "a" ⟨rfl, rfl, trivial⟩ (by
    intro e he
    simp only [chainE, List.mem_cons, List.mem_nil_iff, or_false] at he
    rcases he with rfl | rfl
    · exact ⟨by decide, by decide, by decide, by norm_num, by decide +kernel⟩
    · exact ⟨by decide, by decide, by decide, by norm_num, by decide +kernel⟩)

/-! ## Props/C20Placer.lean -/

theorem diamond_solves : (match solve diamond with
    | .ok s => s.certified && s.conflicts.isEmpty
    | .error _ => false) = true := by decide +kernel

theorem nv_solve_sat : ∃ s, solve diamond = .ok s ∧ ∀ x ∈ diamond, ∀ e ∈ x.fedges, SatE s.pos e := by
  cases h : solve diamond with
  | error m => have := diamond_solves; rw [h] at this; cases this
  | ok s =>
    have hc : s.conflicts = [] := by
      have := diamond_solves; rw [h] at this
      simp only [Bool.and_eq_true, List.isEmpty_iff] at this
      exact this.2
    exact ⟨s, rfl, solve_sat diamond s h hc (by decide +kernel) (by decide +kernel)⟩

def posD : Pos := [("a", 0), ("b", 5/2), ("c", 3), ("d", 5)]

theorem nv_solve_conflicts_iff : checkPositions diamond posD = [] ∧ ∀ x ∈ diamond, ∀ e ∈ x.fedges, SatE posD e :=
  ⟨by decide +kernel, (solve_conflicts_iff diamond posD).1 (by decide +kernel)⟩

def nv_prune_sound :=
  prune_sound [⟨"0", "a", "b", 2, false⟩, ⟨"1", "a", "b", 1, true⟩] [("a", 0), ("b", 2)] (by decide +kernel) (by decide +kernel)
    (by
      intro b hb
      have : b = ⟨"0", "a", "b", 2, false⟩ := by
        have hp : pruneList [⟨"0", "a", "b", 2, false⟩, ⟨"1", "a", "b", 1, true⟩] = [⟨"0", "a", "b", 2, false⟩] := by
          decide +kernel
        rw [hp] at hb; simpa using hb
      subst this
      exact ⟨0, 2, by decide +kernel, by decide +kernel, by norm_num⟩)

theorem diamond_lp : (match longestPathCert (addStartNodes (prune diamond)) [] "start" "end" with
    | .ok (p, c) => c && decide (pathDist p = 5)
    | .error _ => false) = true := by decide +kernel

theorem nv_longest_path_maximal : ∃ p, longestPathCert (addStartNodes (prune diamond)) [] "start" "end" = .ok (p, true) ∧
    IsChain (addStartNodes (prune diamond)) [] "start" "end" "start" p ∧ pathDist p = 5 ∧
    ∀ q, IsChain (addStartNodes (prune diamond)) [] "start" "end" "start" q → pathDist q ≤ pathDist p := by
  cases h : longestPathCert (addStartNodes (prune diamond)) [] "start" "end" with
  | error m => have := diamond_lp; rw [h] at this; cases this
  | ok pc =>
    obtain ⟨p, c⟩ := pc
    have hk := diamond_lp
    rw [h] at hk
    simp only [Bool.and_eq_true, decide_eq_true_eq] at hk
    obtain ⟨rfl, hd⟩ := hk
    obtain ⟨h1, h2⟩ := longest_path_maximal _ _ _ _ p h
    exact ⟨p, rfl, h1, hd, h2⟩

def pathAB : List GE := [⟨"0", "a", "b", 1, true⟩, ⟨"1", "b", "d", 1, true⟩]

theorem nv_assign_longest_exact : ∃ st', assignLongest pathAB ⟨[], ["a", "b", "d"]⟩ = .ok st' ∧
    ∀ e ∈ pathAB, ∃ a, aget st'.pos e.src = some a ∧ aget st'.pos e.dst = some (a + e.size) := by
  cases h : assignLongest pathAB ⟨[], ["a", "b", "d"]⟩ with
  | error m =>
    have : (assignLongest pathAB ⟨[], ["a", "b", "d"]⟩).toBool = true := by decide +kernel
    rw [h] at this; cases this
  | ok st' => exact ⟨st', rfl, assign_longest_exact pathAB ⟨rfl, trivial⟩ _ st' h⟩

/-- gnode `b` reached through a FIXED edge of size 2 from `a` (placed at 1), with another stretchy edge entering it -/
def gFix : PGraph :=
  [⟨"a", [⟨"0", "a", "b", 2, false⟩], []⟩, ⟨"c", [⟨"1", "c", "b", 1, true⟩], []⟩,
   ⟨"b", [], [⟨"0", "b", "a", 2, false⟩, ⟨"1", "b", "c", 1, true⟩]⟩]

def nv_assign_fixed_exact := assign_fixed_exact gFix [("a", 1), ("c", 0)] "b" 3 (by decide +kernel)

theorem nv_walk_end : ∃ x' st', walkAssign (fun e => e.dst) (3/2) pathAB 0 ⟨[("a", 0)], ["b", "d"]⟩ = .ok (x', st') ∧
    x' = 0 + pathDist pathAB + (pathStretches pathAB : Rat) * (3/2) := by
  cases h : walkAssign (fun e => e.dst) (3/2) pathAB 0 ⟨[("a", 0)], ["b", "d"]⟩ with
  | error m =>
    have : (walkAssign (fun e => e.dst) (3/2) pathAB 0 ⟨[("a", 0)], ["b", "d"]⟩).toBool = true := by decide +kernel
    rw [h] at this; cases this
  | ok r => exact ⟨r.1, r.2, rfl, walk_end _ _ _ _ _ r.1 r.2 h⟩

def nv_even_split_closes_iff := even_split_closes_iff 0 5 5 2 2 2 (by decide)
def nv_even_split_tight := even_split_tight 0 5 2 2 (by decide)
def nv_even_split_overshoots_iff := even_split_overshoots_iff 0 5 4 2 1 3 (by decide)
def nv_even_split_misses := even_split_misses 0 5 4 2 2 (by decide) (by norm_num)

/-! ## Props/C20Shapes.lean -/

theorem nv_ptype_mirror_reversed : ∃ row, lookupRow "Qpnp" = some row ∧
    pinsOf row ⟨"Q1", "Q", "Qpnp", ["1", "2", "3"], [("mirror", "")]⟩ 1 1 = variant row "normal_pins" := by
  cases h : lookupRow "Qpnp" with
  | none => have : (lookupRow "Qpnp").isSome = true := by decide +kernel
            rw [h] at this; cases this
  | some row =>
    refine ⟨row, rfl, ptype_mirror_reversed row _ ?_ (by decide +kernel) (by decide +kernel) (by decide +kernel) (by decide +kernel)⟩
    have : ((lookupRow "Qpnp").map (·.pinsRule)) = some "transistor" := by decide +kernel
    rw [h] at this; simpa using this

def nv_rot_param_isometry :=
  rot_param_isometry [(mkR 5313 100, 3/5, 4/5)] (mkR 5313 100) (3/5) (4/5) (1/2, 0) (3/10, 2/5) (by norm_num) (by decide +kernel)
    (by decide +kernel)

def nv_rotCodeP_agrees :=
  rotCodeP_agrees [(mkR 5313 100, 3/5, 4/5)] (mkR 5313 100) (1/2, 0) (3/10, 2/5) (by decide +kernel)

theorem nv_size_option_wins : ∃ row, lookupRow "R" = some row ∧
    Elt.size ⟨"R1", "R", "R", ["1", "2"], [("right", "3"), ("size", "1.5")]⟩ row = some (3/2 * row.shapeScale) := by
  cases h : lookupRow "R" with
  | none => have : (lookupRow "R").isSome = true := by decide +kernel
            rw [h] at this; cases this
  | some row =>
    exact ⟨row, rfl, size_option_wins _ row "1.5" (3/2) (by decide +kernel) (by decide +kernel) (by decide) (by decide +kernel)⟩

theorem nv_size_default : ∃ row, lookupRow "Eopamp" = some row ∧
    Elt.size ⟨"E1", "E", "Eopamp", ["1", "0", "2", "3"], [("mirror", "")]⟩ row = some (row.defaultWidth * row.shapeScale) := by
  cases h : lookupRow "Eopamp" with
  | none => have : (lookupRow "Eopamp").isSome = true := by decide +kernel
            rw [h] at this; cases this
  | some row =>
    exact ⟨row, rfl, size_default _ row (by decide +kernel) (by decide +kernel) (by decide +kernel) (by decide +kernel)
      (by decide +kernel)⟩

def nv_split_noop (st : SplitSt) :=
  split_noop st ⟨"R1", "R", "R", ["1", "2"], [("right", "2")]⟩ (by decide +kernel)

end Lcapy.NonVacuity.C20
