/-
  PROPERTY C01, two-port blocks, summing points and current-controlled sources with a
  non-source controlling component.

  The netlist components `TPname Np Nm Ncp Ncm A|B|G|H|Y|Z p11 p12 p21 p22` are stamped by Lcapy as
  an A-parameter block (A, and B/G/H after the code's own conversion to A) or a Y-parameter block
  (Y, and Z after conversion to Y).  The theorems below say what the spec `Laws` of C01 means for
  such a component in terms of the two-port relation `Spec.rel` of property C08 (read from the
  `equation()` methods of lcapy/twoport.py): the currents the component draws at its four terminals
  satisfy the port condition and, with the port voltages, the defining relation of the
  representation the USER wrote, whenever the conversion the code performs is defined.
  Only property theorems live here.
-/
import Lcapy.Props.C01
import Lcapy.Props.C08
namespace Lcapy.C01
open Lcapy Lcapy.MNA Lcapy.Spec Lcapy.Gen Ix
variable {K : Type} [Field K]

/-- port 1 = (n3, n4) = (Ncp, Ncm), port 2 = (n1, n2) = (Np, Nm) -/
def tpPort (x : Ix → K) (n1 n2 n3 n4 : Nat) (I1 I2 : K) : Port K := ⟨vd x n3 n4, I1, vd x n1 n2, I2⟩

/-- the component draws I1 at n3 (returning it at n4) and I2 at n1 (returning it at n2): the port condition -/
def tpaCpt (n1 n2 n3 n4 m : Nat) (A : M2 K) : Cpt K := .TPA n1 n2 n3 n4 m A.a11 A.a12 A.a21 A.a22
def tpyCpt (n1 n2 n3 n4 : Nat) (Y : M2 K) : Cpt K := .TPY n1 n2 n3 n4 Y.a11 Y.a12 Y.a21 Y.a22

def DrawsPortCurrents (kind : Kind) (s : K) (x : Ix → K) (c : Cpt K) (n1 n2 n3 n4 : Nat) (I1 I2 : K) : Prop :=
  ∀ k, outflow kind s x k c = twoTerm n1 n2 k I2 + twoTerm n3 n4 k I1

/-- **tpa_law**: the defining relation of a `TPA` component holds iff the port currents it draws and its port
    voltages satisfy the A-parameter (chain) relation `[V1; I1] = A [V2; −I2]`. -/
theorem tpa_law (kind : Kind) (s Z0 : K) (x : Ix → K) (n1 n2 n3 n4 m : Nat) (A : M2 K) :
    (∀ p ∈ laws kind s x (tpaCpt n1 n2 n3 n4 m A), p.2 = 0) ↔
      ∃ I1 I2, I2 = x (br m) ∧ DrawsPortCurrents kind s x (tpaCpt n1 n2 n3 n4 m A) n1 n2 n3 n4 I1 I2 ∧
        rel .A A Z0 (tpPort x n1 n2 n3 n4 I1 I2) := by
  constructor
  · intro h
    refine ⟨A.a21 * vd x n1 n2 - A.a22 * x (br m), x (br m), rfl, ?_, ?_⟩
    · intro k; simp [tpaCpt, outflow]
    · have h1 := h (m, vd x n3 n4 - (A.a11 * vd x n1 n2 - A.a12 * x (br m))) (by simp [tpaCpt, laws])
      simp only [rel, lin, tpPort]
      constructor
      · simp only at h1; linear_combination h1
      · ring
  · rintro ⟨I1, I2, rfl, _, hrel⟩ p hp
    simp only [tpaCpt, laws, List.mem_singleton] at hp
    subst hp
    simp only [rel, lin, tpPort] at hrel
    simp only
    linear_combination hrel.1

/-- **tpy_law**: a `TPY` component has no relation beyond its currents; the currents it draws are the
    Y-parameter currents of its port voltages. -/
theorem tpy_law (kind : Kind) (s Z0 : K) (x : Ix → K) (n1 n2 n3 n4 : Nat) (Y : M2 K) :
    ∃ I1 I2, DrawsPortCurrents kind s x (tpyCpt n1 n2 n3 n4 Y) n1 n2 n3 n4 I1 I2 ∧
      rel .Y Y Z0 (tpPort x n1 n2 n3 n4 I1 I2) := by
  refine ⟨Y.a11 * vd x n3 n4 + Y.a12 * vd x n1 n2, Y.a21 * vd x n3 n4 + Y.a22 * vd x n1 n2, ?_, ?_⟩
  · intro k; simp [tpyCpt, outflow]; ring
  · simp [rel, lin, tpPort]

/-- how the code stamps `TPB`, `TPG`, `TPH` (as the A block of the converted parameters) -/
def stampedA (r : Rep) (M : M2 K) : M2 K :=
  match r with
  | .B => B_to_A M 0
  | .G => G_to_A M 0
  | .H => H_to_A M 0
  | _ => M

/-- the conversion the code performs is defined -/
def convOk (r : Rep) (M : M2 K) : Prop :=
  match r with
  | .B => C08.ok_B_A M 0
  | .G => C08.ok_G_A M 0
  | .H => C08.ok_H_A M 0
  | .Z => C08.ok_Z_Y M 0
  | _ => True

/-- **tp_bgh_law**: a `TPB` / `TPG` / `TPH` line is stamped as the A block of the converted matrix; when the
    conversion is defined, its defining relation holds iff the port quantities satisfy the relation of the
    representation the user wrote (B, G or H). -/
theorem tp_bgh_law (kind : Kind) (s Z0 : K) (x : Ix → K) (n1 n2 n3 n4 m : Nat) (r : Rep) (M : M2 K)
    (hr : r = .B ∨ r = .G ∨ r = .H) (hok : convOk r M) :
    (∀ p ∈ laws kind s x (tpaCpt n1 n2 n3 n4 m (stampedA r M)), p.2 = 0) ↔
      ∃ I1 I2, I2 = x (br m) ∧ DrawsPortCurrents kind s x (tpaCpt n1 n2 n3 n4 m (stampedA r M)) n1 n2 n3 n4 I1 I2 ∧
        rel r M Z0 (tpPort x n1 n2 n3 n4 I1 I2) := by
  rw [tpa_law kind s Z0 x n1 n2 n3 n4 m (stampedA r M)]
  have hconv : ∀ p : Port K, rel r M Z0 p ↔ rel .A (stampedA r M) Z0 p := by
    intro p
    rcases hr with rfl | rfl | rfl
    · simpa [stampedA, rel] using (C08.B_to_A_sound M 0 p hok)
    · simpa [stampedA, rel] using (C08.G_to_A_sound M 0 p hok)
    · simpa [stampedA, rel] using (C08.H_to_A_sound M 0 p hok)
  constructor
  · rintro ⟨I1, I2, h1, h2, h3⟩; exact ⟨I1, I2, h1, h2, (hconv _).mpr h3⟩
  · rintro ⟨I1, I2, h1, h2, h3⟩; exact ⟨I1, I2, h1, h2, (hconv _).mp h3⟩

/-- **tpz_law**: a `TPZ` line is stamped as the Y block of `Z⁻¹`; when det Z ≠ 0 the currents it draws satisfy
    the Z-parameter relation with its port voltages. -/
theorem tpz_law (kind : Kind) (s Z0 : K) (x : Ix → K) (n1 n2 n3 n4 : Nat) (Z : M2 K) (hok : C08.ok_Z_Y Z 0) :
    ∃ I1 I2, DrawsPortCurrents kind s x (tpyCpt n1 n2 n3 n4 (Z_to_Y Z 0)) n1 n2 n3 n4 I1 I2 ∧
      rel .Z Z Z0 (tpPort x n1 n2 n3 n4 I1 I2) := by
  obtain ⟨I1, I2, h1, h2⟩ := tpy_law kind s Z0 x n1 n2 n3 n4 (Z_to_Y Z 0)
  refine ⟨I1, I2, h1, ?_⟩
  have := (C08.Z_to_Y_sound Z 0 (tpPort x n1 n2 n3 n4 I1 I2) hok)
  simp only [rel] at this h2 ⊢
  exact this.mpr h2

/-- **sp_law**: a summing point holds its output node at the signed sum of its inputs (all w.r.t. ground) and
    draws no current from its inputs. -/
theorem sp_law (kind : Kind) (s : K) (x : Ix → K) (n1 n2 n3 n4 m : Nat) (c1 c2 c4 : K) :
    let c : Cpt K := .SP n1 n2 n3 n4 m c1 c2 c4
    ((∀ p ∈ laws kind s x c, p.2 = 0) ↔ volt x n3 = c1 * volt x n1 + c2 * volt x n2 + c4 * volt x n4) ∧
    (∀ k, k ≠ n3 → k ≠ 0 → outflow kind s x k c = 0) := by
  intro c
  constructor
  · simp only [c, laws, List.mem_singleton, forall_eq, sub_eq_zero]
  · intro k h3 h0
    simp [c, outflow, twoTerm, Ne.symm h3, Ne.symm h0]

/-- **hy_law**: a CCVS whose controlling component is an admittance-type element obeys V = H·Ic where Ic is the
    current through that element (`y·V(n3,n4) − isc`, the spec's through-current), and Ic is what is reported as
    the controlling component's current. -/
theorem hy_law (kind : Kind) (s : K) (x : Ix → K) (n1 n2 m n3 n4 mc : Nat) (y isc h : K) :
    let c : Cpt K := .HY n1 n2 m n3 n4 mc y isc h
    (∀ p ∈ laws kind s x c, p.2 = 0) ↔
      (x (br mc) = y * vd x n3 n4 - isc ∧ vd x n1 n2 = h * (y * vd x n3 n4 - isc)) := by
  intro c
  simp only [c, laws, List.mem_cons, List.mem_nil_iff, or_false, forall_eq_or_imp, forall_eq, sub_eq_zero]
  constructor
  · rintro ⟨h1, h2⟩; exact ⟨h2, by rw [h1, h2]⟩
  · rintro ⟨h1, h2⟩; exact ⟨by rw [h2, h1], h1⟩

/-- non-vacuity: a dc circuit `V1 1 0 6; TP1 2 0 1 0 A 2 3 1 2; R1 2 0 4` and its exact solution
    (V2 = 24/11, I(V1) = −36/11, I(TP1) = −6/11) -/
example : Laws (K := ℚ) .dc 0
    [.V 1 0 0 6, .TPA 2 0 1 0 1 2 3 1 2, .R 2 0 4]
    (fun ix => match ix with | node 1 => 6 | node 2 => 24/11 | br 0 => -36/11 | br 1 => -6/11 | _ => 0) := by
  constructor
  · intro k hk
    simp only [List.map_cons, List.map_nil, lsum, outflow, twoTerm, vd, volt]
    rcases k with _ | _ | _ | k
    · exact absurd rfl hk
    · norm_num [volt]
    · norm_num [volt]
    · simp
  · intro c hc p hp
    simp only [List.mem_cons, List.mem_nil_iff, or_false] at hc
    rcases hc with rfl | rfl | rfl <;> simp [laws] at hp <;> subst hp <;> norm_num [vd, volt]

end Lcapy.C01
