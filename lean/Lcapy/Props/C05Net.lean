/-
  PROPERTY C05 -- theorems about the netlist-level functions that the DRIVER EXECUTES
  (`rw.smodel` = `sModelNet`, `rw.noise killed` = `noiseModelKilled`, `rw.simplify` = `simplify` with
  `spanPrivate`, `removeDangling`, `removeDisconnected`, `keepDangling`), tied to the component-level theorems
  of Props/C05.lean and Props/C05CW.lean through the translation `Elt.toCpts` (Model/RewriteCW.lean: node names
  ↦ node indices with wire-joined names identified, component names ↦ branch indices).
-/
import Lcapy.Props.C05CW
namespace Lcapy.C05
open Lcapy.MNA Lcapy.Rewrite Ix
variable {K : Type} [Field K] [DecidableEq K]
set_option linter.unusedSectionVars false

/-! ## 1. s_model: the executed `sModelNet` is the component-level `sModel` -/

/-- the allotment `sModelNet` makes: the line's component gets the dummy node `_d<k+1>` and, as branch of its
    initial-condition source, the index of the new line `V<name>` -/
def allocsFrom (s : K) (ν β : String → Nat) : Nat → Net K → List (Alloc K)
  | _, [] => []
  | k, e :: t =>
    (e.toCpts ν β).map (fun c => (⟨c, ν (dummyName k), β ("V" ++ e.name)⟩ : Alloc K)) ++
      allocsFrom s ν β (sModelElt s k e).2 t

theorem allocsFrom_cpts (s : K) (ν β : String → Nat) (net : Net K) (k : Nat) :
    (allocsFrom s ν β k net).map (·.c) = net.toCpts ν β := by
  induction net generalizing k with
  | nil => rfl
  | cons e t ih =>
    simp only [allocsFrom, List.map_append, List.map_map, Net.toCpts, List.flatMap_cons]
    rw [ih]
    simp [Net.toCpts, Function.comp_def]

/-- one line: what `sModelElt` emits MEANS what `sModelCpt` makes of the line's meaning -/
theorem sModelElt_sem (s : K) (hs : s ≠ 0) (ν β : String → Nat) (k : Nat) (e : Elt K)
    (hβ : e.ty = "L" → β ("V" ++ e.name) = β e.name) :
    (sModelElt s k e).1.flatMap (Elt.toCpts ν β) =
      (e.toCpts ν β).flatMap (fun c => sModelCpt s (ν (dummyName k)) (β ("V" ++ e.name)) c) := by
  obtain ⟨name, ty, nodes, kw, val, ic, extra⟩ := e
  simp only [sModelElt]
  split
  · simp [Elt.toCpts, sModelCpt, Elt.n1, Elt.n2]
  · simp [Elt.toCpts, sModelCpt, Elt.n1, Elt.n2]
  · simp [Elt.toCpts, sModelCpt, Elt.n1, Elt.n2]
  · simp [Elt.toCpts, sModelCpt, Elt.n1, Elt.n2]
  · -- C
    rename_i c
    have hz : (ic.getD 0 / s = 0) ↔ icv ic = 0 := by
      cases ic <;> simp [icv, hs]
    by_cases h0 : icv ic = 0
    · simp [Elt.toCpts, sModelCpt, Elt.n1, Elt.n2, hz.mpr h0, h0]
    · have h0' : ¬ (ic.getD 0 / s = 0) := fun h => h0 (hz.mp h)
      cases ic <;> simp_all [Elt.toCpts, sModelCpt, Elt.n1, Elt.n2, icv]
  · -- L
    rename_i l
    have hz : (-(ic.getD 0 * l) = 0) ↔ l * icv ic = 0 := by
      cases ic <;> simp [icv, mul_comm]
    have hb := hβ rfl
    simp only at hb
    by_cases h0 : l * icv ic = 0
    · simp [Elt.toCpts, sModelCpt, Elt.n1, Elt.n2, hz.mpr h0, h0]
      intro hl; exact (mul_eq_zero.mp h0).resolve_left hl
    · have h0' : ¬ (-(ic.getD 0 * l) = 0) := fun h => h0 (hz.mp h)
      cases ic <;> simp_all [Elt.toCpts, sModelCpt, Elt.n1, Elt.n2, icv, mul_comm]
  · simp only [Elt.toCpts, List.flatMap_cons, List.flatMap_nil, List.append_nil]
    split <;> simp_all [sModelCpt]

theorem sModelFrom_sem (s : K) (hs : s ≠ 0) (ν β : String → Nat) (net : Net K)
    (hβ : ∀ e ∈ net, e.ty = "L" → β ("V" ++ e.name) = β e.name) (k : Nat) :
    (sModelFrom s k net).toCpts ν β = sModel s (allocsFrom s ν β k net) := by
  induction net generalizing k with
  | nil => rfl
  | cons e t ih =>
    simp only [sModelFrom, allocsFrom, Net.toCpts, sModel, List.flatMap_append, List.flatMap_map] at ih ⊢
    rw [sModelElt_sem s hs ν β k e (hβ e List.mem_cons_self)]
    rw [ih (fun e' he' => hβ e' (List.mem_cons_of_mem _ he'))]

/-- **s_model_net_equiv** (the statement about the function the driver runs, `rw.smodel` = `sModelNet`):
    read both netlists through ANY naming `ν`, `β` of their nodes and branch unknowns (`V<L>` inheriting the index
    of the inductor `L` it replaces) under which no line reads an unknown private to the rewrite of another line (`Rw.Sep`: dummy nodes, new source
    branches, vanished inductor currents);
    then at every s ≠ 0 the initial-value problem of the netlist and the zero-state problem of `sModelNet s net`
    have the same solutions on every unknown they share. -/
theorem s_model_net_equiv (s : K) (hs : s ≠ 0) (ν β : String → Nat) (net : Net K)
    (hβ : ∀ e ∈ net, e.ty = "L" → β ("V" ++ e.name) = β e.name)
    (hok : ∀ a ∈ allocsFrom s ν β 0 net, a.OK s)
    (hap : (allocsFrom s ν β 0 net).Pairwise (fun p q => (p.sRw s).Sep (q.sRw s) ∧ (q.sRw s).Sep (p.sRw s))) :
    (∀ x, Laws .ivp s (net.toCpts ν β) x →
      ∃ y, (∀ i, i ∉ sHidden (allocsFrom s ν β 0 net) → y i = x i) ∧ Laws .lap s ((sModelNet s net).toCpts ν β) y) ∧
    (∀ y, Laws .lap s ((sModelNet s net).toCpts ν β) y →
      ∃ x, (∀ i, i ∉ sHidden (allocsFrom s ν β 0 net) → x i = y i) ∧ Laws .ivp s (net.toCpts ν β) x) := by
  have h := s_model_equiv_sep s hs (allocsFrom s ν β 0 net) hok hap
  rw [allocsFrom_cpts] at h
  simp only [sModelNet]
  rw [sModelFrom_sem s hs ν β net hβ 0]
  exact h

/-- non-vacuity of `s_model_net_equiv`: the netlist `V1 1 0 3; R1 1 2 3; C1 2 0 2 5; L1 2 3 4 7; R2 3 0 1` at s = 2
    with `ν` = the node number (dummy nodes `_d1`, `_d2`, `_d3` ↦ 11, 12, 13) and `β` = V1 ↦ 0, L1 and VL1 ↦ 1,
    VC1 ↦ 2: the allotment that `sModelNet` makes satisfies every hypothesis (C1 gets `_d1`, L1 gets `_d2`) -/
def exNu (n : String) : Nat :=
  if n = "1" then 1 else if n = "2" then 2 else if n = "3" then 3 else if n = "_d1" then 11 else if n = "_d2" then 12
  else if n = "_d3" then 13 else 0
def exBeta (n : String) : Nat := if n = "V1" then 0 else if n = "L1" ∨ n = "VL1" then 1 else if n = "VC1" then 2 else 9
def exNet : Net ℚ :=
  [{ name := "V1", ty := "V", nodes := ["1", "0"], val := some 3 },
   { name := "R1", ty := "R", nodes := ["1", "2"], val := some 3 },
   { name := "C1", ty := "C", nodes := ["2", "0"], val := some 2, ic := some 5 },
   { name := "L1", ty := "L", nodes := ["2", "3"], val := some 4, ic := some 7 },
   { name := "R2", ty := "R", nodes := ["3", "0"], val := some 1 }]

theorem exNet_allocs : allocsFrom (2 : ℚ) exNu exBeta 0 exNet =
    [⟨.V 1 0 0 3, 11, 9⟩, ⟨.R 1 2 3, 11, 9⟩, ⟨.Cap 2 0 2 (some 5), 11, 2⟩, ⟨.Ind 2 3 1 4 (some 7) [], 12, 1⟩,
     ⟨.R 3 0 1, 13, 9⟩] := by
  simp [allocsFrom, sModelElt, Elt.toCpts, Elt.n1, Elt.n2, exNet, exNu, exBeta, dummyName]
  decide

example :
    (∀ e ∈ exNet, e.ty = "L" → exBeta ("V" ++ e.name) = exBeta e.name) ∧
    (∀ a ∈ allocsFrom (2 : ℚ) exNu exBeta 0 exNet, a.OK 2) ∧
    (allocsFrom (2 : ℚ) exNu exBeta 0 exNet).Pairwise
      (fun p q => (p.sRw 2).Sep (q.sRw 2) ∧ (q.sRw 2).Sep (p.sRw 2)) := by
  rw [exNet_allocs]
  refine ⟨?_, ?_, ?_⟩
  · intro e he
    simp only [exNet, List.mem_cons, List.mem_nil_iff, or_false] at he
    rcases he with rfl | rfl | rfl | rfl | rfl <;> simp [exBeta]
  · intro a ha
    simp only [List.mem_cons, List.mem_nil_iff, or_false] at ha
    rcases ha with rfl | rfl | rfl | rfl | rfl <;> simp [Alloc.OK, Alloc.Fresh, mentions]
  · simp [Rw.Sep, Alloc.sRw, SupportedIn, AllBut', sModelCpt, sModelHidden, mentions, icv]

/-! ## 2. killed noise model: the executed `noiseModelKilled` MEANS the original netlist -/

theorem noiseKilledFrom_sem (ν β : String → Nat) (net : Net K) (k : Nat)
    (hν : ∀ w ∈ noiseKilledFrom k net, w.ty = "W" → ν w.n1 = ν w.n2) :
    (noiseKilledFrom k net).toCpts ν β = net.toCpts ν β := by
  induction net generalizing k with
  | nil => rfl
  | cons e t ih =>
    obtain ⟨name, ty, nodes, kw, val, ic, extra⟩ := e
    simp only [noiseKilledFrom] at hν ⊢
    split at hν
    · rename_i r
      have hw := hν { name := "W", ty := "W", nodes := [dummyName k, Elt.n2 { name := name, ty := "R", nodes := nodes, kw := kw, val := some r, ic := ic, extra := extra }] }
        (by simp) rfl
      have ht := ih (k + 1) (fun w hw' => hν w (by simp [hw']))
      simp only [Net.toCpts, List.flatMap_cons, List.flatMap_append] at ht ⊢
      rw [ht]
      simp [Elt.toCpts, Elt.n1, Elt.n2] at hw ⊢
      exact hw
    · have ht := ih k (fun w hw' => hν w (List.mem_cons_of_mem _ hw'))
      simp only [Net.toCpts, List.flatMap_cons] at ht ⊢
      rw [ht]

/-- **noise_model_killed_net** (`rw.noise killed` = `noiseModelKilled`): every resistor becomes `NR n1 d ; W d n2`;
    under any naming that identifies wire-joined node names (wires are merged nodes) the result denotes EXACTLY the
    component list of the original netlist -- so it has the same `Laws`, in every analysis kind, with no hypothesis.
    (`noise_model_killed_equiv` of Props/C05CW.lean is the same fact with the wire kept as a zero-volt source.) -/
theorem noise_model_killed_net (kind : Kind) (s : K) (ν β : String → Nat) (net : Net K)
    (hν : ∀ w ∈ noiseModelKilled net, w.ty = "W" → ν w.n1 = ν w.n2) (x : Ix → K) :
    Laws kind s ((noiseModelKilled net).toCpts ν β) x ↔ Laws kind s (net.toCpts ν β) x := by
  rw [show (noiseModelKilled net).toCpts ν β = net.toCpts ν β from noiseKilledFrom_sem ν β net 0 hν]

/-! ## 3. simplify: what the executed private-span test guarantees (the guard of `series_pair`) -/

/-- **spanPrivate_guard**: when `spanPrivate net aset` (the mirror of `_series_span_is_private`, evaluated by
    `combineSweep` before a series set is combined) answers `true`, every name of every node joining two members is
    not a reference node and is touched by members of the set and wires only -/
theorem spanPrivate_guard (net : Net K) (aset : List String) (h : spanPrivate net aset = true) :
    ∀ k ∈ spanJoints net aset, ∀ n ∈ classNames net k,
      ¬ (n.startsWith "0" = true) ∧ ∀ e ∈ net, n ∈ e.nodes → e.name ∈ aset ∨ isWire e = true := by
  intro k hk n hn
  simp only [spanPrivate, List.all_eq_true, Bool.and_eq_true, Bool.not_eq_true', Bool.or_eq_true,
    Bool.not_eq_eq_eq_not, Bool.not_true] at h
  obtain ⟨h0, hall⟩ := h k hk n hn
  refine ⟨by simp [h0], fun e he hne => ?_⟩
  rcases hall e he with (h1 | h1) | h1
  · rw [List.contains_iff_mem.mpr hne] at h1; cases h1
  · exact Or.inl (List.contains_iff_mem.mp h1)
  · exact Or.inr h1

/-- … and this IS the hypothesis of `series_pair` / `subcircuit_congruence` for the interior node: read the netlist
    through a naming `ν` that sends only names of the joint's class to its index and only reference names to 0;
    then the interior node is not ground (`hb0`) and no component outside the series set mentions it (`SupportedIn`).
    The guard "interior node not ground, seen by nothing else" is therefore no longer an unmet hypothesis: it is what
    the code checks before it combines. -/
theorem spanPrivate_supported (net : Net K) (aset : List String) (h : spanPrivate net aset = true)
    (ν β : String → Nat) (k n : String) (hk : k ∈ spanJoints net aset) (hn : n ∈ classNames net k)
    (hwf : ∀ e ∈ net, 2 ≤ e.nodes.length)
    (hν : ∀ n', ν n' = ν n → n' ∈ classNames net k)
    (hν0 : ∀ n', ν n' = 0 → n'.startsWith "0" = true) :
    ν n ≠ 0 ∧ SupportedIn (AllBut' [node (ν n)]) (Net.toCpts ν β (net.filter (fun e => !(aset.contains e.name)))) := by
  have hg := spanPrivate_guard net aset h k hk
  refine ⟨fun h0 => (hg n hn).1 (hν0 n h0), ?_⟩
  intro c hc i hi hmem
  simp only [List.mem_cons, List.mem_nil_iff, or_false] at hmem
  subst hmem
  obtain ⟨e, he, hce⟩ := List.mem_flatMap.mp hc
  obtain ⟨hen, hnot⟩ := List.mem_filter.mp he
  have hlen := hwf e hen
  have hn1 : e.n1 ∈ e.nodes := by
    simp only [Elt.n1]
    cases hnodes : e.nodes with
    | nil => rw [hnodes] at hlen; simp at hlen
    | cons a t => simp
  have hn2 : e.n2 ∈ e.nodes := by
    simp only [Elt.n2]
    cases hnodes : e.nodes with
    | nil => rw [hnodes] at hlen; simp at hlen
    | cons a t =>
      cases t with
      | nil => rw [hnodes] at hlen; simp at hlen
      | cons b t' => simp
  -- the component mentions only the indices of its two nodes
  have hmen : ν n = ν e.n1 ∨ ν n = ν e.n2 := by
    simp only [Elt.toCpts] at hce
    split at hce <;> simp only [List.mem_cons, List.mem_nil_iff, or_false] at hce <;>
      (try (subst hce; simp [mentions] at hi; exact hi))
  have hwire : ∀ m, m ∈ e.nodes → ν m = ν n → False := by
    intro m hm hνm
    have hcls := hν m hνm
    rcases (hg m hcls).2 e hen hm with h1 | h1
    · simp only [Bool.not_eq_true', ← Bool.not_eq_true, List.contains_iff_mem] at hnot; exact hnot h1
    · -- a wire denotes no component
      simp only [isWire, decide_eq_true_eq] at h1
      simp only [Elt.toCpts, h1] at hce
      simp at hce
  rcases hmen with h1 | h1
  · exact hwire _ hn1 h1.symm
  · exact hwire _ hn2 h1.symm

/-! ## 4. dangling / disconnected removal: what the executed functions remove and what they never remove -/

/-- **removeDangling_spec** (`rw.simplify … dangling=1` runs `removeDangling`): the result is a sub-netlist; a line is
    dropped only if it is dangling, selected, carries no explicit initial condition, and none of its dangling nodes is
    a kept node or observed by an open-circuit component -/
theorem removeDangling_spec (net : Net K) (skip keep : List String) (e : Elt K) :
    (e ∈ (removeDangling net skip keep).1 → e ∈ net) ∧
    (e ∈ net → e ∉ (removeDangling net skip keep).1 →
      eltDangling net e = true ∧ e.name ∉ skip ∧ hasIC e = false ∧ keepDangling net keep e = false) := by
  simp only [removeDangling, List.mem_filter]
  refine ⟨fun h => h.1, fun he hn => ?_⟩
  have hx : (eltDangling net e && !(skip.contains e.name) && !(hasIC e) && !(keepDangling net keep e)) = true := by
    cases hb : (eltDangling net e && !(skip.contains e.name) && !(hasIC e) && !(keepDangling net keep e)) with
    | true => rfl
    | false => exact absurd ⟨he, by rw [hb]; rfl⟩ hn
  simp only [Bool.and_eq_true, Bool.not_eq_true'] at hx
  obtain ⟨⟨⟨h1, h2⟩, h3⟩, h4⟩ := hx
  exact ⟨h1, (fun hm => by rw [List.contains_iff_mem.mpr hm] at h2; cases h2), h3, h4⟩

theorem removeDisconnected_spec (net : Net K) (skip keep : List String) (e : Elt K) :
    (e ∈ (removeDisconnected net skip keep).1 → e ∈ net) ∧
    (e ∈ net → e ∉ (removeDisconnected net skip keep).1 →
      eltDisconnected net e = true ∧ e.name ∉ skip ∧ hasIC e = false ∧ keepDangling net keep e = false) := by
  simp only [removeDisconnected, List.mem_filter]
  refine ⟨fun h => h.1, fun he hn => ?_⟩
  have hx : (eltDisconnected net e && !(skip.contains e.name) && !(hasIC e) && !(keepDangling net keep e)) = true := by
    cases hb : (eltDisconnected net e && !(skip.contains e.name) && !(hasIC e) && !(keepDangling net keep e)) with
    | true => rfl
    | false => exact absurd ⟨he, by rw [hb]; rfl⟩ hn
  simp only [Bool.and_eq_true, Bool.not_eq_true'] at hx
  obtain ⟨⟨⟨h1, h2⟩, h3⟩, h4⟩ := hx
  exact ⟨h1, (fun hm => by rw [List.contains_iff_mem.mpr hm] at h2; cases h2), h3, h4⟩

/-- **removal_keeps_ic** (repair of finding C05-ivp): a component with an explicit initial condition survives both
    removals, so a rewrite can no longer turn an initial-value problem into a steady-state problem by removing it -/
theorem removal_keeps_ic (net : Net K) (skip keep : List String) (e : Elt K) (he : e ∈ net) (hic : hasIC e = true) :
    e ∈ (removeDangling net skip keep).1 ∧ e ∈ (removeDisconnected net skip keep).1 := by
  constructor
  · by_contra hn
    have := ((removeDangling_spec net skip keep e).2 he hn).2.2.1
    rw [hic] at this; cases this
  · by_contra hn
    have := ((removeDisconnected_spec net skip keep e).2 he hn).2.2.1
    rw [hic] at this; cases this

/-- **removal_keeps_observed** (repair of finding C05-stranded-observer): a removed line has no dangling node that an
    open-circuit component (other than itself) observes, nor one the caller asked to keep -/
theorem removal_keeps_observed (net : Net K) (skip keep : List String) (e : Elt K) (he : e ∈ net)
    (hn : e ∉ (removeDangling net skip keep).1) (n : String) (hne : n ∈ e.nodes) (hd : nodeDangling net n = true) :
    n ∉ keep ∧ ∀ f ∈ net, f.ty = "O" → n ∈ f.nodes → f.name = e.name ∧ f.nodes = e.nodes := by
  have hk := ((removeDangling_spec net skip keep e).2 he hn).2.2.2
  simp only [keepDangling, List.any_eq_false, Bool.and_eq_true, Bool.or_eq_true, not_and, not_or] at hk
  have := hk n hne hd
  refine ⟨by simpa using this.1, fun f hf hty hnf => ?_⟩
  have h2 := this.2
  simp only [List.any_eq_true, not_exists, not_and, Bool.and_eq_true, decide_eq_true_eq, Bool.or_eq_true,
    bne_iff_ne, ne_eq, not_or, not_not] at h2
  exact h2 f hf ⟨hty, List.contains_iff_mem.mpr hnf⟩

/-! ## 4b. `kill()` (`rw.kill` = `killSources`): what the replacement lines mean -/

/-- `I._kill` ↦ `O`: an open circuit is the current source of value zero -/
theorem kill_I_open (kind : Kind) (s : K) (R : Ix → Prop) (a b : Nat) :
    Simulates kind s R [.I a b 0] [.Open a b] ∧ Simulates kind s R [.Open a b] [.I a b 0] := by
  constructor <;> apply Simulates_of_eq
  · intro x k; simp [kclAt, lsum, outflow, twoTerm]
  · intro x _; simp [lawsOf, laws]
  · intro x k; simp [kclAt, lsum, outflow, twoTerm]
  · intro x _; simp [lawsOf, laws]

/-- `V._kill` ↦ `W`: a wire identifies its two node names (`Elt.toCpts` gives it no component); a zero-volt source
    between identified nodes constrains nothing and draws nothing, so dropping it (and its branch current) is sound
    in both directions -/
theorem kill_V_wire (kind : Kind) (s : K) (a m : Nat) :
    Simulates kind s (AllBut' [br m]) [.V a a m 0] [] ∧ Simulates kind s (AllBut' [br m]) [] [.V a a m 0] := by
  have hk : ∀ x k, kclAt kind s [Cpt.V a a m 0] x k = 0 := by
    intro x k; simp [kclAt, lsum, outflow, twoTerm]
  constructor
  · intro x _ _
    exact ⟨x, fun _ _ => rfl, by simp [lawsOf], fun _ _ _ => rfl, fun k _ _ => (hk x k).symm⟩
  · intro x _ _
    refine ⟨x, fun _ _ => rfl, ?_, fun k _ _ => hk x k, fun k _ _ => hk x k⟩
    intro c hc p hp
    simp only [List.mem_cons, List.mem_nil_iff, or_false] at hc; subst hc
    simp only [laws, List.mem_cons, List.mem_nil_iff, or_false] at hp; subst hp
    simp [vd]

/-! ## 5. the oracle predicate `Preserved` (Spec/Retained.lean) means what it says -/

/-- **preserved_nodes**: when the driver answers `ok` (`Preserved`), every retained node whose voltage the original
    solution reports HAS a voltage in the rewritten solution and it is the same (an empty or partial second solution is
    not accepted) -/
theorem preserved_nodes (mode : Mode) (ren : String → String) (orig new : Net K) (so sn : Sol K)
    (h : Preserved mode ren orig new so sn) (n : String) (hn : n ∈ retainedNodes mode ren orig new)
    (a : K) (ha : so.v n = some a) : sn.v (ren n) = some a := by
  unfold Preserved firstDifference at h
  simp only at h
  split at h
  · cases h
  · rename_i hnone
    have := List.find?_eq_none.mp hnone n hn
    rw [ha] at this
    cases hb : sn.v (ren n) with
    | none => rw [hb] at this; simp at this
    | some b => rw [hb] at this; simp at this; rw [this]

/-- **preserved_currents**: likewise for the current of every untouched component -/
theorem preserved_currents (mode : Mode) (ren : String → String) (orig new : Net K) (so sn : Sol K)
    (h : Preserved mode ren orig new so sn) (e : Elt K) (he : e ∈ untouched mode ren orig new)
    (a : K) (ha : so.i e.name = some a) : sn.i e.name = some a := by
  unfold Preserved firstDifference at h
  simp only at h
  split at h
  · cases h
  · simp only [Option.map_eq_none_iff] at h
    have := List.find?_eq_none.mp h e he
    rw [ha] at this
    cases hb : sn.i e.name with
    | none => rw [hb] at this; simp at this
    | some b => rw [hb] at this; simp at this; rw [this]

end Lcapy.C05
