/-
  AUDIT (auditA, property C02): machine-checked non-vacuity witnesses and counter-examples for
  Props/C02.lean and Props/C02Inj.lean.  New file; nothing existing is modified.

  §0  what the hypothesis predicates do and do not guarantee
        * `Regular` / `LawsT`: `lawsT_junk` — a family of signals whose poles cover ℚ has NO regular point, so it satisfies
          `LawsT E tcs ·` for EVERY netlist although it violates the formal laws; `FinitePoles` is the guard (and fails for it).
        * `IsExp` over ℚ: `isExp_rat_trivial` — the only admissible `E : ℚ → ℚ` is the constant 1; `not_delayIndep_one`: for it
          `DelayIndep` is false, so over ℚ `DelaysOK` is `DelayFree` (`delaysOK_one_iff`);
          `lawsT_E1_accepts_wrong_delay`: over ℚ `LawsT E` accepts a response delayed by the wrong amount.
        * `gq_not_field`: the carrier `GQ` of the native driver is not a field (tie finding).
  §1  witnesses for every theorem of Props/C02.lean      (RC example of the file, an RL circuit, coupled inductors, hand-over)
        * `ic_start_noncausal`: `val0plus` is the value at 0⁺ only for causal `post` parts; `ic_start` does not assume that.
        * `rest_excludes_whole_axis`: `RestWhereUnspecified` excludes whole-axis dc sources without written initial conditions.
        * `lawsTFormal_of_check`: the step from the verdict of `checkLawsT` to `LawsTFormal`, which Props/C02 does not state.
  §2  witnesses for every theorem of Props/C02Inj.lean   (ℚ; and ℝ with the real exponential and a DELAYED source)
-/
import Lcapy.Props.C02
import Lcapy.Props.C02Inj
import Mathlib.Data.Rat.Encodable
namespace Lcapy.NonVacuity.C02
open Lcapy Lcapy.MNA Lcapy.Laplace Lcapy.TD Lcapy.C02

/-! ## §0 the hypothesis predicates -/

abbrev E1 : ℚ → ℚ := fun _ => 1
theorem isExp_E1 : IsExp E1 := ⟨fun _ _ => by simp, rfl⟩

theorem isOk_eq {K : Type} {v : VerdictT K} (h : v.isOk = true) : v = .ok := by
  cases v <;> simp [VerdictT.isOk] at h ⊢

theorem formalZero_nil {K : Type} [Field K] [DecidableEq K] : FormalZero ([] : ExpPoly K) := rfl

/-- the step from the verdict of `checkLawsT` to `LawsTFormal` (not stated in Props/C02) -/
theorem lawsTFormal_of_check {K : Type} [Field K] [DecidableEq K] (tcs : List (TCpt K)) (x : Ix → Signal K) (n : Nat)
    (h : checkLawsT tcs x n = .ok) (hn : ∀ k, n ≤ k → kclT x k tcs = []) : LawsTFormal tcs x := by
  obtain ⟨hk, hl⟩ := checkLawsT_ok tcs x n h
  refine ⟨fun k hk0 => ?_, hl⟩
  by_cases hlt : k < n
  · exact hk k hk0 hlt
  · rw [hn k (by omega)]; exact formalZero_nil


/-! ## 1. `Regular` / `LawsT` -/
noncomputable def enumQ : ℕ → ℚ := Classical.choose (exists_surjective_nat ℚ)
theorem enumQ_surj : Function.Surjective enumQ := Classical.choose_spec (exists_surjective_nat ℚ)

noncomputable def junkX : Ix → Signal ℚ
  | .node (k + 3) => ⟨[], [.ep 1 0 (enumQ k) 0]⟩
  | _ => ⟨[], []⟩

theorem regular_junk_empty (tcs : List (TCpt ℚ)) (s : ℚ) : ¬ Regular tcs junkX s := by
  rintro ⟨h, _⟩
  obtain ⟨k, rfl⟩ := enumQ_surj s
  have := h (.node (k + 3)) (.ep 1 0 (enumQ k) 0) (by simp [junkX])
  simp at this

theorem lawsT_junk (E : ℚ → ℚ) (tcs : List (TCpt ℚ)) : LawsT E tcs junkX :=
  fun s hs => absurd hs (regular_junk_empty tcs s)

theorem not_lawsTFormal_junk : ¬ LawsTFormal exTcs junkX := by
  intro h
  have := h.2 (.V 1 0 0 0, ⟨[], [.ep 5 0 0 0]⟩) (by simp [exTcs]) (0, subP (vpost junkX 1 0) [.ep 5 0 0 0]) (by simp [lawsT])
  revert this
  decide +kernel

theorem not_finitePoles_junk (tcs : List (TCpt ℚ)) : ¬ FinitePoles tcs junkX := by
  rintro ⟨bad, h⟩
  obtain ⟨s, hs⟩ := Infinite.exists_notMem_finset bad
  exact regular_junk_empty tcs s (h s hs)

/-! ## 2. DelayIndep -/
theorem not_delayIndep_one : ¬ DelayIndep (fun _ : ℚ => (1 : ℚ)) := by
  intro h
  obtain ⟨bad', hb⟩ := h [.ep 1 0 0 0, .ep (-1) 0 0 1] ∅ (fun s _ => by simp [L, Term.L, pw]; ring) 0
  obtain ⟨s, hs⟩ := Infinite.exists_notMem_finset (bad' ∪ {0})
  simp only [Finset.mem_union, Finset.mem_singleton, not_or] at hs
  have := hb s hs.1
  simp [delayPart, L, Term.L, pw, Term.delayOf] at this
  exact hs.2 this

example : DelayIndep Real.exp := delayIndep_real

theorem delaysOK_one_iff (tcs : List (TCpt ℚ)) (x : Ix → Signal ℚ) :
    DelaysOK (fun _ : ℚ => (1 : ℚ)) tcs x ↔ DelayFree tcs x :=
  ⟨fun h => h.resolve_right not_delayIndep_one, Or.inl⟩

theorem rat_all_powers (r : ℚ) (hr : 0 < r) (h : ∀ n : ℕ, 1 ≤ n → ∃ q : ℚ, r = q ^ n) : r = 1 := by
  obtain ⟨q, hq⟩ := h (r.num.natAbs + r.den + 1) (by omega)
  set N := r.num.natAbs + r.den + 1 with hN
  have hnum : r.num = q.num ^ N := by rw [hq, Rat.num_pow]
  have hden : r.den = q.den ^ N := by rw [hq, Rat.den_pow]
  have hNlt : N < 2 ^ N := Nat.lt_two_pow_self
  have hqd : q.den = 1 := by
    by_contra hne
    have h2 : 2 ≤ q.den := by have := q.den_pos; omega
    have : 2 ^ N ≤ q.den ^ N := Nat.pow_le_pow_left h2 N
    omega
  have hqn : q.num.natAbs ≤ 1 := by
    by_contra hne
    have h2 : 2 ≤ q.num.natAbs := by omega
    have h3 : 2 ^ N ≤ q.num.natAbs ^ N := Nat.pow_le_pow_left h2 N
    have h4 : r.num.natAbs = q.num.natAbs ^ N := by rw [hnum, Int.natAbs_pow]
    omega
  have hrn : 0 < r.num := Rat.num_pos.mpr hr
  have h4 : r.num.natAbs = q.num.natAbs ^ N := by rw [hnum, Int.natAbs_pow]
  have h5 : r.num.natAbs ≤ 1 := by rw [h4]; exact Nat.pow_le_one_iff (by omega) |>.mpr hqn |> fun h => h
  have h6 : r.num = 1 := by omega
  have h7 : r.den = 1 := by rw [hden, hqd, one_pow]
  rw [← Rat.num_div_den r, h6, h7]; norm_num

/-- over ℚ the ONLY exponential in the sense of `IsExp` is the constant 1 -/
theorem isExp_rat_trivial (E : ℚ → ℚ) (hE : IsExp E) : E = fun _ => 1 := by
  have hmul : ∀ (n : ℕ) (y : ℚ), E (n * y) = E y ^ n := by
    intro n y
    induction n with
    | zero => simp [hE.zero]
    | succ n ih => rw [Nat.cast_succ, add_mul, one_mul, hE.add, ih, pow_succ]
  funext x
  apply rat_all_powers
  · have : E x = E (x / 2) ^ 2 := by rw [← hmul 2 (x / 2)]; congr 1; ring
    rw [this]
    have hne := isExp_ne_zero hE (x / 2)
    positivity
  · intro n hn
    refine ⟨E (x / n), ?_⟩
    rw [← hmul n (x / n)]
    congr 1
    field_simp


/-- `V1 1 0 step 1 ; R1 1 0 1` with a WRONG response: everything delayed by 1 s -/
def wdTcs : List (TCpt ℚ) := [(.V 1 0 0 0, ⟨[], [.ep 1 0 0 0]⟩), (.R 1 0 1, ⟨[], []⟩)]
def wdX : Ix → Signal ℚ
  | .node 1 => ⟨[], [.ep 1 0 0 1]⟩
  | .br 0 => ⟨[], [.ep (-1) 0 0 1]⟩
  | _ => ⟨[], []⟩

theorem lawsT_E1_accepts_wrong_delay : LawsT E1 wdTcs wdX ∧ ¬ LawsTFormal wdTcs wdX := by
  constructor
  · intro s _
    constructor
    · intro k hk
      match k, hk with
      | 0, h => exact absurd rfl h
      | 1, _ =>
        simp [kclT, wdTcs, outflowT, twoTermT, subP, smul, Term.smul, vpost, voltT, wdX, Signal.zero, L, Term.L, pw]; ring
      | (k + 2), _ => simp [kclT, wdTcs, outflowT, twoTermT, subP, smul]
    · intro c hc p hp
      simp only [wdTcs, List.mem_cons, List.not_mem_nil, or_false] at hc
      rcases hc with rfl | rfl <;> simp [lawsT] at hp
      subst hp
      simp [subP, smul, Term.smul, vpost, voltT, wdX, Signal.zero, L, Term.L, pw]; ring
  · intro h
    have := h.2 (.V 1 0 0 0, ⟨[], [.ep 1 0 0 0]⟩) (by simp [wdTcs]) (0, subP (vpost wdX 1 0) [.ep 1 0 0 0]) (by simp [lawsT])
    revert this; decide +kernel

/-- the carrier of the native driver, the checked Gaussian rationals, is NOT a field: the error value has no negative -/
theorem gq_not_field : ¬ ∃ x : Lcapy.Laplace.GQ, Lcapy.Laplace.GQ.undef + x = 0 := by
  rintro ⟨x, hx⟩
  have : (Lcapy.Laplace.GQ.undef + x).v = none := by
    show (Lcapy.Laplace.GQ.lift2 _ _ _).v = none
    simp [Lcapy.Laplace.GQ.lift2, Lcapy.Laplace.GQ.undef]
  rw [hx] at this
  exact absurd this (by decide)

/-! ## §1 Props/C02.lean -/

theorem ex_regular (s : ℚ) (h0 : s ≠ 0) (h1 : s ≠ -1) : Regular exTcs exX s := by
  have h0' : s - 0 ≠ 0 := by simpa using h0
  have h1' : s - -1 ≠ 0 := sub_ne_zero.mpr h1
  constructor
  · intro ix t ht
    match ix with
    | .node 0 => simp [exX] at ht
    | .node 1 => simp [exX] at ht; subst ht; exact h0'
    | .node 2 => simp [exX] at ht; rcases ht with rfl | rfl; exact h0'; exact h1'
    | .node (k + 3) => simp [exX] at ht
    | .br 0 => simp [exX] at ht; subst ht; exact h1'
    | .br (m + 1) => simp [exX] at ht
  · intro c hc t ht
    simp only [exTcs, List.mem_cons, List.not_mem_nil, or_false] at hc
    rcases hc with rfl | rfl | rfl <;> simp at ht
    subst ht; exact h0'

theorem ex_regular2 : Regular exTcs exX 2 := ex_regular 2 (by norm_num) (by norm_num)

/-- non-circular: the s-domain laws of the RC example computed directly -/
theorem ex_laws_s (s : ℚ) (h0 : s ≠ 0) (h1 : s ≠ -1) :
    Laws .ivp s (exTcs.map (atS E1 s)) (transformOf E1 exX s) := by
  have h1' : s + 1 ≠ 0 := fun h => h1 (by linarith)
  constructor
  · intro k hk
    match k, hk with
    | 0, h => exact absurd rfl h
    | 1, _ =>
      simp [exTcs, atS, outflow, twoTerm, lsum, vd, volt, transformOf, exX, L, Term.L, pw]
      field_simp; ring
    | 2, _ =>
      simp [exTcs, atS, outflow, twoTerm, lsum, vd, volt, transformOf, exX, L, Term.L, pw, capCurrent]
      field_simp; ring
    | (k + 3), _ => simp [exTcs, atS, outflow, twoTerm, lsum]
  · intro c hc p hp
    simp only [exTcs, List.map_cons, List.map_nil, atS, List.mem_cons, List.not_mem_nil, or_false] at hc
    rcases hc with rfl | rfl | rfl <;> simp [laws] at hp
    subst hp
    simp [vd, volt, transformOf, exX, L, Term.L, pw]

/-! ### witnesses for Props/C02.lean -/

theorem nv_cap_law_is_transform :
    L E1 (capCurrentT exX 2 0 (1 / 2) (some 3)) 2 = capCurrent .ivp 2 (1 / 2) (some 3) (vd (transformOf E1 exX 2) 2 0) :=
  cap_law_is_transform E1 isExp_E1 exX 2 0 (1 / 2) 3 2 ex_regular2.1
example : L E1 (capCurrentT exX 2 0 (1 / 2) (some 3)) 2 = 1 / 3 := by decide +kernel

theorem nv_cap_law_via_lt_deriv :
    (1 / 2 : ℚ) * (Signal.deriv ⟨[(3, 0, 0)], [.ep 5 0 0 0, .ep (-2) 0 (-1) 0]⟩).L E1 2
      = capCurrent .ivp 2 (1 / 2) (some 3) (L E1 [.ep 5 0 0 0, .ep (-2) 0 (-1) 0] 2) :=
  cap_law_via_lt_deriv E1 isExp_E1 (1 / 2) 3 2 _ (by
    intro t ht; simp at ht; rcases ht with rfl | rfl <;> norm_num)

/-- two coupled inductors L = 2, M = 1, i(0⁻) = i'(0⁻) = 1 whose currents JUMP to 2 and −1 at t = 0 (flux 2·1 + 1·1 = 3 before,
    2·2 + 1·(−1) = 3 after) while the voltage across the first stays zero -/
def cplX : Ix → Signal ℚ
  | .br 1 => ⟨[(1, 0, 0)], [.ep 2 0 0 0]⟩
  | .br 2 => ⟨[(1, 0, 0)], [.ep (-1) 0 0 0]⟩
  | _ => ⟨[], []⟩

def cplInd : TCpt ℚ := (.Ind 1 0 1 2 (some 1) [(2, 1, some 1)], ⟨[], []⟩)

theorem cpl_nonpole : ∀ ix, NonPole (cplX ix).post 2 := by
  intro ix t ht
  match ix with
  | .node k => simp [cplX] at ht
  | .br 0 => simp [cplX] at ht
  | .br 1 => simp [cplX] at ht; subst ht; norm_num
  | .br 2 => simp [cplX] at ht; subst ht; norm_num
  | .br (m + 3) => simp [cplX] at ht

theorem nv_ind_law_is_transform :
    (lawsT cplX cplInd).map (fun p => (p.1, L E1 p.2 2))
      = laws .ivp 2 (transformOf E1 cplX 2) (.Ind 1 0 1 2 (some 1) [(2, 1, some 1)]) :=
  ind_law_is_transform E1 isExp_E1 cplX 2 cpl_nonpole 1 0 1 2 (some 1) [(2, 1, some 1)] ⟨[], []⟩
    ⟨fun h => by simp at h, fun p hp h => by simp at hp; subst hp; simp at h⟩

theorem nv_laws_s_of_laws_t : Laws .ivp 2 (exTcs.map (atS E1 2)) (transformOf E1 exX 2) :=
  laws_s_of_laws_t E1 isExp_E1 exTcs exX ex_rest (formal_lawsT _ _ _ ex_lawsTFormal) 2 ex_regular2

/-- `laws_t_of_laws_s` with its hypothesis proved by direct computation (NOT from the conclusion) -/
theorem nv_laws_t_of_laws_s : LawsT E1 exTcs exX :=
  laws_t_of_laws_s E1 isExp_E1 exTcs exX ex_rest (fun s hs => by
    have h0 : s ≠ 0 := by simpa using hs.1 (.node 1) (.ep 5 0 0 0) (by simp [exX])
    have h1 : s ≠ -1 := by
      have := hs.1 (.br 0) (.ep (-1) 0 (-1) 0) (by simp [exX])
      intro h; apply this; rw [h]; norm_num
    exact ex_laws_s s h0 h1)

theorem nv_transforms_solve_mna : Solves .ivp 2 (exTcs.map (atS E1 2)) (transformOf E1 exX 2) :=
  transforms_solve_mna E1 isExp_E1 exTcs exX ex_rest nv_laws_t_of_laws_s 2 ex_regular2 (ex_wf 2)

/-- ANOTHER solution of the RC example: like terms of V(2) split and reordered (5 = 2 + 3), and an arbitrary signal
    e^{4t} on node 7, which does not occur in the netlist (so it is not in `U`) -/
def exY : Ix → Signal ℚ
  | .node 1 => ⟨[], [.ep 5 0 0 0]⟩
  | .node 2 => ⟨[], [.ep (-2) 0 (-1) 0, .ep 2 0 0 0, .ep 3 0 0 0]⟩
  | .node 7 => ⟨[], [.ep 1 0 4 0]⟩
  | .br 0 => ⟨[], [.ep (-1) 0 (-1) 0]⟩
  | _ => ⟨[], []⟩

theorem exY_lawsTFormal : LawsTFormal exTcs exY :=
  lawsTFormal_of_check exTcs exY 3 (isOk_eq (by decide +kernel)) (fun k hk => by
    obtain ⟨j, rfl⟩ : ∃ j, k = j + 3 := ⟨k - 3, by omega⟩
    simp [kclT, exTcs, outflowT, twoTermT, subP, smul])

theorem exY_rest : RestWhereUnspecified exTcs exY := by
  intro c hc
  simp only [exTcs, List.mem_cons, List.not_mem_nil, or_false] at hc
  rcases hc with rfl | rfl | rfl <;> trivial

theorem exY_regular (s : ℚ) (h0 : s ≠ 0) (h1 : s ≠ -1) (h4 : s ≠ 4) : Regular exTcs exY s := by
  have h0' : s - 0 ≠ 0 := by simpa using h0
  have h1' : s - -1 ≠ 0 := sub_ne_zero.mpr h1
  have h4' : s - 4 ≠ 0 := sub_ne_zero.mpr h4
  refine ⟨?_, (ex_regular s h0 h1).2⟩
  intro ix t ht
  match ix with
  | .node 0 => simp [exY] at ht
  | .node 1 => simp [exY] at ht; subst ht; exact h0'
  | .node 2 => simp [exY] at ht; rcases ht with rfl | rfl | rfl <;> assumption
  | .node 3 | .node 4 | .node 5 | .node 6 => simp [exY] at ht
  | .node 7 => simp [exY] at ht; subst ht; exact h4'
  | .node (k + 8) => simp [exY] at ht
  | .br 0 => simp [exY] at ht; subst ht; exact h1'
  | .br (m + 1) => simp [exY] at ht

abbrev exU : Ix → Prop := fun i => i = .node 1 ∨ i = .node 2 ∨ i = .br 0

/-- `U` may be taken to be `C01.Unknown …`: the ivp system of the RC example is `C01.Nonsingular` at every s ≠ −1 -/
theorem ex_nonsingular (s : ℚ) (hs : s ≠ -1) : C01.Nonsingular .ivp s (exTcs.map (atS E1 s)) := by
  intro z hz i hi
  apply ex_nonsingularOn s hs z hz
  obtain ⟨hi0, hi⟩ := hi
  simp [C01.unknowns, exTcs, atS, stampAll, stamp, Stamp.append, branchPattern, admPattern, capY] at hi
  aesop

/-- two syntactically different solutions have the same transform at s = 2 on the unknowns of the netlist … -/
theorem nv_response_unique_at : ∀ i, exU i → L E1 (exX i).post 2 = L E1 (exY i).post 2 :=
  response_unique_at E1 isExp_E1 exU exTcs exX exY ex_rest exY_rest
    (formal_lawsT _ _ _ ex_lawsTFormal) (formal_lawsT _ _ _ exY_lawsTFormal) 2 ex_regular2
    (exY_regular 2 (by norm_num) (by norm_num) (by norm_num)) (ex_wf 2) (ex_nonsingularOn 2 (by norm_num))
/-- … but NOT on node 7, which the netlist does not constrain: restricting uniqueness to `U` is necessary -/
example : L E1 (exX (.node 7)).post 2 ≠ L E1 (exY (.node 7)).post 2 := by decide +kernel

/-! `response_is_ilt` on the partial-fraction data of the RC example: V1 = 5/s, V2 = 5/s − 2/(s+1), J = −1/(s+1) -/
def exPfs : Ix → List (PF ℚ)
  | .node 1 => [⟨[], [(5, 0, 1)], 0⟩]
  | .node 2 => [⟨[], [(5, 0, 1), (-2, -1, 1)], 0⟩]
  | .br 0 => [⟨[], [(-1, -1, 1)], 0⟩]
  | _ => []

theorem exPfs_response : (fun ix => (⟨[], response (exPfs ix)⟩ : Signal ℚ)) = exX := by
  funext ix
  match ix with
  | .node 0 => rfl
  | .node 1 => rfl
  | .node 2 => rfl
  | .node (k + 3) => rfl
  | .br 0 => rfl
  | .br (m + 1) => rfl

theorem exPfs_pos : ∀ ix, ∀ pf ∈ exPfs ix, ∀ r ∈ pf.R, 0 < r.2.2 := by
  intro ix pf hpf r hr
  match ix with
  | .node 0 => simp [exPfs] at hpf
  | .node 1 => simp [exPfs] at hpf; subst hpf; simp at hr; subst hr; decide
  | .node 2 => simp [exPfs] at hpf; subst hpf; simp at hr; rcases hr with rfl | rfl <;> decide
  | .node (k + 3) => simp [exPfs] at hpf
  | .br 0 => simp [exPfs] at hpf; subst hpf; simp at hr; subst hr; decide
  | .br (m + 1) => simp [exPfs] at hpf

theorem exPfs_eval (s : ℚ) : (fun ix => lsum ((exPfs ix).map (fun pf => evalPF E1 pf s))) = transformOf E1 exX s := by
  funext ix
  match ix with
  | .node 0 => rfl
  | .node 1 => simp [exPfs, lsum, evalPF, Poly.eval, sumPF, transformOf, exX, L, Term.L, pw]
  | .node 2 => simp [exPfs, lsum, evalPF, Poly.eval, sumPF, transformOf, exX, L, Term.L, pw]
  | .node (k + 3) => rfl
  | .br 0 => simp [exPfs, lsum, evalPF, Poly.eval, sumPF, transformOf, exX, L, Term.L, pw]
  | .br (m + 1) => rfl

theorem nv_response_is_ilt : LawsT E1 exTcs (fun ix => ⟨[], response (exPfs ix)⟩) :=
  response_is_ilt E1 isExp_E1 exTcs (fun _ => []) exPfs exPfs_pos (by rw [exPfs_response]; exact ex_rest) (by
    rw [exPfs_response]
    intro s hs
    have h0 : s ≠ 0 := by simpa using hs.1 (.node 1) (.ep 5 0 0 0) (by simp [exX])
    have h1 : s ≠ -1 := by
      have := hs.1 (.br 0) (.ep (-1) 0 (-1) 0) (by simp [exX])
      intro h; apply this; rw [h]; norm_num
    rw [exPfs_eval]; exact ex_laws_s s h0 h1)

/-! ### hand-over: `V1 1 0 dc 5 ; R1 1 2 2 ; C1 2 0 1/2` in its dc steady state up to t = 0 (signals `cX` of Props/C02Inj) -/

def hoCs : List (Cpt ℚ × Signal ℚ) :=
  [(.V 1 0 0 0, ⟨[(5, 0, 0)], [.ep 5 0 0 0]⟩), (.R 1 2 2, ⟨[], []⟩), (.Cap 2 0 (1 / 2) none, ⟨[], []⟩)]

/-- the pre-switch dc solution: V(1) = V(2) = 5, no current -/
def hoX : Ix → ℚ
  | .node 1 => 5
  | .node 2 => 5
  | _ => 0

theorem ho_startsFrom : StartsFrom hoX cX := by
  intro ix
  match ix with
  | .node 0 => rfl
  | .node 1 => simp [cX, hoX, pre0]
  | .node 2 => simp [cX, hoX, pre0]
  | .node (k + 3) => rfl
  | .br m => rfl

theorem ho_clear : LawsTFormal (hoCs.map (fun c => (clearIC c.1, c.2))) cX :=
  lawsTFormal_of_check _ cX 3 (isOk_eq (by decide +kernel)) (fun k hk => by
    obtain ⟨j, rfl⟩ : ∃ j, k = j + 3 := ⟨k - 3, by omega⟩
    simp [kclT, hoCs, clearIC, outflowT, twoTermT, subP, smul])

/-- `handover`: the circuit with the handed-over initial condition v_C(0⁻) = 5 has the continued solution -/
theorem nv_handover : LawsTFormal (hoCs.map (fun c => (initializeFrom hoX c.1, c.2))) cX :=
  (handover hoX hoCs cX ho_startsFrom).mpr ho_clear
/-- the capacitor of the initialised netlist carries v0 = 5 -/
example : initializeFrom hoX (.Cap 2 0 (1 / 2) none) = .Cap 2 0 (1 / 2) (some 5) := by
  simp [initializeFrom, vd, volt, hoX]

/-- `RestWhereUnspecified` EXCLUDES the whole-axis case "dc source, no initial condition written" (v_C(0⁻) = 5 ≠ 0), which Lcapy
    accepts: the transform-level theorems (`laws_s_of_laws_t`, `laws_t_of_laws_s`, `response_unique*`) do not speak about it
    directly; it is reached through `handover` (initial condition written from the pre-history) only -/
theorem rest_excludes_whole_axis : ¬ RestWhereUnspecified (hoCs.map (fun c => (clearIC c.1, c.2))) cX := by
  intro h
  have := h (.Cap 2 0 (1 / 2) none, ⟨[], []⟩) (by simp [hoCs, clearIC])
  revert this
  simp only []
  decide +kernel
/-- … while the netlist with the handed-over condition satisfies it -/
theorem rest_after_handover : RestWhereUnspecified (hoCs.map (fun c => (initializeFrom hoX c.1, c.2))) cX := by
  intro c hc
  simp only [hoCs, List.map_cons, List.map_nil, initializeFrom, List.mem_cons, List.not_mem_nil, or_false] at hc
  rcases hc with rfl | rfl | rfl <;> trivial

theorem nv_handover_state :
    initializeFrom hoX (.Cap 2 0 (1 / 2) none) = .Cap 2 0 (1 / 2) (some (vpre0 cX 2 0)) ∧
    initializeFrom hoX (.Ind 2 0 1 2 none []) = .Ind 2 0 1 2 (some (pre0 (cX (.br 1)).pre)) [] := by
  -- (`C02.handover_state` was dropped after the audit as definitional; the fact itself:)
  simp [initializeFrom, vpre0_of_startsFrom ho_startsFrom, ho_startsFrom _]

/-! ### RL circuit `V1 1 0 step 6 ; R1 1 2 3 ; L1 2 0 2 1` : i_L = 2 − e^{−3t/2} from i_L(0⁻) = 1 -/

def rlTcs : List (TCpt ℚ) :=
  [(.V 1 0 0 0, ⟨[], [.ep 6 0 0 0]⟩), (.R 1 2 3, ⟨[], []⟩), (.Ind 2 0 1 2 (some 1) [], ⟨[], []⟩)]

def rlX : Ix → Signal ℚ
  | .node 1 => ⟨[], [.ep 6 0 0 0]⟩
  | .node 2 => ⟨[], [.ep 3 0 (-3 / 2) 0]⟩
  | .br 0 => ⟨[], [.ep (-2) 0 0 0, .ep 1 0 (-3 / 2) 0]⟩
  | .br 1 => ⟨[], [.ep 2 0 0 0, .ep (-1) 0 (-3 / 2) 0]⟩
  | _ => ⟨[], []⟩

theorem rl_check : checkLawsT rlTcs rlX 3 = .ok := isOk_eq (by decide +kernel)

theorem nv_checkLawsT_ok :
    (∀ k, k ≠ 0 → k < 3 → FormalZero (kclT rlX k rlTcs)) ∧ (∀ c ∈ rlTcs, ∀ p ∈ lawsT rlX c, FormalZero p.2) :=
  checkLawsT_ok rlTcs rlX 3 rl_check

theorem rl_lawsTFormal : LawsTFormal rlTcs rlX :=
  lawsTFormal_of_check rlTcs rlX 3 rl_check (fun k hk => by
    obtain ⟨j, rfl⟩ : ∃ j, k = j + 3 := ⟨k - 3, by omega⟩
    simp [kclT, rlTcs, outflowT, twoTermT, subP, smul])

theorem nv_formal_lawsT : LawsT E1 rlTcs rlX := formal_lawsT E1 rlTcs rlX rl_lawsTFormal

/-! ### initial values -/

theorem ex_noDelta : NoDelta (vpost exX 2 0) := by
  intro t ht
  simp [vpost, subP, voltT, exX, smul, Signal.zero] at ht
  rcases ht with rfl | rfl <;> trivial

theorem nv_ic_start : val0plus (vpost exX 2 0) = 3 :=
  ic_start exX 2 0 (1 / 2) (some 3) [.ep 1 0 (-1) 0] (by norm_num) (by decide +kernel) ex_noDelta (by decide +kernel)

theorem nv_ic_start_inductor : val0plus (rlX (.br 1)).post = 1 :=
  ic_start_inductor rlX 2 0 1 2 (some 1) ⟨[], []⟩ (by norm_num)
    (rl_lawsTFormal.2 (.Ind 2 0 1 2 (some 1) [], ⟨[], []⟩) (by simp [rlTcs]))
    (by intro t ht; simp [rlX] at ht; rcases ht with rfl | rfl <;> trivial) (by decide +kernel)

/-- `ic_start_flux` where BOTH currents jump (1 → 2 and 1 → −1) and the flux linkage does not: 2·(2−1) + 1·(−1−1) = 0 -/
theorem nv_ic_start_flux :
    (2 : ℚ) * (val0plus (cplX (.br 1)).post - stateOf (some 1) (pre0 (cplX (.br 1)).pre)) +
      lsum ([(2, (1 : ℚ), some (1 : ℚ))].map
        (fun p => p.2.1 * (val0plus (cplX (.br p.1)).post - stateOf p.2.2 (pre0 (cplX (.br p.1)).pre)))) = 0 :=
  ic_start_flux cplX 1 0 1 2 (some 1) [(2, 1, some 1)] ⟨[], []⟩
    (by intro p hp; simp [lawsT] at hp; subst hp; decide +kernel)
    (by intro t ht; simp [cplX] at ht; subst ht; trivial)
    (by intro p hp t ht; simp at hp; subst hp; simp [cplX] at ht; subst ht; trivial)
    (by decide +kernel)
example : val0plus (cplX (.br 1)).post = 2 ∧ pre0 (cplX (.br 1)).pre = 1 ∧ val0plus (cplX (.br 2)).post = -1 := by decide +kernel

/-- the injectivity hypothesis `hinj` of the former `continuity_of_inj` (dropped) is FALSE for the rational stand-in `E = 1`
    (the theorem is vacuous there); it holds for `Real.exp` (below) -/
theorem vacuous_continuity_of_inj_E1 :
    ¬ ∀ f : ExpPoly ℚ, (∀ s, NonPole f s → L E1 f s = 0) → FormalZero f := by
  intro h
  have := h [.ep 1 0 0 0, .ep (-1) 0 0 1] (fun s _ => by simp [L, Term.L, pw]; ring)
  revert this; decide +kernel

/-! ### pointwise, causality -/

theorem nv_formal_pointwise :
    (∀ k, k ≠ 0 → evalAt E1 (kclT rlX k rlTcs) 1 = 0) ∧ (∀ c ∈ rlTcs, ∀ p ∈ lawsT rlX c, evalAt E1 p.2 1 = 0) :=
  formal_pointwise E1 rlTcs rlX rl_lawsTFormal 1

theorem nv_ilt_causal : Causal (ilt (⟨[1], [(5, 0, 1), (-2, -1, 1)], 2⟩ : PF ℚ)) :=
  ilt_causal_partial _ (by norm_num)

theorem exPfs_T : ∀ ix, ∀ pf ∈ exPfs ix, (0 : ℚ) ≤ pf.T := by
  intro ix pf hpf
  match ix with
  | .node 0 => simp [exPfs] at hpf
  | .node 1 => simp [exPfs] at hpf; subst hpf; exact le_refl _
  | .node 2 => simp [exPfs] at hpf; subst hpf; exact le_refl _
  | .node (k + 3) => simp [exPfs] at hpf
  | .br 0 => simp [exPfs] at hpf; subst hpf; exact le_refl _
  | .br (m + 1) => simp [exPfs] at hpf

theorem nv_causal_response :
    Causal (response (exPfs (.node 2))) ∧ ∀ t, t < 0 → evalAt E1 (response (exPfs (.node 2))) t = 0 :=
  causal_response_partial E1 exPfs exPfs_T (.node 2)

/-! ### witnesses for Props/C02Inj.lean (K = ℚ, stand-in E = 1, no delays) -/

theorem nv_L_injective : FormalZero (subP (exX (.node 2)).post (exY (.node 2)).post) :=
  L_injective E1 isExp_E1 0 _ (by
      intro t ht
      simp [subP, smul, exX, exY] at ht
      rcases ht with rfl | rfl | rfl | rfl | rfl <;> rfl) ∅
    (fun s _ _ => by simp [subP, smul, Term.smul, exX, exY, L, Term.L, pw]; ring)

theorem nv_L_injective_eq (κ : Term ℚ) : coefOf κ (exX (.node 2)).post = coefOf κ (exY (.node 2)).post :=
  L_injective_eq E1 isExp_E1 0 _ _ (ex_delayFree.1 _)
    (by intro t ht; simp [exY] at ht; rcases ht with rfl | rfl | rfl <;> rfl) ∅
    (fun s _ _ _ => by simp [exX, exY, L, Term.L, pw]; ring) κ
example : coefOf (.ep 0 0 0 0) (exY (.node 2)).post = 5 := by decide +kernel

/-- delays and an impulse: u(t−1) + 2δ(t−3) written in two orders -/
def wF : ExpPoly ℚ := subP [.ep 1 0 0 1, .dl 2 0 3] [.dl 2 0 3, .ep 1 0 0 1]

theorem wF_LW (w : ℚ → ℚ) (s : ℚ) : LW w wF s = 0 := by
  simp [wF, subP, smul, Term.smul, LW, Term.LW, pw]; ring

theorem nv_L_injective_w : FormalZero wF := L_injective_w wF ∅ (fun w s _ _ => wF_LW w s)
theorem nv_formalZero_iff_LW : FormalZero wF := (formalZero_iff_LW wF).mpr wF_LW

theorem exY_delayFree : DelayFree exTcs exY := by
  refine ⟨?_, ex_delayFree.2⟩
  intro ix t ht
  match ix with
  | .node 0 => simp [exY] at ht
  | .node 1 => simp [exY] at ht; subst ht; rfl
  | .node 2 => simp [exY] at ht; rcases ht with rfl | rfl | rfl <;> rfl
  | .node 3 | .node 4 | .node 5 | .node 6 => simp [exY] at ht
  | .node 7 => simp [exY] at ht; subst ht; rfl
  | .node (k + 8) => simp [exY] at ht
  | .br 0 => simp [exY] at ht; subst ht; rfl
  | .br (m + 1) => simp [exY] at ht

theorem exY_finitePoles : FinitePoles exTcs exY := by
  refine ⟨{0, -1, 4}, fun s hs => ?_⟩
  simp only [Finset.mem_insert, Finset.mem_singleton, not_or] at hs
  exact exY_regular s hs.1 hs.2.1 hs.2.2

theorem nv_residual_inj : FormalZero (kclT exY 2 exTcs) :=
  residual_inj E1 isExp_E1 exTcs exY (Or.inl exY_delayFree) _ (Or.inl ⟨2, rfl⟩) ∅
    (fun s _ => L_of_formalZero E1 (exY_lawsTFormal.1 2 (by norm_num)) s)

/-- `response_unique` on two DIFFERENT representations (and a different unconstrained node 7): equal as formal signals on `U` -/
theorem nv_response_unique : ∀ i, exU i → FormalZero (subP (exX i).post (exY i).post) :=
  response_unique E1 isExp_E1 exTcs exX exY (Or.inl ex_delayFree) (Or.inl exY_delayFree) ex_finitePoles exY_finitePoles
    ex_rest exY_rest nv_laws_t_of_laws_s (formal_lawsT _ _ _ exY_lawsTFormal) exU {-1}
    (fun s _ => ex_wf s) (fun s hs => ex_nonsingularOn s (by simpa using hs))
/-- … and not outside `U` -/
example : ¬ FormalZero (subP (exX (.node 7)).post (exY (.node 7)).post) := by decide +kernel

theorem nv_lawsT_iff_formal : LawsT E1 rlTcs rlX ↔ LawsTFormal rlTcs rlX :=
  lawsT_iff_formal E1 isExp_E1 rlTcs rlX (Or.inl (by
    constructor
    · intro ix t ht
      match ix with
      | .node 0 => simp [rlX] at ht
      | .node 1 => simp [rlX] at ht; subst ht; rfl
      | .node 2 => simp [rlX] at ht; subst ht; rfl
      | .node (k + 3) => simp [rlX] at ht
      | .br 0 => simp [rlX] at ht; rcases ht with rfl | rfl <;> rfl
      | .br 1 => simp [rlX] at ht; rcases ht with rfl | rfl <;> rfl
      | .br (m + 2) => simp [rlX] at ht
    · intro c hc t ht
      simp only [rlTcs, List.mem_cons, List.not_mem_nil, or_false] at hc
      rcases hc with rfl | rfl | rfl <;> simp at ht
      subst ht; rfl)) (by
    refine ⟨{0, -3 / 2}, fun s hs => ?_⟩
    simp only [Finset.mem_insert, Finset.mem_singleton, not_or] at hs
    have h0 : s - 0 ≠ 0 := by simpa using hs.1
    have h1 : s - -3 / 2 ≠ 0 := sub_ne_zero.mpr hs.2
    constructor
    · intro ix t ht
      match ix with
      | .node 0 => simp [rlX] at ht
      | .node 1 => simp [rlX] at ht; subst ht; exact h0
      | .node 2 => simp [rlX] at ht; subst ht; exact h1
      | .node (k + 3) => simp [rlX] at ht
      | .br 0 => simp [rlX] at ht; rcases ht with rfl | rfl; exact h0; exact h1
      | .br 1 => simp [rlX] at ht; rcases ht with rfl | rfl; exact h0; exact h1
      | .br (m + 2) => simp [rlX] at ht
    · intro c hc t ht
      simp only [rlTcs, List.mem_cons, List.not_mem_nil, or_false] at hc
      rcases hc with rfl | rfl | rfl <;> simp at ht
      subst ht; exact h0)

theorem nv_lawsTW_iff_formal : LawsTW exTcs exY := (lawsTW_iff_formal exTcs exY exY_finitePoles).mpr exY_lawsTFormal

/-- `lawsTFormal_of_laws_s` with the s-domain laws COMPUTED (`ex_laws_s`), not derived from the conclusion:
    s-domain solution ⇒ formal time-domain laws -/
theorem nv_lawsTFormal_of_laws_s : LawsTFormal exTcs exX :=
  lawsTFormal_of_laws_s E1 isExp_E1 exTcs exX (Or.inl ex_delayFree) ex_finitePoles ex_rest {0, -1}
    (fun s hs _ => by
      simp only [Finset.mem_insert, Finset.mem_singleton, not_or] at hs
      exact ex_laws_s s hs.1 hs.2)

/-- `continuity` on a whole-axis solution that MOVES: source 5 for t < 0, 8 for t > 0; v_C = 8 − 3e^{−t}, i_C = (3/2)e^{−t};
    v_C(0⁺) = 5 = v_C(0⁻) -/
def qX : Ix → Signal ℚ
  | .node 1 => ⟨[(5, 0, 0)], [.ep 8 0 0 0]⟩
  | .node 2 => ⟨[(5, 0, 0)], [.ep 8 0 0 0, .ep (-3) 0 (-1) 0]⟩
  | _ => ⟨[], []⟩

theorem nv_continuity : val0plus (vpost qX 2 0) = vpre0 qX 2 0 := by
  have hz : FormalZero (subP ([.ep (3 / 2) 0 (-1) 0] : ExpPoly ℚ) (capCurrentT qX 2 0 (1 / 2) none)) := by decide +kernel
  refine continuity E1 isExp_E1 qX 2 0 (1 / 2) [.ep (3 / 2) 0 (-1) 0] (by norm_num) ?_ ?_ ∅
    (fun s _ _ => L_of_formalZero _ hz s) ?_ (by decide +kernel)
  · intro ix t ht
    match ix with
    | .node 0 => simp [qX] at ht
    | .node 1 => simp [qX] at ht; subst ht; rfl
    | .node 2 => simp [qX] at ht; rcases ht with rfl | rfl <;> rfl
    | .node (k + 3) => simp [qX] at ht
    | .br m => simp [qX] at ht
  · intro t ht; simp at ht; subst ht; rfl
  · intro t ht
    simp [vpost, subP, voltT, qX, smul, Signal.zero] at ht
    rcases ht with rfl | rfl <;> trivial
example : vpre0 qX 2 0 = 5 := by decide +kernel

/-! ### `val0plus` and non-causal `post` parts (class-e remark on `ic_start*`, `continuity*`) -/

/-- `val0plus` is the value at 0⁺ only for CAUSAL signals: a term with a negative delay is ignored -/
example : val0plus ([.ep 1 0 0 (-1)] : ExpPoly ℚ) = 0 ∧ evalAt E1 [.ep 1 0 0 (-1)] 0 = 1 := by decide +kernel

/-- a `post` part with a step that began at t = −1 (not `Causal`) -/
def ncX : Ix → Signal ℚ
  | .node 2 => ⟨[], [.ep 3 0 0 0, .ep 7 0 0 (-1)]⟩
  | _ => ⟨[], []⟩

/-- all hypotheses of `ic_start` hold, it concludes `val0plus = 3 = v0`, yet the pointwise value at t = 0 is 10:
    without `Causal (vpost …)` the conclusion is not "the voltage at 0⁺" -/
theorem ic_start_noncausal :
    val0plus (vpost ncX 2 0) = 3 ∧ evalAt E1 (vpost ncX 2 0) 0 = 10 :=
  ⟨ic_start ncX 2 0 1 (some 3) (capCurrentT ncX 2 0 1 (some 3)) one_ne_zero (by decide +kernel)
      (by intro t ht; simp [vpost, subP, voltT, ncX, smul, Signal.zero] at ht; rcases ht with rfl | rfl <;> trivial)
      (by decide +kernel),
   by decide +kernel⟩

/-! ## §2 ℝ, the real exponential -/

/-- whole-axis solution over ℝ -/
noncomputable def wX : Ix → Signal ℝ
  | .node 1 => ⟨[(5, 0, 0)], [.ep 8 0 0 0]⟩
  | .node 2 => ⟨[(5, 0, 0)], [.ep 8 0 0 0, .ep (-3) 0 (-1) 0]⟩
  | _ => ⟨[], []⟩

noncomputable def wI : ExpPoly ℝ := [.ep (3 / 2) 0 (-1) 0]

theorem w_noDelta : NoDelta (vpost wX 2 0) := by
  intro t ht
  simp [vpost, subP, voltT, wX, smul, Signal.zero] at ht
  rcases ht with rfl | rfl <;> trivial

theorem w_law (s : ℝ) (hs : NonPole (subP wI (capCurrentT wX 2 0 (1 / 2) none)) s) :
    L Real.exp (subP wI (capCurrentT wX 2 0 (1 / 2) none)) s = 0 := by
  have h1 : s - -1 ≠ 0 := hs (.ep (3 / 2) 0 (-1) 0) (by simp [subP, wI])
  have h1' : s + 1 ≠ 0 := by simpa using h1
  simp [subP, wI, capCurrentT, stateDeriv, stateOf, vpre0, vpost, voltT, wX, Signal.zero, pre0, smul, Term.smul,
    Laplace.deriv, Term.deriv, L, Term.L, pw]
  field_simp
  ring

/-- (`C02.continuity_of_inj` was dropped after the audit; its content over ℝ is `ic_start` + `L_injective_real`) -/
theorem nv_continuity_of_inj : val0plus (vpost wX 2 0) = vpre0 wX 2 0 :=
  ic_start wX 2 0 (1 / 2) none wI (by norm_num)
    (L_injective_real _ ∅ (fun s _ hs => w_law s hs)) w_noDelta (by simp [impulse0, wI, coefOf, sameKey])
example : vpre0 wX 2 0 = 5 := by simp [vpre0, voltT, wX, pre0, Signal.zero]

/-- formal zero over ℝ obtained from the transform-level law by `L_injective_real` -/
theorem w_formal : FormalZero (subP wI (capCurrentT wX 2 0 (1 / 2) none)) :=
  L_injective_real _ ∅ (fun s _ hs => w_law s hs)

theorem w_delays (t : ℝ) (ht : t ≠ 0) : ∀ y ∈ vpost wX 2 0, t ≠ y.delayOf := by
  intro y hy
  simp [vpost, subP, voltT, wX, smul, Signal.zero] at hy
  rcases hy with rfl | rfl <;> simpa [Term.delayOf] using ht

theorem nv_deriv_is_classical :
    HasDerivAt (fun τ => evalAt Real.exp (vpost wX 2 0) τ) (evalAt Real.exp (Laplace.deriv (vpost wX 2 0)) 1) 1 :=
  deriv_is_classical (vpost wX 2 0) 1 (w_delays 1 one_ne_zero)

/-- `i_C(t) = C · dv_C/dt` in the classical sense at t = 1 (and at every t ≠ 0) for the whole-axis RC solution -/
theorem nv_cap_ode_real (t : ℝ) (ht : t ≠ 0) :
    ∃ v' : ℝ, HasDerivAt (fun τ => evalAt Real.exp (vpost wX 2 0) τ) v' t ∧ evalAt Real.exp wI t = 1 / 2 * v' :=
  cap_ode_real wX 2 0 (1 / 2) none wI w_formal t (w_delays t ht)

theorem nv_cap_pointwise (t : ℝ) :
    evalAt Real.exp wI t = 1 / 2 * evalAt Real.exp (Laplace.deriv (vpost wX 2 0)) t :=
  cap_pointwise Real.exp wX 2 0 (1 / 2) none wI w_formal t

/-! delayed step over ℝ: `V1 1 0 5·u(t−1) ; R1 1 2 2 ; C1 2 0 1/2` at rest -/
noncomputable def dTcs : List (TCpt ℝ) :=
  [(.V 1 0 0 0, ⟨[], [.ep 5 0 0 1]⟩), (.R 1 2 2, ⟨[], []⟩), (.Cap 2 0 (1 / 2) none, ⟨[], []⟩)]

noncomputable def dX : Ix → Signal ℝ
  | .node 1 => ⟨[], [.ep 5 0 0 1]⟩
  | .node 2 => ⟨[], [.ep 5 0 0 1, .ep (-5) 0 (-1) 1]⟩
  | .br 0 => ⟨[], [.ep (-5 / 2) 0 (-1) 1]⟩
  | _ => ⟨[], []⟩

/-- the same response with the terms of V(2) in the other order -/
noncomputable def dY : Ix → Signal ℝ
  | .node 1 => ⟨[], [.ep 5 0 0 1]⟩
  | .node 2 => ⟨[], [.ep (-5) 0 (-1) 1, .ep 5 0 0 1]⟩
  | .br 0 => ⟨[], [.ep (-5 / 2) 0 (-1) 1]⟩
  | _ => ⟨[], []⟩

theorem d_regular (s : ℝ) (h0 : s ≠ 0) (h1 : s ≠ -1) : Regular dTcs dX s := by
  have h0' : s - 0 ≠ 0 := by simpa using h0
  have h1' : s - -1 ≠ 0 := sub_ne_zero.mpr h1
  constructor
  · intro ix t ht
    match ix with
    | .node 0 => simp [dX] at ht
    | .node 1 => simp [dX] at ht; subst ht; exact h0'
    | .node 2 => simp [dX] at ht; rcases ht with rfl | rfl; exact h0'; exact h1'
    | .node (k + 3) => simp [dX] at ht
    | .br 0 => simp [dX] at ht; subst ht; exact h1'
    | .br (m + 1) => simp [dX] at ht
  · intro c hc t ht
    simp only [dTcs, List.mem_cons, List.not_mem_nil, or_false] at hc
    rcases hc with rfl | rfl | rfl <;> simp at ht
    subst ht; exact h0'

theorem d_finitePoles : FinitePoles dTcs dX := by
  refine ⟨{0, -1}, fun s hs => ?_⟩
  simp only [Finset.mem_insert, Finset.mem_singleton, not_or] at hs
  exact d_regular s hs.1 hs.2

theorem d_lawsT : LawsT Real.exp dTcs dX := by
  intro s hs
  have h0 : s ≠ 0 := by simpa using hs.1 (.node 1) (.ep 5 0 0 1) (by simp [dX])
  have h1 : s + 1 ≠ 0 := by simpa using hs.1 (.br 0) (.ep (-5 / 2) 0 (-1) 1) (by simp [dX])
  constructor
  · intro k hk
    match k, hk with
    | 0, h => exact absurd rfl h
    | 1, _ =>
      simp [kclT, dTcs, outflowT, twoTermT, subP, smul, Term.smul, vpost, voltT, dX, L, Term.L, pw]
      field_simp; ring
    | 2, _ =>
      simp [kclT, dTcs, outflowT, twoTermT, capCurrentT, stateDeriv, stateOf, vpre0, pre0, subP, smul, Term.smul, vpost, voltT, dX,
        Signal.zero, Laplace.deriv, Term.deriv, L, Term.L, pw]
      field_simp; ring
    | (k + 3), _ => simp [kclT, dTcs, outflowT, twoTermT, subP, smul]
  · intro c hc p hp
    simp only [dTcs, List.mem_cons, List.not_mem_nil, or_false] at hc
    rcases hc with rfl | rfl | rfl <;> simp [lawsT] at hp
    subst hp
    simp [subP, smul, Term.smul, vpost, voltT, dX, Signal.zero, L, Term.L, pw]
    ring

theorem d_rest : RestWhereUnspecified dTcs dX := by
  intro c hc
  simp only [dTcs, List.mem_cons, List.not_mem_nil, or_false] at hc
  rcases hc with rfl | rfl | rfl <;> simp [vpre0, voltT, dX, pre0, Signal.zero]

/-- `lawsT_iff_formal_real`: the DELAYED response obeys the laws formally (over ℝ, real exponential) -/
theorem nv_lawsT_iff_formal_real : LawsTFormal dTcs dX := (lawsT_iff_formal_real dTcs dX d_finitePoles).mp d_lawsT
theorem dY_regular (s : ℝ) (h0 : s ≠ 0) (h1 : s ≠ -1) : Regular dTcs dY s := by
  have h0' : s - 0 ≠ 0 := by simpa using h0
  have h1' : s - -1 ≠ 0 := sub_ne_zero.mpr h1
  constructor
  · intro ix t ht
    match ix with
    | .node 0 => simp [dY] at ht
    | .node 1 => simp [dY] at ht; subst ht; exact h0'
    | .node 2 => simp [dY] at ht; rcases ht with rfl | rfl; exact h1'; exact h0'
    | .node (k + 3) => simp [dY] at ht
    | .br 0 => simp [dY] at ht; subst ht; exact h1'
    | .br (m + 1) => simp [dY] at ht
  · intro c hc t ht
    simp only [dTcs, List.mem_cons, List.not_mem_nil, or_false] at hc
    rcases hc with rfl | rfl | rfl <;> simp at ht
    subst ht; exact h0'

theorem dY_finitePoles : FinitePoles dTcs dY := by
  refine ⟨{0, -1}, fun s hs => ?_⟩
  simp only [Finset.mem_insert, Finset.mem_singleton, not_or] at hs
  exact dY_regular s hs.1 hs.2

theorem dY_lawsT : LawsT Real.exp dTcs dY := by
  intro s hs
  have h0 : s ≠ 0 := by simpa using hs.1 (.node 1) (.ep 5 0 0 1) (by simp [dY])
  have h1 : s + 1 ≠ 0 := by simpa using hs.1 (.br 0) (.ep (-5 / 2) 0 (-1) 1) (by simp [dY])
  constructor
  · intro k hk
    match k, hk with
    | 0, h => exact absurd rfl h
    | 1, _ =>
      simp [kclT, dTcs, outflowT, twoTermT, subP, smul, Term.smul, vpost, voltT, dY, L, Term.L, pw]
      field_simp; ring
    | 2, _ =>
      simp [kclT, dTcs, outflowT, twoTermT, capCurrentT, stateDeriv, stateOf, vpre0, pre0, subP, smul, Term.smul, vpost, voltT, dY,
        Signal.zero, Laplace.deriv, Term.deriv, L, Term.L, pw]
      field_simp; ring
    | (k + 3), _ => simp [kclT, dTcs, outflowT, twoTermT, subP, smul]
  · intro c hc p hp
    simp only [dTcs, List.mem_cons, List.not_mem_nil, or_false] at hc
    rcases hc with rfl | rfl | rfl <;> simp [lawsT] at hp
    subst hp
    simp [subP, smul, Term.smul, vpost, voltT, dY, Signal.zero, L, Term.L, pw]
    ring

theorem dY_rest : RestWhereUnspecified dTcs dY := by
  intro c hc
  simp only [dTcs, List.mem_cons, List.not_mem_nil, or_false] at hc
  rcases hc with rfl | rfl | rfl <;> simp [vpre0, voltT, dY, pre0, Signal.zero]


abbrev dU : Ix → Prop := fun i => i = .node 1 ∨ i = .node 2 ∨ i = .br 0

theorem d_nonsingularOn (s : ℝ) (hs : s ≠ -1) :
    C01.NonsingularOn dU .ivp s (dTcs.map (atS Real.exp s)) := by
  intro z hz i hi
  have h1 := hz (.node 1) (by simp)
  have h2 := hz (.node 2) (by simp)
  have h3 := hz (.br 0) (by simp)
  simp [dTcs, atS, stampAll, stamp, Stamp.append, admPattern, branchPattern, lhsSum, ground, capY] at h1 h2 h3
  have hs' : s + 1 ≠ 0 := fun h => hs (by linarith)
  have e2 : z (.node 2) = 0 := by
    have : (s + 1) * z (.node 2) = 0 := by rw [h3] at h2; linear_combination 2 * h2
    exact (mul_eq_zero.mp this).resolve_left hs'
  have e0 : z (.br 0) = 0 := by rw [h3, e2] at h1; simpa using h1
  rcases hi with rfl | rfl | rfl <;> assumption

theorem d_wf (s : ℝ) : C01.WF (dTcs.map (atS Real.exp s)) := by
  simp [C01.WF, dTcs, atS, owned]

/-- `response_unique_real` on two syntactically different DELAYED responses -/
theorem nv_response_unique_real : ∀ i, dU i → FormalZero (subP (dX i).post (dY i).post) :=
  response_unique_real dTcs dX dY d_finitePoles dY_finitePoles d_rest dY_rest d_lawsT dY_lawsT dU {-1}
    (fun s _ => d_wf s) (fun s hs => d_nonsingularOn s (by simpa using hs))

theorem nv_L_injective_real : FormalZero (subP (dX (.node 2)).post (dY (.node 2)).post) :=
  L_injective_real _ ∅ (fun s _ _ => by
    simp [subP, smul, Term.smul, dX, dY, L, Term.L, pw]; ring)

/-- `L_injective_delay` with the only known instance of `DelayIndep` -/
example : FormalZero (subP (dX (.node 2)).post (dY (.node 2)).post) :=
  L_injective_delay Real.exp isExp_real delayIndep_real _ ∅ (fun s _ _ => by
    simp [subP, smul, Term.smul, dX, dY, L, Term.L, pw]; ring)

theorem nv_delaysOK_real : DelaysOK Real.exp dTcs dX := delaysOK_real dTcs dX

end Lcapy.NonVacuity.C02
