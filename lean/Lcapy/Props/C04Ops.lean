/-
  PROPERTY C04, clauses
   * "driving-point impedance, admittance and transfer functions are those of the network with independent sources
     killed and initial conditions set to zero" (`kills_ics`): every experiment of Model/PortOps.lean runs on
     `killAll cs`, in which EVERY independent quantity is zero (`killAll_indep_zero`), so that the initial-value
     analysis of that circuit IS the zero-state Laplace analysis (`killed_ivp_is_lap`); whereas the open-circuit
     voltage / short-circuit current of the ORIGINAL circuit are the sum of the response to the sources alone and the
     response to the initial conditions alone (`voc_keeps_ics`): initial conditions are sources of the ivp kind
     (`ic_is_a_source`).
   * two-port extraction from a netlist (`Zparams`, `Yparamsn`, `Yparams` = `Zparams.Yparams`, …): the matrices read off
     the probe experiments satisfy the C08 port relations for the killed netlist under ARBITRARY port excitation
     (`zparams_rel`, `zparams_rel_unique`, `yparams_rel`, `zparams_convert`).
-/
import Lcapy.Props.C04
import Lcapy.Proofs.PortOps
import Lcapy.Proofs.TwoPortBase
import Lcapy.Model.PortOps
namespace Lcapy.C04
open Lcapy.MNA Ix
variable {K : Type} [Field K]
set_option linter.unusedSimpArgs false
set_option linter.unusedSectionVars false

/-! ### kills_ics -/

/-- **killAll_indep_zero** (`kills_ics`): after `kill()` every independent source value and every initial
    condition — capacitor voltages, inductor currents, the initial currents of coupled inductors, the `C·v0` seen by a
    CCVS controlled by a capacitor — is zero. -/
theorem killAll_indep_zero (cs : List (Cpt K)) : ∀ c ∈ killAll cs, ∀ v ∈ c.indep, v = 0 := by
  intro c hc v hv
  obtain ⟨c0, _, rfl⟩ := List.mem_map.mp hc
  cases c0 with
  | Cap n1 n2 c v0 => cases v0 <;> simp [Cpt.mapSrc, Cpt.indep] at hv; exact hv
  | Ind n1 n2 m l i0 coup =>
    simp only [Cpt.mapSrc, Cpt.indep, List.mem_append] at hv
    rcases hv with hv | hv
    · cases i0 <;> simp at hv; exact hv
    · exact coupMap_zero_indep coup v hv
  | _ => simp_all [Cpt.mapSrc, Cpt.indep]

/-- **killed_ivp_is_lap**: for a circuit whose independent quantities are all zero except possibly its V and I
    sources (the test sources), the initial-value-problem laws are the zero-state Laplace laws: "initial conditions
    set to zero". -/
theorem killed_ivp_is_lap (s : K) (cs : List (Cpt K)) (x : Ix → K)
    (h : ∀ c ∈ cs, (∀ v ∈ c.killSrcs.indep, v = 0)) :
    Laws .ivp s cs x ↔ Laws .lap s cs x := by
  have ho : ∀ c ∈ cs, ∀ k, outflow .ivp s x k c = outflow .lap s x k c := by
    intro c hc k
    have hz := h c hc
    cases c with
    | Cap n1 n2 c v0 =>
      cases v0 with
      | none => simp [outflow, capCurrent]
      | some v0 =>
        have : v0 = 0 := hz v0 (by simp [Cpt.killSrcs, Cpt.indep])
        simp [outflow, capCurrent, this]
    | _ => simp [outflow]
  have hl : ∀ c ∈ cs, laws .ivp s x c = laws .lap s x c := by
    intro c hc
    have hz := h c hc
    cases c with
    | Ind n1 n2 m l i0 coup =>
      have hm : mutualIC coup = 0 := mutualIC_zero coup (fun v hv => hz v (by
        simp only [Cpt.killSrcs, Cpt.indep, List.mem_append]; exact Or.inr hv))
      cases i0 with
      | none => simp [laws, hm]
      | some i0 =>
        have : i0 = 0 := hz i0 (by simp [Cpt.killSrcs, Cpt.indep])
        simp [laws, hm, this]
    | _ => simp [laws]
  constructor <;> rintro ⟨hk, hlw⟩ <;> refine ⟨fun k hk0 => ?_, fun c hc p hp => ?_⟩
  · rw [← hk k hk0]; congr 1; apply List.map_congr_left; intro c hc; exact (ho c hc k).symm
  · rw [← hl c hc] at hp; exact hlw c hc p hp
  · rw [← hk k hk0]; congr 1; apply List.map_congr_left; intro c hc; exact ho c hc k
  · rw [hl c hc] at hp; exact hlw c hc p hp

/-- the hypothesis of `killed_ivp_is_lap` holds for every probed circuit: killed netlist + V/I test sources -/
theorem probed_killed_ok (cs probe : List (Cpt K))
    (hp : ∀ c ∈ probe, (∃ n1 n2 m v, c = .V n1 n2 m v) ∨ (∃ n1 n2 i, c = .I n1 n2 i)) :
    ∀ c ∈ killAll cs ++ probe, (∀ v ∈ c.killSrcs.indep, v = 0) := by
  intro c hc v hv
  rcases List.mem_append.mp hc with h | h
  · have hz := killAll_indep_zero cs c h
    have hsub : v ∈ c.indep ∨ v = 0 := by
      cases c <;> simp_all [Cpt.killSrcs, Cpt.indep]
    rcases hsub with h' | h'
    · exact hz v h'
    · exact h'
  · rcases hp c h with ⟨n1, n2, m, v', rfl⟩ | ⟨n1, n2, i, rfl⟩ <;> simp_all [Cpt.killSrcs, Cpt.indep]

/-- so the impedance measured in the initial-value analysis is the zero-state one, whatever ICs the netlist had -/
theorem impedance_ignores_ics (s : K) (cs : List (Cpt K)) (p m : Nat) (x : Ix → K) :
    Laws .ivp s (impedanceExp cs p m).ckt x ↔ Laws .lap s (impedanceExp cs p m).ckt x :=
  killed_ivp_is_lap s _ x (probed_killed_ok cs _ (by simp))

/-! ### the experiments are the ones the source text of netlistopsmixin.py prescribes -/

/-- **experiments_from_source**: each experiment of Model/PortOps.lean on which the theorems of C04 are stated is the
    experiment built from the table GENERATED from the current source text of lcapy/netlistopsmixin.py (which nodes are
    validated, how the probed copy is made, what is measured between which nodes, with which sign). -/
theorem experiments_from_source (cs : List (Cpt K)) (p1 m1 p2 m2 b bs : Nat) :
    expFromSource "impedance" cs p1 m1 p1 m1 b bs = some (impedanceExp cs p1 m1) ∧
    expFromSource "admittance" cs p1 m1 p1 m1 b bs = some (admittanceExp cs p1 m1 b) ∧
    expFromSource "transfer" cs p1 m1 p2 m2 b bs = some (transferExp cs p1 m1 p2 m2 b) ∧
    expFromSource "voltage_gain" cs p1 m1 p2 m2 b bs = some (transferExp cs p1 m1 p2 m2 b) ∧
    expFromSource "transimpedance" cs p1 m1 p2 m2 b bs = some (transimpedanceExp cs p1 m1 p2 m2) ∧
    expFromSource "current_gain" cs p1 m1 p2 m2 b bs = some (currentGainExp cs p1 m1 p2 m2 bs) ∧
    expFromSource "transadmittance" cs p1 m1 p2 m2 b bs = some (transadmittanceExp cs p1 m1 p2 m2 b bs) := by
  refine ⟨?_, ?_, ?_, ?_, ?_, ?_, ?_⟩ <;> rfl

/-- **helpers_from_source**: and the helpers those rows name do what `zProbe` / `vProbe` model: `kill()` with no argument
    kills the initial conditions too, the reference is put at the negative node only when the netlist has no node 0,
    the test source is a unit impulse on (Np, Nm), only the voltage probe removes voltage sources across the pair. -/
theorem helpers_from_source :
    Gen.PortOps.helpers = expectedHelpers ∧ Gen.PortOps.testSources = expectedTestSources ∧
    Gen.PortOps.killNoArgsKillsICs = true ∧ Gen.PortOps.killICBranch = true ∧
    Gen.PortOps.addGround = "W node 0 unless 0 exists" := by
  refine ⟨?_, ?_, ?_, ?_, ?_⟩ <;> rfl

/-! ### … while Voc / Isc of the original circuit keep the initial conditions -/

/-- **voc_keeps_ics**: the response of the ORIGINAL circuit (the one `Voc`, `Isc`, `thevenin`, `norton` solve) is the
    response to the independent sources with the initial conditions zeroed PLUS the response to the initial
    conditions with the sources killed; in particular Voc = Voc(sources) + Voc(ICs).  Any netlist, any kind. -/
theorem voc_keeps_ics (kind : Kind) (s : K) (cs : List (Cpt K)) (xs xi : Ix → K) (p m : Nat)
    (hs : Solves kind s (cs.map Cpt.killICs) xs) (hi : Solves kind s (cs.map Cpt.killSrcs) xi) :
    Solves kind s cs (fun i => xs i + xi i) ∧
      vd (fun i => xs i + xi i) p m = vd xs p m + vd xi p m := by
  have hsh := forall2_killICs_killSrcs cs
  have hz := zip_killICs_killSrcs cs
  have := C03.superposition kind s _ _ xs xi hsh hs hi
  rw [hz] at this
  refine ⟨this, ?_⟩
  cases p <;> cases m <;> simp [vd, volt] <;> ring

/-- **ic_is_a_source**: an initial condition alone drives the port — a capacitor charged to v0 presents
    Voc = v0/s in the initial-value analysis (it is zero in the killed circuit by `killed_ivp_is_lap`). -/
theorem ic_is_a_source (s c v0 : K) (hs : s ≠ 0) (hc : c ≠ 0) (x : Ix → K)
    (h : Laws .ivp s [.Cap 1 0 c (some v0)] x) : vd x 1 0 = v0 / s := by
  have k1 := h.1 1 (by decide)
  simp [outflow, twoTerm, lsum, capCurrent] at k1
  rw [eq_div_iff hs]
  have h0 : c * (vd x 1 0 * s - v0) = 0 := by linear_combination k1
  rcases mul_eq_zero.mp h0 with h' | h'
  · exact absurd h' hc
  · linear_combination h'

/-! ### two-port extraction -/

/-- the response of the killed netlist to two port currents is the combination of the two unit responses -/
theorem zDrive_linear (kind : Kind) (s : K) (cs : List (Cpt K)) (p1 m1 p2 m2 : Nat) (x1 x2 : Ix → K) (i1 i2 : K)
    (h1 : Solves kind s (zDrive cs p1 m1 p2 m2 1 0) x1) (h2 : Solves kind s (zDrive cs p1 m1 p2 m2 0 1) x2) :
    Solves kind s (zDrive cs p1 m1 p2 m2 i1 i2) (fun i => i1 * x1 i + i2 * x2 i) := by
  have s1 := C03.scaling kind s i1 _ x1 h1
  have s2 := C03.scaling kind s i2 _ x2 h2
  have hsup := C03.superposition kind s _ _ _ _ ?_ s1 s2
  · have e : List.zipWith Cpt.addSrc ((zDrive cs p1 m1 p2 m2 1 0).map (Cpt.mapSrc (fun v => i1 * v)))
        ((zDrive cs p1 m1 p2 m2 0 1).map (Cpt.mapSrc (fun v => i2 * v))) = zDrive cs p1 m1 p2 m2 i1 i2 := by
      simp only [zDrive, List.map_append, killAll_scale]
      rw [List.zipWith_append (by simp), zip_killed_killed]
      simp [Cpt.mapSrc, Cpt.addSrc]
    rw [e] at hsup
    exact hsup
  · simp only [zDrive, List.map_append, killAll_scale]
    apply List.rel_append (forall2_refl _)
    exact List.Forall₂.cons (by unfold SameShape; simp [Cpt.mapSrc])
      (List.Forall₂.cons (by unfold SameShape; simp [Cpt.mapSrc]) List.Forall₂.nil)

/-- the matrix `Zparams` reads off the two experiments: column k = port voltages with 1 A into port k -/
def zMatrix (x1 x2 : Ix → K) (p1 m1 p2 m2 : Nat) : M2 K :=
  ⟨vd x1 p1 m1, vd x2 p1 m1, vd x1 p2 m2, vd x2 p2 m2⟩

/-- **zparams_rel**: for every netlist and every pair of ports, with Z the matrix extracted by the two
    open-circuit experiments of `Zparams`, for ARBITRARY port currents i1, i2 the killed netlist has a solution
    whose port quantities satisfy the C08 relation of the Z representation: (V1, V2) = Z·(I1, I2). -/
theorem zparams_rel (kind : Kind) (s : K) (cs : List (Cpt K)) (p1 m1 p2 m2 : Nat) (x1 x2 : Ix → K) (i1 i2 : K)
    (h1 : Solves kind s (zDrive cs p1 m1 p2 m2 1 0) x1) (h2 : Solves kind s (zDrive cs p1 m1 p2 m2 0 1) x2) :
    ∃ x, Solves kind s (zDrive cs p1 m1 p2 m2 i1 i2) x ∧
      Spec.rel .Z (zMatrix x1 x2 p1 m1 p2 m2) 0 ⟨vd x p1 m1, i1, vd x p2 m2, i2⟩ := by
  refine ⟨_, zDrive_linear kind s cs p1 m1 p2 m2 x1 x2 i1 i2 h1 h2, ?_⟩
  simp only [Spec.rel, Spec.lin, zMatrix, vd_linear]
  constructor <;> ring

/-- **zparams_rel_unique**: and when the driven circuit is non-singular, THE solution satisfies it. -/
theorem zparams_rel_unique (kind : Kind) (s : K) (cs : List (Cpt K)) (p1 m1 p2 m2 : Nat) (x1 x2 z : Ix → K) (i1 i2 : K)
    (h1 : Solves kind s (zDrive cs p1 m1 p2 m2 1 0) x1) (h2 : Solves kind s (zDrive cs p1 m1 p2 m2 0 1) x2)
    (hz : Solves kind s (zDrive cs p1 m1 p2 m2 i1 i2) z)
    (hns : C01.Nonsingular kind s (zDrive cs p1 m1 p2 m2 i1 i2)) :
    Spec.rel .Z (zMatrix x1 x2 p1 m1 p2 m2) 0 ⟨vd z p1 m1, i1, vd z p2 m2, i2⟩ := by
  have hu := C01.mna_unique kind s _ z _ hns hz (zDrive_linear kind s cs p1 m1 p2 m2 x1 x2 i1 i2 h1 h2)
  -- the drive sources' own stamps mention the four port nodes, so they are unknowns of the driven netlist
  have hU : ∀ k, (k = p1 ∨ k = m1 ∨ k = p2 ∨ k = m2) → k ≠ 0 →
      C01.Unknown kind s (zDrive cs p1 m1 p2 m2 i1 i2) (.node k) := by
    intro k hk hk0
    refine ⟨by simpa using hk0, ?_⟩
    rcases hk with rfl | rfl | rfl | rfl
    · apply C01.mem_unknowns_stampAll kind s _ (.I k m1 i1) (by simp [zDrive]); simp [C01.unknowns, stamp]
    · apply C01.mem_unknowns_stampAll kind s _ (.I p1 k i1) (by simp [zDrive]); simp [C01.unknowns, stamp]
    · apply C01.mem_unknowns_stampAll kind s _ (.I k m2 i2) (by simp [zDrive]); simp [C01.unknowns, stamp]
    · apply C01.mem_unknowns_stampAll kind s _ (.I p2 k i2) (by simp [zDrive]); simp [C01.unknowns, stamp]
  have hvk : ∀ k, (k = p1 ∨ k = m1 ∨ k = p2 ∨ k = m2) →
      volt z k = volt (fun i => i1 * x1 i + i2 * x2 i) k := by
    intro k hk
    cases k with
    | zero => rfl
    | succ n => simp only [volt]; exact hu _ (hU _ hk (by simp))
  have hv1 : vd z p1 m1 = vd (fun i => i1 * x1 i + i2 * x2 i) p1 m1 := by
    simp only [vd, hvk p1 (Or.inl rfl), hvk m1 (Or.inr (Or.inl rfl))]
  have hv2 : vd z p2 m2 = vd (fun i => i1 * x1 i + i2 * x2 i) p2 m2 := by
    simp only [vd, hvk p2 (Or.inr (Or.inr (Or.inl rfl))), hvk m2 (Or.inr (Or.inr (Or.inr rfl)))]
  simp only [Spec.rel, Spec.lin, zMatrix, hv1, hv2, vd_linear]
  constructor <;> ring

/-- **zparams_convert**: `Yparams`, `Hparams`-via-Z, `Aparams`-via-Z, `Bparams`-via-Z of a netlist are the code's own
    conversions (GENERATED from twoport.py; the same statements are part of C08, re-proved here so that this file depends
    only on the four conversions it talks about) of the extracted Z; each satisfies ITS port relation for the same port
    quantities, under the pivot condition of the conversion. -/
theorem zparams_convert (Z : M2 K) (p : Spec.Port K) (h : Spec.rel .Z Z 0 p) :
    (Z.det ≠ 0 → Spec.rel .Y (Gen.Z_to_Y Z 0) 0 p) ∧
    (Z.a22 ≠ 0 → Spec.rel .H (Gen.Z_to_H Z 0) 0 p) ∧
    (Z.a21 ≠ 0 → Spec.rel .A (Gen.Z_to_A Z 0) 0 p) ∧
    (Z.a12 ≠ 0 → Spec.rel .B (Gen.Z_to_B Z 0) 0 p) := by
  obtain ⟨V1, I1, V2, I2⟩ := p
  refine ⟨fun hd => ?_, fun hd => ?_, fun hd => ?_, fun hd => ?_⟩
  · obtain ⟨d, hdd⟩ : ∃ d, d = Z.det := ⟨_, rfl⟩
    rw [← hdd] at hd
    simp only [Spec.rel, Spec.lin, Gen.Z_to_Y, ← hdd] at h ⊢
    simp only [M2.det] at hdd
    obtain ⟨rfl, rfl⟩ := h
    constructor <;> (field_simp; rw [hdd]; ring)
  · simp only [Spec.rel, Spec.lin, Gen.Z_to_H, M2.det] at h ⊢
    obtain ⟨rfl, rfl⟩ := h
    constructor <;> (field_simp; ring)
  · simp only [Spec.rel, Spec.lin, Gen.Z_to_A, M2.det] at h ⊢
    obtain ⟨rfl, rfl⟩ := h
    constructor <;> (field_simp; ring)
  · simp only [Spec.rel, Spec.lin, Gen.Z_to_B, M2.det] at h ⊢
    obtain ⟨rfl, rfl⟩ := h
    constructor <;> (field_simp; ring)

/-- short-circuit extraction (`Yparamsn`): unit voltage at one port, 0 V at the other; the port currents are the
    currents DELIVERED by the test sources -/
def yMatrix (x1 x2 : Ix → K) (b1 b2 : Nat) : M2 K :=
  ⟨-(x1 (br b1)), -(x2 (br b1)), -(x1 (br b2)), -(x2 (br b2))⟩

theorem yDrive_linear (kind : Kind) (s : K) (cs : List (Cpt K)) (p1 m1 p2 m2 b1 b2 : Nat) (x1 x2 : Ix → K) (v1 v2 : K)
    (h1 : Solves kind s (yDrive cs p1 m1 p2 m2 b1 b2 1 0) x1)
    (h2 : Solves kind s (yDrive cs p1 m1 p2 m2 b1 b2 0 1) x2) :
    Solves kind s (yDrive cs p1 m1 p2 m2 b1 b2 v1 v2) (fun i => v1 * x1 i + v2 * x2 i) := by
  have s1 := C03.scaling kind s v1 _ x1 h1
  have s2 := C03.scaling kind s v2 _ x2 h2
  have hsup := C03.superposition kind s _ _ _ _ ?_ s1 s2
  · have e : List.zipWith Cpt.addSrc ((yDrive cs p1 m1 p2 m2 b1 b2 1 0).map (Cpt.mapSrc (fun v => v1 * v)))
        ((yDrive cs p1 m1 p2 m2 b1 b2 0 1).map (Cpt.mapSrc (fun v => v2 * v))) =
          yDrive cs p1 m1 p2 m2 b1 b2 v1 v2 := by
      simp only [yDrive, List.map_append, killAll_scale]
      rw [List.zipWith_append (by simp), zip_killed_killed]
      simp [Cpt.mapSrc, Cpt.addSrc]
    rw [e] at hsup
    exact hsup
  · simp only [yDrive, List.map_append, killAll_scale]
    apply List.rel_append (forall2_refl _)
    exact List.Forall₂.cons (by unfold SameShape; simp [Cpt.mapSrc])
      (List.Forall₂.cons (by unfold SameShape; simp [Cpt.mapSrc]) List.Forall₂.nil)

/-- **yparams_rel**: the short-circuit matrix satisfies the C08 relation of the Y representation,
    (I1, I2) = Y·(V1, V2), for arbitrary imposed port voltages. -/
theorem yparams_rel (kind : Kind) (s : K) (cs : List (Cpt K)) (p1 m1 p2 m2 b1 b2 : Nat) (x1 x2 : Ix → K) (v1 v2 : K)
    (h1 : Solves kind s (yDrive cs p1 m1 p2 m2 b1 b2 1 0) x1)
    (h2 : Solves kind s (yDrive cs p1 m1 p2 m2 b1 b2 0 1) x2) :
    ∃ x, Solves kind s (yDrive cs p1 m1 p2 m2 b1 b2 v1 v2) x ∧
      Spec.rel .Y (yMatrix x1 x2 b1 b2) 0 ⟨v1, -(x (br b1)), v2, -(x (br b2))⟩ := by
  refine ⟨_, yDrive_linear kind s cs p1 m1 p2 m2 b1 b2 x1 x2 v1 v2 h1 h2, ?_⟩
  simp only [Spec.rel, Spec.lin, yMatrix]
  constructor <;> ring

/-- the imposed voltages ARE the port voltages of that solution (when the test sources own their branches) -/
theorem yDrive_port_voltages (kind : Kind) (s : K) (cs : List (Cpt K)) (p1 m1 p2 m2 b1 b2 : Nat) (x : Ix → K) (v1 v2 : K)
    (h : Laws kind s (yDrive cs p1 m1 p2 m2 b1 b2 v1 v2) x) : vd x p1 m1 = v1 ∧ vd x p2 m2 = v2 := by
  have l1 := h.2 (.V p1 m1 b1 v1) (by simp [yDrive]) (b1, vd x p1 m1 - v1) (by simp [laws])
  have l2 := h.2 (.V p2 m2 b2 v2) (by simp [yDrive]) (b2, vd x p2 m2 - v2) (by simp [laws])
  exact ⟨sub_eq_zero.mp l1, sub_eq_zero.mp l2⟩

/-! ### non-vacuity: the T network `R1 1 3 1; R2 3 2 2; R3 3 0 3` between ports (1,0) and (2,0) -/

def exT : List (Cpt ℚ) := [.R 1 3 1, .R 3 2 2, .R 3 0 3]

/-- 1 A into port 1: V(1) = 4, V(3) = V(2) = 3 -/
def exTx1 : Ix → ℚ := fun i => match i with | node 1 => 4 | node 2 => 3 | node 3 => 3 | _ => 0
/-- 1 A into port 2: V(2) = 5, V(3) = V(1) = 3 -/
def exTx2 : Ix → ℚ := fun i => match i with | node 1 => 3 | node 2 => 5 | node 3 => 3 | _ => 0

example : zMatrix exTx1 exTx2 1 0 2 0 = ⟨4, 3, 3, 5⟩ := by
  simp [zMatrix, vd, volt, exTx1, exTx2]

example : Solves .dc 0 (zDrive exT 1 0 2 0 1 0) exTx1 := by
  rw [C01.mna_iff_laws _ _ _ _ (by simp [C01.WF, zDrive, killAll, exT, owned, Cpt.mapSrc])]
  constructor
  · intro k hk
    match k with
    | 0 => exact absurd rfl hk
    | 1 => norm_num [zDrive, killAll, exT, Cpt.mapSrc, exTx1, outflow, twoTerm, lsum, vd, volt]
    | 2 => norm_num [zDrive, killAll, exT, Cpt.mapSrc, exTx1, outflow, twoTerm, lsum, vd, volt]
    | 3 => norm_num [zDrive, killAll, exT, Cpt.mapSrc, exTx1, outflow, twoTerm, lsum, vd, volt]
    | (k + 4) => simp [zDrive, killAll, exT, Cpt.mapSrc, outflow, twoTerm, lsum]
  · intro c hc p hp
    simp [zDrive, killAll, exT, Cpt.mapSrc] at hc
    rcases hc with rfl | rfl | rfl | rfl | rfl <;> simp [laws] at hp

/-- non-vacuity of `zparams_rel_unique`: the driven T network is non-singular (its unknowns are V(1), V(2), V(3)) -/
example (i1 i2 : ℚ) : C01.Nonsingular .dc 0 (zDrive exT 1 0 2 0 i1 i2) := by
  intro z hz i hi
  have h1 := hz (node 1) (by simp)
  have h2 := hz (node 2) (by simp)
  have h3 := hz (node 3) (by simp)
  simp [zDrive, killAll, exT, Cpt.mapSrc, stampAll, stamp, Stamp.append, admPattern, lhsSum, ground] at h1 h2 h3
  obtain ⟨hi0, hi⟩ := hi
  simp [C01.unknowns, zDrive, killAll, exT, Cpt.mapSrc, stampAll, stamp, Stamp.append, admPattern] at hi
  have e3 : z (node 3) = 0 := by linarith
  have e1 : z (node 1) = 0 := by rw [e3] at h1; linarith
  have e2 : z (node 2) = 0 := by rw [e3] at h2; linarith
  rcases hi with h | h | h | h | h | h | h | h | h | h | h | h | h | h | h <;> subst h <;>
    first | assumption | exact absurd rfl hi0

/-- non-vacuity of `yparams_rel`: 1 V at port 1, 0 V at port 2 of the T network: V(3) = 6/11, the sources deliver
    5/11 A and −3/11 A (the first column of Y) -/
def exTy1 : Ix → ℚ := fun i => match i with | node 1 => 1 | node 2 => 0 | node 3 => 6/11 | br 0 => -5/11 | br 1 => 3/11 | _ => 0

example : Solves .dc 0 (yDrive exT 1 0 2 0 0 1 1 0) exTy1 := by
  rw [C01.mna_iff_laws _ _ _ _ (by simp [C01.WF, yDrive, killAll, exT, owned, Cpt.mapSrc])]
  constructor
  · intro k hk
    match k with
    | 0 => exact absurd rfl hk
    | 1 => norm_num [yDrive, killAll, exT, Cpt.mapSrc, exTy1, outflow, twoTerm, lsum, vd, volt]
    | 2 => norm_num [yDrive, killAll, exT, Cpt.mapSrc, exTy1, outflow, twoTerm, lsum, vd, volt]
    | 3 => norm_num [yDrive, killAll, exT, Cpt.mapSrc, exTy1, outflow, twoTerm, lsum, vd, volt]
    | (k + 4) => simp [yDrive, killAll, exT, Cpt.mapSrc, outflow, twoTerm, lsum]
  · intro c hc p hp
    simp [yDrive, killAll, exT, Cpt.mapSrc] at hc
    rcases hc with rfl | rfl | rfl | rfl | rfl <;> simp [laws] at hp <;> (try subst hp) <;> norm_num [vd, volt, exTy1]

end Lcapy.C04
