/-
  C12 -- the parametrised `trap(t, alpha)` branch of `FourierTransformer.term` (its own file: the obligations depend on one
  generated value only, so a change of that branch breaks exactly this module).

  FULL STATEMENT (does not hold for the code as it is -- finding C12-F12h, status known, not repaired because the repair
  contradicts an existing unit test of lcapy):

      theorem trap_entry_is_pair : Gen.trapAlphaPow = some 0

  i.e. the branch returns `sincn(f)·sincn(αf)`, the spectrum of the trapezoid as lcapy evaluates it (height 1, unit area,
  `trap(t,0) = rect`, `trap(t,1) = tri`; value 1 at f = 0).  The code returns `α·sincn(f)·sincn(αf)`.
-/
import Lcapy.Props.C12
namespace Lcapy.C12
open Lcapy.Fourier

/-- what the code does: the exponent of `α` in the trap branch is 1 (the finding) -- or 0 once repaired -/
theorem trap_entry_is_pair_partial : Gen.trapAlphaPow = some 1 ∨ Gen.trapAlphaPow = some 0 := by decide

/-- consequently the code's transform of `c·e^{j2πθt}·trap(at+b, α)` is `α` times the spec transform, or the spec transform:
    the gap between code and property is exactly the constant factor `α` (never the shape, delay, scaling or modulation) -/
theorem model_trap_is_alpha_times_spec (pi : Rat) (t : Term) (al : Rat) (ha : t.a ≠ 0) (hk : t.k = .trap al) :
    Model.modelTerm pi false 0 t = some ((ftTerm pi t).map (smulT (CQ.ofRat al))) ∨
    Model.modelTerm pi false 0 t = some ((ftTerm pi t).map (smulT (CQ.ofRat 1))) := by
  rcases trap_entry_is_pair_partial with h | h
  · left
    have := model_trap_refines pi t al 1 ha hk h
    simpa [zpow] using this
  · right
    have := model_trap_refines pi t al 0 ha hk h
    simpa [zpow] using this

example : (⟨1, 0, 2, .trap (1 / 2), 2, -1⟩ : Term).a ≠ 0 := by decide

end Lcapy.C12
