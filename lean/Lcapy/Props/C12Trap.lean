/-
  C12 -- the parametrised `trap(t, alpha)` branch of `FourierTransformer.term` (kept in its own file: the obligation depends on
  one generated value only, so a wrong branch breaks exactly this module).
-/
import Lcapy.Props.C12
namespace Lcapy.C12
open Lcapy.Fourier

/-- the `trap(t, α)` branch returns `α^p·sincn(f)·sincn(αf)` with `p = 0`: the trapezoid as lcapy evaluates it (height 1, unit area,
    `trap(t,0) = rect`, `trap(t,1) = tri`) has the spectrum `sinc(f)·sinc(αf)` (1 at f = 0).  Finding C12-F12h: the code had `p = 1`. -/
theorem trap_entry_is_pair : Gen.trapAlphaPow = some 0 := by decide

/-- hence the model of the code computes the spec transform of every scaled / shifted / modulated trapezoid -/
theorem model_trap_is_spec (pi : Rat) (t : Term) (al : Rat) (ha : t.a ≠ 0) (hk : t.k = .trap al) :
    Model.modelTerm pi false 0 t = some (ftTerm pi t) := model_trap_refines pi t al ha hk trap_entry_is_pair

example : (⟨1, 0, 2, .trap (1 / 2), 2, -1⟩ : Term).a ≠ 0 := by decide

end Lcapy.C12
