/-
  PROPERTY C07, round 3 -- `ParSer.simplify()` never changes the relation of a one-port, hence none
  of Z, Y, Voc, Isc (clause "Simplifying a network never changes any of these quantities").

  Model : `Net.simplify`, `flatten`, `scan`, `absorb`, `combine` of Model/OnePort.lean (mirror of
          `ParSer.simplify` / `ParSer._combine`); side conditions `Net.simpGuard` of Model/OnePortGuard.lean.
  Spec  : `Net.rel` of Spec/OnePort.lean.
  Only property theorems live here; helper lemmas are in Lcapy/Proofs/OnePortScan.lean.
-/
import Lcapy.Proofs.OnePortScan
import Lcapy.Props.C07
namespace Lcapy.C07
open Lcapy Lcapy.OnePort
set_option linter.unusedSectionVars false
variable {K : Type} [Field K] [DecidableEq K]

mutual
/-- **simplify_sound**: for every one-port tree of any depth and width, whenever `simplify()` returns a
    network (it may refuse: series inductors / parallel capacitors with different initial conditions,
    a constructor rejecting the flattened arguments) and every combination it performs is within the
    side condition of its rule (`simpGuard`: the divisions of G+G, C+C, R|R, L|L are defined), the
    result admits exactly the (v, i) pairs of the original -- whatever the order in which the scan
    meets the combinable pairs.  Induction over the tree, the argument list and the scan. -/
theorem simplify_sound (s : K) : (n m : Net K) → n.simplify = .ok m → n.simpGuard s = true →
    REq (n.rel s) (m.rel s)
  | .leaf l, m, h, _ => by
      simp only [Net.simplify, Except.ok.injEq] at h
      subst h; exact REq.refl _
  | .ser as, m, h, hg => by
      simp only [Net.simplify] at h
      simp only [Net.simpGuard, Bool.and_eq_true] at hg
      cases hf : flatten .ser as with
      | error e => simp [hf, bind, Except.bind] at h
      | ok r =>
        obtain ⟨flat, new⟩ := r
        have h1 := flatten_sound s .ser as flat new hf hg.1
        have hg2 : scanGuard s .ser flat.length flat = true := by simpa [hf] using hg.2
        rw [hf] at h
        exact h1.trans (simplify_finish s .ser flat new m h hg2)
  | .par as, m, h, hg => by
      simp only [Net.simplify] at h
      simp only [Net.simpGuard, Bool.and_eq_true] at hg
      cases hf : flatten .par as with
      | error e => simp [hf, bind, Except.bind] at h
      | ok r =>
        obtain ⟨flat, new⟩ := r
        have h1 := flatten_sound s .par as flat new hf hg.1
        have hg2 : scanGuard s .par flat.length flat = true := by simpa [hf] using hg.2
        rw [hf] at h
        exact h1.trans (simplify_finish s .par flat new m h hg2)
/-- the flattening loop: simplified sub-networks, same-class sub-networks spliced in -/
theorem flatten_sound (s : K) (op : Op) : (as flat : List (Net K)) → (new : Bool) →
    flatten op as = .ok (flat, new) → flattenGuard s as = true → REq (relArgs s op as) (relArgs s op flat)
  | [], flat, new, h, _ => by
      simp only [flatten, Except.ok.injEq, Prod.mk.injEq] at h
      obtain ⟨rfl, _⟩ := h
      exact REq.refl _
  | .leaf l :: t, flat, new, h, hg => by
      simp only [flatten] at h
      simp only [flattenGuard] at hg
      cases hr : flatten op t with
      | error e => simp [hr, bind, Except.bind] at h
      | ok r =>
        obtain ⟨r, nw⟩ := r
        simp only [hr, bind, Except.bind, pure, Except.pure, Except.ok.injEq, Prod.mk.injEq] at h
        obtain ⟨rfl, _⟩ := h
        exact relArgs_congr_tail s op _ (flatten_sound s op t r nw hr hg)
  | .ser xs0 :: t, flat, new, h, hg => by
      simp only [flatten] at h
      simp only [flattenGuard, Bool.and_eq_true] at hg
      cases hn : (Net.ser xs0).simplify with
      | error e => simp [hn, bind, Except.bind] at h
      | ok n' =>
        cases hr : flatten op t with
        | error e => simp [hn, hr, bind, Except.bind] at h
        | ok r =>
          obtain ⟨r, nw⟩ := r
          have hhead := simplify_sound s (.ser xs0) n' hn hg.1
          have htail := flatten_sound s op t r nw hr hg.2
          have hmid : REq (relArgs s op (.ser xs0 :: t)) (relArgs s op (n' :: r)) :=
            (relArgs_congr_head s op t hhead).trans (relArgs_congr_tail s op n' htail)
          simp only [hn, hr, bind, Except.bind] at h
          split at h <;> simp only [pure, Except.pure, Except.ok.injEq, Prod.mk.injEq] at h <;> obtain ⟨rfl, _⟩ := h
          · exact hmid.trans (relArgs_append s .ser _ r).symm
          · exact hmid.trans (relArgs_append s .par _ r).symm
          · exact hmid
  | .par xs0 :: t, flat, new, h, hg => by
      simp only [flatten] at h
      simp only [flattenGuard, Bool.and_eq_true] at hg
      cases hn : (Net.par xs0).simplify with
      | error e => simp [hn, bind, Except.bind] at h
      | ok n' =>
        cases hr : flatten op t with
        | error e => simp [hn, hr, bind, Except.bind] at h
        | ok r =>
          obtain ⟨r, nw⟩ := r
          have hhead := simplify_sound s (.par xs0) n' hn hg.1
          have htail := flatten_sound s op t r nw hr hg.2
          have hmid : REq (relArgs s op (.par xs0 :: t)) (relArgs s op (n' :: r)) :=
            (relArgs_congr_head s op t hhead).trans (relArgs_congr_tail s op n' htail)
          simp only [hn, hr, bind, Except.bind] at h
          split at h <;> simp only [pure, Except.pure, Except.ok.injEq, Prod.mk.injEq] at h <;> obtain ⟨rfl, _⟩ := h
          · exact hmid.trans (relArgs_append s .ser _ r).symm
          · exact hmid.trans (relArgs_append s .par _ r).symm
          · exact hmid
end

/-- consequently `simplify()` changes none of Z, Voc (Thévenin) and Y, Isc (Norton): any pair that describes
    the original describes the simplified network -/
theorem simplify_preserves_thevenin_norton (s : K) (n m : Net K) (h : n.simplify = .ok m) (hg : n.simpGuard s = true)
    (Z Voc Y Isc : K) :
    (IsThevenin s n Z Voc ↔ IsThevenin s m Z Voc) ∧ (IsNorton s n Y Isc ↔ IsNorton s m Y Isc) := by
  have hr := simplify_sound s n m h hg
  constructor
  · constructor
    · intro ht v i; rw [← hr v i]; exact ht v i
    · intro ht v i; rw [hr v i]; exact ht v i
  · constructor
    · intro ht v i; rw [← hr v i]; exact ht v i
    · intro ht v i; rw [hr v i]; exact ht v i

/-- non-vacuity: `(R 2 | (C 3 (v0 = 5) + C 6) | R 3) + L 1 + L 2` at s = 2: simplify succeeds (it merges
    R 2 | R 3 across the nested series, C 3 + C 6 and L 1 + L 2 into a two-argument series) and the guard holds -/
example :
    let n : Net ℚ := .ser [.par [.leaf (.R 2), .ser [.leaf (.C 3 (some 5)), .leaf (.C 6 none)], .leaf (.R 3)],
                           .leaf (.L 1 none), .leaf (.L 2 none)]
    n.simpGuard 2 = true ∧
    (match n.simplify with
     | .ok (.ser [.par [.leaf (.R _), .leaf (.C _ _)], .leaf (.L _ _)]) => true
     | _ => false) = true := by
  decide +kernel

end Lcapy.C07
