/-
  AUDIT (auditor B) -- machine-checked non-vacuity witnesses for Props/C13.lean and C13b.lean.
  Every theorem with hypotheses is APPLIED to a concrete non-trivial input with all hypotheses proved.
  At the end: the round trip `zseq.IZT ∘ nseq.ZT` for the ORIGIN-indexed models that the driver executes now
  (`Generated/DTSeq.lean`: `ztUsesSequenceIndex = iztUsesSequenceIndex = true`), which Props/C13b.lean states only for
  the list-position models `seqZTPy / seqIZTPy`.
-/
import Lcapy.Props.C13
import Lcapy.Props.C13b
import Mathlib.RingTheory.RootsOfUnity.Complex
namespace Lcapy.NonVacuity.C13
open Lcapy Lcapy.DT Lcapy.C13 PowerSeries
set_option linter.unusedSimpArgs false
set_option linter.unusedVariables false

/-! ### Props/C13.lean -/

/-- `3 n² (1/2)^n u[n−1]  +  n 2^n cos(bn + c)  +  n (1/2)^n sin(bn+c) u[n−3]`, (cos b, sin b) = (3/5, 4/5) -/
def sig : List (CTerm ℚ) :=
  [⟨3, 2, 1 / 2, .step 1⟩, ⟨1, 1, 2, .cos (3 / 5) (4 / 5) 1 0⟩, ⟨1, 1, 1 / 2, .gated true false 3 (3 / 5) (4 / 5) (5 / 13) (12 / 13)⟩]
theorem sig_ok : ∀ t ∈ sig, t.base.ok := by
  intro t ht; simp [sig] at ht; rcases ht with rfl | rfl | rfl <;> norm_num [Base.ok]

example := zt_term_sound_partial (⟨3, 2, 1 / 2, .step 1⟩ : CTerm ℚ) (by simp [Base.ok])
example := zt_closed_form_sound_partial sig sig_ok
example := spec_predicate_accepts_model_partial sig sig_ok 6
example := izt_zt_partial sig sig_ok 5

example := anchor_geometric (1 / 2 : ℂ) 2 two_ne_zero (by norm_num)
example := dtft_geometric_on_circle (1 / 2 : ℂ) Complex.I (by simp) (by norm_num)

theorem ha : ([2, 1] : List ℚ).headD 0 ≠ 0 := by simp
example := longdiv_sound ([1, 3] : List ℚ) [2, 1] ha _ (impulse_response_sound [1, 3] [2, 1] ha) 6 4 (by norm_num)
example := impulse_response_sound ([1, 3] : List ℚ) [2, 1] ha
/-- arbitrary initial condition y[−1] = 3, two-sided input x[i] = i + 1 -/
example := response_satisfies_recursion ([1, 3] : List ℚ) [2, 1] (fun i => (i : ℚ) + 1) [3] ha rfl 4

theorem causal_lit : ∀ i : ℤ, i < 0 → litZ ([1, 2, 3] : List ℚ) i = 0 := by
  intro i hi; simp [litZ]; omega
example := recursion_transfer ([1, 3] : List ℚ) [2, 1] (litZ [1, 2, 3]) [0] ha rfl (by simp) causal_lit
example := recursion_is_convolution ([1, 3] : List ℚ) [2, 1] (litZ [1, 2, 3]) [0] ha rfl (by simp) causal_lit 4
example := initial_conditions_response ([1, 3, 5] : List ℚ) [2, 1] [3] [7, 11] ha rfl
example := initial_response_samples ([1, 3, 5] : List ℚ) [2, 1] [3] [7, 11] ha rfl 6 4 (by norm_num)
example := lfilter_satisfies_recursion ([1, 3] : List ℚ) [2, 1] [1, 2, 3] ha 2 (by simp)
example := lfilter_is_convolution ([1, 3] : List ℚ) [2, 1] [1, 2, 3] ha 2 (by simp)
example := convolve_is_convolution_sum ([1, 2, 3] : List ℚ) [4, 5] (by simp) (by simp) 3 (by simp)

/-- DFT: `2 n 3^n u[n−2]`, N = 8, at the bin q = −1 (q⁸ = 1): the model returns a value and it is the defining sum -/
example : ∃ v, dftSig true [(⟨2, 1, 3, .step 2⟩ : CTerm ℚ)] 8 (-1) = some v ∧
    v = dftSum (fun n => sigVal [(⟨2, 1, 3, .step 2⟩ : CTerm ℚ)] n) (-1) 8 := by
  have hne : dftSig true [(⟨2, 1, 3, .step 2⟩ : CTerm ℚ)] 8 (-1) ≠ none := by decide +kernel
  obtain ⟨v, hv⟩ := Option.ne_none_iff_exists'.mp hne
  exact ⟨v, hv, dft_def true _ 8 (-1) (by norm_num) (by norm_num) (by intro t ht; simp at ht; subst ht; simp [dftOk]) v hv⟩
/-- symbolic N with a step inside the window -/
example : dftOk false 8 (⟨2, 1, 3, .step 2⟩ : CTerm ℚ) := by simp [dftOk]
example := dft_geometric (3 : ℚ) (-1) 2 (by norm_num) (by norm_num)
example := dft_impulse 3 8 (-1 : ℚ) (by norm_num)
example := idft_dft (K := ℂ) 8 _ (Complex.isPrimitiveRoot_exp 8 (by norm_num)) (by norm_num) (fun n => (n : ℂ) ^ 2 + 1) 5 (by norm_num)

/-! ### Props/C13b.lean -/
example := dtft_shift (fun n : ℤ => (n : ℚ) ^ 2) (3 : ℚ) (by norm_num) (-2) 5 6
example := dtft_sin_rule (fun n : ℤ => (n : ℂ)) 2 3 Complex.I 5 Complex.I_mul_I (-2) 6
example := dtft_impulse (-1) (3 : ℚ) (-2) 6 (by norm_num)
example := dtft_finite_support ([1, 2, 3] : List ℚ) (-1) 3 (by norm_num)

def dsig : List (DTerm ℚ) := [⟨3, 1, 1 / 2, true, 2, .cos (3 / 5) (4 / 5)⟩, ⟨2, 0, 1 / 3, false, 1, .none⟩]
theorem dsig_ok : ∀ t ∈ dsig, t.ok := by
  intro t ht; simp [dsig] at ht; rcases ht with rfl | rfl <;> simp [DTerm.ok]
example := dtft_rule_cascade_sound dsig dsig_ok
/-- with the sin modulation (needs j² = −1): over ℂ -/
example := dtft_rule_cascade_sound ([⟨3, 1, 1 / 2, true, 2, .sin 2 3 Complex.I⟩] : List (DTerm ℂ))
  (by intro t ht; simp at ht; subst ht; exact ⟨by norm_num, Complex.I_mul_I⟩)

def dgeo : List (DTerm ℚ) := [⟨3, 1, 1 / 2, true, 2, .none⟩]
theorem dgeo_ok : ∀ t ∈ dgeo, t.ok := by intro t ht; simp [dgeo] at ht; subst ht; simp [DTerm.ok]
theorem den_ne : peval (dtftRegSig dgeo).den (1 / 2 : ℚ) ≠ 0 := by decide +kernel
example := dtft_is_zt_on_unit_circle dgeo dgeo_ok (dtftRegSig dgeo) (dtft_rule_cascade_sound dgeo dgeo_ok) 2 den_ne den_ne
example := dtft_is_zt_geometric_family (3 : ℚ) 1 (1 / 2) 2 2 (by decide +kernel) (by decide +kernel)
example := dtft_geometric_delayed_on_circle (1 / 2 : ℂ) Complex.I 3 (by simp) (by norm_num)

example := seq_zt_partial ([1, 2, 3] : List ℚ) 5 (by norm_num)
example := seq_zt_origin ([1, 2, 3] : List ℚ) (-1) 5 (by norm_num)
example := seq_izt_zt_position_partial ([1, 2, 3] : List ℚ) 5 (by norm_num)
example := Lcapy.C13.seq_izt_zt_origin ([1, 2, 3] : List ℚ) (-1) 5 (by norm_num)
example := seq_izt_zt_executed ([1, 2, 3] : List ℚ) (-1) 5 (by norm_num)
example := response_ic_indexing ([1, 3] : List ℚ) [2, 1, 4] (fun i => (i : ℚ) + 1) [3, 7] 1 (by simp)
example := seq_dft_is_sum ([1, 2, 3] : List ℚ) (-1) (-1) (by norm_num)
example := seq_convolve_poly ([1, 2, 3] : List ℚ) [4, 5] (by simp) (by simp) 7
example := seq_convolve_assoc ([1, 2, 3] : List ℚ) [4, 5] [6, 7, 8] (by simp) (by simp) (by simp)
example := seq_convolve_origin ([1, 2, 3] : List ℚ) (-1) [0, 1] 2 (by simp) (by simp) 3

example := response_first_sample_de ([1, 3] : List ℚ) [2, 1] (fun i => (i : ℚ) + 1) [3] ha rfl
example := impulse_response_is_delta_response ([1, 3] : List ℚ) [2, 1] ha 5
example := lfilter_eq_series ([1, 3] : List ℚ) [2, 1] [1, 2, 3] ha

/-- H(s) = (s + 1)/(s² + 3s + 2) under s = (1 − w)/(Δ(α + (1−α)w)), α = 1/2, Δ = 1/10, at w = 1/3 -/
example := discretize_is_substitution ([1, 1] : List ℚ) [2, 3, 1] gbtNum (gbtDen (1 / 2) (1 / 10)) (1 / 3)
  (by norm_num [gbtDen, peval])
example := gbt_documented_map (1 / 3 : ℚ) (1 / 10) (1 / 3) (by norm_num)
example := bilinear_documented_map (1 / 10 : ℚ) (1 / 3) (by norm_num) (by norm_num) (by norm_num)
example := forward_euler_documented_map (1 / 10 : ℚ) (1 / 3) (by norm_num)
example := backward_euler_documented_map (1 / 10 : ℚ) (1 / 3) (by norm_num)
example := simpson_documented_map (1 / 10 : ℚ) 3 (by norm_num) (by norm_num) (by norm_num)
example := bilinear_pole_map (1 / 10 : ℚ) (-4) (2 / 3) (by norm_num) (by norm_num) (by norm_num) (by norm_num)
example := forward_euler_pole_map (1 / 10 : ℚ) (-4) (3 / 5) (by norm_num) (by norm_num)
example := backward_euler_pole_map (1 / 10 : ℚ) (-4) (5 / 7) (by norm_num) (by norm_num) (by norm_num)
example := bilinear_lhp_to_unit_disc (-4 + 3 * Complex.I) (1 / 10) (by norm_num) (by simp)

example := dft_root_of_unity_bin (fun n => (n : ℚ) + 1) (-1) (-1) (by norm_num) 4
example := dft_root_of_unity_bin_step (-1 : ℚ) (-1) (by norm_num) 1 4 (by norm_num)
example := dft_root_of_unity_bin_ramp (-1 : ℚ) (-1) (by norm_num) 1 4 (by norm_num)

/-! ### the round trip for the origin-indexed sequence models (what Driver/C13.lean runs when the generated flags are true) -/

/-- `zseq.IZT ∘ nseq.ZT = id` with the exponent `self.n[ni]` on both sides (first index n0 of any sign) -/
theorem seq_izt_zt_origin {K : Type} [Field K] (vals : List K) (n0 : ℤ) (z : K) (hz : z ≠ 0) :
    pdilateFrom z (zpowK z n0) (seqZT vals n0 z) = vals := by
  simp only [seqZT, pdilateFrom_pdilateFrom]
  have h1 : 1 / z * z = 1 := by field_simp
  have h2 : zpowK (1 / z) n0 * zpowK z n0 = 1 := by
    rw [zpowK_eq, zpowK_eq, one_div, inv_zpow, inv_mul_cancel₀ (zpow_ne_zero _ hz)]
  rw [h1, h2, pdilateFrom_one]

end Lcapy.NonVacuity.C13
