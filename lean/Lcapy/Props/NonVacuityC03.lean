/-
  AUDIT (independent reviewer): machine-checked non-vacuity witnesses for the theorems of
  Props/C03.lean, C03Groups.lean, C03Lap.lean, C03Noise.lean, C03Wire.lean.

  Every witness is a realistic input for which ALL hypotheses of the audited theorem are proved, and the
  theorem is then applied to it.  Netlists used:
    * `ckt`     V1 1 0 6; R1 1 2 2; I1 2 0 3                    (dc, two independent sources)
    * `ivpCkt`  V1 1 0 step 6; R1 1 2 3; L1 2 0 2 i0=1           (initial-value problem at s = 2)
    * `wcs`     V1 1 0 6; R1 1 2 2; W 2 3; R2 3 0 3              (wire between two nodes)
    * `gcs`     V1 1 0 6; R1 1 2 2; R2 2 3 3; W 3 0              (wire to ground)
  Negative results (limits of a theorem) are named `limit_*`.
  No sorry / axiom / native_decide.
-/
import Lcapy.Props.C03
import Lcapy.Props.C03Groups
import Lcapy.Props.C03Lap
import Lcapy.Props.C03Noise
import Lcapy.Props.C03Wire
import Mathlib.Analysis.SpecialFunctions.Trigonometric.Basic
import Mathlib.Tactic.NormNum
import Mathlib.Tactic.Linarith
namespace Lcapy.NonVacuity.C03
open Lcapy Lcapy.MNA Lcapy.C03 Ix
set_option linter.unusedSimpArgs false
set_option linter.unusedTactic false
set_option linter.unreachableTactic false
set_option linter.unnecessarySeqFocus false
set_option linter.unusedVariables false

/-! ## Props/C03.lean — MNA level -/

/-- `V1 1 0 6; R1 1 2 2; I1 2 0 3` -/
def ckt : List (Cpt ℚ) := [.V 1 0 0 6, .R 1 2 2, .I 2 0 3]
/-- the same with I1 killed / with V1 killed / with both killed -/
def cktV : List (Cpt ℚ) := [.V 1 0 0 6, .R 1 2 2, .I 2 0 0]
def cktI : List (Cpt ℚ) := [.V 1 0 0 0, .R 1 2 2, .I 2 0 3]
def ckt0 : List (Cpt ℚ) := [.V 1 0 0 0, .R 1 2 2, .I 2 0 0]

/-- V1 alone: V(1) = V(2) = 6, no current -/
def xV : Ix → ℚ := fun i => if i = node 1 then 6 else if i = node 2 then 6 else 0
/-- I1 alone: V(2) = 6, the short carries 3 A -/
def xI : Ix → ℚ := fun i => if i = node 2 then 6 else if i = br 0 then 3 else 0
/-- the whole circuit -/
def xT : Ix → ℚ := fun i => if i = node 1 then 6 else if i = node 2 then 12 else if i = br 0 then 3 else 0

local macro "solve_rows" : tactic => `(tactic|
  (intro r hr
   cases r with
   | node k =>
     match k with
     | 0 => exact absurd rfl hr
     | 1 => simp [stampAll, stamp, Stamp.append, MNA.residual, lhsSum, rhsSum, branchPattern, admPattern, ground, indZ] <;> norm_num
     | 2 => simp [stampAll, stamp, Stamp.append, MNA.residual, lhsSum, rhsSum, branchPattern, admPattern, ground, indZ] <;> norm_num
     | (k + 3) => simp [stampAll, stamp, Stamp.append, MNA.residual, lhsSum, rhsSum, branchPattern, admPattern, ground, indZ]
   | br m =>
     match m with
     | 0 => simp [stampAll, stamp, Stamp.append, MNA.residual, lhsSum, rhsSum, branchPattern, admPattern, ground, indZ] <;> norm_num
     | 1 => simp [stampAll, stamp, Stamp.append, MNA.residual, lhsSum, rhsSum, branchPattern, admPattern, ground, indZ] <;> norm_num
     | (m + 2) => simp [stampAll, stamp, Stamp.append, MNA.residual, lhsSum, rhsSum, branchPattern, admPattern, ground, indZ]))

theorem solves_V : Solves .dc (0 : ℚ) cktV xV := by unfold xV cktV; solve_rows
theorem solves_I : Solves .dc (0 : ℚ) cktI xI := by unfold xI cktI; solve_rows
theorem solves_0 : Solves .dc (0 : ℚ) ckt0 (fun _ => 0) := by unfold ckt0; solve_rows
theorem solves_T : Solves .dc (0 : ℚ) ckt xT := by unfold xT ckt; solve_rows

/-- PRIORITY predicate `C01.Nonsingular` (round-3 definition, on the unknowns of the netlist): satisfied by the
    two-source netlist -/
theorem nonsingular_ckt : C01.Nonsingular .dc (0 : ℚ) ckt := by
  intro z hz i hi
  have h1 := hz (node 1) (by simp)
  have h2 := hz (node 2) (by simp)
  have h3 := hz (br 0) (by simp)
  simp [ckt, stampAll, stamp, Stamp.append, branchPattern, admPattern, lhsSum, ground] at h1 h2 h3
  obtain ⟨hi0, hi⟩ := hi
  simp [ckt, C01.unknowns, stampAll, stamp, Stamp.append, branchPattern, admPattern] at hi
  have e1 : z (node 1) = 0 := h3
  have e2 : z (node 2) = 0 := by rw [e1] at h2; linarith
  have e3 : z (br 0) = 0 := by rw [e1, e2] at h1; linarith
  rcases hi with h | h | h | h | h | h | h | h | h | h | h | h | h <;> subst h <;>
    first | assumption | exact absurd rfl hi0

/-- PRIORITY predicate `SameShape` (through `Forall₂`): the two single-source copies have the same shape -/
theorem sameShape_VI : List.Forall₂ SameShape cktV cktI := by
  simp [cktV, cktI, SameShape, Cpt.mapSrc]

theorem zip_VI : List.zipWith Cpt.addSrc cktV cktI = ckt := by
  simp [cktV, cktI, ckt, Cpt.addSrc]

/-- `SameShape` really constrains: a 2 Ω and a 3 Ω resistor do not have the same shape, nor a source and a resistor -/
example : ¬ SameShape (Cpt.R 1 2 (2 : ℚ)) (Cpt.R 1 2 3) := by simp [SameShape, Cpt.mapSrc]
example : ¬ SameShape (Cpt.V 1 0 0 (6 : ℚ)) (Cpt.R 1 0 6) := by simp [SameShape, Cpt.mapSrc]

/-- scaling, applied: all sources doubled -/
theorem nv_scaling : Solves .dc (0 : ℚ) [.V 1 0 0 12, .R 1 2 2, .I 2 0 6] (fun i => 2 * xT i) := by
  have h := scaling .dc (0 : ℚ) 2 ckt xT solves_T
  have e : ckt.map (Cpt.mapSrc (fun v => (2 : ℚ) * v)) = [.V 1 0 0 12, .R 1 2 2, .I 2 0 6] := by
    simp [ckt, Cpt.mapSrc]; norm_num
  rwa [e] at h

/-- superposition, applied -/
theorem nv_superposition : Solves .dc (0 : ℚ) ckt (fun i => xV i + xI i) := by
  have h := superposition .dc (0 : ℚ) cktV cktI xV xI sameShape_VI solves_V solves_I
  rwa [zip_VI] at h

/-- superposition_unique, applied: every hypothesis (incl. `Nonsingular`) holds for the realistic netlist -/
theorem nv_superposition_unique :
    ∀ i, C01.Unknown .dc (0 : ℚ) ckt i → xT i = xV i + xI i := by
  have h := superposition_unique .dc (0 : ℚ) cktV cktI xV xI xT sameShape_VI solves_V solves_I
    (by rw [zip_VI]; exact solves_T) (by rw [zip_VI]; exact nonsingular_ckt)
  rwa [zip_VI] at h

/-- the family `alone` for the netlist: one member per COMPONENT (the resistor's member is the fully killed netlist) -/
theorem alone_ckt : alone ckt = [cktV, ckt0, cktI] := by
  simp [ckt, cktV, cktI, ckt0, alone, killAll, Cpt.zeroSrc, Cpt.mapSrc]

theorem forall2_alone : List.Forall₂ (fun a x => Solves .dc (0 : ℚ) a x) (alone ckt) [xV, fun _ => 0, xI] := by
  rw [alone_ckt]
  exact .cons solves_V (.cons solves_0 (.cons solves_I .nil))

/-- each_source_alone, applied -/
theorem nv_each_source_alone : Solves .dc (0 : ℚ) ckt (sumX [xV, fun _ => 0, xI]) :=
  each_source_alone .dc 0 ckt _ rfl forall2_alone

/-- each_source_alone_unique, applied; the sum at node 2 is 6 + 0 + 6 = 12 V -/
theorem nv_each_source_alone_unique :
    ∀ i, C01.Unknown .dc (0 : ℚ) ckt i → xT i = sumX [xV, fun _ => 0, xI] i :=
  each_source_alone_unique .dc 0 ckt _ xT rfl forall2_alone solves_T nonsingular_ckt

example : sumX [xV, fun _ => 0, xI] (node 2) = 12 := by norm_num [sumX, xV, xI]

/-! ### an initial-value problem: a source and an initial condition, each acting alone -/

/-- `V1 1 0 step 6` (6/s = 3 at s = 2); `R1 1 2 3`; `L1 2 0 2` with i0 = 1 -/
def ivpCkt : List (Cpt ℚ) := [.V 1 0 0 3, .R 1 2 3, .Ind 2 0 1 2 (some 1) []]
def yV : Ix → ℚ := fun i =>
  if i = node 1 then 3 else if i = node 2 then 12/7 else if i = br 0 then -3/7 else if i = br 1 then 3/7 else 0
def yIC : Ix → ℚ := fun i =>
  if i = node 2 then -6/7 else if i = br 0 then -2/7 else if i = br 1 then 2/7 else 0
def yT : Ix → ℚ := fun i =>
  if i = node 1 then 3 else if i = node 2 then 6/7 else if i = br 0 then -5/7 else if i = br 1 then 5/7 else 0

theorem alone_ivp : alone ivpCkt =
    [[.V 1 0 0 3, .R 1 2 3, .Ind 2 0 1 2 (some 0) []],
     [.V 1 0 0 0, .R 1 2 3, .Ind 2 0 1 2 (some 0) []],
     [.V 1 0 0 0, .R 1 2 3, .Ind 2 0 1 2 (some 1) []]] := by
  simp [ivpCkt, alone, killAll, Cpt.zeroSrc, Cpt.mapSrc, coupMap]

theorem ivp_sV : Solves .ivp (2 : ℚ) [.V 1 0 0 3, .R 1 2 3, .Ind 2 0 1 2 (some 0) []] yV := by
  unfold yV; solve_rows
theorem ivp_s0 : Solves .ivp (2 : ℚ) [.V 1 0 0 0, .R 1 2 3, .Ind 2 0 1 2 (some 0) []] (fun _ => 0) := by
  solve_rows
theorem ivp_sIC : Solves .ivp (2 : ℚ) [.V 1 0 0 0, .R 1 2 3, .Ind 2 0 1 2 (some 1) []] yIC := by
  unfold yIC; solve_rows
theorem ivp_sT : Solves .ivp (2 : ℚ) ivpCkt yT := by
  unfold yT ivpCkt; solve_rows

theorem nonsingular_ivp : C01.Nonsingular .ivp (2 : ℚ) ivpCkt := by
  intro z hz i hi
  have h1 := hz (node 1) (by simp)
  have h2 := hz (node 2) (by simp)
  have h3 := hz (br 0) (by simp)
  have h4 := hz (br 1) (by simp)
  simp [ivpCkt, stampAll, stamp, Stamp.append, branchPattern, admPattern, lhsSum, ground, indZ] at h1 h2 h3 h4
  obtain ⟨hi0, hi⟩ := hi
  simp [ivpCkt, C01.unknowns, stampAll, stamp, Stamp.append, branchPattern, admPattern] at hi
  have e1 : z (node 1) = 0 := h3
  rw [e1] at h1 h2
  have e4 : z (br 1) = 0 := by linarith
  have e2 : z (node 2) = 0 := by linarith
  have e3 : z (br 0) = 0 := by linarith
  rcases hi with h|h|h|h|h|h|h|h|h|h|h|h|h|h|h|h|h|h <;> subst h <;> first | assumption | exact absurd rfl hi0

/-- each_source_alone_unique on the initial-value problem: response = (V1 alone) + 0 + (initial current alone) -/
theorem nv_each_source_alone_unique_ivp :
    ∀ i, C01.Unknown .ivp (2 : ℚ) ivpCkt i → yT i = sumX [yV, fun _ => 0, yIC] i := by
  apply each_source_alone_unique .ivp 2 ivpCkt _ yT rfl _ ivp_sT nonsingular_ivp
  rw [alone_ivp]
  exact .cons ivp_sV (.cons ivp_s0 (.cons ivp_sIC .nil))

example : sumX [yV, fun _ => 0, yIC] (node 2) = 6 / 7 := by norm_num [sumX, yV, yIC]

/-! ### decomposition and spec-level noise (no hypotheses except permutations) -/
section
open Lcapy.Decompose Lcapy.Noise

/-- grouping_invariant, applied to 2 + cos 3t + 5 x₀ + sin 3t and a reordering of it -/
theorem nv_grouping_invariant (C S : ℚ → ℚ) (X : Nat → ℚ) :
    semDecomp C S X (decompose [.dc 2, .ac 3 1 0, .tr 0 5, .ac 3 0 1]) =
      semDecomp C S X (decompose [.dc 2, .ac 3 1 0, .ac 3 0 1, .tr 0 5]) :=
  grouping_invariant C S X _ _ (List.Perm.cons _ (List.Perm.cons _ (List.Perm.swap _ _ _)))

/-- `decompose_reassemble`, applied: the two sinusoids of ω = 3 are accumulated into one phasor and add back -/
example (C S : ℚ → ℚ) (X : Nat → ℚ) :
    semDecomp C S X (decompose [.dc 2, .ac 3 1 0, .tr 0 5, .ac 3 0 1]) = 2 + (1 * C 3 + 0 * S 3) + 5 * X 0 + (0 * C 3 + 1 * S 3) := by
  rw [decompose_reassemble]; simp [Decompose.sumK, semTerm]; ring

/-- noisePower_perm / groupSum_perm, applied -/
theorem nv_noisePower_perm :
    noisePower [[(((1 : ℚ), (2 : ℚ)), (3 : ℚ)), ((0, 1), 2)], [((1, 1), 5)]] =
      noisePower [[((1, 1), 5)], [((1, 2), 3), ((0, 1), 2)]] :=
  noisePower_perm _ _ (List.Perm.swap _ _ _)

theorem nv_groupSum_perm :
    groupSum [(((1 : ℚ), (2 : ℚ)), (3 : ℚ)), ((0, 1), 2)] = groupSum [((0, 1), 2), ((1, 2), 3)] :=
  groupSum_perm _ _ (List.Perm.swap _ _ _)
end

/-! ## Props/C03Groups.lean -/
section
open Lcapy.Groups Lcapy.Decompose

/-- `V1 1 0 {2 + 3*cos(2*t) + 5*x0(t) + sin(2*t)}` -/
def src1 : Src := ⟨"V1", "1", "0", .texpr, [.dc 2, .ac 2 3 0, .tr 0 5, .ac 2 0 1]⟩

example : srcKinds src1 = [.dc, .ac 2, .transient] := by decide +kernel

theorem nv_srcKinds_sound : ∀ k ∈ srcKinds src1, k ∈ termKinds src1.terms :=
  srcKinds_sound src1 (by intro nid h; cases h)

theorem nv_termKinds_ok :
    (termKinds src1.terms).Nodup ∧ ∀ t ∈ src1.terms, kindOf t ∈ termKinds src1.terms := termKinds_ok _

theorem nv_term_in_exactly_one_group :
    ([Key.dc, .transient, .ac 2].filter (fun k => decide (kindOf (Term.ac 2 3 0) = k))).length = 1 :=
  term_in_exactly_one_group _ (by decide +kernel) _ (by decide +kernel)

/-- a linear reading: the value at an instant where cos = 1/2, sin = 1/3, x₀ = 7 -/
def fval : Term Rat → ℚ := semTerm (fun _ => 1/2) (fun _ => 1/3) (fun _ => 7)

theorem nv_groups_partition :
    ((termKinds src1.terms).map (fun k => ((selectTerms k src1.terms).map fval).sum)).sum = (src1.terms.map fval).sum :=
  groups_partition fval _ (termKinds_ok _).1 _ (termKinds_ok _).2

/-- LIMIT of `groups_partition`: it is stated for key lists that COVER the raw term kinds (`termKinds`), not for the
    keys the model of the code reports (`srcKinds`, what the driver runs): for `2 − 2 + cos 3t` the code reports no
    dc group, the cover hypothesis fails, and the conclusion is false for a non-linear reading (`f = 1`). -/
def src2 : Src := ⟨"V1", "1", "0", .texpr, [.dc 2, .dc (-2), .ac 3 1 0]⟩
example : srcKinds src2 = [.ac 3] := by decide +kernel
theorem limit_groups_partition_cover : ¬ (∀ t ∈ src2.terms, kindOf t ∈ srcKinds src2) := by decide +kernel
theorem limit_groups_partition_concl :
    ((srcKinds src2).map (fun k => ((selectTerms k src2.terms).map (fun _ => (1 : ℚ))).sum)).sum ≠
      (src2.terms.map (fun _ => (1 : ℚ))).sum := by decide +kernel

/-- scaling_one_source, applied: V1 alone (I1 killed) tripled -/
theorem nv_scaling_one_source :
    Solves .dc (0 : ℚ) [.V 1 0 0 18, .R 1 2 2, .I 2 0 0] (fun i => 3 * xV i) := by
  have h := scaling_one_source .dc (0 : ℚ) 3 [] [.R 1 2 2, .I 2 0 3] (.V 1 0 0 6) xV
    (by simpa [killAll, Cpt.mapSrc, cktV] using solves_V)
  have e : (3 : ℚ) * 6 = 18 := by norm_num
  simpa [killAll, Cpt.mapSrc, e] using h

/-- groups_superpose, applied: group 1 takes V1 ↦ 6, group 2 takes I1 ↦ 3 (positions 0 and 2 of the netlist) -/
def w1 : Nat → ℚ := fun p => if p = 0 then 6 else 0
def w2 : Nat → ℚ := fun p => if p = 2 then 3 else 0
theorem assign_w1 : assignAt w1 0 ckt = cktV := by simp [assignAt, w1, ckt, cktV, Cpt.mapSrc]
theorem assign_w2 : assignAt w2 0 ckt = cktI := by simp [assignAt, w2, ckt, cktI, Cpt.mapSrc]
theorem assign_sum : assignAt (sumW [w1, w2]) 0 ckt = ckt := by simp [assignAt, sumW, w1, w2, ckt, Cpt.mapSrc]

theorem nv_groups_superpose : Solves .dc (0 : ℚ) ckt (sumX [xV, xI]) := by
  have h := groups_superpose_partial .dc (0 : ℚ) ckt [w1, w2] [xV, xI]
    (.cons (by rw [assign_w1]; exact solves_V) (.cons (by rw [assign_w2]; exact solves_I) .nil))
  rwa [assign_sum] at h
end

/-! ## Props/C03Noise.lean -/
section
open Lcapy.Noise

/-- a superposition that already stores 3 + 0j for identifier 1 -/
def d0 : NDict ℚ := [(1, (3, 0))]
/-- contributions: 0 + 4j (id 1), 1 + 2j (id 2), −3 − 4j (id 1: cancels what is stored for id 1) -/
def e0 : NDict ℚ := [(1, (0, 4)), (2, (1, 2)), (1, (-3, -4))]

theorem keys_d0 : (keys d0).Nodup := by decide
example : superAdd d0 e0 = [(2, (1, 2))] := by decide +kernel

theorem nv_lookup_addNoise (m : Nat) :
    lookup (addNoise d0 1 (0, 4)) m = if m = 1 then cadd (lookup d0 m) (0, 4) else lookup d0 m :=
  lookup_addNoise d0 1 (0, 4) keys_d0 m
theorem nv_lookup_superAdd : lookup (superAdd d0 e0) 1 = cadd (lookup d0 1) (contrib e0 1) :=
  lookup_superAdd d0 e0 keys_d0 1
theorem nv_lookup_superSub : lookup (superSub d0 e0) 2 = cadd (lookup d0 2) (cneg (contrib e0 2)) :=
  lookup_superSub d0 e0 keys_d0 2
theorem nv_totalPower_eq : totalPower (superAdd d0 [(2, (1, 2))]) = 14 := by
  rw [totalPower_eq _ (by decide +kernel)]; decide +kernel
/-- three contributions, two identifiers: |3 + 4j|² + |1 + 2j|² = 30 -/
theorem nv_parts_power_is_noisePower :
    totalPower (superAdd [] ([(1, (3, 0)), (2, (1, 2)), (1, (0, 4))] : NDict ℚ)) = 30 := by
  rw [parts_power_is_noisePower]; decide +kernel

theorem nv_noise_add_same : add 9 (⟨.amp 3 0, 1⟩ : NE ℚ) ⟨.amp 0 4, 1⟩ = some ⟨.amp (3 + 0) (0 + 4), 1⟩ :=
  noise_add_same 9 1 3 0 0 4 (by norm_num)
theorem nv_noise_sub_same : sub 9 (⟨.amp 3 0, 1⟩ : NE ℚ) ⟨.amp 0 4, 1⟩ = some ⟨.amp (3 - 0) (0 - 4), 1⟩ :=
  noise_sub_same 9 1 3 0 0 4 (by norm_num)
theorem nv_noise_add_distinct :
    add 9 (⟨.amp 3 0, 1⟩ : NE ℚ) ⟨.amp 0 4, 2⟩ =
      some ⟨.rss ((NVal.amp 3 0 : NVal ℚ).power + (NVal.amp 0 4 : NVal ℚ).power), 9⟩ :=
  noise_add_distinct 9 1 2 _ _ (by decide) (by decide +kernel)
theorem nv_noise_sub_distinct :
    sub 9 (⟨.amp 3 0, 1⟩ : NE ℚ) ⟨.amp 0 4, 2⟩ =
      some ⟨.rss ((NVal.amp 3 0 : NVal ℚ).power + (NVal.amp 0 4 : NVal ℚ).power), 9⟩ :=
  noise_sub_distinct 9 1 2 _ _ (by decide) (by decide +kernel)
theorem nv_noise_sub_zero_left_distinct :
    sub 9 (⟨.amp 0 0, 1⟩ : NE ℚ) ⟨.amp 3 4, 2⟩ = some ⟨.rss (3 * 3 + 4 * 4), 9⟩ :=
  noise_sub_zero_left_distinct 9 1 2 3 4 (by decide) (by norm_num)
theorem nv_noise_neg_power : ∃ r : NE ℚ, neg ⟨.amp 3 4, 1⟩ = some r ∧ r.nid = 1 ∧ r.v.power = 25 := by
  refine ⟨⟨.amp (-3) (-4), 1⟩, rfl, ?_⟩
  have := noise_neg_power (⟨.amp 3 4, 1⟩ : NE ℚ) ⟨.amp (-3) (-4), 1⟩ rfl
  refine ⟨this.1, ?_⟩; rw [this.2]; norm_num [NVal.power]
theorem nv_noise_smul_power : ∃ r : NE ℚ, smul 2 ⟨.amp 3 4, 1⟩ = some r ∧ r.nid = 1 ∧ r.v.power = 2 * 2 * 25 := by
  refine ⟨⟨.amp (2 * 3) (2 * 4), 1⟩, rfl, ?_⟩
  have := noise_smul_power (2 : ℚ) ⟨.amp 3 4, 1⟩ ⟨.amp (2 * 3) (2 * 4), 1⟩ rfl ⟨3, 4, rfl⟩
  refine ⟨this.1, ?_⟩; rw [this.2]; norm_num [NVal.power]
theorem nv_noise_add_sub_cancel :
    (add 9 (⟨.amp 3 0, 1⟩ : NE ℚ) ⟨.amp 0 4, 1⟩).bind (fun s => sub 9 s ⟨.amp 0 4, 1⟩) = some ⟨.amp 3 0, 1⟩ :=
  noise_add_sub_cancel 9 1 3 0 0 4 (by norm_num)
theorem nv_noise_smul_add :
    (add 9 (⟨.amp 3 0, 1⟩ : NE ℚ) ⟨.amp 0 4, 1⟩).bind (smul 2) =
      (smul 2 ⟨.amp 3 0, 1⟩).bind (fun x => (smul 2 ⟨.amp 0 4, 1⟩).bind (fun y => add 9 x y)) :=
  noise_smul_add 9 1 2 3 0 0 4 (by norm_num) (by norm_num)
end

/-! ## Props/C03Lap.lean — over ℂ with the genuine exponential, j = i, ω = 3, s = 1 -/
section
open Lcapy.Decompose Lcapy.Laplace

theorem hp : (1 : ℂ) - Complex.I * 3 ≠ 0 := by
  intro h; have := congrArg Complex.re h; simp at this
theorem hm : (1 : ℂ) + Complex.I * 3 ≠ 0 := by
  intro h; have := congrArg Complex.re h; simp at this
theorem h2 : (1 + 1 : ℂ) ≠ 0 := by norm_num

/-- phasor_laplace, applied: L{Re((3 + 4j) e^{3jt})}(1) = (3·1 − 4·3)/(1 + 9) -/
theorem nv_phasor_laplace : L Complex.exp (phasorSig Complex.I 3 4 3) 1 = phasorLap (3 : ℂ) 4 3 1 :=
  phasor_laplace Complex.exp Complex.exp_zero Complex.I 3 4 3 1 Complex.I_mul_I h2 hp hm

/-- phasor_time, applied with the genuine cos and sin: its hypotheses `hc`, `hs` are Euler's formulas -/
theorem nv_phasor_time (a b θ : ℂ) :
    (a + Complex.I * b) / (1 + 1) * Complex.exp (Complex.I * θ) +
        (a - Complex.I * b) / (1 + 1) * Complex.exp (-(Complex.I * θ))
      = a * Complex.cos θ - b * Complex.sin θ := by
  apply phasor_time Complex.I a b _ _ _ _ Complex.I_mul_I h2
  · rw [Complex.cos]; congr 2 <;> ring_nf
  · rw [Complex.sin]
    have : Complex.I * ((Complex.exp (-θ * Complex.I) - Complex.exp (θ * Complex.I)) * Complex.I / 2)
        = (Complex.exp (θ * Complex.I) - Complex.exp (-θ * Complex.I)) / 2 * (-(Complex.I * Complex.I)) := by ring
    rw [this, Complex.I_mul_I]; ring_nf

/-- 2 + 3 cos 3t − 4 sin 3t + 5 x₀(t) + cos 3t, with x₀(t) = e^{−2t} u(t) -/
noncomputable def ts : List (Decompose.Term ℂ) := [.dc 2, .ac 3 3 (-4), .tr 0 5, .ac 3 1 0]
noncomputable def X : Nat → ExpPoly ℂ := fun _ => [.ep 1 0 (-2) 0]

theorem hw : ∀ t ∈ ts, ∀ w a b, t = Decompose.Term.ac w a b →
    (1 : ℂ) - Complex.I * w ≠ 0 ∧ (1 : ℂ) + Complex.I * w ≠ 0 := by
  intro t ht w a b h
  simp only [ts, List.mem_cons, List.mem_nil_iff, or_false] at ht
  rcases ht with rfl | rfl | rfl | rfl <;> cases h <;> exact ⟨hp, hm⟩

open scoped Classical in
/-- reassemble_laplace_transform, applied -/
theorem nv_reassemble_laplace_transform :
    decompLap (fun i => L Complex.exp (X i) 1) 1 (decompose ts) =
      L Complex.exp (sigDecomp Complex.I X (decompose ts)) 1 :=
  reassemble_laplace_transform Complex.exp Complex.exp_zero Complex.I Complex.I_mul_I h2 X 1 ts one_ne_zero hw

open scoped Classical in
/-- termLap_is_transform, applied to the sinusoidal term -/
theorem nv_termLap_is_transform :
    L Complex.exp (sigTerm Complex.I X (.ac 3 3 (-4))) 1 =
      termLap (fun i => L Complex.exp (X i) 1) 1 (.ac 3 3 (-4)) :=
  termLap_is_transform Complex.exp Complex.exp_zero Complex.I Complex.I_mul_I h2 X 1 _ one_ne_zero
    (by intro w a b h; cases h; exact ⟨hp, hm⟩)

/-- grouping_invariant_laplace, applied (ℚ, transform of x₀ at the point = 1/2) -/
theorem nv_grouping_invariant_laplace :
    decompLap (fun _ => (1 / 2 : ℚ)) 1 (decompose [.dc 2, .ac 3 3 (-4), .tr 0 5, .ac 3 1 0]) =
      decompLap (fun _ => (1 / 2 : ℚ)) 1 (decompose [.ac 3 3 (-4), .dc 2, .tr 0 5, .ac 3 1 0]) :=
  grouping_invariant_laplace _ 1 _ _ (List.Perm.swap _ _ _)
    ⟨one_ne_zero, by
      intro t ht w a b h
      simp only [List.mem_cons, List.mem_nil_iff, or_false] at ht
      rcases ht with rfl | rfl | rfl | rfl <;> cases h <;> norm_num⟩

/-- REMARK (class e, harmless): `reassemble_laplace_linear` carries no guard, so it also "holds" AT the poles s = 0 and
    s² + ω² = 0, where both sides are sums of totalised quotients `x / 0 = 0`: at s = 0 the dc part contributes 0. -/
example : decompLap (fun _ => (0 : ℚ)) 0 (decompose [.dc 2, .dc 5]) = 0 := by
  norm_num [decompLap, decompose, step, Decompose.sumK]
end

/-! ## Props/C03Wire.lean -/

/-- `V1 1 0 6; R1 1 2 2; R2 3 0 3` (the wire `W 2 3` is prepended as `V 2 3 1 0`) -/
def wcs : List (Cpt ℚ) := [Cpt.V 1 0 0 6, Cpt.R 1 2 2, Cpt.R 3 0 3]
def wx : Ix → ℚ := fun i => match i with
  | node 1 => 6 | node 2 => 18 / 5 | node 3 => 18 / 5 | br 0 => -6 / 5 | br 1 => 6 / 5 | _ => 0

theorem wLaws : Laws Kind.dc (0 : ℚ) (Cpt.V 2 3 1 0 :: wcs) wx := by
  constructor
  · intro k hk
    match k with
    | 0 => exact absurd rfl hk
    | 1 => norm_num [wcs, wx, outflow, twoTerm, lsum, vd, volt]
    | 2 => norm_num [wcs, wx, outflow, twoTerm, lsum, vd, volt]
    | 3 => norm_num [wcs, wx, outflow, twoTerm, lsum, vd, volt]
    | (k + 4) => simp [wcs, outflow, twoTerm, lsum]
  · intro c hc p hp
    simp only [wcs, List.mem_cons, List.mem_nil_iff, or_false] at hc
    rcases hc with rfl | rfl | rfl | rfl <;> simp [laws, vd, volt, wx] at hp <;> subst hp <;> norm_num

/-- the wire's branch index is not read by any other component -/
theorem wSide (m : Nat) (h0 : m ≠ 0) : ∀ c ∈ wcs, m ∉ brRefs c := by
  intro c hc
  simp only [wcs, List.mem_cons, List.mem_nil_iff, or_false] at hc
  rcases hc with rfl | rfl | rfl <;> simp [brRefs, h0]

theorem nv_kill_V_equiv :
    volt wx 2 = volt wx 3 ∧ wx (br 1) = lsum (wcs.map (outflow Kind.dc 0 wx 3)) ∧
      Laws Kind.dc (0 : ℚ) (wcs.map (Cpt.mapNodes (merge 2 3))) wx :=
  (kill_V_equiv Kind.dc 0 wcs wx 2 3 1 (by decide) (by decide)).mp wLaws

theorem merged_wcs : wcs.map (Cpt.mapNodes (merge 2 3)) = [Cpt.V 1 0 0 6, Cpt.R 1 2 2, Cpt.R 2 0 3] := by
  simp [wcs, Cpt.mapNodes, merge]

theorem nv_wire_merge_complete : Laws Kind.dc (0 : ℚ) (wcs.map (Cpt.mapNodes (merge 2 3))) wx :=
  wire_merge_complete Kind.dc 0 wcs wx 2 3 1 (by decide) (by decide) wLaws

theorem nv_wire_merge_sound : Laws Kind.dc (0 : ℚ) (Cpt.V 2 3 1 0 :: wcs) (unmerge Kind.dc 0 wcs 2 3 1 wx) :=
  wire_merge_sound Kind.dc 0 wcs 2 3 1 (by decide) (by decide) (wSide 1 (by decide)) wx nv_wire_merge_complete

/-- the reconstructed wire current is 6/5 A -/
theorem nv_unmerge_value : unmerge Kind.dc 0 wcs 2 3 1 wx (br 1) = 6 / 5 := by
  norm_num [unmerge, wcs, wx, outflow, twoTerm, lsum, vd, volt]

theorem nv_unmerge_agrees :
    (∀ k, k ≠ 3 → unmerge Kind.dc 0 wcs 2 3 1 wx (node k) = wx (node k)) ∧
    (∀ k, k ≠ 1 → unmerge Kind.dc 0 wcs 2 3 1 wx (br k) = wx (br k)) ∧
    unmerge Kind.dc 0 wcs 2 3 1 wx (node 3) = volt wx 2 :=
  unmerge_agrees Kind.dc 0 wcs 2 3 1 wx

/-- wire_current_unique, applied to two solutions obtained differently -/
theorem nv_wire_current_unique : wx (br 1) = unmerge Kind.dc 0 wcs 2 3 1 wx (br 1) := by
  apply wire_current_unique Kind.dc 0 wcs 2 3 1 (by decide) (by decide) (wSide 1 (by decide)) wx _ wLaws
    nv_wire_merge_sound
  intro i hi
  obtain ⟨h1, h2, h3⟩ := unmerge_agrees Kind.dc 0 wcs 2 3 1 wx
  cases i with
  | node k =>
    by_cases hk : k = 3
    · subst hk; rw [h3]; simp [wx, volt]
    · exact (h1 k hk).symm
  | br k =>
    have : k ≠ 1 := fun h => hi (by rw [h])
    exact (h2 k this).symm

/-- PRIORITY predicate `C01.WF` (not used by the C03 statements, needed to carry the `Laws`-level wire theorems over
    to the `Solves`-level superposition theorems through `C01.mna_iff_laws`): holds for the netlist with the wire,
    whose `Laws` solution therefore solves the assembled MNA system -/
theorem wf_wire : C01.WF (Cpt.V 2 3 1 0 :: wcs) := by simp [C01.WF, wcs, owned]
theorem wire_solves : Solves Kind.dc (0 : ℚ) (Cpt.V 2 3 1 0 :: wcs) wx :=
  (C01.mna_iff_laws Kind.dc 0 _ wx wf_wire).mpr wLaws


/-- `V1 1 0 6; R1 1 2 2; R2 2 3 3; W 3 0`: the wire's second node is ground (mirrored orientation) -/
def gcs : List (Cpt ℚ) := [Cpt.V 1 0 0 6, Cpt.R 1 2 2, Cpt.R 2 3 3]
def gx : Ix → ℚ := fun i => match i with
  | node 1 => 6 | node 2 => 18 / 5 | node 3 => 0 | br 0 => -6 / 5 | br 1 => 6 / 5 | _ => 0

theorem gLaws : Laws Kind.dc (0 : ℚ) (Cpt.V 3 0 1 0 :: gcs) gx := by
  constructor
  · intro k hk
    match k with
    | 0 => exact absurd rfl hk
    | 1 => norm_num [gcs, gx, outflow, twoTerm, lsum, vd, volt]
    | 2 => norm_num [gcs, gx, outflow, twoTerm, lsum, vd, volt]
    | 3 => norm_num [gcs, gx, outflow, twoTerm, lsum, vd, volt]
    | (k + 4) => simp [gcs, outflow, twoTerm, lsum]
  · intro c hc p hp
    simp only [gcs, List.mem_cons, List.mem_nil_iff, or_false] at hc
    rcases hc with rfl | rfl | rfl | rfl <;> simp [laws, vd, volt, gx] at hp <;> subst hp <;> norm_num

theorem nv_kill_V_equiv_rev :
    volt gx 0 = volt gx 3 ∧ gx (br 1) = -lsum (gcs.map (outflow Kind.dc 0 gx 3)) ∧
      Laws Kind.dc (0 : ℚ) (gcs.map (Cpt.mapNodes (merge 0 3))) gx :=
  (kill_V_equiv_rev Kind.dc 0 gcs gx 0 3 1 (by decide) (by decide)).mp gLaws

theorem merged_gcs : gcs.map (Cpt.mapNodes (merge 0 3)) = [Cpt.V 1 0 0 6, Cpt.R 1 2 2, Cpt.R 2 0 3] := by
  simp [gcs, Cpt.mapNodes, merge]

/-- two parallel wires (branches 1 and 4) between the nodes 2 and 3 -/
def px : Ix → ℚ := fun i => match i with
  | node 1 => 6 | node 2 => 18 / 5 | node 3 => 18 / 5 | br 0 => -6 / 5 | br 1 => 1 | br 4 => 1 / 5 | _ => 0

theorem pLaws : Laws Kind.dc (0 : ℚ) (Cpt.V 2 3 1 0 :: Cpt.V 2 3 4 0 :: wcs) px := by
  constructor
  · intro k hk
    match k with
    | 0 => exact absurd rfl hk
    | 1 => norm_num [wcs, px, outflow, twoTerm, lsum, vd, volt]
    | 2 => norm_num [wcs, px, outflow, twoTerm, lsum, vd, volt]
    | 3 => norm_num [wcs, px, outflow, twoTerm, lsum, vd, volt]
    | (k + 4) => simp [wcs, outflow, twoTerm, lsum]
  · intro c hc p hp
    simp only [wcs, List.mem_cons, List.mem_nil_iff, or_false] at hc
    rcases hc with rfl | rfl | rfl | rfl | rfl <;> simp [laws, vd, volt, px] at hp <;> subst hp <;> norm_num

theorem nv_parallel_wires_current_free (d : ℚ) :
    Laws Kind.dc (0 : ℚ) (Cpt.V 2 3 1 0 :: Cpt.V 2 3 4 0 :: wcs)
      (fun i => if i = br 1 then px i + d else if i = br 4 then px i - d else px i) :=
  parallel_wires_current_free Kind.dc 0 wcs px 2 3 1 4 (by decide) (wSide 1 (by decide)) (wSide 4 (by decide)) d pLaws

/-- `V1 1 0 6; R1 1 2 2; R2 2 0 3; W 2 2`: a wire from a node to itself -/
def scs : List (Cpt ℚ) := [Cpt.V 1 0 0 6, Cpt.R 1 2 2, Cpt.R 2 0 3]
def sx : Ix → ℚ := fun i => match i with
  | node 1 => 6 | node 2 => 18 / 5 | br 0 => -6 / 5 | _ => 0

theorem sLaws : Laws Kind.dc (0 : ℚ) (Cpt.V 2 2 1 0 :: scs) sx := by
  constructor
  · intro k hk
    match k with
    | 0 => exact absurd rfl hk
    | 1 => norm_num [scs, sx, outflow, twoTerm, lsum, vd, volt]
    | 2 => norm_num [scs, sx, outflow, twoTerm, lsum, vd, volt]
    | (k + 3) => simp [scs, outflow, twoTerm, lsum]
  · intro c hc p hp
    simp only [scs, List.mem_cons, List.mem_nil_iff, or_false] at hc
    rcases hc with rfl | rfl | rfl | rfl <;> simp [laws, vd, volt, sx] at hp <;> subst hp <;> norm_num

theorem nv_self_loop_current_free (J : ℚ) :
    Laws Kind.dc (0 : ℚ) (Cpt.V 2 2 1 0 :: scs) (fun i => if i = br 1 then J else sx i) := by
  apply self_loop_current_free Kind.dc 0 scs sx 2 1 _ J sLaws
  intro c hc
  simp only [scs, List.mem_cons, List.mem_nil_iff, or_false] at hc
  rcases hc with rfl | rfl | rfl <;> simp [brRefs]

end Lcapy.NonVacuity.C03
