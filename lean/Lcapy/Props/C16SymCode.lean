/-
  C16 -- the symbol registry at the generated flags.  Builds iff `symbol_delete(n)` really forgets the name
  (`SymbolRegistry.register(kind='expr')` must not find it in `symbol_kinds` any more); fails while finding C16-F31 is
  open -- then it is a broken obligation that the oracle must explain by a failing history (key `symbol-registry`).
-/
import Lcapy.Props.C16Sym
import Lcapy.Generated.Caches
namespace Lcapy.C16
open Lcapy.SymReg Lcapy.Gen.Caches

theorem delete_cleans_kinds : deleteCleansKinds = true := by decide

/-- CURRENT CODE: after `symbol_delete(n)` the name behaves as in a fresh process, whatever happened before -/
theorem delete_resets_history_current (h h' : List Op) (n : String) (a : Assum) :
    (use (run ⟨deleteCleansKinds, addRestoresContextOnError⟩ St.init (h ++ .delete n :: h')) n a).2 =
      (use (run ⟨deleteCleansKinds, addRestoresContextOnError⟩ St.init h') n a).2 :=
  delete_resets_history _ delete_cleans_kinds h h' n a

end Lcapy.C16
