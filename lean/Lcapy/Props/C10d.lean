/-
  C10, round 4 — hyperbolic (lossless transmission-line) forms.  With `w = e^{−sT}` the input is a rational function `P(w)/Q(w)`
  and the returned infinite sum of delayed impulses (steps) is a power series in `w` (Model/TLine.lean).
    * `series_check_sound`   the exact oracle run on the first terms of EVERY sum Lcapy returns for these forms;
    * `tline_end_partial`    the model of `tline_end` (echo ratio `g`, scale `d`, coefficient, delay multiple and start index
                             GENERATED from the source): its partial sums times the denominator are `2w(1 − (g w²)^N)` for
                             every `N` — the series is the expansion of `1/(a cosh(sT) + b sinh(sT))`, remainder `(g w²)^N`.
-/
import Lcapy.Proofs.TLine
namespace Lcapy.C10
open Lcapy.Laplace

section
variable {K : Type} [Field K] [DecidableEq K]

/-- if the checker accepts the first terms `Σ c_k w^k` of a returned series against `P/Q` up to order `k`, they differ from
    `P(w)/Q(w)` by exactly `w^{k+1}·W(w)/Q(w)` for a polynomial `W` — at every `w` with `Q(w) ≠ 0` -/
theorem series_check_sound (P Q : Poly K) (terms : List (K × Nat)) (k : Nat) (h : seriesCheck P Q terms k = true) :
    ∃ W : Poly K, ∀ w, Poly.eval Q w ≠ 0 →
      (terms.map (fun x => x.1 * w ^ x.2)).sum = Poly.eval P w / Poly.eval Q w + w ^ (k + 1) * (Poly.eval W w / Poly.eval Q w) :=
  series_check_sound' P Q terms k h

/-- `tline_end`: for every number of terms `N`, with `cosh(sT) = (w⁻¹+w)/2`, `sinh(sT) = (w⁻¹−w)/2` cleared of `w⁻¹`:
    `((a+b) + (a−b) w²) · Σ_{m<N} c_m w^{k_m} = 2 w (1 − (g w²)^N)`, `g = (b−a)/(b+a)`.
    `g`, `d`, `c_m`, `k_m` are the generated definitions: with another echo ratio in the source this fails. -/
theorem tline_end_partial (a b w : K) (N : Nat) (hab : a + b ≠ 0) (h2 : (2 : K) ≠ 0) (hg : Gen.tlineEndG a b ≠ 0) :
    ((a + b) + (a - b) * w ^ 2) * ((tlineEndTerms a b N).map (fun x => x.1 * w ^ x.2)).sum
      = 2 * w * (1 - (Gen.tlineEndG a b * w ^ 2) ^ N) := by
  have hba : b + a ≠ 0 := by rwa [add_comm]
  have hterms : (tlineEndTerms a b N).map (fun x => x.1 * w ^ x.2)
      = (List.range N).map (fun i => (2 / (a + b)) * (Gen.tlineEndG a b ^ i * w ^ (2 * i + 1))) := by
    simp only [tlineEndTerms, hg, if_false, List.map_map]
    apply List.map_congr_left
    intro i _
    simp only [Function.comp, Gen.tlineEndPref, Gen.tlineEndCoef, Gen.tlineEndD, Gen.tlineEndDelay, Gen.tlineEndStart,
      ofN, pw_eq, Nat.zero_add]
    field_simp
    ring
  rw [hterms, list_sum_mul_left]
  have hge := geom_echo (Gen.tlineEndG a b) w N
  have hfac : (a + b) + (a - b) * w ^ 2 = (a + b) * (1 - Gen.tlineEndG a b * w ^ 2) := by
    simp only [Gen.tlineEndG]; field_simp; ring
  rw [hfac]
  calc (a + b) * (1 - Gen.tlineEndG a b * w ^ 2) *
        (2 / (a + b) * ((List.range N).map (fun i => Gen.tlineEndG a b ^ i * w ^ (2 * i + 1))).sum)
      = 2 * ((1 - Gen.tlineEndG a b * w ^ 2) * ((List.range N).map (fun i => Gen.tlineEndG a b ^ i * w ^ (2 * i + 1))).sum) := by
        field_simp
    _ = 2 * w * (1 - (Gen.tlineEndG a b * w ^ 2) ^ N) := by rw [hge]; ring

/-- the matched line `a = b` (`g = 0`): a single arrival -/
theorem tline_end_matched (a w : K) (N : Nat) (ha : a ≠ 0) (h2 : (2 : K) ≠ 0) :
    ((a + a) + (a - a) * w ^ 2) * ((tlineEndTerms a a (N + 1)).map (fun x => x.1 * w ^ x.2)).sum = 2 * w := by
  have hg : Gen.tlineEndG a a = 0 := by simp [Gen.tlineEndG]
  simp only [tlineEndTerms, hg, if_true, Nat.succ_ne_zero, if_false, Gen.tlineEndD, ofN]
  simp
  field_simp
  ring

-- non-vacuity: 1/(2 cosh + 5 sinh): g = 3/7 ≠ 0, a + b = 7; the first three terms pass the oracle up to order 6
example : (2 : ℚ) + 5 ≠ 0 ∧ Gen.tlineEndG (2 : ℚ) 5 ≠ 0 := by
  constructor <;> norm_num [Gen.tlineEndG]
example : seriesCheck (K := ℚ) [0, 2] [7, 0, -3] (tlineEndTerms 2 5 3) 6 = true := by decide +kernel
example : seriesCheck (K := ℚ) [0, 2] [7, 0, -3] [(2/7, 1), (-6/49, 3)] 4 = false := by decide +kernel

end
end Lcapy.C10
