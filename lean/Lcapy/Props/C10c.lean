/-
  C10-G1 (also used by C11's partfrac): the residue formula of `Ratfun._find_residues_sub` — substitution for the
  highest-order term of each pole, then repeated differentiation with the factor 1/k! — yields the partial-fraction
  coefficients, for any number of poles of ANY multiplicities.  Model: Model/ResidueSub.lean (executable, run by the
  driver against the real `_find_residues_sub` on every case); proofs: Proofs/ResidueSub.lean.
-/
import Lcapy.Proofs.ResidueSub
namespace Lcapy.C10
open Lcapy.Laplace Polynomial

section
variable {K : Type} [Field K] [CharZero K] [DecidableEq K]

/-- Reconstruction: for distinct poles `p` with multiplicities `n_p` (any number, any multiplicities) and a numerator
    of degree `< Σ n_p`, the entries `(r, p, o)` computed by the model of `_find_residues_sub` satisfy
    `B(s)/Π(s−p)^{n_p} = Σ r/(s−p)^o` at every non-pole `s`.  (Characteristic zero: the code divides by `k!`.) -/
theorem find_residues_sub_sound (B : Poly K) (poles : List (K × Nat))
    (hnd : (poles.map Prod.fst).Nodup) (hdeg : B.length ≤ (poles.map Prod.snd).sum)
    (s : K) (hs : ∀ x ∈ poles, s - x.1 ≠ 0) :
    Poly.eval B s / (poles.map (fun x => (s - x.1) ^ x.2)).prod = sumPF (findResiduesSub B poles) s :=
  find_residues_sub_sound' B poles hnd hdeg s hs

/-- One pole alone, with ANY cofactor `D`, `D(p) ≠ 0` (nothing assumed about the rest of the denominator or about
    properness): the `n` numbers `expr(p), expr'(p)/1!, …, expr^{(n−1)}(p)/(n−1)!`, `expr = B/D`, are the principal part
    of `B/(D·(x−p)^n)` at `p`: the remainder `W/D` is regular at `p`. -/
theorem residues_principal_part (B D : Poly K) (p : K) (n : Nat) (hD : Poly.eval D p ≠ 0) :
    ∃ W : K[X], ∀ s, s - p ≠ 0 → Poly.eval D s ≠ 0 →
      Poly.eval B s / (Poly.eval D s * (s - p) ^ n) = sumPF (residuesGo p n n 0 (B, D)) s + W.eval s / Poly.eval D s :=
  residues_principal_part' B D p n hD

/-- Taylor's theorem for a fraction, the induction on the order behind both statements:
    `N ≡ D · Σ_{m<n} c_m (X−p)^m (mod (X−p)^n)` with `c_m` the m-th quotient-rule derivative at `p` over `m!`. -/
theorem taylor_fraction (p : K) (n : ℕ) (N D : K[X]) (hD : D.eval p ≠ 0) :
    (X - C p) ^ n ∣ N - D * Residue.taylorPoly p (N, D) n :=
  Residue.taylor_fraction p n (N, D) hD

/-- removing the entries with a zero residue (`_prune_zero_residues`) does not change the sum -/
theorem prune_zero_sum (R : List (K × K × Nat)) (s : K) : sumPF (pruneZero R) s = sumPF R s := by
  induction R with
  | nil => rfl
  | cons x R ih =>
    obtain ⟨r, p, o⟩ := x
    by_cases h : r = 0
    · simp [pruneZero, List.filter, h, sumPF] at ih ⊢; exact ih
    · simp [pruneZero, List.filter, h, sumPF] at ih ⊢; rw [ih]

-- non-vacuity: 1/((s+1)^3 (s+2)): poles −1 (×3), −2; the model computes 1, −1, 1 and −1
example : findResiduesSub (K := ℚ) [1] [(-1, 3), (-2, 1)] = [(1, -1, 3), (-1, -1, 2), (1, -1, 1), (-1, -2, 1)] := by
  decide +kernel
example : ([(-1 : ℚ), (-2 : ℚ)]).Nodup ∧ ([1] : Poly ℚ).length ≤ ([3, 1] : List Nat).sum := by decide

end
end Lcapy.C10
