/-
  PROPERTY C14 -- phasor (AC) results equal the transfer function on the jω axis.

  Where the content is:
   * Props/C14SS.lean   `steady_state_iff_phasor`, `phasor_solution_is_steady_state`, `mna_phasor_is_steady_state`:
                        for every netlist, source phasors (a − j b of a·cos ωt + b·sin ωt; A·e^{jφ} of A·cos(ωt+φ):
                        `polar_phasor`) + the Laplace-domain laws at s = jω  ⇔  the time-domain laws of the
                        sinusoidal steady state; several frequencies (`multi_frequency_iff`); ω = 0 (`ac_at_zero_is_dc`)
   * this file          `phasor_is_transfer_times_source`: output phasor = H(jω) · source phasor, with H the transfer
                        function that the C04 experiment `transferExp` MEASURES at s = jω (unit test source, everything
                        else killed); `same_freq_sum`: sources of one frequency add as complex numbers
   * Props/C14Conv.lean the conversions of lcapy/phasor.py / lcapy/acdc.py on the definitions the driver executes
                        (`TDS.toPh`, `TDS.toTime`, the GENERATED `Gen.AC.timeForm`, `sumBranches`, …):
                        `time_roundtrip`, `phasor_roundtrip`, `time_form_sound`, `acchecker_sum_sound`, `term_phasor_sound`
   * Props/C14Imm.lean  immittance of every one-port tree at jω

  REMARKS (definitional, not claims): in the executable model, AC analysis at angular frequency ω IS the Laplace-domain
  stamping at the point s = j·ω (Model/Netlist.lean `Analysis.ac`), so `ac_is_s_at_jw` and `impedance_at_jw` hold by `rfl`;
  that the CODE's separate phasor path (kind = ω, immittances from `Y.sympy` in the phasor domain) agrees with this is what the
  correspondence check establishes on every run.
-/
import Lcapy.Props.C03
import Lcapy.Model.Netlist
import Lcapy.Props.C04Ground
import Lcapy.Proofs.PortOps
namespace Lcapy.C14
open Lcapy.MNA Ix
variable {K : Type} [Field K]
set_option linter.unusedSectionVars false
set_option linter.unnecessarySeqFocus false

/-- REMARK (rfl): the element stamps the model uses for AC analysis are the s-domain stamps at s = jω -/
theorem ac_is_s_at_jw (w : GQ) (c : Cpt GQ) :
    stamp (Netlist.Analysis.ac w).kind (Netlist.Analysis.ac w).s c = stamp Kind.lap (GQ.j * w) c := rfl

/-- REMARK (rfl): jωC and jωL -/
theorem impedance_at_jw (j ω c l : K) :
    capY Kind.lap (j * ω) c = j * ω * c ∧ indZ Kind.lap (j * ω) l = j * ω * l := ⟨rfl, rfl⟩

/-- homogeneity (an instance of `C03.scaling`): scaling every source phasor by P scales every phasor of the solution by P.
    (Kept under its round-1 name; the statement about a transfer function is `phasor_is_transfer_times_source`.) -/
theorem phasor_is_transfer (j ω P : K) (cs : List (Cpt K)) (xu : Ix → K)
    (h : Solves .lap (j * ω) cs xu) :
    Solves .lap (j * ω) (cs.map (Cpt.mapSrc (fun v => P * v))) (fun i => P * xu i) :=
  C03.scaling .lap (j * ω) P cs xu h

/-- **same_freq_sum**: responses to several sources of one frequency add as complex numbers -/
theorem same_freq_sum (j ω : K) (cs cs' : List (Cpt K)) (x y : Ix → K)
    (hs : List.Forall₂ SameShape cs cs')
    (hx : Solves .lap (j * ω) cs x) (hy : Solves .lap (j * ω) cs' y) :
    Solves .lap (j * ω) (List.zipWith Cpt.addSrc cs cs') (fun i => x i + y i) :=
  C03.superposition .lap (j * ω) cs cs' x y hs hx hy

/-! ### output phasor = H(jω) · source phasor -/

theorem wf_mapSrc (f : K → K) (cs : List (Cpt K)) (h : C01.WF cs) : C01.WF (cs.map (Cpt.mapSrc f)) := by
  simp only [C01.WF, List.flatMap_map, owned_mapSrc] at h ⊢
  exact h

/-- **phasor_is_transfer_times_source**: let H be the voltage transfer function of the netlist from the port (p1, m1)
    to the port (p2, m2) at the point s (s = jω in `Cx R`, see `phasor_is_transfer_at_jw`) — i.e. what the C04 experiment
    `transferExp` MEASURES there: sources and initial conditions killed, UNIT test source across the input pair,
    V(p2) − V(m2) read, in every solution.  Then in EVERY solution of the same circuit whose input source carries the
    phasor P, the output phasor is H·P. -/
theorem phasor_is_transfer_times_source (s : K) (cs : List (Cpt K)) (p1 m1 p2 m2 b : Nat) (H P : K) (hP : P ≠ 0)
    (hwf : C01.WF (transferExp cs p1 m1 p2 m2 b).ckt)
    (hH : C04.Measures .lap s (transferExp cs p1 m1 p2 m2 b) H)
    (z : Ix → K)
    (hz : Laws .lap s ((transferExp cs p1 m1 p2 m2 b).ckt.map (Cpt.mapSrc (fun v => P * v))) z) :
    vd z p2 m2 = H * P := by
  obtain ⟨_, hall⟩ := hH
  have hz' := (C01.mna_iff_laws .lap s _ z (wf_mapSrc _ _ hwf)).mpr hz
  have hs := C03.scaling .lap s (1 / P) _ z hz'
  have e : ((transferExp cs p1 m1 p2 m2 b).ckt.map (Cpt.mapSrc (fun v => P * v))).map (Cpt.mapSrc (fun v => 1 / P * v)) =
      (transferExp cs p1 m1 p2 m2 b).ckt := by
    rw [List.map_map]
    conv_rhs => rw [← List.map_id (transferExp cs p1 m1 p2 m2 b).ckt]
    apply List.map_congr_left
    intro c _
    simp only [Function.comp, mapSrc_comp, id]
    have : ((fun v => 1 / P * v) ∘ fun v => P * v) = fun v : K => v := by
      funext v; simp only [Function.comp]; field_simp
    rw [this, mapSrc_id]
  rw [e] at hs
  have hl := (C01.mna_iff_laws .lap s _ _ hwf).mp hs
  have := hall _ hl
  simp only [transferExp, Obs.read, vd_smul] at this
  rw [← this]; field_simp

/-- the driven circuit of `phasor_is_transfer_times_source` spelled out: the killed netlist with the source `V p1 m1`
    of phasor P (and nothing else alive) -/
theorem driven_circuit (cs : List (Cpt K)) (p1 m1 p2 m2 b : Nat) (P : K) :
    (transferExp cs p1 m1 p2 m2 b).ckt.map (Cpt.mapSrc (fun v => P * v)) =
      killAll (cs.filter (fun c => !c.isVAcross p1 m1)) ++ [.V p1 m1 b P] := by
  simp [transferExp, vProbe, List.map_append, killAll_scale, Cpt.mapSrc]

end Lcapy.C14
