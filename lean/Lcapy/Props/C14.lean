/-
  PROPERTY C14 -- phasor (AC) results equal the transfer function on the jω axis.
  In the model, AC analysis at angular frequency ω IS the Laplace-domain analysis at the point
  s = j·ω (Lcapy/Model/Netlist.lean `Analysis.ac`); the tie to the code's separate phasor path
  (kind = ω, impedances from `Y.sympy` in the phasor domain) is the correspondence check.
-/
import Lcapy.Props.C03
import Lcapy.Model.Netlist
namespace Lcapy.C14
open Lcapy.MNA Ix
variable {K : Type} [Field K]

/-- **impedance_at_jw**: the element stamps used for AC analysis are the s-domain stamps at s = jω -/
theorem ac_is_s_at_jw (w : GQ) (c : Cpt GQ) :
    stamp (Netlist.Analysis.ac w).kind (Netlist.Analysis.ac w).s c = stamp Kind.lap (GQ.j * w) c := rfl

theorem impedance_at_jw (j ω c l : K) :
    capY Kind.lap (j * ω) c = j * ω * c ∧ indZ Kind.lap (j * ω) l = j * ω * l := ⟨rfl, rfl⟩

/-- **phasor_is_transfer**: if `xu` is the response at s = jω to unit excitation (so its
    entries are the transfer functions H(jω) from the source to every voltage and current), the
    response to a source phasor P is P·H(jω), for every netlist. -/
theorem phasor_is_transfer (j ω P : K) (cs : List (Cpt K)) (xu : Ix → K)
    (h : Solves .lap (j * ω) cs xu) :
    Solves .lap (j * ω) (cs.map (Cpt.mapSrc (fun v => P * v))) (fun i => P * xu i) :=
  C03.scaling .lap (j * ω) P cs xu h

/-- **same_freq_sum**: responses to several sources of one frequency add as complex numbers -/
theorem same_freq_sum (j ω : K) (cs cs' : List (Cpt K)) (x y : Ix → K)
    (hs : List.Forall₂ SameShape cs cs')
    (hx : Solves .lap (j * ω) cs x) (hy : Solves .lap (j * ω) cs' y) :
    Solves .lap (j * ω) (List.zipWith Cpt.addSrc cs cs') (fun i => x i + y i) :=
  C03.superposition .lap (j * ω) cs cs' x y hs hx hy

/-! ### sinusoid ↔ phasor (lcapy/phasor.py): a·cos(ωt) + b·sin(ωt)  ↔  a − j·b -/

/-- (cos coefficient, sin coefficient) ↦ (re, im) -/
def toPhasor (ab : K × K) : K × K := (ab.1, -ab.2)
/-- (re, im) ↦ (cos coefficient, sin coefficient): Re((re + j·im)(cos ωt + j sin ωt)) -/
def toTime (p : K × K) : K × K := (p.1, -p.2)

/-- value of the sinusoid at an instant where cos(ωt) = C and sin(ωt) = S -/
def semTime (C S : K) (ab : K × K) : K := ab.1 * C + ab.2 * S
/-- Re(P·e^{jωt}) -/
def semPhasor (C S : K) (p : K × K) : K := p.1 * C - p.2 * S

theorem phasor_time_roundtrip (ab : K × K) : toTime (toPhasor ab) = ab := by
  simp [toTime, toPhasor]

theorem time_phasor_roundtrip (p : K × K) : toPhasor (toTime p) = p := by
  simp [toTime, toPhasor]

/-- the reconstructed time signal is the sinusoid the phasor stands for -/
theorem phasor_sem (C S : K) (ab : K × K) : semPhasor C S (toPhasor ab) = semTime C S ab := by
  simp [semPhasor, semTime, toPhasor]

/-- sin/cos conventions: cos ↦ 1, sin ↦ −j -/
example : toPhasor ((1 : ℚ), 0) = (1, 0) ∧ toPhasor ((0 : ℚ), 1) = (0, -1) := by
  simp [toPhasor]

/-- sinusoids of one frequency add as phasors -/
theorem phasor_add (ab cd : K × K) :
    toPhasor (ab.1 + cd.1, ab.2 + cd.2) = ((toPhasor ab).1 + (toPhasor cd).1, (toPhasor ab).2 + (toPhasor cd).2) := by
  simp [toPhasor]; ring

end Lcapy.C14
