/-
  C20 -- schematic layout honours every orientation and minimum-size hint: property theorems.

  Spec   : Lcapy/Spec/Layout.lean   (`Satisfies`, `Hint.Sat`, `Body.Sat`, `checkPos`)
  Model  : Lcapy/Model/Layout.lean  (constraint generation of `SchemPlacerBase._make_graphs`, longest-path placer)
  Table  : Lcapy/Generated/LayoutTable.lean (regenerated from /repo on every run)
  Proofs : Lcapy/Proofs/LayoutBase.lean

  Claimed partial: the worklist heuristics of Lcapy's own placers (schemgraph.assign_stretchy, schemlineqplacer)
  are not proved; their output is judged per layout by the proven checker.  TikZ text is outside the model.
-/
import Lcapy.Proofs.LayoutBase

namespace Lcapy.C20
open Lcapy.Layout

/-! ## 1. the checker run on Lcapy's positions decides the specification -/

theorem check_sound (S : Spec) (L : Layout) : checkPos S L = true → Satisfies L S := by
  intro h
  unfold checkPos at h
  rw [Bool.and_eq_true, List.all_eq_true, List.all_eq_true] at h
  refine ⟨fun n hn => ?_, fun it hit => (item_check_iff L it).1 (h.2 it hit)⟩
  simpa using h.1 n hn

theorem check_complete (S : Spec) (L : Layout) : Satisfies L S → checkPos S L = true := by
  intro h
  unfold checkPos
  rw [Bool.and_eq_true, List.all_eq_true, List.all_eq_true]
  exact ⟨fun n hn => by simpa using h.1 n hn, fun it hit => (item_check_iff L it).2 (h.2 it hit)⟩

/-! ## 2. the generated constraints encode exactly the hints -/

/-- One axis of one component, any number of pins, any order, any size `s ≥ 0`, stretchy or fixed:
    the node links (`_xlink`) and the chain of edges over the descending argsort (`_place`, `Graph.add`)
    hold for coordinates `c` **iff** every two pins with values `v_lo ≤ v_hi` have the same coordinate
    (equal values: zero-length constraint) resp. lie `≥` (stretchy) / `=` (fixed) `(v_hi − v_lo)·s·k` apart. -/
theorem constraints_pairwise (k s : Rat) (st : Bool) (c : String → Rat) (l : List (Rat × String)) (hs : 0 ≤ s) :
    ((∀ p ∈ linkPairs l, c p.1 = c p.2) ∧ (∀ e ∈ chainEdges s st (sortDesc l), e.Sat k c))
      ↔ ∀ a ∈ l, ∀ b ∈ l, b.1 ≤ a.1 →
          (a.1 = b.1 → c a.2 = c b.2) ∧ (b.1 < a.1 → Reach (!st) (c a.2 - c b.2) ((a.1 - b.1) * s * k)) :=
  place_pairwise k s st c l hs

/-- One component: the x/y links and edges the model generates for it hold on a layout **iff** its spec item
    holds -- the `Hint` (second node in the hinted direction on the same axis, distance ≥ size·spacing, = when
    fixed) for a two-node component along an axis, the rigid `Body` for a multi-pin component. -/
theorem constraints_match_hints (k : Rat) (L : Layout) (r : Resolved) (hk : 0 < k) (hskip : r.skip = false)
    (hsz : r.sizeOk k = true) (it : Item) (hi : r.item k = some it) : r.graphs.Sat k L ↔ it.Sat L :=
  elt_match k L r hk hskip hsz it hi

/-- Whole netlist: the graphs built by `_make_graphs` are satisfied by a layout iff all spec items are.
    (`free`, `ignore`d and unplaced components contribute neither edges nor items.) -/
theorem constraints_match_hints_all (k : Rat) (L : Layout) (hk : 0 < k) (rs : List Resolved)
    (hsz : ∀ r ∈ rs, r.sizeOk k = true) :
    (makeGraphs rs).Sat k L ↔ ∀ it ∈ rs.filterMap (Resolved.item k), it.Sat L :=
  all_match k L hk rs hsz

/-- hence a layout passes the checker for `⟨nodes, items⟩` iff every drawn node is placed once and the generated
    graphs hold -/
theorem checkPos_iff_graphs (k : Rat) (L : Layout) (hk : 0 < k) (nodes : List String) (rs : List Resolved)
    (hsz : ∀ r ∈ rs, r.sizeOk k = true) :
    checkPos ⟨nodes, rs.filterMap (Resolved.item k)⟩ L = true ↔
      (∀ n ∈ nodes, L.count n = 1) ∧ (makeGraphs rs).Sat k L := by
  rw [constraints_match_hints_all k L hk rs hsz]
  exact ⟨fun h => check_sound _ L h, fun h => check_complete _ L h⟩

/-- The one-port classes of the generated table all carry the Bipole geometry: pins `+` at (−1/2, 0) and `−` at
    (1/2, 0), both nodes drawn, stretchable, unit width.  (Complete finite table, re-decided after every
    regeneration from /repo.) -/
theorem one_port_rows :
    (∀ cls ∈ ["R", "C", "L", "V", "I", "D", "W", "O", "P", "Y", "Z", "SW", "FB", "CPE", "BAT", "VM", "AM", "NR", "XT", "FS"],
      lookupRow cls = lookupRow "Bipole") ∧
    (lookupRow "Bipole").map (fun r => r.pins.map (fun p => (p.name, p.x, p.y))) = some [("+", -1/2, 0), ("-", 1/2, 0)] ∧
    (lookupRow "Bipole").map (fun r => (r.nodePinnames, r.canStretch, r.place, r.directive)) = some (["+", "-"], true, true, false) ∧
    (lookupRow "Bipole").map (fun r => (r.defaultWidth * r.shapeScale, r.w, r.defaultAspect)) = some (1, 1, 1) := by
  refine ⟨?_, by decide +kernel, by decide +kernel, by decide +kernel⟩
  intro cls h
  simp only [List.mem_cons, List.mem_nil_iff, or_false] at h
  rcases h with rfl | rfl | rfl | rfl | rfl | rfl | rfl | rfl | rfl | rfl | rfl | rfl | rfl | rfl | rfl | rfl | rfl | rfl | rfl | rfl <;> rfl

/-- A one-port whose two nodes carry the Bipole pins rotated by any multiple of 90 degrees gets the hint
    "second node in direction `dirOfAngle angle`, length size·k" -- for every size, scale-free. -/
theorem one_port_item (k : Rat) (r : Resolved) (a b : String) (ta tb : Rat × Rat) (hskip : r.skip = false)
    (hp : r.pins = [(a, ta), (b, tb)])
    (ha : rotExact r.angle (-1/2, 0) = some ta) (hb : rotExact r.angle (1/2, 0) = some tb) :
    ∃ d, dirOfAngle r.angle = some d ∧ r.item k = some (.hint ⟨a, b, d, r.size * k, !r.stretch⟩) :=
  one_port_item_exact k r a b ta tb hskip hp ha hb

/-- ... and that is literally the item the specification assigns to a one-port from its hinted angle alone
    (`specItem` does not look at pin coordinates): spec and model agree on every one-port -/
theorem one_port_spec_item (k : Rat) (r : Resolved) (a b : String) (ta tb : Rat × Rat) (hskip : r.skip = false)
    (hop : r.onePort = true) (hp : r.pins = [(a, ta), (b, tb)])
    (ha : rotExact r.angle (-1/2, 0) = some ta) (hb : rotExact r.angle (1/2, 0) = some tb) :
    r.specItem k = r.item k := by
  obtain ⟨d, hd, hi⟩ := one_port_item k r a b ta tb hskip hp ha hb
  rw [hi]
  unfold Resolved.specItem
  simp only [hskip, hop, hp, hd, Bool.false_eq_true, if_false]

/-- The rotation of the code (`Cpt.R`: the generated `Rdict` = `Gen.rotTable`, looked up after the normalisation
    `Gen.rotNormalise` if the source has one) agrees with the quarter-turn meaning wherever it applies.  Outside the
    table the code uses float cos/sin and the model refuses (`unsupported-angle`), while `rotExact` still says what the
    hint means.  Re-proved against the regenerated table on every run. -/
theorem rotCode_agrees (a : Rat) (v w : Rat × Rat) (h : rotCode a v = some w) : rotExact a v = some w :=
  rotCode_rotExact a v w h

/-- lifted through the resolver: an element / a netlist that the model of the code resolves is resolved to the same
    thing by the rotation the hints mean; so `graphsOf` (model of `_make_graphs`) and `specOf` (meaning of the hints)
    work on the same resolved elements whenever the former is defined -/
theorem resolve_agrees (k : Rat) (all : List String) (e : Elt) (r : Resolved)
    (h : resolveWith rotCode k all e = .ok r) : resolveWith rotExact k all e = .ok r :=
  resolveWith_agrees k all e r h

theorem resolve_all_agrees (n : Netlist) (x : List String × List Resolved)
    (h : resolveAll rotCode n = .ok x) : resolveAll rotExact n = .ok x :=
  resolveAll_agrees n x h

/-! ## 3. longest-path placement (the model's placer, witness of consistency) -/

/-- On a DAG presented with a duplicate-free (reverse) topological order -- any number of nodes and edges, any
    sizes -- the longest-path distances satisfy every ≥-constraint. -/
theorem longest_path_feasible (edges : List WEdge) (l : List String) (hnd : l.Nodup) (ht : RevTopo edges l) :
    ∀ e ∈ edges, e.src ∈ l → e.dst ∈ l → e.size ≤ lp edges l e.dst - lp edges l e.src :=
  lp_feasible edges l hnd ht

/-- the executable order check used by `placeAxis` decides `RevTopo` -/
theorem revTopo_check (edges : List WEdge) (l : List String) : revTopoB edges l = true ↔ RevTopo edges l :=
  revTopoB_iff edges l

theorem longest_path_nonneg (edges : List WEdge) (l : List String) (u : String) : 0 ≤ lp edges l u :=
  lp_nonneg edges l u

/-- partial: a fixed-size edge is drawn with exactly its size when it is the only edge into its head.
    Not covered: fixed edges competing with other constraints on the same node (no conflicting fixed cycles is not
    enough for the plain longest-path rule); such layouts are judged case by case by `checkPos`. -/
theorem fixed_edges_exact_partial (edges : List WEdge) (l : List String) (hnd : l.Nodup) (ht : RevTopo edges l)
    (e : WEdge) (he : e ∈ edges) (hs : e.src ∈ l) (hd : e.dst ∈ l) (hsz : 0 ≤ e.size)
    (hu : ∀ e' ∈ edges, e'.dst = e.dst → e' = e) : lp edges l e.dst - lp edges l e.src = e.size :=
  lp_exact_of_unique edges l hnd ht e he hs hd hsz hu

/-- partial, chains: along a walk of fixed-size edges each of which is the only edge into its head, the placed distance
    between the ends is exactly the sum of the sizes (any length). -/
theorem fixed_chain_exact_partial (edges : List WEdge) (l : List String) (hnd : l.Nodup) (ht : RevTopo edges l)
    (path : List WEdge) (s : String) (hp : PathFrom s path)
    (hall : ∀ e ∈ path, e ∈ edges ∧ e.src ∈ l ∧ e.dst ∈ l ∧ 0 ≤ e.size ∧ ∀ e' ∈ edges, e'.dst = e.dst → e' = e) :
    lp edges l (pathEnd s path) - lp edges l s = (path.map (·.size)).sum :=
  lp_exact_chain edges l hnd ht path s hp hall

/-! ## non-vacuity -/

/-- a resistor drawn `right=2` between nodes 1 and 2 with spacing 2: hypotheses of `constraints_match_hints` hold -/
example : Resolved.sizeOk 2 ⟨"R1", "R", [("1", (-1/2, 0)), ("2", (1/2, 0))], 0, 2, true, false, true⟩ = true ∧
    Resolved.item 2 ⟨"R1", "R", [("1", (-1/2, 0)), ("2", (1/2, 0))], 0, 2, true, false, true⟩
      = some (.hint ⟨"1", "2", .right, 4, false⟩) := by
  decide +kernel

/-- a fixed three-pin body (opamp-like) is accepted by `sizeOk` and yields a `Body` item -/
example : Resolved.sizeOk 2 ⟨"E1", "Eopamp", [("o", (5/4, 0)), ("p", (-5/4, 1/2)), ("m", (-5/4, -1/2))], 0, 1, false, false, false⟩ = true ∧
    (Resolved.item 2 ⟨"E1", "Eopamp", [("o", (5/4, 0)), ("p", (-5/4, 1/2)), ("m", (-5/4, -1/2))], 0, 1, false, false, false⟩).isSome = true := by
  decide +kernel

/-- a diamond DAG with a long and a short branch satisfies the hypotheses of `longest_path_feasible`, and the
    short branch is stretched (the bound is not tight everywhere) -/
example : ["d", "c", "b", "a"].Nodup ∧
    revTopoB [⟨"a", "b", 1⟩, ⟨"b", "d", 1⟩, ⟨"a", "c", 3⟩, ⟨"c", "d", 2⟩] ["d", "c", "b", "a"] = true ∧
    lp [⟨"a", "b", 1⟩, ⟨"b", "d", 1⟩, ⟨"a", "c", 3⟩, ⟨"c", "d", 2⟩] ["d", "c", "b", "a"] "d" = 5 ∧
    lp [⟨"a", "b", 1⟩, ⟨"b", "d", 1⟩, ⟨"a", "c", 3⟩, ⟨"c", "d", 2⟩] ["d", "c", "b", "a"] "b" = 1 := by
  decide +kernel

/-- `fixed_edges_exact_partial`: the uniqueness hypothesis is satisfiable -/
example : (∀ e' ∈ ([⟨"a", "b", 2⟩, ⟨"b", "c", 1⟩] : List WEdge), e'.dst = "b" → e' = ⟨"a", "b", 2⟩) ∧
    revTopoB [⟨"a", "b", 2⟩, ⟨"b", "c", 1⟩] ["c", "b", "a"] = true := by
  decide +kernel

/-- the checker accepts a correct layout and rejects a short one -/
example : checkPos ⟨["1", "2"], [.hint ⟨"1", "2", .right, 4, false⟩]⟩ [("1", (0, 0)), ("2", (5, 0))] = true ∧
          checkPos ⟨["1", "2"], [.hint ⟨"1", "2", .right, 4, false⟩]⟩ [("1", (0, 0)), ("2", (3, 0))] = false ∧
          checkPos ⟨["1", "2"], [.hint ⟨"1", "2", .right, 4, false⟩]⟩ [("1", (0, 0)), ("2", (5, 1))] = false := by
  decide +kernel

/-- `fixed_chain_exact_partial`: a two-edge fixed chain satisfies the hypotheses -/
example : PathFrom "a" [⟨"a", "b", 2⟩, ⟨"b", "c", 1⟩] ∧ pathEnd "a" [⟨"a", "b", 2⟩, ⟨"b", "c", 1⟩] = "c" ∧
    lp [⟨"a", "b", 2⟩, ⟨"b", "c", 1⟩] ["c", "b", "a"] "c" = 3 := by
  refine ⟨⟨rfl, rfl, trivial⟩, rfl, by decide +kernel⟩

/-- `rotCode_agrees` / `resolve_agrees`: the code's table applies to `down` (-90) -/
example : rotCode (-90) (1/2, 0) = some (0, -1/2) := by decide +kernel

end Lcapy.C20
