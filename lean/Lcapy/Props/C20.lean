/-
  C20 -- schematic layout honours every orientation and minimum-size hint: property theorems.
-/
import Lcapy.Proofs.LayoutBase

namespace Lcapy.C20
open Lcapy.Layout

/-- the executable checker run on Lcapy's positions decides the specification, for every spec and layout -/
theorem check_sound (S : Spec) (L : Layout) : checkPos S L = true → Satisfies L S := by
  intro h
  unfold checkPos at h
  rw [Bool.and_eq_true, List.all_eq_true, List.all_eq_true] at h
  refine ⟨fun n hn => ?_, fun it hit => (item_check_iff L it).1 (h.2 it hit)⟩
  simpa using h.1 n hn

theorem check_complete (S : Spec) (L : Layout) : Satisfies L S → checkPos S L = true := by
  intro h
  unfold checkPos
  rw [Bool.and_eq_true, List.all_eq_true, List.all_eq_true]
  exact ⟨fun n hn => by simpa using h.1 n hn, fun it hit => (item_check_iff L it).2 (h.2 it hit)⟩

end Lcapy.C20
