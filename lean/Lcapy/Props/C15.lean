/-
  PROPERTY C15 -- every equation formulation Lcapy prints is satisfied by the solution it reports.

  Spec side : `Laws` (Spec/Laws.lean: KCL + every component's defining relation), `Realises`
              (Spec/StateSpace.lean: the state and output equations of a realisation reproduce b(s)/a(s)).
  Model side: `nodalEq`, `meshEq` (Model/Formulations.lean), `ccf`, `ocf`, `dcf` (Model/Realisations.lean).
  Findings F13, C15-b, C15-d, C15-g, C15-h, C15-j, C15-f are fixed in /repo: the models mirror the fixed code
  and the theorems are at full strength.  Finding C15-c (mesh analysis identifies parallel components by
  node pair) is KNOWN and open: `pe = false` is the code as it is in /repo -- the CLAIMED theorem about it is
  `mesh_eqs_hold_partial` (graphs without parallel components; the excluded region is covered by the oracle of
  harness/c15.py on the real code, which reports KNOWN-FINDING C15-c).  `pe = true` is the code with the PROPOSED
  patch fix-C15-c, which is NOT applied to /repo (it needs a correction of the unit test that pins the defect):
  `mesh_eqs_hold` (and Props/C15Mesh.lean) are theorems about that patch, not about /repo.
  Finding C15-k (mutual couplings are ignored by nodal and mesh analysis) is KNOWN and open: `NodalDefined` /
  `MeshDefined` require uncoupled inductors, the oracle covers circuits with K lines on the real code.
  Only property theorems live here; helper lemmas are in Proofs/Formulations.lean, Proofs/Realisations.lean.
-/
import Lcapy.Proofs.Formulations
import Lcapy.Proofs.Realisations
import Lcapy.Proofs.StateExists
import Mathlib.Tactic.NormNum
namespace Lcapy.C15
open Lcapy.MNA Lcapy.Formulations Lcapy.StateSpace Ix
variable {K : Type} [Field K]

/-! ## nodal analysis -/

/-- the nodal formulation is defined for the netlist: one-ports R, Y, C, L, V, I only (the code
    raises for dependent sources and two-ports), no shorted component, resistors with R ≠ 0 (the code prints `zoo`
    for a 0-ohm resistor; the harness covers that branch), inductors with
    finite admittance 1/(sL) (so not in DC, where the code prints `zoo`) and UNCOUPLED: the code does not refuse
    K lines, it ignores them (finding C15-k, known) -- that region is excluded here and covered by the oracle. -/
def NodalDefined (kind : Kind) (s : K) (cs : List (Cpt K)) : Prop := ∀ c ∈ cs, OkCpt kind s c

/-- **nodal_eqs_hold**: for every netlist of any size, in every analysis kind, at
    every point s, an assignment that obeys Kirchhoff's laws and the component relations satisfies
    the equation the nodal formulation files under every node k: the voltage-source constraint
    `V[n1] = V[n2] + Voc` when a voltage source is attached, else KCL written with
    `current_equation` of each incident component. -/
theorem nodal_eqs_hold (kind : Kind) (s : K) (cs : List (Cpt K)) (x : Ix → K)
    (hdef : NodalDefined kind s cs) (hlaws : Laws kind s cs x) (k : Nat) (hk : k ≠ 0) :
    (nodalEq kind s cs k).eval x = 0 := by
  unfold nodalEq
  cases hh : (cs.filter (fun c => isV c && incident k c)).head? with
  | some c =>
    have hmem : c ∈ cs.filter (fun c => isV c && incident k c) := List.mem_of_mem_head? hh
    have hc := List.mem_filter.mp hmem
    cases c <;> simp [isV] at hc
    rename_i n1 n2 m v
    have := hlaws.2 _ hc.1 (m, _) (by simp [laws]; rfl)
    simp only at this
    simp [LinForm.eval, lsum]
    simp only [vd] at this
    linear_combination this
  | none =>
    have hnoV : ∀ c ∈ cs, incident k c = true → isV c = false := by
      intro c hc hi
      by_contra hv
      simp only [Bool.not_eq_false] at hv
      have : c ∈ cs.filter (fun c => isV c && incident k c) := List.mem_filter.mpr ⟨hc, by simp [hv, hi]⟩
      rw [List.head?_eq_none_iff] at hh
      rw [hh] at this
      simp at this
    simp only
    rw [eval_sumForms, kcl_sum_filter kind s x k cs]
    · exact hlaws.1 k hk
    · intro c hc
      refine ⟨fun hi => ?_, fun hi => outflow_not_incident kind s x k c (hdef c hc) hi⟩
      exact kclTerm_patched kind s x k c (hdef c hc) (hnoV c hc hi) hi (hlaws.2 c hc)

/-- non-vacuity, on the F13 circuit: `I1 1 0 dc 2; R1 1 2 3; R2 2 0 5`, V1 = 16, V2 = 10 -/
def f13 : List (Cpt ℚ) := [.I 1 0 2, .R 1 2 3, .R 2 0 5]
def f13x : Ix → ℚ := fun i => match i with | node 1 => 16 | node 2 => 10 | _ => 0

example : NodalDefined .dc 0 f13 := by intro c hc; simp [f13] at hc; rcases hc with rfl | rfl | rfl <;> simp [OkCpt]

theorem f13_laws : Laws .dc 0 f13 f13x := by
  constructor
  · intro k hk
    match k with
    | 0 => exact absurd rfl hk
    | 1 => norm_num [f13, f13x, outflow, twoTerm, lsum, vd, volt]
    | 2 => norm_num [f13, f13x, outflow, twoTerm, lsum, vd, volt]
    | (k + 3) => simp [f13, outflow, twoTerm, lsum]
  · intro c hc p hp
    simp [f13] at hc
    rcases hc with rfl | rfl | rfl <;> simp [laws] at hp

/-- regression for F13 (fixed): the equation for node 1 is `V1/3 − V2/3 − 2 = 0`; it evaluates to 0 at
    the solution (the pre-fix `… + 2` evaluated to 4) -/
theorem f13_fixed : (nodalEq .dc 0 f13 1).eval f13x = 0 ∧ (nodalEq .dc 0 f13 1).const = -2 := by
  constructor <;>
    norm_num [nodalEq, f13, f13x, isV, incident, nodes2, kclTerm, curEq, isI, sumForms, LinForm.add, LinForm.zero,
              LinForm.eval, lsum, volt]

/-! ## Kirchhoff's voltage law -/

/-- **kvl_telescopes**: around ANY closed walk through graph nodes (of any length, repeated nodes
    allowed) the potential rises sum to zero. -/
theorem kvl_telescopes (x : Ix → K) (loop : List GNode) :
    lsum ((loopPairs loop).map (fun pq => gvolt x pq.2 - gvolt x pq.1)) = 0 := by
  cases loop with
  | nil => simp [loopPairs, lsum]
  | cons a t =>
    simp only [loopPairs]
    rw [pairsFrom_telescope (gvolt x) a a t, sub_self]

/-! ## mesh analysis -/

/-- the mesh formulation is defined for the netlist: R, Y, C, L, V with an impedance at s (the code
    raises for current sources and dependent sources), no shorted component, no mutual coupling -/
def MeshDefined (kind : Kind) (s : K) (cs : List (Cpt K)) : Prop := ∀ c ∈ cs, MeshOk kind s c

/-- the mesh currents `im` carry the solution `x`: for every passive component the loop passes
    through, the current the code accumulates from the mesh currents (`_add_mesh_currents`) is
    the component's actual current (the code's sign: from second to first node) -/
def MeshConsistent (patched : Bool) (kind : Kind) (s : K) (cs : List (Cpt K)) (loops : List (List GNode))
    (x : Ix → K) (im : Nat → K) (loop : List GNode) : Prop :=
  ∀ ab ∈ loopPairs loop, ∀ idx c, component (buildGraph cs) ab.1 ab.2 = some (idx, c) → isV c = false →
    meshCurrent patched (buildGraph cs) loops idx c im = -(through kind s x c)

/-- **mesh_eqs_hold** -- a theorem about the PROPOSED PATCH fix-C15-c (`pe = true`: a component is the graph edge that
    holds it, parallel components included), NOT about the code in /repo (for that see `mesh_eqs_hold_partial`):
    for every netlist, every list of loops handed in by the cycle
    search and every loop among them that passes the decidable `isSimpleCycle` check against the
    circuit graph, the KVL equation `_process_loop` writes is satisfied by any solution of the
    circuit laws, with mesh currents that carry that solution. -/
theorem mesh_eqs_hold (kind : Kind) (s : K) (cs : List (Cpt K)) (x : Ix → K) (loops : List (List GNode))
    (im : Nat → K) (hdef : MeshDefined kind s cs) (hlaws : Laws kind s cs x) (loop : List GNode)
    (hcyc : isSimpleCycle (buildGraph cs) loop = true)
    (hcons : MeshConsistent true kind s cs loops x im loop)
    (f : MeshForm K) (hf : meshEq true kind s (buildGraph cs) loops loop = some f) : f.eval im = 0 := by
  rw [meshEq_eval true kind s (buildGraph cs) loops x im (loopPairs loop) ?_ f hf]
  · exact kvl_telescopes x loop
  · intro ab hab t ht
    exact meshTerm_eval true kind s cs (buildGraph cs) (buildGraph_ok cs) loops x im hlaws hdef
      (fun h => absurd h (by simp)) ab (adjacent_of_cycle _ loop hcyc ab hab) (hcons ab hab) t ht

/-- non-vacuity: V1 1 0 6; R1 1 2 3; R2 2 0 5 with its solution, the loop 0-1-2 and the mesh current 3/4 -/
example : isSimpleCycle (buildGraph exCkt) exLoop = true := exLoop_cycle
example : MeshDefined .dc (0 : ℚ) exCkt := by
  intro c hc; simp [exCkt] at hc; rcases hc with rfl | rfl | rfl <;> simp [MeshOk]
example : MeshConsistent true .dc 0 exCkt [exLoop] exSol (fun _ => 3/4) exLoop := by
  intro ab hab idx c hc hv
  rcases exIdx ab hab idx c hc hv with ⟨rfl, rfl⟩ | ⟨rfl, rfl⟩
  · simp only [meshCurrent, nodes2, if_true, exAcc1]
    norm_num [accCoeffs, lsum, through, exSol, vd, volt]
  · simp only [meshCurrent, nodes2, if_true, exAcc2]
    norm_num [accCoeffs, lsum, through, exSol, vd, volt]

/- Full statement for the code as it is -- FALSE (finding C15-c, known):
   theorem mesh_eqs_hold_asis … (hcons : MeshConsistent false …) (hf : meshEq false … = some f) : f.eval im = 0
   fails for `V1 1 0 step 6; R1 1 2 3; R2 2 0 5; R3 2 0 7` (parallel R2, R3: prints 12 I1 − 12 I2 = 0). -/

/-- **mesh_eqs_hold_partial** -- THE CLAIMED THEOREM ABOUT THE CODE AS IT IS IN /repo (`pe = false`): the same
    conclusion when the graph has no dummy node, i.e. no two components join the same pair of nodes (C15-c).
    The excluded region is covered by the oracle on the real code (KNOWN-FINDING C15-c).  Initial conditions are
    included (C15-d is fixed); inductors are uncoupled (`MeshDefined`; C15-k). -/
theorem mesh_eqs_hold_partial (kind : Kind) (s : K) (cs : List (Cpt K)) (x : Ix → K) (loops : List (List GNode))
    (im : Nat → K) (hdef : MeshDefined kind s cs) (hlaws : Laws kind s cs x) (loop : List GNode)
    (hcyc : isSimpleCycle (buildGraph cs) loop = true)
    (hnopar : ∀ e ∈ buildGraph cs, ∃ n, e.b = GNode.real n)
    (hcons : MeshConsistent false kind s cs loops x im loop)
    (f : MeshForm K) (hf : meshEq false kind s (buildGraph cs) loops loop = some f) : f.eval im = 0 :=
  Formulations.mesh_eqs_hold_prefix kind s cs x loops im hdef hlaws loop hcyc hnopar hcons f hf

/-- non-vacuity of `mesh_eqs_hold_partial`: the example circuit has no parallel components -/
example : ∀ e ∈ buildGraph exCkt, ∃ n, e.b = GNode.real n := by
  intro e he
  simp [buildGraph, enum, exCkt, addCpt, nodes2, hasEdge, Edge.joins, List.range, List.range.loop] at he
  rcases he with rfl | rfl | rfl <;> exact ⟨_, rfl⟩

/-! ## canonical state-space realisations of a transfer function (continuous and discrete time) -/

/-- **ss_output_unique**: for ANY state-space model (A, B, C, D) of any order, at a point s that is not a
    natural frequency the Laplace-domain state equation (sI − A)X = B·U has at most one solution (inside the order),
    so all solutions have the same output. -/
theorem ss_output_unique (sys : SS K) (s : K) (hns : ¬ IsNaturalFreq sys s) (X H : Nat → K)
    (hX : StateEq sys s X) (hH : StateEq sys s H) : output sys X = output sys H := by
  have hz : ∀ i, i < sys.n → X i = H i := by
    intro i hi
    by_contra hne
    apply hns
    refine ⟨fun j => X j - H j, ⟨i, hi, sub_ne_zero.mpr hne⟩, ?_⟩
    intro k hk
    have h1 := hX k hk
    have h2 := hH k hk
    simp only [stateRow] at h1 h2
    have : sumTo sys.n (fun j => sys.A k j * (X j - H j)) =
        sumTo sys.n (fun j => sys.A k j * X j) - sumTo sys.n (fun j => sys.A k j * H j) := by
      rw [← sumTo_sub]; apply sumTo_congr; intro j _; ring
    rw [this]
    linear_combination h1 - h2
  simp only [output]
  congr 1
  apply sumTo_congr
  intro j hj
  rw [hz j hj]

/-- **ss_transfer**: for ANY state-space model (A, B, C, D) of any order and any point s that is not a natural
    frequency (not an eigenvalue of A), the transfer function value  G(s) = C (sI − A)⁻¹ B + D  is well defined without
    mentioning an inverse: the state equation (sI − A)X = B has a solution (an injective endomorphism of Kⁿ is
    surjective), and there is ONE value g that the output  C·X + D  takes at every solution.  `Realises`, `ccf_realises`,
    `ocf_realises` identify this g with b(s)/a(s) for the canonical forms; `C15SS.ss_from_circuit` ties the matrices of
    a circuit to its laws. -/
theorem ss_transfer (sys : SS K) (s : K) (hns : ¬ IsNaturalFreq sys s) :
    ∃ g, (∃ X, StateEq sys s X) ∧ ∀ X, StateEq sys s X → output sys X = g := by
  obtain ⟨H, hH⟩ := state_exists sys s hns
  exact ⟨output sys H, ⟨H, hH⟩, fun X hX => ss_output_unique sys s hns X H hX hH⟩

/-- **ccf_realises**: for coefficient lists of ANY degree, the controllable canonical form that
    `from_ba_CCF` builds (after its normalisation by a₀ and zero padding of b) has the transfer
    function b(s)/a(s): at every s with a(s) ≠ 0 the state equation (sI − A)X = B is solvable and
    every solution gives C·X + D = b(s)/a(s).  The same statement with z for s is the
    discrete-time one (`DTStateSpace` uses the same constructor). -/
theorem ccf_realises (b a : List K) (h : ProperTF b a) : ∃ sys, ccf b a = some sys ∧ Realises sys b a := by
  obtain ⟨b', a', hprep, hla, hlb, ha0, hval⟩ := prep_spec b a h
  obtain ⟨hlen, hlead, _⟩ := h
  refine ⟨ccfOf b' a', by simp [ccf, hprep], ?_⟩
  obtain ⟨N, hN⟩ : ∃ N, a.length = N + 1 := ⟨a.length - 1, by omega⟩
  have hN1 : 1 ≤ N := by omega
  have ha' : a'.length = N + 1 := by omega
  have hb' : b'.length = N + 1 := by omega
  have hn : (ccfOf b' a').n = N := by simp [ccfOf, ha']
  intro s hs
  have hpa : polyEval a' s ≠ 0 := by rw [(hval s).1]; exact div_ne_zero hs hlead
  have hB : ∀ i, (ccfOf b' a').B i = if i + 1 = N then 1 else 0 := by intro i; simp [ccfOf, ha']
  constructor
  · refine ⟨fun n => pw s n * (1 / polyEval a' s), ?_⟩
    intro i hi
    rw [hn] at hi
    simp only [stateRow, hn]
    rw [ccf_rows_conv b' a' N ha' hN1 ha0 s _ i hi, hB]
    split_ifs
    · field_simp
    · rfl
  · intro X hX
    have hrow : ∀ i, i < N → s * X i - sumTo N (fun j => (ccfOf b' a').A i j * X j) = (ccfOf b' a').B i := by
      intro i hi
      have := hX i (by rw [hn]; exact hi)
      simpa only [stateRow, hn] using this
    obtain ⟨hpow, hX0⟩ := ccf_rows b' a' N ha' hN1 ha0 s X _ hrow (by intro i hi; rw [hB]; simp; omega)
    rw [hB, if_pos (by omega)] at hX0
    have := ccf_output b' a' N ha' hb' ha0 s X hpow hX0
    rw [(hval s).1, (hval s).2] at this
    field_simp at this
    exact this

/-- **ccf_natural_freqs** (`charpoly_natural_freqs`): the natural frequencies of the companion
    matrix -- the points where (sI − A) is singular, i.e. the roots of its characteristic
    polynomial -- are exactly the roots of the denominator a(s), for every degree. -/
theorem ccf_natural_freqs (b a : List K) (h : ProperTF b a) (s : K) :
    ∃ sys, ccf b a = some sys ∧ (IsNaturalFreq sys s ↔ polyEval a s = 0) := by
  obtain ⟨b', a', hprep, hla, hlb, ha0, hval⟩ := prep_spec b a h
  obtain ⟨hlen, hlead, _⟩ := h
  refine ⟨ccfOf b' a', by simp [ccf, hprep], ?_⟩
  obtain ⟨N, hN⟩ : ∃ N, a.length = N + 1 := ⟨a.length - 1, by omega⟩
  have hN1 : 1 ≤ N := by omega
  have ha' : a'.length = N + 1 := by omega
  have hn : (ccfOf b' a').n = N := by simp [ccfOf, ha']
  have hiff : polyEval a s = 0 ↔ polyEval a' s = 0 := by
    rw [(hval s).1]; constructor
    · intro h0; rw [h0, zero_div]
    · intro h0; rcases div_eq_zero_iff.mp h0 with h1 | h1
      · exact h1
      · exact absurd h1 hlead
  rw [hiff]
  constructor
  · rintro ⟨X, ⟨i, hi, hXi⟩, hrows⟩
    rw [hn] at hi hrows
    obtain ⟨hpow, hX0⟩ := ccf_rows b' a' N ha' hN1 ha0 s X (fun _ => 0) hrows (fun _ _ => rfl)
    by_contra hne
    have : X 0 = 0 := by
      rcases mul_eq_zero.mp hX0 with h1 | h1
      · exact absurd h1 hne
      · exact h1
    exact hXi (by rw [hpow i hi, this, mul_zero])
  · intro h0
    refine ⟨fun n => pw s n * 1, ⟨0, by rw [hn]; omega, by simp [pw]⟩, ?_⟩
    intro i hi
    rw [hn] at hi ⊢
    rw [ccf_rows_conv b' a' N ha' hN1 ha0 s 1 i hi, h0]
    simp

/-- **ocf_realises**: the observable canonical form of `from_ba_OCF` has the transfer function
    b(s)/a(s), for every degree (same statement with z for discrete time). -/
theorem ocf_realises (b a : List K) (h : ProperTF b a) : ∃ sys, ocf b a = some sys ∧ Realises sys b a := by
  obtain ⟨b', a', hprep, hla, hlb, ha0, hval⟩ := prep_spec b a h
  obtain ⟨hlen, hlead, _⟩ := h
  refine ⟨ocfOf b' a', by simp [ocf, hprep], ?_⟩
  obtain ⟨N, hN⟩ : ∃ N, a.length = N + 1 := ⟨a.length - 1, by omega⟩
  have hN1 : 1 ≤ N := by omega
  have ha' : a'.length = N + 1 := by omega
  have hb' : b'.length = N + 1 := by omega
  have hn : (ocfOf b' a').n = N := by simp [ocfOf, ha']
  intro s hs
  have hpa : polyEval a' s ≠ 0 := by rw [(hval s).1]; exact div_ne_zero hs hlead
  constructor
  · refine ⟨fun k => polyEval (a'.take (k + 1)) s * (polyEval b' s / polyEval a' s) - polyEval (b'.take (k + 1)) s, ?_⟩
    intro i hi
    rw [hn] at hi
    simp only [stateRow, hn]
    have := ocf_rows_conv b' a' N ha' hb' hN1 ha0 s (polyEval b' s / polyEval a' s) i hi
    simp only at this
    rw [sub_eq_iff_eq_add] at this
    rw [this, polyEval_take_one a' s (by omega), polyEval_take_one b' s (by omega), ha0]
    split_ifs
    · field_simp; ring
    · ring
  · intro X hX
    have hrow : ∀ i, i < N → s * X i - sumTo N (fun j => (ocfOf b' a').A i j * X j) = (ocfOf b' a').B i := by
      intro i hi
      have := hX i (by rw [hn]; exact hi)
      simpa only [stateRow, hn] using this
    obtain ⟨_, hy⟩ := ocf_rows b' a' N ha' hb' hN1 ha0 s X hrow
    have hout : output (ocfOf b' a') X = X 0 + coef b' 0 := by
      simp only [output, hn]
      have hC : ∀ j, (ocfOf b' a').C j * X j = if j = 0 then X j else 0 := by
        intro j; simp only [ocfOf]; split_ifs <;> simp
      rw [sumTo_congr N _ _ (fun j _ => hC j), sumTo_single, if_pos (by omega)]
      simp [ocfOf]
    rw [hout]
    rw [(hval s).1, (hval s).2] at hy
    field_simp at hy
    linear_combination hy

/-- **dcf_transfer_partial**: the diagonal form A = diag(p), B = ones, C = r, D = d has the transfer
    function d + Σ rᵢ/(s − pᵢ) at every s that is not a pole.  PARTIAL: the poles and residues are INPUTS (SymPy's root
    finding and `Ratfun.residue` are not modelled), one per state (`hp`, `hr`: a shorter list would read as poles at 0);
    that they are a partial-fraction expansion of b/a is the hypothesis of `dcf_realises_of_pf` below and is checked by the
    oracle on every case (findings C15-e/C15-j, fixed). -/
theorem dcf_transfer_partial (b a poles residues : List K) (s : K)
    (_hp : poles.length = a.length - 1) (_hr : residues.length = a.length - 1)
    (hs : ∀ i, i < a.length - 1 → s - coef poles i ≠ 0) (X : Nat → K)
    (hX : StateEq (dcfOf b a poles residues) s X) :
    output (dcfOf b a poles residues) X =
      sumTo (a.length - 1) (fun i => coef residues i / (s - coef poles i)) + (dcfOf b a poles residues).D := by
  simp only [output]
  have hn : (dcfOf b a poles residues).n = a.length - 1 := rfl
  rw [hn]
  congr 1
  apply sumTo_congr
  intro i hi
  have h := hX i (by rw [hn]; exact hi)
  simp only [stateRow, hn] at h
  have hA : ∀ j, (dcfOf b a poles residues).A i j * X j = if j = i then coef poles i * X j else 0 := by
    intro j; simp only [dcfOf]
    by_cases hji : j = i
    · subst hji; simp
    · have : ¬ (i = j) := fun h => hji h.symm
      simp [hji, this]
  rw [sumTo_congr _ _ _ (fun j _ => hA j), sumTo_single, if_pos hi] at h
  have hB : (dcfOf b a poles residues).B i = 1 := rfl
  rw [hB] at h
  have hXi : X i = 1 / (s - coef poles i) := by
    rw [eq_div_iff (hs i hi)]; linear_combination h
  simp only [dcfOf]
  rw [hXi]; ring

/-- **dcf_realises_of_pf**: IF the poles and residues handed to the diagonal form are a partial-fraction expansion of
    b/a -- every root-free point of a is no pole (`hpoles`) and there b(s)/a(s) = D + Σ rᵢ/(s − pᵢ) (`hpf`) -- THEN the
    diagonal form realises b/a in the sense of the Spec (`Realises`: the state equation is solvable and every solution
    gives b(s)/a(s)).  The two hypotheses are what the oracle evaluates on Lcapy's own poles and residues. -/
theorem dcf_realises_of_pf (b a poles residues : List K)
    (hp : poles.length = a.length - 1) (hr : residues.length = a.length - 1)
    (hpoles : ∀ s, polyEval a s ≠ 0 → ∀ i, i < a.length - 1 → s - coef poles i ≠ 0)
    (hpf : ∀ s, polyEval a s ≠ 0 → polyEval b s / polyEval a s =
      sumTo (a.length - 1) (fun i => coef residues i / (s - coef poles i)) + (dcfOf b a poles residues).D) :
    Realises (dcfOf b a poles residues) b a := by
  intro s hs
  have hne := hpoles s hs
  constructor
  · refine ⟨fun i => 1 / (s - coef poles i), ?_⟩
    intro i hi
    have hn : (dcfOf b a poles residues).n = a.length - 1 := rfl
    rw [hn] at hi
    simp only [stateRow, hn]
    have hA : ∀ j, (dcfOf b a poles residues).A i j * (1 / (s - coef poles j)) =
        if j = i then coef poles i * (1 / (s - coef poles i)) else 0 := by
      intro j; simp only [dcfOf]
      by_cases hji : j = i
      · subst hji; simp
      · have : ¬ (i = j) := fun h => hji h.symm
        simp [hji, this]
    rw [sumTo_congr _ _ _ (fun j _ => hA j), sumTo_single, if_pos hi]
    have hB : (dcfOf b a poles residues).B i = 1 := rfl
    rw [hB]
    have := hne i hi
    field_simp
  · intro X hX
    rw [dcf_transfer_partial b a poles residues s hp hr hne X hX, ← hpf s hs]
    field_simp

/-- non-vacuity: (3s² + 2s + 5)/(2s³ + 4s² + 7s + 1) is a proper transfer function -/
example : ProperTF ([3, 2, 5] : List ℚ) [2, 4, 7, 1] := by
  refine ⟨by simp, by norm_num [coef], by simp⟩

end Lcapy.C15
