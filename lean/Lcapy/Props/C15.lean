/-
  PROPERTY C15 -- every equation formulation Lcapy prints is satisfied by the solution it reports.

  Spec side : `Laws` (Spec/Laws.lean: KCL + every component's defining relation), `Realises`
              (Spec/StateSpace.lean: the state and output equations of a realisation reproduce b(s)/a(s)).
  Model side: `nodalEq`, `meshEq` (Model/Formulations.lean), `ccf`, `ocf`, `dcf` (Model/Realisations.lean).
  `patched = true` is the code with the minimal patches for findings F13/F18/F19/F20 applied,
  `patched = false` the code as it is; theorems about the latter are `…_partial` and name the
  excluded region, which the oracle of harness/c15.py covers on the real code.
  Only property theorems live here; helper lemmas are in Proofs/Formulations.lean, Proofs/Realisations.lean.
-/
import Lcapy.Proofs.Formulations
import Mathlib.Tactic.NormNum
namespace Lcapy.C15
open Lcapy.MNA Lcapy.Formulations Ix
variable {K : Type} [Field K]

/-! ## nodal analysis -/

/-- the nodal formulation is defined for the netlist: one-ports R, Y, C, L, V, I only (the code
    raises for dependent sources and two-ports), no shorted component, inductors uncoupled and with
    finite admittance 1/(sL) (so not in DC, where the code prints `zoo`). -/
def NodalDefined (kind : Kind) (s : K) (cs : List (Cpt K)) : Prop := ∀ c ∈ cs, OkCpt kind s c

/-- **nodal_eqs_hold** (patched code): for every netlist of any size, in every analysis kind, at
    every point s, an assignment that obeys Kirchhoff's laws and the component relations satisfies
    the equation the nodal formulation files under every node k: the voltage-source constraint
    `V[n1] = V[n2] + Voc` when a voltage source is attached, else KCL written with
    `current_equation` of each incident component. -/
theorem nodal_eqs_hold (kind : Kind) (s : K) (cs : List (Cpt K)) (x : Ix → K)
    (hdef : NodalDefined kind s cs) (hlaws : Laws kind s cs x) (k : Nat) (hk : k ≠ 0) :
    (nodalEq true kind s cs k).eval x = 0 := by
  unfold nodalEq
  cases hh : (cs.filter (fun c => isV c && incident k c)).head? with
  | some c =>
    have hmem : c ∈ cs.filter (fun c => isV c && incident k c) := List.mem_of_mem_head? hh
    have hc := List.mem_filter.mp hmem
    cases c <;> simp [isV] at hc
    rename_i n1 n2 m v
    have := hlaws.2 _ hc.1 (m, _) (by simp [laws]; rfl)
    simp only at this
    simp [LinForm.eval, lsum]
    simp only [vd] at this
    linear_combination this
  | none =>
    have hnoV : ∀ c ∈ cs, incident k c = true → isV c = false := by
      intro c hc hi
      by_contra hv
      simp only [Bool.not_eq_false] at hv
      have : c ∈ cs.filter (fun c => isV c && incident k c) := List.mem_filter.mpr ⟨hc, by simp [hv, hi]⟩
      rw [List.head?_eq_none_iff] at hh
      rw [hh] at this
      simp at this
    simp only
    rw [eval_sumForms, kcl_sum_filter kind s x k cs]
    · exact hlaws.1 k hk
    · intro c hc
      refine ⟨fun hi => ?_, fun hi => outflow_not_incident kind s x k c (hdef c hc) hi⟩
      exact kclTerm_patched kind s x k c (hdef c hc) (hnoV c hc hi) hi (hlaws.2 c hc)

/- Full statement for the code as it is -- FALSE (findings F13, F19):
   theorem nodal_eqs_hold_asis … : (nodalEq false kind s cs k).eval x = 0
   fails for `I1 1 0 dc 2; R1 1 2 3; R2 2 0 5` at node 1 (see `f13_defect` below). -/

/-- **nodal_eqs_hold_partial** (code as it is): the same conclusion wherever no incident component
    is seen from its unsafe side.  Excluded region, covered by the oracle on the real code:
    KCL at the FIRST node of an independent current source (F13) and at the SECOND node of a
    capacitor / inductor that carries an initial condition (F19). -/
theorem nodal_eqs_hold_partial (kind : Kind) (s : K) (cs : List (Cpt K)) (x : Ix → K)
    (hdef : NodalDefined kind s cs) (hlaws : Laws kind s cs x) (k : Nat) (hk : k ≠ 0)
    (hsafe : ∀ c ∈ cs, incident k c = true → SafeAt kind s k c) :
    (nodalEq false kind s cs k).eval x = 0 := by
  have hfull := nodal_eqs_hold kind s cs x hdef hlaws k hk
  unfold nodalEq at hfull ⊢
  cases hh : (cs.filter (fun c => isV c && incident k c)).head? with
  | some c =>
    rw [hh] at hfull
    have hc := List.mem_filter.mp (List.mem_of_mem_head? hh)
    cases c <;> simp [isV] at hc
    exact hfull
  | none =>
    rw [hh] at hfull
    simp only at hfull ⊢
    rw [eval_sumForms] at hfull ⊢
    rw [← hfull]
    congr 1
    rw [List.map_map, List.map_map]
    apply List.map_congr_left
    intro c hc
    have hc' := List.mem_filter.mp hc
    exact kclTerm_asis kind s x k c (hdef c hc'.1) hc'.2 (hsafe c hc'.1 hc'.2)

/-- non-vacuity, and F13 in the model: `I1 1 0 dc 2; R1 1 2 3; R2 2 0 5`, V1 = 16, V2 = 10 -/
def f13 : List (Cpt ℚ) := [.I 1 0 2, .R 1 2 3, .R 2 0 5]
def f13x : Ix → ℚ := fun i => match i with | node 1 => 16 | node 2 => 10 | _ => 0

example : NodalDefined .dc 0 f13 := by intro c hc; simp [f13] at hc; rcases hc with rfl | rfl | rfl <;> simp [OkCpt]

theorem f13_laws : Laws .dc 0 f13 f13x := by
  constructor
  · intro k hk
    match k with
    | 0 => exact absurd rfl hk
    | 1 => norm_num [f13, f13x, outflow, twoTerm, lsum, vd, volt]
    | 2 => norm_num [f13, f13x, outflow, twoTerm, lsum, vd, volt]
    | (k + 3) => simp [f13, outflow, twoTerm, lsum]
  · intro c hc p hp
    simp [f13] at hc
    rcases hc with rfl | rfl | rfl <;> simp [laws] at hp

/-- the equation the code as it is prints for node 1 (`V1/3 − V2/3 + 2 = 0`) evaluates to 4 at
    the solution, the patched one to 0 -/
theorem f13_defect : (nodalEq false .dc 0 f13 1).eval f13x = 4 ∧ (nodalEq true .dc 0 f13 1).eval f13x = 0 := by
  constructor <;>
    norm_num [nodalEq, f13, f13x, isV, incident, nodes2, kclTerm, curEq, isI, sumForms, LinForm.add, LinForm.zero,
              LinForm.eval, lsum, volt]

/-! ## Kirchhoff's voltage law -/

/-- **kvl_telescopes**: around ANY closed walk through graph nodes (of any length, repeated nodes
    allowed) the potential rises sum to zero. -/
theorem kvl_telescopes (x : Ix → K) (loop : List GNode) :
    lsum ((loopPairs loop).map (fun pq => gvolt x pq.2 - gvolt x pq.1)) = 0 := by
  cases loop with
  | nil => simp [loopPairs, lsum]
  | cons a t =>
    simp only [loopPairs]
    rw [pairsFrom_telescope (gvolt x) a a t, sub_self]

end Lcapy.C15
