/-
  C17, floats (round-3 goal G1).  NOT a theorem about all inputs: a TEST over the finite table that the check generated in
  this run (`Lcapy/Generated/FloatTests.lean`: rational functions in Horner form, float arguments, and the bits that the
  real `Expr.evaluate` returned).  The kernel evaluates the straight-line float program that lambdify prints
  (`Model/FloatEval.lean`, Lean's IEEE binary64 `Float`) and compares bit for bit: on these inputs `evaluate()` IS the
  correctly rounded straight-line evaluation, operation by operation (no re-association, no extended precision, no
  fused multiply-add, nothing between lambdify's code and the returned number).
  The bulk of the float tests (a few hundred inputs per run) goes through the native driver (`flt.run`), same definition.
-/
import Lcapy.Generated.FloatTests
namespace Lcapy.C17
open Lcapy.FloatEval

/-- TEST (finite generated table): every recorded `evaluate()` result is bit-for-bit the straight-line float program -/
theorem float_straightline_tests : allPass Lcapy.Gen.FloatTests.table = true := by decide +kernel

end Lcapy.C17
