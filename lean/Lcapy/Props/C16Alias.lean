/-
  C16 -- "modifying a copy or a derived object never changes the original" for RESULT OBJECTS, and "regardless of what
  other circuits the process has handled" for optional dictionary parameters (Model/Alias.lean).

  * `derivation_keeps_source`, `derivations_keep_source`   when `Expr.__init__` copies the argument's assumptions object,
        no sequence of derivations (as_transfer, as_impedance, as_admittance, as_current, ...) changes the assumptions of
        the expression they are derived from;  witness `aliased_derivation_changes_source` for the aliased constructor;
  * `renumber_history_independent`   with a per-call default, `renumber()` answers as `renumber({})` whatever the process
        did before;  witness `mutable_default_leaks` for `def renumber(self, node_map={})`.
  The two side conditions are table facts about the source text: Props/C16Tables.lean
  `arguments_not_mutated_through_alias`, `no_mutable_default_arguments`.

  TIE TO THE CODE: `Alias.derive` is executed by the driver (`c16.alias`, with `copies := argAliasMutations.isEmpty`
  from the generated table) and compared on every run with the time-behaviour flags (causal, dc, ac) of real kept
  Laplace-domain results before / after as_transfer, as_impedance, as_admittance, as_voltage, as_current, as_expr and of
  the derived expressions; `Alias.renumberS` / `augmentNodeMap` (an executable model of `renumber()` /
  `augment_node_map` for wire-free circuits, `mutableDefault := !mutableDefaults.isEmpty`) is executed by `c16.renumber`
  and compared with the node mapping of real `renumber()` calls made one after the other in one process.
  `renumber_history_independent` below is about the GENERIC mechanism (any completion function `fill`) and is the
  definition unfolded once the default is per call -- the content is in the table theorem and in the correspondence.
-/
import Lcapy.Proofs.Alias
set_option linter.unusedVariables false
namespace Lcapy.C16
open Lcapy.Alias

/-- ONE DERIVATION with a copying constructor: every object that existed before keeps its assumptions, and nothing
    is deallocated -/
theorem derive_keeps_all (h : Heap) (src : ExprRef) (ac : Bool) (i : Nat) (hi : i < h.objs.length) :
    (derive true h src ac).1.get i = h.get i ∧ h.objs.length ≤ (derive true h src ac).1.objs.length := by
  unfold derive
  simp only [if_true]
  have hne : i ≠ h.objs.length := Nat.ne_of_lt hi
  cases ac with
  | false =>
    simp only [Bool.false_eq_true, if_false]
    refine ⟨?_, by simp [alloc_length]; omega⟩
    rw [get_alloc_old _ _ _ (by rw [alloc_length]; omega), get_alloc_old _ _ _ hi]
  | true =>
    simp only [if_true]
    refine ⟨?_, by simp [alloc_length, set_length]; omega⟩
    rw [get_alloc_old _ _ _ (by rw [set_length, alloc_length]; omega)]
    have : (h.alloc (h.get src.ass)).2 = h.objs.length := rfl
    rw [this, get_set_other _ _ _ _ hne, get_alloc_old _ _ _ hi]

/-- in particular the source expression of the derivation -/
theorem derivation_keeps_source (h : Heap) (src : ExprRef) (ac : Bool) (hs : src.ass < h.objs.length) :
    (derive true h src ac).1.get src.ass = h.get src.ass :=
  (derive_keeps_all h src ac src.ass hs).1

/-- ANY SEQUENCE of derivations from a kept expression leaves its assumptions as they were -/
theorem derivations_keep_source (ds : List Bool) (h : Heap) (src : ExprRef) (hs : src.ass < h.objs.length) :
    (deriveAll true h src ds).get src.ass = h.get src.ass := by
  induction ds generalizing h with
  | nil => rfl
  | cons d ds ih =>
    simp only [deriveAll]
    obtain ⟨h1, h2⟩ := derive_keeps_all h src d src.ass hs
    rw [ih _ (Nat.lt_of_lt_of_le hs h2), h1]

example : (⟨0⟩ : ExprRef).ass < (⟨[⟨false, true, false⟩]⟩ : Heap).objs.length := by decide

/-- the aliased constructor (`ass = arg.assumptions`): deriving a transfer function from a DC voltage turns the
    voltage itself causal -/
theorem aliased_derivation_changes_source :
    let h : Heap := ⟨[⟨false, true, false⟩]⟩
    let V : ExprRef := ⟨0⟩
    ((derive false h V true).1.get V.ass).causal = true ∧ (h.get V.ass).causal = false ∧
    ((derive true h V true).1.get V.ass).causal = false := by decide

/-! ## optional dictionary parameters -/

/-- with a per-call default the answer of `renumber()` is the answer of `renumber({})`, after any number of earlier
    calls on any circuits, for EVERY way `fill` of completing a mapping; and the process keeps no trace of the call -/
theorem renumber_history_independent {C : Type} (fill : Dict → C → Dict) (earlier : List C) (p : Proc) (c : C) :
    (renumber fill false (calls fill false p earlier) c).1 = renumberExplicit fill c ∧ calls fill false p earlier = p := by
  have h : ∀ (l : List C) (p : Proc), calls fill false p l = p := by
    intro l
    induction l with
    | nil => intro p; rfl
    | cons x xs ih => intro p; simp only [calls, renumber]; exact ih p
  exact ⟨by simp [renumber, renumberExplicit], h earlier p⟩

/-- `def renumber(self, node_map={})`: the second circuit is numbered with the first circuit's assignments -/
theorem mutable_default_leaks :
    let p := calls augment true ⟨[]⟩ [["in", "out"]]
    (renumber augment true p ["out", "in"]).1 = [("in", 1), ("out", 2)] ∧
    renumberExplicit augment ["out", "in"] = [("out", 1), ("in", 2)] := by
  decide

end Lcapy.C16
