/-
  C20 (round 3) -- what used to be "not modelled": mirror / invert / flipud / fliplr / mirrorinputs, the transistor and
  opamp families (pin tables chosen by a `pins` PROPERTY), rotation by angles that are not multiples of 90 degrees,
  implicit nodes, `aspect`, and the interplay of `size=` / `<direction>=` / `scale=` / `draw(**kwargs)`.

  The constraint-generation theorems of Props/C20.lean (`constraints_pairwise`, `constraints_match_hints`,
  `constraints_match_hints_all`, `checkPos_iff_graphs`) are stated over `Resolved` -- nodes with transformed pin
  coordinates -- and therefore hold verbatim for the new element kinds.  What is new is HOW an element is resolved.  That
  resolver is a HAND MODEL of `Cpt.size / scale / angle / mirror / invert / tf / required_pins / pins`, of
  `Schematic._cpt_add / draw` and of `process_implicit_nodes`; it is tied to /repo on every run by
    (a) tx_layout: the class tables, the `pins` property of every class (matched against the rules the model implements),
        `Cpt.R`, the implicit-key tuples, and a FINGERPRINT of the source text of every hand-modelled function (a change
        of any of them is reported as a broken tie), and
    (b) the exact per-element comparison of class / nodes / angle / size / stretch / pin coordinates and of the ordered
        constraint graphs with the real Lcapy on every generated netlist.
  Remarks about the resolver model itself (`size=` wins over `<direction>=value`, `scale` only moves rigid pins,
  `draw(**kwargs)` deletes same-named options, transposition = reflection, P-type transistors reverse `mirror`, …) are
  model lemmas in Proofs/LayoutShapes.lean, NOT property theorems.  This file keeps what is decided over the regenerated
  table and the agreement of the code's rotation with the meaning of the hints.
-/
import Lcapy.Proofs.LayoutBase
import Lcapy.Proofs.LayoutShapes
import Mathlib.Tactic.Ring

namespace Lcapy.C20
open Lcapy.Layout

/-! ## 1. pin tables chosen by a `pins` property -/

/-- every class of the generated table carries the tables its `pins` rule selects from: `pinsOf` cannot fail with
    "no pin table" for `mirror` / `invert` / `mirrorinputs` classes, and a transistor class has all four of
    `normal / mirror / invert / mirror_invert` -/
theorem pin_variants_present :
    Gen.table.all (fun g =>
      let r := g.2
      if r.pinsRule == "literal" then true
      else if r.pinsRule == "mirror" || r.pinsRule == "mirrorinputs" || r.pinsRule == "mirrorinputs-xor-mirror" then
        (variant r "normal_pins").isSome && (variant r "mirror_pins").isSome
      else if r.pinsRule == "invert" then (variant r "normal_pins").isSome && (variant r "invert_pins").isSome
      else if r.pinsRule == "transistor" then
        ["normal_pins", "mirror_pins", "invert_pins", "mirror_invert_pins"].all (fun v => (variant r v).isSome)
      else false) = true := by decide +kernel

/-- BJT and MOSFET: the `mirror` table is the `normal` table reflected about the axis `y = 1/2` (checked over the
    regenerated table).  (For JFET the gate pin is at 0.335 in `normal_pins` but 0.645 = 1 − 0.355 in `mirror_pins`,
    and MOSFET `invert_pins2` has the gate at 0.335 against 0.355 in `normal_pins2`: the tables of the source are not
    exact reflections of each other there -- an observation about drawing coordinates, outside the property.) -/
theorem bjt_mosfet_mirror_reflects :
    ["BJT", "MOSFET"].all (fun c =>
      match lookupRow c with
      | some r =>
        match variant r "normal_pins", variant r "mirror_pins" with
        | some n, some m => n.1.map (fun p => (p.name, p.x, 1 - p.y)) == m.1.map (fun p => (p.name, p.x, p.y))
        | _, _ => false
      | none => false) = true := by decide +kernel
example : (match lookupRow "JFET" with
    | some r => (match variant r "normal_pins", variant r "mirror_pins" with
      | some n, some m => n.1.map (fun p => (p.name, p.x, 1 - p.y)) == m.1.map (fun p => (p.name, p.x, p.y))
      | _, _ => true)
    | none => true) = false := by decide +kernel

/-! ## 2. mirror / invert: table choice versus transposition -/

/-- a class whose pin TABLE is chosen by `mirror` / `invert` is never also transposed by `tf` (no double reflection):
    over the regenerated table, `do_transpose` only occurs with a literal table or with the `mirrorinputs` rule (chips) -/
theorem table_choice_excludes_transpose :
    Gen.table.all (fun g => !(g.2.doTranspose &&
      (g.2.pinsRule == "mirror" || g.2.pinsRule == "invert" || g.2.pinsRule == "transistor" ||
       g.2.pinsRule == "mirrorinputs-xor-mirror"))) = true := by decide +kernel

/-! ## 3. rotation by an angle that is not a multiple of 90 degrees: cos / sin as parameters -/

/-- with parameters on the unit circle the transformation is a rotation: lengths are preserved -/
theorem rot_param_isometry (rots : RotTable) (a c s : Rat) (v w : Rat × Rat) (hc : c * c + s * s = 1)
    (hf : rots.find? (fun e => e.1 == a) = some (a, c, s)) (h : rotParam rots a v = some w) :
    w.1 * w.1 + w.2 * w.2 = v.1 * v.1 + v.2 * v.2 := by
  unfold rotParam at h
  simp only [hf, Option.map_some, Option.some.injEq] at h
  subst h
  simp only
  have : (v.1 * c - v.2 * s) * (v.1 * c - v.2 * s) + (v.1 * s + v.2 * c) * (v.1 * s + v.2 * c) =
      (v.1 * v.1 + v.2 * v.2) * (c * c + s * s) := by ring
  rw [this, hc, mul_one]
example : rotParam [(mkR 5313 100, 3/5, 4/5)] (mkR 5313 100) (1/2, 0) = some (3/10, 2/5) := by decide +kernel

/-- the rotation of the code agrees with the meaning of the hint wherever the former is defined -- now including the
    parametrised angles -/
theorem rotCodeP_agrees (rots : RotTable) (a : Rat) (v w : Rat × Rat) (h : rotCodeP rots a v = some w) :
    rotMeanP rots a v = some w := rotCodeP_rotMeanP rots a v w h

/-- lifted through the resolver (offset expansion, `draw` overrides, implicit nodes, pin tables, transposition): the
    model of `_make_graphs` (`graphsOf`) and the specification (`specOf`) work on the same resolved elements -/
theorem resolve_all_agreesP (n : Netlist) (x : List String × List Resolved)
    (h : resolveAll (rotCodeP n.rots) n = .ok x) : resolveAll (rotMeanP n.rots) n = .ok x :=
  resolveAll_mono (rotCodeP_rotMeanP n.rots) n x h

/-! ## 4. implicit nodes (what the model of `process_implicit_nodes` does on two directed inputs) -/

/-- `ground` on the only connection of a node does not create a new node; on a shared node it detaches the component:
    two ground wires on node 0 -/
example : (match splitImplicit [⟨"W1", "W", "W", ["1", "0"], [("down", ""), ("ground", "")]⟩,
                              ⟨"W2", "W", "W", ["2", "0"], [("down", ""), ("ground", "")]⟩] with
    | .ok (es, new) => (es.map (·.nodes), new)
    | .error _ => ([], [])) = ([["1", "0_split0"], ["2", "0"]], ["0_split0"]) := by decide +kernel

/-- positive supplies detach the FIRST node -/
example : (match splitImplicit [⟨"W1", "W", "W", ["5", "1"], [("down", ""), ("vcc", "")]⟩,
                              ⟨"W2", "W", "W", ["5", "2"], [("right", "")]⟩] with
    | .ok (es, new) => (es.map (·.nodes), new)
    | .error _ => ([], [])) = ([["5_split0", "1"], ["5", "2"]], ["5_split0"]) := by decide +kernel

end Lcapy.C20
