/-
  PROPERTY C04 -- Thevenin and Norton equivalents reproduce the terminal behaviour.
  Everything is stated at the level of `Solves`/`Laws` (no Schur complements): the port
  behaviour of any circuit is affine in an injected probe current, with offset Voc (sources on,
  port open) and slope Zth (sources and initial conditions killed, unit probe), exactly the two
  quantities `Voc` and `impedance` of lcapy/netlistopsmixin.py measure.
-/
import Lcapy.Props.C03
namespace Lcapy.C04
open Lcapy.MNA Ix
variable {K : Type} [Field K]

/-- the circuit with a probe current source pushing `J` into node `p` (returning through `m`) -/
def withProbe (cs : List (Cpt K)) (p m : Nat) (J : K) : List (Cpt K) := cs ++ [.I p m J]

theorem addSrc_kill_scaled (a : K) (c : Cpt K) :
    c.addSrc ((c.mapSrc (fun _ => 0)).mapSrc (fun v => a * v)) = c := by
  cases c with
  | Cap n1 n2 c v0 => cases v0 <;> simp [Cpt.mapSrc, Cpt.addSrc, optAdd]
  | Ind n1 n2 m l i0 coup => cases i0 <;> simp [Cpt.mapSrc, Cpt.addSrc, optAdd, coupAdd_kill_scaled]
  | _ => simp [Cpt.mapSrc, Cpt.addSrc]

theorem sameShape_kill_scaled (a : K) (c : Cpt K) :
    SameShape c ((c.mapSrc (fun _ => 0)).mapSrc (fun v => a * v)) := by
  unfold SameShape
  cases c with
  | Cap n1 n2 c v0 => cases v0 <;> simp [Cpt.mapSrc]
  | Ind n1 n2 m l i0 coup => cases i0 <;> simp [Cpt.mapSrc, coupMap_zero_idem]
  | _ => simp [Cpt.mapSrc]

theorem zip_kill_scaled (a : K) (cs : List (Cpt K)) :
    List.zipWith Cpt.addSrc cs (cs.map ((Cpt.mapSrc fun v => a * v) ∘ Cpt.mapSrc fun _ => 0)) = cs := by
  induction cs with
  | nil => rfl
  | cons c t ih =>
    simp only [List.map_cons, List.zipWith_cons_cons, ih, Function.comp]
    rw [addSrc_kill_scaled]

theorem forall2_kill_scaled (a : K) (cs : List (Cpt K)) :
    List.Forall₂ SameShape cs (cs.map ((Cpt.mapSrc fun v => a * v) ∘ Cpt.mapSrc fun _ => 0)) := by
  induction cs with
  | nil => exact List.Forall₂.nil
  | cons c t ih =>
    simp only [List.map_cons, Function.comp]
    exact List.Forall₂.cons (sameShape_kill_scaled a c) ih

/-- **port_affine**: for ANY circuit and any two nodes p, m: if `x0` is a solution with the
    sources on and the port open, and `xu` a solution with every independent source and initial
    condition killed and 1 A injected, then for every probe current J the assignment
    x0 + J·xu solves the circuit with J injected. -/
theorem port_affine (kind : Kind) (s : K) (cs : List (Cpt K)) (p m : Nat) (x0 xu : Ix → K) (J : K)
    (h0 : Solves kind s (withProbe cs p m 0) x0)
    (hu : Solves kind s (withProbe (killAll cs) p m 1) xu) :
    Solves kind s (withProbe cs p m J) (fun i => x0 i + J * xu i) := by
  have hs := C03.scaling kind s J _ xu hu
  have hsup := C03.superposition kind s (withProbe cs p m 0)
    ((withProbe (killAll cs) p m 1).map (Cpt.mapSrc (fun v => J * v))) x0 (fun i => J * xu i) ?_ h0 hs
  · have e : List.zipWith Cpt.addSrc (withProbe cs p m 0)
        ((withProbe (killAll cs) p m 1).map (Cpt.mapSrc (fun v => J * v))) = withProbe cs p m J := by
      simp only [withProbe, killAll, List.map_append, List.map_map, List.map_cons, List.map_nil]
      rw [List.zipWith_append (by simp)]
      congr 1
      · exact zip_kill_scaled J cs
      · simp [Cpt.mapSrc, Cpt.addSrc]
    rw [e] at hsup
    exact hsup
  · simp only [withProbe, killAll, List.map_append, List.map_map, List.map_cons, List.map_nil]
    apply List.rel_append
    · exact forall2_kill_scaled J cs
    · exact List.Forall₂.cons (by unfold SameShape; simp [Cpt.mapSrc]) List.Forall₂.nil

/-- hence the port voltage is affine in the probe current: V = Voc + Zth·J -/
theorem port_voltage_affine (x0 xu : Ix → K) (J : K) (p m : Nat) :
    vd (fun i => x0 i + J * xu i) p m = vd x0 p m + J * vd xu p m := by
  cases p <;> cases m <;> simp [vd, volt] <;> ring

/-- and when the circuit is non-singular this IS the circuit's response to the probe -/
theorem port_affine_unique (kind : Kind) (s : K) (cs : List (Cpt K)) (p m : Nat) (x0 xu z : Ix → K) (J : K)
    (h0 : Solves kind s (withProbe cs p m 0) x0)
    (hu : Solves kind s (withProbe (killAll cs) p m 1) xu)
    (hz : Solves kind s (withProbe cs p m J) z)
    (hns : C01.Nonsingular kind s (withProbe cs p m J)) :
    vd z p m = vd x0 p m + J * vd xu p m := by
  have h := C01.mna_unique kind s _ z _ hns hz (port_affine kind s cs p m x0 xu J h0 hu)
  rw [← port_voltage_affine]
  -- the probe's own stamp mentions both port nodes, so they are unknowns of the probed netlist
  have hU : ∀ k, (k = p ∨ k = m) → k ≠ 0 → C01.Unknown kind s (withProbe cs p m J) (.node k) := by
    intro k hk hk0
    refine ⟨by simpa using hk0, ?_⟩
    apply C01.mem_unknowns_stampAll kind s _ (.I p m J) (by simp [withProbe])
    rcases hk with rfl | rfl <;> simp [C01.unknowns, stamp]
  have hv : ∀ k, (k = p ∨ k = m) → volt z k = volt (fun i => x0 i + J * xu i) k := by
    intro k hk
    cases k with
    | zero => rfl
    | succ n => simp only [volt]; exact h _ (hU _ hk (by simp))
  simp [vd, hv p (Or.inl rfl), hv m (Or.inr rfl)]

/-- **thevenin_norton_equiv**: the Thevenin line v = Voc − Zth·i and the Norton line
    i = Isc − Yn·v with Isc = Voc/Zth, Yn = 1/Zth are the same set of (v, i) pairs; Voc = Isc·Zth
    and Zth·Yn = 1. -/
theorem thevenin_norton_equiv (Voc Zth v i : K) (hZ : Zth ≠ 0) :
    v = Voc - Zth * i ↔ i = Voc / Zth - (1 / Zth) * v := by
  constructor <;> intro h <;> (field_simp at h ⊢; grind)

theorem voc_isc_z (Voc Zth : K) (hZ : Zth ≠ 0) : Voc = (Voc / Zth) * Zth ∧ Zth * (1 / Zth) = 1 := by
  constructor <;> field_simp

/-- terminal behaviour of the Thevenin network (V source `Voc` from internal node 2 to ground in
    series with `Zth` from the terminal, node 1, to node 2) under a probe current J: v = Voc + Zth·J -/
theorem thevenin_port (kind : Kind) (s Voc Zth J : K) (hZ : Zth ≠ 0) (x : Ix → K)
    (h : Laws kind s [.V 2 0 0 Voc, .Y 1 2 (1 / Zth), .I 1 0 J] x) :
    vd x 1 0 = Voc + Zth * J := by
  obtain ⟨hk, hl⟩ := h
  have k1 := hk 1 (by decide)
  have l1 := hl (.V 2 0 0 Voc) (by simp) (0, vd x 2 0 - Voc) (by simp [laws])
  simp [outflow, twoTerm, lsum, vd, volt] at k1 l1 ⊢
  field_simp at k1
  grind

/-- terminal behaviour of the Norton network (current source `Isc` pushing into node 1, in
    parallel with `Yn`) under a probe current J: v = (Isc + J)/Yn -/
theorem norton_port (kind : Kind) (s Isc Yn J : K) (hY : Yn ≠ 0) (x : Ix → K)
    (h : Laws kind s [.I 1 0 Isc, .Y 1 0 Yn, .I 1 0 J] x) :
    vd x 1 0 = (Isc + J) / Yn := by
  obtain ⟨hk, _⟩ := h
  have k1 := hk 1 (by decide)
  simp [outflow, twoTerm, lsum, vd, volt] at k1 ⊢
  field_simp
  grind

/-- **load_invariance**: a circuit whose port obeys v = Voc + Zth·J, its Thevenin model and its
    Norton model (Isc = Voc/Zth, Yn = 1/Zth) present the same (v, J) pairs to any load relation. -/
theorem load_invariance (kind : Kind) (s Voc Zth J : K) (hZ : Zth ≠ 0) (xt xn : Ix → K)
    (ht : Laws kind s [.V 2 0 0 Voc, .Y 1 2 (1 / Zth), .I 1 0 J] xt)
    (hn : Laws kind s [.I 1 0 (Voc / Zth), .Y 1 0 (1 / Zth), .I 1 0 J] xn) :
    vd xt 1 0 = Voc + Zth * J ∧ vd xn 1 0 = Voc + Zth * J := by
  refine ⟨thevenin_port kind s Voc Zth J hZ xt ht, ?_⟩
  rw [norton_port kind s (Voc / Zth) (1 / Zth) J (one_div_ne_zero hZ) xn hn]
  field_simp

/-- `kills_ics`: the circuit used for impedance / admittance / transfer has every independent
    source and every initial condition set to zero -/
theorem killAll_has_no_sources (cs : List (Cpt K)) :
    ∀ c ∈ killAll cs, c.mapSrc (fun _ => 0) = c := by
  intro c hc
  simp only [killAll, List.mem_map] at hc
  obtain ⟨c0, _, rfl⟩ := hc
  cases c0 with
  | Cap n1 n2 c v0 => cases v0 <;> simp [Cpt.mapSrc]
  | Ind n1 n2 m l i0 coup => cases i0 <;> simp [Cpt.mapSrc, coupMap_zero_zero]
  | _ => simp [Cpt.mapSrc]

end Lcapy.C04
