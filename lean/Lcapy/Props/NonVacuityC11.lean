/-
  AUDIT (auditor B) -- machine-checked non-vacuity witnesses for Props/C11.lean and C11b.lean.
  The adjacent examples of the Props files use the sample point `envQ` whose exponential is the constant 1 (a sign error in a
  re-attached delay factor is invisible there); the value theorems are therefore ALSO applied here over ℝ with `Real.exp`.
  Checker-based theorems (rootsCheck / pfCheck / cfRun) are applied over ℚ with tables that the checkers accept.
-/
import Lcapy.Props.C11
import Lcapy.Props.C11b
import Mathlib.Analysis.SpecialFunctions.Exp
namespace Lcapy.NonVacuity.C11
open Lcapy Lcapy.Poly Lcapy.Ratfun Lcapy.RatfunFmt Lcapy.Gen.RatfunSrc Lcapy.Gen.RatfunFmtSrc
set_option linter.unusedSimpArgs false

/-! ### a sample point with the TRUE exponential: x = 2, exp = Real.exp, U(x) = 5 -/
noncomputable def envR : Env ℝ := ⟨2, Real.exp, 5⟩
theorem isExpR : C11.IsExp envR := ⟨Real.exp_zero, Real.exp_add⟩
theorem isExpRb : C11b.IsExp envR := ⟨Real.exp_zero, Real.exp_add⟩
/-- `(3x² + 5x + 1)/(2x² + 6x + 4) · exp(−3x) · U(x)` over ℝ -/
noncomputable def exR : RF ℝ := ⟨[1, 5, 3], [4, 6, 2], 3, 1⟩
theorem hAR : Poly.eval exR.A envR.x ≠ 0 := by norm_num [exR, envR, Poly.eval]

section real
attribute [local instance] Classical.propDecidable
example := C11.canonical_fc_value exR envR isExpR hAR
example := C11.canonical_value exR envR isExpR hAR
example := C11.general_value exR envR isExpR hAR
example := C11.expandcanonical_value exR envR isExpR hAR
example := C11.standard_value exR envR isExpR hAR
example := C11.timeconst_value exR envR hAR
example := C11.N_over_D exR envR isExpR hAR
example := C11.multiply_top_and_bottom_value exR [1, 1] envR isExpR (by norm_num [envR, Poly.eval])
example := C11.decompose_value [Factor.rat [1, 1] [2, 1], .expf (-3), .undefF, .rat [1] [3, 1]] envR isExpR
example := C11b.divide_top_and_bottom_value exR (.add .var (.const 1)) envR isExpRb (by norm_num [RExpr.eval, envR])
example := C11b.multiply_top_and_bottom_src_value exR (.add .var (.const 1)) envR isExpRb (by norm_num [RExpr.eval, envR])
example := C11b.as_N_D_monic_value exR envR isExpRb hAR
example := C11b.expandcanonical_src_value exR envR isExpRb hAR
example := C11b.expand_response_value exR envR isExpRb hAR
example := C11b.factors_of_expression exR envR isExpRb hAR
example := C11b.canonical_fc_branches_value exR envR isExpRb hAR
example := C11b.canonical_branches_value exR envR isExpRb hAR
/-- the unit-gain, delay-free branch with an undefined factor -/
example := C11b.canonical_fc_branches_value (⟨[2, 3, 1], [12, 7, 1], 0, 1⟩ : RF ℝ) envR isExpRb (by norm_num [envR, Poly.eval])
end real

/-! ### checker-based theorems over ℚ -/
/- `exZ = (x+1)(x+2)/((x+3)(x+4)) · exp(−3x) · U(x)`: rational zeros AND poles (defined beside `zpk_value` in Props/C11.lean) -/
open Lcapy.C11 (exZ)
theorem hAZ : Poly.eval exZ.A C11.envQ.x ≠ 0 := by norm_num [exZ, C11.exZ, C11.envQ, Poly.eval]
theorem isExpQ : C11.IsExp C11.envQ := ⟨rfl, fun _ _ => by simp [C11.envQ]⟩
theorem hz : rootsCheck exZ.B [(-1, 1), (-2, 1)] = true := by decide +kernel
theorem hp : rootsCheck exZ.A [(-3, 1), (-4, 1)] = true := by decide +kernel
example := C11.zpk_value exZ [(-1, 1), (-2, 1)] [(-3, 1), (-4, 1)] C11.envQ isExpQ hAZ hz hp
example := C11.zpk_pairs_value exZ [((-1, -2), 1)] [] [] [(-3, 1), (-4, 1)] C11.envQ isExpQ hAZ
  (by decide +kernel) (by decide +kernel)

theorem lcA : lc ([4, 6, 2] : List ℚ) ≠ 0 := by decide +kernel
example := C11.divmod_spec ([1, 5, 3, 7] : List ℚ) [4, 6, 2] lcA
example := C11.as_QMA_spec C11.exQ (by decide +kernel)
example := C11.partfrac_value C11.exQ [3/2] [(-1, 1), (-2, 1)] [(-1/2, -1, 1), (-3/2, -2, 1)] C11.envQ isExpQ
  (by norm_num [C11.exQ, C11.envQ, Poly.eval]) (by decide +kernel)
example := C11.roots_check_sound ([4, 6, 2] : List ℚ) [(-1, 1), (-2, 1)] (by decide +kernel) 5
example := C11.roots_check_root ([4, 6, 2] : List ℚ) [(-1, 1), (-2, 1)] (by decide +kernel) (-2) 1 (by simp) (by decide)
example := C11.roots_check_degree ([4, 6, 2] : List ℚ) [(-1, 1), (-2, 1)] (by decide +kernel) lcA
example := C11.pf_check_sound ([1, 5, 3] : List ℚ) [4, 6, 2] [3/2] [(-1, 1), (-2, 1)] [(-1/2, -1, 1), (-3/2, -2, 1)] 2
  (by decide +kernel) (by norm_num [Poly.eval])
example := C11.zp2tf_value (K := ℚ) true true [(-1, 1), (-2, 1)] [(-3, 1), (-4, 1)] (.const 7) C11.envQ
  (by intro _ rn h; simp at h; rcases h with rfl | rfl <;> rfl)
/-- … and the dictionary form with a double pole (hypothesis `hpl` is void for dictionaries) -/
example := C11.zp2tf_value (K := ℚ) false false [(-1, 2)] [(-3, 2), (-4, 1)] (.const 7) C11.envQ (by intro h; cases h)

/-- continued fraction of `(x² + 1)/x = x + 1/x` -/
example := C11.cf_step ([1, 0, 1] : List ℚ) [0, 1] 1 1 [1] (by decide +kernel) (by decide +kernel) 2
example := C11.cf_terminates 5 ([1, 0, 1] : List ℚ) [0, 1] (by decide +kernel) (by decide +kernel)
example := C11.cf_value 5 ([1, 0, 1] : List ℚ) [0, 1] [(1, 1), (1, 1)] C11.envQ (by decide +kernel) (by decide +kernel)
/-- inverse continued fraction of `1/(1 + x)` at x = 2: ALL hypotheses (incl. `hdef`, not witnessed in Props/C11.lean) -/
example := C11.cf_inverse_value ([1] : List ℚ) [1, 1] [(1, 0), (-1, 1), (-1, 0)] 2 (by norm_num) (by decide +kernel) (by simp)
  (by decide +kernel)

/-! ### Props/C11b.lean, remaining hypotheses -/
example := C11b.coeffs_length ([4, 6, 2] : List ℚ) lcA
example := C11b.normcoeffs_value ([4, 6, 2] : List ℚ) lcA 5
example := C11b.normcoeffs_monic ([4, 6, 2] : List ℚ) lcA
example := C11b.normcoeffs_zero ([0, 0] : List ℚ) (by decide +kernel)
example := C11b.ba_value C11b.exQ (by decide +kernel)
example := C11b.strictly_proper_no_quotient (⟨[1, 5], [4, 6, 2], 0, 0⟩ : RF ℚ) lcA (by decide +kernel) 3
example := C11b.degree_is_highest_power ([4, 6, 2, 0] : List ℚ) 2 (by decide +kernel)
example := C11b.degree_neg_inf ([0, 0] : List ℚ) (by decide +kernel)
example := C11b.degree_is_root_count ([4, 6, 2] : List ℚ) [(-1, 1), (-2, 1)] (by decide +kernel) lcA
example := C11b.simplify_factors_value (K := ℚ) id C11b.envQ (fun _ => rfl) (rfFactors C11b.exQ) (by simp [rfFactors])
example := C11b.simplify_terms_value (K := ℚ) id C11b.envQ (fun _ => rfl) (rfTerms C11b.exQ C11b.exQ.B 0)
example := C11b.recippartfrac_value C11b.exR [1/4] [(-1, 1), (-1/2, 1)] [(1/2, -1, 1), (3/8, -1/2, 1)] C11b.envQ
  ⟨rfl, fun _ _ => by simp [C11b.envQ]⟩ rfl (by norm_num [C11b.envQ]) (by norm_num [C11b.exR, C11b.envQ, Poly.eval])
  (by decide +kernel)
example := C11b.recippartfrac_delay C11b.exQ [] [] C11b.envQ (-1) (by norm_num [C11b.exQ])
/-- `D(ω) = 4 − ω² + 2jω`, `N(ω) = 1 + jω` at ω = 2 -/
example := C11b.rationalize_denominator_value (K := ℚ) ⟨[1], [0, 1]⟩ ⟨[4, 0, -1], [0, 2]⟩ 2 (by norm_num [Poly.eval])
example := C11b.poles_dict_sound ([2, 5, 4, 1] : List ℚ) [(-1, 1), (-2, 1), (-1, 1)] (by decide +kernel) (by decide +kernel)

end Lcapy.NonVacuity.C11
