/-
  C16 -- the exception branch at the generated configuration.  This module builds iff lcapy's source is
  exception safe in `add`:
    * `_invalidate()` is reached when `_add` raises (a multi-line string whose later line is malformed has
      already changed the netlist)                                  -- `add_invalidates_on_error`
    * the symbol context switched to at the start of `add` is restored when `_add` raises
                                                                    -- `add_restores_context_on_error`
    * a component whose construction (`Cpt.__init__` attaches to the nodes first) or registration
      (`_cpt_add`: 'Invalid component name') raises is detached again  -- `failed_add_detaches`
  While it does not build the check reports these theorems as broken obligations; they count as explained only
  if the oracle exhibits the corresponding failing history on the real code (keys `failed-add`).
-/
import Lcapy.Props.C16Full
namespace Lcapy.C16
open Lcapy.Cache Lcapy.Gen.Caches

theorem add_invalidates_on_error : config.addInvalidatesOnError = true := by decide

theorem add_restores_context_on_error : addRestoresContextOnError = true := by decide

theorem failed_add_detaches : config.failedAddDetaches = true := by decide

/-- CURRENT CODE, WITH FAILURES: every query after every history of public operations -- some of which may
    raise -- answers as on a freshly built circuit -/
theorem fresh_refinement_with_failures_current (ops : List Op) (hr : RunOKF config World.empty ops)
    (i : Nat) (inst : Inst) (hi : (run config World.empty ops).insts[i]? = some inst) (q : String) :
    answer config (run config World.empty ops) i q = answer config (build inst.elts) 0 q :=
  (fresh_refinement_with_failures config (fun _ => true) cfg_ok_current node_delete_guarded ops hr i inst hi).1 q (fun _ _ => rfl)

/-- CURRENT CODE: every single-line operation that raises is atomic -/
theorem failed_op_atomic_current (w : World) (op : Op)
    (hop : match op with | .addFail _ es _ _ => es = [] | _ => True)
    (hf : (step config w op).2 = false) : (step config w op).1.abs = w.abs := by
  refine failed_op_atomic config node_delete_guarded w op ?_ hf
  cases op <;> simp_all [Op.atomicOnFailure, failed_add_detaches]

end Lcapy.C16
