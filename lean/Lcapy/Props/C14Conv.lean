/-
  PROPERTY C14, clause "converting a sinusoid to a phasor and back returns the same sinusoid", for the conversion code
  of lcapy/acdc.py (`ACChecker`) and lcapy/phasor.py as GENERATED into Lcapy/Generated/ACTable.lean on every run:

   * `term_phasor_sound`   : A·cos(ωt+φ) ↦ A e^{jφ};  A·sin(ωt+φ) ↦ A e^{j(φ−π/2)}: both are `toPh` of the sinusoid
   * `sum_xy_sound`, `sum_branches_sound`, `acchecker_sum_sound` : the phasor of a sum of two same-frequency terms is the
     sum of their phasors, in EVERY branch of `_is_sum_ac` (in-phase parts cancel, quadrature parts cancel, negative
     resulting amplitude, generic)
   * `time_form_sound`, `time_roundtrip`, `phasor_roundtrip`: `time()` is Re(P e^{jωt}) and inverts `phasor()`
   * `rms_sound`, `mag_polar`: rms² = |P|²/2; magnitude and phase of amp·e^{jφ}
-/
import Lcapy.Generated.ACTable
import Lcapy.Proofs.Phasor
import Mathlib.Tactic.LinearCombination
namespace Lcapy.C14
open Lcapy.AC Lcapy.TDS Lcapy.Cx
variable {K : Type} [Field K]
set_option linter.unusedSimpArgs false

/-- **term_phasor_sound**: for both functions the code recognises, the phasor the table gives A·f(ωt + φ) is the
    phasor (a − j b) of that sinusoid written as a·cos ωt + b·sin ωt (angle-addition formulas: `polar_is_rect`). -/
theorem term_phasor_sound (f : String) (A c s : K) (u : Sinus K) (h : termSinus f A c s = some u) :
    termPhasor Gen.AC.fromTime Gen.AC.funcPhase f A c s = some (toPh u) := by
  unfold termSinus at h
  split_ifs at h with h1 h2
  · subst h1; cases h
    simp only [termPhasor, Gen.AC.fromTime, Gen.AC.funcPhase, List.lookup, Option.bind, Angle.unit]
    simp; ext <;> simp [toPh]
  · subst h2; cases h
    simp only [termPhasor, Gen.AC.fromTime, Gen.AC.funcPhase, List.lookup, Option.bind, Angle.unit]
    simp; ext <;> simp [toPh]

/-- the x, y the code computes are the real and imaginary part of the sum of the two phasors -/
theorem sum_xy_sound (A1 c1 s1 A2 c2 s2 : K) :
    (⟨Gen.AC.sumX A1 c1 s1 A2 c2 s2, Gen.AC.sumY A1 c1 s1 A2 c2 s2⟩ : Cx K) =
      ofReal A1 * ⟨c1, s1⟩ + ofReal A2 * ⟨c2, s2⟩ := by
  ext <;> simp [Gen.AC.sumX, Gen.AC.sumY]

/-- **sum_branches_sound**: whatever x and y are — y = 0 (phase 0, amplitude x of either sign), x = 0 (phase π/2,
    amplitude y), or generic — the (phase, amplitude) the branch table selects denotes x + j y. -/
theorem sum_branches_sound [DecidableEq K] (x y : K) :
    (pick x y Gen.AC.sumBranches).bind (branchRect Gen.AC.fromTime x y) = some ⟨x, y⟩ := by
  by_cases hy : y = 0
  · subst hy
    simp [pick, Gen.AC.sumBranches, Cond.holds, branchRect, Gen.AC.fromTime, Angle.unit]
    ext <;> simp
  · by_cases hx : x = 0
    · subst hx
      simp [pick, Gen.AC.sumBranches, Cond.holds, hy, branchRect, Gen.AC.fromTime, Angle.unit]
      ext <;> simp
    · simp [pick, Gen.AC.sumBranches, Cond.holds, hy, hx, branchRect, Gen.AC.fromTime]

/-- **acchecker_sum_sound**: the phasor of the sum of two same-frequency terms is the sum of their phasors. -/
theorem acchecker_sum_sound [DecidableEq K] (A1 c1 s1 A2 c2 s2 : K) :
    sumPhasor Gen.AC.fromTime Gen.AC.sumBranches Gen.AC.sumX Gen.AC.sumY A1 c1 s1 A2 c2 s2 =
      some (ofReal A1 * ⟨c1, s1⟩ + ofReal A2 * ⟨c2, s2⟩) := by
  simp only [sumPhasor]
  rw [sum_branches_sound, sum_xy_sound]

/-- **time_form_sound**: `PhasorDomainExpression.time` is Re(P·e^{jωt}) -/
theorem time_form_sound (p : Cx K) (C S : K) :
    Gen.AC.timeForm p.re p.im C S = (toTime p).at C S ∧ Gen.AC.timeForm p.re p.im C S = (p * ⟨C, S⟩).re := by
  constructor <;> simp [Gen.AC.timeForm, toTime, Sinus.at] <;> ring

/-- **time_roundtrip / phasor_roundtrip**: sinusoid → phasor → sinusoid and phasor → sinusoid → phasor are identities -/
theorem time_roundtrip (u : Sinus K) (C S : K) : Gen.AC.timeForm (toPh u).re (toPh u).im C S = u.at C S := by
  rw [(time_form_sound (toPh u) C S).1, toTime_toPh]

theorem phasor_roundtrip (p : Cx K) : toPh (toTime p) = p := toPh_toTime p

/-- **rms_sound**: with √2·√2 = 2 and |P|·|P| = |P|², the code's rms squares to |P|²/2 -/
theorem rms_sound (p : Cx K) (absP sqrt2 : K) (h2 : sqrt2 * sqrt2 = 2) (ha : absP * absP = magSq p) (h20 : (2 : K) ≠ 0) :
    Gen.AC.rmsForm absP sqrt2 * Gen.AC.rmsForm absP sqrt2 = magSq p / 2 := by
  simp only [Gen.AC.rmsForm]
  field_simp
  have e : absP ^ 2 * sqrt2 ^ 2 = (absP * absP) * (sqrt2 * sqrt2) := by ring
  rw [e, ha, h2]; ring

/-- **mag_polar**: the phasor amp·e^{jφ} (c² + s² = 1) has |P|² = amp² and sits at angle φ: P = amp·(c + j s) -/
theorem mag_polar (amp c s : K) (h : c * c + s * s = 1) :
    magSq (ofReal amp * ⟨c, s⟩) = amp * amp := by
  simp [magSq]
  linear_combination (amp * amp) * h

/-- non-vacuity of the cancelling branches: 2·sin(ωt) + 3·sin(ωt) has in-phase part 0 → phasor −5j;
    cos(ωt + φ) − cos(ωt − φ) with (cos φ, sin φ) = (3/5, 4/5) → phasor 8/5·j (so the signal is −8/5·sin ωt) -/
example : sumPhasor Gen.AC.fromTime Gen.AC.sumBranches Gen.AC.sumX Gen.AC.sumY (2 : ℚ) 0 (-1) 3 0 (-1) = some ⟨0, -5⟩ := by
  rw [acchecker_sum_sound]; simp; ext <;> norm_num

example : sumPhasor Gen.AC.fromTime Gen.AC.sumBranches Gen.AC.sumX Gen.AC.sumY (1 : ℚ) (3/5) (4/5) (-1) (3/5) (-4/5) = some ⟨0, 8/5⟩ := by
  rw [acchecker_sum_sound]; simp; ext <;> norm_num

/-- non-vacuity of `term_phasor_sound`: 5·sin(ωt + φ), (cos φ, sin φ) = (3/5, 4/5), is 4·cos ωt + 3·sin ωt -/
example : termSinus "sin" (5 : ℚ) (3/5) (4/5) = some ⟨4, 3⟩ := by
  simp [termSinus]; constructor <;> norm_num

/-- non-vacuity of `mag_polar`: a rational unit vector -/
example : ((3 : ℚ) / 5) * (3 / 5) + (4 / 5) * (4 / 5) = 1 := by norm_num

end Lcapy.C14
