/-
  PROPERTY C07 -- network algebra (one-ports, two-port sections) agrees with netlist analysis.

  Spec   : Lcapy/Spec/OnePort.lean (relational meaning of one-port trees), Spec/TwoPort.lean (`rel`),
           Spec/Laws.lean (Kirchhoff + component laws of a netlist).
  Model  : Lcapy/Model/OnePort.lean (mirror of oneport.py's Ser/Par bookkeeping, `_combine`,
           `simplify`), Generated/TwoPort.lean + Generated/Sections.lean (translated from twoport.py).
  Only property theorems live here; helper lemmas are in Lcapy/Proofs/OnePort*.lean.
-/
import Lcapy.Proofs.OnePort
import Lcapy.Proofs.OnePortLine
import Lcapy.Proofs.OnePortSimplify
namespace Lcapy.C07
open Lcapy Lcapy.OnePort
set_option linter.unusedSectionVars false
variable {K : Type} [Field K] [DecidableEq K]

/-! ## 1. Thévenin / Norton bookkeeping of `Ser` / `Par` is the meaning of the tree

  Precondition (decidable, `Model/OnePort.lean`): `tOK` / `nOK` -- wherever the algebra needs the
  admittance of a subnetwork it is not an ideal voltage source (no ideal V source is shunted),
  wherever it needs an impedance the subnetwork is not an ideal current source (none in series),
  and no sum vanishes at the sample point; `icOK` (the shortcut of `ParSer.Voc/Isc` is taken
  only where the quantity vanishes) is discharged for every tree by `icOK_always` below. -/

mutual
/-- **ser_thevenin**: for every tree of any depth and width, the set of (v, i) pairs the network
    admits is exactly the line v = Voc + Z·i with Z and Voc as `impedance` / `Voc` compute them.
    (Remark: `Net.voc (.par as) = ΣIsc·(1/ΣY)` and `Net.isc (.ser as) = ΣVoc·(1/ΣZ)` are NOT Lcapy's own
    computation -- Lcapy obtains `Par.Voc` / `Ser.Isc` from `self.cct`, i.e. nodal analysis of the generated
    netlist -- but the value that analysis must return; for those two cases this theorem certifies the model's
    definition, and the code route is covered by `C07.netlist_agrees_with_algebra` (Props/C07Netlist.lean) plus
    the correspondence of the harness with the real `cct` route.) -/
theorem ser_thevenin (s : K) : (n : Net K) → n.tOK s = true → n.icOK s = true →
    IsThevenin s n (n.imp s) (n.voc s)
  | .leaf l, h, _ => fun v i => by simpa [Net.rel, Net.imp, Net.voc] using leaf_thev s l (by simpa [Net.tOK] using h) v i
  | .ser as, h, hic => fun v i => by
      simp only [Net.tOK] at h
      simp only [Net.icOK, Bool.and_eq_true] at hic
      simpa [Net.rel, Net.imp, Net.voc] using ser_list s as h hic.1 v i
  | .par as, h, hic => fun v i => by
      simp only [Net.tOK, Bool.and_eq_true, decide_eq_true_eq] at h
      simp only [Net.icOK, Bool.and_eq_true, Bool.or_eq_true, decide_eq_true_eq] at hic
      have hn := par_list s as h.1 hic.1
      have := nort_to_thev _ _ _ h.2 hn v i
      simp only [Net.rel, Net.imp, Net.voc]
      rw [this]
      by_cases hs : anySrc as = true
      · simp [hs]
      · rcases hic.2 with h' | h'
        · exact absurd h' hs
        · simp [hs, h']
/-- **par_norton**: dually, the network admits exactly the line i = Y·v − Isc with Y and Isc as
    `admittance` / `Isc` compute them. -/
theorem par_norton (s : K) : (n : Net K) → n.nOK s = true → n.icOK s = true →
    IsNorton s n (n.adm s) (n.isc s)
  | .leaf l, h, _ => fun v i => by simpa [Net.rel, Net.adm, Net.isc] using leaf_nort s l (by simpa [Net.nOK] using h) v i
  | .par as, h, hic => fun v i => by
      simp only [Net.nOK] at h
      simp only [Net.icOK, Bool.and_eq_true] at hic
      simpa [Net.rel, Net.adm, Net.isc] using par_list s as h hic.1 v i
  | .ser as, h, hic => fun v i => by
      simp only [Net.nOK, Bool.and_eq_true, decide_eq_true_eq] at h
      simp only [Net.icOK, Bool.and_eq_true, Bool.or_eq_true, decide_eq_true_eq] at hic
      have ht := ser_list s as h.1 hic.1
      have := thev_to_nort _ _ _ h.2 ht v i
      simp only [Net.rel, Net.adm, Net.isc]
      rw [this]
      by_cases hs : anySrc as = true
      · simp [hs]
      · rcases hic.2 with h' | h'
        · exact absurd h' hs
        · simp [hs, h']
/-- series list: voltages add, the impedances and open-circuit voltages are summed -/
theorem ser_list (s : K) : (as : List (Net K)) → allT s as = true → allIc s as = true →
    ∀ v i, relSer s as v i ↔ v = sumVoc s as + sumZ s as * i
  | [], _, _ => fun v i => by simp [relSer, sumVoc, sumZ]
  | a :: t, h, hic => fun v i => by
      simp only [allT, Bool.and_eq_true] at h
      simp only [allIc, Bool.and_eq_true] at hic
      have ha := ser_thevenin s a h.1 hic.1
      have ht := ser_list s t h.2 hic.2
      simp only [relSer, SerRel, sumVoc, sumZ]
      constructor
      · rintro ⟨v1, v2, h1, h2, rfl⟩
        rw [(ha v1 i).mp h1, (ht v2 i).mp h2]; ring
      · intro hv
        exact ⟨a.voc s + a.imp s * i, sumVoc s t + sumZ s t * i, (ha _ _).mpr rfl, (ht _ _).mpr rfl, by rw [hv]; ring⟩
/-- parallel list: currents add, the admittances and short-circuit currents are summed -/
theorem par_list (s : K) : (as : List (Net K)) → allN s as = true → allIc s as = true →
    ∀ v i, relPar s as v i ↔ i = sumY s as * v - sumIsc s as
  | [], _, _ => fun v i => by simp [relPar, sumIsc, sumY]
  | a :: t, h, hic => fun v i => by
      simp only [allN, Bool.and_eq_true] at h
      simp only [allIc, Bool.and_eq_true] at hic
      have ha := par_norton s a h.1 hic.1
      have ht := par_list s t h.2 hic.2
      simp only [relPar, ParRel, sumIsc, sumY]
      constructor
      · rintro ⟨i1, i2, h1, h2, rfl⟩
        rw [(ha v i1).mp h1, (ht v i2).mp h2]; ring
      · intro hv
        exact ⟨a.adm s * v - a.isc s, sumY s t * v - sumIsc s t, (ha _ _).mpr rfl, (ht _ _).mpr rfl, by rw [hv]; ring⟩
end

theorem leaf_noSrc (s : K) (l : Leaf K) (h : l.hasSrc = false) : l.voc s = 0 ∧ l.isc s = 0 := by
  cases l with
  | L l i0 =>
    cases i0 with
    | none => simp [Leaf.voc, Leaf.isc, ic]
    | some x => simp only [Leaf.hasSrc, decide_eq_false_iff_not, not_not] at h; simp [Leaf.voc, Leaf.isc, ic, h]
  | C c v0 =>
    cases v0 with
    | none => simp [Leaf.voc, Leaf.isc, ic]
    | some x => simp only [Leaf.hasSrc, decide_eq_false_iff_not, not_not] at h; simp [Leaf.voc, Leaf.isc, ic, h]
  | V k e => simp [Leaf.hasSrc] at h
  | I k j => simp [Leaf.hasSrc] at h
  | _ => simp [Leaf.voc, Leaf.isc]

mutual
theorem net_noSrc (s : K) : (n : Net K) → n.hasSrc = false → n.voc s = 0 ∧ n.isc s = 0
  | .leaf l, h => by simpa [Net.voc, Net.isc] using leaf_noSrc s l (by simpa [Net.hasSrc] using h)
  | .ser as, h => by
      simp only [Net.hasSrc] at h
      simp only [Net.voc, Net.isc, h, Bool.false_eq_true, if_false, and_true]
      exact (list_noSrc s as h).1
  | .par as, h => by
      simp only [Net.hasSrc] at h
      simp only [Net.voc, Net.isc, h, Bool.false_eq_true, if_false, true_and]
      exact (list_noSrc s as h).2
theorem list_noSrc (s : K) : (as : List (Net K)) → anySrc as = false → sumVoc s as = 0 ∧ sumIsc s as = 0
  | [], _ => by simp [sumVoc, sumIsc]
  | a :: t, h => by
      simp only [anySrc, Bool.or_eq_false_iff] at h
      have ha := net_noSrc s a h.1
      have ht := list_noSrc s t h.2
      simp [sumVoc, sumIsc, ha.1, ha.2, ht.1, ht.2]
end

mutual
/-- **icOK_always**: since non-zero initial conditions count as independent sources
    (`ParSer.has_independent_source`), the shortcut "no source ⇒ Voc = Isc = 0" of `ParSer.Voc/Isc`
    is right for every tree; the hypothesis `icOK` of `ser_thevenin`/`par_norton` is always met.
    (Before the fix of finding C07-a this theorem was false: `L(1, 2) + R(1)`.) -/
theorem icOK_always (s : K) : (n : Net K) → n.icOK s = true
  | .leaf _ => rfl
  | .ser as => by
      simp only [Net.icOK, Bool.and_eq_true, Bool.or_eq_true, decide_eq_true_eq]
      refine ⟨allIc_always s as, ?_⟩
      by_cases h : anySrc as = true
      · exact Or.inl h
      · exact Or.inr (list_noSrc s as (by simpa using h)).1
  | .par as => by
      simp only [Net.icOK, Bool.and_eq_true, Bool.or_eq_true, decide_eq_true_eq]
      refine ⟨allIc_always s as, ?_⟩
      by_cases h : anySrc as = true
      · exact Or.inl h
      · exact Or.inr (list_noSrc s as (by simpa using h)).2
theorem allIc_always (s : K) : (as : List (Net K)) → allIc s as = true
  | [] => rfl
  | a :: t => by simp [allIc, icOK_always s a, allIc_always s t]
end

/-- the property's one-port clause in one statement: inside the precondition the reported
    (Z, Voc) and (Y, Isc) are exactly the relation of the tree -/
theorem thevenin_norton (s : K) (n : Net K) :
    (n.tOK s = true → IsThevenin s n (n.imp s) (n.voc s)) ∧
    (n.nOK s = true → IsNorton s n (n.adm s) (n.isc s)) :=
  ⟨fun h => ser_thevenin s n h (icOK_always s n), fun h => par_norton s n h (icOK_always s n)⟩

/-- non-vacuity: (R 2 + L 3 (i0 = 1)) | (C 4 (v0 = 5) + Vstep 7) | Istep 2 at s = 2 is inside the
    precondition of both theorems -/
example : let n : Net ℚ := .par [.ser [.leaf (.R 2), .leaf (.L 3 (some 1))],
                                 .ser [.leaf (.C 4 (some 5)), .leaf (.V .step (7/2))], .leaf (.I .step 1)]
    n.tOK 2 = true ∧ n.nOK 2 = true ∧ n.icOK 2 = true := by decide +kernel

/-! ## 2. The executable spec evaluator is exact for EVERY tree (no precondition)

  `Net.line` (Spec/OnePortExec.lean) is what the driver uses to judge Lcapy's outputs. -/

mutual
/-- **line_exact**: the relation of any tree -- ideal sources anywhere -- is empty or a line, and
    `Net.line` computes it. -/
theorem line_exact (s : K) : (n : Net K) → Describes (n.line s) (n.rel s)
  | .leaf l => by simpa [Net.line, Net.rel] using leaf_line_exact s l
  | .ser as => by simpa [Net.line, Net.rel] using lineSer_exact s as
  | .par as => by simpa [Net.line, Net.rel] using linePar_exact s as
theorem lineSer_exact (s : K) : (as : List (Net K)) → Describes (lineSer s as) (relSer s as)
  | [] => ⟨Or.inl one_ne_zero, fun v i => by simp [relSer]⟩
  | a :: t => by
      simp only [lineSer, relSer]
      exact serLine_exact _ _ _ _ (line_exact s a) (lineSer_exact s t)
theorem linePar_exact (s : K) : (as : List (Net K)) → Describes (linePar s as) (relPar s as)
  | [] => ⟨Or.inr one_ne_zero, fun v i => by simp [relPar]⟩
  | a :: t => by
      simp only [linePar, relPar]
      exact parLine_exact _ _ _ _ (line_exact s a) (linePar_exact s t)
end

/-- the oracle predicate means what it says: `thevOK` accepts (Z, Voc) iff the network's relation
    is exactly the Thévenin line v = Voc + Z i -/
theorem thevOK_iff (s : K) (n : Net K) (Z Voc : K) :
    thevOK (n.line s) Z Voc = true ↔ IsThevenin s n Z Voc := by
  have h := line_exact s n
  cases hl : n.line s with
  | none =>
    rw [hl] at h
    simp only [thevOK, Bool.false_eq_true, false_iff]
    intro ht
    exact h (Voc + Z * 0) 0 ((ht _ _).mpr rfl)
  | some l =>
    rw [hl] at h
    obtain ⟨_, hd⟩ := h
    simp only [thevOK, Bool.and_eq_true, decide_eq_true_eq]
    constructor
    · rintro ⟨⟨ha, hv⟩, hz⟩ v i
      rw [hd]
      constructor <;> (intro h; grind)
    · intro ht
      have e0 := (hd _ _).mp ((ht (Voc + Z * 0) 0).mpr rfl)
      have e1 := (hd _ _).mp ((ht (Voc + Z * 1) 1).mpr rfl)
      have ha : l.a ≠ 0 := by
        intro ha
        have := (ht (Voc + 1) 0).mp ((hd _ _).mpr (by rw [ha] at e0 ⊢; simpa using e0))
        grind
      refine ⟨⟨ha, by grind⟩, by grind⟩

/-- dually for Norton pairs -/
theorem nortOK_iff (s : K) (n : Net K) (Y Isc : K) :
    nortOK (n.line s) Y Isc = true ↔ IsNorton s n Y Isc := by
  have h := line_exact s n
  cases hl : n.line s with
  | none =>
    rw [hl] at h
    simp only [nortOK, Bool.false_eq_true, false_iff]
    intro ht
    exact h 0 (Y * 0 - Isc) ((ht _ _).mpr rfl)
  | some l =>
    rw [hl] at h
    obtain ⟨_, hd⟩ := h
    simp only [nortOK, Bool.and_eq_true, decide_eq_true_eq]
    constructor
    · rintro ⟨⟨hb, hv⟩, hz⟩ v i
      rw [hd]
      constructor <;> (intro h; grind)
    · intro ht
      have e0 := (hd _ _).mp ((ht 0 (Y * 0 - Isc)).mpr rfl)
      have e1 := (hd _ _).mp ((ht 1 (Y * 1 - Isc)).mpr rfl)
      have hb : l.b ≠ 0 := by
        intro hb
        have := (ht 0 (Y * 0 - Isc + 1)).mp ((hd _ _).mpr (by rw [hb] at e0 ⊢; simpa using e0))
        grind
      refine ⟨⟨hb, by grind⟩, by grind⟩

/-! ## 3. `_combine` and `simplify` preserve the relation -/

/-- **combine_sound**: whenever `_combine(arg1, arg2)` returns a component, that component admits
    exactly the (v, i) pairs of `Ser(arg1, arg2)` / `Par(arg1, arg2)` -- for every rule (R+R, R|R,
    G+G, G|G, L+L with equal i0, L|L, C+C, C|C with equal v0, Vdc+Vdc, Idc|Idc and the eight
    zero-element rules), under the side condition `combGuard` (the divisions of the rule are
    defined).  By `ser_thevenin`/`par_norton`/`line_exact` equal relations have equal Z, Y, Voc, Isc. -/
theorem combine_sound (s : K) (op : Op) (a b y : Leaf K) (h : combine op a b = .one y)
    (hg : combGuard s op a b) (v i : K) :
    (mk op [.leaf a, .leaf b]).rel s v i ↔ (Net.leaf y).rel s v i := by
  rw [pairRel_mk]
  simp only [Net.rel]
  unfold combine at h
  split at h
  · exact combineDiff_sound s op a b y h v i
  · exact combineSame_sound s op a b y h hg v i

example : combine .par (.R (2 : ℚ)) (.R 3) = .one (.R (2 * 3 / (2 + 3))) ∧ combGuard (1 : ℚ) .par (.R 2) (.R 3) := by
  constructor
  · simp [combine, combineSame, Leaf.cls]
  · simp [combGuard]; norm_num

end Lcapy.C07
