/-
  PROPERTY C01, static tie to the source: the `_stamp` methods AS WRITTEN in lcapy/mnacpts.py.

  `Lcapy/Generated/Stamps.lean` is regenerated on every run by harness/translate/tx_stamps.py from the
  source text of mnacpts.py: one definition `Gen.Stamps.<Class>` per class with a `_stamp` method, holding
  every matrix update `mna._G/_B/_C/_D/_Is/_Es[..] op= value` with its operator, guards, branch conditions
  (`mna.kind`, `has_ic`, kind of the controlling component) and value expression.

  For every class and every branch the theorems below say that the GENERATED stamp and the hand model's
  `MNA.stamp kind s (ctor …)` give every row the same residual for every assignment of the unknowns
  (`SameRes`), that no `_stamp` assigns (`=`) instead of accumulating (`all_accumulate`), and that every entry
  is guarded by exactly the `>= 0` tests of the node indices it uses (`guards_ok`; Python index −1 would write
  the LAST row).  `mna_iff_laws_source` composes them with `mna_iff_laws`: the system assembled from the
  stamps as written in the source is solved exactly by the assignments that obey Kirchhoff's current law
  and every component's defining relation -- for every netlist of any size, every kind, every point s.

  A class the translator could not read has `Gen.Stamps.parsed_<Class> = false`; its theorem then holds
  vacuously and `srcStamp` uses the hand model for it (that class is tied by the correspondence only).
  The values of the opaque atoms (`self.Y.sympy`, `self.Voc.sympy`, …) are interpreted as the hand model
  interprets them (1/R, s·C, −L·i0, …; `eps` by its limit 0); that reading is validated by the correspondence.
  Only property theorems (and the definitions they are stated with) live here.
-/
import Lcapy.Props.C01
import Lcapy.Proofs.MNAStamps
namespace Lcapy.C01
open Lcapy.MNA Ix
open Lcapy.Gen.Stamps (SrcKind)
variable {K : Type} [Field K]

/-- the analysis kind of the spec for each value of `mna.kind` (phasor analysis is Laplace analysis at s = jω) -/
def kindOf : SrcKind → Kind
  | .dc => .dc | .s => .lap | .ivp => .ivp | .ac => .lap | .time => .time

set_option linter.unusedSimpArgs false
set_option linter.unusedTactic false
set_option linter.unreachableTactic false
set_option linter.unnecessarySeqFocus false
set_option linter.unusedVariables false

/-- both stamps are explicit entry lists: unfold the row sums and compare -/
macro "stamp_eq" : tactic => `(tactic|
  (intro x r
   simp [-mul_eq_mul_left_iff, -mul_eq_mul_right_iff, residual, lhsSum, rhsSum, stamp, halfK, Stamp.append, branchPattern,
         admPattern, lhsSum_append, rhsSum_append, kindOf, capY, indZ, icFlux] <;>
   (try split_ifs) <;> (try first | ring | (simp_all; try ring))))

/-- a class that was not parsed has nothing to prove; otherwise compare the entry lists -/
macro "stamp_thm" h:ident d:ident : tactic => `(tactic|
  first
  | exact absurd $h (by decide)
  | (unfold $d; stamp_eq))

/-! ### the tables -/

/-- **all_accumulate**: `Gen.Stamps.updates` lists EVERY matrix update of every parsed `_stamp` method with its operator as
    read from the source; the Boolean is COMPUTED here, by the kernel, from that list: none of them is a plain assignment `=`
    (an assignment silently discards what other components stamped before: finding F26).  (What is trusted is that the
    reader lists the updates faithfully -- the same trust as for the generated stamp definitions.) -/
theorem all_accumulate : Gen.Stamps.allAccumulate = true := by decide

/-- the same, entry by entry -/
theorem all_accumulate_each : ∀ u ∈ Gen.Stamps.updates, u.op ≠ Gen.Stamps.Op.assign := by decide

/-- **guards_ok**: computed from the same list: every update is enclosed by exactly the `>= 0` tests of the node-index
    variables it uses (ground has index −1, which Python would read as the LAST row/column; an extra test would drop an
    entry), and every block is indexed with indices of the right sort (G[node,node], B[node,br], C[br,node], D[br,br],
    Is[node], Es[br]).  The generated stamp definitions themselves carry no guards: the model handles ground by `ground`. -/
theorem guards_ok : Gen.Stamps.guardsOk = true := by decide

theorem guards_ok_each : ∀ u ∈ Gen.Stamps.updates, u.used = u.guards ∧ u.idx = u.blk.sorts := by decide

/-- **delegations_sound**: `TPB`, `TPG`, `TPH` stamp through `TPA._stamp` and `TPZ` through `TPY._stamp`
    (with the converted parameters, see Props/C01TwoPort.lean) whenever the reader recognised the delegation. -/
theorem delegations_sound :
    ∀ d ∈ Gen.Stamps.delegations, d ∈ [("TPB", "TPA"), ("TPG", "TPA"), ("TPH", "TPA"), ("TPZ", "TPY")] := by decide

/-! ### one theorem per class / branch -/

theorem stamp_AM (h : Gen.Stamps.parsed_AM = true) (sk : SrcKind) (s : K) (n1 n2 m : Nat) :
    SameRes (Gen.Stamps.AM sk n1 n2 m) (stamp (kindOf sk) s (.AM n1 n2 m)) := by
  stamp_thm h Gen.Stamps.AM

/-- `RC._stamp` for a resistor: `self.Y.sympy` = 1/R -/
theorem stamp_RC_R (h : Gen.Stamps.parsed_RC = true) (sk : SrcKind) (s : K) (n1 n2 : Nat) (r eps isc : K) :
    SameRes (Gen.Stamps.RC sk false false n1 n2 eps (1 / r) isc) (stamp (kindOf sk) s (.R n1 n2 r)) := by
  first
  | exact absurd h (by decide)
  | (unfold Gen.Stamps.RC; cases sk <;> stamp_eq)

/-- `RC._stamp` for an admittance -/
theorem stamp_RC_Y (h : Gen.Stamps.parsed_RC = true) (sk : SrcKind) (s : K) (n1 n2 : Nat) (y eps isc : K) :
    SameRes (Gen.Stamps.RC sk false false n1 n2 eps y isc) (stamp (kindOf sk) s (.Y n1 n2 y)) := by
  first
  | exact absurd h (by decide)
  | (unfold Gen.Stamps.RC; cases sk <;> stamp_eq)

/-- `RC._stamp` for a capacitor, all kinds, with and without an initial voltage: `self.Y.sympy` = s·C,
    `eps` read by its limit 0 (dc), `self.Isc.sympy` = C·v0 -/
theorem stamp_RC_C (h : Gen.Stamps.parsed_RC = true) (sk : SrcKind) (s : K) (n1 n2 : Nat) (c : K) (v0 : Option K) :
    SameRes (Gen.Stamps.RC sk true v0.isSome n1 n2 0 (capY (kindOf sk) s c) (c * v0.getD 0))
      (stamp (kindOf sk) s (.Cap n1 n2 c v0)) := by
  first
  | exact absurd h (by decide)
  | (unfold Gen.Stamps.RC; cases sk <;> cases v0 <;> stamp_eq)

/-- `VCVS._stamp` with the optional common-mode gain present -/
theorem stamp_VCVS (h : Gen.Stamps.parsed_VCVS = true) (sk : SrcKind) (s : K) (n1 n2 n3 n4 m : Nat) (Ad Ac : K) :
    SameRes (Gen.Stamps.VCVS sk true n1 n2 n3 n4 m Ad Ac) (stamp (kindOf sk) s (.E n1 n2 n3 n4 m Ad Ac)) := by
  stamp_thm h Gen.Stamps.VCVS

/-- `VCVS._stamp` without it (`Ac = 0`) -/
theorem stamp_VCVS_noAc (h : Gen.Stamps.parsed_VCVS = true) (sk : SrcKind) (s : K) (n1 n2 n3 n4 m : Nat) (Ad Ac : K) :
    SameRes (Gen.Stamps.VCVS sk false n1 n2 n3 n4 m Ad Ac) (stamp (kindOf sk) s (.E n1 n2 n3 n4 m Ad 0)) := by
  stamp_thm h Gen.Stamps.VCVS

theorem stamp_CCCS (h : Gen.Stamps.parsed_CCCS = true) (sk : SrcKind) (s : K) (n1 n2 mc : Nat) (f : K) :
    SameRes (Gen.Stamps.CCCS sk n1 n2 mc f) (stamp (kindOf sk) s (.F n1 n2 mc f)) := by
  stamp_thm h Gen.Stamps.CCCS

theorem stamp_VCCS (h : Gen.Stamps.parsed_VCCS = true) (sk : SrcKind) (s : K) (n1 n2 n3 n4 : Nat) (g : K) :
    SameRes (Gen.Stamps.VCCS sk n1 n2 n3 n4 g) (stamp (kindOf sk) s (.G n1 n2 n3 n4 g)) := by
  stamp_thm h Gen.Stamps.VCCS

/-- `GY._stamp`: `m1 = branch_index(name + 'X')` is the input branch, `m2` the component's own branch -/
theorem stamp_GY (h : Gen.Stamps.parsed_GY = true) (sk : SrcKind) (s : K) (n1 n2 n3 n4 m1 m2 : Nat) (r : K) :
    SameRes (Gen.Stamps.GY sk n1 n2 n3 n4 m1 m2 r) (stamp (kindOf sk) s (.GY n1 n2 n3 n4 m1 m2 r)) := by
  stamp_thm h Gen.Stamps.GY

/-- `CCVS._stamp`, controlling component is a voltage source or owns a branch current -/
theorem stamp_CCVS_branch (h : Gen.Stamps.parsed_CCVS = true) (sk : SrcKind) (s : K) (isV needs isC hasIc : Bool)
    (hb : (isV || needs) = true) (n1 n2 m mc c0 c1 : Nat) (hh eps yc iscc : K) :
    SameRes (Gen.Stamps.CCVS sk isV needs isC hasIc n1 n2 m mc c0 c1 hh eps yc iscc)
      (stamp (kindOf sk) s (.H n1 n2 m mc hh)) := by
  first
  | exact absurd h (by decide)
  | (unfold Gen.Stamps.CCVS; cases isV <;> cases needs <;> simp at hb <;> stamp_eq)

/-- `CCVS._stamp`, controlling component is an R, C or Y: the extra row defines the control current
    `Ic = Y·V(c0,c1) − Isc` (`Y = eps → 0` for a capacitor at dc; `Isc` only in an initial-value problem with
    an explicit initial condition) -/
theorem stamp_CCVS_RC (h : Gen.Stamps.parsed_CCVS = true) (sk : SrcKind) (s : K) (isC hasIc : Bool)
    (n1 n2 m mc c0 c1 : Nat) (hh yc iscc : K) :
    SameRes (Gen.Stamps.CCVS sk false false isC hasIc n1 n2 m mc c0 c1 hh 0 yc iscc)
      (stamp (kindOf sk) s (.HY n1 n2 m c0 c1 mc
        (if isC = true ∧ sk = .dc then 0 else yc) (if sk = .ivp ∧ hasIc = true then iscc else 0) hh)) := by
  first
  | exact absurd h (by decide)
  | (unfold Gen.Stamps.CCVS; cases sk <;> cases isC <;> cases hasIc <;> stamp_eq)

theorem stamp_I (h : Gen.Stamps.parsed_I = true) (sk : SrcKind) (s : K) (n1 n2 : Nat) (i : K) :
    SameRes (Gen.Stamps.I sk n1 n2 i) (stamp (kindOf sk) s (.I n1 n2 i)) := by
  stamp_thm h Gen.Stamps.I

/-- `K._stamp`: the two sides of a coupling, with `sym.sqrt(ZL1·ZL2/s²)` = √(L1·L2) =: r and, in a phasor
    kind, `sym.sqrt(ZL1·ZL2)` = s·r (s = jω); M = k·r.  (`K._stamp` refuses the time kind.)
    ONE BRANCH of the square root only: `sqrt((jω)²·L1·L2) = jω·r` is the principal value for ω > 0; for ω < 0 SymPy's
    principal root is −jω·r and the code would stamp the coupling with the opposite sign -- that case is outside this
    theorem (the generators only draw ω > 0; the value is tied by the correspondence). -/
theorem stamp_K (h : Gen.Stamps.parsed_K = true) (sk : SrcKind) (hsk : sk ≠ .time) (s : K) (ic1 ic2 : Bool)
    (m1 m2 : Nat) (k r i01 i02 : K) :
    SameRes (Gen.Stamps.K sk ic1 ic2 m1 m2 k r (s * r) s i01 i02)
      ((halfK (kindOf sk) s m1 (m2, k * r, if ic2 = true then some i02 else none)).append
       (halfK (kindOf sk) s m2 (m1, k * r, if ic1 = true then some i01 else none))) := by
  first
  | exact absurd h (by decide)
  | (unfold Gen.Stamps.K; cases sk <;> cases ic1 <;> cases ic2 <;> first | exact absurd rfl hsk | stamp_eq)

/-- `L._stamp` (without couplings), all kinds, with and without an initial current:
    `self.Z.sympy` = s·L, `self.Voc.sympy` = −L·i0 -/
theorem stamp_L (h : Gen.Stamps.parsed_L = true) (sk : SrcKind) (s : K) (n1 n2 m : Nat) (l : K) (i0 : Option K) :
    SameRes (Gen.Stamps.L sk i0.isSome n1 n2 m (indZ (kindOf sk) s l) (-(l * i0.getD 0)))
      (stamp (kindOf sk) s (.Ind n1 n2 m l i0 [])) := by
  first
  | exact absurd h (by decide)
  | (unfold Gen.Stamps.L; cases sk <;> cases i0 <;> stamp_eq)

theorem stamp_SPpp (h : Gen.Stamps.parsed_SPpp = true) (sk : SrcKind) (s : K) (a b o m : Nat) :
    SameRes (Gen.Stamps.SPpp sk a b o m) (stamp (kindOf sk) s (.SP a b o 0 m 1 1 0)) := by
  stamp_thm h Gen.Stamps.SPpp

theorem stamp_SPpm (h : Gen.Stamps.parsed_SPpm = true) (sk : SrcKind) (s : K) (a b o m : Nat) :
    SameRes (Gen.Stamps.SPpm sk a b o m) (stamp (kindOf sk) s (.SP a b o 0 m 1 (-1) 0)) := by
  stamp_thm h Gen.Stamps.SPpm

theorem stamp_SPppp (h : Gen.Stamps.parsed_SPppp = true) (sk : SrcKind) (s : K) (a b o d m : Nat) :
    SameRes (Gen.Stamps.SPppp sk a b o d m) (stamp (kindOf sk) s (.SP a b o d m 1 1 1)) := by
  stamp_thm h Gen.Stamps.SPppp

theorem stamp_SPpmm (h : Gen.Stamps.parsed_SPpmm = true) (sk : SrcKind) (s : K) (a b o d m : Nat) :
    SameRes (Gen.Stamps.SPpmm sk a b o d m) (stamp (kindOf sk) s (.SP a b o d m 1 (-1) (-1))) := by
  stamp_thm h Gen.Stamps.SPpmm

theorem stamp_SPppm (h : Gen.Stamps.parsed_SPppm = true) (sk : SrcKind) (s : K) (a b o d m : Nat) :
    SameRes (Gen.Stamps.SPppm sk a b o d m) (stamp (kindOf sk) s (.SP a b o d m 1 1 (-1))) := by
  stamp_thm h Gen.Stamps.SPppm

theorem stamp_TF (h : Gen.Stamps.parsed_TF = true) (sk : SrcKind) (s : K) (n1 n2 n3 n4 m : Nat) (a : K) :
    SameRes (Gen.Stamps.TF sk n1 n2 n3 n4 m a) (stamp (kindOf sk) s (.TF n1 n2 n3 n4 m a)) := by
  stamp_thm h Gen.Stamps.TF

/-- `TPA._stamp` (also reached by `TPB/TPG/TPH._stamp`, see `delegations_sound`) -/
theorem stamp_TPA (h : Gen.Stamps.parsed_TPA = true) (sk : SrcKind) (s : K) (n1 n2 n3 n4 m : Nat) (a11 a12 a21 a22 : K) :
    SameRes (Gen.Stamps.TPA sk n1 n2 n3 n4 m a11 a12 a21 a22) (stamp (kindOf sk) s (.TPA n1 n2 n3 n4 m a11 a12 a21 a22)) := by
  stamp_thm h Gen.Stamps.TPA

/-- `TPY._stamp` (also reached by `TPZ._stamp`) -/
theorem stamp_TPY (h : Gen.Stamps.parsed_TPY = true) (sk : SrcKind) (s : K) (n1 n2 n3 n4 : Nat) (y11 y12 y21 y22 : K) :
    SameRes (Gen.Stamps.TPY sk n1 n2 n3 n4 y11 y12 y21 y22) (stamp (kindOf sk) s (.TPY n1 n2 n3 n4 y11 y12 y21 y22)) := by
  stamp_thm h Gen.Stamps.TPY

theorem stamp_TR (h : Gen.Stamps.parsed_TR = true) (sk : SrcKind) (s : K) (n1 n2 m : Nat) (a : K) :
    SameRes (Gen.Stamps.TR sk n1 n2 m a) (stamp (kindOf sk) s (.TR n1 n2 m a)) := by
  stamp_thm h Gen.Stamps.TR

theorem stamp_V (h : Gen.Stamps.parsed_V = true) (sk : SrcKind) (s : K) (n1 n2 m : Nat) (v : K) :
    SameRes (Gen.Stamps.V sk n1 n2 m v) (stamp (kindOf sk) s (.V n1 n2 m v)) := by
  stamp_thm h Gen.Stamps.V

/-! ### composition: the system assembled from the stamps as written in the source -/

inductive SPKind where
  | pp | pm | ppp | pmm | ppm
deriving DecidableEq, Repr

/-- a netlist line as the `_stamp` methods see it: a component of the hand model's vocabulary, or one of the
    source forms that the hand model represents by a more general constructor -/
inductive Src (K : Type) where
  | cpt (c : Cpt K)                        -- R C L V I E(with Ac) G F H TF GY AM TR Y O/P TPA TPY (`.SP` / `.HY` given this way keep the hand stamp)
  | eNoAc (n1 n2 n3 n4 m : Nat) (Ad : K)   -- `E` without the optional common-mode gain
  | sp (kw : SPKind) (a b o d m : Nat)     -- the five summing-point classes (`d` is not used by pp / pm)
  | hy (isC hasIc : Bool) (n1 n2 m c0 c1 mc : Nat) (yc iscc h : K)
      -- CCVS controlled by an R / C / Y between c0 and c1 with admittance `yc = ccpt.Y` and `iscc = ccpt.Isc`

/-- the hand-model component of a source line -/
def toCpt (sk : SrcKind) : Src K → Cpt K
  | .cpt c => c
  | .eNoAc n1 n2 n3 n4 m Ad => .E n1 n2 n3 n4 m Ad 0
  | .sp .pp a b o _ m => .SP a b o 0 m 1 1 0
  | .sp .pm a b o _ m => .SP a b o 0 m 1 (-1) 0
  | .sp .ppp a b o d m => .SP a b o d m 1 1 1
  | .sp .pmm a b o d m => .SP a b o d m 1 (-1) (-1)
  | .sp .ppm a b o d m => .SP a b o d m 1 1 (-1)
  | .hy isC hasIc n1 n2 m c0 c1 mc yc iscc h =>
      .HY n1 n2 m c0 c1 mc (if isC = true ∧ sk = .dc then 0 else yc) (if sk = .ivp ∧ hasIc = true then iscc else 0) h

open Lcapy.Gen.Stamps in
/-- the stamp of a source line: the GENERATED definition of its class (the hand model's when the class was
    not parsed); an inductor carries the halves of the `K` lines that name it (`stamp_K`) -/
def srcStamp (sk : SrcKind) (s : K) : Src K → Stamp K
  | .cpt (.R n1 n2 r) => pick parsed_RC (RC sk false false n1 n2 0 (1 / r) 0) (stamp (kindOf sk) s (.R n1 n2 r))
  | .cpt (.Y n1 n2 y) => pick parsed_RC (RC sk false false n1 n2 0 y 0) (stamp (kindOf sk) s (.Y n1 n2 y))
  | .cpt (.Cap n1 n2 c v0) =>
      pick parsed_RC (RC sk true v0.isSome n1 n2 0 (capY (kindOf sk) s c) (c * v0.getD 0)) (stamp (kindOf sk) s (.Cap n1 n2 c v0))
  | .cpt (.Ind n1 n2 m l i0 coup) =>
      (pick parsed_L (Gen.Stamps.L sk i0.isSome n1 n2 m (indZ (kindOf sk) s l) (-(l * i0.getD 0)))
        (stamp (kindOf sk) s (.Ind n1 n2 m l i0 []))).append (halfKs (kindOf sk) s m coup)
  | .cpt (.V n1 n2 m v) => pick parsed_V (Gen.Stamps.V sk n1 n2 m v) (stamp (kindOf sk) s (.V n1 n2 m v))
  | .cpt (.I n1 n2 i) => pick parsed_I (Gen.Stamps.I sk n1 n2 i) (stamp (kindOf sk) s (.I n1 n2 i))
  | .cpt (.E n1 n2 n3 n4 m Ad Ac) => pick parsed_VCVS (VCVS sk true n1 n2 n3 n4 m Ad Ac) (stamp (kindOf sk) s (.E n1 n2 n3 n4 m Ad Ac))
  | .cpt (.G n1 n2 n3 n4 g) => pick parsed_VCCS (VCCS sk n1 n2 n3 n4 g) (stamp (kindOf sk) s (.G n1 n2 n3 n4 g))
  | .cpt (.F n1 n2 mc f) => pick parsed_CCCS (CCCS sk n1 n2 mc f) (stamp (kindOf sk) s (.F n1 n2 mc f))
  | .cpt (.H n1 n2 m mc h) =>
      pick parsed_CCVS (CCVS sk true true false false n1 n2 m mc 0 0 h 0 0 0) (stamp (kindOf sk) s (.H n1 n2 m mc h))
  | .cpt (.TF n1 n2 n3 n4 m a) => pick parsed_TF (TF sk n1 n2 n3 n4 m a) (stamp (kindOf sk) s (.TF n1 n2 n3 n4 m a))
  | .cpt (.GY n1 n2 n3 n4 m1 m2 r) => pick parsed_GY (GY sk n1 n2 n3 n4 m1 m2 r) (stamp (kindOf sk) s (.GY n1 n2 n3 n4 m1 m2 r))
  | .cpt (.AM n1 n2 m) => pick parsed_AM (AM sk n1 n2 m) (stamp (kindOf sk) s (.AM n1 n2 m))
  | .cpt (.TR n1 n2 m a) => pick parsed_TR (TR sk n1 n2 m a) (stamp (kindOf sk) s (.TR n1 n2 m a))
  | .cpt (.TPA n1 n2 n3 n4 m a11 a12 a21 a22) =>
      pick parsed_TPA (TPA sk n1 n2 n3 n4 m a11 a12 a21 a22) (stamp (kindOf sk) s (.TPA n1 n2 n3 n4 m a11 a12 a21 a22))
  | .cpt (.TPY n1 n2 n3 n4 y11 y12 y21 y22) =>
      pick parsed_TPY (TPY sk n1 n2 n3 n4 y11 y12 y21 y22) (stamp (kindOf sk) s (.TPY n1 n2 n3 n4 y11 y12 y21 y22))
  | .cpt c => stamp (kindOf sk) s c          -- Open (`Dummy._stamp` does nothing); `.SP` / `.HY` in hand-model form
  | .eNoAc n1 n2 n3 n4 m Ad => pick parsed_VCVS (VCVS sk false n1 n2 n3 n4 m Ad 0) (stamp (kindOf sk) s (.E n1 n2 n3 n4 m Ad 0))
  | .sp .pp a b o _ m => pick parsed_SPpp (SPpp sk a b o m) (stamp (kindOf sk) s (.SP a b o 0 m 1 1 0))
  | .sp .pm a b o _ m => pick parsed_SPpm (SPpm sk a b o m) (stamp (kindOf sk) s (.SP a b o 0 m 1 (-1) 0))
  | .sp .ppp a b o d m => pick parsed_SPppp (SPppp sk a b o d m) (stamp (kindOf sk) s (.SP a b o d m 1 1 1))
  | .sp .pmm a b o d m => pick parsed_SPpmm (SPpmm sk a b o d m) (stamp (kindOf sk) s (.SP a b o d m 1 (-1) (-1)))
  | .sp .ppm a b o d m => pick parsed_SPppm (SPppm sk a b o d m) (stamp (kindOf sk) s (.SP a b o d m 1 1 (-1)))
  | .hy isC hasIc n1 n2 m c0 c1 mc yc iscc h =>
      pick parsed_CCVS (CCVS sk false false isC hasIc n1 n2 m mc c0 c1 h 0 yc iscc)
        (stamp (kindOf sk) s (toCpt sk (.hy isC hasIc n1 n2 m c0 c1 mc yc iscc h)))

/-- **src_stamp_same**: every source line stamps the same rows as its hand-model component. -/
theorem src_stamp_same (sk : SrcKind) (s : K) (c : Src K) :
    SameRes (srcStamp sk s c) (stamp (kindOf sk) s (toCpt sk c)) := by
  cases c with
  | cpt c =>
    cases c with
    | R n1 n2 r => exact pick_sameRes (fun hp => stamp_RC_R hp sk s n1 n2 r 0 0)
    | Y n1 n2 y => exact pick_sameRes (fun hp => stamp_RC_Y hp sk s n1 n2 y 0 0)
    | Cap n1 n2 c v0 => exact pick_sameRes (fun hp => stamp_RC_C hp sk s n1 n2 c v0)
    | Ind n1 n2 m l i0 coup =>
      intro x r
      show _ = residual (stamp (kindOf sk) s (.Ind n1 n2 m l i0 coup)) x r
      rw [ind_split (kindOf sk) s n1 n2 m l i0 coup x r]
      exact SameRes.append (pick_sameRes (fun hp => stamp_L hp sk s n1 n2 m l i0)) (SameRes.refl _) x r
    | V n1 n2 m v => exact pick_sameRes (fun hp => stamp_V hp sk s n1 n2 m v)
    | I n1 n2 i => exact pick_sameRes (fun hp => stamp_I hp sk s n1 n2 i)
    | E n1 n2 n3 n4 m Ad Ac => exact pick_sameRes (fun hp => stamp_VCVS hp sk s n1 n2 n3 n4 m Ad Ac)
    | G n1 n2 n3 n4 g => exact pick_sameRes (fun hp => stamp_VCCS hp sk s n1 n2 n3 n4 g)
    | F n1 n2 mc f => exact pick_sameRes (fun hp => stamp_CCCS hp sk s n1 n2 mc f)
    | H n1 n2 m mc h => exact pick_sameRes (fun hp => stamp_CCVS_branch hp sk s true true false false rfl n1 n2 m mc 0 0 h 0 0 0)
    | TF n1 n2 n3 n4 m a => exact pick_sameRes (fun hp => stamp_TF hp sk s n1 n2 n3 n4 m a)
    | GY n1 n2 n3 n4 m1 m2 r => exact pick_sameRes (fun hp => stamp_GY hp sk s n1 n2 n3 n4 m1 m2 r)
    | AM n1 n2 m => exact pick_sameRes (fun hp => stamp_AM hp sk s n1 n2 m)
    | TR n1 n2 m a => exact pick_sameRes (fun hp => stamp_TR hp sk s n1 n2 m a)
    | TPA n1 n2 n3 n4 m a11 a12 a21 a22 => exact pick_sameRes (fun hp => stamp_TPA hp sk s n1 n2 n3 n4 m a11 a12 a21 a22)
    | TPY n1 n2 n3 n4 y11 y12 y21 y22 => exact pick_sameRes (fun hp => stamp_TPY hp sk s n1 n2 n3 n4 y11 y12 y21 y22)
    | Open n1 n2 => exact SameRes.refl _
    | SP n1 n2 n3 n4 m c1 c2 c4 => exact SameRes.refl _
    | HY n1 n2 m n3 n4 mc y isc h => exact SameRes.refl _
  | eNoAc n1 n2 n3 n4 m Ad => exact pick_sameRes (fun hp => stamp_VCVS_noAc hp sk s n1 n2 n3 n4 m Ad 0)
  | sp kw a b o d m =>
    cases kw
    · exact pick_sameRes (fun hp => stamp_SPpp hp sk s a b o m)
    · exact pick_sameRes (fun hp => stamp_SPpm hp sk s a b o m)
    · exact pick_sameRes (fun hp => stamp_SPppp hp sk s a b o d m)
    · exact pick_sameRes (fun hp => stamp_SPpmm hp sk s a b o d m)
    · exact pick_sameRes (fun hp => stamp_SPppm hp sk s a b o d m)
  | hy isC hasIc n1 n2 m c0 c1 mc yc iscc h =>
    exact pick_sameRes (fun hp => stamp_CCVS_RC hp sk s isC hasIc n1 n2 m mc c0 c1 h yc iscc)

/-- the system assembled from the stamps as written in the source -/
def srcStampAll (sk : SrcKind) (s : K) (cs : List (Src K)) : Stamp K :=
  cs.foldr (fun c acc => (srcStamp sk s c).append acc) {}

def SolvesSrc (sk : SrcKind) (s : K) (cs : List (Src K)) (x : Ix → K) : Prop :=
  ∀ r, r ≠ node 0 → residual (srcStampAll sk s cs) x r = 0

/-- **src_solves_iff**: the source-level system and the hand model's system have the same solutions. -/
theorem src_solves_iff (sk : SrcKind) (s : K) (cs : List (Src K)) (x : Ix → K) :
    SolvesSrc sk s cs x ↔ Solves (kindOf sk) s (cs.map (toCpt sk)) x := by
  have key : ∀ r, residual (srcStampAll sk s cs) x r = residual (stampAll (kindOf sk) s (cs.map (toCpt sk))) x r := by
    intro r
    rw [srcStampAll, residual_foldr_append, residual_stampAll, List.map_map]
    congr 1
    apply List.map_congr_left
    intro c _
    exact src_stamp_same sk s c x r
  constructor
  · intro h r hr; rw [← key r]; exact h r hr
  · intro h r hr; rw [key r]; exact h r hr

/-- **mna_iff_laws_source**: the `_stamp` methods as they are written in lcapy/mnacpts.py only accumulate
    (`+=`/`-=`), guard every node index against ground, and -- for every netlist of ANY size whose branch
    currents are owned once, in every analysis kind (dc, s, ivp, phasor, time), at every point s -- assemble a
    system that is solved exactly by the assignments obeying Kirchhoff's current law at every non-ground node
    and the defining relation of every component. -/
theorem mna_iff_laws_source :
    Gen.Stamps.allAccumulate = true ∧ Gen.Stamps.guardsOk = true ∧
    ∀ (sk : SrcKind) (s : K) (cs : List (Src K)) (x : Ix → K), WF (cs.map (toCpt sk)) →
      (SolvesSrc sk s cs x ↔ Laws (kindOf sk) s (cs.map (toCpt sk)) x) := by
  refine ⟨all_accumulate, guards_ok, ?_⟩
  intro sk s cs x hwf
  rw [src_solves_iff]
  exact mna_iff_laws (kindOf sk) s _ x hwf

/-! ### Non-vacuity: an initial-value circuit in source form, its exact solution solves the source-level system -/

def exSrc : List (Src ℚ) := [.cpt (.V 1 0 0 3), .cpt (.R 1 2 3), .cpt (.Ind 2 0 1 2 (some 1) [])]

example : WF (exSrc.map (toCpt .ivp)) := by simp [WF, exSrc, toCpt, owned]

example : SolvesSrc .ivp 2 exSrc (fun i => match i with
    | node 1 => 3 | node 2 => 6/7 | br 0 => -5/7 | br 1 => 5/7 | _ => 0) := by
  intro r hr
  have hp : ∀ (b : Bool) (g h : Stamp ℚ), b = true → pick b g h = g := by intro b g h hb; simp [pick, hb]
  rcases r with (_ | _ | _ | k) | (_ | _ | m) <;>
    simp [exSrc, srcStampAll, srcStamp, pick, halfKs, Stamp.append, Gen.Stamps.V, Gen.Stamps.RC, Gen.Stamps.L,
      Gen.Stamps.parsed_V, Gen.Stamps.parsed_RC, Gen.Stamps.parsed_L, stamp, branchPattern, admPattern,
      residual, lhsSum, rhsSum, ground, kindOf, indZ, capY] at hr ⊢ <;> norm_num

end Lcapy.C01
