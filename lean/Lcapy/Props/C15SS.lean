/-
  PROPERTY C15, state space of a circuit -- `StateSpaceMaker.from_circuit` (lcapy/statespacemaker.py).

  Model : Model/StateSpaceMaker.lean (`subst`: C ↦ voltage source carrying the state v_C, L ↦ current source carrying
          the state i_L; unit solutions of the resulting resistive circuit; A, B, C, D entries = quantities read off
          the unit solutions).
  Spec  : the circuit laws at one instant -- `Laws .time` (Spec/Laws.lean, property C01) of the substituted circuit,
          i.e. Kirchhoff's laws and every resistive / source / controlled-source relation with the capacitor voltages
          and inductor currents at their present values, plus the two integrator laws  C·dv_C/dt = i_C,  L·di_L/dt = v_L.
  `ss_from_circuit`: the state equation and the output equation with the model's matrices hold for values
  (x, u, dx/dt, y) IFF those values are consistent with the circuit laws.  No matrix inverse is mentioned:
  regularity is `NonsingularOn` (the homogeneous resistive system has only the trivial solution on what is read).
  Only property theorems live here; helper lemmas are in Proofs/StateSpaceMaker.lean.
-/
import Lcapy.Proofs.StateSpaceMaker
import Lcapy.Proofs.StateSpaceTime
import Lcapy.Props.C01
import Mathlib.Tactic.NormNum
namespace Lcapy.C15
open Lcapy.MNA Lcapy.SSMaker Lcapy.TDS Ix
variable {K : Type} [Field K] [DecidableEq K]

/-- the integrator law of the component at position `p`, with `dv p` the time derivative of its state variable and
    `z` the instantaneous solution:  C·dv_C/dt = i_C  (current through the capacitor, first to second node),
    L·di_L/dt = v_L  (voltage across the inductor) -/
def Integrator (base : Nat) (z : Ix → K) (dv : Nat → K) (p : Nat) : Cpt K → Prop
  | .Cap _ _ cv _ => cv * dv p = z (br (base + p))
  | .Ind n1 n2 _ l _ _ => l * dv p = vd z n1 n2
  | _ => True

/-- capacitances and inductances are non-zero (the code divides by them) -/
def ValueOk : Cpt K → Prop
  | .Cap _ _ cv _ => cv ≠ 0
  | .Ind _ _ _ l _ _ => l ≠ 0
  | _ => True

/-- the unknowns the state derivatives and the outputs read: node voltages of resistor / inductor terminals and of
    the output nodes, branch currents of the (substituted) voltage sources and of E, H, TF, AM -/
def ssReads (base : Nat) (cs : List (Cpt K)) (onodes : List Nat) : Ix → Prop :=
  fun i => (∃ pc ∈ enumFrom 0 cs, i ∈ readsC base pc.1 pc.2) ∨ (∃ k ∈ onodes, i = node k)

/-- the resistive system is regular on the unknowns `U`: its homogeneous form forces them to vanish
    ("non-degenerate reactive sets": no loop of capacitors / voltage sources, no cut set of inductors / current sources) -/
def NonsingularOn (U : Ix → Prop) (cs' : List (Cpt K)) : Prop :=
  ∀ z, C01.SolvesHom .time 0 cs' z → ∀ i, U i → z i = 0

/-- SPEC: the values `w` (state variables and source values by netlist position), `dv` (state derivatives),
    `yv` (node-voltage outputs), `yi` (branch-current outputs) are consistent with the circuit laws at one instant -/
def CircuitHolds (base : Nat) (cs : List (Cpt K)) (onodes : List Nat) (w dv yv yi : Nat → K) : Prop :=
  ∃ z, Laws .time 0 (subst base w cs) z ∧
    (∀ pc ∈ enumFrom 0 cs, Integrator base z dv pc.1 pc.2) ∧
    (∀ k ∈ onodes, yv k = volt z k) ∧
    (∀ pc ∈ enumFrom 0 cs, yi pc.1 = outI base pc.1 pc.2 z w)

/-- MODEL: dx/dt = A x + B u and y = C x + D u with the entries StateSpaceMaker extracts -/
def StateSpaceHolds (M : SSM K) (cs : List (Cpt K)) (onodes : List Nat) (w dv yv yi : Nat → K) : Prop :=
  (∀ pc ∈ enumFrom 0 cs, role pc.2 = .ind ∨ role pc.2 = .cap → dv pc.1 = ssValue (dotx M.base pc.1 pc.2) M cs w) ∧
  (∀ k ∈ onodes, yv k = ssValue (outV k) M cs w) ∧
  (∀ pc ∈ enumFrom 0 cs, yi pc.1 = ssValue (outI M.base pc.1 pc.2) M cs w)

/-- **ss_from_circuit**: for EVERY netlist (R, Y, C, L, V, I, controlled sources E/G/F/H, transformers, … -- any
    component list of any size), every linear solver whose unit solutions pass the row check, and every choice of output
    nodes: the state equation  dx/dt = A x + B u  and the output equation  y = C x + D u  with the entries
    StateSpaceMaker extracts hold for values (x, u, dx/dt, y) if and only if these values are consistent with
    Kirchhoff's laws, every component relation and the integrator laws of the capacitors and inductors.
    Hypotheses: the substituted circuit is well formed (no branch current claimed twice), C, L ≠ 0, and its
    resistive system is regular on the unknowns that are read. -/
theorem ss_from_circuit (solver : List (Cpt K) → Ix → K) (cs : List (Cpt K)) (onodes : List Nat) (M : SSM K)
    (hM : ssModel solver cs = some M)
    (hwf : C01.WF (subst M.base (fun _ => 0) cs))
    (hval : ∀ c ∈ cs, ValueOk c)
    (hns : NonsingularOn (ssReads M.base cs onodes) (subst M.base (fun _ => 0) cs))
    (w dv yv yi : Nat → K) :
    StateSpaceHolds M cs onodes w dv yv yi ↔ CircuitHolds M.base cs onodes w dv yv yi := by
  have hwf' : C01.WF (subst M.base w cs) := by
    unfold C01.WF subst at *
    rw [owned_subst M.base w (fun _ => 0) cs 0]; exact hwf
  have hsol := ss_solution solver cs M hM w
  have hmemcs : ∀ (l : List (Cpt K)) (p q : Nat) (c : Cpt K), (q, c) ∈ enumFrom p l → c ∈ l := by
    intro l
    induction l with
    | nil => intro p q c h; simp [enumFrom] at h
    | cons a t ih =>
      intro p q c h
      simp only [enumFrom, List.mem_cons, Prod.mk.injEq] at h
      rcases h with ⟨_, rfl⟩ | h
      · simp
      · exact List.mem_cons_of_mem _ (ih _ _ _ h)
  -- the state-space value of each quantity is the quantity at the combined unit solutions
  have hdot : ∀ p c, ssValue (dotx M.base p c) M cs w = dotx M.base p c (zsum (srcPos cs) w M.zs) w := by
    intro p c
    rw [← ssValue_eq _ (linfun_dotx M.base p c)]
    cases c <;> rfl
  have hoV : ∀ k, ssValue (outV k) M cs w = volt (zsum (srcPos cs) w M.zs) k := by
    intro k
    rw [← ssValue_eq _ (linfun_outV k)]; rfl
  have hoI : ∀ p c, (p, c) ∈ enumFrom 0 cs →
      ssValue (outI M.base p c) M cs w = outI M.base p c (zsum (srcPos cs) w M.zs) w := by
    intro p c h
    rw [← ssValue_eq _ (linfun_outI M.base p c), outI_wsum M.base cs w _ p c h]
  constructor
  · rintro ⟨hd, hv, hi⟩
    refine ⟨zsum (srcPos cs) w M.zs, (C01.mna_iff_laws .time 0 _ _ hwf').mp hsol, ?_, ?_, ?_⟩
    · rintro ⟨p, c⟩ hpc
      have hok := hval c (hmemcs cs 0 p c hpc)
      cases c <;> simp only [Integrator]
      case Cap n1 n2 cv v0 =>
        rw [hd (p, _) hpc (Or.inr rfl), hdot]
        simp only [dotx]
        simp only [ValueOk] at hok
        field_simp
      case Ind n1 n2 m l i0 coup =>
        rw [hd (p, _) hpc (Or.inl rfl), hdot]
        simp only [dotx]
        simp only [ValueOk] at hok
        field_simp
    · intro k hk; rw [hv k hk, hoV]
    · rintro ⟨p, c⟩ hpc; rw [hi (p, c) hpc, hoI p c hpc]
  · rintro ⟨z, hlaws, hint, hv, hi⟩
    have hz := (C01.mna_iff_laws .time 0 _ _ hwf').mpr hlaws
    -- uniqueness on what is read
    have huniq : ∀ i, ssReads M.base cs onodes i → z i = zsum (srcPos cs) w M.zs i := by
      intro i hi
      have hh := solves_diff_hom _ z _ hz hsol
      have hh' : C01.SolvesHom .time 0 (subst M.base (fun _ => 0) cs) (fun i => z i - zsum (srcPos cs) w M.zs i) := by
        intro r hr
        have := hh r hr
        simp only [subst] at this ⊢
        rwa [stampAll_lhs_subst M.base w (fun _ => 0) cs 0] at this
      exact sub_eq_zero.mp (hns _ hh' i hi)
    refine ⟨?_, ?_, ?_⟩
    · rintro ⟨p, c⟩ hpc hrole
      rw [hdot, ← reads_dotx M.base p c z _ w (fun i hi' => huniq i (Or.inl ⟨(p, c), hpc, hi'⟩))]
      have hok := hval c (hmemcs cs 0 p c hpc)
      have hI := hint (p, c) hpc
      cases c <;> simp [role] at hrole
      case Cap n1 n2 cv v0 =>
        simp only [Integrator] at hI
        simp only [ValueOk] at hok
        simp only [dotx]
        rw [← hI]; field_simp
      case Ind n1 n2 m l i0 coup =>
        simp only [Integrator] at hI
        simp only [ValueOk] at hok
        simp only [dotx]
        rw [← hI]; field_simp
    · intro k hk
      rw [hv k hk, hoV]
      exact reads_outV k z _ w (fun i hi' => huniq i (Or.inr ⟨k, hk, hi'⟩))
    · rintro ⟨p, c⟩ hpc
      rw [hi (p, c) hpc, hoI p c hpc]
      exact reads_outI M.base p c z _ w (fun i hi' => huniq i (Or.inl ⟨(p, c), hpc, hi'⟩))

/-! ### the time domain: signals instead of values -/

omit [DecidableEq K] in
/-- **ss_time_domain**: for every netlist whose inductors are uncoupled (branch indices below `base`), functions of
    time `z` (node voltages, branch currents), source waveforms `uw` and ANY operator `D` in the role of d/dt:
    the TIME-DOMAIN laws of the circuit (Spec/LawsTD.lean: KCL, i = C dv/dt, v = L di/dt, every instantaneous
    relation) hold  iff  at every instant the resistive laws of StateSpaceMaker's substituted circuit hold for the
    present values of the states and sources, together with the integrator laws. -/
theorem ss_time_domain {T : Type} (base : Nat) (D : (T → K) → (T → K)) (cs : List (Cpt K))
    (hok : ∀ c ∈ cs, TimeOk base c) (z : Ix → T → K) (uw : Nat → T → K) :
    LawsTD (fnOps D) (withWaveFrom uw 0 cs) z ↔
      ∀ t, Laws .time 0 (subst base (wAt cs z uw t) cs) (zxAt base D cs z t) ∧
           ∀ pc ∈ enumFrom 0 cs, Integrator base (zxAt base D cs z t) (dvAt D cs z t) pc.1 pc.2 := by
  have hInt : ∀ t, (∀ pc ∈ enumFrom 0 cs, Integrator base (zxAt base D cs z t) (dvAt D cs z t) pc.1 pc.2) ↔
      (∀ pc ∈ enumFrom 0 cs, IndLaw D z t pc.2) := by
    intro t
    refine forall_congr' fun pc => forall_congr' fun hpc => ?_
    obtain ⟨q, c⟩ := pc
    have hd := dvAt_spec D cs z t (q, c) hpc
    have hx := (zxAt_extends base D cs z t).2.2 (q, c) hpc
    have hvd := vd_ext z t (zxAt base D cs z t) (fun k => rfl)
    cases c <;> simp only [Integrator, IndLaw, stateDeriv] at *
    case Cap n1 n2 cv v0 => rw [hd, hx]; simp
    case Ind n1 n2 m l i0 coup => rw [hd, hvd]
  constructor
  · rintro ⟨hk, hl⟩ t
    have hlaw := (laws_list_at base D z uw t (zxAt base D cs z t) (wAt cs z uw t) cs 0 (zxAt_extends base D cs z t) hok
      (wAt_spec cs z uw t)).mp (fun sc hsc q hq => congrFun (hl sc hsc q hq) t)
    refine ⟨⟨fun k hk0 => ?_, hlaw.1⟩, (hInt t).mpr hlaw.2⟩
    have := kcl_at base D z uw t (zxAt base D cs z t) (wAt cs z uw t) k cs 0 (zxAt_extends base D cs z t) hok
      (wAt_spec cs z uw t)
    simp only [subst]
    rw [← this, hk k hk0]; rfl
  · intro h
    refine ⟨fun k hk0 => funext fun t => ?_, fun sc hsc q hq => funext fun t => ?_⟩
    · have := kcl_at base D z uw t (zxAt base D cs z t) (wAt cs z uw t) k cs 0 (zxAt_extends base D cs z t) hok
        (wAt_spec cs z uw t)
      rw [this]
      exact (h t).1.1 k hk0
    · exact (laws_list_at base D z uw t (zxAt base D cs z t) (wAt cs z uw t) cs 0 (zxAt_extends base D cs z t) hok
        (wAt_spec cs z uw t)).mpr ⟨(h t).1.2, (hInt t).mp (h t).2⟩ sc hsc q hq

/-- **ss_along_solutions**: every time-domain solution of the circuit -- signals obeying KCL, i = C dv/dt, v = L di/dt
    and the instantaneous relations, for any source waveforms and any derivative operator -- satisfies, at every instant,
    the state equation  dx/dt = A x + B u  and the output equation  y = C x + D u  with the matrices of the model. -/
theorem ss_along_solutions {T : Type} (solver : List (Cpt K) → Ix → K) (cs : List (Cpt K)) (onodes : List Nat) (M : SSM K)
    (hM : ssModel solver cs = some M) (hwf : C01.WF (subst M.base (fun _ => 0) cs)) (hval : ∀ c ∈ cs, ValueOk c)
    (hns : NonsingularOn (ssReads M.base cs onodes) (subst M.base (fun _ => 0) cs))
    (hok : ∀ c ∈ cs, TimeOk M.base c)
    (D : (T → K) → (T → K)) (z : Ix → T → K) (uw : Nat → T → K)
    (hlaws : LawsTD (fnOps D) (withWaveFrom uw 0 cs) z) (t : T) :
    (∀ pc ∈ enumFrom 0 cs, role pc.2 = .ind ∨ role pc.2 = .cap →
        stateDeriv D z t pc.2 = ssValue (dotx M.base pc.1 pc.2) M cs (wAt cs z uw t)) ∧
    (∀ k ∈ onodes, volt (fun i => z i t) k = ssValue (outV k) M cs (wAt cs z uw t)) := by
  obtain ⟨hl, hint⟩ := (ss_time_domain M.base D cs hok z uw).mp hlaws t
  have hss := (ss_from_circuit solver cs onodes M hM hwf hval hns (wAt cs z uw t) (dvAt D cs z t)
    (fun k => volt (fun i => z i t) k) (fun p => outI M.base p ((lookupFrom 0 cs p).getD (.Open 0 0)) (zxAt M.base D cs z t)
      (wAt cs z uw t))).mpr
    ⟨zxAt M.base D cs z t, hl, hint, fun k _ => (volt_ext z t _ (fun _ => rfl) k).symm, by
      rintro ⟨q, c⟩ hpc
      simp only [lookupFrom_enum cs 0 q c hpc, Option.getD_some]⟩
  refine ⟨fun pc hpc hr => ?_, fun k hk => hss.2.1 k hk⟩
  rw [← dvAt_spec D cs z t pc hpc]
  exact hss.1 pc hpc hr

/-! ### non-vacuity: `V1 1 0 {u}; R1 1 2 3; C1 2 0 4`  (dv_C/dt = (u − v_C)/12) -/

def rcCkt : List (Cpt ℚ) := [.V 1 0 0 0, .R 1 2 3, .Cap 2 0 4 none]

/-- the two unit solutions (for u = 1 and for v_C = 1), as any correct linear solver returns them -/
def rcSolver (cs' : List (Cpt ℚ)) : Ix → ℚ :=
  match cs' with
  | .V _ _ _ v :: _ =>
    if v = 1 then fun i => match i with | node 1 => 1 | br 0 => -1/3 | br 3 => 1/3 | _ => 0
    else fun i => match i with | node 2 => 1 | br 0 => 1/3 | br 3 => -1/3 | _ => 0
  | _ => fun _ => 0

theorem rc_model : ∃ M, ssModel rcSolver rcCkt = some M ∧ M.base = 1 := by
  refine ⟨⟨1, fun q => rcSolver (subst 1 (ind q) rcCkt)⟩, ?_, rfl⟩
  have hb : freshBase rcCkt = 1 := by decide
  have hall : (srcPos rcCkt).all (fun q => checkSolves (subst 1 (ind q) rcCkt) (rcSolver (subst 1 (ind q) rcCkt))) = true := by
    decide +kernel
  simp only [ssModel, hb, hall, if_true]

example : C01.WF (subst 1 (fun _ => (0 : ℚ)) rcCkt) := by
  simp [C01.WF, subst, substFrom, substC, rcCkt, owned]

example : ∀ c ∈ rcCkt, ValueOk c := by
  intro c hc; simp [rcCkt] at hc; rcases hc with rfl | rfl | rfl <;> simp [ValueOk]

theorem rc_nonsingular : NonsingularOn (ssReads 1 rcCkt [1, 2]) (subst 1 (fun _ => (0 : ℚ)) rcCkt) := by
  intro z hz i hi
  have h1 := hz (.node 1) (by simp)
  have h2 := hz (.node 2) (by simp)
  have h3 := hz (.br 0) (by simp)
  have h4 := hz (.br 3) (by simp)
  simp [subst, substFrom, substC, rcCkt, stampAll, stamp, Stamp.append, admPattern, branchPattern, lhsSum, ground] at h1 h2 h3 h4
  have e0 : z (.br 0) = 0 := by rw [h3, h4] at h1; simpa using h1
  have e3 : z (.br 3) = 0 := by rw [h3, h4] at h2; simpa using h2
  rcases hi with ⟨pc, hpc, hi⟩ | ⟨k, hk, rfl⟩
  · simp [rcCkt, enumFrom] at hpc
    rcases hpc with rfl | rfl | rfl <;> simp [readsC] at hi
    · subst hi; exact e0
    · rcases hi with rfl | rfl <;> assumption
    · subst hi; exact e3
  · simp at hk; rcases hk with rfl | rfl <;> assumption

/-- hypotheses of `ss_time_domain` / `ss_along_solutions` on the example: branch 0 lies below the base 1 -/
example : ∀ c ∈ rcCkt, TimeOk 1 c := by
  intro c hc; simp [rcCkt] at hc; rcases hc with rfl | rfl | rfl <;> simp [TimeOk, brRefs]

/-- … and a time-domain solution: u = 5 constant, v_C = 5, no current (with the zero operator for d/dt on constants) -/
def rcConst : Ix → Unit → ℚ
  | node 1 => fun _ => 5
  | node 2 => fun _ => 5
  | _ => fun _ => 0

example : LawsTD (fnOps (fun _ => fun _ => (0 : ℚ))) (withWaveFrom (fun _ _ => 5) 0 rcCkt) rcConst := by
  constructor
  · intro k hk
    funext t
    match k with
    | 0 => exact absurd rfl hk
    | 1 => norm_num [rcCkt, withWaveFrom, sumS, outflowS, twoTermS, vdS, voltS, fnOps, rcConst]
    | 2 => norm_num [rcCkt, withWaveFrom, sumS, outflowS, twoTermS, vdS, voltS, fnOps, rcConst]
    | (k + 3) => simp [rcCkt, withWaveFrom, sumS, outflowS, twoTermS, fnOps]
  · intro c hc q hq
    simp [rcCkt, withWaveFrom] at hc
    rcases hc with rfl | rfl | rfl <;> simp [lawsS] at hq
    subst hq
    funext t
    norm_num [vdS, voltS, fnOps, rcConst]

/-- the entry the model extracts: A = −1/12, B = 1/12 -/
example : ∀ M, ssModel rcSolver rcCkt = some M →
    entry (dotx M.base 2 (.Cap 2 0 4 none)) M 2 = -1/12 ∧ entry (dotx M.base 2 (.Cap 2 0 4 none)) M 0 = 1/12 := by
  intro M hM
  obtain ⟨M', hM', hb⟩ := rc_model
  rw [hM'] at hM
  cases hM
  simp only [ssModel] at hM'
  split_ifs at hM'
  cases hM'
  constructor <;> norm_num [entry, dotx, rcSolver, subst, substFrom, substC, rcCkt, ind, freshBase, owned]

end Lcapy.C15
