/-
  SPEC for property C07 (one-port part): what a one-port expression tree MEANS, in the Laplace
  domain at one sample point `s`.  Nothing here says how Lcapy computes impedances.

  A one-port denotes a set of pairs (v, i):
    v = potential of the + terminal minus potential of the − terminal,
    i = current flowing INTO the + terminal (passive convention, the same convention as the
        branch current `J` of Spec/Laws.lean).
  With this convention the Thévenin form is  v = Voc + Z·i  and the Norton form is
  i = Y·v − Isc  (Isc = current delivered out of the + terminal into a short circuit, as
  documented in `OnePort.Isc`).

  series   = same current, voltages add          (Ser, `+`)
  parallel = same voltage, currents add          (Par, `|`)
  Leaves follow doc/networks.rst and the class docstrings of lcapy/oneport.py:
    R: v = R i          G: i = G v        Y: i = Y v        Z: v = Z i
    L (initial current i0):  v = sL·i − L·i0          C (initial voltage v0):  i = sC·v − C·v0
    V: v = e   (e = the source's Laplace-domain value at s)      I: delivers j out of +:  i = −j
    CPE(K, α): impedance 1/(s^α K), i.e.  i = s^α K v
    Xtal(C0,R1,L1,C1): series R1, L1, C1 in parallel with C0           (Butterworth–van Dyke)
    FerriteBead(Rs,Rp,Cp,Lp): Rs in series with the PARALLEL combination of Rp, Lp, Cp
      (this is the documented model: "a series resistor (Rs) connected to a parallel R, L, C
       network (Rp, Lp, Cp)")
  No Mathlib import.
-/
namespace Lcapy.OnePort

/-- class of an independent source (matters only to `simplify`, never to the meaning) -/
inductive Src where
  | gen      -- classes `V` / `I`
  | dc       -- `Vdc` / `Idc`
  | step     -- `Vstep` / `Istep`
  | sdom     -- `sV` / `sI`
  | ac       -- `Vac` / `Iac` (value: the Laplace transform of the sinusoid at the point s)
deriving DecidableEq, Repr

inductive Leaf (K : Type) where
  | R (r : K)
  | G (g : K)
  | L (l : K) (i0 : Option K)
  | C (c : K) (v0 : Option K)
  | Y (y : K)
  | Z (z : K)
  | V (k : Src) (e : K)
  | I (k : Src) (j : K)
  | CPE (k : K) (alpha : Nat)
  | Xtal (c0 r1 l1 c1 : K)
  | FB (rs rp cp lp : K)
deriving Repr

/-- one-port expression trees; `ser`/`par` are n-ary like `Ser(*args)` / `Par(*args)` -/
inductive Net (K : Type) where
  | leaf (l : Leaf K)
  | ser (args : List (Net K))
  | par (args : List (Net K))
deriving Repr

variable {K : Type} [Add K] [Mul K] [Neg K] [Sub K] [Div K] [OfNat K 0] [OfNat K 1]

def ic (o : Option K) : K := match o with | some x => x | none => 0

def npow (s : K) : Nat → K
  | 0 => 1
  | n + 1 => s * npow s n

/-- series composition of two relations: same current, voltages add -/
def SerRel (R1 R2 : K → K → Prop) (v i : K) : Prop := ∃ v1 v2, R1 v1 i ∧ R2 v2 i ∧ v = v1 + v2
/-- parallel composition of two relations: same voltage, currents add -/
def ParRel (R1 R2 : K → K → Prop) (v i : K) : Prop := ∃ i1 i2, R1 v i1 ∧ R2 v i2 ∧ i = i1 + i2

def relR (r : K) (v i : K) : Prop := v = r * i
def relL (s l : K) (i0 : Option K) (v i : K) : Prop := v = s * l * i - l * ic i0
def relC (s c : K) (v0 : Option K) (v i : K) : Prop := i = s * c * v - c * ic v0

/-- the defining relation of every leaf -/
def Leaf.rel (s : K) : Leaf K → K → K → Prop
  | .R r => relR r
  | .G g => fun v i => i = g * v
  | .L l i0 => relL s l i0
  | .C c v0 => relC s c v0
  | .Y y => fun v i => i = y * v
  | .Z z => fun v i => v = z * i
  | .V _ e => fun v _ => v = e
  | .I _ j => fun _ i => i = -j
  | .CPE k a => fun v i => i = npow s a * k * v
  | .Xtal c0 r1 l1 c1 =>      -- (R1 + L1 + C1) | C0
      ParRel (SerRel (SerRel (relR r1) (relL s l1 none)) (relC s c1 none)) (relC s c0 none)
  | .FB rs rp cp lp =>         -- Rs + (Rp | Lp | Cp)
      SerRel (relR rs) (ParRel (ParRel (relR rp) (relL s lp none)) (relC s cp none))

mutual
/-- the set of (v, i) pairs a network admits at the point `s` -/
def Net.rel (s : K) : Net K → K → K → Prop
  | .leaf l => l.rel s
  | .ser as => relSer s as
  | .par as => relPar s as
/-- series: the same current through every argument, the voltages add -/
def relSer (s : K) : List (Net K) → K → K → Prop
  | [] => fun v _ => v = 0
  | a :: t => SerRel (a.rel s) (relSer s t)
/-- parallel: the same voltage across every argument, the currents add -/
def relPar (s : K) : List (Net K) → K → K → Prop
  | [] => fun _ i => i = 0
  | a :: t => ParRel (a.rel s) (relPar s t)
end

/-- Thévenin description: the network admits exactly the pairs on the line v = Voc + Z i -/
def IsThevenin (s : K) (n : Net K) (Z Voc : K) : Prop := ∀ v i, n.rel s v i ↔ v = Voc + Z * i

/-- Norton description: exactly the pairs on the line i = Y v − Isc -/
def IsNorton (s : K) (n : Net K) (Y Isc : K) : Prop := ∀ v i, n.rel s v i ↔ i = Y * v - Isc

/-- executable oracle predicates: a reported (Z, Voc) / (Y, Isc) is consistent with a pair -/
def onThevenin (Z Voc v i : K) : Prop := v = Voc + Z * i
def onNorton (Y Isc v i : K) : Prop := i = Y * v - Isc

end Lcapy.OnePort
