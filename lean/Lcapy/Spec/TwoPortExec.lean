/-
  Executable (Bool) versions of the C08 spec predicates over `Rat`, used by the driver as the
  failing-input oracle.  They are the *same* definitions, made decidable by unfolding.
  No Mathlib import.
-/
import Lcapy.Spec.TwoPort
namespace Lcapy.Spec
open Lcapy

instance (m : M2 Rat) (l1 l2 r1 r2 : Rat) : Decidable (lin m l1 l2 r1 r2) := by
  unfold lin; exact inferInstance

instance (r : Rep) (m : M2 Rat) (Z0 : Rat) (p : Port Rat) : Decidable (rel r m Z0 p) := by
  cases r <;> (unfold rel; exact inferInstance)

instance (d : Derived) (q : Rat) (p : Port Rat) : Decidable (d.holds q p) := by
  cases d <;> (unfold Derived.holds; exact inferInstance)

def Rep.ofString? : String → Option Rep
  | "A" => some .A | "B" => some .B | "G" => some .G | "H" => some .H
  | "S" => some .S | "T" => some .T | "Y" => some .Y | "Z" => some .Z
  | _ => none

def Derived.ofString? : String → Option Derived
  | "Z1oc" => some .Z1oc | "Z1sc" => some .Z1sc | "Z2oc" => some .Z2oc | "Z2sc" => some .Z2sc
  | "Vgain12" => some .Vgain12 | "Vgain21" => some .Vgain21
  | "Igain12" => some .Igain12 | "Igain21" => some .Igain21
  | "forward_transadmittance" => some .fwdTransadmittance
  | "reverse_transadmittance" => some .revTransadmittance
  | "forward_transimpedance" => some .fwdTransimpedance
  | "reverse_transimpedance" => some .revTransimpedance
  | "voltage_gain" => some .Vgain12 | "forward_voltage_gain" => some .Vgain12
  | "reverse_voltage_gain" => some .Vgain21
  | "current_gain" => some .Igain12 | "forward_current_gain" => some .Igain12
  | "reverse_current_gain" => some .Igain21
  | "transadmittance" => some .fwdTransadmittance | "transimpedance" => some .fwdTransimpedance
  | _ => none

end Lcapy.Spec
