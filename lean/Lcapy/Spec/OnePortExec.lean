/-
  Executable evaluator of the C07 one-port SPEC: for EVERY tree (ideal sources in any position
  included, no precondition) the relation `Net.rel` is either empty or a line
  a·v + b·i = c with (a, b) ≠ (0, 0).  `Net.line` computes it without any division, so it is
  exact over `Rat`; Props/C07.lean proves `line_exact : Describes (n.line s) (n.rel s)`.
  The driver uses it as the failing-input oracle: a Thévenin/Norton pair reported by Lcapy is
  judged against the line of the spec.
  No Mathlib import.
-/
import Lcapy.Spec.OnePort
namespace Lcapy.OnePort

structure Line (K : Type) where
  a : K
  b : K
  c : K
deriving Repr, DecidableEq

variable {K : Type} [Add K] [Mul K] [Neg K] [Sub K] [Div K] [OfNat K 0] [OfNat K 1] [DecidableEq K]

/-- `o` describes the relation `R` exactly -/
def Describes (o : Option (Line K)) (R : K → K → Prop) : Prop :=
  match o with
  | some l => (l.a ≠ 0 ∨ l.b ≠ 0) ∧ ∀ v i, R v i ↔ l.a * v + l.b * i = l.c
  | none => ∀ v i, ¬ R v i

def serLine : Option (Line K) → Option (Line K) → Option (Line K)
  | some p, some q =>
    if p.a = 0 then
      if q.a = 0 then (if p.c * q.b = q.c * p.b then some ⟨0, p.b, p.c⟩ else none)
      else some ⟨0, p.b, p.c⟩
    else if q.a = 0 then some ⟨0, q.b, q.c⟩
    else some ⟨p.a * q.a, q.a * p.b + p.a * q.b, q.a * p.c + p.a * q.c⟩
  | _, _ => none

def parLine : Option (Line K) → Option (Line K) → Option (Line K)
  | some p, some q =>
    if p.b = 0 then
      if q.b = 0 then (if p.c * q.a = q.c * p.a then some ⟨p.a, 0, p.c⟩ else none)
      else some ⟨p.a, 0, p.c⟩
    else if q.b = 0 then some ⟨q.a, 0, q.c⟩
    else some ⟨q.b * p.a + p.b * q.a, p.b * q.b, q.b * p.c + p.b * q.c⟩
  | _, _ => none

def lineR (r : K) : Option (Line K) := some ⟨1, -r, 0⟩
def lineL (s l : K) (i0 : Option K) : Option (Line K) := some ⟨1, -(s * l), -(l * ic i0)⟩
def lineC (s c : K) (v0 : Option K) : Option (Line K) := some ⟨s * c, -1, c * ic v0⟩

def Leaf.line (s : K) : Leaf K → Option (Line K)
  | .R r => lineR r
  | .G g => some ⟨g, -1, 0⟩
  | .L l i0 => lineL s l i0
  | .C c v0 => lineC s c v0
  | .Y y => some ⟨y, -1, 0⟩
  | .Z z => some ⟨1, -z, 0⟩
  | .V _ e => some ⟨1, 0, e⟩
  | .I _ j => some ⟨0, 1, -j⟩
  | .CPE k a => some ⟨npow s a * k, -1, 0⟩
  | .Xtal c0 r1 l1 c1 =>
      parLine (serLine (serLine (lineR r1) (lineL s l1 none)) (lineC s c1 none)) (lineC s c0 none)
  | .FB rs rp cp lp =>
      serLine (lineR rs) (parLine (parLine (lineR rp) (lineL s lp none)) (lineC s cp none))

mutual
def Net.line (s : K) : Net K → Option (Line K)
  | .leaf l => l.line s
  | .ser as => lineSer s as
  | .par as => linePar s as
def lineSer (s : K) : List (Net K) → Option (Line K)
  | [] => some ⟨1, 0, 0⟩
  | a :: t => serLine (a.line s) (lineSer s t)
def linePar (s : K) : List (Net K) → Option (Line K)
  | [] => some ⟨0, 1, 0⟩
  | a :: t => parLine (a.line s) (linePar s t)
end

/-- oracle: the reported Thévenin pair (Z, Voc) is the spec's line  ⇔  the line v = Voc + Z i
    coincides with a v + b i = c -/
def thevOK (o : Option (Line K)) (Z Voc : K) : Bool :=
  match o with
  | some l => decide (l.a ≠ 0) && decide (l.a * Voc = l.c) && decide (l.a * Z + l.b = 0)
  | none => false

/-- oracle: the reported Norton pair (Y, Isc) is the spec's line -/
def nortOK (o : Option (Line K)) (Y Isc : K) : Bool :=
  match o with
  | some l => decide (l.b ≠ 0) && decide (l.a + l.b * Y = 0) && decide (-(l.b * Isc) = l.c)
  | none => false

end Lcapy.OnePort
