/-
  SPEC for the TwoPort *network* level of property C08 (round 3).

  * the vectors of every defining equation as signed port variables (`relVectors`); `rel` of
    Spec/TwoPort.lean is proved (Props/C08Net.lean) to be exactly their evaluation, and the
    vectors are proved equal to what the code's `equation()` methods spell;
  * the wave variables with their documented normalisation a = (V + Z0 I) / (2 sqrt Z0),
    b = (V - Z0 I) / (2 sqrt Z0), the square root being a parameter `r` with `r * r = Z0`;
  * two-port models WITH sources: the affine port relation `lhs = M * rhs + (s1, s2)` of the
    class docstrings of TwoPortAModel … TwoPortZModel;
  * how two-ports are connected: cascade (port 2 of a stage drives port 1 of the next),
    parallel-parallel, series-series, series-parallel (hybrid), parallel-series.

  Nothing here mentions how Lcapy converts or combines anything.  No Mathlib import.
-/
import Lcapy.Spec.TwoPort
namespace Lcapy.Spec
open Lcapy

/-- the names a defining equation may mention -/
inductive PVar where
  | V1 | I1 | V2 | I2 | a1 | b1 | a2 | b2
deriving DecidableEq, Repr

/-- a signed port variable, e.g. `-I2` -/
structure SVar where
  neg : Bool
  v : PVar
deriving DecidableEq, Repr

def PVar.name : PVar → String
  | .V1 => "V1" | .I1 => "I1" | .V2 => "V2" | .I2 => "I2"
  | .a1 => "a1" | .b1 => "b1" | .a2 => "a2" | .b2 => "b2"

def Rep.name : Rep → String
  | .A => "A" | .B => "B" | .G => "G" | .H => "H" | .S => "S" | .T => "T" | .Y => "Y" | .Z => "Z"

def Rep.all : List Rep := [.A, .B, .G, .H, .S, .T, .Y, .Z]

/-- (left-hand vector, right-hand vector) of the defining equation `lhs = M * rhs` -/
def relVectors : Rep → (SVar × SVar) × (SVar × SVar)
  | .A => ((⟨false, .V1⟩, ⟨false, .I1⟩), (⟨false, .V2⟩, ⟨true, .I2⟩))
  | .B => ((⟨false, .V2⟩, ⟨true, .I2⟩), (⟨false, .V1⟩, ⟨false, .I1⟩))
  | .G => ((⟨false, .I1⟩, ⟨false, .V2⟩), (⟨false, .V1⟩, ⟨false, .I2⟩))
  | .H => ((⟨false, .V1⟩, ⟨false, .I2⟩), (⟨false, .I1⟩, ⟨false, .V2⟩))
  | .S => ((⟨false, .b1⟩, ⟨false, .b2⟩), (⟨false, .a1⟩, ⟨false, .a2⟩))
  | .T => ((⟨false, .b1⟩, ⟨false, .a1⟩), (⟨false, .a2⟩, ⟨false, .b2⟩))
  | .Y => ((⟨false, .I1⟩, ⟨false, .I2⟩), (⟨false, .V1⟩, ⟨false, .V2⟩))
  | .Z => ((⟨false, .V1⟩, ⟨false, .V2⟩), (⟨false, .I1⟩, ⟨false, .I2⟩))

def SVar.raw (s : SVar) : Bool × String := (s.neg, s.v.name)

/-- the same table in the shape the translator emits (`Gen.equationVectors`) -/
def relVectorsRaw : List (String × List (Bool × String) × List (Bool × String)) :=
  Rep.all.map fun r =>
    let v := relVectors r
    (r.name, [v.1.1.raw, v.1.2.raw], [v.2.1.raw, v.2.2.raw])

section eval
variable {K : Type} [Add K] [Mul K] [Neg K] [Sub K]

def PVar.eval (Z0 : K) (p : Port K) : PVar → K
  | .V1 => p.V1 | .I1 => p.I1 | .V2 => p.V2 | .I2 => p.I2
  | .a1 => wa1 Z0 p | .b1 => wb1 Z0 p | .a2 => wa2 Z0 p | .b2 => wb2 Z0 p

def SVar.eval (Z0 : K) (p : Port K) : SVar → K
  | ⟨true, v⟩ => -(v.eval Z0 p)
  | ⟨false, v⟩ => v.eval Z0 p

/-- the defining equation read off the vectors -/
def relVec (X : Rep) (m : M2 K) (Z0 : K) (p : Port K) : Prop :=
  lin m ((relVectors X).1.1.eval Z0 p) ((relVectors X).1.2.eval Z0 p)
        ((relVectors X).2.1.eval Z0 p) ((relVectors X).2.2.eval Z0 p)

/-- `lhs = M * rhs + s` for 2-vectors -/
def lin2 (m : M2 K) (s1 s2 l1 l2 r1 r2 : K) : Prop :=
  l1 = m.a11 * r1 + m.a12 * r2 + s1 ∧ l2 = m.a21 * r1 + m.a22 * r2 + s2

end eval

/-! ### normalised wave variables -/
section waves
variable {K : Type} [Add K] [Mul K] [Neg K] [Sub K] [Div K] [OfNat K 2]

/-- a_k = (V_k + Z0 I_k) / (2 r),  b_k = (V_k - Z0 I_k) / (2 r)  with r = sqrt Z0 -/
def PVar.evalN (Z0 r : K) (p : Port K) : PVar → K
  | .V1 => p.V1 | .I1 => p.I1 | .V2 => p.V2 | .I2 => p.I2
  | .a1 => wa1 Z0 p / (2 * r) | .b1 => wb1 Z0 p / (2 * r)
  | .a2 => wa2 Z0 p / (2 * r) | .b2 => wb2 Z0 p / (2 * r)

def SVar.evalN (Z0 r : K) (p : Port K) : SVar → K
  | ⟨true, v⟩ => -(v.evalN Z0 r p)
  | ⟨false, v⟩ => v.evalN Z0 r p

/-- the defining equation with the documented (normalised) wave variables -/
def relN (X : Rep) (m : M2 K) (Z0 r : K) (p : Port K) : Prop :=
  lin m ((relVectors X).1.1.evalN Z0 r p) ((relVectors X).1.2.evalN Z0 r p)
        ((relVectors X).2.1.evalN Z0 r p) ((relVectors X).2.2.evalN Z0 r p)
end waves

/-! ### two-port models with sources -/

/-- the six model classes `TwoPortAModel` … `TwoPortZModel` -/
inductive MRep where
  | A | B | G | H | Y | Z
deriving DecidableEq, Repr

def MRep.toRep : MRep → Rep
  | .A => .A | .B => .B | .G => .G | .H => .H | .Y => .Y | .Z => .Z

def MRep.name (r : MRep) : String := r.toRep.name
def MRep.all : List MRep := [.A, .B, .G, .H, .Y, .Z]

/-- names of the two source (offset) quantities of each model, from the class docstrings -/
def MRep.offsetNames : MRep → String × String
  | .A => ("V1a", "I1a") | .B => ("V2b", "I2b") | .G => ("I1g", "V2g")
  | .H => ("V1h", "I2h") | .Y => ("I1y", "I2y") | .Z => ("V1z", "V2z")

/-- the table the translator emits from the `model`, `output`, `input`, `offset` class
    attributes (`output = params * input + offset` is what `TwoPort.equation()` prints) -/
def modelVectorsRaw : List (String × List (Bool × String) × List (Bool × String) × List String) :=
  MRep.all.map fun r =>
    let v := relVectors r.toRep
    (r.name, [v.1.1.raw, v.1.2.raw], [v.2.1.raw, v.2.2.raw], [r.offsetNames.1, r.offsetNames.2])

section affine
variable {K : Type} [Add K] [Mul K] [Neg K] [Sub K]

/-- affine port relation of a model with sources:  lhs = M * rhs + (s1, s2) -/
def arel : MRep → M2 K → K → K → Port K → Prop
  | .A, m, s1, s2, p => lin2 m s1 s2 p.V1 p.I1 p.V2 (-p.I2)
  | .B, m, s1, s2, p => lin2 m s1 s2 p.V2 (-p.I2) p.V1 p.I1
  | .G, m, s1, s2, p => lin2 m s1 s2 p.I1 p.V2 p.V1 p.I2
  | .H, m, s1, s2, p => lin2 m s1 s2 p.V1 p.I2 p.I1 p.V2
  | .Y, m, s1, s2, p => lin2 m s1 s2 p.I1 p.I2 p.V1 p.V2
  | .Z, m, s1, s2, p => lin2 m s1 s2 p.V1 p.V2 p.I1 p.I2

/-- a two-port object: class of its native parameter matrix, the matrix, the source vector -/
structure Stage (K : Type) where
  rep : MRep
  m : M2 K
  s1 : K
  s2 : K

def Stage.rel (t : Stage K) (p : Port K) : Prop := arel t.rep t.m t.s1 t.s2 p

/-- Cascade of a list of stages between (V1, I1) and (V2, I2): the internal port variables are
    existentially quantified; at every junction the voltage is shared and the current leaving
    port 2 of a stage (-I2) enters port 1 of the next.  The empty cascade is a pair of wires. -/
def cascRel : List (Stage K) → K → K → K → K → Prop
  | [], V1, I1, V2, I2 => V2 = V1 ∧ I2 = -I1
  | t :: rest, V1, I1, V2, I2 => ∃ Vm Im, t.rel ⟨V1, I1, Vm, Im⟩ ∧ cascRel rest Vm (-Im) V2 I2

/-- the same with explicit junction values (Vm, Im) — decidable, used by the oracle -/
def cascWit : List (Stage K) → List (K × K) → K → K → K → K → Prop
  | [], [], V1, I1, V2, I2 => V2 = V1 ∧ I2 = -I1
  | t :: rest, (Vm, Im) :: ws, V1, I1, V2, I2 => t.rel ⟨V1, I1, Vm, Im⟩ ∧ cascWit rest ws Vm (-Im) V2 I2
  | _, _, _, _, _, _ => False

/-- ports of two two-ports and of their combination -/
structure Conn (K : Type) where
  p : Port K
  q : Port K
  r : Port K

/-- parallel-parallel: voltages shared, currents add (Par2) -/
def Conn.par (c : Conn K) : Prop :=
  c.p.V1 = c.r.V1 ∧ c.q.V1 = c.r.V1 ∧ c.p.V2 = c.r.V2 ∧ c.q.V2 = c.r.V2 ∧
  c.r.I1 = c.p.I1 + c.q.I1 ∧ c.r.I2 = c.p.I2 + c.q.I2

/-- series-series: currents shared, voltages add (Ser2) -/
def Conn.ser (c : Conn K) : Prop :=
  c.p.I1 = c.r.I1 ∧ c.q.I1 = c.r.I1 ∧ c.p.I2 = c.r.I2 ∧ c.q.I2 = c.r.I2 ∧
  c.r.V1 = c.p.V1 + c.q.V1 ∧ c.r.V2 = c.p.V2 + c.q.V2

/-- series input, parallel output (Hybrid2) -/
def Conn.hyb (c : Conn K) : Prop :=
  c.p.I1 = c.r.I1 ∧ c.q.I1 = c.r.I1 ∧ c.p.V2 = c.r.V2 ∧ c.q.V2 = c.r.V2 ∧
  c.r.V1 = c.p.V1 + c.q.V1 ∧ c.r.I2 = c.p.I2 + c.q.I2

/-- parallel input, series output (InverseHybrid2) -/
def Conn.invhyb (c : Conn K) : Prop :=
  c.p.V1 = c.r.V1 ∧ c.q.V1 = c.r.V1 ∧ c.p.I2 = c.r.I2 ∧ c.q.I2 = c.r.I2 ∧
  c.r.I1 = c.p.I1 + c.q.I1 ∧ c.r.V2 = c.p.V2 + c.q.V2

end affine

/-! ### constructors of the model classes -/

/-- how a constructor treats one optional scalar argument -/
inductive ArgRule where
  | ifNone   -- default substituted only for a missing (None) argument
  | ifFalsy  -- default substituted for every falsy argument (None, and also a numeric zero)
deriving DecidableEq, Repr

/-- the value the object ends up with: `none` = the default (a free symbol for a matrix entry, a
    zero source) was substituted -/
def ArgRule.apply {K : Type} [OfNat K 0] [DecidableEq K] : ArgRule → Option K → Option K
  | _, none => none
  | .ifNone, some v => some v
  | .ifFalsy, some v => if v = 0 then none else some v

/-! ### existence pivots (G3) -/
section pivots
variable {K : Type} [Add K] [Mul K] [Neg K] [Sub K] [OfNat K 1]

/-- the entry / determinant of an `X` matrix that must be non-zero for representation `P` of the
    same two-port to exist (V/I representations; `1` on the diagonal).  Derivation: the right-hand
    variables of `P` are, each, either a right-hand variable of `X` or a row of `m` applied to them;
    the pivot is the determinant of that 2x2 change of variables (up to sign). -/
def pivot : MRep → MRep → M2 K → K
  | .A, .A, _ => 1 | .A, .B, m => m.det | .A, .G, m => m.a11 | .A, .H, m => m.a22 | .A, .Y, m => m.a12 | .A, .Z, m => m.a21
  | .B, .A, m => m.det | .B, .B, _ => 1 | .B, .G, m => m.a22 | .B, .H, m => m.a11 | .B, .Y, m => m.a12 | .B, .Z, m => m.a21
  | .G, .A, m => m.a21 | .G, .B, m => m.a12 | .G, .G, _ => 1 | .G, .H, m => m.det | .G, .Y, m => m.a22 | .G, .Z, m => m.a11
  | .H, .A, m => m.a21 | .H, .B, m => m.a12 | .H, .G, m => m.det | .H, .H, _ => 1 | .H, .Y, m => m.a11 | .H, .Z, m => m.a22
  | .Y, .A, m => m.a21 | .Y, .B, m => m.a12 | .Y, .G, m => m.a22 | .Y, .H, m => m.a11 | .Y, .Y, _ => 1 | .Y, .Z, m => m.det
  | .Z, .A, m => m.a21 | .Z, .B, m => m.a12 | .Z, .G, m => m.a11 | .Z, .H, m => m.a22 | .Z, .Y, m => m.det | .Z, .Z, _ => 1
end pivots

end Lcapy.Spec
