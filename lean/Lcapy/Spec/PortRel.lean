/-
  SPEC for property C05 (circuit level): the port relation of two-terminal elements, of series
  chains and parallel groups, and what it means for one sub-netlist to be replaceable by another
  as seen from the rest of the circuit.  Everything is phrased with `outflow` and `laws` of
  Lcapy/Spec/Laws.lean, so "equivalent" means: the same Kirchhoff/constitutive constraints on
  everything that is retained.
  No Mathlib import.
-/
import Lcapy.Spec.Laws
namespace Lcapy.MNA

variable {K : Type} [Add K] [Mul K] [Neg K] [Sub K] [Div K] [OfNat K 0] [OfNat K 1] [OfNat K 2]

/-- two-terminal element classes that `simplify` combines -/
inductive TT (K : Type) where
  | R (r : K)
  | L (l : K) (i0 : Option K)
  | C (c : K) (v0 : Option K)
  | V (v : K)
  | I (i : K)
  | Z (z : K)
  | Y (y : K)
deriving Repr

/-- value of an optional initial condition: an absent one counts as zero in an initial-value problem -/
def icv (o : Option K) : K := match o with | some v => v | none => 0

/-- `rel kind s e v i`: the element `e` admits the voltage `v` from its first to its second
    terminal together with the current `i` entering its first terminal (leaving the second) -/
def TT.rel (kind : Kind) (s : K) : TT K → K → K → Prop
  | .R r, v, i => i = v / r
  | .Z z, v, i => i = (1 / z) * v
  | .Y y, v, i => i = y * v
  | .C c v0, v, i => i = capCurrent kind s c v0 v
  | .L l i0, v, i =>
      match kind with
      | .dc => v = 0
      | .time => v = 0
      | .lap => v = s * l * i
      | .ivp => v = s * l * i - l * icv i0
  | .V e, v, _ => v = e
  | .I j, _, i => i = -j

/-- the same element connected the other way round -/
def TT.flip : TT K → TT K
  | .R r => .R r
  | .Z z => .Z z
  | .Y y => .Y y
  | .C c v0 => .C c (v0.map (fun x => -x))
  | .L l i0 => .L l (i0.map (fun x => -x))
  | .V e => .V (-e)
  | .I j => .I (-j)

/-- an element with its orientation along the direction in which the group is traversed -/
def TT.orient (same : Bool) (e : TT K) : TT K := if same then e else e.flip

/-- the netlist component between nodes `a` (first) and `b`, with branch-current index `m` -/
def TT.toCpt (e : TT K) (a b m : Nat) : Cpt K :=
  match e with
  | .R r => .R a b r
  | .Z z => .Y a b (1 / z)
  | .Y y => .Y a b y
  | .C c v0 => .Cap a b c v0
  | .L l i0 => .Ind a b m l i0 []
  | .V e => .V a b m e
  | .I j => .I a b j

/-- the current through `e.toCpt a b m` under the assignment `x` -/
def TT.cur (kind : Kind) (s : K) (e : TT K) (a b m : Nat) (x : Ix → K) : K :=
  match e with
  | .R r => vd x a b / r
  | .Z z => (1 / z) * vd x a b
  | .Y y => y * vd x a b
  | .C c v0 => capCurrent kind s c v0 (vd x a b)
  | .L _ _ => x (.br m)
  | .V _ => x (.br m)
  | .I j => -j

def sumK : List K → K
  | [] => 0
  | v :: t => v + sumK t

/-- a series chain: one current through every member, the voltages add -/
def chainRel (kind : Kind) (s : K) : List (TT K) → K → K → Prop
  | [], v, _ => v = 0
  | e :: es, v, i => ∃ v1 v', v = v1 + v' ∧ TT.rel kind s e v1 i ∧ chainRel kind s es v' i

/-- a parallel group: one voltage across every member, the currents add -/
def groupRel (kind : Kind) (s : K) : List (TT K) → K → K → Prop
  | [], _, i => i = 0
  | e :: es, v, i => ∃ i1 i', i = i1 + i' ∧ TT.rel kind s e v i1 ∧ groupRel kind s es v i'

/-- net current leaving node `k` into the components `cs` -/
def kclAt (kind : Kind) (s : K) (cs : List (Cpt K)) (x : Ix → K) (k : Nat) : K :=
  lsum (cs.map (outflow kind s x k))

/-- every defining relation of the components `cs` holds -/
def lawsOf (kind : Kind) (s : K) (cs : List (Cpt K)) (x : Ix → K) : Prop :=
  ∀ c ∈ cs, ∀ p ∈ laws kind s x c, p.2 = 0

/-- `sub₂` can do whatever `sub₁` does, as far as the retained unknowns `R` can tell:
    for every assignment under which `sub₁` obeys its laws and draws no net current at its
    non-retained (interior) nodes there is an assignment that agrees on everything retained,
    under which `sub₂` obeys its laws, draws no net current at interior nodes and draws the
    same current as `sub₁` at every retained node. -/
def Simulates (kind : Kind) (s : K) (R : Ix → Prop) (sub₁ sub₂ : List (Cpt K)) : Prop :=
  ∀ x, lawsOf kind s sub₁ x → (∀ k, k ≠ 0 → ¬ R (.node k) → kclAt kind s sub₁ x k = 0) →
    ∃ y, (∀ i, R i → y i = x i) ∧ lawsOf kind s sub₂ y ∧
      (∀ k, k ≠ 0 → ¬ R (.node k) → kclAt kind s sub₂ y k = 0) ∧
      (∀ k, k ≠ 0 → R (.node k) → kclAt kind s sub₂ y k = kclAt kind s sub₁ x k)

/-- the two sub-netlists have the same port relation on the retained unknowns -/
def SamePortRelation (kind : Kind) (s : K) (R : Ix → Prop) (sub₁ sub₂ : List (Cpt K)) : Prop :=
  Simulates kind s R sub₁ sub₂ ∧ Simulates kind s R sub₂ sub₁

/-- every unknown a component's equations can read -/
def mentions : Cpt K → List Ix
  | .R n1 n2 _ => [.node n1, .node n2]
  | .Cap n1 n2 _ _ => [.node n1, .node n2]
  | .Ind n1 n2 m _ _ coup => [.node n1, .node n2, .br m] ++ coup.map (fun p => Ix.br p.1)
  | .V n1 n2 m _ => [.node n1, .node n2, .br m]
  | .I n1 n2 _ => [.node n1, .node n2]
  | .E n1 n2 n3 n4 m _ _ => [.node n1, .node n2, .node n3, .node n4, .br m]
  | .G n1 n2 n3 n4 _ => [.node n1, .node n2, .node n3, .node n4]
  | .F n1 n2 mc _ => [.node n1, .node n2, .br mc]
  | .H n1 n2 m mc _ => [.node n1, .node n2, .br m, .br mc]
  | .TF n1 n2 n3 n4 m _ => [.node n1, .node n2, .node n3, .node n4, .br m]
  | .GY n1 n2 n3 n4 m1 m2 _ => [.node n1, .node n2, .node n3, .node n4, .br m1, .br m2]
  | .AM n1 n2 m => [.node n1, .node n2, .br m]
  | .TR n1 n2 m _ => [.node n1, .node n2, .br m]
  | .Y n1 n2 _ => [.node n1, .node n2]
  | .Open n1 n2 => [.node n1, .node n2]
  | .TPA n1 n2 n3 n4 m _ _ _ _ => [.node n1, .node n2, .node n3, .node n4, .br m]
  | .TPY n1 n2 n3 n4 _ _ _ _ => [.node n1, .node n2, .node n3, .node n4]
  | .SP n1 n2 n3 n4 m _ _ _ => [.node n1, .node n2, .node n3, .node n4, .br m]
  | .HY n1 n2 m n3 n4 mc _ _ _ => [.node n1, .node n2, .node n3, .node n4, .br m, .br mc]

/-- the rest of the circuit only reads retained unknowns -/
def SupportedIn (R : Ix → Prop) (rest : List (Cpt K)) : Prop :=
  ∀ c ∈ rest, ∀ i ∈ mentions c, R i

/-- node renaming of a component -/
def Cpt.mapNodes (ρ : Nat → Nat) : Cpt K → Cpt K
  | .R n1 n2 r => .R (ρ n1) (ρ n2) r
  | .Cap n1 n2 c v0 => .Cap (ρ n1) (ρ n2) c v0
  | .Ind n1 n2 m l i0 coup => .Ind (ρ n1) (ρ n2) m l i0 coup
  | .V n1 n2 m v => .V (ρ n1) (ρ n2) m v
  | .I n1 n2 i => .I (ρ n1) (ρ n2) i
  | .E n1 n2 n3 n4 m a b => .E (ρ n1) (ρ n2) (ρ n3) (ρ n4) m a b
  | .G n1 n2 n3 n4 g => .G (ρ n1) (ρ n2) (ρ n3) (ρ n4) g
  | .F n1 n2 mc f => .F (ρ n1) (ρ n2) mc f
  | .H n1 n2 m mc h => .H (ρ n1) (ρ n2) m mc h
  | .TF n1 n2 n3 n4 m a => .TF (ρ n1) (ρ n2) (ρ n3) (ρ n4) m a
  | .GY n1 n2 n3 n4 m1 m2 r => .GY (ρ n1) (ρ n2) (ρ n3) (ρ n4) m1 m2 r
  | .AM n1 n2 m => .AM (ρ n1) (ρ n2) m
  | .TR n1 n2 m a => .TR (ρ n1) (ρ n2) m a
  | .Y n1 n2 y => .Y (ρ n1) (ρ n2) y
  | .Open n1 n2 => .Open (ρ n1) (ρ n2)
  | .TPA n1 n2 n3 n4 m a b c d => .TPA (ρ n1) (ρ n2) (ρ n3) (ρ n4) m a b c d
  | .TPY n1 n2 n3 n4 a b c d => .TPY (ρ n1) (ρ n2) (ρ n3) (ρ n4) a b c d
  | .SP n1 n2 n3 n4 m a b c => .SP (ρ n1) (ρ n2) (ρ n3) (ρ n4) m a b c
  | .HY n1 n2 m n3 n4 mc a b c => .HY (ρ n1) (ρ n2) m (ρ n3) (ρ n4) mc a b c

/-- the assignment seen through a node renaming -/
def pullback (ρ : Nat → Nat) (x : Ix → K) : Ix → K
  | .node k => x (.node (ρ k))
  | .br m => x (.br m)

end Lcapy.MNA
